(* Extraction of the executable models for the correspondence driver.
   ExtrOcamlBasic only: Z, positive and Flocq floats stay the extracted inductive datatypes. *)
From Coq Require Import ZArith List.
From Coq Require Extraction ExtrOcamlBasic.
From GCL Require Import Run.Dispatch.
Extraction Language OCaml.
Extraction "model.ml" run_case.
