(* Generic correspondence driver: replays integer-coded traces produced by the Go harness through the
   extracted Coq models and reports every operation whose model output differs from the implementation's.
   zarith is used only to parse and print decimal integers. *)
module ZA = Z
open Model
let rec pos_of_z (n : ZA.t) : positive =
  if ZA.equal n ZA.one then XH
  else if ZA.is_even n then XO (pos_of_z (ZA.shift_right n 1)) else XI (pos_of_z (ZA.shift_right n 1))
let cz (n : ZA.t) : z = if ZA.sign n = 0 then Z0 else if ZA.sign n > 0 then Zpos (pos_of_z n) else Zneg (pos_of_z (ZA.neg n))
let rec z_of_pos = function XH -> ZA.one | XO p -> ZA.shift_left (z_of_pos p) 1 | XI p -> ZA.succ (ZA.shift_left (z_of_pos p) 1)
let zc = function Z0 -> ZA.zero | Zpos p -> z_of_pos p | Zneg p -> ZA.neg (z_of_pos p)

let ints_of toks = List.map ZA.of_string toks
let split s = List.filter (fun x -> x <> "") (String.split_on_char ' ' s)
let show l = "[" ^ String.concat " " (List.map ZA.to_string l) ^ "]"

type case = { comp : ZA.t; cfg : ZA.t list; mutable ops : (ZA.t * ZA.t list * ZA.t list) list; line : int }

let coq_z z = if ZA.sign z < 0 then "(" ^ ZA.to_string z ^ ")" else ZA.to_string z
let coq_list f l = "[" ^ String.concat "; " (List.map f l) ^ "]"

let () =
  let file = Sys.argv.(1) in
  let emit = if Array.length Sys.argv > 3 then Some (int_of_string Sys.argv.(2), Sys.argv.(3)) else None in
  let ic = open_in file in
  let cases = ref [] and cur = ref None and ln = ref 0 in
  (try while true do
    let l = input_line ic in
    incr ln;
    match split l with
    | "CASE" :: c :: cfg -> cur := Some { comp = ZA.of_string c; cfg = ints_of cfg; ops = []; line = !ln }
    | "OP" :: o :: rest ->
        let rec cut acc = function "|" :: r -> (List.rev acc, r) | x :: r -> cut (x :: acc) r | [] -> (List.rev acc, []) in
        let (args, obs) = cut [] rest in
        (match !cur with Some c -> c.ops <- (ZA.of_string o, ints_of args, ints_of obs) :: c.ops | None -> failwith "OP outside CASE")
    | "END" :: _ -> (match !cur with Some c -> c.ops <- List.rev c.ops; cases := c :: !cases; cur := None | None -> ())
    | [] -> ()
    | _ -> failwith ("bad line " ^ string_of_int !ln)
  done with End_of_file -> ());
  let cases = List.rev !cases in
  let ncase = ref 0 and nops = ref 0 and bad = ref 0 and badcases = ref 0 in
  let hist = Hashtbl.create 64 in
  List.iter (fun c ->
    let ops = List.map (fun (o, a, _) -> (cz o, List.map cz a)) c.ops in
    let out = run_case (cz c.comp) (List.map cz c.cfg) ops in
    let k = ref 0 and casebad = ref false in
    (if List.length out <> List.length c.ops then begin
       incr bad; casebad := true;
       Printf.printf "MISMATCH case=%d line=%d comp=%s model returned %d results for %d ops\n" !ncase c.line (ZA.to_string c.comp) (List.length out) (List.length c.ops) end
     else
    List.iter2 (fun m (o, a, obs) ->
      let m = List.map zc m in
      let (br, m) = match m with b :: r -> (b, r) | [] -> (ZA.minus_one, []) in
      let key = ZA.to_string c.comp ^ "." ^ ZA.to_string br in
      Hashtbl.replace hist key (1 + try Hashtbl.find hist key with Not_found -> 0);
      if not (List.length m = List.length obs && List.for_all2 ZA.equal m obs) then begin
        incr bad; casebad := true;
        if !bad <= 40 then
          Printf.printf "MISMATCH case=%d line=%d comp=%s op=%d opcode=%s args=%s branch=%s model=%s impl=%s\n"
            !ncase c.line (ZA.to_string c.comp) !k (ZA.to_string o) (show a) (ZA.to_string br) (show m) (show obs) end;
      incr k; incr nops) out c.ops);
    if !casebad then incr badcases;
    incr ncase) cases;
  Printf.printf "SUMMARY {\"cases\":%d,\"ops\":%d,\"mismatches\":%d,\"bad_cases\":%d,\"branches\":{" !ncase !nops !bad !badcases;
  let first = ref true in
  let keys = List.sort compare (Hashtbl.fold (fun k _ acc -> k :: acc) hist []) in
  List.iter (fun k -> Printf.printf "%s\"%s\":%d" (if !first then "" else ",") k (Hashtbl.find hist k); first := false) keys;
  print_string "}}\n";
  (match emit with
   | Some (n, path) ->
       let oc = open_out path in
       output_string oc "From Coq Require Import ZArith List.\nFrom GCL Require Import Run.Dispatch.\nImport ListNotations.\nOpen Scope Z_scope.\nDefinition cases : list ocase := [\n";
       let sel = List.filteri (fun i _ -> i < n) cases in
       output_string oc (String.concat ";\n" (List.map (fun c ->
         Printf.sprintf "(%s, %s, %s)" (coq_z c.comp) (coq_list coq_z c.cfg)
           (coq_list (fun (o, a, obs) -> Printf.sprintf "((%s, %s), %s)" (coq_z o) (coq_list coq_z a) (coq_list coq_z obs)) c.ops)) sel));
       output_string oc "].\nDefinition M := Eval vm_compute in check_cases 0 cases.\nPrint M.\n";
       close_out oc
   | None -> ());
  exit (if !bad = 0 then 0 else 3)
