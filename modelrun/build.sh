#!/bin/sh
# builds the extracted model + driver; run from /verif/modelrun
set -e
cd "$(dirname "$0")"
coqc -Q ../coq/theories GCL Extract.v >/dev/null
ocamlfind ocamlopt -O2 -package zarith -linkpkg -w -a model.mli model.ml driver.ml -o modelrun 2>/dev/null || \
ocamlfind ocamlopt -package zarith -linkpkg -w -a model.mli model.ml driver.ml -o modelrun
