(* C10 - blocked callers are woken when capacity frees (no lost wake-up or hand-off). *)
From Coq Require Import ZArith List Bool.
From GCL Require Import Model.Waiters Proofs.WaitersProofs Proofs.WaitersDrain Model.BlockingLTS Proofs.BlockingLTSProofs Model.QueueLTS Proofs.QueueLTSProofs Model.DeadlineLTS Proofs.DeadlineLTSProofs.
Import ListNotations.

(* Settled granularity (every operation runs to quiescence): a release on the queue limiter with callers waiting and room
   hands the token, in the same operation, to the caller chosen by the ordering - no further release, timeout or cancellation. *)
Theorem C10_queue_settled s i c pref : w_kind (ws_cfg s) = KQueue -> nth_error (ws_callers s) i = Some c -> c_st c = 1%Z ->
  let s1 := with_callers s (ws_busy s - 1) (ws_now s) (set_caller (ws_callers s) i (mk_caller 3 (c_t c) 0 (c_cancel c))) in
  (exists k, is_blocked s1 k) -> has_room s1 = true ->
  exists j, release s i pref = grant s1 j /\ is_blocked s1 j /\
            forall k, is_blocked s1 k -> if w_fifo (ws_cfg s) then (j <= k)%nat else (k <= j)%nat.
Proof. exact (release_queue_serves s i c pref). Qed.
Print Assumptions C10_queue_settled.

(* Blocking limiter, step granularity (try / sleep / release / broadcast as separate steps, any number of callers):
   in no reachable settled state is capacity free while a caller sleeps - over the schedules in which no Broadcast happens
   while some caller is between its failed attempt and cond.Wait (the window of known finding F8). *)
Theorem C10_blocking_partial s0 s : BlockingLTSProofs.Inv s0 -> reach_nw s0 s -> BlockingLTS.stranded s = false.
Proof. exact (BlockingLTSProofs.C10_blocking_partial s0 s). Qed.
Print Assumptions C10_blocking_partial.

(* ... and inside that window the property FAILS on the faithful model (kernel-checked witness schedule; reproduced on the
   implementation, known finding F8): try fails; release; broadcast; only then the caller goes to sleep. *)
Theorem C10_blocking_refuted :
  exists sched s', BlockingLTS.run {| BlockingLTS.busy := 1; BlockingLTS.limit := 1; BlockingLTS.thr := [BlockingLTS.Holding; BlockingLTS.Idle] |} sched = Some s' /\ BlockingLTS.stranded s' = true.
Proof. exact BlockingLTSProofs.C10_blocking_refuted. Qed.
Print Assumptions C10_blocking_refuted.

(* Queue limiter, step granularity: three race windows in which the hand-off is lost (known finding F9 a, b, c) *)
Theorem C10_queue_refuted_before_push :
  exists sched, ends_in QueueLTS.stranded (init1 FIFO 10 [QueueLTS.Holding; W0]) sched = true.
Proof. exact QueueLTSProofs.C10_queue_refuted_before_push. Qed.
Print Assumptions C10_queue_refuted_before_push.
Theorem C10_queue_refuted_before_select :
  exists sched, ends_in (fun s => QueueLTS.stranded s && Nat.eqb (length (backlog s)) 0) (init1 FIFO 10 [QueueLTS.Holding; W0]) sched = true.
Proof. exact QueueLTSProofs.C10_C12_queue_refuted_before_select. Qed.
Print Assumptions C10_queue_refuted_before_select.
Theorem C10_queue_refuted_giveup_during_handoff :
  exists sched, ends_in QueueLTS.stranded (init1 FIFO 10 [QueueLTS.Holding; W0; W0]) sched = true.
Proof. exact QueueLTSProofs.C10_queue_refuted_giveup_during_handoff. Qed.
Print Assumptions C10_queue_refuted_giveup_during_handoff.

(* Settled granularity, all three wrappers (blocking, deadline, queue): whenever a holder releases while callers are blocked, at least one
   of them holds a token when the operation settles - no further release, timeout or cancellation is needed. *)
Theorem C10_release_serves_settled s i c pref : nth_error (ws_callers s) i = Some c -> c_st c = 1%Z -> within s -> (0 < nblocked s)%Z ->
  (nblocked (release s i pref) <= nblocked s - 1)%Z.
Proof. exact (release_serves_one s i c pref). Qed.
Print Assumptions C10_release_serves_settled.

(* Deadline limiter, step granularity with an explicit clock (try / sleep / release / broadcast / tick / timer as separate steps, any
   number of callers): the same statement and the same window as for the blocking limiter ... *)
Theorem C10_deadline_partial s0 s : DInv s0 -> dreach_nw s0 s -> dstranded s = false.
Proof. exact (deadline_partial s0 s). Qed.
Print Assumptions C10_deadline_partial.

(* ... and inside the window it FAILS (known finding F8d, replayed on the implementation by raceF8deadline): the caller sleeps before
   the deadline with capacity free; when its timer fires after the deadline instant it is refused although the token was free all along. *)
Theorem C10_deadline_refuted : exists s', drun d0 lost_sched = Some s' /\ dstranded s' = true.
Proof. exact deadline_refuted. Qed.
Print Assumptions C10_deadline_refuted.
Theorem C10_deadline_refuted_refusal :
  exists s', drun d0 (lost_sched ++ [DTick; DTick; DTick; DTick; DTick; DTick; DTimer 1%nat; DTry 1%nat]) = Some s'
             /\ nth_error (dthr s') 1 = Some DRefused /\ dbusy s' = 0%Z /\ dlimit s' = 1%Z.
Proof. exact deadline_refuted_refusal. Qed.
Print Assumptions C10_deadline_refuted_refusal.
