(* C11 - the queue limiter serves waiters in the configured order. *)
From Coq Require Import ZArith List Bool.
From GCL Require Import Model.Waiters Proofs.WaitersProofs.
From GCL Require Proofs.TablesOk.
Import ListNotations.

(* the waiter served is blocked, and it is the longest-waiting one (FIFO) / the most recent one (LIFO) among the callers still
   blocked - callers that timed out or were cancelled are no longer blocked, so they are never considered *)
Theorem C11_order s j : peek s = Some j ->
  is_blocked s j /\ forall i, is_blocked s i -> if w_fifo (ws_cfg s) then (j <= i)%nat else (i <= j)%nat.
Proof. exact (peek_order s j). Qed.
Print Assumptions C11_order.

(* a release serves exactly that waiter *)
Theorem C11_release s i c pref : w_kind (ws_cfg s) = KQueue -> nth_error (ws_callers s) i = Some c -> c_st c = 1%Z ->
  let s1 := with_callers s (ws_busy s - 1) (ws_now s) (set_caller (ws_callers s) i (mk_caller 3 (c_t c) 0 (c_cancel c))) in
  release s i pref = match peek s1 with Some j => if has_room s1 then grant s1 j else s1 | None => s1 end.
Proof. exact (release_queue s i c pref). Qed.
Print Assumptions C11_release.

(* every way of constructing the limiter installs the order its name and documentation state (generated fact, re-checked on
   every run against the constructors of /repo as built now: Gen/Tables.v ctor_table) *)
Theorem C11_constructors : TablesOk.rows_eqb Gen.Tables.ctor_table ctor_expected = true.
Proof. exact TablesOk.ctors_agree. Qed.
Print Assumptions C11_constructors.
