(* C20 - metrics tell the truth; registries poll only between Start and Stop. *)
From Coq Require Import ZArith List Bool.
From GCL Require Import Base.F64 Model.Measure Model.Limits Model.Registry Proofs.MetricsProofs.
Import ListNotations.
Open Scope Z_scope.

(* every sample processed by a limit algorithm emits its RTT once, its in-flight once, and increments the drop counter iff it was
   a drop - whatever branch the algorithm takes (probe, baseline update, app-limited return, update) *)
Theorem C20_aimd_emits a s : sample_emits s (o_emit (aimd_step a s)).
Proof. exact (aimd_emits a s). Qed.
Print Assumptions C20_aimd_emits.
Theorem C20_vegas_emits v s o : vegas_step v s = Some o -> sample_emits s (o_emit o).
Proof. exact (vegas_emits v s o). Qed.
Print Assumptions C20_vegas_emits.
Theorem C20_gradient_emits v s o : grad_step v s = Some o -> sample_emits s (o_emit o).
Proof. exact (grad_emits v s o). Qed.
Print Assumptions C20_gradient_emits.
Theorem C20_gradient2_emits v s : sample_emits s (o_emit (grad2_step v s)).
Proof. exact (grad2_emits v s). Qed.
Print Assumptions C20_gradient2_emits.

(* registries: at most one poller, gauges are polled only while started - once per period and gauge -, Start and Stop are
   idempotent and Stop leaves no poller; for every Start / Stop / Tick / Register sequence *)
Theorem C20_registry_step r o : reg_ok r -> reg_ok (fst (reg_step r o)) /\
  (r_started r = false -> snd (reg_step r o) = 0) /\
  (forall n, o = RTick n -> r_started r = true -> snd (reg_step r o) = n * r_gauges r).
Proof. exact (reg_step_ok r o). Qed.
Print Assumptions C20_registry_step.
Theorem C20_registry_idempotent r : reg_ok r ->
  fst (reg_step (fst (reg_step r RStart)) RStart) = fst (reg_step r RStart) /\
  fst (reg_step (fst (reg_step r RStop)) RStop) = fst (reg_step r RStop) /\
  r_pollers (fst (reg_step r RStop)) = 0 /\ r_pollers (fst (reg_step r RStart)) = 1.
Proof. exact (reg_idempotent r). Qed.
Print Assumptions C20_registry_idempotent.
Theorem C20_registry_history ops r : reg_ok r -> reg_ok (fold_left (fun r o => fst (reg_step r o)) ops r).
Proof. exact (fun H => reg_run_ok ops r H). Qed.
Print Assumptions C20_registry_history.
