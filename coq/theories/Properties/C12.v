(* C12 - the backlog is bounded and holds exactly the callers still blocked. *)
From Coq Require Import ZArith List Bool.
From GCL Require Import Model.Waiters Proofs.WaitersProofs Model.QueueLTS Proofs.QueueLTSProofs.
Import ListNotations.
Open Scope Z_scope.

(* settled granularity: an arrival waits only while fewer than maxBacklog callers are blocked, so the bound is never exceeded;
   an arrival at a full backlog (and no capacity) is refused in the same instant *)
Theorem C12_bound s cancelled : w_kind (ws_cfg s) = KQueue -> 0 <= w_maxb (ws_cfg s) -> nblocked s <= w_maxb (ws_cfg s) ->
  nblocked (arrive s cancelled) <= w_maxb (ws_cfg s) /\ ws_cfg (arrive s cancelled) = ws_cfg s /\
  (w_maxb (ws_cfg s) <= nblocked s -> has_room s = false ->
     nth_error (ws_callers (arrive s cancelled)) (length (ws_callers s)) = Some (mk_caller 2 (ws_now s) 0 cancelled)).
Proof. exact (arrive_bound s cancelled). Qed.
Print Assumptions C12_bound.

(* step granularity: the length check and the push are separate steps, so two arrivals can both pass the check (known finding F11) *)
Theorem C12_bound_refuted :
  exists sched, ends_in (fun s => maxb s <? Z.of_nat (length (backlog s))) (init1 FIFO 1 [Holding; W0; W0]) sched = true.
Proof. exact QueueLTSProofs.C12_bound_refuted. Qed.
Print Assumptions C12_bound_refuted.

(* step granularity: a hand-off attempted between push and select evicts the waiter, which then blocks outside the backlog (F9b) *)
Theorem C12_exact_refuted :
  exists sched, ends_in (fun s => stranded s && Nat.eqb (length (backlog s)) 0) (init1 FIFO 10 [Holding; W0]) sched = true.
Proof. exact QueueLTSProofs.C10_C12_queue_refuted_before_select. Qed.
Print Assumptions C12_exact_refuted.
