(* C08 - more latency never means more limit (update monotone in the observed RTT). *)
From Coq Require Import ZArith Reals List.
From Flocq Require Import Core BinarySingleNaN.
From GCL Require Import Base.F64 Base.F64Facts Model.Measure Model.Limits Proofs.VegasSafe Proofs.VegasMono.
From GCL Require Proofs.TablesOk.

(* Vegas.  The observed RTT enters the update only through the queue estimate q = ceil(est x (1 - baseline/rtt)) (vegas_queue).
   For every state satisfying the C04 invariant (estimate within [1, M + 1/2], i.e. initial <= max), the same in-flight and drop flag,
   and two queue estimates q1 <= q2 whose samples both update the estimate (neither is a probe, baseline-setting, app-limited,
   nor in the dead band alpha <= q <= beta): the stored estimate after q2 is not above the stored estimate after q1.
   PARTIAL: (i) monotonicity of q itself in the RTT (float division/ceil) and (ii) the comparison between an updating sample and a
   dead-band sample (where rounding of the smoothing weights can move the stored value by an ulp) are decided by the twin-run check. *)
Theorem C08_vegas_partial v M s pc em : VInv v M -> sample_ok s ->
  (forall l y, log10i (to_int (v_est v)) (s_lgi s) = Some l -> log10f (v_est v) (s_lgf s) = Some y -> (R y <= 6 * IZR l)%R) ->
  forall q1 q2 o1 o2, (q1 <= q2)%Z ->
  vegas_update v s pc em q1 = Some o1 -> vegas_update v s pc em q2 = Some o2 ->
  o_notify o1 <> nil -> o_notify o2 <> nil ->
  (R (v_est (o_st o2)) <= R (v_est (o_st o1)))%R.
Proof. exact (fun HI HS HL q1 q2 o1 o2 => vegas_update_mono v M s pc em HI HS HL q1 q2 o1 o2). Qed.
Print Assumptions C08_vegas_partial.

Theorem C08_tables_agree : TablesOk.tables_ok = true /\ TablesOk.functions_ok = true /\ TablesOk.log10f_ok = true.
Proof. exact (conj TablesOk.tables_agree (conj TablesOk.functions_agree TablesOk.log10f_agrees)). Qed.
Print Assumptions C08_tables_agree.
