(* C08 - more latency never means more limit (update monotone in the observed RTT). *)
From Coq Require Import ZArith Reals List.
From Flocq Require Import Core BinarySingleNaN.
From GCL Require Import Base.F64 Base.F64Facts Model.Measure Model.Limits Proofs.VegasSafe Proofs.VegasMono Proofs.VegasQueueMono Proofs.VegasMonoFull Proofs.VegasCeil Proofs.GradSafe Proofs.GradMono Proofs.GradMixed Proofs.Grad2Safe Proofs.Grad2Mono.
From GCL Require Proofs.TablesOk.

(* Vegas.  The observed RTT enters the update only through the queue estimate q = ceil(est x (1 - baseline/rtt)) (vegas_queue).
   For every state satisfying the C04 invariant (estimate within [1, M + 1/2], i.e. initial <= max), the same in-flight and drop flag,
   and two queue estimates q1 <= q2 whose samples both update the estimate (neither is a probe, baseline-setting, app-limited,
   nor in the dead band alpha <= q <= beta): the stored estimate after q2 is not above the stored estimate after q1.
   (i) Monotonicity of q itself in the RTT is C08_vegas_queue_mono below, and C08_vegas_rtt_mono composes the two on vegas_step.
   (ii) The comparison between an updating sample and a dead-band sample is C08_vegas_all_branches (estimate in [7/4, max - 1]); outside
   that range (estimate above max - 1, known finding F18 for initial > max) it is decided by the twin-run check. *)
Theorem C08_vegas_partial v M s pc em : VInv v M -> sample_ok s ->
  (forall l y, log10i (to_int (v_est v)) (s_lgi s) = Some l -> log10f (v_est v) (s_lgf s) = Some y -> (R y <= 6 * IZR l)%R) ->
  forall q1 q2 o1 o2, (q1 <= q2)%Z ->
  vegas_update v s pc em q1 = Some o1 -> vegas_update v s pc em q2 = Some o2 ->
  o_notify o1 <> nil -> o_notify o2 <> nil ->
  (R (v_est (o_st o2)) <= R (v_est (o_st o1)))%R.
Proof. exact (fun HI HS HL q1 q2 o1 o2 => vegas_update_mono v M s pc em HI HS HL q1 q2 o1 o2). Qed.
Print Assumptions C08_vegas_partial.

(* ... and the dead-band corner: for an estimate in [7/4, max - 1] (ceiling bound M >= 20) the statement holds across ALL branches, the dead band
   (estimate kept) and the app-limited case included - the smoothed increase never ends below the current estimate and the smoothed decrease never above it *)
Theorem C08_vegas_all_branches v M s pc em : VInv v M -> sample_ok s -> (20 <= M)%Z ->
  (7/4 <= R (v_est v))%R -> (R (v_est v) <= IZR (v_max v) - 1)%R ->
  (forall l y, log10i (to_int (v_est v)) (s_lgi s) = Some l -> log10f (v_est v) (s_lgf s) = Some y -> (R y <= 6 * IZR l)%R) ->
  forall q1 q2 o1 o2, (q1 <= q2)%Z ->
  vegas_update v s pc em q1 = Some o1 -> vegas_update v s pc em q2 = Some o2 ->
  (R (v_est (o_st o2)) <= R (v_est (o_st o1)))%R.
Proof. exact (fun HI HS M20 Elo Ehi HL q1 q2 o1 o2 => vegas_update_mono_full v M s pc em HI HS M20 Elo Ehi HL q1 q2 o1 o2). Qed.
Print Assumptions C08_vegas_all_branches.

(* the queue estimate int(ceil(est x (1 - baseline/rtt))) is monotone in the RTT, for RTTs at or above the baseline: every binary64
   operation on the way is monotone on the operands' range *)
Theorem C08_vegas_queue_mono v M rtt1 rtt2 : VInv v M -> fin (v_noload v) = true -> (0 <= R (v_noload v) <= 4611686018427387904)%R ->
  (1 <= rtt1 <= rtt2)%Z -> (rtt2 <= 2^62)%Z -> (R (v_noload v) <= R (of_int rtt1))%R ->
  (vegas_queue v rtt1 <= vegas_queue v rtt2)%Z.
Proof. exact (fun HI F B => vegas_queue_mono v M HI F B rtt1 rtt2). Qed.
Print Assumptions C08_vegas_queue_mono.

(* Vegas, whole step: same state, two samples that differ only in their RTT (rtt1 <= rtt2, both at or above the baseline), both update the
   estimate: the higher RTT never yields the higher stored estimate *)
Theorem C08_vegas_rtt_mono v M s1 s2 o1 o2 : VInv v M -> sample_ok s1 -> sample_ok s2 ->
  fin (v_noload v) = true -> (0 <= R (v_noload v) <= 4611686018427387904)%R ->
  s_inflight s2 = s_inflight s1 -> s_drop s2 = s_drop s1 -> s_lgi s2 = s_lgi s1 -> s_lgf s2 = s_lgf s1 ->
  (1 <= s_rtt s1 <= s_rtt s2)%Z -> (R (v_noload v) <= R (of_int (s_rtt s1)))%R ->
  (forall l y, log10i (to_int (v_est v)) (s_lgi s1) = Some l -> log10f (v_est v) (s_lgf s1) = Some y -> (R y <= 6 * IZR l)%R) ->
  vegas_step v s1 = Some o1 -> vegas_step v s2 = Some o2 -> o_notify o1 <> nil -> o_notify o2 <> nil ->
  (R (v_est (o_st o2)) <= R (v_est (o_st o1)))%R.
Proof. exact (vegas_rtt_mono v M s1 s2 o1 o2). Qed.
Print Assumptions C08_vegas_rtt_mono.

(* Gradient (PARTIAL): same state, two drop-free saturated samples that differ only in their RTT (rtt1 <= rtt2), neither a probe step nor lowering the
   baseline.  The candidate est x max(1/2, min(1, tolerance x baseline/rtt)) + queue allowance is antitone in the RTT in binary64, and so is the new stored
   estimate whenever both candidates fall on the same side of the current estimate (both smoothed, or both taken as they are).  The mixed case is
   decided by the twin-run oracle. *)
Theorem C08_gradient_partial g Mx s1 s2 o1 o2 q : GInv g Mx -> gsample_ok s1 -> gsample_ok s2 ->
  sqrt_q (to_int (g_est g)) = Some q -> (4 <= q <= Mx)%Z ->
  s_drop s1 = false -> s_drop s2 = false -> s_inflight s2 = s_inflight s1 ->
  (1 <= s_rtt s1 <= s_rtt s2)%Z ->
  min_add (g_noload g) (of_int (s_rtt s1)) = g_noload g -> min_add (g_noload g) (of_int (s_rtt s2)) = g_noload g ->
  flt (of_int (s_inflight s1)) (div (g_est g) two) = false ->
  grad_step g s1 = Some o1 -> grad_step g s2 = Some o2 -> o_branch o1 <> 1%Z -> o_branch o2 <> 1%Z ->
  let c1 := grad_cand g q (grad_gradient (g_tol g) (to_int (g_noload g)) (s_rtt s1)) in
  let c2 := grad_cand g q (grad_gradient (g_tol g) (to_int (g_noload g)) (s_rtt s2)) in
  (R c2 <= R c1)%R /\ (flt c1 (g_est g) = flt c2 (g_est g) -> (R (g_est (o_st o2)) <= R (g_est (o_st o1)))%R).
Proof. exact (grad_rtt_mono g Mx s1 s2 o1 o2 q). Qed.
Print Assumptions C08_gradient_partial.

(* The mixed case with a margin: the lower RTT's candidate is at or above the estimate, the higher RTT's below it (and smoothed).  In binary64
   the smoothed value can exceed the estimate by an ulp (the weight rnd(1 - s) rounds up), so the statement asks for the lower RTT's candidate to
   be at least estimate + 1; then - as in the two same-side cases - the higher RTT never ends with the larger stored estimate.  Left to the
   twin-run oracle: est <= c1 < est + 1 with c2 < est. *)
Theorem C08_gradient_margin g Mx s1 s2 o1 o2 q : GInv g Mx -> gsample_ok s1 -> gsample_ok s2 ->
  sqrt_q (to_int (g_est g)) = Some q -> (4 <= q <= Mx)%Z ->
  s_drop s1 = false -> s_drop s2 = false -> s_inflight s2 = s_inflight s1 ->
  (1 <= s_rtt s1 <= s_rtt s2)%Z ->
  min_add (g_noload g) (of_int (s_rtt s1)) = g_noload g -> min_add (g_noload g) (of_int (s_rtt s2)) = g_noload g ->
  flt (of_int (s_inflight s1)) (div (g_est g) two) = false ->
  grad_step g s1 = Some o1 -> grad_step g s2 = Some o2 -> o_branch o1 <> 1%Z -> o_branch o2 <> 1%Z ->
  let c1 := grad_cand g q (grad_gradient (g_tol g) (to_int (g_noload g)) (s_rtt s1)) in
  let c2 := grad_cand g q (grad_gradient (g_tol g) (to_int (g_noload g)) (s_rtt s2)) in
  (R c1 < R (g_est g) \/ R (g_est g) <= R c2 \/ R (g_est g) + 1 <= R c1)%R ->
  (R (g_est (o_st o2)) <= R (g_est (o_st o1)))%R.
Proof. exact (grad_rtt_mono_margin g Mx s1 s2 o1 o2 q). Qed.
Print Assumptions C08_gradient_margin.

(* ... and exactly AT the ceiling the property FAILS on the faithful model (kernel-checked witness; reproduced on the implementation, known
   finding F24): estimate = maximum = 12, smoothing 0.3.  A sample at the baseline RTT takes the increase branch, is clamped to the maximum
   and smoothed: 0.7*12 + 0.3*12 rounds to 11.999999999999998, reported as 11; a sample with a higher RTT (queue inside the dead band)
   leaves 12.  This is why C08_vegas_all_branches stops at max - 1. *)
Theorem C08_vegas_refuted_at_ceiling : vc_after 1000000 = Some 11%Z /\ vc_after 1600000 = Some 12%Z.
Proof. exact vegas_ceiling_refuted. Qed.
Print Assumptions C08_vegas_refuted_at_ceiling.

(* What F24 can cost: whenever the clamped candidate is at or above the estimate (every increase, the clamped one at the ceiling included)
   the smoothing lowers the stored estimate by less than 2^-20 - so the reported integer falls by at most one, and only when the stored
   estimate was within 2^-20 above an integer (at the ceiling: the maximum itself). *)
Theorem C08_vegas_increase_costs_little v M newl : VInv v M -> fin newl = true ->
  (R (v_est v) <= R (fmax one (fmin (of_int (v_max v)) newl)))%R -> (R (v_est v) - / 1048576 <= R (smoothed v newl))%R.
Proof. exact (vegas_increase_never_costs_much v M newl). Qed.
Print Assumptions C08_vegas_increase_costs_little.

(* Gradient2 (partial).  The updating branch of a step computes g2_finish est (g2_gradient long' rtt), where long' is the long-term average
   after the sample has been added to it.  In binary64 the new stored estimate is monotone in the gradient, and for a given long-term value
   the gradient max(1/2, min(1, long'/rtt)) is antitone in the RTT (and monotone in long').  That long' itself grows with the RTT - by the
   factor f of the exponential average, so that long'/rtt still falls - is not covered here: the twin-run oracle decides it. *)
Theorem C08_gradient2_step_shape v s : flt (of_int (s_inflight s)) (div (h_est v) two) = false ->
  h_est (o_st (grad2_step v s)) = g2_finish v (g2_gradient (ea_value (ea_add (h_long v) (of_int (s_rtt s)))) (of_int (s_rtt s))).
Proof. exact (grad2_step_finish v s). Qed.
Print Assumptions C08_gradient2_step_shape.
Theorem C08_gradient2_partial g Mx gr1 gr2 : G2Inv g Mx -> fin gr1 = true -> fin gr2 = true -> (/2 <= R gr1 <= R gr2)%R -> (R gr2 <= 1)%R ->
  (R (g2_finish g gr1) <= R (g2_finish g gr2))%R.
Proof. exact (fun HI => g2_finish_mono g Mx HI gr1 gr2). Qed.
Print Assumptions C08_gradient2_partial.
Theorem C08_gradient2_gradient lv1 lv2 x1 x2 : fin lv1 = true -> fin lv2 = true -> fin x1 = true -> fin x2 = true ->
  (0 <= R lv1 <= R lv2)%R -> (R lv2 <= BB)%R -> (1 <= R x2 <= R x1)%R -> (R x1 <= XX)%R ->
  fin (g2_gradient lv1 x1) = true /\ fin (g2_gradient lv2 x2) = true /\
  (/2 <= R (g2_gradient lv1 x1) <= R (g2_gradient lv2 x2))%R /\ (R (g2_gradient lv2 x2) <= 1)%R.
Proof. exact (g2_gradient_mono lv1 lv2 x1 x2). Qed.
Print Assumptions C08_gradient2_gradient.

Theorem C08_tables_agree : TablesOk.tables_ok = true /\ TablesOk.functions_ok = true /\ TablesOk.log10f_ok = true.
Proof. exact (conj TablesOk.tables_agree (conj TablesOk.functions_agree TablesOk.log10f_agrees)). Qed.
Print Assumptions C08_tables_agree.
