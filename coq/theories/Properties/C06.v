(* C06 - loss response. *)
From Coq Require Import ZArith Reals List Lia Lra.
From Flocq Require Import Core BinarySingleNaN.
From GCL Require Proofs.TablesOk.
From GCL Require Import Base.F64 Base.F64Facts Model.Measure Model.Limits Proofs.AimdProofs Proofs.VegasSafe Proofs.GradSafe Proofs.GradDrop Proofs.VegasDrop Proofs.DropRuns Proofs.GradFloor Proofs.VegasFloor.

(* AIMD moves exactly to max(1, min(limit-1, floor(limit x ratio))), the product being the binary64 product
   (round-to-nearest-even of the real product) that the implementation computes. *)
Theorem C06_aimd_exact l ratio : (1 <= l < 2^52)%Z -> fin ratio = true -> (0 <= R ratio <= 1)%R ->
  aimd_drop_limit l ratio = Z.max 1 (Z.min (l - 1) (Zfloor (rnd (IZR l * R ratio)))).
Proof. exact (aimd_drop_exact l ratio). Qed.
Print Assumptions C06_aimd_exact.

(* hence a drop never raises AIMD's limit, lowers it strictly while above 1, and never goes below the floor 1 *)
Theorem C06_aimd_nonincrease l ratio : (1 <= l < 2^52)%Z -> fin ratio = true -> (0 <= R ratio <= 1)%R ->
  (1 <= aimd_drop_limit l ratio <= Z.max 1 (l - 1))%Z.
Proof. exact (aimd_drop_bounds l ratio). Qed.
Print Assumptions C06_aimd_nonincrease.

(* Generated-fact obligation, re-checked on every run against Gen/Tables.v (dumped from /repo's limit/functions as built now):
   the lookup tables and the queue-size / log10 functions agree with the model's closed forms on the table,
   at its boundary and beyond it. *)
Theorem C06_tables_agree : TablesOk.tables_ok = true /\ TablesOk.functions_ok = true /\ TablesOk.log10f_ok = true.
Proof. exact (conj TablesOk.tables_agree (conj TablesOk.functions_agree TablesOk.log10f_agrees)). Qed.
Print Assumptions C06_tables_agree.

(* Gradient: from every state satisfying the safety invariant GInv (C04: established at construction and preserved by every step)
   whose estimate is at least the smallest queue allowance 4, a drop sample never raises the stored estimate - through the halving,
   the binary64 smoothing (any smoothing in [2^-50, 1]) and the clamps, including when the sample is also a probe. States with an estimate
   below 4 exist only when the limit is constructed with initial < 4 (known finding F5: there a drop raises the limit to the queue allowance). *)
Theorem C06_gradient_nonincrease g Mx s o : GInv g Mx -> gsample_ok s -> s_drop s = true ->
  (/ 1125899906842624 <= R (g_s g))%R -> (4 <= R (g_est g))%R ->
  grad_step g s = Some o -> (R (g_est (o_st o)) <= R (g_est g))%R.
Proof. exact (grad_drop_nonincrease g Mx s o). Qed.
Print Assumptions C06_gradient_nonincrease.

(* ... and this holds after ANY sample history: the side conditions (invariant, estimate >= 4, smoothing) are preserved by every step *)
Theorem C06_gradient_after_any_history g Mx pre g' s o :
  GD g Mx -> Forall gsample_ok pre -> grad_run g pre = Some g' ->
  gsample_ok s -> s_drop s = true -> grad_step g' s = Some o ->
  (grad_est (o_st o) <= grad_est g')%Z.
Proof. exact (grad_drop_after_any_history g Mx pre g' s o). Qed.
Print Assumptions C06_gradient_after_any_history.

(* Vegas: from every state satisfying the safety invariant VInv (which carries smoothing >= 2^-50 x M) a drop sample - whether it
   probes, lowers the baseline or reaches updateEstimatedLimit - never raises the reported estimate, and never raises the stored
   binary64 estimate once that is at least 7/4 (below, the reported estimate is already at the floor 1 and stays there). *)
Theorem C06_vegas_nonincrease v M s o : VInv v M -> sample_ok s -> s_drop s = true ->
  vegas_step v s = Some o ->
  (vegas_est (o_st o) <= vegas_est v)%Z /\ (7/4 <= R (v_est v) -> R (v_est (o_st o)) <= R (v_est v))%R.
Proof. exact (vegas_drop_nonincrease v M s o). Qed.
Print Assumptions C06_vegas_nonincrease.

Theorem C06_vegas_after_any_history v M pre v' s o :
  VInv v M -> Forall sample_ok pre -> vegas_run v pre = Some v' ->
  sample_ok s -> s_drop s = true -> vegas_step v' s = Some o ->
  (vegas_est (o_st o) <= vegas_est v')%Z.
Proof. exact (vegas_drop_after_any_history v M pre v' s o). Qed.
Print Assumptions C06_vegas_after_any_history.

(* a sustained run of drops is monotone: the reported estimates never go back up (and no step panics) *)
Theorem C06_vegas_drop_run_monotone M l v : VInv v M -> Forall (fun s => sample_ok s /\ s_drop s = true) l ->
  nonincreasing (vegas_trace v l).
Proof. exact (vegas_drop_run_monotone M l v). Qed.
Print Assumptions C06_vegas_drop_run_monotone.

(* non-vacuity: a Gradient limit built with initial 50, min 1, max 1000, smoothing 1.0, tolerance 2.0 satisfies the premises *)
Example C06_gradient_premises_ok cnt0 : GD (grad_init 50 1 1000 1000 one two cnt0) 1000.
Proof.
  assert (B1: orb (flt one zero) (fgt one one) = false) by (vm_compute; reflexivity).
  assert (B2: flt two zero = false) by (vm_compute; reflexivity).
  destruct R_one as [F1 E1]. destruct R_zero as [F0 E0]. destruct (of_int_exact 2) as [F2 E2]; [lia|]. destruct (of_int_exact 50) as [F50 E50]; [lia|].
  unfold GD, GInv, grad_init; cbn [g_est g_noload g_min g_max g_s g_tol]. rewrite B1, B2. cbn [Z.leb Z.ltb Z.compare Pos.compare Pos.compare_cont].
  fold one two zero. split; [split; [constructor; cbn [g_est g_noload g_min g_max g_s g_tol]; try lia; auto|]|].
  - rewrite E1. lra.
  - change two with (of_int 2). rewrite E2. simpl. lra.
  - repeat split; auto; rewrite ?E50, ?E0; simpl; lra.
  - rewrite E50, E1. simpl. lra.
Qed.

(* AIMD reaches its floor: every run of drop samples brings the limit to at most max(1, limit - n), hence to exactly 1 within (limit - 1)
   samples - the bound "a number of samples bounded by the configuration" - and keeps it there *)
Theorem C06_aimd_floor_reached ss a : (1 <= a_limit a < 2^52)%Z -> fin (a_ratio a) = true -> (0 <= R (a_ratio a) <= 1)%R ->
  Forall (fun s => s_drop s = true) ss -> (a_limit a - 1 <= Z.of_nat (length ss))%Z -> a_limit (aimd_run a ss) = 1%Z.
Proof. exact (aimd_floor_reached ss a). Qed.
Print Assumptions C06_aimd_floor_reached.

(* Gradient reaches its floor: every drop sample (probe step or not) contracts the stored estimate, est' <= max(floor, est x (1 - smoothing/4)) with
   floor = max(min, 4); so n drops leave est_n <= max(floor, est_0 x (1 - smoothing/4)^n), never below the floor, and once
   est_0 x (1 - smoothing/4)^n < floor + 1 - i.e. after log(est_0/floor) / -log(1 - smoothing/4) samples, a bound fixed by the configuration -
   the reported estimate is exactly the floor. *)
Theorem C06_gradient_contracts g Mx s o : GInv g Mx -> gsample_ok s -> s_drop s = true ->
  (/ 1099511627776 <= R (g_s g))%R -> (4 <= R (g_est g))%R -> grad_step g s = Some o ->
  (R (g_est (o_st o)) <= Rmax (IZR (gfloor g)) (R (g_est g) * (1 - R (g_s g) / 4)))%R.
Proof. exact (grad_drop_contracts g Mx s o). Qed.
Print Assumptions C06_gradient_contracts.

Theorem C06_gradient_floor_reached Mx ss g g' : GInv g Mx -> (4 <= R (g_est g))%R -> (/ 1099511627776 <= R (g_s g))%R ->
  Forall (fun s => gsample_ok s /\ s_drop s = true) ss -> grad_run g ss = Some g' ->
  (R (g_est g) * (1 - R (g_s g) / 4) ^ length ss < IZR (gfloor g) + 1)%R ->
  grad_est g' = gfloor g.
Proof. exact (grad_floor_reached Mx ss g g'). Qed.
Print Assumptions C06_gradient_floor_reached.

(* Vegas reaches its floor: a drop sample that reaches updateEstimatedLimit (branch 3: it neither probes nor lowers the baseline) lowers the
   stored estimate by at least smoothing/40 while it is >= 7/4 and keeps it <= 15/8 afterwards; n such samples leave
   est_n <= max(15/8, est_0 - n x smoothing/40), so the reported estimate is the floor 1 within 40 x est_0 / smoothing samples. *)
Theorem C06_vegas_contracts v M s o : VInv v M -> sample_ok s -> s_drop s = true ->
  vegas_step v s = Some o -> o_branch o = 3%Z ->
  (R (v_est (o_st o)) <= Rmax (15/8) (R (v_est v) - R (v_smooth v) / 40))%R.
Proof. exact (vegas_drop_contracts v M s o). Qed.
Print Assumptions C06_vegas_contracts.

Theorem C06_vegas_floor_reached M ss v v' : VInv v M -> Forall (fun s => sample_ok s /\ s_drop s = true) ss ->
  vegas_run_upd v ss = Some v' -> (R (v_est v) - INR (length ss) * (R (v_smooth v) / 40) < 2)%R -> vegas_est v' = 1%Z.
Proof. exact (vegas_floor_reached M ss v v'). Qed.
Print Assumptions C06_vegas_floor_reached.
