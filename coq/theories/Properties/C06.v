(* C06 - loss response. *)
From Coq Require Import ZArith Reals List Lia Lra.
From Flocq Require Import Core BinarySingleNaN.
From GCL Require Import Base.F64 Base.F64Facts Model.Measure Model.Limits Proofs.AimdProofs.

(* AIMD moves exactly to max(1, min(limit-1, floor(limit x ratio))), the product being the binary64 product
   (round-to-nearest-even of the real product) that the implementation computes. *)
Theorem C06_aimd_exact l ratio : (1 <= l < 2^52)%Z -> fin ratio = true -> (0 <= R ratio <= 1)%R ->
  aimd_drop_limit l ratio = Z.max 1 (Z.min (l - 1) (Zfloor (rnd (IZR l * R ratio)))).
Proof. exact (aimd_drop_exact l ratio). Qed.
Print Assumptions C06_aimd_exact.

(* hence a drop never raises AIMD's limit, lowers it strictly while above 1, and never goes below the floor 1 *)
Theorem C06_aimd_nonincrease l ratio : (1 <= l < 2^52)%Z -> fin ratio = true -> (0 <= R ratio <= 1)%R ->
  (1 <= aimd_drop_limit l ratio <= Z.max 1 (l - 1))%Z.
Proof. exact (aimd_drop_bounds l ratio). Qed.
Print Assumptions C06_aimd_nonincrease.
