(* C06 - loss response. *)
From Coq Require Import ZArith Reals List Lia Lra.
From Flocq Require Import Core BinarySingleNaN.
From GCL Require Proofs.TablesOk.
From GCL Require Import Base.F64 Base.F64Facts Model.Measure Model.Limits Proofs.AimdProofs Proofs.GradSafe Proofs.GradDrop.

(* AIMD moves exactly to max(1, min(limit-1, floor(limit x ratio))), the product being the binary64 product
   (round-to-nearest-even of the real product) that the implementation computes. *)
Theorem C06_aimd_exact l ratio : (1 <= l < 2^52)%Z -> fin ratio = true -> (0 <= R ratio <= 1)%R ->
  aimd_drop_limit l ratio = Z.max 1 (Z.min (l - 1) (Zfloor (rnd (IZR l * R ratio)))).
Proof. exact (aimd_drop_exact l ratio). Qed.
Print Assumptions C06_aimd_exact.

(* hence a drop never raises AIMD's limit, lowers it strictly while above 1, and never goes below the floor 1 *)
Theorem C06_aimd_nonincrease l ratio : (1 <= l < 2^52)%Z -> fin ratio = true -> (0 <= R ratio <= 1)%R ->
  (1 <= aimd_drop_limit l ratio <= Z.max 1 (l - 1))%Z.
Proof. exact (aimd_drop_bounds l ratio). Qed.
Print Assumptions C06_aimd_nonincrease.

(* Generated-fact obligation, re-checked on every run against Gen/Tables.v (dumped from /repo's limit/functions as built now):
   the lookup tables and the queue-size / log10 functions agree with the model's closed forms on the table,
   at its boundary and beyond it. *)
Theorem C06_tables_agree : TablesOk.tables_ok = true /\ TablesOk.functions_ok = true /\ TablesOk.log10f_ok = true.
Proof. exact (conj TablesOk.tables_agree (conj TablesOk.functions_agree TablesOk.log10f_agrees)). Qed.
Print Assumptions C06_tables_agree.

(* Gradient: from every state satisfying the safety invariant GInv (C04: established at construction and preserved by every step)
   whose estimate is at least the smallest queue allowance 4, a drop sample never raises the stored estimate - through the halving,
   the binary64 smoothing (any smoothing in [2^-50, 1]) and the clamps, including when the sample is also a probe. States with an estimate
   below 4 exist only when the limit is constructed with initial < 4 (known finding F5: there a drop raises the limit to the queue allowance). *)
Theorem C06_gradient_nonincrease g Mx s o : GInv g Mx -> gsample_ok s -> s_drop s = true ->
  (/ 1125899906842624 <= R (g_s g))%R -> (4 <= R (g_est g))%R ->
  grad_step g s = Some o -> (R (g_est (o_st o)) <= R (g_est g))%R.
Proof. exact (grad_drop_nonincrease g Mx s o). Qed.
Print Assumptions C06_gradient_nonincrease.
