(* C02 - capacity conservation: each grant returns exactly one unit, failures hold none. *)
From Coq Require Import ZArith List Bool.
From GCL Require Import Base.F64 Model.Measure Model.Strategy Model.DefaultLimiter Proofs.StrategyProofs Proofs.LimiterProofs.
Import ListNotations.
Open Scope Z_scope.

(* Invariant of the default limiter over ANY strategy kind: in-flight gauge = strategy busy = number of granted,
   not yet completed listeners (LInv).  It holds after construction ... *)
Theorem C02_init c s est : strat_busy s = 0 -> 0 < l_minw c -> 0 < l_maxw c -> LInv (limiter_init c s est).
Proof. exact (init_LInv c s est). Qed.
Print Assumptions C02_init.

(* ... is preserved by Acquire; a refusal changes nothing at all (failures hold no capacity, no listener is returned),
   a grant adds exactly one unit and one listener ... *)
Theorem C02_acquire l key now : LInv l ->
  let '(l', ok) := lm_acquire l key now in
  LInv l' /\ (ok = false -> l' = l) /\ (ok = true -> lm_gauge l' = lm_gauge l + 1 /\ length (lm_listeners l') = S (length (lm_listeners l))).
Proof. exact (acquire_LInv l key now). Qed.
Print Assumptions C02_acquire.

(* ... and by completing a granted, not yet completed listener through any of the three outcomes, which gives back exactly
   one unit at the gauge and at the strategy, whether or not the completion closes a sampling window. *)
Theorem C02_complete l k oc now x : LInv l -> nth_error (lm_listeners l) k = Some x -> ls_done x = false ->
  let '(l', c) := lm_complete l k oc now in
  LInv l' /\ lm_gauge l' = lm_gauge l - 1 /\ strat_busy (lm_strat l') = strat_busy (lm_strat l) - 1.
Proof. exact (complete_LInv l k oc now x). Qed.
Print Assumptions C02_complete.

(* Partitioned strategies, every reachable state (acquire / release of outstanding tokens / SetLimit / add / remove partition):
   each bin's busy equals its outstanding tokens, live or removed, and the bins sum to the total (PInv). *)
Theorem C02_partition_bins lookup ps total ops :
  let st := fold_left pstep ops (part_init lookup ps total, []) in PInv (fst st) (snd st).
Proof. exact (reach_inv lookup ps total ops). Qed.
Print Assumptions C02_partition_bins.

(* ---- blocking, deadline and queue wrappers, pools (settled model): the delegate's busy count equals the number of callers holding
   a token after every operation - arrivals (granted, queued, refused at once), releases with hand-off or broadcast, cancellations,
   timers firing; a caller that returned refused is not a holder, so it holds nothing ---- *)
From GCL Require Import Model.Waiters Proofs.WaitersProofs.
Theorem C02_wrapper_arrive s c : conserved s -> conserved (arrive s c).
Proof. exact (arrive_conserved s c). Qed.
Print Assumptions C02_wrapper_arrive.
Theorem C02_wrapper_release s i pref : conserved s -> conserved (release s i pref).
Proof. exact (release_conserved s i pref). Qed.
Print Assumptions C02_wrapper_release.
Theorem C02_wrapper_cancel s i : conserved s -> conserved (cancel s i).
Proof. exact (cancel_conserved s i). Qed.
Print Assumptions C02_wrapper_cancel.
Theorem C02_wrapper_advance fuel s target pref : conserved s -> conserved (advance fuel s target pref).
Proof. exact (advance_conserved fuel s target pref). Qed.
Print Assumptions C02_wrapper_advance.

(* step granularity, queue limiter (any interleaving of the atomic steps, including the race windows of F9): tokens are conserved *)
From GCL Require Model.QueueLTS Proofs.QueueLTSProofs.
Theorem C02_queue_steps s0 s : QueueLTSProofs.Conserved s0 -> QueueLTSProofs.reachable s0 s -> QueueLTSProofs.Conserved s.
Proof. exact (QueueLTSProofs.C02_queue_conservation s0 s). Qed.
Print Assumptions C02_queue_steps.
