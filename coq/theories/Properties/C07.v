(* C07 - growth is demand-gated. *)
From Coq Require Import ZArith List Bool.
From GCL Require Proofs.TablesOk.
From GCL Require Import Base.F64 Model.Measure Model.Limits Proofs.LimitsBasic.
Import ListNotations.
Open Scope Z_scope.

(* A non-drop sample whose in-flight is below the estimate (AIMD) / below half the estimate (the others, with the
   implementation's own float test) leaves the stored estimate untouched and notifies nobody. *)
Theorem C07_app_limited_aimd a s : s_drop s = false -> s_inflight s < aimd_est a -> o_st (aimd_step a s) = a.
Proof. exact (aimd_app_limited a s). Qed.
Print Assumptions C07_app_limited_aimd.

Theorem C07_app_limited_vegas v s o : s_drop s = false ->
  flt (mul (of_int (s_inflight s)) two) (v_est v) = true ->
  vegas_step v s = Some o -> v_est (o_st o) = v_est v /\ o_notify o = [].
Proof. exact (vegas_app_limited v s o). Qed.
Print Assumptions C07_app_limited_vegas.

Theorem C07_app_limited_gradient v s o : s_drop s = false ->
  flt (of_int (s_inflight s)) (div (g_est v) two) = true ->
  grad_step v s = Some o -> o_branch o <> 1 (* not a probe step *) -> g_est (o_st o) = g_est v /\ o_notify o = [].
Proof. exact (grad_app_limited v s o). Qed.
Print Assumptions C07_app_limited_gradient.

Theorem C07_app_limited_gradient2 v s :
  flt (of_int (s_inflight s)) (div (h_est v) two) = true ->
  h_est (o_st (grad2_step v s)) = h_est v /\ o_notify (grad2_step v s) = [].
Proof. exact (grad2_app_limited v s). Qed.
Print Assumptions C07_app_limited_gradient2.

(* AIMD recovery: every saturated drop-free sample adds exactly the configured increment *)
Theorem C07_aimd_recovers a s : s_drop s = false -> a_limit a <= s_inflight s ->
  a_limit (o_st (aimd_step a s)) = a_limit a + a_inc a.
Proof.
  exact (fun Hd Hi => ltac:(unfold aimd_step; rewrite Hd; destruct (Z.leb_spec (a_limit a) (s_inflight s)); [reflexivity|exfalso; apply (Z.lt_irrefl (a_limit a)); eapply Z.le_lt_trans; eassumption])).
Qed.
Print Assumptions C07_aimd_recovers.

(* Generated-fact obligation, re-checked on every run against Gen/Tables.v (dumped from /repo's limit/functions as built now):
   the lookup tables and the queue-size / log10 functions agree with the model's closed forms on the table,
   at its boundary and beyond it. *)
Theorem C07_tables_agree : TablesOk.tables_ok = true /\ TablesOk.functions_ok = true /\ TablesOk.log10f_ok = true.
Proof. exact (conj TablesOk.tables_agree (conj TablesOk.functions_agree TablesOk.log10f_agrees)). Qed.
Print Assumptions C07_tables_agree.
