(* C07 - growth is demand-gated. *)
From Coq Require Import ZArith Reals List Bool.
From GCL Require Proofs.TablesOk.
From GCL Require Import Base.F64 Base.F64Facts Model.Measure Model.Limits Proofs.LimitsBasic Proofs.VegasSafe Proofs.GradSafe Proofs.GradRecover Proofs.VegasRecover Proofs.Grad2Safe Proofs.Grad2Recover.
Import ListNotations.
Open Scope Z_scope.

(* A non-drop sample whose in-flight is below the estimate (AIMD) / below half the estimate (the others, with the
   implementation's own float test) leaves the stored estimate untouched and notifies nobody. *)
Theorem C07_app_limited_aimd a s : s_drop s = false -> s_inflight s < aimd_est a -> o_st (aimd_step a s) = a.
Proof. exact (aimd_app_limited a s). Qed.
Print Assumptions C07_app_limited_aimd.

Theorem C07_app_limited_vegas v s o : s_drop s = false ->
  flt (mul (of_int (s_inflight s)) two) (v_est v) = true ->
  vegas_step v s = Some o -> v_est (o_st o) = v_est v /\ o_notify o = [].
Proof. exact (vegas_app_limited v s o). Qed.
Print Assumptions C07_app_limited_vegas.

Theorem C07_app_limited_gradient v s o : s_drop s = false ->
  flt (of_int (s_inflight s)) (div (g_est v) two) = true ->
  grad_step v s = Some o -> o_branch o <> 1 (* not a probe step *) -> g_est (o_st o) = g_est v /\ o_notify o = [].
Proof. exact (grad_app_limited v s o). Qed.
Print Assumptions C07_app_limited_gradient.

Theorem C07_app_limited_gradient2 v s :
  flt (of_int (s_inflight s)) (div (h_est v) two) = true ->
  h_est (o_st (grad2_step v s)) = h_est v /\ o_notify (grad2_step v s) = [].
Proof. exact (grad2_app_limited v s). Qed.
Print Assumptions C07_app_limited_gradient2.

(* AIMD recovery: every saturated drop-free sample adds exactly the configured increment *)
Theorem C07_aimd_recovers a s : s_drop s = false -> a_limit a <= s_inflight s ->
  a_limit (o_st (aimd_step a s)) = a_limit a + a_inc a.
Proof.
  exact (fun Hd Hi => ltac:(unfold aimd_step; rewrite Hd; destruct (Z.leb_spec (a_limit a) (s_inflight s)); [reflexivity|exfalso; apply (Z.lt_irrefl (a_limit a)); eapply Z.le_lt_trans; eassumption])).
Qed.
Print Assumptions C07_aimd_recovers.

(* Gradient recovery: from every state satisfying the safety invariant, a healthy saturated sample (drop-free, RTT in (0, 2^53) ns not above
   the baseline, tolerance >= 1) that is not a probe step raises the reported estimate by at least the smallest queue allowance, up to the ceiling *)
Theorem C07_gradient_recovers g Mx s o : GInv g Mx -> gsample_ok s -> s_drop s = false ->
  healthy_rtt g s -> (1 <= R (g_tol g))%R ->
  flt (of_int (s_inflight s)) (div (g_est g) two) = false ->
  grad_step g s = Some o -> o_branch o <> 1 ->
  Z.min (g_max g) (grad_est g + 4) <= grad_est (o_st o).
Proof. exact (grad_recovers g Mx s o). Qed.
Print Assumptions C07_gradient_recovers.

(* ... hence n healthy saturated samples at a constant RTT with no probe step in between bring the estimate to min(max, est + 4n):
   the ceiling is reached within (max - est)/4 samples *)
Theorem C07_gradient_recovery_run Mx r ss g g' : GInv g Mx -> (1 <= R (g_tol g))%R ->
  0 < r < 2^53 -> (feq (g_noload g) zero = true \/ (R (of_int r) <= R (g_noload g))%R) ->
  Forall (healthy_sample Mx r) ss -> grad_run_noprobe g ss = Some g' ->
  Z.min (g_max g) (grad_est g + 4 * Z.of_nat (length ss)) <= grad_est g'.
Proof. exact (grad_recovery_run Mx r ss g g'). Qed.
Print Assumptions C07_gradient_recovery_run.

(* Vegas recovery with the default smoothing 1.0: a saturated drop-free sample at the baseline RTT (queue size 0) that is not a probe step
   raises the reported estimate by at least 6 (= beta x log10(est) >= 6), up to the ceiling; n such samples reach min(max, est + 6n) *)
Theorem C07_vegas_recovers v M s o : VInv v M -> sample_ok s -> v_smooth v = one -> vegas_healthy v s ->
  vegas_step v s = Some o -> Z.min (v_max v) (vegas_est v + 6) <= vegas_est (o_st o).
Proof. exact (vegas_recovers_s1 v M s o). Qed.
Print Assumptions C07_vegas_recovers.

Theorem C07_vegas_recovery_run M r ss v v' : VInv v M -> v_smooth v = one ->
  0 < r < 2^53 -> fin (v_noload v) = true -> R (v_noload v) = IZR r ->
  Forall (vhealthy_sample M r) ss -> vegas_run_noprobe v ss = Some v' ->
  Z.min (v_max v) (vegas_est v + 6 * Z.of_nat (length ss)) <= vegas_est v'.
Proof. exact (vegas_recovery_run_s1 M r ss v v'). Qed.
Print Assumptions C07_vegas_recovery_run.

(* Vegas recovery for ANY smoothing admitted by the safety invariant (ceiling bound M >= 20): every healthy saturated non-probe sample at the baseline RTT
   gains at least smoothing/2 towards the ceiling, est' >= min(est, max - 1) + smoothing/2; n of them give est_n >= min(est_0 + n s/2, max - 1 + s/2), so the
   reported estimate is within one of its ceiling after 2 (max - est_0) / smoothing samples - a bound fixed by the configuration. *)
Theorem C07_vegas_recovers_any_smoothing v M s o : VInv v M -> 20 <= M -> sample_ok s -> vegas_healthy v s ->
  vegas_step v s = Some o -> (Rmin (R (v_est v)) (IZR (v_max v) - 1) + R (v_smooth v) / 2 <= R (v_est (o_st o)))%R.
Proof. exact (vegas_recovers v M s o). Qed.
Print Assumptions C07_vegas_recovers_any_smoothing.

Theorem C07_vegas_recovered M r ss v v' : VInv v M -> 20 <= M ->
  0 < r < 2^53 -> fin (v_noload v) = true -> R (v_noload v) = IZR r ->
  Forall (vhealthy_sample M r) ss -> vegas_run_noprobe v ss = Some v' -> ss <> [] ->
  (IZR (v_max v) - 1 <= R (v_est v) + INR (length ss) * (R (v_smooth v) / 2))%R ->
  v_max v - 1 <= vegas_est v'.
Proof. exact (vegas_recovered M r ss v v'). Qed.
Print Assumptions C07_vegas_recovered.

(* Gradient2 recovery: a saturated sample whose RTT is not above the long-term average by more than a factor 1/(1 - delta), delta x Mx <= 1, raises the
   stored estimate by at least twice the smoothing, up to the ceiling.  The long-term average does stay that close to a constant RTT (its deficit
   contracts by 1 - f per sample and is fed by three roundings: below D x RTT with D x f >= 4u it stays below), so n healthy saturated samples at a
   constant RTT bring the estimate to min(max, est + 2 s n): the ceiling is reached within (max - est) / (2 s) samples. *)
Theorem C07_gradient2_recovers g Mx s delta : G2Inv g Mx -> gsample_ok s -> 1 <= s_rtt s < 2^53 ->
  flt (of_int (s_inflight s)) (div (h_est g) two) = false -> 20 <= Mx -> (0 <= delta)%R -> (delta * IZR Mx <= 1)%R ->
  (8 * u * IZR Mx <= R (h_s g))%R ->
  (R (of_int (s_rtt s)) * (1 - delta) <= R (ea_value (ea_add (h_long g) (of_int (s_rtt s)))))%R ->
  (Rmin (IZR (h_max g)) (R (h_est g) + 2 * R (h_s g)) <= R (h_est (o_st (grad2_step g s))))%R.
Proof. exact (grad2_recovers g Mx s delta). Qed.
Print Assumptions C07_gradient2_recovers.

Theorem C07_gradient2_recovery_run Mx r D ss g : G2Inv g Mx -> 20 <= Mx -> 1 <= r < 2^53 ->
  (0 <= D <= 1)%R -> (D * IZR Mx <= 1)%R -> (8 * u * IZR Mx <= R (h_s g))%R ->
  g2_long_ok g r D -> Forall (g2_healthy Mx r) ss ->
  let g' := fold_left (fun a s => o_st (grad2_step a s)) ss g in
  (Rmin (IZR (h_max g)) (R (h_est g) + INR (length ss) * (2 * R (h_s g))) <= R (h_est g'))%R \/ ss = [].
Proof. exact (grad2_recovery_run Mx r D ss g). Qed.
Print Assumptions C07_gradient2_recovery_run.

(* Generated-fact obligation, re-checked on every run against Gen/Tables.v (dumped from /repo's limit/functions as built now):
   the lookup tables and the queue-size / log10 functions agree with the model's closed forms on the table,
   at its boundary and beyond it. *)
Theorem C07_tables_agree : TablesOk.tables_ok = true /\ TablesOk.functions_ok = true /\ TablesOk.log10f_ok = true.
Proof. exact (conj TablesOk.tables_agree (conj TablesOk.functions_agree TablesOk.log10f_agrees)). Qed.
Print Assumptions C07_tables_agree.
