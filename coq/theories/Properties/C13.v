(* C13 - timeouts, deadlines and cancellation bound every blocked Acquire. *)
From Coq Require Import ZArith List Bool.
From GCL Require Import Model.Waiters Proofs.WaitersProofs Proofs.WaitersTimers Model.PollLTS Proofs.PollLTSProofs.
Import ListNotations.
Open Scope Z_scope.

(* a call made to the blocking or deadline limiter with an already-cancelled context is refused without consuming capacity *)
Theorem C13_cancelled_ctx s : w_kind (ws_cfg s) <> KQueue ->
  ws_busy (arrive s true) = ws_busy s /\
  nth_error (ws_callers (arrive s true)) (length (ws_callers s)) = Some (mk_caller 2 (ws_now s) 0 true).
Proof. exact (arrive_cancelled s). Qed.
Print Assumptions C13_cancelled_ctx.

(* ... and so is a call made to the deadline limiter after its deadline *)
Theorem C13_after_deadline s c : w_kind (ws_cfg s) = KDeadline -> w_deadline (ws_cfg s) < ws_now s ->
  ws_busy (arrive s c) = ws_busy s /\
  nth_error (ws_callers (arrive s c)) (length (ws_callers s)) = Some (mk_caller 2 (ws_now s) 0 c).
Proof. exact (arrive_after_deadline s c). Qed.
Print Assumptions C13_after_deadline.

(* a caller that has to wait gets a timer at exactly its bound: arrival + backlog timeout (queue), the deadline (deadline limiter) *)
Theorem C13_wait_timer s c : has_room s = false -> c = false \/ (w_kind (ws_cfg s) = KQueue /\ w_evict (ws_cfg s) = false) ->
  forall x, nth_error (ws_callers (arrive s c)) (length (ws_callers s)) = Some x -> c_st x = 0 ->
  c_due x = timer_at_arrival (ws_cfg s) (ws_now s).
Proof. exact (wait_timer s c). Qed.
Print Assumptions C13_wait_timer.

(* the timers firing at an instant t on the queue limiter refuse exactly the callers blocked with due time t, at t, and touch
   nobody else (so a caller is not refused before its bound) nor the capacity; together with C13_wait_timer: a queued caller
   that receives no hand-off returns refused at exactly arrival + backlog timeout *)
Theorem C13_queue_timeout s t pref i c : w_kind (ws_cfg s) = KQueue -> nth_error (ws_callers s) i = Some c ->
  nth_error (ws_callers (fire s t pref)) i = Some (if blocked c && (c_due c =? t) then mk_caller 2 t 0 (c_cancel c) else c) /\
  ws_busy (fire s t pref) = ws_busy s.
Proof. exact (fire_queue s t pref i c). Qed.
Print Assumptions C13_queue_timeout.

(* A cancellation refuses a blocked caller at once, at the instant of the cancellation, without touching the delegate's count:
   always for the blocking and deadline limiters, and for the queue limiter when BacklogEvictDoneCtx is set. *)
Theorem C13_cancel_refuses s i c : nth_error (ws_callers s) i = Some c -> blocked c = true ->
  (w_kind (ws_cfg s) <> KQueue \/ w_evict (ws_cfg s) = true) ->
  nth_error (ws_callers (cancel s i)) i = Some (mk_caller 2 (ws_now s) 0 true) /\ ws_busy (cancel s i) = ws_busy s.
Proof. exact (cancel_refuses s i c). Qed.
Print Assumptions C13_cancel_refuses.

(* Timers firing at instant t (queue backlog timeout, deadline): every caller is left as it was or leaves the blocked state, and every
   caller that was blocked with its timer due at t leaves it (deadline: after one last attempt at the delegate). *)
Theorem C13_fire_clears s t pref : w_kind (ws_cfg s) <> KBlocking ->
  pointwise (fire_rel t) (ws_callers s) (ws_callers (fire s t pref)).
Proof. exact (fire_clears s t pref). Qed.
Print Assumptions C13_fire_clears.

(* Hence, whatever the state and however far the clock is advanced, nobody is left blocked past the instant its timer was due
   (queue and deadline limiters; the model's clock needs fuel for one firing instant per caller - the replay runs it with 2000). *)
Theorem C13_nobody_past_due fuel s target pref c : w_kind (ws_cfg s) <> KBlocking -> (length (ws_callers s) <= fuel)%nat ->
  In c (ws_callers (advance fuel s target pref)) -> blocked c = true -> 0 < c_due c -> target < c_due c.
Proof. exact (advance_nobody_past_due fuel s target pref c). Qed.
Print Assumptions C13_nobody_past_due.

(* The blocking limiter's poll period, at step granularity with an explicit clock (attempt / helper start / cond.Wait / release / broadcast /
   tick / timer as separate steps, any number of callers, wake-ups lost or not): in every reachable state no caller is parked or asleep past
   its poll instant, and that instant is at most one period away ... *)
Theorem C13_blocking_poll_bound s0 s : PInv s0 -> preach s0 s -> PInv s.
Proof. exact (poll_bound s0 s). Qed.
Print Assumptions C13_blocking_poll_bound.

(* ... and at its poll instant a caller that finds capacity free takes it: the wake-up lost in the window of known finding F8 costs a caller
   of a limiter with a poll period at most that period (replayed on the implementation by raceF8poll). *)
Theorem C13_blocking_poll_recovers s i d : nth_error (pthr s) i = Some (PAsleep d) \/ nth_error (pthr s) i = Some (PParked d) ->
  d <= pnow s -> pbusy s < plimit s ->
  exists s', prun s [PTimer i; PTry i] = Some s' /\ nth_error (pthr s') i = Some PHolding /\ pbusy s' = pbusy s + 1 /\ pnow s' = pnow s.
Proof. exact (poll_recovers s i d). Qed.
Print Assumptions C13_blocking_poll_recovers.

Example C13_blocking_poll_witness :
  prun {| pbusy := 1; plimit := 1; pnow := 0; pperiod := 3; pthr := [PHolding; PIdle] |}
       [PTry 1%nat; PRel 0%nat; PBcast 0%nat; PSleep 1%nat; PTick; PTick; PTick; PTimer 1%nat; PTry 1%nat]
  = Some {| pbusy := 1; plimit := 1; pnow := 3; pperiod := 3; pthr := [PDone; PHolding] |}.
Proof. exact poll_witness. Qed.
