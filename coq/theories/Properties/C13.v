(* C13 - timeouts, deadlines and cancellation bound every blocked Acquire. *)
From Coq Require Import ZArith List Bool.
From GCL Require Import Model.Waiters Proofs.WaitersProofs.
Import ListNotations.
Open Scope Z_scope.

(* a call made to the blocking or deadline limiter with an already-cancelled context is refused without consuming capacity *)
Theorem C13_cancelled_ctx s : w_kind (ws_cfg s) <> KQueue ->
  ws_busy (arrive s true) = ws_busy s /\
  nth_error (ws_callers (arrive s true)) (length (ws_callers s)) = Some (mk_caller 2 (ws_now s) 0 true).
Proof. exact (arrive_cancelled s). Qed.
Print Assumptions C13_cancelled_ctx.

(* ... and so is a call made to the deadline limiter after its deadline *)
Theorem C13_after_deadline s c : w_kind (ws_cfg s) = KDeadline -> w_deadline (ws_cfg s) < ws_now s ->
  ws_busy (arrive s c) = ws_busy s /\
  nth_error (ws_callers (arrive s c)) (length (ws_callers s)) = Some (mk_caller 2 (ws_now s) 0 c).
Proof. exact (arrive_after_deadline s c). Qed.
Print Assumptions C13_after_deadline.

(* a caller that has to wait gets a timer at exactly its bound: arrival + backlog timeout (queue), the deadline (deadline limiter) *)
Theorem C13_wait_timer s c : has_room s = false -> c = false \/ (w_kind (ws_cfg s) = KQueue /\ w_evict (ws_cfg s) = false) ->
  forall x, nth_error (ws_callers (arrive s c)) (length (ws_callers s)) = Some x -> c_st x = 0 ->
  c_due x = timer_at_arrival (ws_cfg s) (ws_now s).
Proof. exact (wait_timer s c). Qed.
Print Assumptions C13_wait_timer.

(* the timers firing at an instant t on the queue limiter refuse exactly the callers blocked with due time t, at t, and touch
   nobody else (so a caller is not refused before its bound) nor the capacity; together with C13_wait_timer: a queued caller
   that receives no hand-off returns refused at exactly arrival + backlog timeout *)
Theorem C13_queue_timeout s t pref i c : w_kind (ws_cfg s) = KQueue -> nth_error (ws_callers s) i = Some c ->
  nth_error (ws_callers (fire s t pref)) i = Some (if blocked c && (c_due c =? t) then mk_caller 2 t 0 (c_cancel c) else c) /\
  ws_busy (fire s t pref) = ws_busy s.
Proof. exact (fire_queue s t pref i c). Qed.
Print Assumptions C13_queue_timeout.
