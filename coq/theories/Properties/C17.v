(* C17 - concurrent use of the public API is free of data races. *)
From Coq Require Import List Bool Arith.
From GCL Require Import Model.Lockset Proofs.LocksetProofs Gen.Access.
Import ListNotations.

(* Generic theorem: for ANY table of method summaries, any number of threads and any schedule (RW-mutex semantics), if every pair of
   conflicting non-atomic accesses to a location shares a lock that is not read-held by both, then no reachable state has two
   threads simultaneously about to perform conflicting accesses. *)
Theorem C17_lockset_sound table n ts : discipline table -> reachable table n ts -> ~ race table ts.
Proof. exact (lockset_sound table n ts). Qed.
Print Assumptions C17_lockset_sound.

(* Per-run obligation over the table regenerated from /repo's source by tools/lockscan (Gen/Access.v): the discipline holds. *)
Theorem C17_discipline : discipline_okb methods = true.
Proof. vm_compute. reflexivity. Qed.
Print Assumptions C17_discipline.

(* hence: no data race among any threads calling any mix of the exported methods on the shared instances - for the program
   summarised by that table (PARTIAL: the scanner that produces the table is not verified; see DESIGN.md) *)
Theorem C17_race_free n ts : reachable methods n ts -> ~ race methods ts.
Proof. exact (race_free methods n ts C17_discipline). Qed.
Print Assumptions C17_race_free.

(* non-vacuity: the table is not empty and contains conflicting accesses that the discipline has to separate *)
Example C17_table_nontrivial : (100 <? length methods)%nat = true /\
  existsb (fun p => match fst p with Acc _ true false => negb (Nat.eqb (length (snd p)) 0) | _ => false end) (all_events methods) = true.
Proof. vm_compute. split; reflexivity. Qed.
