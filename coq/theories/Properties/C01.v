(* C01 - admission is an atomic gate: never over the limit, never refused with room. *)
From Coq Require Import ZArith List Bool.
From GCL Require Import Model.Strategy Model.Gate Proofs.GateProofs Proofs.StrategyProofs.
Import ListNotations.
Open Scope Z_scope.

(* Concurrent model (any number of threads, any interleaving of the atomic steps of Acquire, of lock-free releases and of
   limit updates to arbitrary values): in every reachable state the counter equals the number of held tokens, and
   for every v at least as large as the limit in force when each CURRENT holder was granted, busy <= v.
   Lowering the limit revokes nothing: holders keep their tokens, new grants stop. *)
Theorem C01_no_over_admission n l s v :
  reachable n l s -> (forall j g, nth_error (thr s) j = Some (Holding g) -> g <= v) -> 0 <= v ->
  busy s = sumf isH (thr s) /\ busy s <= v.
Proof. exact (no_over_admission n l s v). Qed.
Print Assumptions C01_no_over_admission.

(* Every decision is the atomic gate's decision at the instant the call loaded the counter: about to be granted =>
   loaded busy < the limit in force (unchanged until the call returns; busy can only have dropped since);
   about to be refused => loaded busy >= the limit in force: no refusal with room. *)
Theorem C01_gate_decision n l s j p : reachable n l s -> nth_error (thr s) j = Some p ->
  match p with
  | Decided b lim => lim = limit s /\ b < lim /\ busy s <= b
  | Refusing b lim => lim = limit s /\ lim <= b
  | _ => True
  end.
Proof. exact (gate_decision n l s j p). Qed.
Print Assumptions C01_gate_decision.

(* The precise strategy used directly (each method one critical section): granted iff busy < limit; a grant adds exactly one,
   a refusal changes nothing. *)
Theorem C01_precise_direct c : let '(c', ok, n) := counter_try c in
  (ok = true <-> c_busy c < c_limit c) /\ (ok = true -> c_busy c' = c_busy c + 1) /\ (ok = false -> c' = c) /\ c_limit c' = c_limit c.
Proof. exact (counter_gate c). Qed.
Print Assumptions C01_precise_direct.

(* non-vacuity: a reachable state with a holder granted at limit 3, the limit then lowered to 1 *)
Example C01_example :
  match run (init 2 3) [LLock 0%nat; LLoadBusy 0%nat; LLoadLimit 0%nat; LAdd 0%nat; LSetLimit 1%nat 1] with
  | Some s => reachable 2 3 s /\ busy s = 1 /\ limit s = 1 /\ nth_error (thr s) 0 = Some (Holding 3)
  | None => False
  end.
Proof.
  destruct (run (init 2 3) _) as [s|] eqn:E; [|vm_compute in E; discriminate].
  split; [eapply run_reachable; [apply r_init|exact E]|]. vm_compute in E. inversion E; subst. repeat split.
Qed.

(* Atomicity assumptions of the transition system, as generated facts re-checked on every run (tools/lockscan over /repo's source):
   Acquire, updateAndGetSample, the precise strategy's methods and unblock are whole-body critical sections of their mutex, and the
   simple strategy's counters are touched only through sync/atomic. *)
From GCL Require Gen.Access.
Theorem C01_required_atomic : forallb snd Gen.Access.whole_body_facts && Gen.Access.simple_counters_atomic = true.
Proof. vm_compute. reflexivity. Qed.
Print Assumptions C01_required_atomic.
