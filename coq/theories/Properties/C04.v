(* C04 - the limit estimate stays a finite in-bounds integer; samples never panic. *)
From Coq Require Import ZArith Reals List Lia Lra.
From Flocq Require Import Core BinarySingleNaN.
From GCL Require Proofs.TablesOk.
From GCL Require Import Base.F64 Base.F64Facts Model.Measure Model.Limits Proofs.VegasSafe Proofs.AimdProofs Proofs.GradSafe Proofs.Grad2Safe Proofs.WindowedSafe.
Import ListNotations.

(* AIMD: for every sample list the limit stays >= 1 and <= initial + (#samples) * increase
   (this port has no configured maximum for AIMD); backoff ratio finite in [0,1]. *)
Theorem C04_aimd_safe ss a B : (1 <= a_limit a <= B)%Z -> (1 <= a_inc a)%Z ->
  (B + Z.of_nat (length ss) * a_inc a < 2^52)%Z -> fin (a_ratio a) = true -> (0 <= R (a_ratio a) <= 1)%R ->
  (1 <= a_limit (aimd_run a ss) <= B + Z.of_nat (length ss) * a_inc a)%Z.
Proof. exact (aimd_run_safe ss a B). Qed.
Print Assumptions C04_aimd_safe.

(* Vegas: for every sample list with 0 <= rtt <= 2^62, 0 <= inflight < 2^31, any drop flags, ANY jitter draws and
   Log10 oracle values in [2,400]: no step panics, the stored estimate is finite in [1, M+1/2], the reported estimate
   is an integer in [1, M]; M >= max(maxLimit, initial); smoothing finite with 8*2^-53*M <= smoothing <= 1. *)
Theorem C04_vegas_safe v M samples :
  VInv v M -> Forall sample_ok samples ->
  exists v', vegas_run v samples = Some v' /\ VInv v' M /\ (1 <= vegas_est v' <= M)%Z.
Proof. exact (vegas_run_safe v M samples). Qed.
Print Assumptions C04_vegas_safe.

(* Gradient: for every sample list with 0 <= rtt <= 2^62 (zero RTTs included), 0 <= inflight < 2^31, any drop flags and ANY probe
   countdown draws: no step panics (the square-root table index stays in range), the stored estimate is finite within [min, Mx]
   (Mx >= max(maxLimit, initial), Mx >= 4 = the smallest queue allowance), the baseline is finite; smoothing in [0,1], tolerance in [0, 2^30]. *)
Theorem C04_gradient_safe g Mx samples : GInv g Mx -> Forall gsample_ok samples ->
  exists g', grad_run g samples = Some g' /\ GInv g' Mx /\ (g_min g' <= grad_est g' <= Mx)%Z.
Proof. exact (grad_run_safe g Mx samples). Qed.
Print Assumptions C04_gradient_safe.

(* Gradient2: for every sample list with 0 <= rtt <= 2^62 (zero RTTs included), any in-flight and drop flags: the stored estimate
   stays finite within [min, max] (so the reported integer is within [min, Mx]) and the long-term exponential average stays finite
   within [0, 2^63] - no sample poisons it; smoothing in [0,1], long window in [1, 2^40], constant queue allowance 4. *)
Theorem C04_gradient2_safe g Mx samples : G2Inv g Mx -> Forall gsample_ok samples ->
  let g' := fold_left (fun a s => o_st (grad2_step a s)) samples g in
  G2Inv g' Mx /\ (h_min g' <= grad2_est g' <= Mx)%Z.
Proof. exact (grad2_run_safe g Mx samples). Qed.
Print Assumptions C04_gradient2_safe.

(* The windowed wrapper: for every raw sample list (RTTs in [0,B], in-flight < 2^31, any drop flags, start times and oracle draws) whose
   RTT sum cannot overflow int64, no step panics (the window average never divides by zero), the delegate only ever sees valid
   window aggregates, and a Vegas / Gradient / Gradient2 delegate keeps its safety invariant and an in-bounds reported estimate. *)
Theorem C04_windowed_safe B M l n w : (0 <= B <= 2^62)%Z -> ((n + Z.of_nat (length l)) * B < 2^63)%Z -> (0 <= n)%Z ->
  AInv (wd_inner w) M -> WinInv B n (wd_win w) -> Forall (raw_ok B) l ->
  exists w', windowed_run w l = Some w' /\ AInv (wd_inner w') M /\ est_ok (wd_inner w') M.
Proof. exact (windowed_run_safe B M l n w). Qed.
Print Assumptions C04_windowed_safe.

(* non-vacuity: the state built by NewDefaultVegasLimit (initial 20, max 1000, smoothing 1.0) satisfies the invariant *)
Example C04_vegas_default_ok jit : VInv (vegas_init (-1) (-1) (-1) (of_int (-1)) jit) 1000.
Proof.
  assert (H1: flt (of_int (-1)) zero = true) by (vm_compute; reflexivity).
  assert (E: v_smooth (vegas_init (-1) (-1) (-1) (of_int (-1)) jit) = one).
  { unfold vegas_init; cbn [v_smooth]. rewrite H1. reflexivity. }
  assert (Em: v_max (vegas_init (-1) (-1) (-1) (of_int (-1)) jit) = 1000%Z) by reflexivity.
  destruct R_one as [F1 E1].
  apply vegas_init_inv; rewrite ?E, ?Em, ?E1.
  - lia.
  - lia.
  - lia.
  - cbn. lia.
  - exact F1.
  - unfold u. change (IZR 1000) with 1000%R. lra.
  - lra.
Qed.

(* Generated-fact obligation, re-checked on every run against Gen/Tables.v (dumped from /repo's limit/functions as built now):
   the lookup tables and the queue-size / log10 functions agree with the model's closed forms on the table,
   at its boundary and beyond it. *)
Theorem C04_tables_agree : TablesOk.tables_ok = true /\ TablesOk.functions_ok = true /\ TablesOk.log10f_ok = true.
Proof. exact (conj TablesOk.tables_agree (conj TablesOk.functions_agree TablesOk.log10f_agrees)). Qed.
Print Assumptions C04_tables_agree.
