(* C05 - enforcement follows the estimate: strategy limit and shares track every update. *)
From Coq Require Import ZArith List Bool.
From GCL Require Import Base.F64 Model.Measure Model.Strategy Model.DefaultLimiter Proofs.StrategyProofs Proofs.LimiterProofs.
Import ListNotations.
Open Scope Z_scope.

(* clamp_limit n = int32(max(1, n)): the estimate floored at 1 as every strategy stores it *)
Theorem C05_sync_init c s est : strat_limit (lm_strat (limiter_init c s est)) = clamp_limit est.
Proof. exact (init_sync c s est). Qed.
Print Assumptions C05_sync_init.

(* whenever a completion forwards a window to the limit algorithm (a sample-driven update), the same step sets the strategy's
   limit to the algorithm's estimate (0, negative and repeated values included), for every strategy kind *)
Theorem C05_sync_update l k oc now call : snd (lm_complete l k oc now) = Some call ->
  strat_limit (lm_strat (fst (lm_complete l k oc now))) = clamp_limit (lm_est (fst (lm_complete l k oc now))) /\
  lm_est (fst (lm_complete l k oc now)) = lm_est l.
Proof. exact (complete_sync l k oc now call). Qed.
Print Assumptions C05_sync_update.

(* every partition share is recomputed from that same value: SetLimit keeps the strategy invariant, whose clause pi_share says
   that every live bin has limit = share(current total, fraction) - this is where the "skip if unchanged" shortcut is shown harmless *)
Theorem C05_shares_follow p toks n : PInv p toks -> PInv (part_set_limit p n) toks /\ p_limit (part_set_limit p n) = clamp_limit n.
Proof. exact (set_limit_inv p toks n). Qed.
Print Assumptions C05_shares_follow.
