(* C15 - the no-load RTT baseline is a recent true minimum and is refreshed by probing. *)
From Coq Require Import ZArith List Bool.
From GCL Require Import Base.F64 Model.Measure Model.Limits Proofs.LimitsBasic.
Import ListNotations.
Open Scope Z_scope.

(* after every Vegas sample the baseline is unset or not above the sample's RTT
   (`baseline_ok nl r` : nl == 0 or not (r < nl), the comparison the code itself uses) *)
Theorem C15_vegas_baseline v s o : vegas_step v s = Some o ->
  baseline_ok (v_noload (o_st o)) (of_int (s_rtt s)) \/
  (v_noload (o_st o) = v_noload v /\ flt (of_int (s_rtt s)) (v_noload v) = false).
Proof. exact (vegas_baseline v s o). Qed.
Print Assumptions C15_vegas_baseline.

Theorem C15_gradient_baseline v s o : grad_step v s = Some o -> baseline_ok (g_noload (o_st o)) (of_int (s_rtt s)).
Proof. exact (grad_baseline v s o). Qed.
Print Assumptions C15_gradient_baseline.

(* the baseline always equals (the float64 of) an RTT observed since the last reset, or is unset *)
Theorem C15_vegas_baseline_observed v s o hist : vegas_step v s = Some o -> from_hist (v_noload v) hist ->
  from_hist (v_noload (o_st o)) (if o_branch o =? 1 then [s_rtt s] else s_rtt s :: hist).
Proof. exact (vegas_baseline_observed v s o hist). Qed.
Print Assumptions C15_vegas_baseline_observed.

Theorem C15_gradient_baseline_observed v s o hist : grad_step v s = Some o -> from_hist (g_noload v) hist ->
  from_hist (g_noload (o_st o)) (if o_branch o =? 1 then [] else s_rtt s :: hist).
Proof. exact (grad_baseline_observed v s o hist). Qed.
Print Assumptions C15_gradient_baseline_observed.

(* Gradient resets recur: starting with countdown c (0 < c <= k) every run of consecutive non-probe samples is
   shorter than k; the countdown after a probe is the draw, which the implementation takes from [interval, 2*interval),
   so k = 2*interval - 1 bounds the distance between resets, for every draw stream. *)
Theorem C15_gradient_reset_period v ss : g_int v <> -1 ->
  forall k, 0 < g_cnt v <= k ->
  (fix go (v : grad) (ss : list sample) (n : Z) : Prop :=
     match ss with
     | [] => True
     | s :: r => match grad_step v s with
                 | None => True
                 | Some o => if o_branch o =? 1 then True else n + 1 < k /\ go (o_st o) r (n + 1)
                 end
     end) v ss (k - g_cnt v).
Proof. exact (grad_probe_period v ss). Qed.
Print Assumptions C15_gradient_reset_period.

(* Vegas resets recur: for every state satisfying the C04 invariant, every jitter stream drawn from [0,1] and probe multiplier in [1, 2^20],
   no step panics and every run of consecutive non-probe samples is shorter than multiplier x (M + 1), M >= the largest estimate
   ("within probe-multiplier x limit samples"). *)
From Coq Require Import Reals.
From GCL Require Import Proofs.VegasSafe Proofs.VegasProbe.
Theorem C15_vegas_reset_period M ss v : VInv v M -> jit_ok (v_jitter v) -> (1 <= v_mult v <= 2^20)%Z -> (0 <= v_pcount v)%Z ->
  Forall psample_ok ss ->
  (fix go (v : vegas) (ss : list sample) (n : Z) : Prop :=
     match ss with
     | [] => True
     | s :: r => match vegas_step v s with
                 | None => False
                 | Some o => if (o_branch o =? 1)%Z then True else (n + 1 < v_mult v * (M + 1))%Z /\ go (o_st o) r (n + 1)%Z
                 end
     end) v ss (v_pcount v).
Proof. exact (vegas_probe_period M ss v). Qed.
Print Assumptions C15_vegas_reset_period.
