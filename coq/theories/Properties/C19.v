(* C19 - pools: never more than the limit held, every queued caller eventually served. *)
From Coq Require Import ZArith List Bool.
From GCL Require Import Model.Waiters Proofs.WaitersProofs Proofs.WaitersDrain.
From GCL Require Proofs.TablesOk.
Import ListNotations.
Open Scope Z_scope.

(* pools are compositions: fixed limit + precise strategy + default limiter + blocking / queue limiter; which wrapper and ordering
   each pool constructor installs is a generated fact (rows 9-14 of the constructor table) *)
Theorem C19_wiring : TablesOk.rows_eqb Gen.Tables.ctor_table ctor_expected = true.
Proof. exact TablesOk.ctors_agree. Qed.
Print Assumptions C19_wiring.

(* never more tokens held than the limit: every operation of every wrapper preserves busy <= limit *)
Theorem C19_never_over_arrive s c : within s -> within (arrive s c).
Proof. exact (arrive_within s c). Qed.
Print Assumptions C19_never_over_arrive.
Theorem C19_never_over_release s i pref : within s -> within (release s i pref).
Proof. exact (release_within s i pref). Qed.
Print Assumptions C19_never_over_release.
Theorem C19_never_over_cancel s i : within s -> within (cancel s i).
Proof. exact (cancel_within s i). Qed.
Print Assumptions C19_never_over_cancel.
Theorem C19_never_over_advance fuel s target pref : within s -> within (advance fuel s target pref).
Proof. exact (advance_within fuel s target pref). Qed.
Print Assumptions C19_never_over_advance.

(* every queued caller is served as holders release: each release with callers waiting and room serves one of them at once (queue pools) *)
Theorem C19_served_partial s i c pref : w_kind (ws_cfg s) = KQueue -> nth_error (ws_callers s) i = Some c -> c_st c = 1 ->
  let s1 := with_callers s (ws_busy s - 1) (ws_now s) (set_caller (ws_callers s) i (mk_caller 3 (c_t c) 0 (c_cancel c))) in
  (exists k, is_blocked s1 k) -> has_room s1 = true ->
  exists j, release s i pref = grant s1 j /\ is_blocked s1 j /\
            forall k, is_blocked s1 k -> if w_fifo (ws_cfg s) then (j <= k)%nat else (k <= j)%nat.
Proof. exact (release_queue_serves s i c pref). Qed.
Print Assumptions C19_served_partial.

(* ... and for every pool ordering (queue FIFO / LIFO and the random-order blocking pool alike): a release by a holder while callers are blocked serves
   at least one of them in the same operation, so a run of n releases leaves at most max(0, blocked - n) callers waiting - every queued caller is served
   once the holders ahead of it have released (settled executions; the race windows inside one Acquire are known findings F8 / F9) *)
Theorem C19_release_serves_one s i c pref : nth_error (ws_callers s) i = Some c -> c_st c = 1 -> within s -> 0 < nblocked s ->
  nblocked (release s i pref) <= nblocked s - 1.
Proof. exact (release_serves_one s i c pref). Qed.
Print Assumptions C19_release_serves_one.

Theorem C19_releases_drain l s s' : within s -> releases s l = Some s' -> nblocked s' <= Z.max 0 (nblocked s - Z.of_nat (length l)).
Proof. exact (releases_drain l s s'). Qed.
Print Assumptions C19_releases_drain.
