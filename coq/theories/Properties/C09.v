(* C09 - sampling windows: the algorithm sees each window once, aggregated exactly (default limiter). *)
From Coq Require Import ZArith List Bool.
From GCL Require Import Base.F64 Model.Measure Model.Strategy Model.DefaultLimiter Proofs.StrategyProofs Proofs.LimiterProofs.
Import ListNotations.
Open Scope Z_scope.

(* Refinement: the incremental window + next-update bookkeeping of the limiter produces, for EVERY list of completions
   (outcome, RTT in [0,2^62), in-flight, end time), exactly the calls of the list-based specification `spec`:
   the history of QUALIFYING completions (drops; successes at or above the RTT threshold; ignored completions and faster successes
   leave no trace) is cut where "end time > next update time and the segment is ready (a success present, more successes than
   the window size)", each segment is summarised by (minimum success RTT, maximum in-flight over all, any drop), and the next
   update time becomes end + min(max(2*minimum, minWindow), maxWindow) > end: at most one call per period. *)
Theorem C09_default_windows c l seg w nx : Forall wf seg -> Forall wf l -> abs seg w -> wrun c (w, nx) l = spec c seg nx l.
Proof. exact (wrun_spec c l seg w nx). Qed.
Print Assumptions C09_default_windows.

(* Tie to the limiter model: completing listener k at time `now` acts on (window, next update time) and produces the call
   exactly as the window-level step on the completion (outcome, now - start, in-flight at acquire, now). *)
Theorem C09_limiter_step l k oc now x : LInv l -> nth_error (lm_listeners l) k = Some x ->
  let '(l', c) := lm_complete l k oc now in
  ((lm_win l', lm_next l'), c) = wstep (lm_cfg l) (lm_win l, lm_next l) (completion_of x oc now) /\ lm_cfg l' = lm_cfg l.
Proof. exact (complete_is_wstep l k oc now x). Qed.
Print Assumptions C09_limiter_step.

(* non-vacuity: a drop in the middle of a window of three successes sets the flag of that window only *)
Example C09_example :
  let c := {| l_minw := 10; l_maxw := 10; l_thr := 5; l_wsize := 2 |} in
  wrun c (win_empty, 0)
    [ {| co := Success; crtt := 7; cinf := 1; cend := 20 |}; {| co := Dropped; crtt := 0; cinf := 4; cend := 21 |};
      {| co := Success; crtt := 3; cinf := 9; cend := 22 |}; {| co := Ignore; crtt := 9; cinf := 9; cend := 23 |};
      {| co := Success; crtt := 6; cinf := 2; cend := 24 |}; {| co := Success; crtt := 9; cinf := 3; cend := 25 |};
      {| co := Success; crtt := 8; cinf := 1; cend := 40 |}; {| co := Success; crtt := 8; cinf := 1; cend := 41 |};
      {| co := Success; crtt := 8; cinf := 1; cend := 42 |} ]
  = [(6, 4, true); (8, 1, false)].
Proof. vm_compute. reflexivity. Qed.

(* ---- windowed limit ---- *)
From GCL Require Import Model.Limits Proofs.MeasureProofs Proofs.WindowedProofs.

(* WindowedLimit.OnSample forwards to its delegate exactly what the window-level step says, with the sample's start time *)
Theorem C09_windowed_step w s :
  windowed_step w s =
  match wd_step (wd_cfg w) (wd_win w, wd_next w) s with
  | ((wn, nx), None) =>
      Some (mk {| wd_cfg := wd_cfg w; wd_next := nx; wd_win := wn; wd_inner := wd_inner w |} []
               (tag_outer (common_sample (s_rtt s) (s_inflight s) (s_drop s))) (if s_rtt s <? w_thr (wd_cfg w) then 101 else 102))
  | ((wn, nx), Some (r, i, d)) =>
      match algo_step (wd_inner w) {| s_start := s_start s; s_rtt := r; s_inflight := i; s_drop := d; s_draw := s_draw s; s_lgi := s_lgi s; s_lgf := s_lgf s |} with
      | None => None
      | Some o => Some (mk {| wd_cfg := wd_cfg w; wd_next := nx; wd_win := wn; wd_inner := o_st o |} (o_notify o)
                           (tag_outer (common_sample (s_rtt s) (s_inflight s) (s_drop s)) ++ o_emit o) (200 + o_branch o))
      end
  end.
Proof. exact (windowed_is_wd_step w s). Qed.
Print Assumptions C09_windowed_step.

(* for every sample list: one delegate update per closed window, carrying the fold of ALL qualifying samples (any sample at or above the
   RTT threshold) since the previous update; the readiness rule is the one coded (the closing sample ends after the period, its in-flight
   exceeds the window size) *)
Theorem C09_windowed_windows c l seg nx : wd_run c (win_of (map to_ws seg), nx) l = wspec c seg nx l.
Proof. exact (windowed_refines c l seg nx). Qed.
Print Assumptions C09_windowed_windows.

(* the aggregate in closed form: mean RTT of the successes (int64 sum, truncating division; 0 when the window holds only drops), maximum
   in-flight over all samples, drop flag iff some sample of the window was a drop *)
Theorem C09_windowed_aggregate seg :
  let ws := map to_ws seg in
  wsummary seg = (let n := Z.of_nat (length (ok_rtts ws)) in if n =? 0 then 0 else Z.quot (wrap64 (fold_right Z.add 0 (ok_rtts ws))) n,
                  fold_right Z.max 0 (infs ws), any_drop ws).
Proof. exact (wsummary_spec seg). Qed.
Print Assumptions C09_windowed_aggregate.
