(* C18 - measurement primitives compute what they name, reset cleanly, report changes. *)
From Coq Require Import ZArith List Bool Permutation Reals.
From Flocq Require Import Core BinarySingleNaN.
From GCL Require Import Base.F64 Base.F64Facts Model.Measure Proofs.MeasureProofs Proofs.HullPow2 Proofs.HullNear.
Import ListNotations.

(* minimum of the samples since reset (positive finite samples, any number of them) *)
Theorem C18_minimum x xs : pos_fin x -> Forall pos_fin xs ->
  let v := fold_left min_add (x :: xs) zero in
  pos_fin v /\ R v = fold_left Rmin (map R xs) (R x).
Proof. exact (minimum_is_min x xs). Qed.
Print Assumptions C18_minimum.

(* Add's flag is true whenever the stored value changed *)
Theorem C18_minimum_flag old x : fin old = true -> fin x = true ->
  R (fst (min_add_flag old x)) <> R old -> snd (min_add_flag old x) = true.
Proof. exact (minimum_flag old x). Qed.
Print Assumptions C18_minimum_flag.

(* arithmetic mean (float sum / count) during warm-up *)
Theorem C18_expavg_warmup w k xs : (Z.of_nat (length xs) <= k)%Z -> xs <> [] ->
  let m := fold_left ea_add xs (ea_new w k) in
  ea_value m = div (fold_left add xs zero) (of_int (Z.of_nat (length xs))) /\ ea_count m = Z.of_nat (length xs).
Proof. exact (expavg_warmup w k xs). Qed.
Print Assumptions C18_expavg_warmup.

(* the sample window summarises exactly the samples added ... *)
Theorem C18_window_summary l :
  let w := win_of l in
  wmin w = fold_right Z.min MAXINT (ok_rtts l) /\
  wmaxinf w = fold_right Z.max 0%Z (infs l) /\
  wcount w = Z.of_nat (length (ok_rtts l)) /\
  wsum w = wrap64 (fold_right Z.add 0%Z (ok_rtts l)) /\
  wdrop w = any_drop l.
Proof. exact (window_summary l). Qed.
Print Assumptions C18_window_summary.

(* ... independently of their order *)
Theorem C18_window_perm l1 l2 : Permutation l1 l2 -> win_of l1 = win_of l2.
Proof. exact (window_order_independent l1 l2). Qed.
Print Assumptions C18_window_perm.

(* after Reset an instance IS a new one (same state), whatever operations preceded the reset; hence it behaves like one *)
Theorem C18_reset_fresh_expavg w k xs : ea_reset (fold_left ea_add xs (ea_new w k)) = ea_new w k.
Proof. exact (ea_reset_fresh w k xs). Qed.
Print Assumptions C18_reset_fresh_expavg.
Theorem C18_reset_fresh_moving_average a ops : sema_reset (fold_left sema_do ops (sema_new a)) = sema_new a.
Proof. exact (sema_reset_fresh a ops). Qed.
Print Assumptions C18_reset_fresh_moving_average.
Theorem C18_reset_fresh_variance aa av ops : smv_reset (fold_left smv_do ops (smv_new aa av)) = smv_new aa av.
Proof. exact (smv_reset_fresh aa av ops). Qed.
Print Assumptions C18_reset_fresh_variance.
Theorem C18_reset_fresh_percentile p d aa av ops : wmp_reset (fold_left wmp_do ops (wmp_new p d aa av)) = wmp_new p d aa av.
Proof. exact (wmp_reset_fresh p d aa av ops). Qed.
Print Assumptions C18_reset_fresh_percentile.

(* non-vacuity *)
Example C18_window_example :
  win_of [WOk 30 2; WDrop 9; WOk 10 5] = {| wmin := 10; wmaxinf := 9; wcount := 2; wsum := 40; wdrop := true |}.
Proof. reflexivity. Qed.

(* The averages stay inside the hull of their samples, in binary64 and without drift: for every sample sequence (any length) of finite values in
   [0, 2^k] the exponential average - warm-up mean and exponential phase alike - stays a finite value in [0, 2^k] (window >= 1).
   The convex combination round(round(round(1 - f) x value) + round(f x sample)) cannot leave [0, 2^k]: scaling by 2^k is exact and the weights
   exceed 1 by at most 2^-54, a quarter of the spacing above 2^k.  (With warm-up 0 the first value is NOT between the samples: known finding F20.) *)
Theorem C18_expavg_hull k xs m : (0 <= k <= 900)%Z -> AvgInv k m -> Forall (in_hull k) xs -> AvgInv k (fold_left ea_add xs m).
Proof. exact (expavg_hull k xs m). Qed.
Print Assumptions C18_expavg_hull.

Example C18_expavg_hull_fresh k w wu : (0 <= k)%Z -> (1 <= w < 2^52)%Z -> (wu < 2^52)%Z -> AvgInv k (ea_new w wu).
Proof. exact (ea_new_inv k w wu). Qed.

(* the simple exponential moving average likewise (smoothing alpha in [0,1], warm-up weights 1/n) *)
Theorem C18_moving_average_hull k xs m : (0 <= k <= 999)%Z -> SInv k m -> Forall (in_hull k) xs ->
  SInv k (fold_left (fun m x => fst (sema_add m x)) xs m).
Proof. exact (sema_hull k xs m). Qed.
Print Assumptions C18_moving_average_hull.

(* the moving variance is never negative (and stays finite): for samples in [0, 2^k] it lies in [0, 2^2k] after any sample sequence *)
Theorem C18_variance_nonneg k xs m : (0 <= k <= 499)%Z -> VarInv k m -> Forall (in_hull k) xs ->
  let m' := fold_left (fun m x => fst (smv_add m x)) xs m in
  VarInv k m' /\ fin (smv_get m') = true /\ (0 <= R (smv_get m') <= bpow radix2 (2 * k))%R.
Proof. exact (variance_nonneg k xs m). Qed.
Print Assumptions C18_variance_nonneg.

(* The hull of the samples themselves, [lo, hi] with 1 <= lo <= hi <= 2^900 arbitrary reals.  To the last bit it does NOT hold in binary64: the
   weights round(1 - f) + f can exceed 1, and value*(1-f) + sample*f then lands an ulp outside [lo, hi].  What holds for every sample sequence
   of any length is a band that does not widen with the length: from a fresh measurement on (warm-up 1..window samples, window < 2^20), after
   every Add, the value lies in [lo (1 - 4u/f), hi (1 + 4u/f)] with u = 2^-53 and f = 2/(window+1) as computed - an excursion is pulled back by
   the factor f faster than the three roundings of a step can push it out; during warm-up the mean of K samples is within (1.02 K + 2) u. *)
Theorem C18_expavg_band lo hi xs m : (1 <= lo <= hi)%R -> (hi <= bpow radix2 900)%R -> FInv lo hi m ->
  Forall (fun x => fin x = true /\ (lo <= R x <= hi)%R) xs -> FInv lo hi (fold_left ea_add xs m).
Proof. exact (expavg_band lo hi xs m). Qed.
Print Assumptions C18_expavg_band.

Example C18_expavg_band_fresh lo hi w wu : (1 <= w < 2^20)%Z -> (1 <= wu <= w)%Z -> FInv lo hi (ea_new w wu).
Proof. exact (ea_new_finv lo hi w wu). Qed.

(* the steady-state step alone (any window < 2^31, any state in the band), and the same for the simple exponential moving average *)
Theorem C18_expavg_band_steady lo hi xs m : (1 <= lo <= hi)%R -> (hi <= bpow radix2 900)%R -> NInv lo hi m ->
  Forall (fun x => fin x = true /\ (lo <= R x <= hi)%R) xs -> NInv lo hi (fold_left ea_add xs m).
Proof. exact (expavg_near_hull lo hi xs m). Qed.
Print Assumptions C18_expavg_band_steady.
Theorem C18_moving_average_band lo hi xs m : (1 <= lo <= hi)%R -> (hi <= bpow radix2 900)%R -> SNInv lo hi m ->
  Forall (fun x => fin x = true /\ (lo <= R x <= hi)%R) xs -> SNInv lo hi (fold_left (fun m x => fst (sema_add m x)) xs m).
Proof. exact (sema_near_hull lo hi xs m). Qed.
Print Assumptions C18_moving_average_band.
Example C18_band_nonvacuous lo hi f v : (1 <= lo <= hi)%R -> (/ 1073741824 <= f <= 1)%R -> fin v = true -> (lo <= R v <= hi)%R -> near lo hi f v.
Proof. exact (near_of_inside lo hi f v). Qed.
