(* C14 - gRPC interceptors: gate on the right limiter, complete the token exactly once. *)
From Coq Require Import ZArith List Bool.
From GCL Require Import Model.Grpc Proofs.GrpcProofs.
Import ListNotations.
Open Scope Z_scope.

(* Unary server and client interceptors, for every option list, acquire result and classifier answer:
   acquire first and exactly once on the configured limiter; on a grant run the call once, consult the
   configured classifier, complete that limiter's token exactly once with its answer, return the call's result;
   on refusal no call, no token event, the status of the configured limit-exceeded classifier. *)
Theorem C14_unary_server opts ok cls :
  let c := u_config opts in
  contract (u_limiter c) (u_limit_class c) (u_server_class c) ok true cls (unary true c ok cls).
Proof. exact (unary_contract true (u_config opts) ok cls). Qed.
Print Assumptions C14_unary_server.

Theorem C14_unary_client opts ok cls :
  let c := u_config opts in
  contract (u_limiter c) (u_limit_class c) (u_client_class c) ok true cls (unary false c ok cls).
Proof. exact (unary_contract false (u_config opts) ok cls). Qed.
Print Assumptions C14_unary_client.

(* Stream wrapper: receive operations use the receive limiter and classifiers, send operations the send ones;
   the classifier is consulted only when the stream operation failed, otherwise the token completes with success;
   holds for every operation of every sequence of RecvMsg / SendMsg calls. *)
Theorem C14_stream opts ops :
  let c := s_config opts in
  Forall2 (fun o p => contract (if so_recv o then s_recv c else s_send c)
                               (if so_recv o then s_recv_limit_class c else s_send_limit_class c)
                               (if so_recv o then s_server_class c else s_client_class c)
                               (so_ok o) (so_err o) (so_cls o) p) ops (run_stream c ops).
Proof. exact (stream_sequence (s_config opts) ops). Qed.
Print Assumptions C14_stream.

(* Options: the configuration in force is, field by field, the last option given for that field,
   or the default when none was given; an option touches no other field. *)
Theorem C14_options_unary f opts : 1 <= f <= 4 -> u_get f (u_config opts) = last_set f opts (u_get f u_default).
Proof. exact (fun H => u_options_exact f opts H u_default). Qed.
Print Assumptions C14_options_unary.
Theorem C14_options_stream f opts : 1 <= f <= 6 -> s_get f (s_config opts) = s_last_set f opts (s_get f s_default).
Proof. exact (fun H => s_options_exact f opts H s_default). Qed.
Print Assumptions C14_options_stream.

(* non-vacuity: a concrete configured call *)
Example C14_example :
  unary true (u_config [WithLimiter 7; WithServerClass 3; WithLimiter 9]) true Dropped
  = ([EAcquire 9; ECall; ERespClass 3; EToken 9 Dropped], RCall)
  /\ stream_op false (s_config [WithSendLimiter 4; WithRecvLimiter 5]) false false Success
  = ([EAcquire 4; ELimitClass 0 4], RStatus 0).
Proof. split; reflexivity. Qed.
