(* C03 - partitioned admission: guaranteed share, borrowing up to the total, exact bins. *)
From Coq Require Import ZArith List Bool.
From GCL Require Import Base.F64 Model.Strategy Proofs.StrategyProofs.
Import ListNotations.
Open Scope Z_scope.

(* A request is charged to the first registered live partition matching it, to <unknown> (lookup) or to nothing (predicate:
   refused); it is admitted exactly when total busy < total limit or that partition's busy < its limit; a grant charges
   exactly that bin and the total by one; a refusal changes nothing. *)
Theorem C03_admit_iff p k :
  let '(p', ok, n, o) := part_try p k in
  match target p k with
  | None => ok = false /\ p' = p
  | Some i =>
    match get_obj (p_objs p) i with
    | None => ok = false /\ p' = p
    | Some b =>
        (ok = true <-> (p_busy p < p_limit p \/ b_busy b < b_limit b)) /\
        (ok = true -> o = Some i /\ p_busy p' = p_busy p + 1 /\ get_obj (p_objs p') i = Some (bin_add_busy 1 b) /\ n = p_busy p + 1) /\
        (ok = false -> p' = p)
    end
  end.
Proof. exact (admit_iff p k). Qed.
Print Assumptions C03_admit_iff.

(* In every reachable state: every live bin's limit is share(total limit, fraction) = int32(max(1, ceil(float64(total) x fraction)))
   of the CURRENT total limit (pi_share), bins equal their outstanding tokens (pi_bins) and sum to the total (pi_total). *)
Theorem C03_reachable lookup ps total ops :
  let st := fold_left pstep ops (part_init lookup ps total, []) in PInv (fst st) (snd st).
Proof. exact (reach_inv lookup ps total ops). Qed.
Print Assumptions C03_reachable.

(* a partition under its share is never refused, whatever the load elsewhere *)
Theorem C03_guarantee p k i b : target p k = Some i -> get_obj (p_objs p) i = Some b -> b_busy b < b_limit b ->
  snd (fst (fst (part_try p k))) = true.
Proof. exact (guarantee p k i b). Qed.
Print Assumptions C03_guarantee.

(* borrowing stops once the total limit is reached *)
Theorem C03_borrow_cap p k i b : target p k = Some i -> get_obj (p_objs p) i = Some b -> b_limit b <= b_busy b ->
  snd (fst (fst (part_try p k))) = true -> p_busy p < p_limit p.
Proof. exact (borrow_cap p k i b). Qed.
Print Assumptions C03_borrow_cap.

(* non-vacuity: lookup strategy, total 4, one partition of 50%: an unknown key is charged to <unknown> whose share is 1 *)
Example C03_example :
  let p := part_init true [(1, half)] 4 in
  target p 7 = Some 0 /\ option_map b_limit (get_obj (p_objs p) 0) = Some 1 /\ option_map b_limit (get_obj (p_objs p) 1) = Some 2.
Proof. vm_compute. repeat split. Qed.
