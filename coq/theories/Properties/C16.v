(* C16 - change notifications are complete and agree with the reported estimate. *)
From Coq Require Import ZArith List Bool.
From GCL Require Import Base.F64 Model.Measure Model.Limits Proofs.LimitsBasic.
Import ListNotations.
Open Scope Z_scope.

(* For every built-in limit, plain or wrapped by the windowed limit (the traced limit is the identity on everything
   observable), every sample: if the step delivers values to the registered listeners, the last one equals the estimate
   reported afterwards; if it delivers nothing the reported estimate did not change.  Every registered listener
   receives the same list (the model has a single delivery list per step). *)
Theorem C16_step l s o : any_step l s = Some o -> notif_ok (any_est l) (any_est (o_st o)) (o_notify o).
Proof. exact (any_notif l s o). Qed.
Print Assumptions C16_step.

(* over whole histories: after every sample list the reported estimate is the last value ever delivered,
   or the estimate at registration time when nothing was delivered since *)
Theorem C16_last_agrees l ss l' ns : any_run l ss = Some (l', ns) -> any_est l' = last (concat ns) (any_est l).
Proof. exact (any_run_last l ss l' ns). Qed.
Print Assumptions C16_last_agrees.

(* a listener registered after the prefix s1 sees exactly the deliveries of the suffix s2 *)
Theorem C16_suffix l s1 s2 l1 n1 : any_run l s1 = Some (l1, n1) ->
  any_run l (s1 ++ s2) = match any_run l1 s2 with None => None | Some (l2, n2) => Some (l2, n1 ++ n2) end.
Proof. exact (any_run_app l s1 s2 l1 n1). Qed.
Print Assumptions C16_suffix.

(* explicit set: SettableLimit delivers the new value, which is what it reports afterwards (values within int32) *)
Theorem C16_settable l v : - 2^31 <= v < 2^31 ->
  let '(a, n) := algo_set_limit (ASettable l) v in n = [v] /\ algo_est a = v.
Proof. exact (settable_notif l v). Qed.
Print Assumptions C16_settable.
