From Coq Require Import ZArith Reals Lia Lra Psatz Bool.
From Flocq Require Import Core BinarySingleNaN Sterbenz Round_NE Relative.
From GCL Require Import Base.F64.
Open Scope R_scope.

Notation fexp := (SpecFloat.fexp prec emax).
Notation rnd := (round radix2 fexp ZnearestE).
Notation fmt := (generic_format radix2 fexp).
Global Instance fexpV : Valid_exp fexp := fexp_correct prec emax _.
Global Instance fexpM : Monotone_exp fexp := fexp_monotone prec emax.
Lemma fexp_eq e : fexp e = Z.max (e - 53) (-1074).
Proof. unfold SpecFloat.fexp, SpecFloat.emin, prec, emax. lia. Qed.
Global Instance exNE : Exists_NE radix2 fexp.
Proof. unfold Exists_NE. right. intros e. rewrite !fexp_eq. lia. Qed.

Definition R (x : f64) : R := B2R x.
Definition fin (x : f64) : bool := is_finite x.

Lemma rnd_mono a b : a <= b -> rnd a <= rnd b.
Proof. apply round_le; auto with typeclass_instances. Qed.
Lemma fmt_R x : fmt (R x).
Proof. apply generic_format_B2R. Qed.
Lemma rnd_id x : fmt x -> rnd x = x.
Proof. intros H. apply round_generic; auto with typeclass_instances. Qed.
Lemma fmt_bpow e : (-1074 <= e)%Z -> fmt (bpow radix2 e).
Proof. intros H. apply generic_format_bpow. rewrite fexp_eq. lia. Qed.

(* a real bounded by a representable power of two rounds within that bound *)
Lemma rnd_abs_le x k : (-1074 <= k)%Z -> Rabs x <= bpow radix2 k -> Rabs (rnd x) <= bpow radix2 k.
Proof.
  intros Hk Hx. apply Rabs_le. apply Rabs_le_inv in Hx. split.
  - rewrite <- (rnd_id (- bpow radix2 k)) by (apply generic_format_opp; now apply fmt_bpow). apply rnd_mono; lra.
  - rewrite <- (rnd_id (bpow radix2 k)) by now apply fmt_bpow. apply rnd_mono; lra.
Qed.
Lemma rnd_lt_emax x : Rabs x <= bpow radix2 1000 -> Rabs (rnd x) < bpow radix2 emax.
Proof.
  intros H. apply Rle_lt_trans with (bpow radix2 1000). apply rnd_abs_le; [lia|exact H].
  apply bpow_lt. unfold emax; lia.
Qed.

Lemma mul_ok x y : fin x = true -> fin y = true -> Rabs (R x * R y) <= bpow radix2 1000 ->
  fin (mul x y) = true /\ R (mul x y) = rnd (R x * R y).
Proof.
  intros Hx Hy Hb. unfold mul, R, fin in *.
  generalize (Bmult_correct prec emax _ _ mode_NE x y). cbn [round_mode].
  rewrite Rlt_bool_true by (apply rnd_lt_emax; exact Hb).
  intros (A & B & _). rewrite B, Hx, Hy. now split.
Qed.
Lemma add_ok x y : fin x = true -> fin y = true -> Rabs (R x + R y) <= bpow radix2 1000 ->
  fin (add x y) = true /\ R (add x y) = rnd (R x + R y).
Proof.
  intros Hx Hy Hb. unfold add, R, fin in *.
  generalize (Bplus_correct prec emax _ _ mode_NE x y Hx Hy). cbn [round_mode].
  rewrite Rlt_bool_true by (apply rnd_lt_emax; exact Hb).
  intros (A & B & _). now split.
Qed.
Lemma sub_ok x y : fin x = true -> fin y = true -> Rabs (R x - R y) <= bpow radix2 1000 ->
  fin (sub x y) = true /\ R (sub x y) = rnd (R x - R y).
Proof.
  intros Hx Hy Hb. unfold sub, R, fin in *.
  generalize (Bminus_correct prec emax _ _ mode_NE x y Hx Hy). cbn [round_mode].
  rewrite Rlt_bool_true by (apply rnd_lt_emax; exact Hb).
  intros (A & B & _). now split.
Qed.
Lemma of_int_ok z : Rabs (IZR z) <= bpow radix2 1000 -> fin (of_int z) = true /\ R (of_int z) = rnd (IZR z).
Proof.
  intros Hb. unfold of_int, R, fin.
  generalize (binary_normalize_correct prec emax _ _ mode_NE z 0 false). cbn [round_mode].
  unfold F2R; cbn [Defs.Fnum Defs.Fexp]. replace (IZR z * bpow radix2 0) with (IZR z) by (simpl; ring).
  rewrite Rlt_bool_true by (apply rnd_lt_emax; exact Hb).
  intros (A & B & _). now split.
Qed.
Lemma bpow1000_big x : Rabs x <= 1e30 -> Rabs x <= bpow radix2 1000.
Proof.
  intros H. apply Rle_trans with (1 := H). apply Rle_trans with (bpow radix2 100).
  - change (bpow radix2 100) with (IZR (Z.pow_pos 2 100)). replace (Z.pow_pos 2 100) with 1267650600228229401496703205376%Z by (vm_compute; reflexivity). lra.
  - apply bpow_le; lia.
Qed.
(* small integers are exact *)
Lemma fmt_int z : (Z.abs z < 2^53)%Z -> fmt (IZR z).
Proof.
  intros H. replace (IZR z) with (F2R (Float radix2 z 0)) by (unfold F2R; simpl; ring).
  apply generic_format_F2R. intros Hz. unfold cexp. rewrite fexp_eq.
  assert (mag radix2 (F2R (Float radix2 z 0)) <= 53)%Z.
  { apply mag_le_bpow. unfold F2R; simpl. rewrite Rmult_1_r. now apply IZR_neq.
    unfold F2R; simpl. rewrite Rmult_1_r. rewrite <- abs_IZR.
    change (bpow radix2 53) with (IZR (Z.pow_pos 2 53)). apply IZR_lt. exact H. }
  simpl. lia.
Qed.
Lemma of_int_exact z : (Z.abs z < 2^53)%Z -> fin (of_int z) = true /\ R (of_int z) = IZR z.
Proof.
  intros H. destruct (of_int_ok z) as [A B].
  - apply bpow1000_big. rewrite <- abs_IZR. apply Rle_trans with (IZR (2^53)). apply IZR_le; lia.
    replace (2^53)%Z with 9007199254740992%Z by reflexivity. lra.
  - split; [exact A|]. rewrite B. apply rnd_id. now apply fmt_int.
Qed.
Lemma R_one : fin one = true /\ R one = 1. Proof. apply (of_int_exact 1). reflexivity. Qed.
Lemma R_zero : fin zero = true /\ R zero = 0. Proof. apply (of_int_exact 0). reflexivity. Qed.

(* comparisons and Go's min/max on finite values *)
Lemma flt_R x y : fin x = true -> fin y = true -> flt x y = Rlt_bool (R x) (R y).
Proof. intros; unfold flt; now apply Bltb_correct. Qed.

Lemma fin_cases x : fin x = true -> is_nan x = false /\ is_pinf x = false /\ is_ninf x = false.
Proof. destruct x as [s|s| |s m e H]; try destruct s; cbn; intros; try discriminate; auto. Qed.

Lemma fmin_ok x y : fin x = true -> fin y = true -> fin (fmin x y) = true /\ R (fmin x y) = Rmin (R x) (R y).
Proof.
  intros Hx Hy. destruct (fin_cases x Hx) as (a1 & a2 & a3), (fin_cases y Hy) as (b1 & b2 & b3).
  unfold fmin. rewrite a1, a3, b1, b3. cbn [orb].
  assert (G: fin (if flt x y then x else y) = true /\ R (if flt x y then x else y) = Rmin (R x) (R y)).
  { rewrite (flt_R x y Hx Hy). destruct (Rlt_bool_spec (R x) (R y)); split; auto.
    rewrite Rmin_left; lra. rewrite Rmin_right; lra. }
  destruct x as [sx| | |]; try exact G. destruct y as [sy| | |]; try exact G.
  destruct sx; cbn; split; auto; rewrite Rmin_left; lra.
Qed.
Lemma fmax_ok x y : fin x = true -> fin y = true -> fin (fmax x y) = true /\ R (fmax x y) = Rmax (R x) (R y).
Proof.
  intros Hx Hy. destruct (fin_cases x Hx) as (a1 & a2 & a3), (fin_cases y Hy) as (b1 & b2 & b3).
  unfold fmax. rewrite a1, a2, b1, b2. cbn [orb].
  assert (G: fin (if flt y x then x else y) = true /\ R (if flt y x then x else y) = Rmax (R x) (R y)).
  { rewrite (flt_R y x Hy Hx). destruct (Rlt_bool_spec (R y) (R x)); split; auto.
    rewrite Rmax_left; lra. rewrite Rmax_right; lra. }
  destruct x as [sx| | |]; try exact G. destruct y as [sy| | |]; try exact G.
  destruct sx; cbn; split; auto; rewrite Rmax_left; lra.
Qed.

(* relative error of rounding in the normal range *)
Definition u := / 9007199254740992.   (* 2^-53 *)
Lemma rnd_rel x : bpow radix2 (-1022) <= Rabs x -> Rabs (rnd x - x) <= u * Rabs x.
Proof.
  intros H. generalize (relative_error_N_FLT radix2 (-1074) 53 ltac:(lia) (fun x => negb (Z.even x)) x).
  intros G. replace (u * Rabs x) with (/ 2 * bpow radix2 (- (53) + 1) * Rabs x).
  2:{ f_equal. unfold u. change (bpow radix2 (-(53) + 1)) with (/ IZR (Z.pow_pos 2 52)).
      replace (Z.pow_pos 2 52) with 4503599627370496%Z by (vm_compute; reflexivity). lra. }
  apply G. exact H.
Qed.

(* ---- tie-to-even: convex weights computed in binary64 sum to at least 1 ---- *)
Lemma fmt1 : fmt 1.
Proof. replace 1 with (bpow radix2 0) by reflexivity. apply generic_format_bpow. rewrite fexp_eq. lia. Qed.

Lemma pred1 : pred radix2 fexp 1 = 1 - bpow radix2 (-53).
Proof. replace 1 with (bpow radix2 0) at 1 2 by reflexivity. rewrite pred_bpow. rewrite fexp_eq. reflexivity. Qed.

Lemma b53 : bpow radix2 (-53) = / 9007199254740992.
Proof. unfold bpow. replace (Z.pow_pos radix2 53) with 9007199254740992%Z by (vm_compute; reflexivity). reflexivity. Qed.
Lemma b54 : bpow radix2 (-54) = / 18014398509481984.
Proof. unfold bpow. replace (Z.pow_pos radix2 54) with 18014398509481984%Z by (vm_compute; reflexivity). reflexivity. Qed.

(* rounding something at least the midpoint below 1 gives at least 1 *)
Lemma rnd_ge_1 y : 1 - bpow radix2 (-54) <= y -> 1 <= rnd y.
Proof.
  intros Hy.
  destruct (Rle_lt_or_eq_dec _ _ Hy) as [Hlt|Heq].
  - apply round_N_ge_midp; auto with typeclass_instances. apply fmt1.
    rewrite pred1. rewrite b53. rewrite b54 in Hlt. lra.
  - (* the tie *)
    subst y. set (y := 1 - bpow radix2 (-54)).
    destruct (Rle_or_lt 1 (rnd y)) as [H|H]; [exact H|exfalso].
    pose proof (round_NE_pt radix2 fexp y) as (HN & Hne).
    assert (F: fmt (rnd y)) by (apply generic_format_round; auto with typeclass_instances).
    assert (Hle: rnd y <= 1 - bpow radix2 (-53)).
    { rewrite <- pred1. apply pred_ge_gt; auto with typeclass_instances. apply fmt1. }
    (* 1 is also a nearest point *)
    assert (N1: Rnd_N_pt fmt y 1).
    { split; [apply fmt1|]. intros g Fg.
      destruct (Rle_or_lt 1 g) as [G|G].
      - unfold y. rewrite b54. rewrite !Rabs_pos_eq; lra.
      - assert (g <= 1 - bpow radix2 (-53)).
        { rewrite <- pred1. apply pred_ge_gt; auto with typeclass_instances. apply fmt1. }
        unfold y in *. rewrite b53, b54 in *. rewrite (Rabs_pos_eq (1 - _)) by lra.
        rewrite Rabs_left1 by lra. lra. }
    (* rnd y is a nearest point, so it is at distance <= 2^-54, hence equals pred 1 *)
    assert (Heq: rnd y = 1 - bpow radix2 (-53)).
    { destruct HN as [_ HN]. specialize (HN 1 fmt1).
      unfold y in *. rewrite b53, b54 in *.
      rewrite (Rabs_pos_eq (1 - _)) in HN by lra.
      rewrite Rabs_left1 in HN by lra. lra. }
    destruct Hne as [(g & Hg1 & Hg2 & Hg3) | Huniq].
    + (* canonical representation of pred 1 has an odd mantissa *)
      assert (Hex: Fexp g = (-53)%Z).
      { unfold canonical in Hg2. rewrite Hg2. rewrite <- Hg1, Heq. unfold cexp.
        rewrite (mag_unique_pos radix2 _ 0). apply fexp_eq.
        rewrite b53. simpl. lra. }
      assert (Hnum: IZR (Fnum g) = 9007199254740991).
      { rewrite Heq in Hg1. unfold F2R in Hg1. rewrite Hex in Hg1. rewrite b53 in Hg1.
        apply (Rmult_eq_compat_r 9007199254740992) in Hg1. rewrite Rmult_assoc in Hg1.
        rewrite Rinv_l in Hg1 by lra. lra. }
      apply eq_IZR in Hnum. rewrite Hnum in Hg3. discriminate.
    + specialize (Huniq 1 N1). lra.
Qed.

(* convex weights computed in binary64 sum to at least 1 after rounding *)
Lemma weights_ge_1 s : fmt s -> 0 <= s <= 1 -> 1 <= rnd (rnd (1 - s) + s).
Proof.
  intros Fs [H0 H1].
  destruct (Rle_or_lt (/2) s) as [Hs|Hs].
  - (* Sterbenz: 1 - s is exact *)
    assert (E: rnd (1 - s) = 1 - s).
    { apply round_generic; auto with typeclass_instances. apply sterbenz; auto with typeclass_instances.
      apply fmt1. lra. }
    rewrite E. replace (1 - s + s) with 1 by ring.
    rewrite round_generic; [lra | auto with typeclass_instances | apply fmt1].
  - destruct (Req_dec s 0) as [->|Hnz].
    + replace (1 - 0) with 1 by ring. rewrite (round_generic _ _ _ 1) by (auto with typeclass_instances; apply fmt1).
      replace (1 + 0) with 1 by ring. rewrite round_generic; [lra | auto with typeclass_instances | apply fmt1].
    + apply rnd_ge_1.
      assert (Herr: Rabs (rnd (1 - s) - (1 - s)) <= /2 * ulp radix2 fexp (1 - s)) by (apply error_le_half_ulp; auto with typeclass_instances).
      assert (Hulp: ulp radix2 fexp (1 - s) = bpow radix2 (-53)).
      { rewrite ulp_neq_0 by lra. f_equal. unfold cexp.
        rewrite (mag_unique_pos radix2 _ 0). apply fexp_eq. simpl. lra. }
      rewrite Hulp in Herr. rewrite b53 in Herr. rewrite b54. apply Rabs_le_inv in Herr. lra.
Qed.
