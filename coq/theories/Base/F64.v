From Coq Require Import ZArith List Bool Lia.
From Flocq Require Import Core BinarySingleNaN.
From Flocq Require Binary Bits.
Import ListNotations.
Open Scope Z_scope.

Definition prec := 53. Definition emax := 1024.
Global Instance Hprec : FLX.Prec_gt_0 prec. Proof. unfold FLX.Prec_gt_0, prec; lia. Qed.
Global Instance Hmax : Prec_lt_emax prec emax. Proof. unfold Prec_lt_emax, prec, emax; lia. Qed.
Definition f64 := BinarySingleNaN.binary_float prec emax.

(* bit patterns travel as Go int64 (two's complement of the uint64 pattern) *)
Definition of_bits (z : Z) : f64 := Binary.B2BSN prec emax (Bits.b64_of_bits (z mod 2^64)).
Definition to_ubits (x : f64) : Z := Bits.bits_of_b64 (Binary.BSN2B prec emax Bits.default_nan_pl64 x).
Definition to_bits (x : f64) : Z := let u := to_ubits x in if u <? 2^63 then u else u - 2^64.
Definition of_int (z : Z) : f64 := binary_normalize prec emax _ _ mode_NE z 0 false.
Definition mul : f64 -> f64 -> f64 := BinarySingleNaN.Bmult mode_NE.
Definition add : f64 -> f64 -> f64 := BinarySingleNaN.Bplus mode_NE.
Definition sub : f64 -> f64 -> f64 := BinarySingleNaN.Bminus mode_NE.
Definition div : f64 -> f64 -> f64 := BinarySingleNaN.Bdiv mode_NE.
Definition flt (a b : f64) : bool := BinarySingleNaN.Bltb a b.
Definition feq (a b : f64) : bool := BinarySingleNaN.Beqb a b.
Definition fceil (a : f64) : f64 := BinarySingleNaN.Bnearbyint mode_UP a.
Definition MININT := - 2 ^ 63.
(* Go int(x) on amd64 *)
Definition to_int (x : f64) : Z :=
  match x with
  | B754_zero _ => 0
  | B754_finite _ _ _ _ => let z := BinarySingleNaN.Btrunc x in if (z <? 2^63) && (- 2^63 <=? z) then z else MININT
  | _ => MININT
  end.
Definition is_nan (x : f64) := BinarySingleNaN.is_nan x.
Definition is_pinf (x : f64) := match x with B754_infinity false => true | _ => false end.
Definition is_ninf (x : f64) := match x with B754_infinity true => true | _ => false end.
Definition pinf : f64 := B754_infinity false. Definition ninf : f64 := B754_infinity true.
Definition nan : f64 := B754_nan.
(* math.Max / math.Min *)
Definition fmax (x y : f64) : f64 :=
  if is_pinf x || is_pinf y then pinf else if is_nan x || is_nan y then nan else
  match x, y with
  | B754_zero sx, B754_zero sy => if sx then y else x
  | _, _ => if flt y x then x else y end.
Definition fmin (x y : f64) : f64 :=
  if is_ninf x || is_ninf y then ninf else if is_nan x || is_nan y then nan else
  match x, y with
  | B754_zero sx, B754_zero sy => if sx then x else y
  | _, _ => if flt x y then x else y end.

Definition zero := of_int 0. Definition one := of_int 1. Definition two := of_int 2.

Definition half := of_bits 4602678819172646912. (* 0.5 *)
Definition fle (a b : f64) : bool := BinarySingleNaN.Bleb a b.
Definition ffloor (a : f64) : f64 := BinarySingleNaN.Bnearbyint mode_DN a.
Definition ftrunc (a : f64) : f64 := BinarySingleNaN.Bnearbyint mode_ZR a.
Definition fsqrt (a : f64) : f64 := BinarySingleNaN.Bsqrt mode_NE a.
Definition fneq (a b : f64) : bool := negb (feq a b).
(* Go's a > b, a >= b on floats (false when either is NaN) *)
Definition fgt (a b : f64) : bool := flt b a.
Definition fge (a b : f64) : bool := fle b a.
(* int32(x) for an int x: two's-complement wrap *)
Definition to_int32 (z : Z) : Z := (z + 2^31) mod 2^32 - 2^31.
Definition MAXINT := 2 ^ 63 - 1.
Definition b2z (b : bool) : Z := if b then 1 else 0.
Definition z2b (z : Z) : bool := negb (z =? 0).
