(* Model of limit/*.go and limit/functions/*.go (current tree): AIMD, Vegas, Gradient, Gradient2, Settable, Fixed,
   and the Windowed / Traced wrappers.  One function per OnSample, branch for branch, over binary64.
   Randomness (Vegas probe jitter, Gradient probe countdown) and math.Log10 beyond the lookup table are
   per-sample oracle inputs.  A table index outside the table is the explicit outcome None (= Go panic). *)
From Coq Require Import ZArith List Bool.
From Flocq Require Import Core BinarySingleNaN.
From GCL Require Import Base.F64 Model.Measure.
Import ListNotations.
Open Scope Z_scope.

(* metric emissions: (kind, value) ; kinds: 1 rtt (timing) 2 inflight 3 dropped 4 min_rtt 5 window.min_rtt 6 window.queue_size *)
Definition emission := (Z * f64)%type.
Definition common_sample (rtt inflight : Z) (drop : bool) : list emission :=
  (if drop then [(3, one)] else []) ++ [(1, of_int rtt); (2, of_int inflight)].

Record sample := { s_start : Z; s_rtt : Z; s_inflight : Z; s_drop : bool;
                   s_draw : Z;        (* Vegas: bits of the new jitter; Gradient: new countdown *)
                   s_lgi : f64;       (* math.Log10(float64(int(est))) as computed by Go, used only when int(est) >= 1000 *)
                   s_lgf : f64 }.     (* math.Log10(est), used only when int(est) >= 1000 *)

(* result of one step: new state, values delivered to every registered change listener (in order), metric emissions, branch id *)
Record out (S : Type) := { o_st : S; o_notify : list Z; o_emit : list emission; o_branch : Z }.
Arguments o_st {S}. Arguments o_notify {S}. Arguments o_emit {S}. Arguments o_branch {S}.
Definition mk {S} (s : S) (n : list Z) (e : list emission) (b : Z) : out S := {| o_st := s; o_notify := n; o_emit := e; o_branch := b |}.

(* ---------------- lookup tables (closed forms; Gen/Tables.v holds the dump of the running package) ---------------- *)
Definition log10_tbl (n : Z) : Z := if n <? 10 then 1 else if n <? 100 then 1 else 2.   (* max(1, int(log10 n)), n < 1000 *)
Definition TBL := 1000.
(* functions.Log10RootFunction(0) *)
Definition log10i (n : Z) (o : f64) : option Z :=
  if n <? 0 then None else if n <? TBL then Some (log10_tbl n) else Some (to_int o).
(* functions.Log10RootFloatFunction(0) *)
Definition log10f (e : f64) (o : f64) : option f64 :=
  let n := to_int e in
  if n <? 0 then None else if n <? TBL then Some (add zero (of_int (log10_tbl n))) else Some (add zero o).
(* sqrtRootLookup[i] = int(max(1, float(int(sqrt(float i))))) *)
Definition sqrt_tbl (n : Z) : Z := Z.max 1 (Z.sqrt n).
(* functions.SqrtRootFunction(4) *)
Definition sqrt_q (n : Z) : option Z :=
  if n <? 0 then None
  else if n <? TBL then Some (Z.max 4 (sqrt_tbl n))
  else Some (Z.max 4 (to_int (fsqrt (of_int n)))).

(* ---------------- AIMD ---------------- *)
Record aimd := { a_limit : Z; a_inc : Z; a_ratio : f64 }.
Definition aimd_init (initial inc : Z) (ratio : f64) : aimd :=
  {| a_limit := initial; a_inc := if inc <=? 0 then 1 else inc; a_ratio := ratio |}.
Definition aimd_est (a : aimd) : Z := a_limit a.
Definition aimd_drop_limit (limit : Z) (ratio : f64) : Z :=
  to_int (fmax one (fmin (of_int (limit - 1)) (mul (of_int limit) ratio))).
Definition aimd_step (a : aimd) (s : sample) : out aimd :=
  let em := common_sample (s_rtt s) (s_inflight s) (s_drop s) in
  if s_drop s then
    let l := aimd_drop_limit (a_limit a) (a_ratio a) in
    mk {| a_limit := l; a_inc := a_inc a; a_ratio := a_ratio a |} [l] em 1
  else if a_limit a <=? s_inflight s then
    let l := a_limit a + a_inc a in
    mk {| a_limit := l; a_inc := a_inc a; a_ratio := a_ratio a |} [l] em 2
  else mk a [] em 3.

(* ---------------- Vegas ---------------- *)
Record vegas := { v_est : f64; v_noload : f64; v_pcount : Z; v_jitter : f64; v_max : Z; v_smooth : f64; v_mult : Z }.
Definition vegas_init (initial maxc mult : Z) (smooth jit : f64) : vegas :=
  {| v_est := of_int (if initial <? 1 then 20 else initial); v_noload := zero; v_pcount := 0; v_jitter := jit;
     v_max := if maxc <? 0 then 1000 else maxc;
     v_smooth := if flt smooth zero || fgt smooth one then one else smooth;
     v_mult := if mult <=? 0 then 30 else mult |}.
Definition vegas_est (v : vegas) : Z := to_int (v_est v).
Definition vegas_noload (v : vegas) : Z := to_int (v_noload v).
Definition vegas_set (v : vegas) (e nl : f64) (pc : Z) (j : f64) : vegas :=
  {| v_est := e; v_noload := nl; v_pcount := pc; v_jitter := j; v_max := v_max v; v_smooth := v_smooth v; v_mult := v_mult v |}.
Definition vegas_should_probe (v : vegas) (pc : Z) : bool :=
  to_int (mul (mul (v_jitter v) (of_int (v_mult v))) (v_est v)) <=? pc.

(* the update once the queue size q is known (updateEstimatedLimit) *)
Definition vegas_update (v : vegas) (s : sample) (pc : Z) (em : list emission) (q : Z) : option (out vegas) :=
    let keep b := Some (mk (vegas_set v (v_est v) (v_noload v) pc (v_jitter v)) [] em b) in
    let fin (newl : option f64) b :=
      match newl with
      | None => None
      | Some newl =>
        let c := fmax one (fmin (of_int (v_max v)) newl) in
        let n := add (mul (sub one (v_smooth v)) (v_est v)) (mul (v_smooth v) c) in
        Some (mk (vegas_set v n (v_noload v) pc (v_jitter v)) [to_int n] em b)
      end in
    let lf := log10f (v_est v) (s_lgf s) in
    if s_drop s then fin (option_map (sub (v_est v)) lf) 3
    else if flt (mul (of_int (s_inflight s)) two) (v_est v) then keep 4
    else
      match log10i (to_int (v_est v)) (s_lgi s) with
      | None => None
      | Some l =>
        let alpha := 3 * l in let beta := 6 * l in let th := l in
        if q <? th then fin (Some (add (v_est v) (of_int beta))) 5
        else if q <? alpha then fin (option_map (add (v_est v)) lf) 6
        else if beta <? q then fin (option_map (sub (v_est v)) lf) 7
        else keep 8
      end.

Definition vegas_queue (v : vegas) (rtt : Z) : Z :=
  to_int (fceil (mul (v_est v) (sub one (div (v_noload v) (of_int rtt))))).

Definition vegas_step (v : vegas) (s : sample) : option (out vegas) :=
  let em := common_sample (s_rtt s) (s_inflight s) (s_drop s) in
  let pc := v_pcount v + 1 in
  let frtt := of_int (s_rtt s) in
  if vegas_should_probe v pc then
    Some (mk (vegas_set v (v_est v) (min_add zero frtt) 0 (of_bits (s_draw s))) [] em 1)
  else if feq (v_noload v) zero || flt frtt (v_noload v) then
    Some (mk (vegas_set v (v_est v) (min_add (v_noload v) frtt) pc (v_jitter v)) [] em 2)
  else
    vegas_update v s pc (em ++ [(4, v_noload v)]) (vegas_queue v (s_rtt s)).

(* ---------------- Gradient ---------------- *)
Record grad := { g_est : f64; g_noload : f64; g_cnt : Z; g_min : Z; g_max : Z; g_s : f64; g_tol : f64; g_int : Z }.
Definition grad_init (initial minl maxc interval : Z) (smooth tol : f64) (cnt0 : Z) : grad :=
  {| g_est := of_int (if initial <=? 0 then 50 else initial); g_noload := zero; g_cnt := cnt0;
     g_min := if minl <? 1 then 1 else minl; g_max := if maxc <=? 0 then 1000 else maxc;
     g_s := if flt smooth zero || fgt smooth one then of_bits 4596373779694328218 (* 0.2 *) else smooth;
     g_tol := if flt tol zero then two else tol;
     g_int := if interval =? 0 then 1000 else interval |}.
Definition grad_est (g : grad) : Z := to_int (g_est g).
Definition grad_noload (g : grad) : Z := to_int (g_noload g).
Definition grad_set (v : grad) (e nl : f64) (c : Z) : grad :=
  {| g_est := e; g_noload := nl; g_cnt := c; g_min := g_min v; g_max := g_max v; g_s := g_s v; g_tol := g_tol v; g_int := g_int v |}.

Definition grad_step (v : grad) (s : sample) : option (out grad) :=
  match sqrt_q (to_int (g_est v)) with
  | None => None
  | Some q =>
    let frtt := of_int (s_rtt s) in
    let em := common_sample (s_rtt s) (s_inflight s) (s_drop s) ++ [(5, frtt); (6, of_int q)] in
    let cnt := if g_int v =? -1 then g_cnt v else g_cnt v - 1 in
    if negb (g_int v =? -1) && (cnt <=? 0) then
      let e := fmax (of_int (g_min v)) (of_int q) in
      Some (mk (grad_set v e zero (s_draw s)) [to_int e] em 1)
    else
      let nl := min_add (g_noload v) frtt in
      let nli := to_int nl in
      let em := em ++ [(4, of_int nli)] in
      let gradient := if 0 <? s_rtt s then fmax half (fmin one (div (mul (g_tol v) (of_int nli)) frtt)) else one in
      let finish newl b :=
        let newl := if flt newl (g_est v)
                    then fmax (of_int (g_min v)) (add (mul (g_est v) (sub one (g_s v))) (mul (g_s v) newl)) else newl in
        let newl := fmax (of_int q) (fmin (of_int (g_max v)) newl) in
        Some (mk (grad_set v newl nl cnt) [to_int newl] em b) in
      if s_drop s then finish (div (g_est v) two) 2
      else if flt (of_int (s_inflight s)) (div (g_est v) two) then Some (mk (grad_set v (g_est v) nl cnt) [] em 3)
      else finish (add (mul (g_est v) gradient) (of_int q)) 4
  end.

(* ---------------- Gradient2 (constant queue size 4, SingleMeasurement + ExponentialAverage(window, 10)) ---------------- *)
Record grad2 := { h_est : f64; h_long : expavg; h_min : Z; h_max : Z; h_s : f64 }.
Definition c09 : f64 := of_bits 4606281698874543309. (* 0.9 *)
Definition c02 : f64 := of_bits 4596373779694328218. (* 0.2 *)
Definition grad2_init (initial maxc minl window : Z) (smooth : f64) : grad2 :=
  {| h_est := of_int (if initial <=? 0 then 4 else initial);
     h_long := ea_new (if window <? 0 then 100 else window) 10;
     h_min := if minl <=? 0 then 4 else minl; h_max := if maxc <=? 0 then 1000 else maxc;
     h_s := if fgt smooth one || flt smooth zero then c02 else smooth |}.
Definition grad2_est (g : grad2) : Z := to_int (h_est g).
Definition grad2_step (v : grad2) (s : sample) : out grad2 :=
  let q := 4 in
  let x := of_int (s_rtt s) in
  let short := x in
  let l1 := ea_add (h_long v) x in
  let lv := ea_value l1 in
  let em := common_sample (s_rtt s) (s_inflight s) (s_drop s) ++ [(5, short); (4, lv); (6, of_int q)] in
  let l2 := if fgt (div lv short) two then ea_set l1 (mul lv c09) else l1 in
  let set e := {| h_est := e; h_long := l2; h_min := h_min v; h_max := h_max v; h_s := h_s v |} in
  if flt (of_int (s_inflight s)) (div (h_est v) two) then mk (set (h_est v)) [] em 1
  else
    let gradient := if fgt short zero then fmax half (fmin one (div lv short)) else one in
    let newl := add (mul (h_est v) gradient) (of_int q) in
    let newl := add (mul (h_est v) (sub one (h_s v))) (mul newl (h_s v)) in
    let newl := fmax (of_int (h_min v)) (fmin (of_int (h_max v)) newl) in
    mk (set newl) [to_int newl] em 2.

(* ---------------- Settable / Fixed ---------------- *)
Definition settable_init (l : Z) : Z := to_int32 (if l <? 0 then 10 else l).
Definition fixed_init (l : Z) : Z := if l <? 0 then 10 else l.

(* ---------------- a closed sum of the built-in algorithms ---------------- *)
Inductive algo := AAimd (a : aimd) | AVegas (v : vegas) | AGrad (g : grad) | AGrad2 (g : grad2) | ASettable (l : Z) | AFixed (l : Z).
Definition algo_est (a : algo) : Z :=
  match a with AAimd a => aimd_est a | AVegas v => vegas_est v | AGrad g => grad_est g | AGrad2 g => grad2_est g
             | ASettable l => l | AFixed l => l end.
Definition algo_noload (a : algo) : Z :=
  match a with AVegas v => vegas_noload v | AGrad g => grad_noload g | _ => 0 end.
Definition lift {S T} (c : S -> T) (o : out S) : out T := mk (c (o_st o)) (o_notify o) (o_emit o) (o_branch o).
Definition algo_step (a : algo) (s : sample) : option (out algo) :=
  match a with
  | AAimd x => Some (lift AAimd (aimd_step x s))
  | AVegas x => option_map (lift AVegas) (vegas_step x s)
  | AGrad x => option_map (lift AGrad) (grad_step x s)
  | AGrad2 x => Some (lift AGrad2 (grad2_step x s))
  | ASettable l => Some (mk (ASettable l) [] (common_sample (s_rtt s) (s_inflight s) (s_drop s)) 1)
  | AFixed l => Some (mk (AFixed l) [] (common_sample (s_rtt s) (s_inflight s) (s_drop s)) 1)
  end.
(* SettableLimit.SetLimit: stores int32(v), notifies with v itself *)
Definition algo_set_limit (a : algo) (v : Z) : algo * list Z :=
  match a with ASettable _ => (ASettable (to_int32 v), [v]) | _ => (a, []) end.

(* ---------------- Windowed wrapper ---------------- *)
Record wcfg := { w_minw : Z; w_maxw : Z; w_size : Z; w_thr : Z }.
Record windowed := { wd_cfg : wcfg; wd_next : Z; wd_win : win; wd_inner : algo }.
Definition windowed_init (c : wcfg) (a : algo) : windowed := {| wd_cfg := c; wd_next := 0; wd_win := win_empty; wd_inner := a |}.
(* emissions of the outer limit are tagged by adding 10 to the kind *)
Definition tag_outer (e : list emission) : list emission := map (fun p => (fst p + 10, snd p)) e.
Definition windowed_step (w : windowed) (s : sample) : option (out windowed) :=
  let c := wd_cfg w in
  let em := tag_outer (common_sample (s_rtt s) (s_inflight s) (s_drop s)) in
  let endt := s_start s + s_rtt s in
  if s_rtt s <? w_thr c then Some (mk w [] em 101)
  else
    let wn := if s_drop s then win_add_dropped (wd_win w) (s_inflight s) else win_add (wd_win w) (s_rtt s) (s_inflight s) in
    if (wd_next w <? endt) && (s_rtt s <? MAXINT) && (w_size c <? to_int32 (s_inflight s)) then
      let next := endt + Z.min (Z.max (wrap64 (wmin wn * 2)) (w_minw c)) (w_maxw c) in
      let inner_sample := {| s_start := s_start s; s_rtt := win_avg wn; s_inflight := wmaxinf wn; s_drop := wdrop wn;
                             s_draw := s_draw s; s_lgi := s_lgi s; s_lgf := s_lgf s |} in
      match algo_step (wd_inner w) inner_sample with
      | None => None
      | Some o => Some (mk {| wd_cfg := c; wd_next := next; wd_win := win_empty; wd_inner := o_st o |}
                           (o_notify o) (em ++ o_emit o) (200 + o_branch o))
      end
    else Some (mk {| wd_cfg := c; wd_next := wd_next w; wd_win := wn; wd_inner := wd_inner w |} [] em 102).

(* ---------------- any limit: plain, windowed; traced is the identity on everything observable ---------------- *)
Inductive anylimit := LPlain (a : algo) | LWindowed (w : windowed).
Definition any_est (l : anylimit) : Z := match l with LPlain a => algo_est a | LWindowed w => algo_est (wd_inner w) end.
Definition any_noload (l : anylimit) : Z := match l with LPlain a => algo_noload a | LWindowed w => algo_noload (wd_inner w) end.
Definition any_step (l : anylimit) (s : sample) : option (out anylimit) :=
  match l with
  | LPlain a => option_map (lift LPlain) (algo_step a s)
  | LWindowed w => option_map (lift LWindowed) (windowed_step w s)
  end.
Definition any_inner (l : anylimit) : algo := match l with LPlain a => a | LWindowed w => wd_inner w end.
Definition any_set_limit (l : anylimit) (v : Z) : anylimit * list Z :=
  match l with
  | LPlain a => let '(a', n) := algo_set_limit a v in (LPlain a', n)
  | LWindowed w => let '(a', n) := algo_set_limit (wd_inner w) v in
                   (LWindowed {| wd_cfg := wd_cfg w; wd_next := wd_next w; wd_win := wd_win w; wd_inner := a' |}, n)
  end.
