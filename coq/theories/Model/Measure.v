(* Model of measurements/*.go (current tree).  Floats are binary64 (Base/F64.v); Go's `0` meaning "unset",
   the warm-up phases and the order of floating-point operations are reproduced literally. *)
From Coq Require Import ZArith List Bool.
From Flocq Require Import Core BinarySingleNaN.
From GCL Require Import Base.F64.
Import ListNotations.
Open Scope Z_scope.

(* ---- MinimumMeasurement ---- *)
Definition min_add (old x : f64) : f64 := if feq old zero || flt x old then x else old.
(* Add returns (value, changed) with changed := old != new *)
Definition min_add_flag (old x : f64) : f64 * bool := let v := min_add old x in (v, fneq old v).

(* ---- SingleMeasurement: Add stores the sample, flag always true ---- *)

(* ---- ExponentialAverageMeasurement ---- *)
Record expavg := { ea_value : f64; ea_sum : f64; ea_count : Z; ea_window : Z; ea_warmup : Z }.
Definition ea_new (window warmup : Z) : expavg :=
  {| ea_value := zero; ea_sum := zero; ea_count := 0; ea_window := window; ea_warmup := warmup |}.
Definition ea_factor (n : Z) : f64 := div two (of_int (n + 1)).
Definition ea_add (m : expavg) (x : f64) : expavg :=
  if ea_count m <? ea_warmup m then
    let c := ea_count m + 1 in
    let s := add (ea_sum m) x in
    {| ea_value := div s (of_int c); ea_sum := s; ea_count := c; ea_window := ea_window m; ea_warmup := ea_warmup m |}
  else
    let f := ea_factor (ea_window m) in
    {| ea_value := add (mul (ea_value m) (sub one f)) (mul x f); ea_sum := ea_sum m; ea_count := ea_count m;
       ea_window := ea_window m; ea_warmup := ea_warmup m |}.
Definition ea_set (m : expavg) (v : f64) : expavg :=
  {| ea_value := v; ea_sum := ea_sum m; ea_count := ea_count m; ea_window := ea_window m; ea_warmup := ea_warmup m |}.
Definition ea_reset (m : expavg) : expavg := ea_new (ea_window m) (ea_warmup m).

(* ---- SimpleExponentialMovingAverage ---- *)
Record sema := { sm_alpha : f64; sm_min : Z; sm_seen : Z; sm_value : f64 }.
(* minSamples = int(trunc(ceil(1/alpha))) *)
Definition sema_new (alpha : f64) : sema :=
  {| sm_alpha := alpha; sm_min := to_int (ftrunc (fceil (div one alpha))); sm_seen := 0; sm_value := zero |}.
Definition sema_add (m : sema) (x : f64) : sema * bool :=
  let seen := if sm_seen m <? sm_min m then sm_seen m + 1 else sm_seen m in
  let a := if sm_min m <=? seen then sm_alpha m else div one (of_int seen) in
  let nv := add (mul (sub one a) (sm_value m)) (mul a x) in
  ({| sm_alpha := sm_alpha m; sm_min := sm_min m; sm_seen := seen; sm_value := nv |}, fneq nv (sm_value m)).
Definition sema_reset (m : sema) : sema :=
  {| sm_alpha := sm_alpha m; sm_min := sm_min m; sm_seen := 0; sm_value := zero |}.
(* Update(op): newValue,_ := add(value); value = op(newValue) *)
Definition sema_update (m : sema) (op : f64 -> f64) : sema :=
  let m' := fst (sema_add m (sm_value m)) in
  {| sm_alpha := sm_alpha m'; sm_min := sm_min m'; sm_seen := sm_seen m'; sm_value := op (sm_value m') |}.

(* ---- SimpleMovingVariance ---- *)
Record smv := { mv_avg : sema; mv_var : sema; mv_stdev : f64; mv_norm : f64 }.
Definition smv_new (aa av : f64) : smv := {| mv_avg := sema_new aa; mv_var := sema_new av; mv_stdev := zero; mv_norm := zero |}.
(* math.Pow(d, 2) modelled as d*d (identical except when the square is subnormal, see DESIGN 4) *)
Definition smv_add (m : smv) (x : f64) : smv * (f64 * bool) :=
  let var1 := if 0 <? sm_seen (mv_avg m)
              then let d := sub x (sm_value (mv_avg m)) in fst (sema_add (mv_var m) (mul d d))
              else mv_var m in
  let avg1 := fst (sema_add (mv_avg m) x) in
  let mean := sm_value avg1 in
  let variance := sm_value var1 in
  let stdev := fsqrt variance in
  let norm := if fneq stdev zero then div (sub x mean) stdev else mv_norm m in
  let changed := fneq variance (sm_value (mv_var m)) || fneq stdev (mv_stdev m) || fneq norm (mv_norm m) in
  ({| mv_avg := avg1; mv_var := var1; mv_stdev := stdev; mv_norm := norm |}, (stdev, changed)).
Definition smv_get (m : smv) : f64 := sm_value (mv_var m).
Definition smv_reset (m : smv) : smv :=
  {| mv_avg := sema_reset (mv_avg m); mv_var := sema_reset (mv_var m); mv_stdev := zero; mv_norm := zero |}.
Definition smv_update (m : smv) (op : f64 -> f64) : smv :=
  {| mv_avg := mv_avg m; mv_var := mv_var m; mv_stdev := op (sm_value (mv_var m)); mv_norm := mv_norm m |}.

(* ---- WindowlessMovingPercentile ---- *)
Record wmp := { wp_p : f64; wp_dinit : f64; wp_value : f64; wp_delta : f64; wp_state : smv; wp_seen : Z }.
Definition wmp_new (p dinit aa av : f64) : wmp :=
  {| wp_p := p; wp_dinit := dinit; wp_value := zero; wp_delta := dinit; wp_state := smv_new aa av; wp_seen := 0 |}.
Definition wmp_add (m : wmp) (x : f64) : wmp * bool :=
  let seen := if wp_seen m <? 2 then wp_seen m + 1 else wp_seen m in
  let '(st, (stdev, _)) := smv_add (wp_state m) x in
  let delta := if 2 <=? seen then mul (wp_dinit m) stdev else wp_delta m in
  let ch1 := (2 <=? seen) && fneq delta (wp_delta m) in
  let nv := if seen =? 1 then x
            else if flt x (wp_value m) then sub (wp_value m) (div delta (wp_p m))
            else if fgt x (wp_value m) then add (wp_value m) (div delta (sub one (wp_p m)))
            else wp_value m in
  let ch := ch1 || (seen =? 1) || fneq nv (wp_value m) in
  ({| wp_p := wp_p m; wp_dinit := wp_dinit m; wp_value := nv; wp_delta := delta; wp_state := st; wp_seen := seen |}, ch).
Definition wmp_reset (m : wmp) : wmp :=
  {| wp_p := wp_p m; wp_dinit := wp_dinit m; wp_value := zero; wp_delta := wp_dinit m; wp_state := smv_reset (wp_state m); wp_seen := 0 |}.
Definition wmp_update (m : wmp) (op : f64 -> f64) : wmp :=
  let m' := fst (wmp_add m (wp_value m)) in
  {| wp_p := wp_p m'; wp_dinit := wp_dinit m'; wp_value := op (wp_value m'); wp_delta := wp_delta m'; wp_state := wp_state m'; wp_seen := wp_seen m' |}.

(* int64 wrap-around (two's complement) *)
Definition wrap64 (z : Z) : Z := (z + 2^63) mod 2^64 - 2^63.

(* ---- ImmutableSampleWindow ---- *)
Record win := { wmin : Z; wmaxinf : Z; wcount : Z; wsum : Z; wdrop : bool }.
Definition win_empty : win := {| wmin := MAXINT; wmaxinf := 0; wcount := 0; wsum := 0; wdrop := false |}.
(* the public constructor treats minRTT = 0 as unset *)
Definition win_new (mn sum mx cnt : Z) (d : bool) : win :=
  {| wmin := if mn =? 0 then MAXINT else mn; wmaxinf := mx; wcount := cnt; wsum := sum; wdrop := d |}.
Definition win_add (w : win) (rtt inf : Z) : win :=
  {| wmin := if rtt <? wmin w then rtt else wmin w; wmaxinf := if inf <? wmaxinf w then wmaxinf w else inf;
     wcount := wcount w + 1; wsum := wrap64 (wsum w + rtt); wdrop := wdrop w |}.
Definition win_add_dropped (w : win) (inf : Z) : win :=
  {| wmin := wmin w; wmaxinf := if inf <? wmaxinf w then wmaxinf w else inf; wcount := wcount w; wsum := wsum w; wdrop := true |}.
Definition win_avg (w : win) : Z := if wcount w =? 0 then 0 else Z.quot (wsum w) (wcount w).
