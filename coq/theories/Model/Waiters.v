(* Settled ("big-step") model of the blocking wrappers: limiter/blocking.go, deadline.go, queue_blocking.go
   (+ lifo/fifo constructors and patterns/pool), over a counting delegate (default limiter + simple/precise strategy).
   Every operation runs to quiescence before the next one starts (the harness calls synctest.Wait() in between),
   on a virtual clock.  Callers are numbered in arrival order.
   The only scheduler-dependent choice - which of several callers woken by one Broadcast / firing at the same instant
   wins a token - is an oracle input (`pref`), validated structurally. *)
From Coq Require Import ZArith List Bool.
Import ListNotations.
Open Scope Z_scope.

Inductive kind := KBlocking | KDeadline | KQueue.
Record wcfg := { w_kind : kind; w_fifo : bool; w_maxb : Z; w_timeout : Z; w_deadline : Z; w_evict : bool }.

(* status: 0 blocked, 1 holding a token, 2 refused, 3 completed (token released) *)
Record caller := { c_st : Z; c_t : Z;      (* time of the decision (grant / refusal) *)
                   c_due : Z;              (* instant at which its timer fires; 0 = no timer *)
                   c_cancel : bool }.      (* its context has been cancelled *)
Record wstate := { ws_cfg : wcfg; ws_busy : Z; ws_limit : Z; ws_now : Z; ws_callers : list caller }.

Definition blocked (c : caller) : bool := c_st c =? 0.
Definition nblocked (s : wstate) : Z := Z.of_nat (length (filter blocked (ws_callers s))).
Definition set_caller (l : list caller) (i : nat) (c : caller) : list caller :=
  firstn i l ++ match skipn i l with [] => [] | _ :: r => c :: r end.
Definition with_callers (s : wstate) (busy : Z) (now : Z) (l : list caller) : wstate :=
  {| ws_cfg := ws_cfg s; ws_busy := busy; ws_limit := ws_limit s; ws_now := now; ws_callers := l |}.
Definition mk_caller st t due cancel : caller := {| c_st := st; c_t := t; c_due := due; c_cancel := cancel |}.

(* indices of blocked callers in arrival order *)
Fixpoint blocked_ids (l : list caller) (i : nat) : list nat :=
  match l with [] => [] | c :: r => if blocked c then i :: blocked_ids r (S i) else blocked_ids r (S i) end.

(* only a blocked caller can be handed a token *)
Definition grant (s : wstate) (i : nat) : wstate :=
  match nth_error (ws_callers s) i with
  | Some c => if blocked c
              then with_callers s (ws_busy s + 1) (ws_now s) (set_caller (ws_callers s) i (mk_caller 1 (ws_now s) 0 (c_cancel c)))
              else s
  | None => s
  end.
Definition refuse (s : wstate) (i : nat) : wstate :=
  match nth_error (ws_callers s) i with
  | Some c => if blocked c
              then with_callers s (ws_busy s) (ws_now s) (set_caller (ws_callers s) i (mk_caller 2 (ws_now s) 0 (c_cancel c)))
              else s
  | None => s
  end.
Definition has_room (s : wstate) : bool := ws_busy s <? ws_limit s.

(* ---- arrival ---- *)
Definition timer_at_arrival (c : wcfg) (now : Z) : Z :=
  match w_kind c with
  | KBlocking => if 0 <? w_timeout c then now + w_timeout c else 0
  | KDeadline => w_deadline c
  | KQueue => if 0 <? w_timeout c then now + w_timeout c else 0
  end.
Definition arrive (s : wstate) (cancelled : bool) : wstate :=
  let c := ws_cfg s in
  let i := length (ws_callers s) in
  let add st due := with_callers s (ws_busy s) (ws_now s) (ws_callers s ++ [mk_caller st (ws_now s) due cancelled]) in
  match w_kind c with
  | KQueue =>
      if has_room s then grant (add 0 0) i
      else if w_maxb c <=? nblocked s then add 2 0
      else if cancelled && w_evict c then add 2 0   (* pushed, then evicted at once by the done context *)
      else add 0 (timer_at_arrival c (ws_now s))
  | KBlocking =>
      if cancelled then add 2 0
      else if has_room s then grant (add 0 0) i
      else add 0 (timer_at_arrival c (ws_now s))
  | KDeadline =>
      if cancelled then add 2 0
      else if w_deadline c <? ws_now s then add 2 0
      else if has_room s then grant (add 0 0) i
      else if w_deadline c <=? ws_now s then add 2 0
      else add 0 (w_deadline c)
  end.

(* ---- wake-ups ---- *)
(* queue: the waiter to serve *)
Definition peek (s : wstate) : option nat :=
  let ids := blocked_ids (ws_callers s) 0 in
  if w_fifo (ws_cfg s) then hd_error ids else hd_error (rev ids).
(* blocking / deadline: woken callers re-attempt in the order `pref ++ others`; each takes a token while there is room *)
Fixpoint attempt_all (s : wstate) (ids : list nat) : wstate :=
  match ids with
  | [] => s
  | i :: r => if has_room s then attempt_all (grant s i) r else s
  end.
Definition order_pref (cands : list nat) (pref : list nat) : list nat :=
  filter (fun i => existsb (Nat.eqb i) cands) pref ++ filter (fun i => negb (existsb (Nat.eqb i) pref)) cands.
(* after a Broadcast every sleeper that fails re-arms its timer (blocking: now + timeout) *)
Definition rearm (s : wstate) (woken : list nat) : wstate :=
  match w_kind (ws_cfg s) with
  | KBlocking =>
      if 0 <? w_timeout (ws_cfg s) then
        with_callers s (ws_busy s) (ws_now s)
          (fold_left (fun l i => match nth_error l i with
                                 | Some c => if blocked c then set_caller l i (mk_caller 0 (c_t c) (ws_now s + w_timeout (ws_cfg s)) (c_cancel c)) else l
                                 | None => l end) woken (ws_callers s))
      else s
  | _ => s
  end.

Definition release (s : wstate) (i : nat) (pref : list nat) : wstate :=
  match nth_error (ws_callers s) i with
  | Some c =>
      if c_st c =? 1 then
        let s1 := with_callers s (ws_busy s - 1) (ws_now s) (set_caller (ws_callers s) i (mk_caller 3 (c_t c) 0 (c_cancel c))) in
        match w_kind (ws_cfg s) with
        | KQueue => match peek s1 with Some j => if has_room s1 then grant s1 j else s1 | None => s1 end
        | _ => let sl := blocked_ids (ws_callers s1) 0 in rearm (attempt_all s1 (order_pref sl pref)) sl
        end
      else s
  | None => s
  end.

(* ---- cancellation ---- *)
Definition cancel (s : wstate) (i : nat) : wstate :=
  match nth_error (ws_callers s) i with
  | Some c =>
      let l := set_caller (ws_callers s) i (mk_caller (c_st c) (c_t c) (c_due c) true) in
      let s1 := with_callers s (ws_busy s) (ws_now s) l in
      if blocked c then
        match w_kind (ws_cfg s) with
        | KQueue => if w_evict (ws_cfg s) then refuse s1 i else s1
        | _ => refuse s1 i
        end
      else s1
  | None => s
  end.

(* ---- time ---- *)
(* earliest due instant among blocked callers, not after `upto` *)
Definition next_due (s : wstate) (upto : Z) : option Z :=
  fold_left (fun acc c => if blocked c && (0 <? c_due c) && (c_due c <=? upto)
                          then match acc with Some d => Some (Z.min d (c_due c)) | None => Some (c_due c) end else acc)
            (ws_callers s) None.
Fixpoint due_ids (l : list caller) (i : nat) (t : Z) : list nat :=
  match l with [] => [] | c :: r => if blocked c && (c_due c =? t) then i :: due_ids r (S i) t else due_ids r (S i) t end.
(* timers firing at instant t *)
Definition fire (s : wstate) (t : Z) (pref : list nat) : wstate :=
  let s0 := with_callers s (ws_busy s) t (ws_callers s) in
  let ids := due_ids (ws_callers s0) 0 t in
  match w_kind (ws_cfg s) with
  | KQueue => fold_left refuse ids s0                        (* backlog timeout: evicted and refused, exactly at arrival + timeout *)
  | KDeadline => (* at the deadline instant each caller makes one last attempt, then is refused *)
      let s1 := attempt_all s0 (order_pref ids pref) in
      fold_left (fun st i => match nth_error (ws_callers st) i with Some c => if blocked c then refuse st i else st | None => st end) ids s1
  | KBlocking => (* the timeout of the blocking limiter is a polling period: re-attempt, else sleep again *)
      rearm (attempt_all s0 (order_pref ids pref)) ids
  end.
Fixpoint advance (fuel : nat) (s : wstate) (target : Z) (pref : list nat) : wstate :=
  match fuel with
  | O => with_callers s (ws_busy s) target (ws_callers s)
  | S f => match next_due s target with
           | Some t => advance f (fire s t pref) target pref
           | None => with_callers s (ws_busy s) target (ws_callers s)
           end
  end.

Definition set_limit (s : wstate) (n : Z) : wstate :=
  {| ws_cfg := ws_cfg s; ws_busy := ws_busy s; ws_limit := Z.max 1 n; ws_now := ws_now s; ws_callers := ws_callers s |}.

Definition winit (c : wcfg) (limit now : Z) : wstate :=
  {| ws_cfg := c; ws_busy := 0; ws_limit := Z.max 1 limit; ws_now := now; ws_callers := [] |}.

(* What each way of constructing a queue limiter promises (name / documentation):
   id 1 FromConfig(FIFO) 2 FromConfig(LIFO) 3 FromConfig(ordering unset: default LIFO) 4 WithDefaults (LIFO, backlog 100, 1 s)
   5 NewLifo 6 NewLifoWithDefaults 7 NewFifo 8 NewFifoWithDefaults 9/10/11 FixedPool FIFO/LIFO/Random 12/13/14 Pool FIFO/LIFO/Random;
   ordering 1 FIFO, 2 LIFO, 3 the plain blocking limiter (random order); (backlog bound, timeout ns) as passed (7, 3 s) or the defaults. *)
Definition ctor_expected : list (Z * (Z * (Z * Z))) :=
  [(1, (1, (7, 3000000000))); (2, (2, (7, 3000000000))); (3, (2, (7, 3000000000))); (4, (2, (100, 1000000000)));
   (5, (2, (7, 3000000000))); (6, (2, (100, 1000000000))); (7, (1, (7, 3000000000))); (8, (1, (100, 1000000000)));
   (9, (1, (7, 3000000000))); (10, (2, (7, 3000000000))); (11, (3, (0, 0)));
   (12, (1, (7, 3000000000))); (13, (2, (7, 3000000000))); (14, (3, (0, 0)))].
