From Coq Require Import ZArith List Lia Bool Arith.
Import ListNotations.
Open Scope Z_scope.

(* BlockingLimiter with a poll period P > 0 (limiter/blocking.go, timeout > 0) at step granularity with an explicit clock.  A caller whose
   attempt failed arms a timer for now + P (blockUntilSignaled), starts its helper (Parked), the helper reaches cond.Wait (Asleep); a
   Broadcast wakes sleepers (Woken: one direct attempt); the timer sends the caller round the loop (Idle: it asks the delegate again).
   Timers fire promptly: the clock does not move past an instant at which some caller's timer is due. *)
Inductive ppc :=
| PIdle | PParked (due : Z) | PAsleep (due : Z) | PWoken | PHolding | PReleasing | PDone.

Record pst := { pbusy : Z; plimit : Z; pnow : Z; pperiod : Z; pthr : list ppc }.
Inductive plabel := PTry (i : nat) | PSleep (i : nat) | PRel (i : nat) | PBcast (i : nat) | PTick | PTimer (i : nat).

Fixpoint pupd (l : list ppc) (i : nat) (p : ppc) : list ppc :=
  match l, i with [], _ => [] | _ :: r, O => p :: r | q :: r, S j => q :: pupd r j p end.
Definition pwake (p : ppc) : ppc := match p with PAsleep _ => PWoken | q => q end.
Definition due_of (p : ppc) : option Z := match p with PParked d | PAsleep d => Some d | _ => None end.
Definition timer_due (now : Z) (p : ppc) : bool := match due_of p with Some d => d <=? now | None => false end.
Definition pwith (s : pst) (b : Z) (t : list ppc) : pst :=
  {| pbusy := b; plimit := plimit s; pnow := pnow s; pperiod := pperiod s; pthr := t |}.

Definition pstep (s : pst) (a : plabel) : option pst :=
  match a with
  | PTry i =>
      match nth_error (pthr s) i with
      | Some PIdle =>
          if pbusy s <? plimit s then Some (pwith s (pbusy s + 1) (pupd (pthr s) i PHolding))
          else Some (pwith s (pbusy s) (pupd (pthr s) i (PParked (pnow s + pperiod s))))
      | Some PWoken =>
          if pbusy s <? plimit s then Some (pwith s (pbusy s + 1) (pupd (pthr s) i PHolding))
          else Some (pwith s (pbusy s) (pupd (pthr s) i PIdle))
      | _ => None end
  | PSleep i =>
      match nth_error (pthr s) i with
      | Some (PParked d) => Some (pwith s (pbusy s) (pupd (pthr s) i (PAsleep d)))
      | _ => None end
  | PRel i =>
      match nth_error (pthr s) i with
      | Some PHolding => Some (pwith s (pbusy s - 1) (pupd (pthr s) i PReleasing))
      | _ => None end
  | PBcast i =>
      match nth_error (pthr s) i with
      | Some PReleasing => Some (pwith s (pbusy s) (map pwake (pupd (pthr s) i PDone)))
      | _ => None end
  | PTick =>
      if existsb (timer_due (pnow s)) (pthr s) then None
      else Some {| pbusy := pbusy s; plimit := plimit s; pnow := pnow s + 1; pperiod := pperiod s; pthr := pthr s |}
  | PTimer i =>
      match nth_error (pthr s) i with
      | Some (PParked d) | Some (PAsleep d) =>
          if d <=? pnow s then Some (pwith s (pbusy s) (pupd (pthr s) i PIdle)) else None
      | _ => None end
  end.

Definition prun (s : pst) (l : list plabel) : option pst :=
  fold_left (fun o a => match o with Some s => pstep s a | None => None end) l (Some s).

Inductive preach (s0 : pst) : pst -> Prop :=
| pr0 : preach s0 s0
| pr1 s a s' : preach s0 s -> pstep s a = Some s' -> preach s0 s'.

(* nobody waits past its poll instant, and no wait is longer than the period *)
Definition due_ok (s : pst) (p : ppc) : Prop :=
  match due_of p with Some d => pnow s <= d <= pnow s + pperiod s | None => True end.
Definition PInv (s : pst) : Prop := 0 < pperiod s /\ Forall (due_ok s) (pthr s).
