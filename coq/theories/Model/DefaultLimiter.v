(* Sequential model of limiter/default.go: DefaultLimiter + DefaultListener over any strategy and a scripted limit
   (a double whose EstimatedLimit() is whatever the harness last scripted and whose OnSample records its arguments).
   time.Now() is an explicit argument of every operation. *)
From Coq Require Import ZArith List Bool.
From GCL Require Import Base.F64 Model.Measure Model.Strategy.
Import ListNotations.
Open Scope Z_scope.

Record lcfg := { l_minw : Z; l_maxw : Z; l_thr : Z; l_wsize : Z }.
Record listener := { ls_tok : option objid; ls_start : Z; ls_cmi : Z; ls_next : Z; ls_done : bool }.
Record limiter := {
  lm_cfg : lcfg; lm_strat : strat; lm_est : Z;     (* scripted estimate of the limit double *)
  lm_win : win; lm_next : Z; lm_gauge : Z;
  lm_listeners : list listener }.                  (* listener k = k-th grant *)

Definition limiter_init (c : lcfg) (s : strat) (est : Z) : limiter :=
  {| lm_cfg := c; lm_strat := strat_set_limit s est; lm_est := est; lm_win := win_empty; lm_next := 0; lm_gauge := 0; lm_listeners := [] |}.

Definition lm_with (l : limiter) s w nx g ls : limiter :=
  {| lm_cfg := lm_cfg l; lm_strat := s; lm_est := lm_est l; lm_win := w; lm_next := nx; lm_gauge := g; lm_listeners := ls |}.

(* Acquire(ctx) at time now: (state, granted) *)
Definition lm_acquire (l : limiter) (key now : Z) : limiter * bool :=
  let '(s', ok, _, o) := strat_try (lm_strat l) key in
  if ok then
    let g := lm_gauge l + 1 in
    (lm_with l s' (lm_win l) (lm_next l) g
       (lm_listeners l ++ [{| ls_tok := o; ls_start := now; ls_cmi := g; ls_next := lm_next l; ls_done := false |}]), true)
  else (lm_with l s' (lm_win l) (lm_next l) (lm_gauge l) (lm_listeners l), false).

Definition ready (c : lcfg) (w : win) : bool := (wmin w <? MAXINT) && (l_wsize c <? wcount w).
Definition period (c : lcfg) (w : win) : Z := Z.min (Z.max (wrap64 (wmin w * 2)) (l_minw c)) (l_maxw c).

Inductive outcome := Success | Ignore | Dropped.
(* what the limit double saw: OnSample(0, rtt, inflight, drop) *)
Definition call := (Z * Z * bool)%type.

Fixpoint mark_done (ls : list listener) (k : nat) : list listener :=
  match ls, k with
  | [], _ => []
  | x :: r, O => {| ls_tok := ls_tok x; ls_start := ls_start x; ls_cmi := ls_cmi x; ls_next := ls_next x; ls_done := true |} :: r
  | x :: r, S j => x :: mark_done r j
  end.

(* updateLimit(endTime, current) of listener x *)
Definition update_limit (l : limiter) (x : listener) (endt : Z) (cur : win) (s : strat) (g : Z) (ls : list listener)
  : limiter * option call :=
  if (ls_next x <? endt) && (lm_next l <? endt) && ready (lm_cfg l) cur then
    (lm_with l (strat_set_limit s (lm_est l)) win_empty (endt + period (lm_cfg l) cur) g ls,
     Some (wmin cur, wmaxinf cur, wdrop cur))
  else (lm_with l s cur (lm_next l) g ls, None).

(* completing listener k with an outcome at time now; a listener is completed at most once (callers' obligation) *)
Definition lm_complete (l : limiter) (k : nat) (oc : outcome) (now : Z) : limiter * option call :=
  match nth_error (lm_listeners l) k with
  | None => (l, None)
  | Some x =>
    let g := lm_gauge l - 1 in
    let s := match ls_tok x with Some i => strat_release (lm_strat l) i | None => lm_strat l end in
    let ls := mark_done (lm_listeners l) k in
    match oc with
    | Ignore => (lm_with l s (lm_win l) (lm_next l) g ls, None)
    | Success =>
        let rtt := now - ls_start x in
        if rtt <? l_thr (lm_cfg l) then (lm_with l s (lm_win l) (lm_next l) g ls, None)
        else update_limit l x now (win_add (lm_win l) rtt (ls_cmi x)) s g ls
    | Dropped => update_limit l x now (win_add_dropped (lm_win l) (ls_cmi x)) s g ls
    end
  end.

Definition lm_script (l : limiter) (est : Z) : limiter :=
  {| lm_cfg := lm_cfg l; lm_strat := lm_strat l; lm_est := est; lm_win := lm_win l; lm_next := lm_next l; lm_gauge := lm_gauge l;
     lm_listeners := lm_listeners l |}.
