(* Model of strategy/*.go (current tree): simple, precise, lookup-partitioned and predicate-partitioned strategies.
   Partition objects are identified by an object id (tokens keep pointing at the object after it is removed);
   a lookup request carries a key, a predicate request a tag: the predicate of a bin matches iff the tags are equal,
   so several bins can match one request and registration order decides. *)
From Coq Require Import ZArith List Bool.
From Flocq Require Import Core BinarySingleNaN.
From GCL Require Import Base.F64.
Import ListNotations.
Open Scope Z_scope.

(* limit as the strategies store it: `if limit < 1 { limit = 1 }; int32(limit)` *)
Definition clamp_limit (n : Z) : Z := to_int32 (Z.max 1 n).

(* ---------------- simple / precise: one counter ---------------- *)
Record counter := { c_busy : Z; c_limit : Z }.
Definition counter_init (limit : Z) : counter := {| c_busy := 0; c_limit := clamp_limit limit |}.
(* returns (state, granted, in-flight snapshot carried by the token) *)
Definition counter_try (c : counter) : counter * bool * Z :=
  if c_limit c <=? c_busy c then (c, false, c_busy c)
  else ({| c_busy := c_busy c + 1; c_limit := c_limit c |}, true, c_busy c + 1).
Definition counter_release (c : counter) : counter := {| c_busy := c_busy c - 1; c_limit := c_limit c |}.
Definition counter_set_limit (c : counter) (n : Z) : counter := {| c_busy := c_busy c; c_limit := clamp_limit n |}.

(* ---------------- partitioned ---------------- *)
Record bin := { b_key : Z;      (* lookup: name; predicate: tag its predicate matches *)
                b_pct : f64; b_limit : Z; b_busy : Z }.
(* int32(math.Max(1, math.Ceil(float64(totalLimit) * percent))) *)
Definition share (total : Z) (pct : f64) : Z := to_int32 (to_int (fmax one (fceil (mul (of_int total) pct)))).

Definition objid := Z.
Record part := {
  p_lookup : bool;                    (* true: LookupPartitionStrategy, false: PredicatePartitionStrategy *)
  p_objs : list (objid * bin);        (* every partition object ever handed to the strategy, live or removed; 0 = <unknown> *)
  p_live : list objid;                (* live partitions, in registration order (lookup: unique keys) *)
  p_busy : Z; p_limit : Z;
  p_next : objid }.                   (* next fresh object id *)

Fixpoint get_obj (l : list (objid * bin)) (i : objid) : option bin :=
  match l with [] => None | (j, b) :: r => if j =? i then Some b else get_obj r i end.
Fixpoint set_obj (l : list (objid * bin)) (i : objid) (b : bin) : list (objid * bin) :=
  match l with [] => [] | (j, c) :: r => if j =? i then (j, b) :: r else (j, c) :: set_obj r i b end.
Definition upd_obj (l : list (objid * bin)) (i : objid) (f : bin -> bin) : list (objid * bin) :=
  match get_obj l i with Some b => set_obj l i (f b) | None => l end.
Definition bin_set_limit (total : Z) (b : bin) : bin :=
  {| b_key := b_key b; b_pct := b_pct b; b_limit := share total (b_pct b); b_busy := b_busy b |}.
Definition bin_add_busy (d : Z) (b : bin) : bin :=
  {| b_key := b_key b; b_pct := b_pct b; b_limit := b_limit b; b_busy := b_busy b + d |}.

(* first live partition matching the request key/tag *)
Fixpoint find_live (objs : list (objid * bin)) (live : list objid) (k : Z) : option objid :=
  match live with
  | [] => None
  | i :: r => match get_obj objs i with
              | Some b => if b_key b =? k then Some i else find_live objs r k
              | None => find_live objs r k
              end
  end.

(* constructors: partitions are (key, pct) pairs, each partition object created by NewXPartition (limit 1 unless the
   caller passes one; UpdateLimit(total) runs for every one of them); the lookup strategy adds the <unknown> bin (object 0,
   fraction 0, share computed from the total limit).  The total limit is stored as given (not clamped). *)
Fixpoint mk_objs (i : objid) (ps : list (Z * f64)) (total : Z) : list (objid * bin) :=
  match ps with
  | [] => []
  | (k, pct) :: r => (i, {| b_key := k; b_pct := pct; b_limit := share total pct; b_busy := 0 |}) :: mk_objs (i + 1) r total
  end.
Definition part_init (lookup : bool) (ps : list (Z * f64)) (total : Z) : part :=
  let objs := mk_objs 1 ps total in
  {| p_lookup := lookup;
     p_objs := (0, {| b_key := -1; b_pct := zero; b_limit := share total zero; b_busy := 0 |}) :: objs;
     p_live := map fst objs; p_busy := 0; p_limit := total; p_next := 1 + Z.of_nat (length ps) |}.

Definition part_with (p : part) objs live busy limit next : part :=
  {| p_lookup := p_lookup p; p_objs := objs; p_live := live; p_busy := busy; p_limit := limit; p_next := next |}.

(* TryAcquire: returns (state, granted, in-flight snapshot, bin object charged) *)
Definition part_try (p : part) (k : Z) : part * bool * Z * option objid :=
  let target := match find_live (p_objs p) (p_live p) k with
                | Some i => Some i
                | None => if p_lookup p then Some 0 else None
                end in
  match target with
  | None => (p, false, p_busy p, None)
  | Some i =>
    match get_obj (p_objs p) i with
    | None => (p, false, p_busy p, None)
    | Some b =>
      if (p_limit p <=? p_busy p) && (b_limit b <=? b_busy b) then (p, false, p_busy p, None)
      else (part_with p (upd_obj (p_objs p) i (bin_add_busy 1)) (p_live p) (p_busy p + 1) (p_limit p) (p_next p),
            true, p_busy p + 1, Some i)
    end
  end.
Definition part_release (p : part) (i : objid) : part :=
  part_with p (upd_obj (p_objs p) i (bin_add_busy (-1))) (p_live p) (p_busy p - 1) (p_limit p) (p_next p).
Definition part_set_limit (p : part) (n : Z) : part :=
  let l := clamp_limit n in
  if p_limit p =? l then p
  else part_with p (fold_left (fun objs i => upd_obj objs i (bin_set_limit l)) (p_live p) (p_objs p))
                 (p_live p) (p_busy p) l (p_next p).
(* AddPartition with a NEW partition object (key, pct): lookup refuses an existing key *)
Definition part_add (p : part) (k : Z) (pct : f64) : part * bool :=
  if p_lookup p && (match find_live (p_objs p) (p_live p) k with Some _ => true | None => false end) then (p, false)
  else
    let b := {| b_key := k; b_pct := pct; b_limit := share (p_limit p) pct; b_busy := 0 |} in
    (part_with p (p_objs p ++ [(p_next p, b)]) (p_live p ++ [p_next p]) (p_busy p) (p_limit p) (p_next p + 1), true).
(* lookup: RemovePartition(name) -> (busy of that partition, found); predicate: RemovePartitionsMatching(tag) -> (#removed, any) *)
Definition part_remove (p : part) (k : Z) : part * Z * bool :=
  if p_lookup p then
    match find_live (p_objs p) (p_live p) k with
    | None => (p, 0, false)
    | Some i => (part_with p (p_objs p) (filter (fun j => negb (j =? i)) (p_live p)) (p_busy p) (p_limit p) (p_next p),
                 match get_obj (p_objs p) i with Some b => b_busy b | None => 0 end, true)
    end
  else
    let matches j := match get_obj (p_objs p) j with Some b => b_key b =? k | None => false end in
    let removed := filter matches (p_live p) in
    (part_with p (p_objs p) (filter (fun j => negb (matches j)) (p_live p)) (p_busy p) (p_limit p) (p_next p),
     Z.of_nat (length removed), negb (Nat.eqb (length removed) 0)).

(* ---------------- any strategy ---------------- *)
Inductive strat := SSimple (c : counter) | SPrecise (c : counter) | SPart (p : part).
Definition strat_try (s : strat) (k : Z) : strat * bool * Z * option objid :=
  match s with
  | SSimple c => let '(c', ok, n) := counter_try c in (SSimple c', ok, n, if ok then Some 0 else None)
  | SPrecise c => let '(c', ok, n) := counter_try c in (SPrecise c', ok, n, if ok then Some 0 else None)
  | SPart p => let '(p', ok, n, o) := part_try p k in (SPart p', ok, n, o)
  end.
Definition strat_release (s : strat) (i : objid) : strat :=
  match s with SSimple c => SSimple (counter_release c) | SPrecise c => SPrecise (counter_release c) | SPart p => SPart (part_release p i) end.
Definition strat_set_limit (s : strat) (n : Z) : strat :=
  match s with SSimple c => SSimple (counter_set_limit c n) | SPrecise c => SPrecise (counter_set_limit c n) | SPart p => SPart (part_set_limit p n) end.
Definition strat_busy (s : strat) : Z := match s with SSimple c | SPrecise c => c_busy c | SPart p => p_busy p end.
Definition strat_limit (s : strat) : Z := match s with SSimple c | SPrecise c => c_limit c | SPart p => p_limit p end.
(* (busy, limit) of every live bin in registration order *)
Definition strat_bins (s : strat) : list (Z * Z) :=
  match s with
  | SPart p => flat_map (fun i => match get_obj (p_objs p) i with Some b => [(b_busy b, b_limit b)] | None => [] end) (p_live p)
  | _ => []
  end.
