From Coq Require Import ZArith List Lia Bool Arith.
Import ListNotations.
Open Scope Z_scope.

(* Caller of DeadlineLimiter.Acquire (limiter/deadline.go) with a never-cancelled context, at step granularity, over a
   delegate that is an atomic counting gate.  Same program counters as the blocking limiter plus the refusal; the clock is
   explicit.  One loop iteration of tryAcquire:
     now > deadline            -> refused                    (time.Now().After(deadline))
     delegate grants           -> holding
     deadline - now <= 0       -> refused                    (fix F12: no wait without a timer)
     otherwise                 -> helper goroutine started (Parked), then in cond.Wait (Asleep);
                                  signalled -> Woken: one direct attempt, then the loop;
                                  the timer (armed for deadline - now) fires at any instant >= deadline -> back to the loop. *)
Inductive dpc :=
| DIdle | DParked | DAsleep | DWoken | DHolding | DReleasing | DDone | DRefused.

Record dst := { dbusy : Z; dlimit : Z; dnow : Z; ddeadline : Z; dthr : list dpc }.

Inductive dlabel := DTry (i : nat) | DSleep (i : nat) | DRel (i : nat) | DBcast (i : nat) | DTick | DTimer (i : nat).

Fixpoint dupd (l : list dpc) (i : nat) (p : dpc) : list dpc :=
  match l, i with [], _ => [] | _ :: r, O => p :: r | q :: r, S j => q :: dupd r j p end.

Definition dwake (p : dpc) : dpc := match p with DAsleep => DWoken | q => q end.

Definition with_thr (s : dst) (b : Z) (t : list dpc) : dst :=
  {| dbusy := b; dlimit := dlimit s; dnow := dnow s; ddeadline := ddeadline s; dthr := t |}.

Definition dstep (s : dst) (a : dlabel) : option dst :=
  match a with
  | DTry i =>
      match nth_error (dthr s) i with
      | Some DIdle =>
          if ddeadline s <? dnow s then Some (with_thr s (dbusy s) (dupd (dthr s) i DRefused))
          else if dbusy s <? dlimit s then Some (with_thr s (dbusy s + 1) (dupd (dthr s) i DHolding))
          else if ddeadline s - dnow s <=? 0 then Some (with_thr s (dbusy s) (dupd (dthr s) i DRefused))
          else Some (with_thr s (dbusy s) (dupd (dthr s) i DParked))
      | Some DWoken =>
          (* the direct attempt after a signal; on failure the loop starts over *)
          if dbusy s <? dlimit s then Some (with_thr s (dbusy s + 1) (dupd (dthr s) i DHolding))
          else Some (with_thr s (dbusy s) (dupd (dthr s) i DIdle))
      | _ => None end
  | DSleep i =>
      match nth_error (dthr s) i with
      | Some DParked => Some (with_thr s (dbusy s) (dupd (dthr s) i DAsleep))
      | _ => None end
  | DRel i =>
      match nth_error (dthr s) i with
      | Some DHolding => Some (with_thr s (dbusy s - 1) (dupd (dthr s) i DReleasing))
      | _ => None end
  | DBcast i =>
      match nth_error (dthr s) i with
      | Some DReleasing => Some (with_thr s (dbusy s) (map dwake (dupd (dthr s) i DDone)))
      | _ => None end
  | DTick => Some {| dbusy := dbusy s; dlimit := dlimit s; dnow := dnow s + 1; ddeadline := ddeadline s; dthr := dthr s |}
  | DTimer i =>
      match nth_error (dthr s) i with
      | Some DParked | Some DAsleep =>
          if ddeadline s <=? dnow s then Some (with_thr s (dbusy s) (dupd (dthr s) i DIdle)) else None
      | _ => None end
  end.

Definition drun (s : dst) (l : list dlabel) : option dst :=
  fold_left (fun o a => match o with Some s => dstep s a | None => None end) l (Some s).

(* internal steps still to be taken by somebody: everything except a holder deciding to release, and the clock *)
Definition dpending (p : dpc) : bool :=
  match p with DIdle | DParked | DWoken | DReleasing => true | _ => false end.
Definition dsettled (s : dst) : bool := negb (existsb dpending (dthr s)).
Definition disAsleep (p : dpc) : bool := match p with DAsleep => true | _ => false end.
(* a caller asleep before the deadline with capacity free and nothing in progress: only the deadline will end its wait *)
Definition dstranded (s : dst) : bool :=
  dsettled s && (dbusy s <? dlimit s) && (dnow s <? ddeadline s) && existsb disAsleep (dthr s).
