(* Transition system of DefaultLimiter.Acquire over SimpleStrategy, one label per atomic step of the Go code:
   lock limiter mutex; atomic load of inFlight; atomic load of limit and compare; atomic add | refuse; unlock.
   Release is one atomic decrement that needs no lock; SetLimit runs inside a critical section of the same mutex
   (sample-driven updates) with an arbitrary value (any limit algorithm, any trajectory).  Any number of threads. *)
From Coq Require Import ZArith List Lia Bool Arith.
Import ListNotations.
Open Scope Z_scope.

(* Per-thread program counter for DefaultLimiter.Acquire over SimpleStrategy *)
Inductive pc :=
| Out                       (* not in a call, holds nothing *)
| Locked                    (* holds limiter mutex, nothing loaded *)
| LoadedBusy (b : Z)        (* loaded inFlight = b *)
| Decided (b l : Z)         (* loaded limit = l, b < l : will add *)
| Refusing (b l : Z)        (* b >= l : will return refused after unlock *)
| Holding (glimit : Z).     (* granted; ghost: limit in force at grant *)

Record st := { busy : Z; limit : Z; owner : option nat; thr : list pc }.

Inductive label :=
| LLock (i : nat) | LLoadBusy (i : nat) | LLoadLimit (i : nat) | LAdd (i : nat)
| LRefuse (i : nat) | LRelease (i : nat) | LSetLimit (i : nat) (v : Z).

Fixpoint upd (l : list pc) (i : nat) (p : pc) : list pc :=
  match l, i with
  | [], _ => []
  | _ :: r, O => p :: r
  | q :: r, S j => q :: upd r j p
  end.

Definition get (l : list pc) (i : nat) : option pc := nth_error l i.

Definition owner_is (s : st) (i : nat) : bool :=
  match owner s with Some j => Nat.eqb i j | None => false end.

Definition step (s : st) (a : label) : option st :=
  match a with
  | LLock i =>
      match get (thr s) i, owner s with
      | Some Out, None => Some {| busy := busy s; limit := limit s; owner := Some i; thr := upd (thr s) i Locked |}
      | _, _ => None end
  | LLoadBusy i =>
      match get (thr s) i with
      | Some Locked => if owner_is s i then Some {| busy := busy s; limit := limit s; owner := owner s; thr := upd (thr s) i (LoadedBusy (busy s)) |} else None
      | _ => None end
  | LLoadLimit i =>
      match get (thr s) i with
      | Some (LoadedBusy b) =>
          if owner_is s i then
            Some {| busy := busy s; limit := limit s; owner := owner s;
                    thr := upd (thr s) i (if b <? limit s then Decided b (limit s) else Refusing b (limit s)) |}
          else None
      | _ => None end
  | LAdd i =>
      match get (thr s) i with
      | Some (Decided b l) =>
          if owner_is s i then
            Some {| busy := busy s + 1; limit := limit s; owner := None; thr := upd (thr s) i (Holding l) |}
          else None
      | _ => None end
  | LRefuse i =>
      match get (thr s) i with
      | Some (Refusing b l) =>
          if owner_is s i then Some {| busy := busy s; limit := limit s; owner := None; thr := upd (thr s) i Out |} else None
      | _ => None end
  | LRelease i =>
      match get (thr s) i with
      | Some (Holding _) => Some {| busy := busy s - 1; limit := limit s; owner := owner s; thr := upd (thr s) i Out |}
      | _ => None end
  | LSetLimit i v =>
      (* whole critical section of the limiter mutex, executed by a thread that is Out *)
      match get (thr s) i, owner s with
      | Some Out, None => Some {| busy := busy s; limit := Z.max 1 v; owner := None; thr := thr s |}
      | Some (Holding g), None => Some {| busy := busy s; limit := Z.max 1 v; owner := None; thr := thr s |}
      | _, _ => None end
  end.

Definition init (n : nat) (l : Z) : st := {| busy := 0; limit := Z.max 1 l; owner := None; thr := repeat Out n |}.

Inductive reachable (n : nat) (l : Z) : st -> Prop :=
| r_init : reachable n l (init n l)
| r_step s a s' : reachable n l s -> step s a = Some s' -> reachable n l s'.

Definition holders (s : st) : list Z :=
  flat_map (fun p => match p with Holding g => [g] | _ => [] end) (thr s).

Definition maxl (l : list Z) : Z := fold_right Z.max 0 l.

