From Coq Require Import ZArith List Lia Bool Arith.
Import ListNotations.
Open Scope Z_scope.

(* Transition system of QueueBlockingLimiter over an atomic counting gate (the delegate).
   Threads are callers; a caller that holds a token later releases it and runs unblock. *)
Inductive ord := FIFO | LIFO.

Inductive pc :=
| W0                    (* about to try the delegate *)
| W1                    (* delegate refused; about to check backlog length *)
| W2                    (* length ok; about to push *)
| W3                    (* pushed; not yet in select *)
| W4                    (* parked in select: hand-off | timeout | cancel *)
| W5                    (* gave up (timeout/cancel); about to evict itself *)
| Refused               (* returned (nil,false) *)
| Holding               (* returned a listener *)
| U0                    (* completed: delegate token released; about to lock limiter mutex *)
| U1                    (* holds limiter mutex; about to peek *)
| U2 (w : nat)          (* peeked waiter w; about to try the delegate on its behalf *)
| U3 (w : nat)          (* acquired a token for w; about to evict w *)
| U4 (w : nat)          (* evicted; about to try the non-blocking send *)
| U5                    (* send refused; about to OnIgnore the token *)
| Done.

Record st := { busy : Z; limit : Z; maxb : Z; ordering : ord;
               backlog : list nat;       (* newest first, as container/list PushFront *)
               lmu : option nat;         (* owner of the limiter mutex *)
               thr : list pc }.

Inductive label :=
| LTry (i : nat) | LLen (i : nat) | LPush (i : nat) | LSelect (i : nat) | LGiveUp (i : nat) | LEvict (i : nat)
| LRelease (i : nat) | LLock (i : nat) | LPeek (i : nat) | LAcq (i : nat) | LEvictW (i : nat) | LSend (i : nat) | LIgnore (i : nat).

Fixpoint upd (l : list pc) (i : nat) (p : pc) : list pc :=
  match l, i with [], _ => [] | _ :: r, O => p :: r | q :: r, S j => q :: upd r j p end.
Definition remove_id (w : nat) (l : list nat) : list nat := filter (fun x => negb (Nat.eqb x w)) l.
Definition peek (o : ord) (l : list nat) : option nat :=
  match o with LIFO => hd_error l | FIFO => hd_error (rev l) end.
Definition set_thr s t := {| busy := busy s; limit := limit s; maxb := maxb s; ordering := ordering s; backlog := backlog s; lmu := lmu s; thr := t |}.
Definition set_busy s b := {| busy := b; limit := limit s; maxb := maxb s; ordering := ordering s; backlog := backlog s; lmu := lmu s; thr := thr s |}.
Definition set_backlog s b := {| busy := busy s; limit := limit s; maxb := maxb s; ordering := ordering s; backlog := b; lmu := lmu s; thr := thr s |}.
Definition set_lmu s m := {| busy := busy s; limit := limit s; maxb := maxb s; ordering := ordering s; backlog := backlog s; lmu := m; thr := thr s |}.
Definition at_pc s i := nth_error (thr s) i.
Definition go s i p := set_thr s (upd (thr s) i p).

Definition step (s : st) (a : label) : option st :=
  match a with
  | LTry i => match at_pc s i with
      | Some W0 => if busy s <? limit s then Some (go (set_busy s (busy s + 1)) i Holding) else Some (go s i W1)
      | _ => None end
  | LLen i => match at_pc s i with
      | Some W1 => if maxb s <=? Z.of_nat (length (backlog s)) then Some (go s i Refused) else Some (go s i W2)
      | _ => None end
  | LPush i => match at_pc s i with
      | Some W2 => Some (go (set_backlog s (i :: backlog s)) i W3)
      | _ => None end
  | LSelect i => match at_pc s i with Some W3 => Some (go s i W4) | _ => None end
  | LGiveUp i => match at_pc s i with Some W4 => Some (go s i W5) | _ => None end      (* timer or ctx: environment *)
  | LEvict i => match at_pc s i with
      | Some W5 => Some (go (set_backlog s (remove_id i (backlog s))) i Refused)
      | _ => None end
  | LRelease i => match at_pc s i with
      | Some Holding => Some (go (set_busy s (busy s - 1)) i U0)                       (* environment: holder completes *)
      | _ => None end
  | LLock i => match at_pc s i, lmu s with
      | Some U0, None => Some (go (set_lmu s (Some i)) i U1)
      | _, _ => None end
  | LPeek i => match at_pc s i with
      | Some U1 => match peek (ordering s) (backlog s) with
                   | Some w => Some (go s i (U2 w))
                   | None => Some (go (set_lmu s None) i Done) end
      | _ => None end
  | LAcq i => match at_pc s i with
      | Some (U2 w) => if busy s <? limit s then Some (go (set_busy s (busy s + 1)) i (U3 w))
                       else Some (go (set_lmu s None) i Done)
      | _ => None end
  | LEvictW i => match at_pc s i with
      | Some (U3 w) => Some (go (set_backlog s (remove_id w (backlog s))) i (U4 w))
      | _ => None end
  | LSend i => match at_pc s i with
      | Some (U4 w) => match at_pc s w with
                       | Some W4 => Some (go (set_lmu (go s w Holding) None) i Done)      (* rendezvous: receiver parked *)
                       | _ => Some (go s i U5) end
      | _ => None end
  | LIgnore i => match at_pc s i with
      | Some U5 => Some (go (set_lmu (set_busy s (busy s - 1)) None) i Done)
      | _ => None end
  end.

Definition run (s : st) (l : list label) : option st :=
  fold_left (fun o a => match o with Some s => step s a | None => None end) l (Some s).

(* settled: nothing but environment steps (a holder completing, a waiter's timer/ctx) can happen *)
Definition internal (p : pc) : bool :=
  match p with W0 | W1 | W2 | W3 | W5 | U0 | U1 | U2 _ | U3 _ | U4 _ | U5 => true | _ => false end.
Definition settled (s : st) : bool := negb (existsb internal (thr s)).
Definition isW4 p := match p with W4 => true | _ => false end.
Definition stranded (s : st) : bool := settled s && (busy s <? limit s) && existsb isW4 (thr s).
Definition count (f : pc -> bool) (l : list pc) : Z := Z.of_nat (length (filter f l)).

Definition init1 (o : ord) (mb : Z) (t : list pc) : st :=
  {| busy := 1; limit := 1; maxb := mb; ordering := o; backlog := []; lmu := None; thr := t |}.

Definition ends_in (P : st -> bool) (s0 : st) (sched : list label) : bool :=
  match run s0 sched with Some s' => P s' | None => false end.

