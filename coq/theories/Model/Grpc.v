(* Model of grpc/grpc_unary.go, grpc/grpc_streaming.go, grpc/option_*.go.
   Each wrapper is a function from (configuration, outcome of Acquire on each limiter, outcome of
   the wrapped call, result of the response classifier) to the trace of externally visible events
   and the value returned.  Limiters, classifiers and the wrapped call are doubles identified by
   small integers, exactly as the correspondence harness installs them. *)
From Coq Require Import ZArith List Bool.
Import ListNotations.
Open Scope Z_scope.

Inductive outcome := Success | Ignore | Dropped.

(* identities of injected doubles *)
Definition id := Z.

Inductive event :=
| EAcquire (limiter : id)                (* limiter.Acquire(ctx) *)
| ECall                                   (* handler / invoker / stream.RecvMsg / stream.SendMsg *)
| ERespClass (classifier : id)            (* response classifier consulted *)
| EToken (limiter : id) (o : outcome)     (* listener obtained from that limiter completed with o *)
| ELimitClass (classifier : id) (limiter : id). (* limit-exceeded classifier consulted, given that limiter *)

Inductive result :=
| RCall                                   (* the wrapped call's own (resp, err), unchanged *)
| RStatus (classifier : id).              (* status built from that classifier's code and error *)

(* -- unary interceptors ---------------------------------------------------------------- *)
Record ucfg := { u_limiter : id; u_limit_class : id; u_server_class : id; u_client_class : id }.

Definition u_default : ucfg := {| u_limiter := 0; u_limit_class := 0; u_server_class := 0; u_client_class := 0 |}.

Inductive uopt :=
| WithLimiter (l : id) | WithLimitExceeded (c : id) | WithServerClass (c : id) | WithClientClass (c : id)
| WithName | WithTags.

Definition u_apply (c : ucfg) (o : uopt) : ucfg :=
  match o with
  | WithLimiter l => {| u_limiter := l; u_limit_class := u_limit_class c; u_server_class := u_server_class c; u_client_class := u_client_class c |}
  | WithLimitExceeded k => {| u_limiter := u_limiter c; u_limit_class := k; u_server_class := u_server_class c; u_client_class := u_client_class c |}
  | WithServerClass k => {| u_limiter := u_limiter c; u_limit_class := u_limit_class c; u_server_class := k; u_client_class := u_client_class c |}
  | WithClientClass k => {| u_limiter := u_limiter c; u_limit_class := u_limit_class c; u_server_class := u_server_class c; u_client_class := k |}
  | WithName | WithTags => c
  end.

Definition u_config (opts : list uopt) : ucfg := fold_left u_apply opts u_default.

(* acquire_ok : does the configured limiter grant?   cls : what the response classifier answers *)
Definition unary (server : bool) (c : ucfg) (acquire_ok : bool) (cls : outcome) : list event * result :=
  if acquire_ok then
    ([EAcquire (u_limiter c); ECall;
      ERespClass (if server then u_server_class c else u_client_class c);
      EToken (u_limiter c) cls], RCall)
  else
    ([EAcquire (u_limiter c); ELimitClass (u_limit_class c) (u_limiter c)], RStatus (u_limit_class c)).

(* -- stream wrapper -------------------------------------------------------------------- *)
Record scfg := { s_recv : id; s_send : id; s_recv_limit_class : id; s_send_limit_class : id;
                 s_server_class : id; s_client_class : id }.
Definition s_default : scfg := {| s_recv := 0; s_send := 0; s_recv_limit_class := 0; s_send_limit_class := 0;
                                  s_server_class := 0; s_client_class := 0 |}.
Inductive sopt :=
| WithRecvLimiter (l : id) | WithSendLimiter (l : id) | WithRecvLimitExceeded (c : id) | WithSendLimitExceeded (c : id)
| WithStreamServerClass (c : id) | WithStreamClientClass (c : id) | WithSendName | WithRecvName.

Definition s_apply (c : scfg) (o : sopt) : scfg :=
  match o with
  | WithRecvLimiter l => {| s_recv := l; s_send := s_send c; s_recv_limit_class := s_recv_limit_class c; s_send_limit_class := s_send_limit_class c; s_server_class := s_server_class c; s_client_class := s_client_class c |}
  | WithSendLimiter l => {| s_recv := s_recv c; s_send := l; s_recv_limit_class := s_recv_limit_class c; s_send_limit_class := s_send_limit_class c; s_server_class := s_server_class c; s_client_class := s_client_class c |}
  | WithRecvLimitExceeded k => {| s_recv := s_recv c; s_send := s_send c; s_recv_limit_class := k; s_send_limit_class := s_send_limit_class c; s_server_class := s_server_class c; s_client_class := s_client_class c |}
  | WithSendLimitExceeded k => {| s_recv := s_recv c; s_send := s_send c; s_recv_limit_class := s_recv_limit_class c; s_send_limit_class := k; s_server_class := s_server_class c; s_client_class := s_client_class c |}
  | WithStreamServerClass k => {| s_recv := s_recv c; s_send := s_send c; s_recv_limit_class := s_recv_limit_class c; s_send_limit_class := s_send_limit_class c; s_server_class := k; s_client_class := s_client_class c |}
  | WithStreamClientClass k => {| s_recv := s_recv c; s_send := s_send c; s_recv_limit_class := s_recv_limit_class c; s_send_limit_class := s_send_limit_class c; s_server_class := s_server_class c; s_client_class := k |}
  | WithSendName | WithRecvName => c
  end.
Definition s_config (opts : list sopt) : scfg := fold_left s_apply opts s_default.

(* recv = true: RecvMsg, false: SendMsg.  call_err: did the underlying stream operation fail?
   cls: the response classifier's answer (consulted only on error). *)
Definition stream_op (recv : bool) (c : scfg) (acquire_ok call_err : bool) (cls : outcome) : list event * result :=
  let lim := if recv then s_recv c else s_send c in
  let lcls := if recv then s_recv_limit_class c else s_send_limit_class c in
  let rcls := if recv then s_server_class c else s_client_class c in
  if acquire_ok then
    if call_err then ([EAcquire lim; ECall; ERespClass rcls; EToken lim cls], RCall)
    else ([EAcquire lim; ECall; EToken lim Success], RCall)
  else ([EAcquire lim; ELimitClass lcls lim], RStatus lcls).

(* -- integer coding for the correspondence runner ---------------------------------------- *)
Definition oc_of_z (z : Z) : outcome := if z =? 0 then Success else if z =? 1 then Ignore else Dropped.
Definition z_of_oc (o : outcome) : Z := match o with Success => 0 | Ignore => 1 | Dropped => 2 end.
(* events on default (id 0) doubles are not observable by the harness and are projected away *)
Definition ev_code (e : event) : list Z :=
  match e with
  | EAcquire l => if l =? 0 then [] else [1; l]
  | ECall => [2]
  | ERespClass c => if c =? 0 then [] else [3; c]
  | EToken l o => if l =? 0 then [] else [4; l; z_of_oc o]
  | ELimitClass c l => if c =? 0 then [] else [5; c; l]
  end.
Definition res_code (r : result) : list Z := match r with RCall => [100] | RStatus c => [101; c] end.
Definition encode (p : list event * result) : list Z := flat_map ev_code (fst p) ++ res_code (snd p).

Fixpoint uopts_of (l : list Z) : list uopt :=
  match l with
  | k :: v :: r =>
      (if k =? 1 then WithLimiter v else if k =? 2 then WithLimitExceeded v else if k =? 3 then WithServerClass v
       else if k =? 4 then WithClientClass v else if k =? 5 then WithName else WithTags) :: uopts_of r
  | _ => []
  end.
Fixpoint sopts_of (l : list Z) : list sopt :=
  match l with
  | k :: v :: r =>
      (if k =? 1 then WithRecvLimiter v else if k =? 2 then WithSendLimiter v else if k =? 3 then WithRecvLimitExceeded v
       else if k =? 4 then WithSendLimitExceeded v else if k =? 5 then WithStreamServerClass v
       else if k =? 6 then WithStreamClientClass v else if k =? 7 then WithSendName else WithRecvName) :: sopts_of r
  | _ => []
  end.

(* op 1: unary server, 2: unary client: args [acquire_ok; cls];  op 3: RecvMsg, 4: SendMsg: args [acquire_ok; call_err; cls].
   cfg = option list as (kind, value) pairs; the same list configures both interceptor kinds. *)
Definition step_z (cfg : list Z) (op : Z) (args : list Z) : list Z :=
  match args with
  | a :: b :: r =>
      (op * 100 + a * 10 + b) ::
      (if op =? 1 then encode (unary true (u_config (uopts_of cfg)) (negb (a =? 0)) (oc_of_z b))
      else if op =? 2 then encode (unary false (u_config (uopts_of cfg)) (negb (a =? 0)) (oc_of_z b))
      else match r with
           | c :: _ =>
               if op =? 3 then encode (stream_op true (s_config (sopts_of cfg)) (negb (a =? 0)) (negb (b =? 0)) (oc_of_z c))
               else encode (stream_op false (s_config (sopts_of cfg)) (negb (a =? 0)) (negb (b =? 0)) (oc_of_z c))
           | [] => [-1]
           end)
  | _ => [-1; -1]
  end.
