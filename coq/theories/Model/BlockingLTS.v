From Coq Require Import ZArith List Lia Bool Arith.
Import ListNotations.
Open Scope Z_scope.

(* Caller of BlockingLimiter.Acquire with timeout 0 and a never-cancelled context,
   over a delegate that is an atomic counting gate (justified by the Gate theorem). *)
Inductive pc :=
| Idle          (* about to attempt *)
| Parked        (* attempt failed; helper goroutine not yet waiting on the condition *)
| Asleep        (* helper is in cond.Wait *)
| Woken         (* helper was signalled; caller will re-attempt *)
| Holding
| Releasing     (* delegate token released, Broadcast not yet done *)
| Done.

Record st := { busy : Z; limit : Z; thr : list pc }.

Inductive label := LTry (i : nat) | LSleep (i : nat) | LRel (i : nat) | LBcast (i : nat).

Fixpoint upd (l : list pc) (i : nat) (p : pc) : list pc :=
  match l, i with [], _ => [] | _ :: r, O => p :: r | q :: r, S j => q :: upd r j p end.

Definition wake (p : pc) : pc := match p with Asleep => Woken | q => q end.

Definition step (s : st) (a : label) : option st :=
  match a with
  | LTry i =>
      match nth_error (thr s) i with
      | Some Idle | Some Woken =>
          if busy s <? limit s
          then Some {| busy := busy s + 1; limit := limit s; thr := upd (thr s) i Holding |}
          else Some {| busy := busy s; limit := limit s; thr := upd (thr s) i Parked |}
      | _ => None end
  | LSleep i =>
      match nth_error (thr s) i with
      | Some Parked => Some {| busy := busy s; limit := limit s; thr := upd (thr s) i Asleep |}
      | _ => None end
  | LRel i =>
      match nth_error (thr s) i with
      | Some Holding => Some {| busy := busy s - 1; limit := limit s; thr := upd (thr s) i Releasing |}
      | _ => None end
  | LBcast i =>
      match nth_error (thr s) i with
      | Some Releasing => Some {| busy := busy s; limit := limit s; thr := map wake (upd (thr s) i Done) |}
      | _ => None end
  end.

Definition run (s : st) (l : list label) : option st :=
  fold_left (fun o a => match o with Some s => step s a | None => None end) l (Some s).

(* internal steps: everything except a holder deciding to release *)
Definition internal_pending (p : pc) : bool :=
  match p with Idle | Parked | Woken | Releasing => true | _ => false end.
Definition settled (s : st) : bool := negb (existsb internal_pending (thr s)).
Definition stranded (s : st) : bool :=
  settled s && (busy s <? limit s) && existsb (fun p => match p with Asleep => true | _ => false end) (thr s).

