(* Model of the life cycle of the bundled metric registries (metric_registry/gometrics, metric_registry/datadog; current tree):
   Start launches one poller unless one is running; the poller polls every registered gauge once per period; Stop terminates it. *)
From Coq Require Import ZArith List Bool.
Import ListNotations.
Open Scope Z_scope.

Record reg := { r_started : bool; r_pollers : Z; r_gauges : Z }.
Definition reg_init : reg := {| r_started := false; r_pollers := 0; r_gauges := 0 |}.
Inductive rop := RStart | RStop | RTick (periods : Z) | RGauge (fresh : bool).
(* returns the number of gauge polls performed during the operation *)
Definition reg_step (r : reg) (o : rop) : reg * Z :=
  match o with
  | RStart => if r_started r then (r, 0) else ({| r_started := true; r_pollers := r_pollers r + 1; r_gauges := r_gauges r |}, 0)
  | RStop => if r_started r then ({| r_started := false; r_pollers := r_pollers r - 1; r_gauges := r_gauges r |}, 0) else (r, 0)
  | RTick n => (r, r_pollers r * n * r_gauges r)
  | RGauge fresh => ({| r_started := r_started r; r_pollers := r_pollers r; r_gauges := r_gauges r + (if fresh then 1 else 0) |}, 0)
  end.
Definition reg_step_z (r : reg) (op : Z) (a : list Z) : reg * list Z :=
  let o := if op =? 1 then RStart else if op =? 2 then RStop else if op =? 3 then RTick (nth 0 a 0) else RGauge (negb (nth 0 a 0 =? 0)) in
  let '(r', polls) := reg_step r o in (r', [op; polls; r_pollers r']).
