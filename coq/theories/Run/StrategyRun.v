(* Integer coding of the strategy (component 41) and default-limiter (component 40) models. *)
From Coq Require Import ZArith List Bool.
From GCL Require Import Base.F64 Model.Measure Model.Strategy Model.DefaultLimiter.
Import ListNotations.
Open Scope Z_scope.

Definition nz (l : list Z) (n : nat) : Z := nth n l 0.
Fixpoint parts_of (n : nat) (l : list Z) : list (Z * f64) :=
  match n, l with
  | S m, k :: p :: r => (k, of_bits p) :: parts_of m r
  | _, _ => []
  end.
(* strategy cfg: kind :: total :: nparts :: (key, pct)* ; returns the strategy and the rest of the list *)
Definition strat_of_cfg (c : list Z) : strat * list Z :=
  let k := nz c 0 in let total := nz c 1 in let n := Z.to_nat (nz c 2) in
  let rest := skipn (3 + 2 * n) c in
  if k =? 1 then (SSimple (counter_init total), rest)
  else if k =? 2 then (SPrecise (counter_init total), rest)
  else (SPart (part_init (k =? 3) (parts_of n (skipn 3 c)) total), rest).

Definition state_code (s : strat) : list Z :=
  strat_busy s :: strat_limit s :: Z.of_nat (length (strat_bins s)) :: flat_map (fun p => [fst p; snd p]) (strat_bins s).

(* ---- bare strategy ---- *)
Record sstate := { ss_strat : strat; ss_tokens : list (option objid) }.
Definition bare_init (c : list Z) : sstate := {| ss_strat := fst (strat_of_cfg c); ss_tokens := [] |}.
Definition strat_add (s : strat) (k : Z) (pct : f64) : strat * bool :=
  match s with SPart p => let '(p', ok) := part_add p k pct in (SPart p', ok) | _ => (s, false) end.
Definition strat_remove (s : strat) (k : Z) : strat * Z * bool :=
  match s with SPart p => let '(p', n, ok) := part_remove p k in (SPart p', n, ok) | _ => (s, 0, false) end.
Definition bare_step (st : sstate) (op : Z) (a : list Z) : sstate * list Z :=
  let s := ss_strat st in
  if op =? 1 then
    let '(s', ok, n, o) := strat_try s (nz a 0) in
    (* in-flight metric samples emitted by this TryAcquire: simple/precise sample the counter at the decision (granted or not);
       a partitioned strategy samples the charged partition's busy count on a grant *)
    let emitted := match s' with
                   | SPart p' => match o with
                                 | Some i => match get_obj (p_objs p') i with Some b => [b_busy b] | None => [] end
                                 | None => [] end
                   | _ => [n]
                   end in
    ({| ss_strat := s'; ss_tokens := if ok then ss_tokens st ++ [o] else ss_tokens st |},
     (if ok then 1 else 2) :: b2z ok :: n :: Z.of_nat (length emitted) :: emitted ++ state_code s')
  else if op =? 2 then
    match nth_error (ss_tokens st) (Z.to_nat (nz a 0)) with
    | Some (Some i) => let s' := strat_release s i in ({| ss_strat := s'; ss_tokens := ss_tokens st |}, 3 :: state_code s')
    | _ => (st, [-1])
    end
  else if op =? 3 then
    let s' := strat_set_limit s (nz a 0) in ({| ss_strat := s'; ss_tokens := ss_tokens st |}, 4 :: state_code s')
  else if op =? 4 then
    let '(s', ok) := strat_add s (nz a 0) (of_bits (nz a 1)) in
    ({| ss_strat := s'; ss_tokens := ss_tokens st |}, 5 :: b2z ok :: state_code s')
  else
    let '(s', n, ok) := strat_remove s (nz a 0) in
    ({| ss_strat := s'; ss_tokens := ss_tokens st |}, 6 :: n :: b2z ok :: state_code s').

(* ---- default limiter over a strategy, scripted limit ---- *)
Definition lim_init (c : list Z) : limiter :=
  let '(s, r) := strat_of_cfg c in
  limiter_init {| l_minw := nz r 0; l_maxw := nz r 1; l_thr := nz r 2; l_wsize := nz r 3 |} s (nz r 4).
Definition lstate_code (l : limiter) : list Z := lm_gauge l :: state_code (lm_strat l).
Definition oc_of (z : Z) : outcome := if z =? 0 then Success else if z =? 1 then Ignore else Dropped.
Definition lim_step (l : limiter) (op : Z) (a : list Z) : limiter * list Z :=
  if op =? 1 then
    let '(l', ok) := lm_acquire l (nz a 0) (nz a 1) in (l', (if ok then 1 else 2) :: b2z ok :: lstate_code l')
  else if op =? 2 then
    let '(l', c) := lm_complete l (Z.to_nat (nz a 0)) (oc_of (nz a 1)) (nz a 2) in
    (l', match c with
         | Some (r, i, d) => 10 :: 1 :: r :: i :: b2z d :: lstate_code l'
         | None => (11 + nz a 1) :: 0 :: 0 :: 0 :: 0 :: lstate_code l'
         end)
  else if op =? 3 then
    let l' := lm_script l (nz a 0) in (l', 20 :: lstate_code l')
  else if op =? 4 then
    let '(s', ok) := strat_add (lm_strat l) (nz a 0) (of_bits (nz a 1)) in
    let l' := lm_with l s' (lm_win l) (lm_next l) (lm_gauge l) (lm_listeners l) in (l', 21 :: b2z ok :: lstate_code l')
  else
    let '(s', n, ok) := strat_remove (lm_strat l) (nz a 0) in
    let l' := lm_with l s' (lm_win l) (lm_next l) (lm_gauge l) (lm_listeners l) in (l', 22 :: n :: b2z ok :: lstate_code l').
