(* Generic correspondence runner: every component model is driven through integer-coded operations
   (floats travel as IEEE-754 bit patterns, booleans as 0/1), so that one OCaml driver and one
   in-Coq evaluator serve all components.  A case = (component id, configuration, operations with the
   outputs the implementation produced); the runner returns the indices of operations whose model
   output differs. *)
From Coq Require Import ZArith List Bool.
From GCL Require Import Model.Registry Model.Grpc Run.LimitsRun Run.MeasureRun Run.StrategyRun Run.WaitersRun.
Import ListNotations.
Open Scope Z_scope.

Definition zop := (Z * list Z)%type.

Fixpoint run_gen {S : Type} (step : S -> Z -> list Z -> S * list Z) (s : S) (ops : list zop) : list (list Z) :=
  match ops with
  | [] => []
  | (o, a) :: r => let '(s', out) := step s o a in out :: run_gen step s' r
  end.

Definition run_stateless (f : Z -> list Z -> list Z) (ops : list zop) : list (list Z) :=
  map (fun p => f (fst p) (snd p)) ops.

(* component ids *)
Definition run_case (comp : Z) (cfg : list Z) (ops : list zop) : list (list Z) :=
  if comp =? 14 then run_stateless (Grpc.step_z cfg) ops
  else if comp =? 30 then run_gen limits_step (limits_init cfg) ops
  else if comp =? 18 then run_gen meas_step (meas_init cfg) ops
  else if comp =? 41 then run_gen bare_step (bare_init cfg) ops
  else if comp =? 40 then run_gen lim_step (lim_init cfg) ops
  else if comp =? 60 then run_gen reg_step_z reg_init ops
  else if comp =? 50 then run_gen waiters_step (waiters_init cfg) ops
  else [].

Fixpoint zlist_eqb (a b : list Z) : bool :=
  match a, b with
  | [], [] => true
  | x :: a', y :: b' => (x =? y) && zlist_eqb a' b'
  | _, _ => false
  end.

(* observed case: ops paired with implementation outputs *)
Definition ocase := (Z * list Z * list (zop * list Z))%type.

Fixpoint mism (k : Z) (model : list (list Z)) (obs : list (list Z)) : list (Z * list Z) :=
  match model, obs with
  | m :: mr, o :: or => if zlist_eqb (tl m) o then mism (k + 1) mr or else (k, m) :: mism (k + 1) mr or
  | [], [] => []
  | _, _ => [(k, [-999])]
  end.

Definition check_case (c : ocase) : list (Z * list Z) :=
  let '(comp, cfg, l) := c in
  mism 0 (run_case comp cfg (map fst l)) (map snd l).

Fixpoint check_cases (n : Z) (cs : list ocase) : list (Z * list (Z * list Z)) :=
  match cs with
  | [] => []
  | c :: r => match check_case c with [] => check_cases (n + 1) r | m => (n, m) :: check_cases (n + 1) r end
  end.
