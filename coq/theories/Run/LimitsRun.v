(* Integer coding of the limit models for the correspondence runner (component 30). *)
From Coq Require Import ZArith List Bool.
From GCL Require Import Base.F64 Model.Measure Model.Limits.
Import ListNotations.
Open Scope Z_scope.

Definition nthz (l : list Z) (n : nat) : Z := nth n l 0.

Definition algo_of_cfg (c : list Z) : algo :=
  let k := nthz c 0 in
  if k =? 0 then AAimd (aimd_init (nthz c 1) (nthz c 2) (of_bits (nthz c 3)))
  else if k =? 1 then AVegas (vegas_init (nthz c 1) (nthz c 2) (nthz c 3) (of_bits (nthz c 4)) (of_bits (nthz c 5)))
  else if k =? 2 then AGrad (grad_init (nthz c 1) (nthz c 2) (nthz c 3) (nthz c 4) (of_bits (nthz c 5)) (of_bits (nthz c 6)) (nthz c 7))
  else if k =? 3 then AGrad2 (grad2_init (nthz c 1) (nthz c 2) (nthz c 3) (nthz c 4) (of_bits (nthz c 5)))
  else if k =? 4 then ASettable (settable_init (nthz c 1))
  else AFixed (fixed_init (nthz c 1)).

(* cfg = wrapper :: minw :: maxw :: size :: thr :: algorithm cfg;  wrapper 0 plain, 1 traced, 2 windowed, 3 traced(windowed) *)
Definition limit_of_cfg (c : list Z) : anylimit :=
  let a := algo_of_cfg (skipn 5 c) in
  if (nthz c 0 =? 2) || (nthz c 0 =? 3)
  then LWindowed (windowed_init {| w_minw := nthz c 1; w_maxw := nthz c 2; w_size := nthz c 3; w_thr := nthz c 4 |} a)
  else LPlain a.

Record lstate := { ls_limit : option anylimit; ls_listeners : Z }.
Definition limits_init (c : list Z) : lstate := {| ls_limit := Some (limit_of_cfg c); ls_listeners := 0 |}.

Definition sample_of (a : list Z) : sample :=
  {| s_start := nthz a 0; s_rtt := nthz a 1; s_inflight := nthz a 2; s_drop := z2b (nthz a 3);
     s_draw := nthz a 4; s_lgi := of_bits (nthz a 5); s_lgf := of_bits (nthz a 6) |}.

Fixpoint repeat_notif (n : nat) (vals : list Z) : list Z :=
  match n with O => [] | S m => (Z.of_nat (length vals) :: vals) ++ repeat_notif m vals end.
Definition emit_code (e : list emission) : list Z :=
  Z.of_nat (length e) :: flat_map (fun p => [fst p; to_bits (snd p)]) e.

Definition limits_step (st : lstate) (op : Z) (a : list Z) : lstate * list Z :=
  match ls_limit st with
  | None => (st, [-1; -1])
  | Some l =>
    if op =? 1 then
      match any_step l (sample_of a) with
      | None => ({| ls_limit := None; ls_listeners := ls_listeners st |}, [0; 1])
      | Some o =>
          ({| ls_limit := Some (o_st o); ls_listeners := ls_listeners st |},
           o_branch o :: 0 :: any_est (o_st o) :: any_noload (o_st o) :: ls_listeners st ::
             repeat_notif (Z.to_nat (ls_listeners st)) (o_notify o) ++ emit_code (o_emit o))
      end
    else if op =? 2 then
      ({| ls_limit := Some l; ls_listeners := ls_listeners st + 1 |}, [0; ls_listeners st + 1])
    else
      let '(l', n) := any_set_limit l (nthz a 0) in
      ({| ls_limit := Some l'; ls_listeners := ls_listeners st |},
       0 :: any_est l' :: ls_listeners st :: repeat_notif (Z.to_nat (ls_listeners st)) n)
  end.
