(* Integer coding of the measurement models for the correspondence runner (component 18). *)
From Coq Require Import ZArith List Bool.
From GCL Require Import Base.F64 Model.Measure.
Import ListNotations.
Open Scope Z_scope.

Inductive meas :=
| MMin (v : f64) | MSingle (v : f64) | MExp (m : expavg) | MSema (m : sema) | MSmv (m : smv) | MWmp (m : wmp) | MWin (w : win).

Definition nz (l : list Z) (n : nat) : Z := nth n l 0.
Definition fz (l : list Z) (n : nat) : f64 := of_bits (nth n l 0).

(* cfg = kind :: parameters *)
Definition meas_init (c : list Z) : meas :=
  let k := nz c 0 in
  if k =? 1 then MMin zero else if k =? 2 then MSingle zero
  else if k =? 3 then MExp (ea_new (nz c 1) (nz c 2))
  else if k =? 4 then MSema (sema_new (fz c 1))
  else if k =? 5 then MSmv (smv_new (fz c 1) (fz c 2))
  else if k =? 6 then MWmp (wmp_new (fz c 1) (fz c 2) (fz c 3) (fz c 4))
  else MWin win_empty.

Definition meas_get (m : meas) : f64 :=
  match m with MMin v => v | MSingle v => v | MExp e => ea_value e | MSema s => sm_value s | MSmv s => smv_get s
             | MWmp w => wp_value w | MWin _ => zero end.

(* Update operations used by the harness: kind 0: v + c, kind 1: v * c *)
Definition upd_op (k : Z) (c : f64) (v : f64) : f64 := if k =? 0 then add v c else mul v c.

Definition meas_step (m : meas) (op : Z) (a : list Z) : meas * list Z :=
  if op =? 1 then (* Add *)
    let x := fz a 0 in
    match m with
    | MMin v => let '(v', f) := min_add_flag v x in (MMin v', [1; to_bits v'; b2z f])
    | MSingle _ => (MSingle x, [2; to_bits x; 1])
    | MExp e => let e' := ea_add e x in (MExp e', [(if ea_count e <? ea_warmup e then 3 else 4); to_bits (ea_value e'); 1])
    | MSema s => let '(s', f) := sema_add s x in (MSema s', [5; to_bits (sm_value s'); b2z f])
    | MSmv s => let '(s', (sd, f)) := smv_add s x in (MSmv s', [6; to_bits sd; b2z f])
    | MWmp w => let '(w', f) := wmp_add w x in (MWmp w', [7; to_bits (wp_value w'); b2z f])
    | MWin _ => (m, [-1])
    end
  else if op =? 2 then (m, [10; to_bits (meas_get m)])
  else if op =? 3 then (* Reset *)
    (match m with
     | MMin _ => MMin zero | MSingle _ => MSingle zero | MExp e => MExp (ea_reset e) | MSema s => MSema (sema_reset s)
     | MSmv s => MSmv (smv_reset s) | MWmp w => MWmp (wmp_reset w) | MWin _ => MWin win_empty end, [11])
  else if op =? 4 then (* Update *)
    let f := upd_op (nz a 0) (fz a 1) in
    let m' := match m with
              | MMin v => MMin (min_add v (f v))
              | MSingle v => MSingle (f v)
              | MExp e => MExp (ea_set e (f (ea_value e)))
              | MSema s => MSema (sema_update s f)
              | MSmv s => MSmv (smv_update s f)
              | MWmp w => MWmp (wmp_update w f)
              | MWin _ => m end in
    (m', [12; to_bits (meas_get m')])
  else
    match m with
    | MWin w =>
        let w' := if op =? 5 then win_add w (nz a 0) (nz a 1) else win_add_dropped w (nz a 0) in
        (MWin w', [(if op =? 5 then 13 else 14); wmin w'; win_avg w'; wmaxinf w'; wcount w'; b2z (wdrop w')])
    | _ => (m, [-1])
    end.
