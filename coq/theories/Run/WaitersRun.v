(* Integer coding of the settled blocking-wrapper model (component 50). *)
From Coq Require Import ZArith List Bool.
From GCL Require Import Model.Waiters.
Import ListNotations.
Open Scope Z_scope.

Definition nzw (l : list Z) (n : nat) : Z := nth n l 0.
(* cfg: kind(1 blocking 2 deadline 3 queue); fifo; maxb; timeout; deadline; evict; limit; now0 *)
Definition waiters_init (c : list Z) : wstate :=
  winit {| w_kind := (if nzw c 0 =? 1 then KBlocking else if nzw c 0 =? 2 then KDeadline else KQueue);
           w_fifo := negb (nzw c 1 =? 0); w_maxb := nzw c 2; w_timeout := nzw c 3; w_deadline := nzw c 4; w_evict := negb (nzw c 5 =? 0) |}
        (nzw c 6) (nzw c 7).
Definition obs (s : wstate) : list Z :=
  ws_busy s :: nblocked s :: Z.of_nat (length (ws_callers s)) :: flat_map (fun c => [c_st c; c_t c]) (ws_callers s).
Definition nats (l : list Z) : list nat := map Z.to_nat l.
Definition waiters_step (s : wstate) (op : Z) (a : list Z) : wstate * list Z :=
  let s' :=
    if op =? 1 then arrive s (negb (nzw a 0 =? 0))
    else if op =? 2 then release s (Z.to_nat (nzw a 0)) (nats (skipn 2 a))
    else if op =? 3 then cancel s (Z.to_nat (nzw a 0))
    else if op =? 4 then advance 2000 s (ws_now s + nzw a 0) (nats (skipn 1 a))
    else set_limit s (nzw a 0) in
  (s', op :: obs s').
