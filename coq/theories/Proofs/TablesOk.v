(* Obligations over the facts regenerated from /repo on every run (Gen/Tables.v): the lookup tables and the
   queue-size / log10 functions of limit/functions agree with the closed forms used by the model,
   on the whole table, at its boundary and beyond it. *)
From Coq Require Import ZArith List Bool Lia.
From GCL Require Import Base.F64 Model.Measure Model.Limits Gen.Tables.
Import ListNotations.
Open Scope Z_scope.

Fixpoint check_from (f : Z -> bool) (n : nat) (start : Z) : bool :=
  match n with O => true | S m => f start && check_from f m (start + 1) end.
Definition nthz (l : list Z) (i : Z) : Z := nth (Z.to_nat i) l (-7).

Definition tables_ok : bool :=
  (Z.of_nat (length sqrt_table) =? TBL) && (Z.of_nat (length log10_table) =? TBL) &&
  check_from (fun i => (nthz sqrt_table i =? sqrt_tbl i) && (nthz log10_table i =? log10_tbl i)) 1000 0.

Definition opt_z (o : option Z) : Z := match o with Some z => z | None => -1 end.
(* functions on the grid 0..2100: SqrtRootFunction(4) exactly; Log10RootFunction(0) exactly inside the table and
   within the oracle range assumed by the theorems beyond it *)
Definition functions_ok : bool :=
  (Z.of_nat (length sqrt_fun_grid) =? 2101) && (Z.of_nat (length log10_fun_grid) =? 2101) &&
  check_from (fun n => nthz sqrt_fun_grid n =? opt_z (sqrt_q n)) 2101 0 &&
  check_from (fun n => nthz log10_fun_grid n =? opt_z (log10i n zero)) 1000 0 &&
  check_from (fun n => (2 <=? nthz log10_fun_grid n) && (nthz log10_fun_grid n <=? 400)) 1101 1000 &&
  (sqrt_neg =? opt_z (sqrt_q (-1))) && (log10_neg =? opt_z (log10i (-1) zero)).

(* Log10RootFloatFunction(0) at n + 0.5 for n inside the table: bit pattern of 0 + float64(table[n]) *)
Definition half_more (n : Z) : f64 := add (of_int n) half.
Definition log10f_ok : bool :=
  (Z.of_nat (length log10f_fun_grid) =? 1101) &&
  check_from (fun n => match log10f (half_more n) zero with
                       | Some y => nthz log10f_fun_grid n =? to_bits y
                       | None => false end) 1000 0.

Theorem tables_agree : tables_ok = true.
Proof. vm_compute. reflexivity. Qed.
Theorem functions_agree : functions_ok = true.
Proof. vm_compute. reflexivity. Qed.
Theorem log10f_agrees : log10f_ok = true.
Proof. vm_compute. reflexivity. Qed.

(* constructors of the queue limiter / pools install the ordering, backlog bound and timeout their names promise *)
From GCL Require Import Model.Waiters.
Fixpoint rows_eqb (a b : list (Z * (Z * (Z * Z)))) : bool :=
  match a, b with
  | [], [] => true
  | (i, (o, (m, t))) :: ra, (i', (o', (m', t'))) :: rb => (i =? i') && (o =? o') && (m =? m') && (t =? t') && rows_eqb ra rb
  | _, _ => false
  end.
Theorem ctors_agree : rows_eqb ctor_table ctor_expected = true.
Proof. vm_compute. reflexivity. Qed.
