From Coq Require Import ZArith List Lia Bool Arith.
From GCL Require Import Model.Gate.
Import ListNotations.
Open Scope Z_scope.

(* generic counting over the thread list *)
Fixpoint sumf (c : pc -> Z) (l : list pc) : Z :=
  match l with [] => 0 | p :: r => c p + sumf c r end.

Lemma sumf_app c l1 l2 : sumf c (l1 ++ l2) = sumf c l1 + sumf c l2.
Proof. induction l1 as [|p l1 IH]; cbn [sumf app]; lia. Qed.

Lemma sumf_upd c l i old p :
  nth_error l i = Some old -> sumf c (upd l i p) = sumf c l - c old + c p.
Proof.
  revert i; induction l as [|q l IH]; intros [|i] H; cbn in H; try discriminate.
  - inversion H; subst. cbn [upd sumf]. lia.
  - cbn [upd sumf]. rewrite (IH i H). lia.
Qed.

Lemma nth_upd_same l i old p : nth_error l i = Some old -> nth_error (upd l i p) i = Some p.
Proof.
  revert i; induction l as [|q l IH]; intros [|i] H; cbn in H; try discriminate; cbn; auto.
Qed.

Lemma nth_upd_other l i j p : i <> j -> nth_error (upd l i p) j = nth_error l j.
Proof.
  revert i j; induction l as [|q l IH]; intros [|i] [|j] H; cbn; try congruence; auto.
Qed.

Definition isH (p : pc) : Z := match p with Holding _ => 1 | _ => 0 end.
Definition isHle (v : Z) (p : pc) : Z := match p with Holding g => if g <=? v then 1 else 0 | _ => 0 end.
Definition inCS (p : pc) : bool := match p with Out | Holding _ => false | _ => true end.

(* owner thread's local knowledge is consistent with the global state *)
Definition local_ok (s : st) (p : pc) : Prop :=
  match p with
  | LoadedBusy b => busy s <= b
  | Decided b l => busy s <= b /\ b < l /\ l = limit s
  | Refusing b l => l <= b /\ l = limit s
  | _ => True
  end.

Definition Inv (s : st) : Prop :=
  busy s = sumf isH (thr s) /\
  (forall v, sumf (isHle v) (thr s) <= Z.max 0 v) /\
  (forall j p, nth_error (thr s) j = Some p -> inCS p = true -> owner s = Some j /\ local_ok s p) /\
  (forall i, owner s = Some i -> exists p, nth_error (thr s) i = Some p /\ inCS p = true).

Lemma isHle_le_isH v p : 0 <= isHle v p <= isH p.
Proof. destruct p as [| | | | |g]; cbn; try lia. destruct (g <=? v); lia. Qed.

Lemma sumf_le c d l : (forall p, c p <= d p) -> sumf c l <= sumf d l.
Proof. intros H; induction l; cbn; [lia| specialize (H a); lia]. Qed.

Lemma sumf_nonneg c l : (forall p, 0 <= c p) -> 0 <= sumf c l.
Proof. intros H; induction l; cbn; [lia| specialize (H a); lia]. Qed.

Lemma init_inv n l : Inv (init n l).
Proof.
  unfold Inv, init; cbn [busy thr owner limit].
  assert (Hz: forall c, c Out = 0 -> sumf c (repeat Out n) = 0).
  { intros c Hc. induction n; cbn; [reflexivity | rewrite Hc; assumption]. }
  repeat split.
  - symmetry; apply Hz; reflexivity.
  - intros v. rewrite Hz by reflexivity. lia.
  - apply nth_error_In in H. apply repeat_spec in H. subst p. discriminate.
  - apply nth_error_In in H. apply repeat_spec in H. subst p. discriminate.
  - intros i H; discriminate.
Qed.

Ltac inv_some := match goal with H : Some _ = Some _ |- _ => inversion H; subst; clear H end.

Lemma step_inv s a s' : Inv s -> step s a = Some s' -> Inv s'.
Proof.
  intros (Hb & Hc & Hcs & Hown) Hstep.
  destruct a as [i|i|i|i|i|i|i v]; cbn [step] in Hstep.
  - (* lock *)
    destruct (get (thr s) i) as [[| | | | |]|] eqn:Hg; try discriminate.
    destruct (owner s) eqn:Ho; try discriminate. inv_some.
    unfold get in Hg. unfold Inv; cbn [busy thr owner limit].
    repeat split.
    + rewrite (sumf_upd _ _ _ _ _ Hg). cbn. lia.
    + intros v. rewrite (sumf_upd _ _ _ _ _ Hg). cbn. specialize (Hc v). lia.
    + destruct (Nat.eq_dec i j) as [->|Hne].
      * reflexivity.
      * rewrite nth_upd_other in H by assumption. destruct (Hcs _ _ H H0) as [Hx _]. congruence.
    + destruct (Nat.eq_dec i j) as [->|Hne].
      * rewrite (nth_upd_same _ _ _ _ Hg) in H. inv_some. exact I.
      * rewrite nth_upd_other in H by assumption. destruct (Hcs _ _ H H0) as [Hx _]. congruence.
    + intros k Hk. inv_some. exists Locked. split; [eapply nth_upd_same; eauto | reflexivity].
  - (* load busy *)
    destruct (get (thr s) i) as [[| | | | |]|] eqn:Hg; try discriminate.
    destruct (owner_is s i) eqn:Hoi; try discriminate. inv_some.
    unfold get in Hg. unfold Inv; cbn [busy thr owner limit].
    unfold owner_is in Hoi. destruct (owner s) as [o|] eqn:Ho; try discriminate. apply Nat.eqb_eq in Hoi; subst o.
    repeat split.
    + rewrite (sumf_upd _ _ _ _ _ Hg). cbn. lia.
    + intros v. rewrite (sumf_upd _ _ _ _ _ Hg). cbn. specialize (Hc v). lia.
    + destruct (Nat.eq_dec i j) as [->|Hne]; [reflexivity|].
      rewrite nth_upd_other in H by assumption. destruct (Hcs _ _ H H0) as [Hx _]. congruence.
    + destruct (Nat.eq_dec i j) as [->|Hne].
      * rewrite (nth_upd_same _ _ _ _ Hg) in H. inv_some. cbn. lia.
      * rewrite nth_upd_other in H by assumption. destruct (Hcs _ _ H H0) as [Hx _]. congruence.
    + intros k Hk. inv_some. eexists. split; [eapply nth_upd_same; eauto | reflexivity].
  - (* load limit *)
    destruct (get (thr s) i) as [[| |b| | |]|] eqn:Hg; try discriminate.
    destruct (owner_is s i) eqn:Hoi; try discriminate. inv_some.
    unfold get in Hg. unfold Inv; cbn [busy thr owner limit].
    unfold owner_is in Hoi. destruct (owner s) as [o|] eqn:Ho; try discriminate. apply Nat.eqb_eq in Hoi; subst o.
    assert (Hloc: busy s <= b). { destruct (Hcs _ _ Hg eq_refl) as [_ Hl]. exact Hl. }
    assert (Hz: forall c, c (LoadedBusy b) = 0 -> (forall x y, c (Decided x y) = 0) -> (forall x y, c (Refusing x y) = 0) ->
       sumf c (upd (thr s) i (if b <? limit s then Decided b (limit s) else Refusing b (limit s))) = sumf c (thr s)).
    { intros c H1 H2 H3. rewrite (sumf_upd _ _ _ _ _ Hg). rewrite H1. destruct (b <? limit s); rewrite ?H2, ?H3; lia. }
    repeat split.
    + rewrite Hz; auto.
    + intros v. rewrite Hz; auto.
    + destruct (Nat.eq_dec i j) as [->|Hne]; [reflexivity|].
      rewrite nth_upd_other in H by assumption. destruct (Hcs _ _ H H0) as [Hx _]. congruence.
    + destruct (Nat.eq_dec i j) as [->|Hne].
      * rewrite (nth_upd_same _ _ _ _ Hg) in H. inv_some.
        destruct (b <? limit s) eqn:Hlt; cbn; [apply Z.ltb_lt in Hlt | apply Z.ltb_ge in Hlt]; lia.
      * rewrite nth_upd_other in H by assumption. destruct (Hcs _ _ H H0) as [Hx _]. congruence.
    + intros k Hk. inv_some. eexists. split; [eapply nth_upd_same; eauto |]. destruct (b <? limit s); reflexivity.
  - (* add *)
    destruct (get (thr s) i) as [[| | |b l| |]|] eqn:Hg; try discriminate.
    destruct (owner_is s i) eqn:Hoi; try discriminate. inv_some.
    unfold get in Hg. unfold Inv; cbn [busy thr owner limit].
    unfold owner_is in Hoi. destruct (owner s) as [o|] eqn:Ho; try discriminate. apply Nat.eqb_eq in Hoi; subst o.
    destruct (Hcs _ _ Hg eq_refl) as [_ (Hl1 & Hl2 & Hl3)].
    repeat split.
    + rewrite (sumf_upd _ _ _ _ _ Hg). cbn. lia.
    + intros v. rewrite (sumf_upd _ _ _ _ _ Hg). cbn [isHle].
      destruct (l <=? v) eqn:Hlv.
      * apply Z.leb_le in Hlv.
        assert (sumf (isHle v) (thr s) <= sumf isH (thr s)) by (apply sumf_le; intros p; apply isHle_le_isH).
        lia.
      * specialize (Hc v). lia.
    + destruct (Nat.eq_dec i j) as [->|Hne].
      * rewrite (nth_upd_same _ _ _ _ Hg) in H. inv_some. discriminate.
      * rewrite nth_upd_other in H by assumption. destruct (Hcs _ _ H H0) as [Hx _]. congruence.
    + destruct (Nat.eq_dec i j) as [->|Hne].
      * rewrite (nth_upd_same _ _ _ _ Hg) in H. inv_some. discriminate.
      * rewrite nth_upd_other in H by assumption. destruct (Hcs _ _ H H0) as [Hx _]. congruence.
    + intros k Hk; discriminate.
  - (* refuse *)
    destruct (get (thr s) i) as [[| | | |b l|]|] eqn:Hg; try discriminate.
    destruct (owner_is s i) eqn:Hoi; try discriminate. inv_some.
    unfold get in Hg. unfold Inv; cbn [busy thr owner limit].
    unfold owner_is in Hoi. destruct (owner s) as [o|] eqn:Ho; try discriminate. apply Nat.eqb_eq in Hoi; subst o.
    repeat split.
    + rewrite (sumf_upd _ _ _ _ _ Hg). cbn. lia.
    + intros v. rewrite (sumf_upd _ _ _ _ _ Hg). cbn. specialize (Hc v). lia.
    + destruct (Nat.eq_dec i j) as [->|Hne].
      * rewrite (nth_upd_same _ _ _ _ Hg) in H. inv_some. discriminate.
      * rewrite nth_upd_other in H by assumption. destruct (Hcs _ _ H H0) as [Hx _]. congruence.
    + destruct (Nat.eq_dec i j) as [->|Hne].
      * rewrite (nth_upd_same _ _ _ _ Hg) in H. inv_some. discriminate.
      * rewrite nth_upd_other in H by assumption. destruct (Hcs _ _ H H0) as [Hx _]. congruence.
    + intros k Hk; discriminate.
  - (* release *)
    destruct (get (thr s) i) as [[| | | | |g]|] eqn:Hg; try discriminate. inv_some.
    unfold get in Hg. unfold Inv; cbn [busy thr owner limit].
    repeat split.
    + rewrite (sumf_upd _ _ _ _ _ Hg). cbn. lia.
    + intros v. rewrite (sumf_upd _ _ _ _ _ Hg). cbn [isHle]. specialize (Hc v). destruct (g <=? v); lia.
    + destruct (Nat.eq_dec i j) as [->|Hne].
      * rewrite (nth_upd_same _ _ _ _ Hg) in H. inv_some. discriminate.
      * rewrite nth_upd_other in H by assumption. destruct (Hcs _ _ H H0) as [Hx _]. exact Hx.
    + destruct (Nat.eq_dec i j) as [->|Hne].
      * rewrite (nth_upd_same _ _ _ _ Hg) in H. inv_some. discriminate.
      * rewrite nth_upd_other in H by assumption. destruct (Hcs _ _ H H0) as [_ Hl].
        destruct p; cbn in *; try exact I; lia.
    + intros k Hk. destruct (Hown _ Hk) as (p & Hp & Hin).
      destruct (Nat.eq_dec i k) as [->|Hne].
      * rewrite Hg in Hp. inv_some. discriminate.
      * exists p. split; [rewrite nth_upd_other by assumption; exact Hp | exact Hin].
  - (* set limit: requires mutex free, so no thread is in the critical section *)
    assert (Hnone: owner s = None -> forall j p, nth_error (thr s) j = Some p -> inCS p = false).
    { intros Ho j p Hp. destruct (inCS p) eqn:E; [|reflexivity]. destruct (Hcs _ _ Hp E) as [Hx _]. congruence. }
    assert (Hgoal: owner s = None -> forall v', Inv {| busy := busy s; limit := v'; owner := None; thr := thr s |}).
    { intros Ho v'. unfold Inv; cbn [busy thr owner limit]. repeat split; auto.
      + rewrite (Hnone Ho _ _ H) in H0; discriminate.
      + rewrite (Hnone Ho _ _ H) in H0; discriminate.
      + intros k Hk; discriminate. }
    destruct (get (thr s) i) as [[| | | | |g]|] eqn:Hg; try discriminate;
    destruct (owner s) eqn:Ho; try discriminate; inv_some; apply Hgoal; reflexivity.
Qed.

Theorem inv_reachable n l s : reachable n l s -> Inv s.
Proof. induction 1; [apply init_inv | eapply step_inv; eauto]. Qed.

(* held tokens never exceed the largest limit in force when a current holder was granted *)
Theorem no_over_admission n l s v :
  reachable n l s -> (forall j g, nth_error (thr s) j = Some (Holding g) -> g <= v) -> 0 <= v ->
  busy s = sumf isH (thr s) /\ busy s <= v.
Proof.
  intros Hr Hall Hv. destruct (inv_reachable _ _ _ Hr) as (Hb & Hc & _).
  split; [exact Hb|]. specialize (Hc v). rewrite Hb.
  assert (sumf isH (thr s) = sumf (isHle v) (thr s)).
  { clear - Hall. induction (thr s) as [|p r IH]; [reflexivity|].
    cbn [sumf]. rewrite IH. 2:{ intros j g Hj. apply (Hall (S j) g). exact Hj. }
    destruct p as [| | | | |g]; cbn [isH isHle]; try lia.
    assert (Hg: g <= v) by (apply (Hall O g); reflexivity). apply Z.leb_le in Hg. rewrite Hg. lia. }
  lia.
Qed.


(* the decision of every in-progress Acquire is the one an atomic gate makes at the instant it loaded the counter:
   a call about to be granted loaded busy = b < l = the limit in force (which cannot change until it returns, and busy can
   only have dropped since); a call about to be refused loaded b >= l = the limit in force *)
Theorem gate_decision n l s j p : reachable n l s -> nth_error (thr s) j = Some p ->
  match p with
  | Decided b lim => lim = limit s /\ b < lim /\ busy s <= b
  | Refusing b lim => lim = limit s /\ lim <= b
  | _ => True
  end.
Proof.
  intros Hr Hj. destruct (inv_reachable _ _ _ Hr) as (_ & _ & Hcs & _).
  destruct p as [| |b|b lim|b lim|g]; try exact I.
  - destruct (Hcs j _ Hj eq_refl) as [_ L]. cbn in L. tauto.
  - destruct (Hcs j _ Hj eq_refl) as [_ L]. cbn in L. tauto.
Qed.

Fixpoint run (s : st) (ls : list label) : option st :=
  match ls with [] => Some s | a :: r => match step s a with Some s' => run s' r | None => None end end.
Lemma run_reachable n l ls : forall s s', reachable n l s -> run s ls = Some s' -> reachable n l s'.
Proof.
  induction ls as [|a r IH]; intros s s' Hr H; cbn in H.
  - inversion H; subst. exact Hr.
  - destruct (step s a) as [s1|] eqn:E; [|discriminate]. eapply IH; [|exact H]. eapply r_step; eauto.
Qed.
