(* C06 for Gradient: a drop sample never raises the stored estimate (hence never the reported one), from every state whose estimate is
   at least the smallest queue allowance 4 - the states below it are only reachable by constructing the limit with initial < 4 (known finding F5). *)
From Coq Require Import ZArith Reals Lia Lra Psatz Bool List.
From Flocq Require Import Core BinarySingleNaN.
From GCL Require Import Base.F64 Base.F64Facts Proofs.Smooth Model.Measure Model.Limits Proofs.VegasSafe Proofs.AimdProofs Proofs.GradSafe Proofs.Grad2Safe.
Import ListNotations.
Open Scope R_scope.

Lemma drop_ineq e s d : 1 <= e <= 2147483648 -> / 1125899906842624 <= s <= 1 -> 0 < d <= / 1000000000000000000000000000000 ->
  ((e*((1-s)*(1+u)+d)*(1+u)+d) + (s*((e/2)*(1+u)+d)*(1+u)+d))*(1+u)+d <= e.
Proof.
  intros He Hs Hd. set (k := 1 + u). assert (K: k = 1 + / 9007199254740992) by reflexivity.
  assert (P: (1-s)*k*k*k + (s/2)*k*k*k <= 1 - /20000000000000000) by (rewrite K; nra).
  assert (Q: d*k*k <= 2*d) by (rewrite K; nra).
  assert (K1: 1 <= k <= 2) by (rewrite K; lra).
  replace (((e*((1-s)*k+d)*k+d) + (s*((e/2)*k+d)*k+d))*k+d)
     with (e * ((1-s)*k*k*k + (s/2)*k*k*k) + e * (d*k*k) + s * (d*k*k) + d*k + d*k + d) by (unfold Rdiv; ring).
  assert (T1: e * ((1-s)*k*k*k + (s/2)*k*k*k) <= e * (1 - /20000000000000000)) by (apply Rmult_le_compat_l; lra).
  assert (T2: e * (d*k*k) <= e * (2*d)) by (apply Rmult_le_compat_l; lra).
  assert (T3: s * (d*k*k) <= 1 * (2*d)) by (apply Rmult_le_compat; nra).
  assert (T4: e * (2*d) <= e * / 400000000000000000000000000000) by (apply Rmult_le_compat_l; lra).
  assert (T5: d * k <= d * 2) by (apply Rmult_le_compat_l; lra).
  assert (T6: e * / 20000000000000000 >= / 20000000000000000) by nra.
  nra.
Qed.

Lemma to_int_le x : fin x = true -> 0 <= R x <= 4611686018427387904 -> IZR (to_int x) <= R x.
Proof.
  intros Fx Bx. rewrite to_int_trunc; [|exact Fx|].
  - rewrite Ztrunc_floor by lra. apply Zfloor_lb.
  - rewrite Ztrunc_floor by lra. split.
    + apply Z.le_trans with 0%Z; [lia|]. apply Zfloor_lub. simpl. lra.
    + apply Z.le_lt_trans with (2^62)%Z; [|lia]. apply Zfloor_le_of. simpl. lra.
Qed.

Theorem grad_drop_nonincrease g Mx s o : GInv g Mx -> gsample_ok s -> s_drop s = true ->
  / 1125899906842624 <= R (g_s g) ->        (* smoothing >= 2^-50 *)
  4 <= R (g_est g) ->                        (* the estimate is not below the smallest queue allowance *)
  grad_step g s = Some o -> R (g_est (o_st o)) <= R (g_est g).
Proof.
  intros HI HS Hd Hs H4. pose proof (Mx_b g Mx HI) as MB. pose proof (gest_int g Mx HI) as EI.
  destruct HI as (C & Fe & Be & Fn & Bn). destruct HS as [Hr Hi]. destruct C as [cM cmin cmax cmm csf cs ctf ct].
  unfold grad_step. destruct (sqrt_q_ok (to_int (g_est g))) as (q & Eq & Bq); [lia|]. rewrite Eq, Hd. cbv zeta.
  assert (Hq: (4 <= q <= Mx)%Z) by lia.
  destruct (of_int_exact q) as [Fq Rq]; [lia|]. destruct (of_int_exact (g_min g)) as [Fmn Rmn]; [lia|].
  assert (E0: 0 <= R (g_est g) <= 4611686018427387904) by lra.
  assert (Qe: IZR q <= R (g_est g)).
  { pose proof (to_int_le _ Fe E0) as T. assert (IZR q <= IZR (Z.max 4 (to_int (g_est g)))) by (apply IZR_le; lia).
    destruct (Z.max_spec 4 (to_int (g_est g))) as [[_ ->]|[_ ->]] in H; simpl in H; lra. }
  destruct (negb (g_int g =? -1) && _).
  { intros H; injection H as H; subst o. cbn [o_st mk grad_set g_est]. destruct (fmax_ok _ _ Fmn Fq) as [F E]. rewrite E, Rmn, Rq. apply Rmax_lub; lra. }
  intros H; injection H as H; subst o. cbn [o_st mk grad_set g_est].
  (* halving *)
  assert (Ftwo: fin two = true /\ R two = 2) by (apply (of_int_exact 2); reflexivity). destruct Ftwo as [F2 E2].
  destruct (div_ok (g_est g) two Fe F2) as [Fh Eh]; [rewrite E2; lra|rewrite E2; apply bpow1000_big; apply Rabs_le; split; lra|]. rewrite E2 in Eh.
  set (nl := div (g_est g) two) in *.
  assert (Bh: 0 <= R nl <= R (g_est g) / 2 * (1 + u) + dd /\ R nl <= R (g_est g)).
  { rewrite Eh. split; [split; [apply rnd_nonneg; lra|apply rnd_up; lra]|].
    apply Rle_trans with (rnd (R (g_est g))); [apply rnd_mono; lra|rewrite rnd_id; [lra|apply fmt_R]]. }
  destruct Bh as [Bh1 Bh2].
  (* smoothing *)
  destruct R_one as [Fo Eo]. pose proof dd_small as [D0 D1]. pose proof u_pos as U0.
  destruct (sub_ok one (g_s g) Fo csf) as [Fw Ew]; [rewrite Eo; apply bpow1000_big; apply Rabs_le; split; lra|]. rewrite Eo in Ew.
  assert (Bw: 0 <= R (sub one (g_s g)) <= (1 - R (g_s g)) * (1 + u) + dd) by (rewrite Ew; split; [apply rnd_nonneg; lra|apply rnd_up; lra]).
  assert (W1: R (sub one (g_s g)) <= 1) by (rewrite Ew; apply (rnd_le_int _ 1); [reflexivity|simpl; lra]).
  destruct (mul_ok _ _ Fe Fw) as [Fa Ea].
  { apply bpow1000_big. apply Rabs_le. assert (0 <= R (g_est g) * R (sub one (g_s g))) by (apply Rmult_le_pos; lra).
    assert (R (g_est g) * R (sub one (g_s g)) <= 2147483648 * 1) by (apply Rmult_le_compat; lra). split; lra. }
  destruct (mul_ok _ _ csf Fh) as [Fb Eb].
  { apply bpow1000_big. apply Rabs_le. assert (0 <= R (g_s g) * R nl) by (apply Rmult_le_pos; lra).
    assert (R (g_s g) * R nl <= 1 * 2147483648) by (apply Rmult_le_compat; lra). split; lra. }
  assert (A1: 0 <= R (mul (g_est g) (sub one (g_s g))) <= R (g_est g) * ((1 - R (g_s g)) * (1 + u) + dd) * (1 + u) + dd).
  { rewrite Ea. assert (P: 0 <= R (g_est g) * R (sub one (g_s g))) by (apply Rmult_le_pos; lra).
    split; [now apply rnd_nonneg|]. apply Rle_trans with (1 := rnd_up _ P). apply Rplus_le_compat_r. apply Rmult_le_compat_r; [lra|].
    apply Rmult_le_compat_l; lra. }
  assert (B1: 0 <= R (mul (g_s g) nl) <= R (g_s g) * (R (g_est g) / 2 * (1 + u) + dd) * (1 + u) + dd).
  { rewrite Eb. assert (P: 0 <= R (g_s g) * R nl) by (apply Rmult_le_pos; lra).
    split; [now apply rnd_nonneg|]. apply Rle_trans with (1 := rnd_up _ P). apply Rplus_le_compat_r. apply Rmult_le_compat_r; [lra|].
    apply Rmult_le_compat_l; lra. }
  assert (A2: R (mul (g_est g) (sub one (g_s g))) <= 2147483648).
  { rewrite Ea. apply (rnd_le_int _ 2147483648); [reflexivity|]. apply Rle_trans with (2147483648 * 1); [apply Rmult_le_compat; lra|simpl; lra]. }
  assert (B2: R (mul (g_s g) nl) <= 2147483648).
  { rewrite Eb. apply (rnd_le_int _ 2147483648); [reflexivity|]. apply Rle_trans with (1 * 2147483648); [apply Rmult_le_compat; lra|simpl; lra]. }
  destruct (add_ok _ _ Fa Fb) as [Fc Ec]; [apply bpow1000_big; apply Rabs_le; split; lra|].
  assert (Sm: R (add (mul (g_est g) (sub one (g_s g))) (mul (g_s g) nl)) <= R (g_est g)).
  { rewrite Ec. apply Rle_trans with ((R (mul (g_est g) (sub one (g_s g))) + R (mul (g_s g) nl)) * (1 + u) + dd); [apply rnd_up; lra|].
    apply Rle_trans with (((R (g_est g) * ((1 - R (g_s g)) * (1 + u) + dd) * (1 + u) + dd) + (R (g_s g) * (R (g_est g) / 2 * (1 + u) + dd) * (1 + u) + dd)) * (1 + u) + dd).
    { apply Rplus_le_compat_r. apply Rmult_le_compat_r; lra. }
    apply drop_ineq; lra. }
  (* candidate after the (optional) smoothing is <= est; so is the final clamp since q <= est *)
  assert (N1: let newl1 := if flt nl (g_est g) then fmax (of_int (g_min g)) (add (mul (g_est g) (sub one (g_s g))) (mul (g_s g) nl)) else nl in
              fin newl1 = true /\ R newl1 <= R (g_est g)).
  { destruct (flt nl (g_est g)); [|split; assumption]. destruct (fmax_ok _ _ Fmn Fc) as [F E]. split; [exact F|]. rewrite E, Rmn. apply Rmax_lub; lra. }
  destruct N1 as [F1 B1']. destruct (of_int_exact (g_max g)) as [Fm Em]; [lia|].
  destruct (fmin_ok _ _ Fm F1) as [F3 E3]. destruct (fmax_ok _ _ Fq F3) as [F4 E4]. refine (Rle_trans _ _ _ (Req_le _ _ E4) _). rewrite E3, Rq.
  apply Rmax_lub; [exact Qe|]. apply Rle_trans with (1 := Rmin_r _ _). exact B1'.
Qed.
