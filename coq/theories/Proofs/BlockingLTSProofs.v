From Coq Require Import ZArith List Lia Bool Arith.
From GCL Require Import Model.BlockingLTS.
Import ListNotations.
Open Scope Z_scope.
(* C10 refuted on the faithful model: lost wake-up *)
Theorem C10_blocking_refuted :
  exists sched s', run {| busy := 1; limit := 1; thr := [Holding; Idle] |} sched = Some s' /\ stranded s' = true.
Proof. exists [LTry 1%nat; LRel 0%nat; LBcast 0%nat; LSleep 1%nat]. eexists. split; [vm_compute; reflexivity | vm_compute; reflexivity]. Qed.

(* Partial: schedules in which no Broadcast happens while some caller is in the window (Parked) *)
Definition no_window (s : st) (a : label) : bool :=
  match a with LBcast _ => negb (existsb (fun p => match p with Parked => true | _ => false end) (thr s)) | _ => true end.

Inductive reach_nw (s0 : st) : st -> Prop :=
| rn0 : reach_nw s0 s0
| rn1 s a s' : reach_nw s0 s -> no_window s a = true -> step s a = Some s' -> reach_nw s0 s'.

Definition cnt (f : pc -> bool) (l : list pc) : Z := Z.of_nat (length (filter f l)).
Definition isRel p := match p with Releasing => true | _ => false end.
Definition isSlp p := match p with Asleep | Parked => true | _ => false end.

Definition Inv (s : st) : Prop :=
  busy s < limit s -> existsb isSlp (thr s) = true -> existsb isRel (thr s) = true.

Lemma existsb_upd f l i old p :
  nth_error l i = Some old ->
  existsb f (upd l i p) = true -> f p = true \/ existsb f l = true.
Proof.
  revert i; induction l as [|q l IH]; intros [|i] H; cbn in H; try discriminate; cbn.
  - inversion H; subst. intros E. apply orb_true_iff in E as [E|E]; [left; exact E | right; rewrite E; apply orb_true_r].
  - intros E. apply orb_true_iff in E as [E|E]; [right; rewrite E; reflexivity|].
    destruct (IH _ H E) as [A|A]; [left; exact A | right; rewrite A; apply orb_true_r].
Qed.

Lemma existsb_upd_intro f l i old p :
  nth_error l i = Some old -> f p = true -> existsb f (upd l i p) = true.
Proof.
  revert i; induction l as [|q l IH]; intros [|i] H Hp; cbn in H; try discriminate; cbn.
  - rewrite Hp; reflexivity.
  - rewrite (IH _ H Hp). apply orb_true_r.
Qed.

Lemma existsb_upd_keep f l i old p :
  nth_error l i = Some old -> f old = false -> existsb f l = true -> existsb f (upd l i p) = true.
Proof.
  revert i; induction l as [|q l IH]; intros [|i] H Ho E; cbn in H; try discriminate; cbn in *.
  - inversion H; subst. rewrite Ho in E. cbn in E. rewrite E. apply orb_true_r.
  - apply orb_true_iff in E as [E|E]; [rewrite E; reflexivity|]. rewrite (IH _ H Ho E). apply orb_true_r.
Qed.

Lemma wake_no_sleepers l : existsb (fun p => match p with Parked => true | _ => false end) l = false ->
  existsb isSlp (map wake l) = false.
Proof.
  induction l as [|p l IH]; cbn; [reflexivity|]. intros H. apply orb_false_iff in H as [H1 H2].
  rewrite (IH H2). destruct p; cbn in *; try reflexivity; discriminate.
Qed.

Lemma upd_parked_free l i p :
  existsb (fun p => match p with Parked => true | _ => false end) l = false ->
  match p with Parked => False | _ => True end ->
  existsb (fun p => match p with Parked => true | _ => false end) (upd l i p) = false.
Proof.
  revert i; induction l as [|q l IH]; intros i H Hp; cbn in *; [reflexivity|].
  apply orb_false_iff in H as [H1 H2]. destruct i; cbn.
  - rewrite H2. destruct p; try reflexivity; contradiction.
  - rewrite H1, (IH _ H2 Hp). reflexivity.
Qed.

Lemma step_inv s a s' : Inv s -> no_window s a = true -> step s a = Some s' -> Inv s'.
Proof.
  unfold Inv. intros HI Hnw Hs. destruct a as [i|i|i|i]; cbn [step] in Hs.
  - destruct (nth_error (thr s) i) as [p|] eqn:Hg; try discriminate.
    assert (Hp: p = Idle \/ p = Woken) by (destruct p; try discriminate; auto).
    assert (Hps: isSlp p = false /\ isRel p = false) by (destruct Hp; subst; split; reflexivity).
    destruct (busy s <? limit s) eqn:Hlt; destruct Hp; subst p; inversion Hs; subst; clear Hs; cbn [busy limit thr];
      intros Hb He.
    + apply Z.ltb_lt in Hlt. eapply existsb_upd_keep; eauto. apply HI; [lia|].
      destruct (existsb_upd _ _ _ _ _ Hg He) as [A|A]; [discriminate|exact A].
    + apply Z.ltb_lt in Hlt. eapply existsb_upd_keep; eauto. apply HI; [lia|].
      destruct (existsb_upd _ _ _ _ _ Hg He) as [A|A]; [discriminate|exact A].
    + apply Z.ltb_ge in Hlt. lia.
    + apply Z.ltb_ge in Hlt. lia.
  - destruct (nth_error (thr s) i) as [[]|] eqn:Hg; try discriminate. inversion Hs; subst; clear Hs; cbn [busy limit thr].
    intros Hb He. eapply existsb_upd_keep; eauto. apply HI; [exact Hb|].
    clear - Hg. revert i Hg. induction (thr s) as [|q l IH]; intros [|i] H; cbn in H; try discriminate; cbn.
    + inversion H; reflexivity.
    + rewrite (IH _ H). apply orb_true_r.
  - destruct (nth_error (thr s) i) as [[]|] eqn:Hg; try discriminate. inversion Hs; subst; clear Hs; cbn [busy limit thr].
    intros _ _. eapply existsb_upd_intro; eauto.
  - destruct (nth_error (thr s) i) as [[]|] eqn:Hg; try discriminate. inversion Hs; subst; clear Hs; cbn [busy limit thr].
    intros _ He. cbn in Hnw. apply negb_true_iff in Hnw.
    rewrite wake_no_sleepers in He; [discriminate|]. apply upd_parked_free; [exact Hnw | exact I].
Qed.

Theorem C10_blocking_partial s0 s :
  Inv s0 -> reach_nw s0 s -> stranded s = false.
Proof.
  intros H0 Hr. assert (HI: Inv s) by (induction Hr; [assumption | eapply step_inv; eauto]).
  unfold stranded. destruct (settled s) eqn:Hs; [|reflexivity]. cbn.
  destruct (busy s <? limit s) eqn:Hlt; [|reflexivity]. cbn.
  destruct (existsb (fun p => match p with Asleep => true | _ => false end) (thr s)) eqn:Ha; [|reflexivity].
  exfalso. apply Z.ltb_lt in Hlt.
  assert (existsb isSlp (thr s) = true).
  { clear - Ha. induction (thr s) as [|p l IH]; cbn in *; [discriminate|].
    apply orb_true_iff in Ha as [A|A]; [destruct p; try discriminate; reflexivity | rewrite (IH A); apply orb_true_r]. }
  specialize (HI Hlt H). unfold settled in Hs. apply negb_true_iff in Hs.
  clear - HI Hs. induction (thr s) as [|p l IH]; cbn in *; [discriminate|].
  apply orb_false_iff in Hs as [S1 S2]. apply orb_true_iff in HI as [A|A]; [destruct p; discriminate | auto].
Qed.
Example nonvacuous : Inv {| busy := 1; limit := 1; thr := [Holding; Idle; Idle] |}.
Proof. unfold Inv; cbn. lia. Qed.
