(* C06 lifted to histories: after ANY sample history from a state satisfying the safety invariant, a drop sample does not raise
   the reported estimate (Vegas: every state; Gradient: every state whose estimate is at least the smallest queue allowance 4,
   a condition that every update establishes and every step preserves). *)
From Coq Require Import ZArith Reals Lia Lra Psatz Bool List.
From Flocq Require Import Core BinarySingleNaN.
From GCL Require Import Base.F64 Base.F64Facts Proofs.Smooth Model.Measure Model.Limits Proofs.VegasSafe Proofs.AimdProofs Proofs.GradSafe Proofs.Grad2Safe Proofs.GradDrop Proofs.VegasDrop.
Import ListNotations.
Open Scope R_scope.

Lemma fmax_ge_l x y : fin x = true -> fin (fmax x y) = true -> R x <= R (fmax x y).
Proof.
  intros Fx Fm. destruct (fin y) eqn:Fy.
  - destruct (fmax_ok x y Fx Fy) as [_ E]. rewrite E. apply Rmax_l.
  - destruct y as [sy|sy| |sy my ey Hy]; try discriminate.
    + destruct sy.
      * assert (E: fmax x (B754_infinity true) = x); [|rewrite E; lra].
        destruct x as [sx|sx| |sx mx ex Hx]; try discriminate; try destruct sx; reflexivity.
      * exfalso. destruct x as [sx|sx| |sx mx ex Hx]; try discriminate; try destruct sx; cbn in Fm; discriminate.
    + exfalso. destruct x as [sx|sx| |sx mx ex Hx]; try discriminate; try destruct sx; cbn in Fm; discriminate.
Qed.

(* ---------- Vegas ---------- *)
Lemma vegas_run_inv v M l v' : VInv v M -> Forall sample_ok l -> vegas_run v l = Some v' -> VInv v' M.
Proof.
  intros HI HS E. destruct (vegas_run_safe v M l HI HS) as (v'' & E' & I' & _). rewrite E in E'. injection E' as <-. exact I'.
Qed.

Theorem vegas_drop_after_any_history v M pre v' s o :
  VInv v M -> Forall sample_ok pre -> vegas_run v pre = Some v' ->
  sample_ok s -> s_drop s = true -> vegas_step v' s = Some o ->
  (vegas_est (o_st o) <= vegas_est v')%Z.
Proof.
  intros HI HP ER HS Hd Eo. apply (vegas_drop_nonincrease v' M s o); auto. eapply vegas_run_inv; eauto.
Qed.

(* a run of drops is monotone: the reported estimates form a non-increasing sequence *)
Fixpoint vegas_trace (v : vegas) (l : list sample) : list Z :=
  match l with
  | nil => [vegas_est v]
  | s :: r => vegas_est v :: match vegas_step v s with Some o => vegas_trace (o_st o) r | None => nil end
  end.

Fixpoint nonincreasing (l : list Z) : Prop :=
  match l with
  | a :: ((b :: _) as r) => (b <= a)%Z /\ nonincreasing r
  | _ => True
  end.

Theorem vegas_drop_run_monotone M l : forall v, VInv v M -> Forall (fun s => sample_ok s /\ s_drop s = true) l ->
  nonincreasing (vegas_trace v l).
Proof.
  induction l as [|s r IH]; intros v HI HL; [exact I|].
  inversion HL as [|? ? [Hs Hd] Hr]; subst. cbn [vegas_trace].
  destruct (vegas_step_safe v M s HI Hs) as (o & Eo & Io). rewrite Eo.
  pose proof (proj1 (vegas_drop_nonincrease v M s o HI Hs Hd Eo)) as Le.
  specialize (IH (o_st o) Io Hr). destruct r as [|s2 r2]; cbn [vegas_trace] in *; split; auto.
Qed.

(* ---------- Gradient ---------- *)
Lemma grad_step_ge4 g Mx s o : GInv g Mx -> gsample_ok s -> 4 <= R (g_est g) ->
  grad_step g s = Some o -> 4 <= R (g_est (o_st o)).
Proof.
  intros HI HS H4 H. destruct (grad_step_safe g Mx s HI HS) as (o' & E' & I'). rewrite H in E'. injection E' as <-.
  destruct I' as (_ & Fin & _). pose proof (gest_int g Mx HI) as EI. destruct HI as (C & Fe & Be & Fn & Bn). destruct C as [cM cmin cmax cmm csf cs ctf ct].
  revert H Fin. unfold grad_step. destruct (sqrt_q_ok (to_int (g_est g))) as (q & Eq & Bq); [lia|]. rewrite Eq. cbv beta zeta.
  destruct (of_int_exact q) as [Fq Rq]; [lia|].
  assert (Q4: 4 <= IZR q) by (apply (IZR_le 4); lia).
  destruct (negb (g_int g =? -1) && _).
  { intros H Fin; injection H as H; subst o. cbn [o_st mk grad_set g_est] in *.
    destruct (of_int_exact (g_min g)) as [Fmn Rmn]; [lia|]. destruct (fmax_ok _ _ Fmn Fq) as [_ E]. rewrite E, Rq.
    apply Rle_trans with (1 := Q4). apply Rmax_r. }
  destruct (s_drop s).
  { intros H Fin; injection H as H; subst o. cbn [o_st mk grad_set g_est] in *.
    apply Rle_trans with (1 := Q4). rewrite <- Rq. apply fmax_ge_l; auto. }
  destruct (flt (of_int (s_inflight s)) (div (g_est g) two)).
  { intros H Fin; injection H as H; subst o. cbn [o_st mk grad_set g_est] in *. exact H4. }
  intros H Fin; injection H as H; subst o. cbn [o_st mk grad_set g_est] in *.
  apply Rle_trans with (1 := Q4). rewrite <- Rq. apply fmax_ge_l; auto.
Qed.

Lemma grad_step_cfg g s o : grad_step g s = Some o -> g_s (o_st o) = g_s g.
Proof.
  unfold grad_step. destruct (sqrt_q _); [|discriminate]. cbv beta zeta.
  repeat match goal with |- context [if ?c then _ else _] => destruct c end; intros H; injection H as H; subst o; reflexivity.
Qed.

Definition GD (g : grad) (Mx : Z) : Prop := GInv g Mx /\ 4 <= R (g_est g) /\ / 1125899906842624 <= R (g_s g).

Lemma grad_run_GD Mx l : forall g g', GD g Mx -> Forall gsample_ok l -> grad_run g l = Some g' -> GD g' Mx.
Proof.
  induction l as [|s r IH]; intros g g' (HI & H4 & Hs) HL E; cbn [grad_run] in E.
  - injection E as <-. exact (conj HI (conj H4 Hs)).
  - inversion HL as [|? ? Hs1 Hr]; subst. destruct (grad_step_safe g Mx s HI Hs1) as (o & Eo & Io). rewrite Eo in E.
    apply (IH (o_st o) g'); auto. split; [exact Io|split].
    + exact (grad_step_ge4 g Mx s o HI Hs1 H4 Eo).
    + rewrite (grad_step_cfg g s o Eo). exact Hs.
Qed.

Theorem grad_drop_after_any_history g Mx pre g' s o :
  GD g Mx -> Forall gsample_ok pre -> grad_run g pre = Some g' ->
  gsample_ok s -> s_drop s = true -> grad_step g' s = Some o ->
  (grad_est (o_st o) <= grad_est g')%Z.
Proof.
  intros HG HP ER HS Hd Eo. destruct (grad_run_GD Mx pre g g' HG HP ER) as (HI & H4 & Hs).
  pose proof (grad_drop_nonincrease g' Mx s o HI HS Hd Hs H4 Eo) as Le.
  destruct (grad_step_safe g' Mx s HI HS) as (o' & E' & I'). rewrite Eo in E'. injection E' as <-.
  destruct HI as (C & Fe & Be & _). destruct I' as (C' & Fe' & Be' & _). destruct C as [cM cmin cmax cmm csf cs ctf ct].
  unfold grad_est. apply to_int_mono; auto; try lra.
  - apply Rle_trans with (IZR (g_min (o_st o))); [apply (IZR_le 0); destruct C'; lia|tauto].
  - apply Rle_trans with (IZR Mx); [tauto|]. apply Rle_trans with 2147483648; [apply (IZR_le _ 2147483648); lia|lra].
Qed.
