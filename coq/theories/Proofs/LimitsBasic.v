(* Structural theorems about the limit models that need no floating-point analysis:
   notifications (C16), demand-gating (C07), baseline membership (C15), Gradient probe period (C15). *)
From Coq Require Import ZArith List Bool Lia.
From Flocq Require Import Core BinarySingleNaN.
From GCL Require Import Base.F64 Model.Measure Model.Limits.
Import ListNotations.
Open Scope Z_scope.

(* ------------------------------------------------------------------ C16 *)
(* "notified consistently": whatever a step delivers ends with the estimate reported after the step,
   and a step that delivers nothing leaves the reported estimate unchanged. *)
Definition notif_ok (before after : Z) (n : list Z) : Prop :=
  match n with [] => after = before | _ => last n 0 = after end.

Lemma aimd_notif a s : notif_ok (aimd_est a) (aimd_est (o_st (aimd_step a s))) (o_notify (aimd_step a s)).
Proof. unfold aimd_step. destruct (s_drop s); [reflexivity|]. destruct (_ <=? _); reflexivity. Qed.

Lemma vegas_notif v s o : vegas_step v s = Some o -> notif_ok (vegas_est v) (vegas_est (o_st o)) (o_notify o).
Proof.
  unfold vegas_step, vegas_update. intros H.
  repeat match type of H with
  | (if ?c then _ else _) = _ => destruct c
  | (match ?c with Some _ => _ | None => _ end) = _ => destruct c
  | (let _ := _ in _) = _ => cbv zeta in H
  | Some _ = Some _ => inversion H; subst; clear H; try reflexivity
  | None = Some _ => discriminate
  end.
Qed.

Lemma grad_notif v s o : grad_step v s = Some o -> notif_ok (grad_est v) (grad_est (o_st o)) (o_notify o).
Proof.
  unfold grad_step. intros H. destruct (sqrt_q _); [|discriminate]. cbv zeta in H.
  repeat match type of H with
  | (if ?c then _ else _) = _ => destruct c
  | Some _ = Some _ => inversion H; subst; clear H; try reflexivity
  end.
Qed.

Lemma grad2_notif v s : notif_ok (grad2_est v) (grad2_est (o_st (grad2_step v s))) (o_notify (grad2_step v s)).
Proof. unfold grad2_step. cbv zeta. destruct (flt _ _); reflexivity. Qed.

Lemma algo_notif a s o : algo_step a s = Some o -> notif_ok (algo_est a) (algo_est (o_st o)) (o_notify o).
Proof.
  destruct a as [x|x|x|x|l|l]; cbn [algo_step]; intros H.
  - inversion H; subst. apply aimd_notif.
  - destruct (vegas_step x s) eqn:E; [|discriminate]. inversion H; subst. cbn. exact (vegas_notif _ _ _ E).
  - destruct (grad_step x s) eqn:E; [|discriminate]. inversion H; subst. cbn. exact (grad_notif _ _ _ E).
  - inversion H; subst. apply grad2_notif.
  - inversion H; subst. reflexivity.
  - inversion H; subst. reflexivity.
Qed.

(* wrappers: the windowed limit reports its delegate's estimate, delivers exactly the delegate's notifications,
   and forwards to the delegate only when a window closes *)
Lemma windowed_notif w s o : windowed_step w s = Some o ->
  notif_ok (algo_est (wd_inner w)) (algo_est (wd_inner (o_st o))) (o_notify o).
Proof.
  unfold windowed_step. cbv zeta. intros H. destruct (_ <? _); [inversion H; subst; reflexivity|].
  destruct (_ && _).
  - destruct (algo_step _ _) eqn:E; [|discriminate]. inversion H; subst. cbn. exact (algo_notif _ _ _ E).
  - inversion H; subst. reflexivity.
Qed.

Theorem any_notif l s o : any_step l s = Some o -> notif_ok (any_est l) (any_est (o_st o)) (o_notify o).
Proof.
  destruct l as [a|w]; cbn [any_step]; intros H.
  - destruct (algo_step a s) eqn:E; [|discriminate]. inversion H; subst. cbn. exact (algo_notif _ _ _ E).
  - destruct (windowed_step w s) eqn:E; [|discriminate]. inversion H; subst. cbn. exact (windowed_notif _ _ _ E).
Qed.

(* SettableLimit.SetLimit: the value delivered equals the estimate afterwards whenever it fits int32 *)
Lemma settable_notif l v : - 2^31 <= v < 2^31 ->
  let '(a, n) := algo_set_limit (ASettable l) v in n = [v] /\ algo_est a = v.
Proof.
  intros Hv. cbn. split; [reflexivity|]. unfold to_int32.
  rewrite Z.mod_small by lia. lia.
Qed.

(* a listener registered after k steps receives exactly the notifications of the later steps:
   the global log is the concatenation of the per-step deliveries and every listener sees each step's list *)
Fixpoint any_run (l : anylimit) (ss : list sample) : option (anylimit * list (list Z)) :=
  match ss with
  | [] => Some (l, [])
  | s :: r => match any_step l s with
              | None => None
              | Some o => match any_run (o_st o) r with None => None | Some (l', ns) => Some (l', o_notify o :: ns) end
              end
  end.
Lemma any_run_app l s1 s2 l1 n1 : any_run l s1 = Some (l1, n1) ->
  any_run l (s1 ++ s2) = match any_run l1 s2 with None => None | Some (l2, n2) => Some (l2, n1 ++ n2) end.
Proof.
  revert l l1 n1. induction s1 as [|s r IH]; intros l l1 n1 H; cbn in *.
  - inversion H; subst. destruct (any_run l1 s2) as [[? ?]|]; reflexivity.
  - destruct (any_step l s) as [o|]; [|discriminate].
    destruct (any_run (o_st o) r) as [[l' ns]|] eqn:E; [|discriminate]. inversion H; subst.
    rewrite (IH _ _ _ E). destruct (any_run l1 s2) as [[? ?]|]; reflexivity.
Qed.
Lemma last_default_ne (a : list Z) d d' : a <> [] -> last a d = last a d'.
Proof. induction a as [|x [|y r] IH]; intros H; [congruence|reflexivity|]. cbn [last] in *. apply IH. discriminate. Qed.
Lemma last_app_ne (a t : list Z) d d' : a <> [] -> last (a ++ t) d = last t (last a d').
Proof.
  intros H. induction t as [|y t IHt] using rev_ind.
  - rewrite app_nil_r. cbn. now apply last_default_ne.
  - rewrite app_assoc, !last_last. reflexivity.
Qed.
(* after every prefix: the last value delivered so far (if any) is the current estimate, provided the initial
   estimate is what a listener would have read at registration *)
Theorem any_run_last l ss l' ns : any_run l ss = Some (l', ns) ->
  any_est l' = last (concat ns) (any_est l).
Proof.
  revert l l' ns. induction ss as [|s r IH]; intros l l' ns H; cbn in H.
  - inversion H; subst. reflexivity.
  - destruct (any_step l s) as [o|] eqn:E; [|discriminate].
    destruct (any_run (o_st o) r) as [[l2 n2]|] eqn:E2; [|discriminate]. inversion H; subst.
    rewrite (IH _ _ _ E2). apply any_notif in E. cbn [concat].
    destruct (o_notify o) as [|x xs] eqn:En.
    + cbn in E. cbn. rewrite E. reflexivity.
    + cbn [notif_ok] in E. rewrite <- E. rewrite <- En.
      symmetry. apply last_app_ne. rewrite En. discriminate.
Qed.

(* ------------------------------------------------------------------ C07: growth is demand-gated *)
Lemma aimd_app_limited a s : s_drop s = false -> s_inflight s < aimd_est a -> o_st (aimd_step a s) = a.
Proof.
  intros Hd Hi. unfold aimd_step. rewrite Hd. unfold aimd_est in Hi.
  destruct (Z.leb_spec (a_limit a) (s_inflight s)); [lia|]. reflexivity.
Qed.

(* Vegas: the code's test is float64(inFlight)*2 < estimatedLimit *)
Lemma vegas_app_limited v s o : s_drop s = false ->
  flt (mul (of_int (s_inflight s)) two) (v_est v) = true ->
  vegas_step v s = Some o -> v_est (o_st o) = v_est v /\ o_notify o = [].
Proof.
  intros Hd Hf. unfold vegas_step, vegas_update. rewrite Hd, Hf. cbv zeta.
  destruct (vegas_should_probe _ _); [intros H; inversion H; subst; split; reflexivity|].
  destruct (_ || _); intros H; inversion H; subst; split; reflexivity.
Qed.

(* Gradient2: the code's test is float64(inFlight) < estimatedLimit/2 *)
Lemma grad2_app_limited v s :
  flt (of_int (s_inflight s)) (div (h_est v) two) = true ->
  h_est (o_st (grad2_step v s)) = h_est v /\ o_notify (grad2_step v s) = [].
Proof. intros Hf. unfold grad2_step. cbv zeta. rewrite Hf. split; reflexivity. Qed.

(* Gradient: outside a probe step an app-limited sample leaves the estimate untouched *)
Lemma grad_app_limited v s o : s_drop s = false ->
  flt (of_int (s_inflight s)) (div (g_est v) two) = true ->
  grad_step v s = Some o -> o_branch o <> 1 -> g_est (o_st o) = g_est v /\ o_notify o = [].
Proof.
  intros Hd Hf. unfold grad_step. destruct (sqrt_q _); [|discriminate]. cbv zeta. rewrite Hd, Hf.
  destruct (_ && _); intros H Hb; inversion H; subst; [cbn in Hb; congruence|]. split; reflexivity.
Qed.

(* ------------------------------------------------------------------ C15: baseline *)
(* the baseline after a step is unset, or not above the sample's RTT (the float test `rtt < baseline` is false) *)
Definition baseline_ok (nl frtt : f64) : Prop := feq nl zero = true \/ flt frtt nl = false.

Lemma min_add_cases old x : min_add old x = x \/ (min_add old x = old /\ feq old zero = false /\ flt x old = false).
Proof. unfold min_add. destruct (feq old zero) eqn:A; [left; reflexivity|]. destruct (flt x old) eqn:B; [left; reflexivity|]. right; auto. Qed.

Lemma flt_irrefl x : flt x x = false.
Proof.
  unfold flt, Bltb, SpecFloat.SFltb. destruct (SpecFloat.SFcompare (B2SF x) (B2SF x)) eqn:E; try reflexivity.
  destruct c; try reflexivity. exfalso.
  destruct x as [[]|[]| |[] m e Hb]; cbn in E; try discriminate;
  rewrite ?Z.compare_refl, ?Pos.compare_cont_refl, ?Pos.compare_refl in E; cbn in E; try discriminate.
Qed.

Lemma min_add_baseline old x : baseline_ok (min_add old x) x.
Proof.
  destruct (min_add_cases old x) as [E|(E & A & B)]; rewrite E.
  - right. apply flt_irrefl.
  - right. exact B.
Qed.

Theorem vegas_baseline v s o : vegas_step v s = Some o ->
  baseline_ok (v_noload (o_st o)) (of_int (s_rtt s)) \/
  (* update branches: the baseline is untouched and the sample was not below it *)
  (v_noload (o_st o) = v_noload v /\ flt (of_int (s_rtt s)) (v_noload v) = false).
Proof.
  unfold vegas_step, vegas_update. cbv zeta.
  destruct (vegas_should_probe _ _). { intros H; inversion H; subst. left. cbn [o_st mk vegas_set v_noload grad_set g_noload o_branch Z.eqb Pos.eqb]. apply min_add_baseline. }
  destruct (feq (v_noload v) zero || flt (of_int (s_rtt s)) (v_noload v)) eqn:C.
  { intros H; inversion H; subst. left. cbn [o_st mk vegas_set v_noload grad_set g_noload o_branch Z.eqb Pos.eqb]. apply min_add_baseline. }
  apply orb_false_iff in C. destruct C as [C1 C2].
  intros H. right.
  repeat match type of H with
  | (if ?c then _ else _) = _ => destruct c
  | (match ?c with Some _ => _ | None => _ end) = _ => destruct c
  | Some _ = Some _ => inversion H; subst; clear H; split; [reflexivity|exact C2]
  | None = Some _ => discriminate
  end.
Qed.

Theorem grad_baseline v s o : grad_step v s = Some o ->
  baseline_ok (g_noload (o_st o)) (of_int (s_rtt s)).
Proof.
  unfold grad_step. destruct (sqrt_q _); [|discriminate]. cbv zeta.
  destruct (_ && _). { intros H; inversion H; subst. left. cbn [o_st mk vegas_set v_noload grad_set g_noload o_branch Z.eqb Pos.eqb]. reflexivity. }
  intros H.
  repeat match type of H with
  | (if ?c then _ else _) = _ => destruct c
  | Some _ = Some _ => inversion H; subst; clear H; cbn [o_st mk vegas_set v_noload grad_set g_noload o_branch Z.eqb Pos.eqb]; apply min_add_baseline
  end.
Qed.

(* the baseline always equals an RTT observed since the last reset (or is unset):
   `hist` = RTTs of the samples since the last reset, newest first *)
Definition from_hist (nl : f64) (hist : list Z) : Prop := nl = zero \/ exists r, In r hist /\ nl = of_int r.

Theorem vegas_baseline_observed v s o hist : vegas_step v s = Some o -> from_hist (v_noload v) hist ->
  from_hist (v_noload (o_st o)) (if o_branch o =? 1 then [s_rtt s] else s_rtt s :: hist).
Proof.
  unfold vegas_step, vegas_update. cbv zeta. intros H Hh.
  destruct (vegas_should_probe _ _).
  { inversion H; subst. cbn [o_st mk vegas_set v_noload grad_set g_noload o_branch Z.eqb Pos.eqb]. right. exists (s_rtt s). split; [left; reflexivity|].
    unfold min_add. assert (feq zero zero = true) by reflexivity. rewrite H0. reflexivity. }
  assert (K: forall b, from_hist (v_noload v) (if b =? 1 then [s_rtt s] else s_rtt s :: hist) \/ b = 1).
  { intros b. destruct (b =? 1) eqn:E; [right; lia|]. left. destruct Hh as [Hh|(r & I & Er)]; [left; exact Hh|].
    right. exists r. split; [right; exact I|exact Er]. }
  destruct (_ || _).
  { inversion H; subst. cbn [o_st mk vegas_set v_noload grad_set g_noload o_branch Z.eqb Pos.eqb]. destruct (min_add_cases (v_noload v) (of_int (s_rtt s))) as [E|(E & _)]; rewrite E.
    - right. exists (s_rtt s). split; [left; reflexivity|reflexivity].
    - destruct Hh as [Hh|(r & I & Er)]; [left; exact Hh|]. right. exists r. split; [right; exact I|exact Er]. }
  repeat match type of H with
  | (if ?c then _ else _) = _ => destruct c
  | (match ?c with Some _ => _ | None => _ end) = _ => destruct c
  | Some _ = Some _ => inversion H; subst; clear H; cbn [o_st mk vegas_set v_noload grad_set g_noload o_branch Z.eqb Pos.eqb];
      (destruct Hh as [Hh|(r & I & Er)]; [left; exact Hh | right; exists r; split; [right; exact I|exact Er]])
  | None = Some _ => discriminate
  end.
Qed.

Theorem grad_baseline_observed v s o hist : grad_step v s = Some o -> from_hist (g_noload v) hist ->
  from_hist (g_noload (o_st o)) (if o_branch o =? 1 then [] else s_rtt s :: hist).
Proof.
  unfold grad_step. destruct (sqrt_q _); [|discriminate]. cbv zeta. intros H Hh.
  destruct (_ && _). { inversion H; subst. cbn [o_st mk vegas_set v_noload grad_set g_noload o_branch Z.eqb Pos.eqb]. left. reflexivity. }
  assert (K: from_hist (min_add (g_noload v) (of_int (s_rtt s))) (s_rtt s :: hist)).
  { destruct (min_add_cases (g_noload v) (of_int (s_rtt s))) as [E|(E & _)]; rewrite E.
    - right. exists (s_rtt s). split; [left; reflexivity|reflexivity].
    - destruct Hh as [Hh|(r & I & Er)]; [left; exact Hh|]. right. exists r. split; [right; exact I|exact Er]. }
  repeat match type of H with
  | (if ?c then _ else _) = _ => destruct c
  | Some _ = Some _ => inversion H; subst; clear H; cbn [o_st mk vegas_set v_noload grad_set g_noload o_branch Z.eqb Pos.eqb]; exact K
  end.
Qed.

(* Gradient probe period: with probing enabled the countdown is positive and strictly decreases on every
   non-probe sample, a probe happens when it would reach 0, and the new countdown is the draw.  Hence, when every
   draw lies in [interval, 2*interval), at most 2*interval - 1 consecutive samples are not probes. *)
Lemma grad_countdown v s o : g_int v <> -1 -> grad_step v s = Some o ->
  (o_branch o = 1 /\ g_cnt v - 1 <= 0 /\ g_cnt (o_st o) = s_draw s) \/
  (o_branch o <> 1 /\ 0 < g_cnt v - 1 /\ g_cnt (o_st o) = g_cnt v - 1).
Proof.
  intros Hi. unfold grad_step. destruct (sqrt_q _); [|discriminate]. cbv zeta.
  destruct (Z.eqb_spec (g_int v) (-1)); [contradiction|]. cbn [negb andb].
  destruct (Z.leb_spec (g_cnt v - 1) 0) as [Hc|Hc].
  - intros HH; inversion HH; subst. left. cbn. auto.
  - intros HH. right.
    repeat match type of HH with
    | (if ?c then _ else _) = _ => destruct c
    | Some _ = Some _ => inversion HH; subst; clear HH; cbn; repeat split; try lia; discriminate
    end.
Qed.

Lemma grad_int_const v s o : grad_step v s = Some o -> g_int (o_st o) = g_int v.
Proof.
  unfold grad_step. destruct (sqrt_q _); [|discriminate]. cbv zeta. intros H.
  repeat match type of H with
  | (if ?c then _ else _) = _ => destruct c
  | Some _ = Some _ => inversion H; subst; clear H; reflexivity
  end.
Qed.

(* run of n consecutive non-probe steps needs n < countdown *)
Theorem grad_probe_period v ss : g_int v <> -1 ->
  forall k, 0 < g_cnt v <= k ->
  (fix go (v : grad) (ss : list sample) (n : Z) : Prop :=
     match ss with
     | [] => True
     | s :: r => match grad_step v s with
                 | None => True
                 | Some o => if o_branch o =? 1 then True else n + 1 < k /\ go (o_st o) r (n + 1)
                 end
     end) v ss (k - g_cnt v).
Proof.
  intros Hi k. revert v Hi. induction ss as [|s r IH]; intros v Hi Hk; [exact I|].
  destruct (grad_step v s) as [o|] eqn:E; [|exact I].
  destruct (grad_countdown v s o Hi E) as [(B & _)|(B & C & D)].
  - rewrite B. exact I.
  - destruct (Z.eqb_spec (o_branch o) 1); [contradiction|]. split; [lia|].
    replace (k - g_cnt v + 1) with (k - g_cnt (o_st o)) by lia.
    apply IH. rewrite (grad_int_const _ _ _ E). exact Hi. lia.
Qed.
