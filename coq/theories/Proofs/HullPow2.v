(* C18, hull in binary64: a convex combination computed as round(round(round(1 - a) x v) + round(a x x)) of two values in [0, 2^k] stays in
   [0, 2^k] - exactly, with no drift, because scaling by a power of two is exact and the weights round(1 - a) + a exceed 1 by at most 2^-54,
   a quarter of the spacing above 2^k.  Hence the moving averages (exponential average, simple exponential moving average) stay within
   [0, 2^k] for every sample sequence in [0, 2^k], of any length, and the moving variance stays within [0, 2^2k]: it is never negative. *)
From Coq Require Import ZArith Reals Lia Lra Psatz Bool List.
From Flocq Require Import Core BinarySingleNaN Ulp.
From GCL Require Import Base.F64 Base.F64Facts Proofs.Smooth Model.Measure Proofs.GradSafe Proofs.Grad2Safe.
Import ListNotations.
Open Scope R_scope.

(* scaling a binary64 number up by a power of two is exact (as a real: overflow is a separate matter) *)
Lemma fmt_mult_bpow x e : fmt x -> (0 <= e)%Z -> fmt (x * bpow radix2 e).
Proof.
  intros Fx He. destruct (Req_dec x 0) as [Zx|Nzx]; [rewrite Zx, Rmult_0_l; apply generic_format_0|].
  apply (generic_format_F2R' _ _ (x * bpow radix2 e) (Float radix2 (Ztrunc (scaled_mantissa radix2 fexp x)) (cexp radix2 fexp x + e))).
  - unfold F2R; cbn [Fnum Fexp]. rewrite bpow_plus, <- Rmult_assoc. f_equal. symmetry. exact Fx.
  - intros _. cbn [Fexp]. unfold cexp. rewrite (mag_mult_bpow _ _ _ Nzx). rewrite !fexp_eq. lia.
Qed.

Lemma rnd_le_pow2_quarter y k : (0 <= k <= 1000)%Z -> y <= bpow radix2 k + bpow radix2 (k - 54) -> rnd y <= bpow radix2 k.
Proof.
  intros Hk Hy. apply round_N_le_midp; auto with typeclass_instances; [apply fmt_bpow; lia|].
  rewrite succ_eq_pos by apply bpow_ge_0. rewrite ulp_bpow, fexp_eq. replace (Z.max (k + 1 - 53) (-1074)) with (k - 52)%Z by lia.
  apply Rle_lt_trans with (1 := Hy).
  assert (E: bpow radix2 (k - 52) = 4 * bpow radix2 (k - 54)).
  { replace (k - 52)%Z with (2 + (k - 54))%Z by lia. rewrite bpow_plus. reflexivity. }
  rewrite E. pose proof (bpow_gt_0 radix2 (k - 54)). lra.
Qed.

(* the weight round(1 - a): a binary64 number in [0,1], at most 2^-54 away from 1 - a *)
Lemma weight_ok a : fmt a -> 0 <= a <= 1 -> fmt (rnd (1 - a)) /\ 0 <= rnd (1 - a) <= 1 /\ rnd (1 - a) + a <= 1 + bpow radix2 (-54).
Proof.
  intros Fa Ha. split; [apply generic_format_round; auto with typeclass_instances|]. split.
  - split; [apply rnd_nonneg; lra|]. apply Rle_trans with (rnd 1); [apply rnd_mono; lra|rewrite rnd_1; lra].
  - assert (P54: 0 < bpow radix2 (-54)) by apply bpow_gt_0.
    destruct (Req_dec (1 - a) 0) as [Z0|NZ]; [rewrite Z0, rnd_0; lra|].
    destruct (Req_dec a 0) as [A0|A0]; [rewrite A0, Rminus_0_r, rnd_1; lra|].
    assert (E: Rabs (rnd (1 - a) - (1 - a)) <= /2 * ulp radix2 fexp (1 - a)) by (apply error_le_half_ulp; auto with typeclass_instances).
    assert (U: ulp radix2 fexp (1 - a) <= bpow radix2 (-53)).
    { rewrite ulp_neq_0 by exact NZ. apply bpow_le. unfold cexp. rewrite fexp_eq.
      assert (mag radix2 (1 - a) <= 0)%Z.
      { apply mag_le_bpow; [exact NZ|]. rewrite Rabs_pos_eq by lra. simpl. lra. }
      lia. }
    apply Rabs_le_inv in E. rewrite b54. rewrite b53 in U. lra.
Qed.

Section Conv.
Variables (a v x : Rdefinitions.R) (k : Z).
Hypothesis Fa : fmt a.
Hypothesis Ha : 0 <= a <= 1.
Hypothesis Hk : (0 <= k <= 1000)%Z.
Hypothesis Hv : 0 <= v <= bpow radix2 k.
Hypothesis Hx : 0 <= x <= bpow radix2 k.

Theorem conv_hull : 0 <= rnd (rnd (rnd (1 - a) * v) + rnd (a * x)) <= bpow radix2 k.
Proof.
  destruct (weight_ok a Fa Ha) as (Fw & Bw & Sw). set (w := rnd (1 - a)) in *. set (M := bpow radix2 k) in *.
  assert (M0: 0 < M) by apply bpow_gt_0.
  assert (A1: 0 <= rnd (w * v) <= w * M).
  { split; [apply rnd_nonneg; apply Rmult_le_pos; lra|].
    rewrite <- (rnd_id (w * M)) by (apply fmt_mult_bpow; [exact Fw|lia]). apply rnd_mono. apply Rmult_le_compat_l; lra. }
  assert (A2: 0 <= rnd (a * x) <= a * M).
  { split; [apply rnd_nonneg; apply Rmult_le_pos; lra|].
    rewrite <- (rnd_id (a * M)) by (apply fmt_mult_bpow; [exact Fa|lia]). apply rnd_mono. apply Rmult_le_compat_l; lra. }
  split; [apply rnd_nonneg; lra|].
  apply rnd_le_pow2_quarter; [exact Hk|].
  apply Rle_trans with ((w + a) * M); [lra|].
  apply Rle_trans with ((1 + bpow radix2 (-54)) * M); [apply Rmult_le_compat_r; lra|].
  unfold M. replace (k - 54)%Z with (-54 + k)%Z by lia. rewrite bpow_plus. lra.
Qed.
End Conv.

(* ---------------- binary64 level ---------------- *)
Definition in_hull (k : Z) (x : f64) : Prop := fin x = true /\ 0 <= R x <= bpow radix2 k.

Lemma bpow1000 k y : (0 <= k <= 1000)%Z -> 0 <= y <= bpow radix2 k -> Rabs y <= bpow radix2 1000.
Proof. intros Hk Hy. rewrite Rabs_pos_eq by lra. apply Rle_trans with (bpow radix2 k); [lra|apply bpow_le; lia]. Qed.

(* one smoothing step with weight a: add (mul (sub one a) v) (mul a x) *)
Lemma smooth_step_hull k a v x : (0 <= k <= 999)%Z -> fin a = true -> 0 <= R a <= 1 -> in_hull k v -> in_hull k x ->
  in_hull k (add (mul (sub one a) v) (mul a x)).
Proof.
  intros Hk9 Fa Ba [Fv Bv] [Fx Bx]. assert (Hk: (0 <= k <= 1000)%Z) by lia. destruct R_one as [Fo Eo]. pose proof (bpow_gt_0 radix2 k) as M0.
  destruct (sub_ok one a Fo Fa) as [Fw Ew]; [rewrite Eo; apply (bpow1000 0); [lia|simpl; lra]|]. rewrite Eo in Ew.
  destruct (weight_ok (R a) (fmt_R a) Ba) as (_ & Bw & _).
  assert (W: 0 <= R (sub one a) <= 1) by (rewrite Ew; exact Bw).
  destruct (mul_ok _ _ Fw Fv) as [Fm1 Em1].
  { apply (bpow1000 k _ Hk). split; [apply Rmult_le_pos; lra|]. apply Rle_trans with (1 * bpow radix2 k); [apply Rmult_le_compat; lra|lra]. }
  destruct (mul_ok _ _ Fa Fx) as [Fm2 Em2].
  { apply (bpow1000 k _ Hk). split; [apply Rmult_le_pos; lra|]. apply Rle_trans with (1 * bpow radix2 k); [apply Rmult_le_compat; lra|lra]. }
  pose proof (conv_hull (R a) (R v) (R x) k (fmt_R a) Ba Hk Bv Bx) as CH. rewrite <- Ew, <- Em1, <- Em2 in CH.
  assert (S1: 0 <= R (mul (sub one a) v) <= bpow radix2 k).
  { rewrite Em1. split; [apply rnd_nonneg; apply Rmult_le_pos; lra|].
    rewrite <- (rnd_id (bpow radix2 k)) by (apply fmt_bpow; lia). apply rnd_mono. apply Rle_trans with (1 * bpow radix2 k); [apply Rmult_le_compat; lra|lra]. }
  assert (S2: 0 <= R (mul a x) <= bpow radix2 k).
  { rewrite Em2. split; [apply rnd_nonneg; apply Rmult_le_pos; lra|].
    rewrite <- (rnd_id (bpow radix2 k)) by (apply fmt_bpow; lia). apply rnd_mono. apply Rle_trans with (1 * bpow radix2 k); [apply Rmult_le_compat; lra|lra]. }
  destruct (add_ok _ _ Fm1 Fm2) as [Fs Es].
  { rewrite Rabs_pos_eq by lra. apply Rle_trans with (bpow radix2 (k + 1)); [rewrite bpow_plus; change (bpow radix2 1) with 2; lra|apply bpow_le; lia]. }
  split; [exact Fs|]. rewrite Es. exact CH.
Qed.

(* ---------------- SimpleExponentialMovingAverage ---------------- *)
Definition SInv (k : Z) (m : sema) : Prop :=
  fin (sm_alpha m) = true /\ 0 <= R (sm_alpha m) <= 1 /\ (sm_min m < 2^53)%Z /\ (0 <= sm_seen m)%Z /\ in_hull k (sm_value m).

Lemma inv_seen_ok n : (1 <= n < 2^53)%Z -> fin (div one (of_int n)) = true /\ 0 <= R (div one (of_int n)) <= 1.
Proof.
  intros Hn. destruct R_one as [Fo Eo]. destruct (of_int_exact n) as [Fn En]; [lia|].
  assert (N1: 1 <= IZR n) by (apply (IZR_le 1); lia).
  assert (Q: 0 <= 1 / IZR n <= 1).
  { split; [unfold Rdiv; apply Rmult_le_pos; [lra|apply Rlt_le, Rinv_0_lt_compat; lra]|].
    apply Rmult_le_reg_r with (IZR n); [lra|]. unfold Rdiv. rewrite Rmult_assoc, Rinv_l by lra. lra. }
  destruct (div_ok one (of_int n) Fo Fn) as [Fd Ed]; [rewrite En; lra|rewrite Eo, En; apply (bpow1000 0); [lia|simpl; lra]|].
  split; [exact Fd|]. rewrite Ed, Eo, En. split; [apply rnd_nonneg; lra|]. apply Rle_trans with (rnd 1); [apply rnd_mono; lra|rewrite rnd_1; lra].
Qed.

Lemma sema_add_hull k m x : (0 <= k <= 999)%Z -> SInv k m -> in_hull k x -> SInv k (fst (sema_add m x)).
Proof.
  intros Hk (Fa & Ba & Hm & Hs & Hv) Hx. unfold sema_add. cbv zeta. cbn [fst].
  set (seen := if (sm_seen m <? sm_min m)%Z then (sm_seen m + 1)%Z else sm_seen m).
  assert (Sn: (0 <= seen)%Z) by (unfold seen; destruct (sm_seen m <? sm_min m)%Z; lia).
  assert (A: fin (if (sm_min m <=? seen)%Z then sm_alpha m else div one (of_int seen)) = true /\
             0 <= R (if (sm_min m <=? seen)%Z then sm_alpha m else div one (of_int seen)) <= 1).
  { destruct (Z.leb_spec (sm_min m) seen) as [L|L]; [split; assumption|].
    apply inv_seen_ok. unfold seen in *. destruct (Z.ltb_spec (sm_seen m) (sm_min m)); lia. }
  destruct A as [FA BA]. unfold SInv. cbn [sm_alpha sm_min sm_seen sm_value]. repeat split; auto; try lia; try tauto;
    apply (smooth_step_hull k _ _ _ Hk FA BA Hv Hx).
Qed.

Theorem sema_hull k xs : forall m, (0 <= k <= 999)%Z -> SInv k m -> Forall (in_hull k) xs ->
  SInv k (fold_left (fun m x => fst (sema_add m x)) xs m).
Proof.
  induction xs as [|x r IH]; intros m Hk HI HL; cbn [fold_left]; [exact HI|].
  inversion HL as [|? ? Hx Hr]; subst. apply IH; auto. now apply sema_add_hull.
Qed.

(* ---------------- SimpleMovingVariance: the variance is never negative (and finite) ---------------- *)
Definition VarInv (k : Z) (m : smv) : Prop := SInv k (mv_avg m) /\ SInv (2 * k) (mv_var m).

Lemma sq_hull k x mean : (0 <= k <= 499)%Z -> in_hull k x -> in_hull k mean -> in_hull (2 * k) (mul (sub x mean) (sub x mean)).
Proof.
  intros Hk [Fx Bx] [Fm Bm]. pose proof (bpow_gt_0 radix2 k) as M0.
  destruct (sub_ok x mean Fx Fm) as [Fd Ed].
  { apply Rle_trans with (bpow radix2 k); [apply Rabs_le; lra|apply bpow_le; lia]. }
  assert (Bd: Rabs (R (sub x mean)) <= bpow radix2 k).
  { rewrite Ed. apply rnd_abs_le; [lia|]. apply Rabs_le. lra. }
  assert (Sq: 0 <= R (sub x mean) * R (sub x mean) <= bpow radix2 (2 * k)).
  { split; [apply Rle_0_sqr|]. replace (2 * k)%Z with (k + k)%Z by lia. rewrite bpow_plus.
    apply Rabs_le_inv in Bd. destruct (Rle_dec 0 (R (sub x mean))).
    - apply Rmult_le_compat; lra.
    - replace (R (sub x mean) * R (sub x mean)) with ((- R (sub x mean)) * (- R (sub x mean))) by ring. apply Rmult_le_compat; lra. }
  destruct (mul_ok _ _ Fd Fd) as [Fq Eq].
  { rewrite Rabs_pos_eq by lra. apply Rle_trans with (bpow radix2 (2 * k)); [lra|apply bpow_le; lia]. }
  split; [exact Fq|]. rewrite Eq. split; [apply rnd_nonneg; lra|].
  rewrite <- (rnd_id (bpow radix2 (2 * k))) by (apply fmt_bpow; lia). apply rnd_mono. lra.
Qed.

Lemma smv_add_inv k m x : (0 <= k <= 499)%Z -> VarInv k m -> in_hull k x -> VarInv k (fst (smv_add m x)).
Proof.
  intros Hk [HA HV] Hx. unfold smv_add. cbv zeta. cbn [fst]. unfold VarInv. cbn [mv_avg mv_var]. split.
  - apply sema_add_hull; auto; lia.
  - destruct (0 <? sm_seen (mv_avg m))%Z; [|exact HV].
    apply sema_add_hull; auto; try lia. apply sq_hull; auto. destruct HA as (_ & _ & _ & _ & H). exact H.
Qed.

Theorem variance_nonneg k xs : forall m, (0 <= k <= 499)%Z -> VarInv k m -> Forall (in_hull k) xs ->
  let m' := fold_left (fun m x => fst (smv_add m x)) xs m in
  VarInv k m' /\ fin (smv_get m') = true /\ 0 <= R (smv_get m') <= bpow radix2 (2 * k).
Proof.
  induction xs as [|x r IH]; intros m Hk HI HL; cbn [fold_left].
  - split; [exact HI|]. destruct HI as [_ (_ & _ & _ & _ & H)]. exact H.
  - inversion HL as [|? ? Hx Hr]; subst. apply IH; auto. now apply smv_add_inv.
Qed.

(* ---------------- ExponentialAverageMeasurement ---------------- *)
(* the same step with the factors written the other way round: add (mul v (sub one a)) (mul x a) *)
Lemma smooth_step_hull_c k a v x : (0 <= k <= 999)%Z -> fin a = true -> 0 <= R a <= 1 -> in_hull k v -> in_hull k x ->
  in_hull k (add (mul v (sub one a)) (mul x a)).
Proof.
  intros Hk9 Fa Ba [Fv Bv] [Fx Bx]. assert (Hk: (0 <= k <= 1000)%Z) by lia. destruct R_one as [Fo Eo]. pose proof (bpow_gt_0 radix2 k) as M0.
  destruct (sub_ok one a Fo Fa) as [Fw Ew]; [rewrite Eo; apply (bpow1000 0); [lia|simpl; lra]|]. rewrite Eo in Ew.
  destruct (weight_ok (R a) (fmt_R a) Ba) as (_ & Bw & _).
  assert (W: 0 <= R (sub one a) <= 1) by (rewrite Ew; exact Bw).
  destruct (mul_ok _ _ Fv Fw) as [Fm1 Em1].
  { apply (bpow1000 k _ Hk). split; [apply Rmult_le_pos; lra|]. apply Rle_trans with (bpow radix2 k * 1); [apply Rmult_le_compat; lra|lra]. }
  destruct (mul_ok _ _ Fx Fa) as [Fm2 Em2].
  { apply (bpow1000 k _ Hk). split; [apply Rmult_le_pos; lra|]. apply Rle_trans with (bpow radix2 k * 1); [apply Rmult_le_compat; lra|lra]. }
  pose proof (conv_hull (R a) (R v) (R x) k (fmt_R a) Ba Hk Bv Bx) as CH.
  rewrite (Rmult_comm (rnd (1 - R a))), (Rmult_comm (R a)) in CH. rewrite <- Ew, <- Em1, <- Em2 in CH.
  assert (S1: 0 <= R (mul v (sub one a)) <= bpow radix2 k).
  { rewrite Em1. split; [apply rnd_nonneg; apply Rmult_le_pos; lra|].
    rewrite <- (rnd_id (bpow radix2 k)) by (apply fmt_bpow; lia). apply rnd_mono. apply Rle_trans with (bpow radix2 k * 1); [apply Rmult_le_compat; lra|lra]. }
  assert (S2: 0 <= R (mul x a) <= bpow radix2 k).
  { rewrite Em2. split; [apply rnd_nonneg; apply Rmult_le_pos; lra|].
    rewrite <- (rnd_id (bpow radix2 k)) by (apply fmt_bpow; lia). apply rnd_mono. apply Rle_trans with (bpow radix2 k * 1); [apply Rmult_le_compat; lra|lra]. }
  destruct (add_ok _ _ Fm1 Fm2) as [Fs Es].
  { rewrite Rabs_pos_eq by lra. apply Rle_trans with (bpow radix2 (k + 1)); [rewrite bpow_plus; change (bpow radix2 1) with 2; lra|apply bpow_le; lia]. }
  split; [exact Fs|]. rewrite Es. exact CH.
Qed.

Definition AvgInv (k : Z) (m : expavg) : Prop :=
  (1 <= ea_window m < 2^52)%Z /\ (ea_warmup m < 2^52)%Z /\ (0 <= ea_count m)%Z /\
  fin (ea_sum m) = true /\ 0 <= R (ea_sum m) <= IZR (ea_count m) * bpow radix2 k /\ in_hull k (ea_value m).

Lemma factor_hull n : (1 <= n < 2^52)%Z -> fin (ea_factor n) = true /\ 0 <= R (ea_factor n) <= 1.
Proof.
  intros Hn. unfold ea_factor. assert (Ftwo: fin two = true /\ R two = 2) by (apply (of_int_exact 2); reflexivity). destruct Ftwo as [F2 E2].
  destruct (of_int_exact (n + 1)) as [Fn En]; [lia|].
  assert (N1: 2 <= IZR (n + 1)) by (apply (IZR_le 2); lia).
  assert (Q: 0 <= 2 / IZR (n + 1) <= 1).
  { split; [unfold Rdiv; apply Rmult_le_pos; [lra|apply Rlt_le, Rinv_0_lt_compat; lra]|].
    apply Rmult_le_reg_r with (IZR (n + 1)); [lra|]. unfold Rdiv. rewrite Rmult_assoc, Rinv_l by lra. lra. }
  destruct (div_ok two (of_int (n + 1)) F2 Fn) as [Fd Ed]; [rewrite En; lra|rewrite E2, En; apply (bpow1000 0); [lia|simpl; lra]|].
  split; [exact Fd|]. rewrite Ed, E2, En. split; [apply rnd_nonneg; lra|]. apply Rle_trans with (rnd 1); [apply rnd_mono; lra|rewrite rnd_1; lra].
Qed.

Lemma ea_add_hull k m x : (0 <= k <= 900)%Z -> AvgInv k m -> in_hull k x -> AvgInv k (ea_add m x).
Proof.
  intros Hk (Hw & Hwu & Hc & Fs & Bs & Hv) [Fx Bx]. pose proof (bpow_gt_0 radix2 k) as M0. unfold ea_add.
  destruct (Z.ltb_spec (ea_count m) (ea_warmup m)) as [Warm|Run]; cbv zeta.
  - (* warm-up: running sum and arithmetic mean *)
    set (c := (ea_count m + 1)%Z). assert (C1: (1 <= c < 2^53)%Z) by (unfold c; lia).
    assert (Cm: IZR c = IZR (ea_count m) + 1) by (unfold c; rewrite plus_IZR; reflexivity).
    assert (Sc: 0 <= R (ea_sum m) + R x <= IZR c * bpow radix2 k) by (rewrite Cm; lra).
    assert (Big: IZR c * bpow radix2 k <= bpow radix2 1000).
    { apply Rle_trans with (bpow radix2 53 * bpow radix2 k); [apply Rmult_le_compat_r; [lra|]|rewrite <- bpow_plus; apply bpow_le; lia].
      change (bpow radix2 53) with (IZR (2^53)). apply IZR_le. lia. }
    destruct (add_ok _ _ Fs Fx) as [Fa Ea]; [rewrite Rabs_pos_eq by lra; lra|].
    assert (Ba: 0 <= R (add (ea_sum m) x) <= IZR c * bpow radix2 k).
    { rewrite Ea. split; [apply rnd_nonneg; lra|]. rewrite <- (rnd_id (IZR c * bpow radix2 k)) by (apply fmt_scaled; lia). apply rnd_mono. lra. }
    destruct (of_int_exact c) as [Fc Ec]; [lia|]. assert (Cp: 1 <= IZR c) by (apply (IZR_le 1); lia).
    assert (Q: 0 <= R (add (ea_sum m) x) / IZR c <= bpow radix2 k).
    { split; [unfold Rdiv; apply Rmult_le_pos; [lra|apply Rlt_le, Rinv_0_lt_compat; lra]|].
      apply Rmult_le_reg_r with (IZR c); [lra|]. unfold Rdiv. rewrite Rmult_assoc, Rinv_l by lra. lra. }
    destruct (div_ok _ _ Fa Fc) as [Fd Ed]; [rewrite Ec; lra|rewrite Ec; apply (bpow1000 k); [lia|exact Q]|]. rewrite Ec in Ed.
    unfold AvgInv. cbn [ea_window ea_warmup ea_count ea_sum ea_value]. fold c. repeat split; auto; try lia; try tauto.
    + rewrite Ed. apply rnd_nonneg. tauto.
    + rewrite Ed. rewrite <- (rnd_id (bpow radix2 k)) by (apply fmt_bpow; lia). apply rnd_mono. tauto.
  - destruct (factor_hull (ea_window m) Hw) as [Ff Bf].
    unfold AvgInv. cbn [ea_window ea_warmup ea_count ea_sum ea_value]. repeat split; auto; try lia; try tauto;
      apply (smooth_step_hull_c k _ _ _ ltac:(lia) Ff Bf Hv (conj Fx Bx)).
Qed.

Theorem expavg_hull k xs : forall m, (0 <= k <= 900)%Z -> AvgInv k m -> Forall (in_hull k) xs ->
  AvgInv k (fold_left ea_add xs m).
Proof.
  induction xs as [|x r IH]; intros m Hk HI HL; cbn [fold_left]; [exact HI|].
  inversion HL as [|? ? Hx Hr]; subst. apply IH; auto. now apply ea_add_hull.
Qed.

(* a fresh measurement satisfies the invariant *)
Lemma ea_new_inv k w wu : (0 <= k)%Z -> (1 <= w < 2^52)%Z -> (wu < 2^52)%Z -> AvgInv k (ea_new w wu).
Proof.
  intros Hk Hw Hwu. destruct R_zero as [Fz Ez]. pose proof (bpow_gt_0 radix2 k). unfold AvgInv, ea_new, in_hull; cbn [ea_window ea_warmup ea_count ea_sum ea_value].
  rewrite Ez. repeat split; auto; try lia; simpl; lra.
Qed.
