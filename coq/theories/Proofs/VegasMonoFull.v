(* C08 for Vegas, the dead-band corner closed: for an estimate in [7/4, max - 1] (ceiling bound M >= 20) the new stored estimate is antitone in the
   queue estimate across ALL branches of updateEstimatedLimit - increase, small increase, dead band (estimate kept), decrease - because the
   smoothed increase never ends below the current estimate and the smoothed decrease never above it, in binary64. *)
From Coq Require Import ZArith Reals Lia Lra Psatz Bool List.
From Flocq Require Import Core BinarySingleNaN.
From GCL Require Import Base.F64 Base.F64Facts Proofs.Smooth Model.Measure Model.Limits Proofs.VegasSafe Proofs.AimdProofs Proofs.GradSafe Proofs.Grad2Safe Proofs.VegasDrop Proofs.VegasRecover Proofs.VegasMono.
Import ListNotations.
Open Scope R_scope.

Section Full.
Variables (v : vegas) (M : Z) (s : sample) (pc : Z) (em : list emission).
Hypothesis HI : VInv v M.
Hypothesis HS : sample_ok s.
Hypothesis M20 : (20 <= M)%Z.
Hypothesis Elo : 7/4 <= R (v_est v).
Hypothesis Ehi : R (v_est v) <= IZR (v_max v) - 1.

Lemma smoothed_le_est newl : fin newl = true -> R newl <= R (v_est v) - /2 -> R (smoothed v newl) <= R (v_est v).
Proof.
  intros Fn Bn. pose proof (M_b v M HI) as MB. destruct HI as (C & Fe & E1 & E2). destruct C as [cM cmax csf cs1 cs2].
  destruct (of_int_exact (v_max v)) as [Fm Em]; [lia|].
  destruct (fmin_ok _ _ Fm Fn) as [F1 R1]. destruct R_one as [Fo Eo]. destruct (fmax_ok _ _ Fo F1) as [F2 R2].
  unfold smoothed. set (c := fmax one (fmin (of_int (v_max v)) newl)) in *. rewrite R1, Eo, Em in R2.
  assert (C1: 1 <= R c) by (rewrite R2; apply Rmax_l).
  assert (C2: R c <= R (v_est v) - /2).
  { rewrite R2. apply Rmax_lub; [lra|]. apply Rle_trans with (1 := Rmin_r _ _). exact Bn. }
  pose proof dd_small as DD. pose proof u_pos as U0.
  assert (S0: 0 <= R (v_smooth v)) by (assert (0 <= u * IZR M) by (apply Rmult_le_pos; lra); lra).
  assert (M2: 2 <= IZR M) by (apply (IZR_le 2); lia).
  pose proof (smooth_upper (v_smooth v) (v_est v) c (R (v_est v) - /2) csf Fe F2 (conj S0 cs2)) as SU.
  assert (G1: 1 <= R (v_est v) <= 2147483649) by lra. assert (G2: 0 <= R c <= R (v_est v) - /2) by lra. assert (G3: R (v_est v) - /2 <= 2147483649) by lra.
  apply Rle_trans with (1 := SU G1 G2 G3). apply (vdrop_ineq _ _ (IZR M)); lra.
Qed.

Lemma smoothed_ge_est newl : fin newl = true -> R (v_est v) + 9/10 <= R newl -> R newl <= 2147486049 -> R (v_est v) <= R (smoothed v newl).
Proof.
  intros Fn Bn Bn2. pose proof (M_b v M HI) as MB. destruct HI as (C & Fe & E1 & E2). destruct C as [cM cmax csf cs1 cs2].
  destruct (of_int_exact (v_max v)) as [Fm Em]; [lia|].
  destruct (fmin_ok _ _ Fm Fn) as [F1 R1]. destruct R_one as [Fo Eo]. destruct (fmax_ok _ _ Fo F1) as [F2 R2].
  unfold smoothed. set (c := fmax one (fmin (of_int (v_max v)) newl)) in *. rewrite R1, Eo, Em in R2.
  assert (Mx: 1 <= IZR (v_max v) <= IZR M) by (split; [apply (IZR_le 1)|apply IZR_le]; lia).
  assert (M20': 20 <= IZR M) by (apply (IZR_le 20); exact M20).
  assert (C1: 1 <= R c <= IZR M + 6).
  { rewrite R2. split; [apply Rmax_l|]. apply Rmax_lub; [lra|]. apply Rle_trans with (1 := Rmin_l _ _). lra. }
  assert (C2: R (v_est v) + 9/10 <= R c).
  { rewrite R2. apply Rle_trans with (2 := Rmax_r _ _). apply Rmin_glb; lra. }
  pose proof dd_small as [D0 D1]. pose proof u_pos as U0.
  assert (S0: 0 <= R (v_smooth v)) by (assert (0 <= u * IZR M) by (apply Rmult_le_pos; lra); lra).
  pose proof (smooth_lower (v_smooth v) (v_est v) c (R c) csf Fe F2 (conj S0 cs2)) as SL.
  assert (G1: 1 <= R (v_est v) <= 4294967296) by lra. assert (G2: 0 <= R c <= R c) by lra. assert (G3: R c <= 4294967296) by lra.
  refine (Rle_trans _ _ _ _ (SL G1 G2 G3)).
  set (e := R (v_est v)) in *. set (sv := R (v_smooth v)) in *.
  apply Rle_trans with ((e - sv / 10) + sv / 2); [lra|].
  apply (vrec_ineq _ _ _ (IZR M)); try lra.
  assert (sv * (e + 9/10) <= sv * R c) by (apply Rmult_le_compat_l; lra). nra.
Qed.

Hypothesis Hlog : forall l y, log10i (to_int (v_est v)) (s_lgi s) = Some l -> log10f (v_est v) (s_lgf s) = Some y -> R y <= 6 * IZR l.

(* all branches: the new stored estimate is antitone in the queue estimate *)
Theorem vegas_update_mono_full q1 q2 o1 o2 : (q1 <= q2)%Z ->
  vegas_update v s pc em q1 = Some o1 -> vegas_update v s pc em q2 = Some o2 ->
  R (v_est (o_st o2)) <= R (v_est (o_st o1)).
Proof.
  intros Hq. pose proof (M_b v M HI) as MB. pose proof (vegas_update_mono v M s pc em HI HS Hlog q1 q2 o1 o2 Hq) as Both.
  assert (Fe: fin (v_est v) = true) by (destruct HI as (_ & F & _); exact F).
  unfold vegas_update in *. cbv zeta in *.
  destruct (log10f_ok v M s HI HS) as (y & Ey & Fy & By). rewrite Ey in *. cbn [option_map] in *.
  destruct (s_drop s). { intros H1 H2. apply Both; auto; [injection H1 as <-|injection H2 as <-]; cbn; discriminate. }
  destruct (flt _ _). { intros H1 H2. injection H1 as <-. injection H2 as <-. cbn [o_st mk vegas_set v_est]. lra. }
  destruct (log10i_ok v M s HI HS) as (l & El & Bl). rewrite El in *.
  assert (Fsub: fin (sub (v_est v) y) = true) by (eapply newl_sub; eauto).
  assert (Fadd: fin (add (v_est v) y) = true) by (eapply newl_addf; eauto).
  assert (Fb: fin (add (v_est v) (of_int (6 * l))) = true) by (eapply newl_addb; eauto).
  destruct (of_int_exact (6 * l)) as [F6 E6]; [lia|].
  assert (L6: 6 <= IZR (6 * l) <= 2400) by (split; [apply (IZR_le 6) | apply (IZR_le _ 2400)]; lia).
  assert (E12: 1 <= R (v_est v) <= 2147483649) by (destruct HI as (_ & _ & A & B); lra).
  destruct (add_ok _ _ Fe F6) as [_ Rb]. { rewrite E6. apply bpow1000_big. apply Rabs_le. split; lra. }
  destruct (add_ok _ _ Fe Fy) as [_ Ra]. { apply bpow1000_big. apply Rabs_le. split; lra. }
  destruct (sub_ok _ _ Fe Fy) as [_ Rs]. { apply bpow1000_big. apply Rabs_le. split; lra. }
  pose proof dd_small as [D0 D1]. pose proof u_pos as U0.
  (* the three candidates relative to the estimate *)
  assert (Up6: R (v_est v) + 9/10 <= R (add (v_est v) (of_int (6 * l))) <= 2147486049).
  { rewrite Rb, E6. split.
    - apply Rle_trans with ((R (v_est v) + IZR (6 * l)) * (1 - u) - dd); [|apply rnd_dn; lra].
      assert ((R (v_est v) + IZR (6 * l)) * u <= 2147486049 * u) by (apply Rmult_le_compat_r; lra). unfold u in *. lra.
    - apply (rnd_le_int _ 2147486049); [reflexivity|change (IZR 2147486049) with 2147486049; lra]. }
  assert (Upy: R (v_est v) + 9/10 <= R (add (v_est v) y) <= 2147486049).
  { rewrite Ra. split.
    - apply Rle_trans with ((R (v_est v) + R y) * (1 - u) - dd); [|apply rnd_dn; lra].
      assert ((R (v_est v) + R y) * u <= 2147484049 * u) by (apply Rmult_le_compat_r; lra). unfold u in *. lra.
    - apply (rnd_le_int _ 2147486049); [reflexivity|change (IZR 2147486049) with 2147486049; lra]. }
  assert (Dn: R (sub (v_est v) y) <= R (v_est v) - /2).
  { rewrite Rs. destruct (Rle_dec (R (v_est v) - R y) 1) as [L1|L1].
    - apply Rle_trans with 1; [|lra]. apply (rnd_le_int _ 1); [reflexivity|simpl; lra].
    - apply Rle_trans with ((R (v_est v) - R y) * (1 + u) + dd); [apply rnd_up; lra|].
      assert ((R (v_est v) - R y) * u <= 2147483649 * u) by (apply Rmult_le_compat_r; lra). unfold u in *. lra. }
  pose proof (smoothed_ge_est _ Fb (proj1 Up6) (proj2 Up6)) as G6.
  pose proof (smoothed_ge_est _ Fadd (proj1 Upy) (proj2 Upy)) as Gy.
  pose proof (smoothed_le_est _ Fsub Dn) as Ld.
  destruct (Z.ltb_spec q1 l) as [A1|A1]; destruct (Z.ltb_spec q2 l) as [A2|A2]; try lia.
  - intros H1 H2. apply Both; auto; [injection H1 as <-|injection H2 as <-]; cbn; discriminate.
  - destruct (Z.ltb_spec q2 (3 * l)) as [B2|B2].
    + intros H1 H2. apply Both; auto; [injection H1 as <-|injection H2 as <-]; cbn; discriminate.
    + destruct (Z.ltb_spec (6 * l) q2) as [B3|B3].
      * intros H1 H2. apply Both; auto; [injection H1 as <-|injection H2 as <-]; cbn; discriminate.
      * intros H1 H2. injection H1 as <-. injection H2 as <-. cbn [o_st mk vegas_set v_est]. exact G6.
  - destruct (Z.ltb_spec q1 (3 * l)) as [B4|B4]; destruct (Z.ltb_spec q2 (3 * l)) as [B5|B5]; try lia.
    + intros H1 H2. apply Both; auto; [injection H1 as <-|injection H2 as <-]; cbn; discriminate.
    + destruct (Z.ltb_spec (6 * l) q2) as [B6|B6].
      * intros H1 H2. apply Both; auto; [injection H1 as <-|injection H2 as <-]; cbn; discriminate.
      * intros H1 H2. injection H1 as <-. injection H2 as <-. cbn [o_st mk vegas_set v_est]. exact Gy.
    + destruct (Z.ltb_spec (6 * l) q1) as [B7|B7]; destruct (Z.ltb_spec (6 * l) q2) as [B8|B8]; try lia.
      * intros H1 H2. apply Both; auto; [injection H1 as <-|injection H2 as <-]; cbn; discriminate.
      * intros H1 H2. injection H1 as <-. injection H2 as <-. cbn [o_st mk vegas_set v_est]. exact Ld.
      * intros H1 H2. injection H1 as <-. injection H2 as <-. cbn [o_st mk vegas_set v_est]. lra.
Qed.
End Full.
