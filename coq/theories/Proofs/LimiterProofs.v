(* Default limiter (sequential model): conservation (C02), enforcement follows the estimate (C05), sampling windows (C09). *)
From Coq Require Import ZArith List Bool Lia.
From GCL Require Import Base.F64 Model.Measure Model.Strategy Model.DefaultLimiter Proofs.StrategyProofs.
Import ListNotations.
Open Scope Z_scope.

Definition undone (ls : list listener) : Z := Z.of_nat (length (filter (fun x => negb (ls_done x)) ls)).

Record LInv (l : limiter) : Prop := {
  li_gauge : lm_gauge l = undone (lm_listeners l);
  li_busy : strat_busy (lm_strat l) = undone (lm_listeners l);
  li_tok : forall x, In x (lm_listeners l) -> ls_tok x <> None /\ ls_next x <= lm_next l;
  li_cfg : 0 < l_minw (lm_cfg l) /\ 0 < l_maxw (lm_cfg l) }.

Lemma undone_app ls x : undone (ls ++ [x]) = undone ls + (if ls_done x then 0 else 1).
Proof. unfold undone. rewrite filter_app, app_length. cbn. destruct (ls_done x); cbn; lia. Qed.

Lemma undone_mark ls k x : nth_error ls k = Some x -> ls_done x = false -> undone (mark_done ls k) = undone ls - 1.
Proof.
  revert k. induction ls as [|y r IH]; intros [|k] H Hd; cbn in H; try discriminate.
  - inversion H; subst. unfold undone. cbn. rewrite Hd. cbn [negb length]. lia.
  - specialize (IH k H Hd). unfold undone in *. cbn. destruct (negb (ls_done y)); cbn [length]; lia.
Qed.
Lemma in_mark ls k y : In y (mark_done ls k) -> exists x, In x ls /\ ls_tok y = ls_tok x /\ ls_next y = ls_next x.
Proof.
  revert k. induction ls as [|z r IH]; intros [|k]; cbn; try tauto.
  - intros [E|H]; [exists z; subst y; cbn; auto|exists y; auto].
  - intros [E|H]; [exists y; subst y; cbn; auto|]. destruct (IH k H) as (x & A & B). exists x. auto.
Qed.

Lemma init_LInv c s est : strat_busy s = 0 -> 0 < l_minw c -> 0 < l_maxw c -> LInv (limiter_init c s est).
Proof. intros H A B. constructor; cbn; auto. rewrite strat_set_limit_busy. exact H. intros x []. Qed.

Lemma period_pos c w : 0 < l_minw c -> 0 < l_maxw c -> 0 < period c w.
Proof. unfold period. lia. Qed.

(* Acquire: a refusal changes nothing and returns no listener; a grant adds exactly one unit everywhere *)
Theorem acquire_LInv l key now : LInv l ->
  let '(l', ok) := lm_acquire l key now in
  LInv l' /\ (ok = false -> l' = l) /\ (ok = true -> lm_gauge l' = lm_gauge l + 1 /\ length (lm_listeners l') = S (length (lm_listeners l))).
Proof.
  intros [G B T C]. unfold lm_acquire. pose proof (strat_try_busy (lm_strat l) key) as S.
  destruct (strat_try (lm_strat l) key) as [[[s' ok] n] o]. destruct S as (S1 & S2 & S3). destruct ok.
  - destruct (S1 eq_refl) as [Sb So]. split; [|split; [discriminate|]].
    + constructor; cbn [lm_with lm_gauge lm_strat lm_listeners lm_next lm_cfg]; auto.
      * rewrite undone_app. cbn. lia.
      * rewrite undone_app. cbn. lia.
      * intros x Hx. apply in_app_or in Hx. destruct Hx as [Hx|[<-|[]]]; [now apply T|]. cbn. split; [exact So|lia].
    + intros _. cbn. rewrite app_length. cbn. split; [reflexivity|lia].
  - destruct (S2 eq_refl) as [-> ->]. assert (E: lm_with l (lm_strat l) (lm_win l) (lm_next l) (lm_gauge l) (lm_listeners l) = l) by (destruct l; reflexivity).
    rewrite E. split; [constructor; auto|]. split; [reflexivity|discriminate].
Qed.

(* Complete (any outcome) of a granted, not yet completed listener gives back exactly one unit at every layer *)
Theorem complete_LInv l k oc now x : LInv l -> nth_error (lm_listeners l) k = Some x -> ls_done x = false ->
  let '(l', c) := lm_complete l k oc now in
  LInv l' /\ lm_gauge l' = lm_gauge l - 1 /\ strat_busy (lm_strat l') = strat_busy (lm_strat l) - 1.
Proof.
  intros [G B T C] Hk Hd. unfold lm_complete. rewrite Hk.
  assert (Hin: In x (lm_listeners l)) by (eapply nth_error_In; eauto).
  destruct (T x Hin) as [Tk Tn]. destruct (ls_tok x) as [i|] eqn:Ei; [|congruence].
  assert (U := undone_mark _ _ _ Hk Hd).
  assert (K: forall s w nx, lm_next l <= nx -> strat_busy s = strat_busy (lm_strat l) - 1 ->
             LInv (lm_with l s w nx (lm_gauge l - 1) (mark_done (lm_listeners l) k)) /\
             lm_gauge (lm_with l s w nx (lm_gauge l - 1) (mark_done (lm_listeners l) k)) = lm_gauge l - 1 /\
             strat_busy (lm_strat (lm_with l s w nx (lm_gauge l - 1) (mark_done (lm_listeners l) k))) = strat_busy (lm_strat l) - 1).
  { intros s w nx Hn Hs. split; [|split; [reflexivity|exact Hs]]. constructor; cbn [lm_with lm_gauge lm_strat lm_listeners lm_next lm_cfg]; auto; try lia.
    intros y Hy. destruct (in_mark _ _ _ Hy) as (z & Hz & E1 & E2). rewrite E1, E2. destruct (T z Hz). split; [assumption|lia]. }
  assert (UL: forall cur, let '(l', c) := update_limit l x now cur (strat_release (lm_strat l) i) (lm_gauge l - 1) (mark_done (lm_listeners l) k) in
              LInv l' /\ lm_gauge l' = lm_gauge l - 1 /\ strat_busy (lm_strat l') = strat_busy (lm_strat l) - 1).
  { intros cur. unfold update_limit. destruct (_ && _) eqn:Ec.
    - apply andb_true_iff in Ec. destruct Ec as [Ec _]. apply andb_true_iff in Ec. destruct Ec as [_ Ec]. apply Z.ltb_lt in Ec.
      apply K. pose proof (period_pos (lm_cfg l) cur (proj1 C) (proj2 C)). lia.
      rewrite strat_set_limit_busy. apply strat_release_busy.
    - apply K. lia. apply strat_release_busy. }
  destruct oc.
  - destruct (_ <? _); [apply K; [lia|apply strat_release_busy]|apply UL].
  - apply K; [lia|apply strat_release_busy].
  - apply UL.
Qed.

(* C05: right after construction, and whenever a completion forwards a window to the limit algorithm, the strategy
   enforces the current estimate floored at 1 *)
Theorem init_sync c s est : strat_limit (lm_strat (limiter_init c s est)) = clamp_limit est.
Proof. cbn. apply strat_set_limit_limit. Qed.
Theorem complete_sync l k oc now : forall call, snd (lm_complete l k oc now) = Some call ->
  strat_limit (lm_strat (fst (lm_complete l k oc now))) = clamp_limit (lm_est (fst (lm_complete l k oc now))) /\
  lm_est (fst (lm_complete l k oc now)) = lm_est l.
Proof.
  intros call. unfold lm_complete. destruct (nth_error _ k) as [x|]; [|discriminate].
  assert (UL: forall cur s g ls, snd (update_limit l x now cur s g ls) = Some call ->
     strat_limit (lm_strat (fst (update_limit l x now cur s g ls))) = clamp_limit (lm_est (fst (update_limit l x now cur s g ls))) /\
     lm_est (fst (update_limit l x now cur s g ls)) = lm_est l).
  { intros cur s g ls. unfold update_limit. destruct (_ && _); cbn; [|discriminate]. intros _. split; [apply strat_set_limit_limit|reflexivity]. }
  destruct oc; cbn [snd fst]; try discriminate.
  - destruct (_ <? _); [discriminate|apply UL].
  - apply UL.
Qed.

(* ---------------- C09: windows ---------------- *)
(* a completion as the limiter saw it: outcome, measured RTT, in-flight at acquire, end time *)
Record completion := { co : outcome; crtt : Z; cinf : Z; cend : Z }.

(* specification: the calls are the summaries of the segments cut from the history of QUALIFYING completions *)
Definition qualifies (c : lcfg) (x : completion) : bool :=
  match co x with Ignore => false | Success => negb (crtt x <? l_thr c) | Dropped => true end.
Definition succ_rtts (seg : list completion) : list Z := flat_map (fun x => match co x with Success => [crtt x] | _ => [] end) seg.
Definition min_list (l : list Z) : Z := fold_right Z.min MAXINT l.
Definition max_list (l : list Z) : Z := fold_right Z.max 0 l.
Definition seg_drop (seg : list completion) : bool := existsb (fun x => match co x with Dropped => true | _ => false end) seg.
Definition summary (seg : list completion) : call := (min_list (succ_rtts seg), max_list (map cinf seg), seg_drop seg).
Definition ready_spec (c : lcfg) (seg : list completion) : bool :=
  (min_list (succ_rtts seg) <? MAXINT) && (l_wsize c <? Z.of_nat (length (succ_rtts seg))).
Definition period_spec (c : lcfg) (seg : list completion) : Z := Z.min (Z.max (min_list (succ_rtts seg) * 2) (l_minw c)) (l_maxw c).
Fixpoint spec (c : lcfg) (seg : list completion) (nxt : Z) (l : list completion) : list call :=
  match l with
  | [] => []
  | x :: r =>
      if qualifies c x then
        let seg' := seg ++ [x] in
        if (nxt <? cend x) && ready_spec c seg'
        then summary seg' :: spec c [] (cend x + period_spec c seg') r
        else spec c seg' nxt r
      else spec c seg nxt r
  end.

Definition wf (x : completion) : Prop := 0 <= crtt x < 2^62 /\ 0 <= cinf x.
Definition abs (seg : list completion) (w : win) : Prop :=
  wmin w = min_list (succ_rtts seg) /\ wmaxinf w = max_list (map cinf seg) /\
  wcount w = Z.of_nat (length (succ_rtts seg)) /\ wdrop w = seg_drop seg.

Lemma abs_empty : abs [] win_empty. Proof. repeat split. Qed.
Lemma min_list_app l x : min_list (l ++ [x]) = Z.min (min_list l) x.
Proof. unfold min_list. induction l as [|y r IH]; cbn [app fold_right]; [lia|]. rewrite IH. lia. Qed.
Lemma max_list_app l x : max_list (l ++ [x]) = Z.max (max_list l) x.
Proof. unfold max_list. induction l as [|y r IH]; cbn [app fold_right]; [lia|]. rewrite IH. lia. Qed.
Lemma max_list_nonneg l : 0 <= max_list l. Proof. unfold max_list. induction l; cbn; lia. Qed.
Lemma min_list_small l : l <> [] -> Forall (fun z => 0 <= z < 2^62) l -> 0 <= min_list l < 2^62.
Proof.
  unfold min_list. change MAXINT with 9223372036854775807. change (2^62) with 4611686018427387904.
  induction l as [|y r IH]; [congruence|]. intros _ H. inversion H as [|? ? Hy Hr]; subst. cbn [fold_right].
  destruct r as [|z r']; [cbn [fold_right]; lia|].
  assert (0 <= fold_right Z.min 9223372036854775807 (z :: r') < 4611686018427387904) by (apply IH; [discriminate|assumption]). lia.
Qed.

Lemma abs_add seg w x : co x = Success -> abs seg w -> abs (seg ++ [x]) (win_add w (crtt x) (cinf x)).
Proof.
  intros Ho (A & B & C & D). unfold abs, win_add, succ_rtts, seg_drop. cbn [wmin wmaxinf wcount wdrop].
  rewrite flat_map_app, map_app, existsb_app. cbn [flat_map map existsb]. rewrite Ho, !app_nil_r, min_list_app, max_list_app, app_length.
  fold (succ_rtts seg). rewrite A, B, C, D. cbn [length]. repeat split.
  - destruct (Z.ltb_spec (crtt x) (min_list (succ_rtts seg))); lia.
  - destruct (Z.ltb_spec (cinf x) (max_list (map cinf seg))); lia.
  - lia.
  - fold (seg_drop seg). now rewrite orb_false_r.
Qed.
Lemma abs_add_dropped seg w x : co x = Dropped -> abs seg w -> abs (seg ++ [x]) (win_add_dropped w (cinf x)).
Proof.
  intros Ho (A & B & C & D). unfold abs, win_add_dropped, succ_rtts, seg_drop. cbn [wmin wmaxinf wcount wdrop].
  rewrite flat_map_app, map_app, existsb_app. cbn [flat_map map existsb]. rewrite Ho, !app_nil_r, max_list_app.
  fold (succ_rtts seg). rewrite A, B, C. repeat split.
  - destruct (Z.ltb_spec (cinf x) (max_list (map cinf seg))); lia.
  - now rewrite orb_true_r.
Qed.

(* window-level step: what one completion does to (window, next) and which call it makes; the listener's snapshot of
   `next` never exceeds the current value, so the double check of the code reduces to the second test *)
Definition wupdate (c : lcfg) (w : win) (nx : Z) (e : Z) : (win * Z) * option call :=
  if (nx <? e) && ready c w then ((win_empty, e + period c w), Some (wmin w, wmaxinf w, wdrop w)) else ((w, nx), None).
Definition wstep (c : lcfg) (st : win * Z) (x : completion) : (win * Z) * option call :=
  let '(w, nx) := st in
  match co x with
  | Ignore => (st, None)
  | Success => if crtt x <? l_thr c then (st, None) else wupdate c (win_add w (crtt x) (cinf x)) nx (cend x)
  | Dropped => wupdate c (win_add_dropped w (cinf x)) nx (cend x)
  end.
Fixpoint wrun (c : lcfg) (st : win * Z) (l : list completion) : list call :=
  match l with
  | [] => []
  | x :: r => let '(st', o) := wstep c st x in match o with Some v => v :: wrun c st' r | None => wrun c st' r end
  end.

Lemma wupdate_refines c w nx e seg : abs seg w -> Forall wf seg ->
  wupdate c w nx e = if (nx <? e) && ready_spec c seg then ((win_empty, e + period_spec c seg), Some (summary seg)) else ((w, nx), None).
Proof.
  intros (A & B & C & D) Hwf. unfold wupdate, ready, ready_spec, summary. rewrite A, B, C, D.
  destruct ((nx <? e) && _) eqn:E; [|reflexivity]. f_equal. f_equal. f_equal. unfold period, period_spec. rewrite A.
  (* a ready window contains a success, so its minimum is below 2^62 and doubling does not wrap *)
  apply andb_true_iff in E. destruct E as [_ E]. apply andb_true_iff in E. destruct E as [E _]. apply Z.ltb_lt in E.
  assert (Hne: succ_rtts seg <> []). { intros H0. rewrite H0 in E. cbn in E. lia. }
  assert (Hs: Forall (fun z => 0 <= z < 2^62) (succ_rtts seg)).
  { clear -Hwf. induction Hwf as [|x r Hx Hr IH]; cbn; [constructor|]. unfold succ_rtts in *. cbn [flat_map].
    destruct (co x); cbn [app]; try exact IH. constructor; [apply Hx|exact IH]. }
  pose proof (min_list_small _ Hne Hs) as M. unfold wrap64. rewrite Z.mod_small by lia. f_equal. f_equal. lia.
Qed.

Theorem wrun_spec c l : forall seg w nx, Forall wf seg -> Forall wf l -> abs seg w -> wrun c (w, nx) l = spec c seg nx l.
Proof.
  induction l as [|x l IH]; intros seg w nx Hseg Hl Habs; cbn [wrun spec]; [reflexivity|].
  inversion Hl as [|? ? Hx Hl']; subst. unfold wstep, qualifies. destruct (co x) eqn:Ho.
  - destruct (crtt x <? l_thr c); cbn [negb].
    + now apply IH.
    + assert (Hs': Forall wf (seg ++ [x])) by (apply Forall_app; split; auto).
      rewrite (wupdate_refines c _ nx (cend x) (seg ++ [x]) (abs_add _ _ _ Ho Habs) Hs').
      destruct ((nx <? cend x) && ready_spec c (seg ++ [x])).
      * f_equal. apply IH; auto. apply abs_empty.
      * apply IH; auto. now apply abs_add.
  - now apply IH.
  - assert (Hs': Forall wf (seg ++ [x])) by (apply Forall_app; split; auto).
    rewrite (wupdate_refines c _ nx (cend x) (seg ++ [x]) (abs_add_dropped _ _ _ Ho Habs) Hs').
    destruct ((nx <? cend x) && ready_spec c (seg ++ [x])).
    + f_equal. apply IH; auto. apply abs_empty.
    + apply IH; auto. now apply abs_add_dropped.
Qed.

(* tie to the limiter model: completing listener k at `now` acts on (window, next) exactly like wstep on the completion
   (outcome, now - start, in-flight at acquire, now), given the invariant that snapshots never exceed `next` *)
Definition completion_of (x : listener) (oc : outcome) (now : Z) : completion :=
  {| co := oc; crtt := now - ls_start x; cinf := ls_cmi x; cend := now |}.
Theorem complete_is_wstep l k oc now x : LInv l -> nth_error (lm_listeners l) k = Some x ->
  let '(l', c) := lm_complete l k oc now in
  ((lm_win l', lm_next l'), c) = wstep (lm_cfg l) (lm_win l, lm_next l) (completion_of x oc now) /\ lm_cfg l' = lm_cfg l.
Proof.
  intros I Hk. unfold lm_complete. rewrite Hk.
  assert (Hin: In x (lm_listeners l)) by (eapply nth_error_In; eauto).
  destruct (li_tok _ I x Hin) as [_ Tn].
  assert (UL: forall cur s g ls, let '(l', c) := update_limit l x now cur s g ls in
             ((lm_win l', lm_next l'), c) = wupdate (lm_cfg l) cur (lm_next l) now /\ lm_cfg l' = lm_cfg l).
  { intros cur s g ls. unfold update_limit, wupdate.
    assert (E: (ls_next x <? now) && (lm_next l <? now) = (lm_next l <? now)).
    { destruct (Z.ltb_spec (lm_next l) now); [|apply andb_false_r]. rewrite andb_true_r. apply Z.ltb_lt. lia. }
    rewrite E. destruct ((lm_next l <? now) && ready (lm_cfg l) cur); cbv beta iota; cbn [lm_win lm_next lm_cfg lm_with]; split; reflexivity. }
  unfold wstep, completion_of. cbn [co crtt cinf cend]. destruct oc.
  - destruct (_ <? _); [cbv beta iota; cbn [lm_win lm_next lm_cfg lm_with]; split; reflexivity|apply UL].
  - cbv beta iota; cbn [lm_win lm_next lm_cfg lm_with]. split; reflexivity.
  - apply UL.
Qed.
