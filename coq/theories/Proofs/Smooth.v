From Coq Require Import ZArith Reals Lia Lra Psatz Bool.
From Flocq Require Import Core BinarySingleNaN.
From GCL Require Import Base.F64 Base.F64Facts.
Open Scope R_scope.

Lemma u_pos : 0 < u. Proof. unfold u. lra. Qed.
Lemma u_small : u <= 1e-15. Proof. unfold u. lra. Qed.

Lemma rnd_0 : rnd 0 = 0. Proof. apply round_0; auto with typeclass_instances. Qed.
Lemma rnd_1 : rnd 1 = 1. Proof. apply rnd_id, fmt1. Qed.

(* upper relative bound for positive reals in the normal range *)
Lemma rnd_le_rel x : bpow radix2 (-1022) <= x -> rnd x <= x * (1 + u).
Proof.
  intros H. assert (0 < x) by (apply Rlt_le_trans with (2 := H); apply bpow_gt_0).
  generalize (rnd_rel x). rewrite (Rabs_pos_eq x) by lra. intros G.
  specialize (G H). apply Rabs_le_inv in G. lra.
Qed.

Lemma b1022_small : bpow radix2 (-1022) <= bpow radix2 (-53).
Proof. apply bpow_le; lia. Qed.

Lemma fmt_half_int M : (0 <= M < 2^31)%Z -> fmt (IZR M + /2).
Proof.
  intros H. replace (IZR M + /2) with (F2R (Float radix2 (2*M+1) (-1))).
  2:{ unfold F2R; cbn [Defs.Fnum Defs.Fexp]. rewrite plus_IZR, mult_IZR.
      change (bpow radix2 (-1)) with (/ 2). simpl. lra. }
  apply generic_format_F2R. intros _. unfold cexp. rewrite fexp_eq.
  assert (mag radix2 (F2R (Float radix2 (2*M+1) (-1))) <= 40)%Z.
  { apply mag_le_bpow.
    - unfold F2R; cbn [Defs.Fnum Defs.Fexp]. apply Rmult_integral_contrapositive_currified.
      apply IZR_neq; lia. apply Rgt_not_eq, bpow_gt_0.
    - unfold F2R; cbn [Defs.Fnum Defs.Fexp]. change (bpow radix2 (-1)) with (/2).
      rewrite Rabs_mult. rewrite (Rabs_pos_eq (/2)) by lra. rewrite <- abs_IZR.
      apply Rlt_le_trans with (IZR (2^33) * /2).
      + apply Rmult_lt_compat_r; [lra|]. apply IZR_lt. lia.
      + change (bpow radix2 40) with (IZR (Z.pow_pos 2 40)).
        replace (Z.pow_pos 2 40) with 1099511627776%Z by (vm_compute; reflexivity).
        replace (2^33)%Z with 8589934592%Z by reflexivity. lra. }
  cbn [Defs.Fexp]. lia.
Qed.

Section Smooth.
Variables (s est c : f64) (M : Z).
Hypothesis Hs : fin s = true.
Hypothesis He : fin est = true.
Hypothesis Hc : fin c = true.
Hypothesis HM : (1 <= M < 2^31)%Z.
Hypothesis Hs1 : 8 * u * IZR M <= R s.       (* 2^-50 * M <= smoothing *)
Hypothesis Hs2 : R s <= 1.
Hypothesis He1 : 1 <= R est.
Hypothesis He2 : R est <= IZR M + /2.
Hypothesis Hc1 : 1 <= R c.
Hypothesis Hc2 : R c <= IZR M.

Let w := sub one s.
Let a := mul w est.
Let b := mul s c.
Let n := add a b.

Lemma M_bounds : 1 <= IZR M <= 2147483648.
Proof. split. apply (IZR_le 1); lia. apply (IZR_le _ 2147483648); lia. Qed.

Lemma s_nonneg : 0 <= R s.
Proof. pose proof M_bounds. pose proof u_pos. nra. Qed.

Lemma w_ok : fin w = true /\ R w = rnd (1 - R s) /\ 0 <= R w <= 1.
Proof.
  destruct R_one as [F1 E1].
  destruct (sub_ok one s F1 Hs) as [A B].
  { rewrite E1. apply bpow1000_big. pose proof s_nonneg. apply Rabs_le. lra. }
  split; [exact A|]. rewrite E1 in B. split; [exact B|]. unfold w. rewrite B.
  pose proof s_nonneg. split.
  - rewrite <- rnd_0. apply rnd_mono. lra.
  - apply Rle_trans with (rnd 1); [apply rnd_mono; lra | rewrite rnd_1; lra].
Qed.

Lemma s_pos : bpow radix2 (-53) <= R s.
Proof.
  pose proof M_bounds. pose proof u_pos. rewrite b53. fold u. nra.
Qed.

Lemma w_upper : R w <= (1 - R s) * (1 + u).
Proof.
  destruct w_ok as (_ & E & _). rewrite E.
  destruct (Req_dec (R s) 1) as [H1|H1].
  - rewrite H1. replace (1 - 1) with 0 by ring. rewrite rnd_0. lra.
  - (* s < 1 is a float, hence s <= pred 1 *)
    assert (Hlt: R s < 1) by lra.
    assert (Hp: R s <= 1 - bpow radix2 (-53)).
    { rewrite <- pred1. apply pred_ge_gt; auto with typeclass_instances. apply fmt_R. apply fmt1. }
    apply rnd_le_rel. apply Rle_trans with (1 := b1022_small). lra.
Qed.

Lemma w_lower_if_pos : R w = 0 \/ bpow radix2 (-53) <= R w.
Proof.
  destruct w_ok as (_ & E & _). rewrite E.
  destruct (Req_dec (R s) 1) as [H1|H1].
  - left. rewrite H1. replace (1 - 1) with 0 by ring. apply rnd_0.
  - right. assert (Hp: R s <= 1 - bpow radix2 (-53)).
    { rewrite <- pred1. apply pred_ge_gt; auto with typeclass_instances. apply fmt_R. apply fmt1. lra. }
    rewrite <- (rnd_id (bpow radix2 (-53))) by (apply fmt_bpow; lia). apply rnd_mono. lra.
Qed.

Lemma a_ok : fin a = true /\ R a = rnd (R w * R est).
Proof.
  destruct w_ok as (Fw & _ & Hw). apply mul_ok; auto. apply bpow1000_big.
  pose proof M_bounds. apply Rabs_le. split; nra.
Qed.
Lemma b_ok : fin b = true /\ R b = rnd (R s * R c).
Proof.
  apply mul_ok; auto. apply bpow1000_big. pose proof M_bounds. pose proof u_pos. apply Rabs_le. split; nra.
Qed.

Lemma a_lower : R w <= R a.
Proof.
  destruct a_ok as [_ E]. destruct w_ok as (_ & _ & Hw). rewrite E.
  rewrite <- (rnd_id (R w)) at 1 by apply fmt_R. apply rnd_mono. nra.
Qed.
Lemma b_lower : R s <= R b.
Proof.
  destruct b_ok as [_ E]. rewrite E. pose proof s_nonneg.
  rewrite <- (rnd_id (R s)) at 1 by apply fmt_R. apply rnd_mono. nra.
Qed.
Lemma a_upper : R a <= R w * (IZR M + /2) * (1 + u).
Proof.
  destruct a_ok as [_ E]. destruct w_ok as (_ & _ & Hw). rewrite E. pose proof u_pos.
  destruct w_lower_if_pos as [Z|P].
  - rewrite Z. replace (0 * R est) with 0 by ring. rewrite rnd_0. lra.
  - apply Rle_trans with (R w * R est * (1 + u)).
    + apply rnd_le_rel. apply Rle_trans with (1 := b1022_small). pose proof (bpow_ge_0 radix2 (-53)). nra.
    + apply Rmult_le_compat_r; [lra|]. nra.
Qed.
Lemma b_upper : R b <= R s * IZR M * (1 + u).
Proof.
  destruct b_ok as [_ E]. rewrite E. pose proof u_pos. pose proof s_pos.
  apply Rle_trans with (R s * R c * (1 + u)).
  - apply rnd_le_rel. apply Rle_trans with (1 := b1022_small). pose proof (bpow_ge_0 radix2 (-53)). nra.
  - apply Rmult_le_compat_r; [lra|]. pose proof s_nonneg. nra.
Qed.

Lemma sum_upper : R a + R b <= IZR M + /2.
Proof.
  pose proof a_upper. pose proof b_upper. pose proof w_upper. pose proof u_pos. pose proof u_small.
  pose proof M_bounds. destruct w_ok as (_ & _ & Hw).
  set (m := IZR M) in *. set (sv := R s) in *. set (wv := R w) in *.
  (* a + b <= (1+u) * (wv*(m+1/2) + sv*m) <= (1+u) * ((1-sv)(1+u)(m+1/2) + sv*m) *)
  assert (K1: R a + R b <= (1 + u) * (wv * (m + /2) + sv * m)) by nra.
  assert (K2: wv * (m + /2) <= (1 - sv) * (1 + u) * (m + /2)) by nra.
  assert (K3: (1 + u) * ((1 - sv) * (1 + u) * (m + /2) + sv * m) <= m + /2).
  { (* = (1+u) * (E - sv/2 + u (1-sv) E) with E = m + 1/2 ; uses sv >= 8 u m *)
    assert (Hsv: 8 * u * m <= sv) by (unfold sv, m; exact Hs1).
    assert (Hsv0: 0 <= sv) by (unfold sv; exact s_nonneg).
    assert (Hsv1: sv <= 1) by (unfold sv; exact Hs2).
    assert (Hum: 0 <= u * m) by (apply Rmult_le_pos; lra).
    assert (Huum: 0 <= u * u * m) by (apply Rmult_le_pos; [apply Rmult_le_pos; lra | lra]).
    assert (E1: (1 - sv) * (1 + u) * (m + /2) + sv * m = (m + /2) - sv / 2 + u * (m + /2) - u * sv * (m + /2)) by field.
    assert (Hpos: 0 <= u * sv * (m + /2)) by (apply Rmult_le_pos; [apply Rmult_le_pos; lra | lra]).
    assert (E2: (1 + u) * ((m + /2) - sv / 2 + u * (m + /2)) = (m + /2) + ((m + /2) * u * (2 + u) - (1 + u) * (sv / 2))) by field.
    assert (P1: (m + /2) * u * (2 + u) <= (3 / 2 * m) * u * (2 + u)).
    { apply Rmult_le_compat_r; [lra|]. apply Rmult_le_compat_r; lra. }
    assert (P3: (3 / 2 * m) * u * (2 + u) <= (1 + u) * (4 * u * m)).
    { replace ((3 / 2 * m) * u * (2 + u)) with (3 * (u * m) + 3 / 2 * (u * u * m)) by field.
      replace ((1 + u) * (4 * u * m)) with (4 * (u * m) + 4 * (u * u * m)) by field. lra. }
    assert (P4: (1 + u) * (4 * u * m) <= (1 + u) * (sv / 2)).
    { apply Rmult_le_compat_l; lra. }
    assert (Q: 0 <= 1 + u) by lra.
    assert (E3: (1 + u) * ((1 - sv) * (1 + u) * (m + /2) + sv * m) <= (1 + u) * ((m + /2) - sv / 2 + u * (m + /2))).
    { apply Rmult_le_compat_l; [exact Q|]. rewrite E1. lra. }
    rewrite E2 in E3. lra. }
  assert (K4: (1 + u) * (wv * (m + /2) + sv * m) <= (1 + u) * ((1 - sv) * (1 + u) * (m + /2) + sv * m)).
  { apply Rmult_le_compat_l; lra. }
  lra.
Qed.

Theorem smooth_bounds : fin n = true /\ 1 <= R n <= IZR M + /2.
Proof.
  destruct a_ok as [Fa _], b_ok as [Fb _]. pose proof sum_upper. pose proof a_lower. pose proof b_lower.
  destruct w_ok as (_ & Ew & Hw). pose proof M_bounds. pose proof u_pos. pose proof s_nonneg.
  destruct (add_ok a b Fa Fb) as [Fn En].
  { apply bpow1000_big. apply Rabs_le. split; lra. }
  split; [exact Fn|]. unfold n. rewrite En. split.
  - apply Rle_trans with (rnd (rnd (1 - R s) + R s)).
    + apply weights_ge_1. apply fmt_R. lra.
    + apply rnd_mono. rewrite <- Ew. lra.
  - rewrite <- (rnd_id (IZR M + /2)) by (apply fmt_half_int; lia). apply rnd_mono. lra.
Qed.
End Smooth.
Print Assumptions smooth_bounds.
