(* C08 for Gradient (partial): with the baseline unchanged, the gradient max(1/2, min(1, tolerance x baseline / rtt)) and the candidate
   est x gradient + queue allowance are antitone in the sample's RTT in binary64 (the division by a larger RTT rounds to a smaller
   quotient), and so is the new stored estimate when both candidates fall on the same side of the current estimate (both smoothed, or
   both taken as they are).  The mixed case (one candidate below the estimate, the other not) is decided by the twin-run oracle. *)
From Coq Require Import ZArith Reals Lia Lra Psatz Bool List.
From Flocq Require Import Core BinarySingleNaN.
From GCL Require Import Base.F64 Base.F64Facts Proofs.Smooth Model.Measure Model.Limits Proofs.VegasSafe Proofs.AimdProofs Proofs.GradSafe Proofs.Grad2Safe Proofs.VegasQueueMono.
Import ListNotations.
Open Scope R_scope.

Definition grad_gradient (tol : f64) (nli rtt : Z) : f64 := fmax half (fmin one (div (mul tol (of_int nli)) (of_int rtt))).
Definition grad_cand (g : grad) (q : Z) (gr : f64) : f64 := add (mul (g_est g) gr) (of_int q).
Definition grad_finish (g : grad) (q : Z) (newl : f64) : f64 :=
  let n1 := if flt newl (g_est g) then fmax (of_int (g_min g)) (add (mul (g_est g) (sub one (g_s g))) (mul (g_s g) newl)) else newl in
  fmax (of_int q) (fmin (of_int (g_max g)) n1).

Section G.
Variables (g : grad) (Mx : Z).
Hypothesis HI : GInv g Mx.

Lemma gradient_ok nli rtt : (0 <= nli <= 2^62)%Z -> (1 <= rtt <= 2^62)%Z ->
  fin (grad_gradient (g_tol g) nli rtt) = true /\ /2 <= R (grad_gradient (g_tol g) nli rtt) <= 1 /\
  R (grad_gradient (g_tol g) nli rtt) = Rmax (/2) (Rmin 1 (rnd (R (mul (g_tol g) (of_int nli)) / R (of_int rtt)))) /\
  fin (mul (g_tol g) (of_int nli)) = true /\ 0 <= R (mul (g_tol g) (of_int nli)).
Proof.
  intros Hn Hr. destruct HI as (C & _). destruct C as [cM cmin cmax cmm csf cs ctf ct].
  destruct (of_int_big nli Hn) as (Fni & Bni & _). destruct (of_int_big rtt ltac:(lia)) as (Frt & Brt & Prt). specialize (Prt ltac:(lia)). rewrite big in *.
  destruct R_one as [Fo Eo]. destruct R_half as [Fh Eh].
  destruct (mul_ok _ _ ctf Fni) as [Fa Ea].
  { apply bpow1000_big. apply Rabs_le. assert (0 <= R (g_tol g) * R (of_int nli)) by (apply Rmult_le_pos; lra).
    assert (R (g_tol g) * R (of_int nli) <= 1073741824 * 4611686018427387904) by (apply Rmult_le_compat; lra). split; lra. }
  assert (Ba: 0 <= R (mul (g_tol g) (of_int nli)) <= 1e28).
  { rewrite Ea. assert (0 <= R (g_tol g) * R (of_int nli)) by (apply Rmult_le_pos; lra).
    assert (R (g_tol g) * R (of_int nli) <= 1073741824 * 4611686018427387904) by (apply Rmult_le_compat; lra).
    split; [now apply rnd_nonneg|]. apply Rle_trans with (rnd (IZR (2^93))); [apply rnd_mono; change (IZR (2^93)) with 9903520314283042199192993792; lra|].
    rewrite rnd_id; [change (IZR (2^93)) with 9903520314283042199192993792; lra|]. change (IZR (2^93)) with (bpow radix2 93). apply fmt_bpow. lia. }
  assert (Q0: 0 <= R (mul (g_tol g) (of_int nli)) / R (of_int rtt) <= 1e28).
  { split; [unfold Rdiv; apply Rmult_le_pos; [lra|]; apply Rlt_le, Rinv_0_lt_compat; lra|]. apply Rle_trans with (R (mul (g_tol g) (of_int nli)) / 1); [|lra].
    unfold Rdiv. apply Rmult_le_compat_l; [lra|]. apply Rinv_le_contravar; lra. }
  destruct (div_ok _ _ Fa Frt) as [Fd Ed]; [lra|apply bpow1000_big; apply Rabs_le; split; lra|].
  destruct (fmin_ok _ _ Fo Fd) as [F1 E1]. destruct (fmax_ok _ _ Fh F1) as [F2 E2].
  unfold grad_gradient. split; [exact F2|]. rewrite E2, E1, Eh, Eo, Ed. split; [|split; [reflexivity|split; [exact Fa|lra]]].
  split; [apply Rmax_l|]. apply Rmax_lub; [lra|apply Rmin_l].
Qed.

(* a larger RTT gives a smaller (or equal) gradient *)
Lemma gradient_mono nli rtt1 rtt2 : (0 <= nli <= 2^62)%Z -> (1 <= rtt1 <= rtt2)%Z -> (rtt2 <= 2^62)%Z ->
  R (grad_gradient (g_tol g) nli rtt2) <= R (grad_gradient (g_tol g) nli rtt1).
Proof.
  intros Hn H12 H2. destruct (gradient_ok nli rtt1 Hn ltac:(lia)) as (_ & _ & E1 & _ & A0). destruct (gradient_ok nli rtt2 Hn ltac:(lia)) as (_ & _ & E2 & _ & _).
  rewrite E1, E2. pose proof (of_int_mono rtt1 rtt2 ltac:(lia) H2) as Mo.
  destruct (of_int_big rtt1 ltac:(lia)) as (_ & _ & P1). specialize (P1 ltac:(lia)).
  apply Rle_max_compat_l. apply Rle_min_compat_l. apply rnd_mono. unfold Rdiv. apply Rmult_le_compat_l; [exact A0|]. apply Rinv_le_contravar; lra.
Qed.

(* the candidate is monotone in the gradient *)
Lemma cand_ok q gr : (4 <= q <= Mx)%Z -> fin gr = true -> /2 <= R gr <= 1 ->
  fin (grad_cand g q gr) = true /\ R (grad_cand g q gr) = rnd (rnd (R (g_est g) * R gr) + IZR q) /\ 0 <= R (grad_cand g q gr) <= 1000000000000.
Proof.
  intros Hq Fg Bg. pose proof (Mx_b g Mx HI) as MB. destruct HI as (C & Fe & Be & _). destruct C as [cM cmin cmax cmm csf cs ctf ct].
  assert (P0: 0 <= R (g_est g)) by (assert (0 <= IZR (g_min g)) by (apply (IZR_le 0); lia); lra).
  destruct (of_int_exact q) as [Fq Rq]; [lia|].
  destruct (mul_ok _ _ Fe Fg) as [Fm Em].
  { apply bpow1000_big. apply Rabs_le. assert (0 <= R (g_est g) * R gr) by (apply Rmult_le_pos; lra).
    assert (R (g_est g) * R gr <= 2147483648 * 1) by (apply Rmult_le_compat; lra). split; lra. }
  assert (Bm: 0 <= R (mul (g_est g) gr) <= 100000000000).
  { rewrite Em. assert (0 <= R (g_est g) * R gr) by (apply Rmult_le_pos; lra).
    assert (R (g_est g) * R gr <= 2147483648 * 1) by (apply Rmult_le_compat; lra).
    split; [now apply rnd_nonneg|]. apply (rnd_le_int _ 100000000000); [reflexivity|lra]. }
  assert (Bq': 4 <= IZR q <= 2147483648) by (split; [apply (IZR_le 4)|apply (IZR_le _ 2147483648)]; lia).
  destruct (add_ok _ _ Fm Fq) as [Fc Ec]; [rewrite Rq; apply bpow1000_big; apply Rabs_le; split; lra|].
  unfold grad_cand. split; [exact Fc|]. rewrite Ec, Rq, Em. split; [reflexivity|].
  rewrite <- Em. split; [apply rnd_nonneg; lra|]. apply (rnd_le_int _ 1000000000000); [reflexivity|lra].
Qed.

Lemma cand_mono q gr1 gr2 : (4 <= q <= Mx)%Z -> fin gr1 = true -> fin gr2 = true -> /2 <= R gr2 <= R gr1 -> R gr1 <= 1 ->
  R (grad_cand g q gr2) <= R (grad_cand g q gr1).
Proof.
  intros Hq F1 F2 B12 B1. destruct (cand_ok q gr1 Hq F1 ltac:(lra)) as (_ & E1 & _). destruct (cand_ok q gr2 Hq F2 ltac:(lra)) as (_ & E2 & _).
  rewrite E1, E2. destruct HI as (C & _ & Be & _). destruct C as [cM cmin _ _ _ _ _ _].
  assert (P0: 0 <= R (g_est g)) by (assert (0 <= IZR (g_min g)) by (apply (IZR_le 0); lia); lra).
  apply rnd_mono. apply Rplus_le_compat_r. apply rnd_mono. apply Rmult_le_compat_l; lra.
Qed.

(* the smoothing step as a function of the candidate *)
Lemma smooth_ok newl : fin newl = true -> 0 <= R newl <= 1000000000000 ->
  let sm := add (mul (g_est g) (sub one (g_s g))) (mul (g_s g) newl) in
  fin sm = true /\ R sm = rnd (R (mul (g_est g) (sub one (g_s g))) + rnd (R (g_s g) * R newl)).
Proof.
  intros Fnew Bnew sm. pose proof (Mx_b g Mx HI) as MB. destruct HI as (C & Fe & Be & _). destruct C as [cM cmin cmax cmm csf cs ctf ct].
  destruct R_one as [Fo Eo].
  destruct (sub_ok one (g_s g) Fo csf) as [Fw Ew]; [rewrite Eo; apply bpow1000_big; apply Rabs_le; split; lra|].
  assert (Bw: 0 <= R (sub one (g_s g)) <= 1).
  { rewrite Ew, Eo. split; [apply rnd_nonneg; lra|]. change 1 with (IZR 1) at 2. apply rnd_le_int; [reflexivity|simpl; lra]. }
  assert (P0: 0 <= R (g_est g)) by (assert (0 <= IZR (g_min g)) by (apply (IZR_le 0); lia); lra).
  destruct (mul_ok _ _ Fe Fw) as [Fa Ea].
  { apply bpow1000_big. apply Rabs_le. assert (0 <= R (g_est g) * R (sub one (g_s g))) by (apply Rmult_le_pos; tauto).
    assert (R (g_est g) * R (sub one (g_s g)) <= 2147483648 * 1) by (apply Rmult_le_compat; lra). split; lra. }
  destruct (mul_ok _ _ csf Fnew) as [Fb Eb].
  { apply bpow1000_big. apply Rabs_le. assert (0 <= R (g_s g) * R newl) by (apply Rmult_le_pos; tauto).
    assert (R (g_s g) * R newl <= 1 * 1000000000000) by (apply Rmult_le_compat; lra). split; lra. }
  assert (Ba: 0 <= R (mul (g_est g) (sub one (g_s g))) <= 10000000000000).
  { rewrite Ea. assert (0 <= R (g_est g) * R (sub one (g_s g))) by (apply Rmult_le_pos; tauto).
    assert (R (g_est g) * R (sub one (g_s g)) <= 2147483648 * 1) by (apply Rmult_le_compat; lra).
    split; [now apply rnd_nonneg|]. apply (rnd_le_int _ 10000000000000); [reflexivity|lra]. }
  assert (Bb: 0 <= R (mul (g_s g) newl) <= 10000000000000).
  { rewrite Eb. assert (0 <= R (g_s g) * R newl) by (apply Rmult_le_pos; tauto).
    assert (R (g_s g) * R newl <= 1 * 1000000000000) by (apply Rmult_le_compat; lra).
    split; [now apply rnd_nonneg|]. apply (rnd_le_int _ 10000000000000); [reflexivity|lra]. }
  destruct (add_ok _ _ Fa Fb) as [Fc Ec]; [apply bpow1000_big; apply Rabs_le; split; lra|].
  split; [exact Fc|]. unfold sm. rewrite Ec, Eb. reflexivity.
Qed.

(* same side of the estimate: the finished value is monotone in the candidate *)
Theorem finish_mono q n1 n2 : (4 <= q <= Mx)%Z -> fin n1 = true -> fin n2 = true ->
  0 <= R n2 <= R n1 -> R n1 <= 1000000000000 ->
  flt n1 (g_est g) = flt n2 (g_est g) ->
  R (grad_finish g q n2) <= R (grad_finish g q n1).
Proof.
  intros Hq F1 F2 B12 B1 Side. unfold grad_finish. cbv zeta. rewrite Side.
  destruct HI as (C & Fe & Be & _). destruct C as [cM cmin cmax cmm csf cs ctf ct].
  destruct (of_int_exact q) as [Fq Rq]; [lia|]. destruct (of_int_exact (g_min g)) as [Fmn Rmn]; [lia|]. destruct (of_int_exact (g_max g)) as [Fmx Rmx]; [lia|].
  assert (Clamp: forall a b, fin a = true -> fin b = true -> R b <= R a ->
            R (fmax (of_int q) (fmin (of_int (g_max g)) b)) <= R (fmax (of_int q) (fmin (of_int (g_max g)) a))).
  { intros a b Fa Fb Hab. destruct (fmin_ok _ _ Fmx Fa) as [Fa1 Ea1]. destruct (fmin_ok _ _ Fmx Fb) as [Fb1 Eb1].
    destruct (fmax_ok _ _ Fq Fa1) as [_ Ea2]. destruct (fmax_ok _ _ Fq Fb1) as [_ Eb2]. rewrite Ea2, Eb2, Ea1, Eb1.
    apply Rle_max_compat_l. apply Rle_min_compat_l. exact Hab. }
  destruct (flt n2 (g_est g)).
  - destruct (smooth_ok n1 F1 ltac:(lra)) as [S1 E1]. destruct (smooth_ok n2 F2 ltac:(lra)) as [S2 E2]. cbv zeta in *.
    destruct (fmax_ok _ _ Fmn S1) as [G1 H1]. destruct (fmax_ok _ _ Fmn S2) as [G2 H2].
    apply Clamp; auto. rewrite H1, H2. apply Rle_max_compat_l. rewrite E1, E2. apply rnd_mono. apply Rplus_le_compat_l. apply rnd_mono.
    apply Rmult_le_compat_l; lra.
  - apply Clamp; auto. lra.
Qed.
End G.

(* ---- tie to grad_step: the growth branch computes exactly grad_finish (grad_cand (grad_gradient ...)) ---- *)
Lemma grad_step_growth g s o q : sqrt_q (to_int (g_est g)) = Some q ->
  s_drop s = false -> (0 < s_rtt s)%Z ->
  min_add (g_noload g) (of_int (s_rtt s)) = g_noload g ->             (* the sample does not lower the baseline *)
  flt (of_int (s_inflight s)) (div (g_est g) two) = false ->           (* not app-limited *)
  grad_step g s = Some o -> o_branch o <> 1%Z ->
  g_est (o_st o) = grad_finish g q (grad_cand g q (grad_gradient (g_tol g) (to_int (g_noload g)) (s_rtt s))).
Proof.
  intros Eq Hd Hr Hn Hs. unfold grad_step. rewrite Eq. cbv beta zeta.
  destruct (negb (g_int g =? -1) && _).
  { intros H Hb; injection H as H; subst o. cbn [o_branch mk] in Hb. congruence. }
  rewrite Hd, Hs, Hn. destruct (Z.ltb_spec 0 (s_rtt s)) as [_|]; [|lia].
  intros H _; injection H as H; subst o. reflexivity.
Qed.

Theorem grad_rtt_mono g Mx s1 s2 o1 o2 q : GInv g Mx -> gsample_ok s1 -> gsample_ok s2 ->
  sqrt_q (to_int (g_est g)) = Some q -> (4 <= q <= Mx)%Z ->
  s_drop s1 = false -> s_drop s2 = false -> s_inflight s2 = s_inflight s1 ->
  (1 <= s_rtt s1 <= s_rtt s2)%Z ->
  min_add (g_noload g) (of_int (s_rtt s1)) = g_noload g -> min_add (g_noload g) (of_int (s_rtt s2)) = g_noload g ->
  flt (of_int (s_inflight s1)) (div (g_est g) two) = false ->
  grad_step g s1 = Some o1 -> grad_step g s2 = Some o2 -> o_branch o1 <> 1%Z -> o_branch o2 <> 1%Z ->
  let c1 := grad_cand g q (grad_gradient (g_tol g) (to_int (g_noload g)) (s_rtt s1)) in
  let c2 := grad_cand g q (grad_gradient (g_tol g) (to_int (g_noload g)) (s_rtt s2)) in
  R c2 <= R c1 /\ (flt c1 (g_est g) = flt c2 (g_est g) -> R (g_est (o_st o2)) <= R (g_est (o_st o1))).
Proof.
  intros HI HS1 HS2 Eq Hq Hd1 Hd2 Ei Hr Hn1 Hn2 Hs E1 E2 Hb1 Hb2 c1 c2.
  assert (Hs2: flt (of_int (s_inflight s2)) (div (g_est g) two) = false) by (rewrite Ei; exact Hs).
  rewrite (grad_step_growth g s1 o1 q Eq Hd1 ltac:(lia) Hn1 Hs E1 Hb1), (grad_step_growth g s2 o2 q Eq Hd2 ltac:(lia) Hn2 Hs2 E2 Hb2).
  fold c1 c2.
  assert (Bn: (0 <= to_int (g_noload g) <= 2^62)%Z).
  { destruct HI as (_ & _ & _ & Fn & Bn). apply to_int_range2; auto; try lia; [change (IZR 0) with 0|]; tauto. }
  destruct HS2 as [[_ R2] _].
  destruct (gradient_ok g Mx HI _ (s_rtt s1) Bn ltac:(lia)) as (F1 & B1 & _). destruct (gradient_ok g Mx HI _ (s_rtt s2) Bn ltac:(lia)) as (F2 & B2 & _).
  pose proof (gradient_mono g Mx HI _ (s_rtt s1) (s_rtt s2) Bn Hr R2) as GM.
  assert (CM: R c2 <= R c1) by (apply (cand_mono g Mx HI q _ _ Hq F1 F2); lra).
  split; [exact CM|]. intros Side.
  destruct (cand_ok g Mx HI q _ Hq F1 B1) as (Fc1 & _ & Bc1). destruct (cand_ok g Mx HI q _ Hq F2 B2) as (Fc2 & _ & Bc2).
  apply (finish_mono g Mx HI q c1 c2 Hq Fc1 Fc2); [unfold c1, c2 in *; lra|unfold c1; lra|exact Side].
Qed.
