From Coq Require Import ZArith List Bool Lia.
From GCL Require Import Model.Grpc.
Import ListNotations.
Open Scope Z_scope.

(* number of token completions in a trace *)
Definition tokens (t : list event) : list (id * outcome) :=
  flat_map (fun e => match e with EToken l o => [(l, o)] | _ => [] end) t.
Definition acquires (t : list event) : list id :=
  flat_map (fun e => match e with EAcquire l => [l] | _ => [] end) t.
Definition calls (t : list event) : nat := length (filter (fun e => match e with ECall => true | _ => false end) t).

(* position of the first element satisfying f *)
Fixpoint index_of (f : event -> bool) (t : list event) : option nat :=
  match t with [] => None | e :: r => if f e then Some O else option_map S (index_of f r) end.
Definition is_acq e := match e with EAcquire _ => true | _ => false end.
Definition is_call e := match e with ECall => true | _ => false end.
Definition is_tok e := match e with EToken _ _ => true | _ => false end.

(* The full contract of one wrapped operation, stated on the visible trace. *)
Definition contract (lim lcls rcls : id) (acquire_ok consulted : bool) (cls : outcome) (p : list event * result) : Prop :=
  acquires (fst p) = [lim] /\ hd_error (fst p) = Some (EAcquire lim) /\
  if acquire_ok then
    calls (fst p) = 1%nat /\ snd p = RCall /\
    tokens (fst p) = [(lim, if consulted then cls else Success)] /\
    (consulted = true -> In (ERespClass rcls) (fst p)) /\
    (consulted = false -> forall c, ~ In (ERespClass c) (fst p)) /\
    (exists i j k : nat, index_of is_acq (fst p) = Some i /\ index_of is_call (fst p) = Some j /\
                   index_of is_tok (fst p) = Some k /\ (i < j < k)%nat)
  else
    calls (fst p) = 0%nat /\ tokens (fst p) = [] /\ snd p = RStatus lcls /\
    In (ELimitClass lcls lim) (fst p).

Lemma unary_contract (server : bool) c ok cls :
  contract (u_limiter c) (u_limit_class c) (if server then u_server_class c else u_client_class c)
           ok true cls (unary server c ok cls).
Proof.
  unfold contract, unary. destruct ok; cbn; repeat split; auto; try discriminate.
  exists 0%nat, 1%nat, 3%nat. repeat split; auto; lia.
Qed.

Lemma stream_contract (recv : bool) c ok err cls :
  contract (if recv then s_recv c else s_send c)
           (if recv then s_recv_limit_class c else s_send_limit_class c)
           (if recv then s_server_class c else s_client_class c)
           ok err cls (stream_op recv c ok err cls).
Proof.
  unfold contract, stream_op. destruct ok, err; cbn; repeat split; auto; try discriminate.
  - exists 0%nat, 1%nat, 3%nat. repeat split; auto; lia.
  - intros _ k [H|[H|[H|[]]]]; discriminate.
  - exists 0%nat, 1%nat, 2%nat. repeat split; auto; lia.
Qed.

(* options: each With... overrides exactly its own field, the last one wins, others are untouched *)
Definition u_get (f : Z) (c : ucfg) : id :=
  if f =? 1 then u_limiter c else if f =? 2 then u_limit_class c else if f =? 3 then u_server_class c else u_client_class c.
Definition u_field (o : uopt) : option (Z * id) :=
  match o with WithLimiter l => Some (1, l) | WithLimitExceeded k => Some (2, k) | WithServerClass k => Some (3, k)
             | WithClientClass k => Some (4, k) | _ => None end.
Definition last_set (f : Z) (opts : list uopt) (d : id) : id :=
  fold_left (fun acc o => match u_field o with Some (g, v) => if g =? f then v else acc | None => acc end) opts d.

Lemma u_apply_get f c o : 1 <= f <= 4 ->
  u_get f (u_apply c o) = match u_field o with Some (g, v) => if g =? f then v else u_get f c | None => u_get f c end.
Proof.
  intros Hf. assert (f = 1 \/ f = 2 \/ f = 3 \/ f = 4) as [->|[->|[->| ->]]] by lia; destruct o; reflexivity.
Qed.

Lemma u_options_exact f opts : 1 <= f <= 4 -> forall c, u_get f (fold_left u_apply opts c) = last_set f opts (u_get f c).
Proof.
  intros Hf. induction opts as [|o r IH]; intros c; cbn [fold_left last_set]; [reflexivity|].
  rewrite IH. unfold last_set. rewrite u_apply_get by exact Hf. reflexivity.
Qed.

Definition s_get (f : Z) (c : scfg) : id :=
  if f =? 1 then s_recv c else if f =? 2 then s_send c else if f =? 3 then s_recv_limit_class c
  else if f =? 4 then s_send_limit_class c else if f =? 5 then s_server_class c else s_client_class c.
Definition s_field (o : sopt) : option (Z * id) :=
  match o with WithRecvLimiter l => Some (1, l) | WithSendLimiter l => Some (2, l) | WithRecvLimitExceeded k => Some (3, k)
             | WithSendLimitExceeded k => Some (4, k) | WithStreamServerClass k => Some (5, k)
             | WithStreamClientClass k => Some (6, k) | _ => None end.
Definition s_last_set (f : Z) (opts : list sopt) (d : id) : id :=
  fold_left (fun acc o => match s_field o with Some (g, v) => if g =? f then v else acc | None => acc end) opts d.
Lemma s_apply_get f c o : 1 <= f <= 6 ->
  s_get f (s_apply c o) = match s_field o with Some (g, v) => if g =? f then v else s_get f c | None => s_get f c end.
Proof.
  intros Hf. assert (f = 1 \/ f = 2 \/ f = 3 \/ f = 4 \/ f = 5 \/ f = 6) as [->|[->|[->|[->|[->| ->]]]]] by lia; destruct o; reflexivity.
Qed.
Lemma s_options_exact f opts : 1 <= f <= 6 -> forall c, s_get f (fold_left s_apply opts c) = s_last_set f opts (s_get f c).
Proof.
  intros Hf. induction opts as [|o r IH]; intros c; cbn [fold_left s_last_set]; [reflexivity|].
  rewrite IH. unfold s_last_set. rewrite s_apply_get by exact Hf. reflexivity.
Qed.

(* sequences of stream operations: every operation individually meets the contract, whatever came before *)
Record sop := { so_recv : bool; so_ok : bool; so_err : bool; so_cls : outcome }.
Definition run_stream (c : scfg) (ops : list sop) : list (list event * result) :=
  map (fun o => stream_op (so_recv o) c (so_ok o) (so_err o) (so_cls o)) ops.
Lemma stream_sequence c ops :
  Forall2 (fun o p => contract (if so_recv o then s_recv c else s_send c)
                               (if so_recv o then s_recv_limit_class c else s_send_limit_class c)
                               (if so_recv o then s_server_class c else s_client_class c)
                               (so_ok o) (so_err o) (so_cls o) p) ops (run_stream c ops).
Proof. induction ops as [|o r IH]; cbn; constructor; auto. apply stream_contract. Qed.
