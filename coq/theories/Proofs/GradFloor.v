(* C06 for Gradient, floor reachability: every drop sample (probe step or not) contracts the stored estimate geometrically towards the floor:
   est' <= max(max(min, 4), est x (1 - smoothing/4)).  Hence after n drop samples est_n <= max(max(min,4), est_0 x (1 - smoothing/4)^n):
   the reported estimate is at the floor max(min, 4) after log(est_0) / log(1/(1 - smoothing/4)) samples - a bound fixed by the configuration. *)
From Coq Require Import ZArith Reals Lia Lra Psatz Bool List.
From Flocq Require Import Core BinarySingleNaN.
From GCL Require Import Base.F64 Base.F64Facts Proofs.Smooth Model.Measure Model.Limits Proofs.VegasSafe Proofs.AimdProofs Proofs.GradSafe Proofs.Grad2Safe Proofs.GradDrop Proofs.VegasDrop Proofs.DropRuns Proofs.GradRecover.
Import ListNotations.
Open Scope R_scope.

(* the queue allowance is small next to the estimate it is computed from: 4q <= max(16, 3n) *)
Lemma sqrt_q_small n : (0 <= n < 2^31)%Z -> exists q, sqrt_q n = Some q /\ (4 <= q)%Z /\ (4 * q <= Z.max 16 (3 * n))%Z.
Proof.
  intros Hn. unfold sqrt_q. destruct (Z.ltb_spec n 0); [lia|]. destruct (Z.ltb_spec n TBL).
  - eexists; split; [reflexivity|]. unfold sqrt_tbl. pose proof (Z.sqrt_spec n ltac:(lia)) as [S1 _]. pose proof (Z.sqrt_nonneg n). split; [lia|].
    destruct (Z.le_gt_cases (Z.sqrt n) 4); [lia|]. nia.
  - eexists; split; [reflexivity|]. unfold TBL in *. split; [lia|].
    destruct (of_int_exact n) as [Fn En]; [lia|].
    assert (Hn1: 1000 <= IZR n) by (apply (IZR_le 1000); lia).
    destruct (fsqrt_ok (of_int n) Fn) as [Fs Es]; [rewrite En; lra|]. rewrite En in Es.
    assert (S1: 0 <= sqrt (IZR n)) by apply sqrt_pos.
    assert (B: (0 <= to_int (fsqrt (of_int n)) <= n / 4)%Z).
    { assert (D2: (n < 4 * (n / 4) + 4)%Z) by (pose proof (Z.mod_pos_bound n 4 ltac:(lia)); pose proof (Z.div_mod n 4 ltac:(lia)); lia).
      assert (D3: (0 <= n / 4 < 2^31)%Z) by (split; [apply Z.div_pos; lia|apply Z.div_lt_upper_bound; lia]).
      apply to_int_range2; [exact Fs| | |lia|lia]; rewrite Es.
      - change (IZR 0) with 0. apply rnd_nonneg. exact S1.
      - apply rnd_le_int; [lia|].
        assert (Q: sqrt (IZR n) * sqrt (IZR n) = IZR n) by (apply sqrt_sqrt; lra).
        assert (31 <= sqrt (IZR n)).
        { replace 31 with (sqrt (31 * 31)) by (rewrite sqrt_square; lra). apply sqrt_le_1_alt. lra. }
        assert (IZR n < 4 * IZR (n / 4) + 4) by (rewrite <- (mult_IZR 4), <- (plus_IZR _ 4); apply IZR_lt; exact D2).
        nra. }
    assert (D: (4 * (n / 4) <= n)%Z) by (apply Z.mul_div_le; lia).
    lia.
Qed.

Lemma drop_contract_ineq e s d : 4 <= e <= 2147483648 -> / 1099511627776 <= s <= 1 -> 0 < d <= / 1000000000000000000000000000000 ->
  ((e*((1-s)*(1+u)+d)*(1+u)+d) + (s*((e/2)*(1+u)+d)*(1+u)+d))*(1+u)+d <= e * (1 - s/4).
Proof.
  intros He Hs Hd. set (k := 1 + u). assert (K: k = 1 + / 9007199254740992) by reflexivity.
  assert (P: (1-s)*k*k*k + (s/2)*k*k*k <= 1 - s/4 - s/8) by (rewrite K; nra).
  assert (Q: d*k*k <= 2*d) by (rewrite K; nra).
  assert (K1: 1 <= k <= 2) by (rewrite K; lra).
  replace (((e*((1-s)*k+d)*k+d) + (s*((e/2)*k+d)*k+d))*k+d)
     with (e * ((1-s)*k*k*k + (s/2)*k*k*k) + e * (d*k*k) + s * (d*k*k) + d*k + d*k + d) by (unfold Rdiv; ring).
  assert (T1: e * ((1-s)*k*k*k + (s/2)*k*k*k) <= e * (1 - s/4 - s/8)) by (apply Rmult_le_compat_l; lra).
  assert (T2: e * (d*k*k) <= e * (2*d)) by (apply Rmult_le_compat_l; lra).
  assert (T3: s * (d*k*k) <= 1 * (2*d)) by (apply Rmult_le_compat; nra).
  assert (T4: e * (2*d) <= e * / 400000000000000000000000000000) by (apply Rmult_le_compat_l; lra).
  assert (T5: d * k <= d * 2) by (apply Rmult_le_compat_l; lra).
  assert (T6: e * (s/8) >= 4 * (/ 1099511627776 / 8)) by nra.
  assert (T7: e * / 400000000000000000000000000000 <= 2147483648 * / 400000000000000000000000000000) by (apply Rmult_le_compat_r; lra).
  nra.
Qed.

Definition gfloor (g : grad) : Z := Z.max (g_min g) 4.

Theorem grad_drop_contracts g Mx s o : GInv g Mx -> gsample_ok s -> s_drop s = true ->
  / 1099511627776 <= R (g_s g) ->          (* smoothing >= 2^-40 *)
  4 <= R (g_est g) ->
  grad_step g s = Some o ->
  R (g_est (o_st o)) <= Rmax (IZR (gfloor g)) (R (g_est g) * (1 - R (g_s g) / 4)).
Proof.
  intros HI HS Hd Hs H4. pose proof (Mx_b g Mx HI) as MB. pose proof (gest_int g Mx HI) as EI.
  destruct HI as (C & Fe & Be & Fn & Bn). destruct HS as [Hr Hi]. destruct C as [cM cmin cmax cmm csf cs ctf ct].
  unfold grad_step. destruct (sqrt_q_small (to_int (g_est g))) as (q & Eq & Q4 & Bq); [lia|]. rewrite Eq, Hd. cbv zeta.
  assert (E0: 0 <= R (g_est g) <= 4611686018427387904) by lra.
  pose proof (to_int_le _ Fe E0) as TI.
  assert (Hq: (4 <= q <= Mx)%Z) by lia.
  destruct (of_int_exact q) as [Fq Rq]; [lia|]. destruct (of_int_exact (g_min g)) as [Fmn Rmn]; [lia|].
  set (rho := 1 - R (g_s g) / 4). assert (Rho: 3/4 <= rho <= 1) by (unfold rho; lra).
  (* the queue allowance is below the target *)
  assert (Qe: IZR q <= Rmax (IZR (gfloor g)) (R (g_est g) * rho)).
  { assert (QZ: IZR (4 * q) <= IZR (Z.max 16 (3 * to_int (g_est g)))) by (apply IZR_le; exact Bq).
    rewrite mult_IZR in QZ. destruct (Z.max_spec 16 (3 * to_int (g_est g))) as [[_ E]|[_ E]]; rewrite E in QZ.
    - rewrite mult_IZR in QZ. apply Rle_trans with (2 := Rmax_r _ _). simpl in QZ. nra.
    - apply Rle_trans with (2 := Rmax_l _ _). unfold gfloor. apply Rle_trans with 4; [simpl in QZ; lra|]. apply (IZR_le 4). lia. }
  assert (Me: IZR (g_min g) <= Rmax (IZR (gfloor g)) (R (g_est g) * rho)).
  { apply Rle_trans with (2 := Rmax_l _ _). apply IZR_le. unfold gfloor. lia. }
  destruct (negb (g_int g =? -1) && _).
  { intros H; injection H as H; subst o. cbn [o_st mk grad_set g_est]. destruct (fmax_ok _ _ Fmn Fq) as [F E]. rewrite E, Rmn, Rq. apply Rmax_lub; assumption. }
  intros H; injection H as H; subst o. cbn [o_st mk grad_set g_est].
  (* halving *)
  assert (Ftwo: fin two = true /\ R two = 2) by (apply (of_int_exact 2); reflexivity). destruct Ftwo as [F2 E2].
  destruct (div_ok (g_est g) two Fe F2) as [Fh Eh]; [rewrite E2; lra|rewrite E2; apply bpow1000_big; apply Rabs_le; split; lra|]. rewrite E2 in Eh.
  set (nl := div (g_est g) two) in *.
  pose proof dd_small as [D0 D1]. pose proof u_pos as U0.
  assert (Bh: 0 <= R nl <= R (g_est g) / 2 * (1 + u) + dd /\ R nl < R (g_est g)).
  { rewrite Eh. split; [split; [apply rnd_nonneg; lra|apply rnd_up; lra]|].
    apply Rle_lt_trans with (R (g_est g) / 2 * (1 + u) + dd); [apply rnd_up; lra|]. unfold u. lra. }
  destruct Bh as [Bh1 Bh2].
  (* smoothing *)
  destruct R_one as [Fo Eo].
  destruct (sub_ok one (g_s g) Fo csf) as [Fw Ew]; [rewrite Eo; apply bpow1000_big; apply Rabs_le; split; lra|]. rewrite Eo in Ew.
  assert (Bw: 0 <= R (sub one (g_s g)) <= (1 - R (g_s g)) * (1 + u) + dd) by (rewrite Ew; split; [apply rnd_nonneg; lra|apply rnd_up; lra]).
  assert (W1: R (sub one (g_s g)) <= 1) by (rewrite Ew; apply (rnd_le_int _ 1); [reflexivity|simpl; lra]).
  destruct (mul_ok _ _ Fe Fw) as [Fa Ea].
  { apply bpow1000_big. apply Rabs_le. assert (0 <= R (g_est g) * R (sub one (g_s g))) by (apply Rmult_le_pos; lra).
    assert (R (g_est g) * R (sub one (g_s g)) <= 2147483648 * 1) by (apply Rmult_le_compat; lra). split; lra. }
  destruct (mul_ok _ _ csf Fh) as [Fb Eb].
  { apply bpow1000_big. apply Rabs_le. assert (0 <= R (g_s g) * R nl) by (apply Rmult_le_pos; lra).
    assert (R (g_s g) * R nl <= 1 * 2147483648) by (apply Rmult_le_compat; lra). split; lra. }
  assert (A1: 0 <= R (mul (g_est g) (sub one (g_s g))) <= R (g_est g) * ((1 - R (g_s g)) * (1 + u) + dd) * (1 + u) + dd).
  { rewrite Ea. assert (P: 0 <= R (g_est g) * R (sub one (g_s g))) by (apply Rmult_le_pos; lra).
    split; [now apply rnd_nonneg|]. apply Rle_trans with (1 := rnd_up _ P). apply Rplus_le_compat_r. apply Rmult_le_compat_r; [lra|].
    apply Rmult_le_compat_l; lra. }
  assert (B1: 0 <= R (mul (g_s g) nl) <= R (g_s g) * (R (g_est g) / 2 * (1 + u) + dd) * (1 + u) + dd).
  { rewrite Eb. assert (P: 0 <= R (g_s g) * R nl) by (apply Rmult_le_pos; lra).
    split; [now apply rnd_nonneg|]. apply Rle_trans with (1 := rnd_up _ P). apply Rplus_le_compat_r. apply Rmult_le_compat_r; [lra|].
    apply Rmult_le_compat_l; lra. }
  assert (A2: R (mul (g_est g) (sub one (g_s g))) <= 2147483648).
  { rewrite Ea. apply (rnd_le_int _ 2147483648); [reflexivity|]. apply Rle_trans with (2147483648 * 1); [apply Rmult_le_compat; lra|simpl; lra]. }
  assert (B2: R (mul (g_s g) nl) <= 2147483648).
  { rewrite Eb. apply (rnd_le_int _ 2147483648); [reflexivity|]. apply Rle_trans with (1 * 2147483648); [apply Rmult_le_compat; lra|simpl; lra]. }
  destruct (add_ok _ _ Fa Fb) as [Fc Ec]; [apply bpow1000_big; apply Rabs_le; split; lra|].
  assert (Sm: R (add (mul (g_est g) (sub one (g_s g))) (mul (g_s g) nl)) <= R (g_est g) * rho).
  { rewrite Ec. apply Rle_trans with ((R (mul (g_est g) (sub one (g_s g))) + R (mul (g_s g) nl)) * (1 + u) + dd); [apply rnd_up; lra|].
    apply Rle_trans with (((R (g_est g) * ((1 - R (g_s g)) * (1 + u) + dd) * (1 + u) + dd) + (R (g_s g) * (R (g_est g) / 2 * (1 + u) + dd) * (1 + u) + dd)) * (1 + u) + dd).
    { apply Rplus_le_compat_r. apply Rmult_le_compat_r; lra. }
    unfold rho. apply drop_contract_ineq; lra. }
  (* the halved candidate is below the estimate: the smoothing branch is taken *)
  rewrite (flt_R _ _ Fh Fe). destruct (Rlt_bool_spec (R nl) (R (g_est g))) as [_|Hge]; [|lra].
  destruct (fmax_ok _ _ Fmn Fc) as [F1 E1]. destruct (of_int_exact (g_max g)) as [Fm Em]; [lia|].
  destruct (fmin_ok _ _ Fm F1) as [F3 E3]. destruct (fmax_ok _ _ Fq F3) as [F4 E4].
  refine (Rle_trans _ _ _ (Req_le _ _ E4) _). rewrite E3, E1, Rq, Rmn.
  apply Rmax_lub; [exact Qe|]. apply Rle_trans with (1 := Rmin_r _ _). apply Rmax_lub; [exact Me|].
  apply Rle_trans with (1 := Sm). apply Rmax_r.
Qed.

(* ---- runs of drops ---- *)
Lemma Rmax_contract F x rho p : 0 <= F -> 0 <= p <= 1 -> 0 <= rho -> Rmax F (Rmax F (x * rho) * p) <= Rmax F (x * (rho * p)).
Proof.
  intros HF Hp Hr. apply Rmax_lub; [apply Rmax_l|].
  destruct (Rmax_case F (x * rho) (fun m => m = F \/ m = x * rho)) as [E|E]; auto; rewrite E.
  - apply Rle_trans with (F * 1); [apply Rmult_le_compat_l; lra|]. rewrite Rmult_1_r. apply Rmax_l.
  - rewrite Rmult_assoc. apply Rmax_r.
Qed.

Theorem grad_drop_run_contracts Mx ss : forall g g', GInv g Mx -> 4 <= R (g_est g) -> / 1099511627776 <= R (g_s g) ->
  Forall (fun s => gsample_ok s /\ s_drop s = true) ss -> grad_run g ss = Some g' ->
  R (g_est g') <= Rmax (IZR (gfloor g)) (R (g_est g) * (1 - R (g_s g) / 4) ^ length ss) /\ IZR (gfloor g) <= R (g_est g').
Proof.
  induction ss as [|s r IH]; intros g g' HI H4 Hs HL E; cbn [grad_run] in E.
  - injection E as <-. cbn [length pow]. rewrite Rmult_1_r. split; [apply Rmax_r|].
    destruct HI as (C & _ & Be & _). unfold gfloor. destruct (Z.max_spec (g_min g) 4) as [[_ ->]|[_ ->]]; simpl; lra.
  - inversion HL as [|? ? [Hs1 Hd] Hr]; subst. destruct (grad_step_safe g Mx s HI Hs1) as (o & Eo & Io). rewrite Eo in E.
    pose proof (grad_drop_contracts g Mx s o HI Hs1 Hd Hs H4 Eo) as Step.
    pose proof (grad_step_ge4 g Mx s o HI Hs1 H4 Eo) as H4'.
    destruct (grad_step_fields g s o Eo) as (Es & _ & _ & Emin & _).
    assert (Fl: gfloor (o_st o) = gfloor g) by (unfold gfloor; rewrite Emin; reflexivity).
    specialize (IH (o_st o) g' Io H4'). rewrite Es, Fl in IH. destruct (IH Hs Hr E) as [IH1 IH2]. split; [|exact IH2].
    assert (HS1: R (g_s g) <= 1) by (destruct HI as ([_ _ _ _ _ [_ ?] _ _] & _); assumption).
    set (rho := 1 - R (g_s g) / 4) in *. assert (Rho: 0 <= rho <= 1) by (unfold rho; lra).
    assert (P: 0 <= rho ^ length r <= 1).
    { split; [apply pow_le; lra|]. rewrite <- (pow1 (length r)). apply pow_incr. lra. }
    assert (F0: 0 <= IZR (gfloor g)) by (apply (IZR_le 0); unfold gfloor; lia).
    apply Rle_trans with (1 := IH1). cbn [length pow].
    apply Rle_trans with (Rmax (IZR (gfloor g)) (Rmax (IZR (gfloor g)) (R (g_est g) * rho) * rho ^ length r)).
    + apply Rmax_lub; [apply Rmax_l|]. apply Rle_trans with (2 := Rmax_r _ _). apply Rmult_le_compat_r; [lra|exact Step].
    + apply Rmax_contract; lra.
Qed.

(* once est_0 x (1 - s/4)^n < floor + 1 the reported estimate IS the floor max(min, 4) *)
Corollary grad_floor_reached Mx ss g g' : GInv g Mx -> 4 <= R (g_est g) -> / 1099511627776 <= R (g_s g) ->
  Forall (fun s => gsample_ok s /\ s_drop s = true) ss -> grad_run g ss = Some g' ->
  R (g_est g) * (1 - R (g_s g) / 4) ^ length ss < IZR (gfloor g) + 1 ->
  grad_est g' = gfloor g.
Proof.
  intros HI H4 Hs HL E Hn. destruct (grad_drop_run_contracts Mx ss g g' HI H4 Hs HL E) as [U L].
  assert (HL': Forall gsample_ok ss) by (eapply Forall_impl; [|exact HL]; intros a [A _]; exact A).
  destruct (grad_run_safe g Mx ss HI HL') as (g'' & E' & I' & _). rewrite E in E'. injection E' as <-.
  destruct I' as (_ & Fe' & _).
  assert (F0: (4 <= gfloor g < 2^31)%Z).
  { unfold gfloor. destruct HI as ([? ? ? ? _ _ _ _] & _). lia. }
  assert (Up: R (g_est g') < IZR (gfloor g) + 1).
  { apply Rle_lt_trans with (1 := U). apply Rmax_lub_lt; lra. }
  assert (F1: IZR (gfloor g) <= 2147483648) by (apply (IZR_le _ 2147483648); lia).
  assert (F4: 4 <= IZR (gfloor g)) by (apply (IZR_le 4); lia).
  unfold grad_est. rewrite to_int_floor; [|exact Fe'|lra]. apply Zfloor_imp. rewrite plus_IZR. simpl. lra.
Qed.
