(* AIMD: the exact multiplicative-decrease rule in binary64 (C06) and safety of every run (C04). *)
From Coq Require Import ZArith Reals Lia Lra Psatz Bool List.
From Flocq Require Import Core BinarySingleNaN.
From GCL Require Import Base.F64 Base.F64Facts Proofs.Smooth Proofs.VegasSafe Model.Measure Model.Limits.
Import ListNotations.
Open Scope R_scope.

Lemma rnd_IZR z : (Z.abs z < 2^53)%Z -> rnd (IZR z) = IZR z.
Proof. intros H. apply rnd_id. now apply fmt_int. Qed.

Lemma Zfloor_lt_of n x : x < IZR n -> (Zfloor x < n)%Z.
Proof. intros H. apply lt_IZR. apply Rle_lt_trans with (2 := H). apply Zfloor_lb. Qed.
Lemma Zfloor_le_of n x : x <= IZR n -> (Zfloor x <= n)%Z.
Proof. intros H. apply Zfloor_le in H. now rewrite Zfloor_IZR in H. Qed.

Section Drop.
Variables (l : Z) (ratio : f64).
Hypothesis Hl : (1 <= l < 2^52)%Z.
Hypothesis Fr : fin ratio = true.
Hypothesis Hr : 0 <= R ratio <= 1.

Local Notation y := (rnd (IZR l * R ratio)).

Lemma y_range : 0 <= y <= IZR l.
Proof.
  assert (0 <= IZR l) by (apply (IZR_le 0); lia).
  split.
  - rewrite <- rnd_0. apply rnd_mono. apply Rmult_le_pos; lra.
  - rewrite <- (rnd_IZR l) at 2 by lia. apply rnd_mono.
    rewrite <- (Rmult_1_r (IZR l)) at 2. apply Rmult_le_compat_l; lra.
Qed.

Lemma prod_ok : fin (mul (of_int l) ratio) = true /\ R (mul (of_int l) ratio) = y.
Proof.
  destruct (of_int_exact l) as [A B]; [lia|].
  assert (0 <= IZR l <= 4503599627370496).
  { split. apply (IZR_le 0); lia. apply (IZR_le _ (2^52)); lia. }
  destruct (mul_ok (of_int l) ratio A Fr) as [C D].
  { rewrite B. apply bpow1000_big. apply Rabs_le.
    assert (0 <= IZR l * R ratio) by (apply Rmult_le_pos; lra).
    assert (IZR l * R ratio <= IZR l * 1) by (apply Rmult_le_compat_l; lra). split; lra. }
  split; [exact C|]. rewrite D, B. reflexivity.
Qed.

Theorem aimd_drop_exact :
  aimd_drop_limit l ratio = Z.max 1 (Z.min (l - 1) (Zfloor y)).
Proof.
  unfold aimd_drop_limit. destruct prod_ok as [Fp Ep]. pose proof y_range as [Y0 Y1].
  destruct (of_int_exact (l - 1)) as [Fa Ea]; [lia|].
  destruct (fmin_ok _ _ Fa Fp) as [Fm Em]. destruct R_one as [Fo Eo].
  destruct (fmax_ok _ _ Fo Fm) as [Fx Ex]. rewrite Em, Eo, Ea, Ep in Ex.
  assert (L0: 0 <= IZR (l - 1)) by (apply (IZR_le 0); lia).
  assert (L1: IZR (l - 1) <= 4503599627370496) by (apply (IZR_le _ (2^52)); lia).
  assert (X1: 1 <= Rmax 1 (Rmin (IZR (l - 1)) y)) by apply Rmax_l.
  assert (X2: Rmax 1 (Rmin (IZR (l - 1)) y) <= 4503599627370496).
  { apply Rmax_lub; [lra|]. apply Rle_trans with (1 := Rmin_l _ _). exact L1. }
  rewrite to_int_trunc; [|exact Fx|].
  2:{ rewrite Ex. rewrite Ztrunc_floor by lra. split.
      - apply Z.le_trans with 0%Z; [lia|]. apply Zfloor_lub. simpl; lra.
      - apply Z.le_lt_trans with (2^52)%Z; [|lia]. apply Zfloor_le_of. simpl. lra. }
  rewrite Ex. rewrite Ztrunc_floor by lra.
  destruct (Rle_dec y (IZR (l - 1))) as [C|C].
  - rewrite Rmin_right by exact C.
    assert (Zfloor y <= l - 1)%Z.
    { apply Zfloor_le in C. rewrite Zfloor_IZR in C. exact C. }
    rewrite Z.min_r by lia.
    destruct (Rle_dec 1 y) as [D|D].
    + rewrite Rmax_right by exact D. assert (1 <= Zfloor y)%Z by (apply Zfloor_lub; exact D). lia.
    + rewrite Rmax_left by lra. rewrite (Zfloor_IZR 1).
      assert (Zfloor y < 1)%Z by (apply Zfloor_lt_of; lra). lia.
  - assert (IZR (l - 1) < y) by lra. rewrite Rmin_left by lra.
    assert (l - 1 <= Zfloor y)%Z by (apply Zfloor_lub; lra).
    rewrite Z.min_l by lia.
    destruct (Rle_dec 1 (IZR (l - 1))) as [D|D].
    + rewrite Rmax_right by exact D. rewrite Zfloor_IZR. apply le_IZR in D. lia.
    + rewrite Rmax_left by lra. rewrite (Zfloor_IZR 1).
      assert (l - 1 < 1)%Z by (apply lt_IZR; lra). lia.
Qed.
End Drop.

(* consequences used by C06: a drop never raises AIMD's limit, lowers it strictly above 1, and the floor is 1 *)
Corollary aimd_drop_bounds l ratio : (1 <= l < 2^52)%Z -> fin ratio = true -> 0 <= R ratio <= 1 ->
  (1 <= aimd_drop_limit l ratio <= Z.max 1 (l - 1))%Z.
Proof. intros Hl Fr Hr. rewrite aimd_drop_exact by assumption. lia. Qed.

(* every run of the AIMD model: the limit stays >= 1 and never exceeds initial + (#samples)*increase *)
Definition aimd_run (a : aimd) (ss : list sample) : aimd := fold_left (fun a s => o_st (aimd_step a s)) ss a.

Lemma aimd_step_bounds a s B : (1 <= a_limit a <= B)%Z -> (B + a_inc a < 2^52)%Z -> (1 <= a_inc a)%Z ->
  fin (a_ratio a) = true -> 0 <= R (a_ratio a) <= 1 ->
  let a' := o_st (aimd_step a s) in
  (1 <= a_limit a' <= B + a_inc a)%Z /\ a_inc a' = a_inc a /\ a_ratio a' = a_ratio a.
Proof.
  intros Hl HB Hi Fr Hr. unfold aimd_step. destruct (s_drop s).
  - cbn. split; [|split; reflexivity]. pose proof (aimd_drop_bounds (a_limit a) (a_ratio a)) as P.
    destruct P; auto; lia.
  - destruct (_ <=? _)%Z; cbn; split; auto; lia.
Qed.

Theorem aimd_run_safe ss : forall a B, (1 <= a_limit a <= B)%Z -> (1 <= a_inc a)%Z ->
  (B + Z.of_nat (length ss) * a_inc a < 2^52)%Z -> fin (a_ratio a) = true -> 0 <= R (a_ratio a) <= 1 ->
  (1 <= a_limit (aimd_run a ss) <= B + Z.of_nat (length ss) * a_inc a)%Z.
Proof.
  induction ss as [|s r IH]; intros a B Hl Hi HB Fr Hr; cbn [aimd_run fold_left length].
  - lia.
  - fold (aimd_run (o_st (aimd_step a s)) r). cbn [length] in HB. rewrite Nat2Z.inj_succ in *.
    destruct (aimd_step_bounds a s B) as (L & I & Rr); auto; [nia|].
    specialize (IH (o_st (aimd_step a s)) (B + a_inc a)%Z).
    rewrite I, Rr in IH.
    replace (B + Z.succ (Z.of_nat (length r)) * a_inc a)%Z with (B + a_inc a + Z.of_nat (length r) * a_inc a)%Z by lia.
    apply IH; auto; try lia.
Qed.

(* a sustained run of drops reaches the floor 1 within (initial - 1) samples, and stays there *)
Theorem aimd_drop_run ss : forall a, (1 <= a_limit a < 2^52)%Z -> fin (a_ratio a) = true -> (0 <= R (a_ratio a) <= 1) ->
  Forall (fun s => s_drop s = true) ss ->
  (1 <= a_limit (aimd_run a ss) <= Z.max 1 (a_limit a - Z.of_nat (length ss)))%Z.
Proof.
  induction ss as [|s r IH]; intros a Hl Fr Hr HD; cbn [aimd_run fold_left length].
  - lia.
  - inversion HD as [|? ? Hd Hrest]; subst. fold (aimd_run (o_st (aimd_step a s)) r).
    pose proof (aimd_drop_bounds (a_limit a) (a_ratio a) Hl Fr Hr) as B.
    assert (E: o_st (aimd_step a s) = {| a_limit := aimd_drop_limit (a_limit a) (a_ratio a); a_inc := a_inc a; a_ratio := a_ratio a |})
      by (unfold aimd_step; rewrite Hd; reflexivity).
    rewrite E. specialize (IH {| a_limit := aimd_drop_limit (a_limit a) (a_ratio a); a_inc := a_inc a; a_ratio := a_ratio a |}).
    cbn [a_limit a_ratio] in IH. specialize (IH ltac:(lia) Fr Hr Hrest). rewrite Nat2Z.inj_succ. lia.
Qed.

Corollary aimd_floor_reached ss a : (1 <= a_limit a < 2^52)%Z -> fin (a_ratio a) = true -> (0 <= R (a_ratio a) <= 1) ->
  Forall (fun s => s_drop s = true) ss -> (a_limit a - 1 <= Z.of_nat (length ss))%Z -> a_limit (aimd_run a ss) = 1%Z.
Proof. intros Hl Fr Hr HD Hn. pose proof (aimd_drop_run ss a Hl Fr Hr HD). lia. Qed.
