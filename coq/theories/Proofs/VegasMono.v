(* C08 for Vegas: with the same state, in-flight and drop flag, a larger queue estimate (i.e. a higher RTT) never yields a larger
   stored estimate, when both samples update the estimate (neither is a probe, baseline-setting, app-limited or in the dead band). *)
From Coq Require Import ZArith Reals Lia Lra Psatz Bool List.
From Flocq Require Import Core BinarySingleNaN.
From GCL Require Import Base.F64 Base.F64Facts Proofs.Smooth Model.Measure Model.Limits Proofs.VegasSafe.
Open Scope R_scope.

Section Mono.
Variables (v : vegas) (M : Z) (s : sample) (pc : Z) (em : list emission).
Hypothesis HI : VInv v M.
Hypothesis HS : sample_ok s.

Let Hc : cfg_ok v M := proj1 HI.
Let Fe : fin (v_est v) = true := proj1 (proj2 HI).
Let E1 : 1 <= R (v_est v) := proj1 (proj2 (proj2 HI)).
Let E2 : R (v_est v) <= IZR M + /2 := proj2 (proj2 (proj2 HI)).

(* clamp + smoothing as a function of the candidate *)
Definition smoothed (newl : f64) : f64 :=
  add (mul (sub one (v_smooth v)) (v_est v)) (mul (v_smooth v) (fmax one (fmin (of_int (v_max v)) newl))).

Lemma Mb : 1 <= IZR M <= 2147483648.
Proof. destruct (c_M _ _ Hc). split. apply (IZR_le 1); lia. apply (IZR_le _ 2147483648); lia. Qed.

Lemma clamp_ok x : fin x = true ->
  let c := fmax one (fmin (of_int (v_max v)) x) in
  fin c = true /\ R c = Rmax 1 (Rmin (IZR (v_max v)) (R x)) /\ 1 <= R c <= IZR M.
Proof.
  intros Fx c. destruct Hc as [cM cmax _ _ _]. destruct (of_int_exact (v_max v)) as [Fm Em]. lia.
  destruct (fmin_ok _ _ Fm Fx) as [F1 R1]. destruct R_one as [Fo Eo]. destruct (fmax_ok _ _ Fo F1) as [F2 R2].
  fold c in F2, R2. rewrite R1, Eo, Em in R2. split; [exact F2|]. split; [exact R2|]. rewrite R2. split; [apply Rmax_l|].
  apply Rmax_lub. apply (IZR_le 1); lia. apply Rle_trans with (IZR (v_max v)). apply Rmin_l. apply IZR_le; lia.
Qed.

Lemma smoothed_mono x y : fin x = true -> fin y = true -> R x <= R y -> R (smoothed x) <= R (smoothed y).
Proof.
  intros Fx Fy Hxy. unfold smoothed.
  destruct (clamp_ok x Fx) as (Fcx & Rcx & Bx). destruct (clamp_ok y Fy) as (Fcy & Rcy & By).
  set (cx := fmax one (fmin (of_int (v_max v)) x)) in *. set (cy := fmax one (fmin (of_int (v_max v)) y)) in *.
  assert (Hc': R cx <= R cy).
  { rewrite Rcx, Rcy. apply Rle_max_compat_l. apply Rle_min_compat_l. exact Hxy. }
  destruct Hc as [cM cmax csf cs1 cs2]. pose proof Mb as MB.
  assert (S0: 0 <= R (v_smooth v)).
  { apply Rle_trans with (2 := cs1). unfold u. assert (0 <= IZR M) by lra. apply Rmult_le_pos; [lra|exact H]. }
  (* a := (1-s)*est is common to both sides *)
  destruct R_one as [Fo Eo].
  destruct (sub_ok one (v_smooth v) Fo csf) as [Fw Rw]. { rewrite Eo. apply bpow1000_big. apply Rabs_le. split; lra. }
  assert (Wb: 0 <= R (sub one (v_smooth v)) <= 1).
  { rewrite Rw, Eo. split.
    - apply Rle_trans with (rnd 0); [rewrite rnd_0; lra|apply rnd_mono; lra].
    - apply Rle_trans with (rnd 1); [apply rnd_mono; lra|rewrite rnd_1; lra]. }
  destruct (mul_ok _ _ Fw Fe) as [Fa Ra].
  { apply bpow1000_big. apply Rabs_le. assert (0 <= R (sub one (v_smooth v)) * R (v_est v)) by (apply Rmult_le_pos; lra).
    assert (R (sub one (v_smooth v)) * R (v_est v) <= 1 * 2147483649) by (apply Rmult_le_compat; lra). split; lra. }
  assert (Ab: 0 <= R (mul (sub one (v_smooth v)) (v_est v)) <= 2147483649).
  { rewrite Ra. assert (P0: 0 <= R (sub one (v_smooth v)) * R (v_est v)) by (apply Rmult_le_pos; lra).
    assert (P1: R (sub one (v_smooth v)) * R (v_est v) <= 1 * 2147483649) by (apply Rmult_le_compat; lra).
    split.
    - apply Rle_trans with (rnd 0); [rewrite rnd_0; lra|apply rnd_mono; exact P0].
    - apply Rle_trans with (rnd 2147483649); [apply rnd_mono; lra|]. rewrite rnd_id; [lra|]. apply (fmt_int 2147483649). lia. }
  assert (Pm: forall c, fin c = true -> 1 <= R c <= IZR M ->
              fin (mul (v_smooth v) c) = true /\ R (mul (v_smooth v) c) = rnd (R (v_smooth v) * R c) /\ 0 <= R (mul (v_smooth v) c) <= 2147483648).
  { intros c Fc Bc. destruct (mul_ok _ _ csf Fc) as [Fb Rb].
    { apply bpow1000_big. apply Rabs_le. assert (0 <= R (v_smooth v) * R c) by (apply Rmult_le_pos; lra).
      assert (R (v_smooth v) * R c <= 1 * 2147483648) by (apply Rmult_le_compat; lra). split; lra. }
    assert (P0: 0 <= R (v_smooth v) * R c) by (apply Rmult_le_pos; lra).
    assert (P1: R (v_smooth v) * R c <= 1 * 2147483648) by (apply Rmult_le_compat; lra).
    split; [exact Fb|]. split; [exact Rb|]. rewrite Rb. split.
    - apply Rle_trans with (rnd 0); [rewrite rnd_0; lra|apply rnd_mono; exact P0].
    - apply Rle_trans with (rnd 2147483648); [apply rnd_mono; lra|]. rewrite rnd_id; [lra|]. apply (fmt_int 2147483648). lia. }
  destruct (Pm cx Fcx Bx) as (Fbx & Rbx & Bbx). destruct (Pm cy Fcy By) as (Fby & Rby & Bby).
  destruct (add_ok _ _ Fa Fbx) as [_ Rnx]. { apply bpow1000_big. apply Rabs_le. split; lra. }
  destruct (add_ok _ _ Fa Fby) as [_ Rny]. { apply bpow1000_big. apply Rabs_le. split; lra. }
  rewrite Rnx, Rny. apply rnd_mono. apply Rplus_le_compat_l. rewrite Rbx, Rby. apply rnd_mono. apply Rmult_le_compat_l; assumption.
Qed.

(* the branch ladder: the candidate is non-increasing in the queue size *)
Hypothesis Hlog : forall l y, log10i (to_int (v_est v)) (s_lgi s) = Some l -> log10f (v_est v) (s_lgf s) = Some y -> R y <= 6 * IZR l.

Theorem vegas_update_mono q1 q2 o1 o2 : (q1 <= q2)%Z ->
  vegas_update v s pc em q1 = Some o1 -> vegas_update v s pc em q2 = Some o2 ->
  o_notify o1 <> nil -> o_notify o2 <> nil ->      (* both samples update the estimate *)
  R (v_est (o_st o2)) <= R (v_est (o_st o1)).
Proof.
  intros Hq. unfold vegas_update. cbv zeta.
  destruct (log10f_ok v M s HI HS) as (y & Ey & Fy & By). rewrite Ey. cbn [option_map].
  destruct (s_drop s). { intros H1 H2 _ _. inversion H1; inversion H2; subst. cbn [o_st mk vegas_set v_est]. lra. }
  destruct (flt _ _). { intros H1 _ N1. inversion H1; subst. cbn in N1. congruence. }
  destruct (log10i_ok v M s HI HS) as (l & El & Bl). rewrite El.
  specialize (Hlog l y El Ey).
  assert (Fsub: fin (sub (v_est v) y) = true) by (eapply newl_sub; eauto).
  assert (Fadd: fin (add (v_est v) y) = true) by (eapply newl_addf; eauto).
  assert (Fb: fin (add (v_est v) (of_int (6 * l))) = true) by (eapply newl_addb; eauto).
  pose proof Mb as MB.
  destruct (of_int_exact (6 * l)) as [F6 E6]. lia.
  assert (L6: 6 <= IZR (6 * l) <= 2400) by (split; [apply (IZR_le 6) | apply (IZR_le _ 2400)]; lia).
  assert (E6': IZR (6 * l) = 6 * IZR l) by (rewrite mult_IZR; reflexivity).
  destruct (add_ok _ _ Fe F6) as [_ Rb]. { rewrite E6. apply bpow1000_big. apply Rabs_le. split; lra. }
  destruct (add_ok _ _ Fe Fy) as [_ Ra]. { apply bpow1000_big. apply Rabs_le. split; lra. }
  destruct (sub_ok _ _ Fe Fy) as [_ Rs]. { apply bpow1000_big. apply Rabs_le. split; lra. }
  assert (C56: R (add (v_est v) y) <= R (add (v_est v) (of_int (6 * l)))) by (rewrite Ra, Rb, E6; apply rnd_mono; lra).
  assert (C67: R (sub (v_est v) y) <= R (add (v_est v) y)) by (rewrite Rs, Ra; apply rnd_mono; lra).
  destruct (Z.ltb_spec q1 l) as [A1|A1]; destruct (Z.ltb_spec q2 l) as [A2|A2]; try lia.
  - intros H1 H2 _ _. inversion H1; inversion H2; subst. cbn [o_st mk vegas_set v_est]. fold (smoothed (add (v_est v) (of_int (6 * l)))) (smoothed (add (v_est v) y)) (smoothed (sub (v_est v) y)). lra.
  - destruct (Z.ltb_spec q2 (3 * l)) as [B2|B2].
    + intros H1 H2 _ _. inversion H1; inversion H2; subst. cbn [o_st mk vegas_set v_est]. fold (smoothed (add (v_est v) (of_int (6 * l)))) (smoothed (add (v_est v) y)) (smoothed (sub (v_est v) y)). apply smoothed_mono; auto.
    + destruct (Z.ltb_spec (6 * l) q2) as [B3|B3].
      * intros H1 H2 _ _. inversion H1; inversion H2; subst. cbn [o_st mk vegas_set v_est]. fold (smoothed (add (v_est v) (of_int (6 * l)))) (smoothed (add (v_est v) y)) (smoothed (sub (v_est v) y)). apply smoothed_mono; auto. exact (Rle_trans _ _ _ C67 C56).
      * intros _ H2 _ N2. inversion H2; subst. cbn in N2. congruence.
  - destruct (Z.ltb_spec q1 (3 * l)) as [B4|B4]; destruct (Z.ltb_spec q2 (3 * l)) as [B5|B5]; try lia.
    + intros H1 H2 _ _. inversion H1; inversion H2; subst. cbn [o_st mk vegas_set v_est]. fold (smoothed (add (v_est v) (of_int (6 * l)))) (smoothed (add (v_est v) y)) (smoothed (sub (v_est v) y)). lra.
    + destruct (Z.ltb_spec (6 * l) q2) as [B6|B6].
      * intros H1 H2 _ _. inversion H1; inversion H2; subst. cbn [o_st mk vegas_set v_est]. fold (smoothed (add (v_est v) (of_int (6 * l)))) (smoothed (add (v_est v) y)) (smoothed (sub (v_est v) y)). apply smoothed_mono; auto.
      * intros _ H2 _ N2. inversion H2; subst. cbn in N2. congruence.
    + destruct (Z.ltb_spec (6 * l) q1) as [B7|B7]; destruct (Z.ltb_spec (6 * l) q2) as [B8|B8]; try lia.
      * intros H1 H2 _ _. inversion H1; inversion H2; subst. cbn [o_st mk vegas_set v_est]. fold (smoothed (add (v_est v) (of_int (6 * l)))) (smoothed (add (v_est v) y)) (smoothed (sub (v_est v) y)). lra.
      * intros H1 _ N1. inversion H1; subst. cbn in N1. congruence.
      * intros H1 _ N1. inversion H1; subst. cbn in N1. congruence.
Qed.
End Mono.
