(* Settled model of the blocking wrappers: order of service (C11), no stranded waiter after a release (C10, settled granularity),
   backlog bound (C12), exact timeouts (C13). *)
From Coq Require Import ZArith List Bool Lia Arith Sorted.
From GCL Require Import Model.Waiters.
Import ListNotations.
Open Scope Z_scope.

(* ---------- blocked_ids lists exactly the blocked callers, in arrival order ---------- *)
Lemma blocked_ids_in l : forall k j, In j (blocked_ids l k) <-> (k <= j)%nat /\ exists c, nth_error l (j - k) = Some c /\ blocked c = true.
Proof.
  induction l as [|c r IH]; intros k j; cbn [blocked_ids].
  - split; [intros []|]. intros (_ & c & H & _). destruct (j - k)%nat; discriminate.
  - destruct (blocked c) eqn:B.
    + cbn [In]. rewrite IH. split.
      * intros [<-|(Hk & c' & Hc & Bc)].
        -- split; [lia|]. exists c. rewrite Nat.sub_diag. auto.
        -- split; [lia|]. exists c'. replace (j - k)%nat with (S (j - S k)) by lia. auto.
      * intros (Hk & c' & Hc & Bc). destruct (Nat.eq_dec k j) as [->|Hne]; [left; reflexivity|right].
        split; [lia|]. exists c'. replace (j - k)%nat with (S (j - S k)) in Hc by lia. auto.
    + rewrite IH. split.
      * intros (Hk & c' & Hc & Bc). split; [lia|]. exists c'. replace (j - k)%nat with (S (j - S k)) by lia. auto.
      * intros (Hk & c' & Hc & Bc). destruct (Nat.eq_dec k j) as [->|Hne].
        -- rewrite Nat.sub_diag in Hc. cbn in Hc. inversion Hc; subst. congruence.
        -- split; [lia|]. exists c'. replace (j - k)%nat with (S (j - S k)) in Hc by lia. auto.
Qed.
Lemma blocked_ids_sorted l : forall k, StronglySorted lt (blocked_ids l k).
Proof.
  induction l as [|c r IH]; intros k; cbn [blocked_ids]; [constructor|]. destruct (blocked c); [|apply IH].
  constructor; [apply IH|]. apply Forall_forall. intros j Hj. apply blocked_ids_in in Hj. lia.
Qed.
Definition is_blocked (s : wstate) (j : nat) : Prop := exists c, nth_error (ws_callers s) j = Some c /\ blocked c = true.

Lemma sorted_hd l x : StronglySorted lt l -> hd_error l = Some x -> forall y, In y l -> (x <= y)%nat.
Proof. intros S H y Hy. destruct l as [|a r]; [discriminate|]. inversion H; subst. inversion S; subst. destruct Hy as [<-|Hy]; [lia|]. rewrite Forall_forall in H3. specialize (H3 y Hy). lia. Qed.
Lemma sorted_snoc l a : StronglySorted lt (l ++ [a]) -> Forall (fun y => (y < a)%nat) l.
Proof.
  induction l as [|b r IH]; intros S; [constructor|]. cbn in S. inversion S; subst. constructor.
  - rewrite Forall_forall in H2. apply H2. apply in_or_app. right. left. reflexivity.
  - now apply IH.
Qed.
Lemma sorted_last l x : StronglySorted lt l -> hd_error (rev l) = Some x -> forall y, In y l -> (y <= x)%nat.
Proof.
  destruct l as [|b r] using rev_ind; intros S H y Hy; [destruct Hy|].
  rewrite rev_app_distr in H. cbn in H. inversion H; subst.
  apply in_app_or in Hy. destruct Hy as [Hy|[<-|[]]]; [|lia].
  pose proof (sorted_snoc _ _ S) as F. rewrite Forall_forall in F. specialize (F y Hy). lia.
Qed.

(* C11: the waiter the queue serves is the longest-waiting (FIFO) / the most recent (LIFO) among those still blocked *)
Theorem peek_order s j : peek s = Some j ->
  is_blocked s j /\ forall i, is_blocked s i -> if w_fifo (ws_cfg s) then (j <= i)%nat else (i <= j)%nat.
Proof.
  unfold peek. intros H.
  assert (In j (blocked_ids (ws_callers s) 0)).
  { destruct (w_fifo (ws_cfg s)).
    - destruct (blocked_ids _ _); [discriminate|]. inversion H; subst. left; reflexivity.
    - apply in_rev. destruct (rev _); [discriminate|]. inversion H; subst. left; reflexivity. }
  split.
  - apply blocked_ids_in in H0. destruct H0 as (_ & c & Hc & B). rewrite Nat.sub_0_r in Hc. exists c; auto.
  - intros i (c & Hc & B). assert (In i (blocked_ids (ws_callers s) 0)).
    { apply blocked_ids_in. split; [lia|]. exists c. rewrite Nat.sub_0_r. auto. }
    pose proof (blocked_ids_sorted (ws_callers s) 0) as S. destruct (w_fifo (ws_cfg s)).
    + eapply sorted_hd; eauto.
    + eapply sorted_last; eauto.
Qed.
Lemma peek_some s : (exists i, is_blocked s i) -> exists j, peek s = Some j.
Proof.
  intros (i & c & Hc & B). assert (In i (blocked_ids (ws_callers s) 0)).
  { apply blocked_ids_in. split; [lia|]. exists c. rewrite Nat.sub_0_r. auto. }
  unfold peek. destruct (w_fifo (ws_cfg s)).
  - destruct (blocked_ids _ _); [destruct H|]. eexists; reflexivity.
  - apply in_rev in H. destruct (rev _); [destruct H|]. eexists; reflexivity.
Qed.

(* what a release does on the queue limiter: the token goes back, and if callers are waiting and there is room the one
   chosen by `peek` obtains it in the same operation - no further release, timeout or cancellation is needed *)
Theorem release_queue s i c pref : w_kind (ws_cfg s) = KQueue -> nth_error (ws_callers s) i = Some c -> c_st c = 1 ->
  let s1 := with_callers s (ws_busy s - 1) (ws_now s) (set_caller (ws_callers s) i (mk_caller 3 (c_t c) 0 (c_cancel c))) in
  release s i pref = match peek s1 with Some j => if has_room s1 then grant s1 j else s1 | None => s1 end.
Proof. intros K H St. unfold release. rewrite H, St, K. reflexivity. Qed.

Corollary release_queue_serves s i c pref : w_kind (ws_cfg s) = KQueue -> nth_error (ws_callers s) i = Some c -> c_st c = 1 ->
  let s1 := with_callers s (ws_busy s - 1) (ws_now s) (set_caller (ws_callers s) i (mk_caller 3 (c_t c) 0 (c_cancel c))) in
  (exists k, is_blocked s1 k) -> has_room s1 = true ->
  exists j, release s i pref = grant s1 j /\ is_blocked s1 j /\
            forall k, is_blocked s1 k -> if w_fifo (ws_cfg s) then (j <= k)%nat else (k <= j)%nat.
Proof.
  intros K H St s1 Hb Hr. rewrite (release_queue s i c pref K H St). fold s1. destruct (peek_some s1 Hb) as [j Hj].
  rewrite Hj, Hr. exists j. split; [reflexivity|]. exact (peek_order s1 j Hj).
Qed.

(* blocking / deadline: every sleeper is woken by the broadcast and re-attempts; with room and at least one sleeper,
   the first one in the (scheduler-chosen) order obtains the token *)
Lemma attempt_all_first s j r : has_room s = true -> attempt_all s (j :: r) = attempt_all (grant s j) r.
Proof. intros H. cbn. rewrite H. reflexivity. Qed.

(* ---------- C12: the backlog never exceeds its bound ---------- *)
Lemma nblocked_app l c : Z.of_nat (length (filter blocked (l ++ [c]))) = Z.of_nat (length (filter blocked l)) + (if blocked c then 1 else 0).
Proof. rewrite filter_app, app_length. cbn. destruct (blocked c); cbn; lia. Qed.
Lemma set_caller_nblocked l i c old : nth_error l i = Some old -> blocked c = false ->
  Z.of_nat (length (filter blocked (set_caller l i c))) = Z.of_nat (length (filter blocked l)) - (if blocked old then 1 else 0).
Proof.
  revert i. induction l as [|x r IH]; intros [|i] H Hc; cbn in H; try discriminate.
  - inversion H; subst. unfold set_caller. cbn. rewrite Hc. destruct (blocked old); cbn [length]; lia.
  - specialize (IH i H Hc). unfold set_caller in *. cbn [firstn skipn app filter]. destruct (blocked x); cbn [length]; lia.
Qed.
Lemma grant_nblocked s i : nblocked (grant s i) <= nblocked s.
Proof.
  unfold grant, nblocked. destruct (nth_error _ i) as [c|] eqn:E; [|lia]. destruct (blocked c) eqn:B; [|lia]. cbn [ws_callers with_callers].
  rewrite (set_caller_nblocked _ _ _ c E); [|reflexivity]. rewrite B; lia.
Qed.
Lemma refuse_nblocked s i : nblocked (refuse s i) <= nblocked s.
Proof.
  unfold refuse, nblocked. destruct (nth_error _ i) as [c|] eqn:E; [|lia]. destruct (blocked c) eqn:B; [|lia]. cbn [ws_callers with_callers].
  rewrite (set_caller_nblocked _ _ _ c E); [|reflexivity]. rewrite B; lia.
Qed.
Lemma grant_cfg s i : ws_cfg (grant s i) = ws_cfg s. Proof. unfold grant. destruct (nth_error _ _) as [c|]; [destruct (blocked c)|]; reflexivity. Qed.
Lemma refuse_cfg s i : ws_cfg (refuse s i) = ws_cfg s. Proof. unfold refuse. destruct (nth_error _ _) as [c|]; [destruct (blocked c)|]; reflexivity. Qed.

(* an arrival waits only when fewer than maxBacklog callers are already blocked; otherwise it is refused in the same instant *)
Theorem arrive_bound s cancelled : w_kind (ws_cfg s) = KQueue -> 0 <= w_maxb (ws_cfg s) -> nblocked s <= w_maxb (ws_cfg s) ->
  nblocked (arrive s cancelled) <= w_maxb (ws_cfg s) /\ ws_cfg (arrive s cancelled) = ws_cfg s /\
  (w_maxb (ws_cfg s) <= nblocked s -> has_room s = false ->
     nth_error (ws_callers (arrive s cancelled)) (length (ws_callers s)) = Some (mk_caller 2 (ws_now s) 0 cancelled)).
Proof.
  intros K M H. unfold arrive. rewrite K. destruct (has_room s) eqn:R.
  - split; [|split; [rewrite grant_cfg; reflexivity|discriminate]].
    set (c0 := mk_caller 0 (ws_now s) 0 cancelled).
    assert (E: nth_error (ws_callers s ++ [c0]) (length (ws_callers s)) = Some c0) by (rewrite nth_error_app2, Nat.sub_diag by lia; reflexivity).
    unfold grant. cbn [ws_callers with_callers]. rewrite E. change (blocked c0) with true. cbv iota. unfold nblocked. cbn [ws_callers with_callers].
    rewrite (set_caller_nblocked _ _ _ c0 E) by reflexivity. rewrite nblocked_app. cbn. unfold nblocked in H. lia.
  - destruct (Z.leb_spec (w_maxb (ws_cfg s)) (nblocked s)) as [Hf|Hf].
    + split; [|split; [reflexivity|]].
      * unfold nblocked. cbn [ws_callers with_callers]. rewrite nblocked_app. cbn. fold (nblocked s). lia.
      * intros _ _. cbn [ws_callers with_callers]. rewrite nth_error_app2, Nat.sub_diag by lia. reflexivity.
    + destruct (cancelled && w_evict (ws_cfg s)).
      * split; [|split; [reflexivity|lia]]. unfold nblocked. cbn [ws_callers with_callers]. rewrite nblocked_app. cbn. fold (nblocked s). lia.
      * split; [|split; [reflexivity|lia]]. unfold nblocked. cbn [ws_callers with_callers]. rewrite nblocked_app. cbn. fold (nblocked s). lia.
Qed.

(* ---------- C19 / C01 at the wrapper level: tokens held never exceed the limit ---------- *)
Definition within (s : wstate) : Prop := ws_busy s <= ws_limit s.
Lemma grant_busy s i : ws_busy (grant s i) <= ws_busy s + 1 /\ ws_limit (grant s i) = ws_limit s.
Proof. unfold grant. destruct (nth_error _ _) as [c|]; [destruct (blocked c)|]; cbn; split; lia. Qed.
Lemma refuse_busy s i : ws_busy (refuse s i) = ws_busy s /\ ws_limit (refuse s i) = ws_limit s.
Proof. unfold refuse. destruct (nth_error _ _) as [c|]; [destruct (blocked c)|]; cbn; split; reflexivity. Qed.
Lemma grant_within s i : within s -> has_room s = true -> within (grant s i).
Proof. unfold within, has_room. intros W R. apply Z.ltb_lt in R. destruct (grant_busy s i) as [A B]. rewrite B. lia. Qed.
Lemma attempt_all_within ids : forall s, within s -> within (attempt_all s ids).
Proof. induction ids as [|i r IH]; intros s W; cbn; [exact W|]. destruct (has_room s) eqn:R; [|exact W]. apply IH. now apply grant_within. Qed.
Lemma rearm_within s ids : within s -> within (rearm s ids).
Proof. unfold rearm, within. destruct (w_kind _); try tauto. destruct (_ <? _); cbn; tauto. Qed.
Lemma fold_refuse_within ids : forall s, within s -> within (fold_left refuse ids s).
Proof. induction ids as [|i r IH]; intros s W; cbn; [exact W|]. apply IH. unfold within in *. destruct (refuse_busy s i) as [A B]. rewrite A, B. exact W. Qed.

Theorem arrive_within s c : within s -> within (arrive s c).
Proof.
  intros W. unfold arrive. destruct (w_kind (ws_cfg s)).
  - destruct c; [exact W|]. destruct (has_room s) eqn:R; [|exact W]. apply grant_within; [exact W|exact R].
  - destruct c; [exact W|]. destruct (_ <? _); [exact W|]. destruct (has_room s) eqn:R; [apply grant_within; [exact W|exact R]|]. destruct (_ <=? _); exact W.
  - destruct (has_room s) eqn:R; [apply grant_within; [exact W|exact R]|]. destruct (_ <=? _); [exact W|]. destruct (_ && _); exact W.
Qed.
Theorem release_within s i pref : within s -> within (release s i pref).
Proof.
  intros W. unfold release. destruct (nth_error _ i) as [c|]; [|exact W]. destruct (c_st c =? 1); [|exact W].
  set (s1 := with_callers s (ws_busy s - 1) (ws_now s) _). assert (W1: within s1) by (unfold within in *; cbn; lia).
  destruct (w_kind (ws_cfg s)).
  - apply rearm_within, attempt_all_within, W1.
  - apply rearm_within, attempt_all_within, W1.
  - destruct (peek s1); [|exact W1]. destruct (has_room s1) eqn:R; [now apply grant_within|exact W1].
Qed.
Theorem cancel_within s i : within s -> within (cancel s i).
Proof.
  intros W. unfold cancel. destruct (nth_error _ i) as [c|]; [|exact W]. destruct (blocked c); [|exact W].
  destruct (w_kind (ws_cfg s)); try (unfold within; rewrite (proj1 (refuse_busy _ i)), (proj2 (refuse_busy _ i)); exact W).
  destruct (w_evict _); [unfold within; rewrite (proj1 (refuse_busy _ i)), (proj2 (refuse_busy _ i)); exact W|exact W].
Qed.
Lemma fire_within s t pref : within s -> within (fire s t pref).
Proof.
  intros W. unfold fire. set (s0 := with_callers s (ws_busy s) t (ws_callers s)). assert (W0: within s0) by exact W.
  destruct (w_kind (ws_cfg s)).
  - apply rearm_within, attempt_all_within, W0.
  - generalize (attempt_all_within (order_pref (due_ids (ws_callers s0) 0 t) pref) s0 W0).
    generalize (attempt_all s0 (order_pref (due_ids (ws_callers s0) 0 t) pref)). generalize (due_ids (ws_callers s0) 0 t).
    induction l as [|i r IH]; intros s2 W2; cbn; [exact W2|]. apply IH.
    destruct (nth_error _ i) as [c|]; [|exact W2]. destruct (blocked c); [|exact W2].
    unfold within. rewrite (proj1 (refuse_busy _ i)), (proj2 (refuse_busy _ i)). exact W2.
  - now apply fold_refuse_within.
Qed.
Theorem advance_within fuel : forall s target pref, within s -> within (advance fuel s target pref).
Proof.
  induction fuel as [|f IH]; intros s target pref W; cbn; [exact W|]. destruct (next_due s target); [|exact W].
  apply IH. now apply fire_within.
Qed.

(* ---------- C13: arrival-time refusals consume no capacity ---------- *)
Theorem arrive_cancelled s : w_kind (ws_cfg s) <> KQueue ->
  ws_busy (arrive s true) = ws_busy s /\
  nth_error (ws_callers (arrive s true)) (length (ws_callers s)) = Some (mk_caller 2 (ws_now s) 0 true).
Proof.
  intros K. unfold arrive. destruct (w_kind (ws_cfg s)); try congruence; cbn [ws_busy ws_callers with_callers];
    (split; [reflexivity|]); rewrite nth_error_app2, Nat.sub_diag by lia; reflexivity.
Qed.
Theorem arrive_after_deadline s c : w_kind (ws_cfg s) = KDeadline -> w_deadline (ws_cfg s) < ws_now s ->
  ws_busy (arrive s c) = ws_busy s /\
  nth_error (ws_callers (arrive s c)) (length (ws_callers s)) = Some (mk_caller 2 (ws_now s) 0 c).
Proof.
  intros K D. unfold arrive. rewrite K. destruct c.
  - cbn [ws_busy ws_callers with_callers]. split; [reflexivity|]. rewrite nth_error_app2, Nat.sub_diag by lia; reflexivity.
  - apply Z.ltb_lt in D. rewrite D. cbn [ws_busy ws_callers with_callers]. split; [reflexivity|]. rewrite nth_error_app2, Nat.sub_diag by lia; reflexivity.
Qed.
(* a caller that has to wait is given a timer at exactly its bound: arrival + backlog timeout (queue), the deadline (deadline limiter) *)
Theorem wait_timer s c : has_room s = false -> c = false \/ (w_kind (ws_cfg s) = KQueue /\ w_evict (ws_cfg s) = false) ->
  forall x, nth_error (ws_callers (arrive s c)) (length (ws_callers s)) = Some x -> c_st x = 0 ->
  c_due x = timer_at_arrival (ws_cfg s) (ws_now s).
Proof.
  intros R Hc x. unfold arrive. rewrite R.
  destruct (w_kind (ws_cfg s)) eqn:K.
  - destruct c; cbn [ws_callers with_callers]; rewrite nth_error_app2, Nat.sub_diag by lia; cbn; intros H; inversion H; subst; cbn; try discriminate. intros _. unfold timer_at_arrival. rewrite K. reflexivity.
  - destruct c; [cbn [ws_callers with_callers]; rewrite nth_error_app2, Nat.sub_diag by lia; cbn; intros H; inversion H; subst; cbn; discriminate|].
    destruct (_ <? _); [cbn [ws_callers with_callers]; rewrite nth_error_app2, Nat.sub_diag by lia; cbn; intros H; inversion H; subst; cbn; discriminate|].
    destruct (_ <=? _); cbn [ws_callers with_callers]; rewrite nth_error_app2, Nat.sub_diag by lia; cbn; intros H; inversion H; subst; cbn; try discriminate.
    intros _. unfold timer_at_arrival. rewrite K. reflexivity.
  - destruct (_ <=? _); [cbn [ws_callers with_callers]; rewrite nth_error_app2, Nat.sub_diag by lia; cbn; intros H; inversion H; subst; cbn; discriminate|].
    destruct (c && w_evict (ws_cfg s)); cbn [ws_callers with_callers]; rewrite nth_error_app2, Nat.sub_diag by lia; cbn; intros H; inversion H; subst; cbn; try discriminate.
    intros _. unfold timer_at_arrival. rewrite K. reflexivity.
Qed.

(* ---------- C13: the backlog timeout fires exactly at arrival + timeout (queue limiter) ---------- *)
Lemma set_caller_nth l : forall i c j, nth_error (set_caller l i c) j = if Nat.eqb i j && Nat.ltb i (length l) then Some c else nth_error l j.
Proof.
  unfold set_caller. induction l as [|x r IH]; intros i c j.
  - assert (E: Nat.ltb i (length (@nil caller)) = false) by (apply Nat.ltb_ge; cbn; lia). rewrite E, andb_false_r.
    destruct i; cbn; destruct j; reflexivity.
  - destruct i as [|i].
    + cbn. destruct j; reflexivity.
    + cbn [firstn skipn app length]. destruct j as [|j]; [reflexivity|]. cbn [nth_error Nat.eqb]. rewrite IH.
      change (Nat.ltb (S i) (S (length r))) with (Nat.ltb i (length r)). reflexivity.
Qed.
Lemma set_caller_length l i c : length (set_caller l i c) = length l.
Proof.
  unfold set_caller. revert i. induction l as [|x r IH]; intros [|i]; cbn [firstn skipn app length]; try reflexivity.
  f_equal. apply IH.
Qed.

Definition refused_at (now : Z) (c : caller) : caller := if blocked c then mk_caller 2 now 0 (c_cancel c) else c.
Lemma refused_idem now c : refused_at now (refused_at now c) = refused_at now c.
Proof. unfold refused_at. destruct (blocked c) eqn:B; [reflexivity|rewrite B; reflexivity]. Qed.

Lemma refuse_nth s i j : nth_error (ws_callers (refuse s i)) j =
  if Nat.eqb i j then option_map (refused_at (ws_now s)) (nth_error (ws_callers s) j) else nth_error (ws_callers s) j.
Proof.
  unfold refuse. destruct (nth_error (ws_callers s) i) as [c|] eqn:E.
  - destruct (blocked c) eqn:B.
    + cbn [ws_callers with_callers]. rewrite set_caller_nth. assert (L: Nat.ltb i (length (ws_callers s)) = true).
      { apply Nat.ltb_lt. apply nth_error_Some. congruence. }
      rewrite L, andb_true_r. destruct (Nat.eqb_spec i j); [|reflexivity]. subst j. rewrite E. cbn. unfold refused_at. rewrite B. reflexivity.
    + destruct (Nat.eqb_spec i j); [|reflexivity]. subst j. rewrite E. cbn. unfold refused_at. rewrite B. reflexivity.
  - destruct (Nat.eqb_spec i j); [|reflexivity]. subst j. rewrite E. reflexivity.
Qed.
Lemma refuse_now s i : ws_now (refuse s i) = ws_now s /\ ws_busy (refuse s i) = ws_busy s.
Proof. unfold refuse. destruct (nth_error _ _) as [c|]; [destruct (blocked c)|]; split; reflexivity. Qed.

Lemma due_ids_in l : forall k j t, In j (due_ids l k t) <-> (k <= j)%nat /\ exists c, nth_error l (j - k) = Some c /\ blocked c = true /\ c_due c = t.
Proof.
  induction l as [|c r IH]; intros k j t; cbn [due_ids].
  - split; [intros []|]. intros (_ & c & H & _). destruct (j - k)%nat; discriminate.
  - destruct (blocked c && (c_due c =? t)) eqn:B.
    + apply andb_true_iff in B. destruct B as [B1 B2]. apply Z.eqb_eq in B2. cbn [In]. rewrite IH. split.
      * intros [<-|(Hk & c' & Hc & Bc)].
        -- split; [lia|]. exists c. rewrite Nat.sub_diag. auto.
        -- split; [lia|]. exists c'. replace (j - k)%nat with (S (j - S k)) by lia. auto.
      * intros (Hk & c' & Hc & Bc). destruct (Nat.eq_dec k j) as [->|Hne]; [left; reflexivity|right].
        split; [lia|]. exists c'. replace (j - k)%nat with (S (j - S k)) in Hc by lia. auto.
    + rewrite IH. split.
      * intros (Hk & c' & Hc & Bc). split; [lia|]. exists c'. replace (j - k)%nat with (S (j - S k)) by lia. auto.
      * intros (Hk & c' & Hc & Bc1 & Bc2). destruct (Nat.eq_dec k j) as [->|Hne].
        -- rewrite Nat.sub_diag in Hc. cbn in Hc. inversion Hc; subst. rewrite Bc1, Z.eqb_refl in B. discriminate.
        -- split; [lia|]. exists c'. replace (j - k)%nat with (S (j - S k)) in Hc by lia. auto.
Qed.

(* refusing a set of callers: exactly the blocked ones among them change, to "refused now" *)
Lemma fold_refuse_nth ids : forall s j,
  nth_error (ws_callers (fold_left refuse ids s)) j =
  if existsb (Nat.eqb j) ids then option_map (refused_at (ws_now s)) (nth_error (ws_callers s) j) else nth_error (ws_callers s) j.
Proof.
  induction ids as [|i r IH]; intros s j; cbn [fold_left existsb]; [reflexivity|].
  rewrite IH, (proj1 (refuse_now s i)), refuse_nth.
  destruct (Nat.eqb_spec j i) as [->|Hne].
  - rewrite Nat.eqb_refl. cbn [orb]. destruct (existsb _ r); [|reflexivity].
    destruct (nth_error (ws_callers s) i); cbn; [rewrite refused_idem|]; reflexivity.
  - destruct (Nat.eqb_spec i j); [congruence|]. cbn [orb]. reflexivity.
Qed.

(* what the timers firing at instant t do on the queue limiter: exactly the callers blocked with due = t are refused, at t *)
Theorem fire_queue s t pref i c : w_kind (ws_cfg s) = KQueue -> nth_error (ws_callers s) i = Some c ->
  nth_error (ws_callers (fire s t pref)) i = Some (if blocked c && (c_due c =? t) then mk_caller 2 t 0 (c_cancel c) else c) /\
  ws_busy (fire s t pref) = ws_busy s.
Proof.
  intros K H. unfold fire. rewrite K. set (s0 := with_callers s (ws_busy s) t (ws_callers s)).
  split.
  - rewrite (fold_refuse_nth _ s0 i). cbn [ws_callers with_callers s0 ws_now]. rewrite H.
    destruct (blocked c && (c_due c =? t)) eqn:B.
    + assert (In i (due_ids (ws_callers s) 0 t)).
      { apply due_ids_in. split; [lia|]. exists c. rewrite Nat.sub_0_r. apply andb_true_iff in B. destruct B as [B1 B2]. apply Z.eqb_eq in B2. auto. }
      assert (E: existsb (Nat.eqb i) (due_ids (ws_callers s) 0 t) = true) by (apply existsb_exists; exists i; split; [assumption|apply Nat.eqb_refl]).
      rewrite E. cbn. unfold refused_at. apply andb_true_iff in B. destruct B as [B1 _]. rewrite B1. reflexivity.
    + assert (E: existsb (Nat.eqb i) (due_ids (ws_callers s) 0 t) = false).
      { apply Bool.not_true_is_false. intros E. apply existsb_exists in E. destruct E as (k & Hk & Ek). apply Nat.eqb_eq in Ek. subst k.
        apply due_ids_in in Hk. destruct Hk as (_ & c' & Hc & B1 & B2). rewrite Nat.sub_0_r, H in Hc. inversion Hc; subst.
        rewrite B1, Z.eqb_refl in B. discriminate. }
      rewrite E. reflexivity.
  - generalize (due_ids (ws_callers s0) 0 t). intros ids. assert (G: forall st, ws_busy (fold_left refuse ids st) = ws_busy st).
    { induction ids as [|k r IH]; intros st; cbn; [reflexivity|]. rewrite IH. apply refuse_now. }
    rewrite G. reflexivity.
Qed.

(* ---------- C02 at the wrapper level: the delegate's busy count equals the number of callers holding a token ---------- *)
Definition holding (c : caller) : bool := c_st c =? 1.
Definition holders (s : wstate) : Z := Z.of_nat (length (filter holding (ws_callers s))).
Definition conserved (s : wstate) : Prop := ws_busy s = holders s.

Lemma set_caller_holders l i c old : nth_error l i = Some old ->
  Z.of_nat (length (filter holding (set_caller l i c))) =
  Z.of_nat (length (filter holding l)) - (if holding old then 1 else 0) + (if holding c then 1 else 0).
Proof.
  revert i. induction l as [|x r IH]; intros [|i] H; cbn in H; try discriminate.
  - inversion H; subst. unfold set_caller. cbn. destruct (holding old), (holding c); cbn [length]; lia.
  - specialize (IH i H). unfold set_caller in *. cbn [firstn skipn app filter]. destruct (holding x); cbn [length]; lia.
Qed.
Lemma blocked_not_holding c : blocked c = true -> holding c = false.
Proof. unfold blocked, holding. intros H. apply Z.eqb_eq in H. rewrite H. reflexivity. Qed.

Lemma grant_conserved s i : conserved s -> conserved (grant s i).
Proof.
  unfold conserved, holders, grant. intros H. destruct (nth_error _ i) as [c|] eqn:E; [|exact H]. destruct (blocked c) eqn:B; [|exact H].
  cbn [ws_busy ws_callers with_callers]. rewrite (set_caller_holders _ _ _ c E), (blocked_not_holding c B). cbn. lia.
Qed.
Lemma refuse_conserved s i : conserved s -> conserved (refuse s i).
Proof.
  unfold conserved, holders, refuse. intros H. destruct (nth_error _ i) as [c|] eqn:E; [|exact H]. destruct (blocked c) eqn:B; [|exact H].
  cbn [ws_busy ws_callers with_callers]. rewrite (set_caller_holders _ _ _ c E), (blocked_not_holding c B). cbn. lia.
Qed.
Lemma attempt_all_conserved ids : forall s, conserved s -> conserved (attempt_all s ids).
Proof. induction ids as [|i r IH]; intros s H; cbn; [exact H|]. destruct (has_room s); [|exact H]. apply IH. now apply grant_conserved. Qed.
Lemma holders_app l c : Z.of_nat (length (filter holding (l ++ [c]))) = Z.of_nat (length (filter holding l)) + (if holding c then 1 else 0).
Proof. rewrite filter_app, app_length. cbn. destruct (holding c); cbn; lia. Qed.
Lemma rearm_fold_holders now to ids : forall l,
  Z.of_nat (length (filter holding (fold_left (fun l i => match nth_error l i with
                                 | Some c => if blocked c then set_caller l i (mk_caller 0 (c_t c) (now + to) (c_cancel c)) else l
                                 | None => l end) ids l))) = Z.of_nat (length (filter holding l)).
Proof.
  induction ids as [|i r IH]; intros l; cbn [fold_left]; [reflexivity|]. rewrite IH.
  destruct (nth_error l i) as [c|] eqn:E; [|reflexivity]. destruct (blocked c) eqn:B; [|reflexivity].
  rewrite (set_caller_holders _ _ _ c E), (blocked_not_holding c B). unfold holding. cbn. lia.
Qed.
Lemma rearm_conserved s ids : conserved s -> conserved (rearm s ids).
Proof.
  unfold rearm. intros H. destruct (w_kind _); try exact H. destruct (_ <? _); [|exact H].
  unfold conserved, holders in *. cbn [ws_busy ws_callers with_callers]. rewrite rearm_fold_holders. exact H.
Qed.
Lemma fold_refuse_conserved ids : forall s, conserved s -> conserved (fold_left refuse ids s).
Proof. induction ids as [|i r IH]; intros s H; cbn; [exact H|]. apply IH. now apply refuse_conserved. Qed.

Theorem arrive_conserved s c : conserved s -> conserved (arrive s c).
Proof.
  intros H. unfold arrive.
  assert (A: forall st due, st <> 1 -> conserved (with_callers s (ws_busy s) (ws_now s) (ws_callers s ++ [mk_caller st (ws_now s) due c]))).
  { intros st due Hs. unfold conserved, holders in *. cbn [ws_busy ws_callers with_callers]. rewrite holders_app, H. unfold holding. cbn [c_st mk_caller].
    destruct (Z.eqb_spec st 1); [contradiction|lia]. }
  destruct (w_kind (ws_cfg s)).
  - destruct c; [apply A; lia|]. destruct (has_room s); [apply grant_conserved|]; apply A; lia.
  - destruct c; [apply A; lia|]. destruct (_ <? _); [apply A; lia|]. destruct (has_room s); [apply grant_conserved; apply A; lia|]. destruct (_ <=? _); apply A; lia.
  - destruct (has_room s); [apply grant_conserved; apply A; lia|]. destruct (_ <=? _); [apply A; lia|]. destruct (_ && _); apply A; lia.
Qed.
Theorem release_conserved s i pref : conserved s -> conserved (release s i pref).
Proof.
  intros H. unfold release. destruct (nth_error _ i) as [c|] eqn:E; [|exact H]. destruct (c_st c =? 1) eqn:St; [|exact H].
  set (s1 := with_callers s (ws_busy s - 1) (ws_now s) _).
  assert (H1: conserved s1).
  { unfold conserved, holders in *. cbn [s1 ws_busy ws_callers with_callers]. rewrite (set_caller_holders _ _ _ c E). unfold holding at 2 3. rewrite St. cbn. lia. }
  destruct (w_kind (ws_cfg s)).
  - apply rearm_conserved, attempt_all_conserved, H1.
  - apply rearm_conserved, attempt_all_conserved, H1.
  - destruct (peek s1); [|exact H1]. destruct (has_room s1); [now apply grant_conserved|exact H1].
Qed.
Theorem cancel_conserved s i : conserved s -> conserved (cancel s i).
Proof.
  intros H. unfold cancel. destruct (nth_error _ i) as [c|] eqn:E; [|exact H].
  set (s1 := with_callers s (ws_busy s) (ws_now s) _).
  assert (H1: conserved s1).
  { unfold conserved, holders in *. cbn [s1 ws_busy ws_callers with_callers]. rewrite (set_caller_holders _ _ _ c E).
    change (holding (mk_caller (c_st c) (c_t c) (c_due c) true)) with (holding c). destruct (holding c); lia. }
  destruct (blocked c); [|exact H1]. destruct (w_kind (ws_cfg s)); try (now apply refuse_conserved). destruct (w_evict _); [now apply refuse_conserved|exact H1].
Qed.
Lemma fire_conserved s t pref : conserved s -> conserved (fire s t pref).
Proof.
  intros H. unfold fire. set (s0 := with_callers s (ws_busy s) t (ws_callers s)). assert (H0: conserved s0) by exact H.
  destruct (w_kind (ws_cfg s)).
  - apply rearm_conserved, attempt_all_conserved, H0.
  - generalize (attempt_all_conserved (order_pref (due_ids (ws_callers s0) 0 t) pref) s0 H0).
    generalize (attempt_all s0 (order_pref (due_ids (ws_callers s0) 0 t) pref)). generalize (due_ids (ws_callers s0) 0 t).
    induction l as [|k r IH]; intros s2 H2; cbn; [exact H2|]. apply IH.
    destruct (nth_error _ k) as [c|]; [|exact H2]. destruct (blocked c); [now apply refuse_conserved|exact H2].
  - now apply fold_refuse_conserved.
Qed.
Theorem advance_conserved fuel : forall s target pref, conserved s -> conserved (advance fuel s target pref).
Proof.
  induction fuel as [|f IH]; intros s target pref H; cbn; [exact H|]. destruct (next_due s target); [|exact H]. apply IH. now apply fire_conserved.
Qed.
(* a caller that returned refused holds nothing: its status is "refused", which is not counted among the holders *)
