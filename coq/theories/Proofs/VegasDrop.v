(* C06 for Vegas: from every state satisfying the safety invariant VInv (C04: established by the constructor, preserved by every
   step) a drop sample never raises the reported estimate, and never raises the stored binary64 estimate once it is at least 7/4.
   The smoothing bound in VInv (smoothing >= 2^-50 x M) is what makes the smoothing step dominate the three roundings of the
   convex combination; below it the one-step claim is false for some binary64 states (e.g. est = 12006 - 2^-40, smoothing 7.1e-16). *)
From Coq Require Import ZArith Reals Lia Lra Psatz Bool List.
From Flocq Require Import Core BinarySingleNaN.
From GCL Require Import Base.F64 Base.F64Facts Proofs.Smooth Model.Measure Model.Limits Proofs.VegasSafe Proofs.AimdProofs Proofs.GradSafe Proofs.Grad2Safe.
Import ListNotations.
Open Scope R_scope.

Lemma k3_bound : (1 + u) * (1 + u) * (1 + u) <= 1 + 3 * u + / 1000000000000000000000000000000.
Proof. unfold u. lra. Qed.

(* e >= 7/4: the clamp is at most e - 1/2, and half the smoothing step pays for the roundings *)
Lemma vdrop_ineq e s m d : 7/4 <= e <= m + /2 -> 2 <= m <= 2147483648 -> 8 * u * m <= s <= 1 ->
  0 < d <= / 1000000000000000000000000000000 ->
  ((e*((1-s)*(1+u)+d)*(1+u)+d) + (s*(e-/2)*(1+u)+d))*(1+u)+d <= e.
Proof.
  intros He Hm Hs Hd. pose proof k3_bound as K3. pose proof u_pos as U0. set (k := 1 + u) in *.
  assert (K1: 1 <= k <= 2) by (unfold k, u; lra).
  assert (Um: / 4503599627370496 <= u * m) by (unfold u; lra).
  replace (((e*((1-s)*k+d)*k+d) + (s*(e-/2)*k+d))*k+d)
    with (e*(1-s)*(k*k*k) + s*(e-/2)*(k*k) + e*(d*(k*k)) + d*k + d*k + d) by ring.
  assert (S0: 0 <= s) by nra.
  assert (Q1: s*(e-/2)*(k*k) <= s*(e-/2)*(k*k*k)).
  { apply Rmult_le_compat_l; [apply Rmult_le_pos; lra|]. assert (0 <= k*k) by nra. nra. }
  assert (Q2: s*(e-/2)*(k*k*k) = s*e*(k*k*k) - s/2*(k*k*k)) by (unfold Rdiv; ring).
  assert (Q3: s/2 * 1 <= s/2*(k*k*k)).
  { apply Rmult_le_compat_l; [lra|]. assert (1 <= k*k) by nra. nra. }
  assert (Q4: e*(1-s)*(k*k*k) + s*e*(k*k*k) = e*(k*k*k)) by ring.
  assert (Q5: e*(k*k*k) <= e*(1 + 3*u + / 1000000000000000000000000000000)) by (apply Rmult_le_compat_l; lra).
  assert (Q6: d*(k*k) <= 4*d) by (assert (k*k <= 4) by nra; nra).
  assert (Q7: e*(d*(k*k)) <= e*(4*d)) by (apply Rmult_le_compat_l; lra).
  assert (Q8: e*(4*d) <= 2147483649 * (4 * / 1000000000000000000000000000000)) by (apply Rmult_le_compat; lra).
  assert (Q9: d*k <= 2*d) by nra.
  assert (QA: e * (3*u) <= (m + /2) * (3*u)) by (apply Rmult_le_compat_r; lra).
  assert (QB: (m + /2) * (3*u) <= 15/4 * (u*m)) by nra.
  assert (QC: e * / 1000000000000000000000000000000 <= 2147483649 * / 1000000000000000000000000000000) by (apply Rmult_le_compat_r; lra).
  assert (QD: 4 * (u*m) <= s/2) by lra.
  lra.
Qed.

(* e <= 7/4: the clamp is 1 and the result stays below 2 *)
Lemma vdrop_low e s d : 1 <= e <= 7/4 -> 0 <= s <= 1 -> 0 < d <= / 1000000000000000000000000000000 ->
  ((e*((1-s)*(1+u)+d)*(1+u)+d) + (s*1*(1+u)+d))*(1+u)+d <= 15/8.
Proof.
  intros He Hs Hd. pose proof k3_bound as K3. pose proof u_pos as U0. set (k := 1 + u) in *.
  assert (K1: 1 <= k <= 2) by (unfold k, u; lra).
  replace (((e*((1-s)*k+d)*k+d) + (s*1*k+d))*k+d)
    with (e*(1-s)*(k*k*k) + s*(k*k) + e*(d*(k*k)) + d*k + d*k + d) by ring.
  assert (Q1: s*(k*k) <= s*(k*k*k)) by (apply Rmult_le_compat_l; [lra|]; assert (0 <= k*k) by nra; nra).
  assert (Q2: e*(1-s)*(k*k*k) + s*(k*k*k) = (e*(1-s) + s)*(k*k*k)) by ring.
  assert (Q3: e*(1-s) + s <= 7/4) by nra.
  assert (Q4: (e*(1-s) + s)*(k*k*k) <= 7/4 * (1 + 3*u + / 1000000000000000000000000000000)).
  { apply Rmult_le_compat; try lra. nra. assert (0 <= k*k) by nra. nra. }
  assert (Q6: d*(k*k) <= 4*d) by (assert (k*k <= 4) by nra; nra).
  assert (Q7: e*(d*(k*k)) <= 7/4*(4*d)) by (apply Rmult_le_compat; nra).
  assert (Q9: d*k <= 2*d) by nra.
  unfold u in *. lra.
Qed.

Section Chain.
Variables (s est c : f64) (cb : Rdefinitions.R).
Hypothesis Hs : fin s = true.
Hypothesis He : fin est = true.
Hypothesis Hc : fin c = true.
Hypothesis Hs0 : 0 <= R s <= 1.
Hypothesis He1 : 1 <= R est <= 2147483649.
Hypothesis Hc1 : 0 <= R c <= cb.
Hypothesis Hcb : cb <= 2147483649.

(* the three roundings of the convex combination, bounded from above *)
Lemma smooth_upper :
  R (add (mul (sub one s) est) (mul s c)) <=
  ((R est*((1-R s)*(1+u)+dd)*(1+u)+dd) + (R s*cb*(1+u)+dd))*(1+u)+dd.
Proof.
  destruct R_one as [Fo Eo]. pose proof dd_small as [D0 D1]. pose proof u_pos as U0.
  destruct (sub_ok one s Fo Hs) as [Fw Ew]; [rewrite Eo; apply bpow1000_big; apply Rabs_le; split; lra|]. rewrite Eo in Ew.
  assert (Bw: 0 <= R (sub one s) <= (1 - R s) * (1 + u) + dd) by (rewrite Ew; split; [apply rnd_nonneg; lra|apply rnd_up; lra]).
  assert (W1: R (sub one s) <= 1) by (rewrite Ew; apply (rnd_le_int _ 1); [reflexivity|simpl; lra]).
  destruct (mul_ok _ _ Fw He) as [Fa Ea].
  { apply bpow1000_big. apply Rabs_le. assert (0 <= R (sub one s) * R est) by (apply Rmult_le_pos; lra).
    assert (R (sub one s) * R est <= 1 * 2147483649) by (apply Rmult_le_compat; lra). split; lra. }
  destruct (mul_ok _ _ Hs Hc) as [Fb Eb].
  { apply bpow1000_big. apply Rabs_le. assert (0 <= R s * R c) by (apply Rmult_le_pos; lra).
    assert (R s * R c <= 1 * 2147483649) by (apply Rmult_le_compat; lra). split; lra. }
  assert (A1: 0 <= R (mul (sub one s) est) <= R est * ((1 - R s) * (1 + u) + dd) * (1 + u) + dd).
  { rewrite Ea. assert (P: 0 <= R (sub one s) * R est) by (apply Rmult_le_pos; lra).
    split; [now apply rnd_nonneg|]. apply Rle_trans with (1 := rnd_up _ P). apply Rplus_le_compat_r. apply Rmult_le_compat_r; [lra|].
    rewrite (Rmult_comm (R (sub one s))). apply Rmult_le_compat_l; lra. }
  assert (B1: 0 <= R (mul s c) <= R s * cb * (1 + u) + dd).
  { rewrite Eb. assert (P: 0 <= R s * R c) by (apply Rmult_le_pos; lra).
    split; [now apply rnd_nonneg|]. apply Rle_trans with (1 := rnd_up _ P). apply Rplus_le_compat_r. apply Rmult_le_compat_r; [lra|].
    apply Rmult_le_compat_l; lra. }
  assert (A2: R (mul (sub one s) est) <= 2147483649).
  { rewrite Ea. apply (rnd_le_int _ 2147483649); [reflexivity|]. apply Rle_trans with (1 * 2147483649); [apply Rmult_le_compat; lra|simpl; lra]. }
  assert (B2: R (mul s c) <= 2147483649).
  { rewrite Eb. apply (rnd_le_int _ 2147483649); [reflexivity|]. apply Rle_trans with (1 * 2147483649); [apply Rmult_le_compat; lra|simpl; lra]. }
  destruct (add_ok _ _ Fa Fb) as [Fc Ec]; [apply bpow1000_big; apply Rabs_le; split; lra|].
  rewrite Ec. apply Rle_trans with ((R (mul (sub one s) est) + R (mul s c)) * (1 + u) + dd); [apply rnd_up; lra|].
  apply Rplus_le_compat_r. apply Rmult_le_compat_r; lra.
Qed.
End Chain.

Lemma to_int_floor z : fin z = true -> 0 <= R z <= 4611686018427387904 -> to_int z = Zfloor (R z).
Proof.
  intros Fz Bz. rewrite to_int_trunc; [apply Ztrunc_floor; lra|exact Fz|]. rewrite Ztrunc_floor by lra. split.
  - apply Z.le_trans with 0%Z; [lia|]. apply Zfloor_lub. simpl. lra.
  - apply Z.le_lt_trans with (2^62)%Z; [|lia]. apply Zfloor_le_of. simpl. lra.
Qed.

Lemma to_int_mono x y : fin x = true -> fin y = true -> 0 <= R x -> R x <= R y -> R y <= 4611686018427387904 ->
  (to_int x <= to_int y)%Z.
Proof.
  intros Fx Fy X0 XY YB. rewrite (to_int_floor x), (to_int_floor y) by (auto; lra). now apply Zfloor_le.
Qed.

Lemma to_int_lt2 x : fin x = true -> 0 <= R x < 2 -> (to_int x <= 1)%Z.
Proof.
  intros Fx Bx. rewrite to_int_floor by (auto; lra). apply Zlt_succ_le. apply lt_IZR.
  apply Rle_lt_trans with (R x); [apply Zfloor_lb|simpl; lra].
Qed.

Theorem vegas_drop_nonincrease v M s o : VInv v M -> sample_ok s -> s_drop s = true ->
  vegas_step v s = Some o ->
  (vegas_est (o_st o) <= vegas_est v)%Z /\ (7/4 <= R (v_est v) -> R (v_est (o_st o)) <= R (v_est v)).
Proof.
  intros HI HS Hd. pose proof (M_b v M HI) as MB. pose proof (est_int v M HI) as EI.
  pose proof (fin_step v M HI) as FS. pose proof (log10f_ok v M s HI HS) as (y & Ey & Fy & By). pose proof (newl_sub v M HI y Fy By) as Fn.
  destruct HI as (C & Fe & E1 & E2). destruct C as [cM cmax csf cs1 cs2].
  unfold vegas_step, vegas_update.
  destruct (vegas_should_probe v (v_pcount v + 1)).
  { intros H; injection H as H; subst o. unfold vegas_est; cbn [o_st mk vegas_set v_est]. split; [lia|lra]. }
  destruct (feq (v_noload v) zero || flt (of_int (s_rtt s)) (v_noload v)).
  { intros H; injection H as H; subst o. unfold vegas_est; cbn [o_st mk vegas_set v_est]. split; [lia|lra]. }
  rewrite Ey, Hd. cbn [option_map].
  intros H; injection H as H; subst o. unfold vegas_est; cbn [o_st mk vegas_set v_est].
  specialize (FS (sub (v_est v) y) (v_pcount v + 1)%Z Fn). cbv zeta in FS. destruct FS as (_ & Fnew & N1 & N2). cbn [vegas_set v_est] in Fnew, N1, N2.
  (* the clamp *)
  destruct (sub_ok _ _ Fe Fy) as [_ En]; [apply bpow1000_big; apply Rabs_le; split; lra|].
  destruct (of_int_exact (v_max v)) as [Fm Em]; [lia|].
  destruct (fmin_ok _ _ Fm Fn) as [F1 R1]. destruct R_one as [Fo Eo]. destruct (fmax_ok _ _ Fo F1) as [F2 R2].
  set (c := fmax one (fmin (of_int (v_max v)) (sub (v_est v) y))) in *. rewrite R1, Eo, Em in R2.
  assert (C1: 1 <= R c) by (rewrite R2; apply Rmax_l).
  pose proof dd_small as DD. pose proof u_pos as U0.
  assert (S0: 0 <= R (v_smooth v)) by (assert (0 <= u * IZR M) by (apply Rmult_le_pos; lra); lra).
  destruct (Rlt_dec (R (v_est v)) (7/4)) as [Lo|Hi].
  - (* low: c = 1 and the result is below 2 *)
    assert (C2: R c <= 1).
    { rewrite R2. apply Rmax_lub; [lra|]. apply Rle_trans with (1 := Rmin_r _ _). rewrite En.
      apply (rnd_le_int _ 1); [reflexivity|simpl; lra]. }
    pose proof (smooth_upper (v_smooth v) (v_est v) c 1 csf Fe F2 (conj S0 cs2)) as SU.
    assert (SU': R (add (mul (sub one (v_smooth v)) (v_est v)) (mul (v_smooth v) c)) <= 15/8).
    { assert (G1: 1 <= R (v_est v) <= 2147483649) by lra. assert (G2: 0 <= R c <= 1) by lra. assert (G3: 1 <= 2147483649) by lra.
      apply Rle_trans with (1 := SU G1 G2 G3). apply vdrop_low; lra. }
    split; [|intros; lra].
    assert (T1: (to_int (add (mul (sub one (v_smooth v)) (v_est v)) (mul (v_smooth v) c)) <= 1)%Z).
    { apply to_int_lt2; auto; lra. }
    exact (Z.le_trans _ _ _ T1 (proj1 EI)).
  - assert (Hi': 7/4 <= R (v_est v)) by lra. clear Hi.
    assert (M2: 2 <= IZR M).
    { apply (IZR_le 2). assert (1 < M)%Z; [apply lt_IZR; lra | lia]. }
    assert (C2: R c <= R (v_est v) - /2).
    { rewrite R2. apply Rmax_lub; [lra|]. apply Rle_trans with (1 := Rmin_r _ _). rewrite En.
      destruct (Rle_dec (R (v_est v) - R y) 1) as [L1|L1].
      - apply Rle_trans with 1; [|lra]. apply (rnd_le_int _ 1); [reflexivity|simpl; lra].
      - apply Rle_trans with ((R (v_est v) - R y) * (1 + u) + dd); [apply rnd_up; lra|].
        assert ((R (v_est v) - R y) * u <= 2147483649 * u) by (apply Rmult_le_compat_r; lra). unfold u in *. lra. }
    pose proof (smooth_upper (v_smooth v) (v_est v) c (R (v_est v) - /2) csf Fe F2 (conj S0 cs2)) as SU.
    assert (SU': R (add (mul (sub one (v_smooth v)) (v_est v)) (mul (v_smooth v) c)) <= R (v_est v)).
    { assert (G1: 1 <= R (v_est v) <= 2147483649) by lra. assert (G2: 0 <= R c <= R (v_est v) - /2) by lra. assert (G3: R (v_est v) - /2 <= 2147483649) by lra.
      apply Rle_trans with (1 := SU G1 G2 G3). apply (vdrop_ineq _ _ (IZR M)); lra. }
    split; [|intros _; exact SU'].
    assert (T1: (to_int (add (mul (sub one (v_smooth v)) (v_est v)) (mul (v_smooth v) c)) <= to_int (v_est v))%Z).
    { apply to_int_mono; auto; lra. }
    exact T1.
Qed.
