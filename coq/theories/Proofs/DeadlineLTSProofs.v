From Coq Require Import ZArith List Lia Bool Arith.
From GCL Require Import Model.DeadlineLTS.
Import ListNotations.
Open Scope Z_scope.

(* C10 refuted on the faithful model of the deadline limiter: the lost wake-up (known finding F8d), and what it costs:
   the caller sleeps through [now, deadline) with capacity free, and if the timer fires after the deadline instant it is refused. *)
Definition d0 : dst := {| dbusy := 1; dlimit := 1; dnow := 0; ddeadline := 5; dthr := [DHolding; DIdle] |}.
Definition lost_sched : list dlabel := [DTry 1%nat; DRel 0%nat; DBcast 0%nat; DSleep 1%nat].

Theorem deadline_refuted :
  exists s', drun d0 lost_sched = Some s' /\ dstranded s' = true.
Proof. eexists. split; vm_compute; reflexivity. Qed.

Theorem deadline_refuted_refusal :
  exists s', drun d0 (lost_sched ++ [DTick; DTick; DTick; DTick; DTick; DTick; DTimer 1%nat; DTry 1%nat]) = Some s'
             /\ nth_error (dthr s') 1 = Some DRefused /\ dbusy s' = 0 /\ dlimit s' = 1.
Proof. eexists. split; [vm_compute; reflexivity | vm_compute; auto]. Qed.

(* Partial: schedules in which no Broadcast happens while some caller is in the window (DParked) *)
Definition isParked (p : dpc) : bool := match p with DParked => true | _ => false end.
Definition dno_window (s : dst) (a : dlabel) : bool :=
  match a with DBcast _ => negb (existsb isParked (dthr s)) | _ => true end.

Inductive dreach_nw (s0 : dst) : dst -> Prop :=
| drn0 : dreach_nw s0 s0
| drn1 s a s' : dreach_nw s0 s -> dno_window s a = true -> dstep s a = Some s' -> dreach_nw s0 s'.

Definition isRel (p : dpc) := match p with DReleasing => true | _ => false end.
Definition isSlp (p : dpc) := match p with DAsleep | DParked => true | _ => false end.

Definition DInv (s : dst) : Prop :=
  dbusy s < dlimit s -> existsb isSlp (dthr s) = true -> existsb isRel (dthr s) = true.

Lemma existsb_dupd f l i old p :
  nth_error l i = Some old ->
  existsb f (dupd l i p) = true -> f p = true \/ existsb f l = true.
Proof.
  revert i; induction l as [|q l IH]; intros [|i] H; cbn in H; try discriminate; cbn.
  - inversion H; subst. intros E. apply orb_true_iff in E as [E|E]; [left; exact E | right; rewrite E; apply orb_true_r].
  - intros E. apply orb_true_iff in E as [E|E]; [right; rewrite E; reflexivity|].
    destruct (IH _ H E) as [A|A]; [left; exact A | right; rewrite A; apply orb_true_r].
Qed.

Lemma existsb_dupd_intro f l i old p :
  nth_error l i = Some old -> f p = true -> existsb f (dupd l i p) = true.
Proof.
  revert i; induction l as [|q l IH]; intros [|i] H Hp; cbn in H; try discriminate; cbn.
  - rewrite Hp; reflexivity.
  - rewrite (IH _ H Hp). apply orb_true_r.
Qed.

Lemma existsb_dupd_keep f l i old p :
  nth_error l i = Some old -> f old = false -> existsb f l = true -> existsb f (dupd l i p) = true.
Proof.
  revert i; induction l as [|q l IH]; intros [|i] H Ho E; cbn in H; try discriminate; cbn in *.
  - inversion H; subst. rewrite Ho in E. cbn in E. rewrite E. apply orb_true_r.
  - apply orb_true_iff in E as [E|E]; [rewrite E; reflexivity|]. rewrite (IH _ H Ho E). apply orb_true_r.
Qed.

Lemma existsb_nth f (l : list dpc) i p : nth_error l i = Some p -> f p = true -> existsb f l = true.
Proof.
  revert i; induction l as [|q l IH]; intros [|i] H Hp; cbn in H; try discriminate; cbn.
  - inversion H; subst. rewrite Hp. reflexivity.
  - rewrite (IH _ H Hp). apply orb_true_r.
Qed.

Lemma dwake_no_sleepers l : existsb isParked l = false -> existsb isSlp (map dwake l) = false.
Proof.
  induction l as [|p l IH]; cbn; [reflexivity|]. intros H. apply orb_false_iff in H as [H1 H2].
  rewrite (IH H2). destruct p; cbn in *; try reflexivity; discriminate.
Qed.

Lemma dupd_parked_free l i p :
  existsb isParked l = false -> isParked p = false -> existsb isParked (dupd l i p) = false.
Proof.
  revert i; induction l as [|q l IH]; intros i H Hp; cbn in *; [reflexivity|].
  apply orb_false_iff in H as [H1 H2]. destruct i; cbn.
  - rewrite H2, Hp. reflexivity.
  - rewrite H1, (IH _ H2 Hp). reflexivity.
Qed.

(* replacing a caller that is neither asleep nor releasing by one that is not asleep keeps the invariant's two sides *)
Lemma inv_replace (s : dst) i old p b :
  DInv s -> nth_error (dthr s) i = Some old ->
  isSlp p = false -> isRel old = false -> b >= dbusy s ->
  DInv (with_thr s b (dupd (dthr s) i p)).
Proof.
  unfold DInv; cbn. intros HI Hg Hp Ho Hb Hlt He.
  eapply existsb_dupd_keep; eauto. apply HI; [lia|].
  destruct (existsb_dupd _ _ _ _ _ Hg He) as [A|A]; [rewrite Hp in A; discriminate | exact A].
Qed.

Lemma dstep_inv s a s' : DInv s -> dno_window s a = true -> dstep s a = Some s' -> DInv s'.
Proof.
  intros HI Hnw Hs. destruct a as [i|i|i|i| |i]; cbn [dstep] in Hs.
  - destruct (nth_error (dthr s) i) as [p|] eqn:Hg; try discriminate.
    destruct p; try discriminate.
    + destruct (ddeadline s <? dnow s); [inversion Hs; subst; eapply inv_replace; eauto; lia|].
      destruct (dbusy s <? dlimit s) eqn:Hlt; [inversion Hs; subst; eapply inv_replace; eauto; lia|].
      apply Z.ltb_ge in Hlt.
      destruct (ddeadline s - dnow s <=? 0); inversion Hs; subst; [eapply inv_replace; eauto; lia|].
      unfold DInv; cbn. lia.
    + destruct (dbusy s <? dlimit s) eqn:Hlt; inversion Hs; subst; eapply inv_replace; eauto; lia.
  - destruct (nth_error (dthr s) i) as [[]|] eqn:Hg; try discriminate. inversion Hs; subst; clear Hs.
    unfold DInv; cbn. intros Hb He. eapply existsb_dupd_keep; eauto. apply HI; [exact Hb|].
    eapply existsb_nth; eauto.
  - destruct (nth_error (dthr s) i) as [[]|] eqn:Hg; try discriminate. inversion Hs; subst; clear Hs.
    unfold DInv; cbn. intros _ _. eapply existsb_dupd_intro; eauto.
  - destruct (nth_error (dthr s) i) as [[]|] eqn:Hg; try discriminate. inversion Hs; subst; clear Hs.
    unfold DInv; cbn. intros _ He. cbn in Hnw. apply negb_true_iff in Hnw.
    rewrite dwake_no_sleepers in He; [discriminate|]. apply dupd_parked_free; [exact Hnw | reflexivity].
  - inversion Hs; subst. exact HI.
  - destruct (nth_error (dthr s) i) as [p|] eqn:Hg; try discriminate.
    destruct p; try discriminate; destruct (ddeadline s <=? dnow s); try discriminate; inversion Hs; subst;
      eapply inv_replace; eauto; lia.
Qed.

Theorem deadline_partial s0 s :
  DInv s0 -> dreach_nw s0 s -> dstranded s = false.
Proof.
  intros H0 Hr. assert (HI: DInv s) by (induction Hr; [assumption | eapply dstep_inv; eauto]).
  unfold dstranded. destruct (dsettled s) eqn:Hs; [|reflexivity]. cbn.
  destruct (dbusy s <? dlimit s) eqn:Hlt; [|reflexivity]. cbn.
  destruct (dnow s <? ddeadline s); [|reflexivity]. cbn.
  destruct (existsb disAsleep (dthr s)) eqn:Ha; [|reflexivity].
  exfalso. apply Z.ltb_lt in Hlt.
  assert (H: existsb isSlp (dthr s) = true).
  { clear - Ha. induction (dthr s) as [|p l IH]; cbn in *; [discriminate|].
    apply orb_true_iff in Ha as [A|A]; [destruct p; try discriminate; reflexivity | rewrite (IH A); apply orb_true_r]. }
  specialize (HI Hlt H). unfold dsettled in Hs. apply negb_true_iff in Hs.
  clear - HI Hs. induction (dthr s) as [|p l IH]; cbn in *; [discriminate|].
  apply orb_false_iff in Hs as [S1 S2]. apply orb_true_iff in HI as [A|A]; [destruct p; discriminate | auto].
Qed.

Example deadline_nonvacuous : DInv {| dbusy := 1; dlimit := 1; dnow := 0; ddeadline := 9; dthr := [DHolding; DIdle; DIdle] |}.
Proof. unfold DInv; cbn. lia. Qed.

(* The deadline is honoured at step granularity too: once the clock is past the deadline nobody newly goes to sleep, and every
   sleeper's timer is enabled; a caller that attempts after the deadline is refused whatever the capacity. *)
Theorem deadline_try_after s i s' :
  ddeadline s < dnow s -> nth_error (dthr s) i = Some DIdle -> dstep s (DTry i) = Some s' ->
  nth_error (dthr s') i = Some DRefused /\ dbusy s' = dbusy s.
Proof.
  intros Hd Hg Hs. cbn [dstep] in Hs. rewrite Hg in Hs.
  destruct (Z.ltb_spec (ddeadline s) (dnow s)); [|lia]. inversion Hs; subst; cbn. split; [|reflexivity].
  clear - Hg. revert i Hg. induction (dthr s) as [|q l IH]; intros [|i] H; cbn in *; try discriminate; auto.
Qed.

Theorem deadline_no_new_sleeper s i s' :
  ddeadline s <= dnow s -> dstep s (DTry i) = Some s' -> existsb isParked (dthr s) = false -> existsb isParked (dthr s') = false.
Proof.
  intros Hd Hs Hp. cbn [dstep] in Hs. destruct (nth_error (dthr s) i) as [p|] eqn:Hg; try discriminate.
  destruct p; try discriminate.
  - destruct (ddeadline s <? dnow s); [inversion Hs; subst; cbn; apply dupd_parked_free; auto|].
    destruct (dbusy s <? dlimit s); [inversion Hs; subst; cbn; apply dupd_parked_free; auto|].
    destruct (Z.leb_spec (ddeadline s - dnow s) 0); [|lia]. inversion Hs; subst; cbn; apply dupd_parked_free; auto.
  - destruct (dbusy s <? dlimit s); inversion Hs; subst; cbn; apply dupd_parked_free; auto.
Qed.
