(* C04 lifted through the windowed wrapper: the delegate is only ever fed window aggregates (average RTT, maximum in-flight, drop flag)
   that are themselves valid samples, so the safety invariants of Vegas / Gradient / Gradient2 hold after ANY raw sample list whose
   RTT sum cannot overflow int64 (length x B < 2^63); no step panics (the average never divides by zero). *)
From Coq Require Import ZArith Reals Lia Bool List.
From Flocq Require Import Core BinarySingleNaN.
From GCL Require Import Base.F64 Base.F64Facts Model.Measure Model.Limits Proofs.MeasureProofs Proofs.VegasSafe Proofs.GradSafe Proofs.Grad2Safe.
Import ListNotations.
Open Scope Z_scope.

Definition AInv (a : algo) (M : Z) : Prop :=
  match a with AVegas v => VInv v M | AGrad g => GInv g M | AGrad2 h => G2Inv h M | _ => True end.

Definition est_ok (a : algo) (M : Z) : Prop :=
  match a with
  | AVegas v => 1 <= vegas_est v <= M
  | AGrad g => g_min g <= grad_est g <= M
  | AGrad2 h => h_min h <= grad2_est h <= M
  | _ => True end.

Lemma algo_step_safe a M s : AInv a M -> sample_ok s -> exists o, algo_step a s = Some o /\ AInv (o_st o) M.
Proof.
  intros HI HS. assert (GS: gsample_ok s) by (destruct HS; split; assumption).
  destruct a as [a|v|g|h|l|l]; cbn [algo_step AInv] in *.
  - eexists; split; [reflexivity|exact I].
  - destruct (vegas_step_safe v M s HI HS) as (o & E & Io). rewrite E. eexists; split; [reflexivity|exact Io].
  - destruct (grad_step_safe g M s HI GS) as (o & E & Io). rewrite E. eexists; split; [reflexivity|exact Io].
  - eexists; split; [reflexivity|]. cbn. apply grad2_step_safe; assumption.
  - eexists; split; [reflexivity|exact I].
  - eexists; split; [reflexivity|exact I].
Qed.

Lemma AInv_est a M : AInv a M -> est_ok a M.
Proof.
  destruct a as [a|v|g|h|l|l]; cbn; auto.
  - intros HI. exact (est_int v M HI).
  - intros HI. exact (gest_int g M HI).
  - intros HI. exact (proj2 (grad2_run_safe h M [] HI (Forall_nil _))).
Qed.

(* the window while it fills: count, sum and maximum stay in range *)
Definition WinInv (B n : Z) (w : win) : Prop :=
  0 <= wcount w <= n /\ 0 <= wsum w <= wcount w * B /\ 0 <= wmaxinf w < 2^31.

Definition raw_ok (B : Z) (s : sample) : Prop := sample_ok s /\ s_rtt s <= B.

Lemma wrap64_id z : - 2^63 <= z < 2^63 -> wrap64 z = z.
Proof. intros H. unfold wrap64. rewrite Z.mod_small by lia. lia. Qed.

Lemma win_step_inv B n w s : 0 <= B -> (n + 1) * B < 2^63 -> WinInv B n w -> raw_ok B s ->
  let wn := if s_drop s then win_add_dropped w (s_inflight s) else win_add w (s_rtt s) (s_inflight s) in
  WinInv B (n + 1) wn /\ 0 <= win_avg wn <= B.
Proof.
  intros HB Hn (Hc & Hs & Hm) [HS Hr]. destruct HS as [[R0 _] [I0 I1] _ _ _ _ _ _]. cbv zeta.
  assert (Avg: forall c sm, 0 <= c -> 0 <= sm <= c * B -> 0 <= (if c =? 0 then 0 else Z.quot sm c) <= B).
  { intros c sm Hc0 Hsm. destruct (Z.eqb_spec c 0); [lia|]. rewrite Z.quot_div_nonneg by lia. split.
    - apply Z.div_pos; lia.
    - apply Z.div_le_upper_bound; lia. }
  destruct (s_drop s).
  - unfold WinInv, win_add_dropped, win_avg; cbn [wcount wsum wmaxinf]. split; [|apply Avg; lia].
    repeat split; try lia; destruct (Z.ltb_spec (s_inflight s) (wmaxinf w)); lia.
  - unfold WinInv, win_add, win_avg; cbn [wcount wsum wmaxinf].
    assert (Sum: wrap64 (wsum w + s_rtt s) = wsum w + s_rtt s) by (apply wrap64_id; nia).
    rewrite Sum. split; [|apply Avg; nia].
    repeat split; try lia; try nia; destruct (Z.ltb_spec (s_inflight s) (wmaxinf w)); lia.
Qed.

Lemma WinInv_empty B n : 0 <= n -> WinInv B n win_empty.
Proof. intros H. unfold WinInv, win_empty; cbn. lia. Qed.

Lemma WinInv_weaken B n m w : n <= m -> WinInv B n w -> WinInv B m w.
Proof. unfold WinInv. intros H (A & B0 & C). repeat split; lia. Qed.

Fixpoint windowed_run (w : windowed) (l : list sample) : option windowed :=
  match l with
  | nil => Some w
  | s :: r => match windowed_step w s with Some o => windowed_run (o_st o) r | None => None end
  end.

Theorem windowed_step_safe B n M w s : 0 <= B <= 2^62 -> (n + 1) * B < 2^63 ->
  AInv (wd_inner w) M -> WinInv B n (wd_win w) -> raw_ok B s ->
  exists o, windowed_step w s = Some o /\ AInv (wd_inner (o_st o)) M /\ WinInv B (n + 1) (wd_win (o_st o)).
Proof.
  intros HB Hn HI HW HR. unfold windowed_step. cbv zeta.
  destruct (s_rtt s <? w_thr (wd_cfg w)).
  { eexists; split; [reflexivity|]. cbn [o_st mk]. split; [exact HI|]. apply WinInv_weaken with n; [lia|exact HW]. }
  destruct (win_step_inv B n (wd_win w) s ltac:(lia) Hn HW HR) as [HW' HA]. cbv zeta in HW', HA.
  set (wn := if s_drop s then win_add_dropped (wd_win w) (s_inflight s) else win_add (wd_win w) (s_rtt s) (s_inflight s)) in *.
  destruct (_ && _ && _).
  - assert (SO: sample_ok {| s_start := s_start s; s_rtt := win_avg wn; s_inflight := wmaxinf wn; s_drop := wdrop wn;
                             s_draw := s_draw s; s_lgi := s_lgi s; s_lgf := s_lgf s |}).
    { destruct HR as [HS _]. destruct HS. destruct HW' as (_ & _ & Hm). constructor; cbn; auto; lia. }
    destruct (algo_step_safe _ M _ HI SO) as (o & E & Io). rewrite E. eexists; split; [reflexivity|]. cbn [o_st mk wd_inner wd_win].
    split; [exact Io|]. apply WinInv_empty. destruct HW as ((? & ?) & _). lia.
  - eexists; split; [reflexivity|]. cbn [o_st mk wd_inner wd_win]. split; [exact HI|exact HW'].
Qed.

Theorem windowed_run_safe B M l : forall n w, 0 <= B <= 2^62 -> (n + Z.of_nat (length l)) * B < 2^63 -> 0 <= n ->
  AInv (wd_inner w) M -> WinInv B n (wd_win w) -> Forall (raw_ok B) l ->
  exists w', windowed_run w l = Some w' /\ AInv (wd_inner w') M /\ est_ok (wd_inner w') M.
Proof.
  induction l as [|s r IH]; intros n w HB Hn Hn0 HI HW HL; cbn [windowed_run].
  - exists w. split; [reflexivity|]. split; [exact HI|]. now apply AInv_est.
  - inversion HL as [|? ? Hs Hr]; subst. cbn [length] in Hn. rewrite Nat2Z.inj_succ in Hn.
    destruct (windowed_step_safe B n M w s HB ltac:(nia) HI HW Hs) as (o & E & Io & Wo). rewrite E.
    apply (IH (n + 1) (o_st o)); auto; try lia. 
Qed.
