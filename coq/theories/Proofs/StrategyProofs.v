(* C03 (and the strategy half of C01/C02/C05): partitioned admission, shares, exact bins. *)
From Coq Require Import ZArith List Bool Lia.
From Flocq Require Import Core BinarySingleNaN.
From GCL Require Import Base.F64 Model.Strategy.
Import ListNotations.
Open Scope Z_scope.

(* ---------- association-list facts ---------- *)
Lemma get_set_same l i b b0 : get_obj l i = Some b0 -> get_obj (set_obj l i b) i = Some b.
Proof.
  induction l as [|[j c] r IH]; cbn; [discriminate|]. destruct (Z.eqb_spec j i).
  - intros _. cbn. rewrite (proj2 (Z.eqb_eq j i) e). reflexivity.
  - intros H. cbn. destruct (Z.eqb_spec j i); [contradiction|]. auto.
Qed.
Lemma get_set_other l i j b : i <> j -> get_obj (set_obj l i b) j = get_obj l j.
Proof.
  intros Hij. induction l as [|[k c] r IH]; cbn; [reflexivity|]. destruct (Z.eqb_spec k i).
  - subst. cbn. destruct (Z.eqb_spec i j); [contradiction|reflexivity].
  - cbn. destruct (Z.eqb_spec k j); auto.
Qed.
Lemma get_upd_same l i f b0 : get_obj l i = Some b0 -> get_obj (upd_obj l i f) i = Some (f b0).
Proof. intros H. unfold upd_obj. rewrite H. eapply get_set_same; eauto. Qed.
Lemma get_upd_other l i j f : i <> j -> get_obj (upd_obj l i f) j = get_obj l j.
Proof. intros H. unfold upd_obj. destruct (get_obj l i); [now apply get_set_other|reflexivity]. Qed.
Lemma get_upd l i j f : get_obj (upd_obj l i f) j = if i =? j then option_map f (get_obj l j) else get_obj l j.
Proof.
  destruct (Z.eqb_spec i j).
  - subst. destruct (get_obj l j) eqn:E; cbn.
    + now apply get_upd_same.
    + unfold upd_obj. rewrite E. exact E.
  - now apply get_upd_other.
Qed.
Lemma get_app l l' i : get_obj (l ++ l') i = match get_obj l i with Some b => Some b | None => get_obj l' i end.
Proof. induction l as [|[j c] r IH]; cbn; [reflexivity|]. destruct (j =? i); auto. Qed.

(* total busy over all partition objects *)
Definition sum_busy (l : list (objid * bin)) : Z := fold_right (fun p acc => b_busy (snd p) + acc) 0 l.
Lemma sum_busy_app l l' : sum_busy (l ++ l') = sum_busy l + sum_busy l'.
Proof. induction l as [|x r IH]; cbn; [reflexivity|]. fold (sum_busy (r ++ l')). fold (sum_busy r). lia. Qed.
Lemma sum_busy_set l i b b0 : get_obj l i = Some b0 -> sum_busy (set_obj l i b) = sum_busy l - b_busy b0 + b_busy b.
Proof.
  induction l as [|[j c] r IH]; cbn; [discriminate|]. destruct (Z.eqb_spec j i).
  - intros H; inversion H; subst. cbn. fold (sum_busy r). lia.
  - intros H. cbn. fold (sum_busy (set_obj r i b)) (sum_busy r). rewrite (IH H). lia.
Qed.
Lemma sum_busy_upd l i f b0 : get_obj l i = Some b0 -> sum_busy (upd_obj l i f) = sum_busy l - b_busy b0 + b_busy (f b0).
Proof. intros H. unfold upd_obj. rewrite H. now apply sum_busy_set. Qed.
Lemma sum_busy_upd_same l i f : (forall b, b_busy (f b) = b_busy b) -> sum_busy (upd_obj l i f) = sum_busy l.
Proof.
  intros Hf. unfold upd_obj. destruct (get_obj l i) eqn:E; [|reflexivity].
  rewrite (sum_busy_set l i (f b) b E), Hf. lia.
Qed.

(* ---------- C03_admit_iff: the admission decision, exactly ---------- *)
(* the bin a request is charged to: the first live partition matching, else <unknown> (lookup) / nothing (predicate) *)
Definition target (p : part) (k : Z) : option objid :=
  match find_live (p_objs p) (p_live p) k with Some i => Some i | None => if p_lookup p then Some 0 else None end.

Theorem admit_iff p k :
  let '(p', ok, n, o) := part_try p k in
  match target p k with
  | None => ok = false /\ p' = p                                  (* no partition matches: refused *)
  | Some i =>
    match get_obj (p_objs p) i with
    | None => ok = false /\ p' = p
    | Some b =>
        (ok = true <-> (p_busy p < p_limit p \/ b_busy b < b_limit b)) /\
        (ok = true -> o = Some i /\ p_busy p' = p_busy p + 1 /\ get_obj (p_objs p') i = Some (bin_add_busy 1 b) /\ n = p_busy p + 1) /\
        (ok = false -> p' = p)
    end
  end.
Proof.
  unfold part_try, target. destruct (match find_live _ _ _ with Some i => Some i | None => _ end) as [i|]; [|split; reflexivity].
  destruct (get_obj (p_objs p) i) as [b|] eqn:E; [|split; reflexivity].
  destruct (Z.leb_spec (p_limit p) (p_busy p)) as [H1|H1]; destruct (Z.leb_spec (b_limit b) (b_busy b)) as [H2|H2]; cbn [andb].
  - split; [split; [discriminate|lia]|]. split; [discriminate|reflexivity].
  - split; [split; [auto|reflexivity]|]. split; [|discriminate]. intros _. cbn. repeat split. eapply get_upd_same; eauto.
  - split; [split; [auto|reflexivity]|]. split; [|discriminate]. intros _. cbn. repeat split. eapply get_upd_same; eauto.
  - split; [split; [auto|reflexivity]|]. split; [|discriminate]. intros _. cbn. repeat split. eapply get_upd_same; eauto.
Qed.

(* ---------- invariant: bins exact, shares follow the total ---------- *)
(* tokens outstanding: the object each granted, unreleased token is charged to *)
Definition count_tok (i : objid) (toks : list objid) : Z := Z.of_nat (length (filter (fun j => j =? i) toks)).

Record PInv (p : part) (toks : list objid) : Prop := {
  pi_total : p_busy p = sum_busy (p_objs p);
  pi_bins : forall i b, get_obj (p_objs p) i = Some b -> b_busy b = count_tok i toks;
  pi_toks : forall i, In i toks -> get_obj (p_objs p) i <> None;
  pi_share : forall i b, In i (p_live p) -> get_obj (p_objs p) i = Some b -> b_limit b = share (p_limit p) (b_pct b);
  pi_live : forall i, In i (p_live p) -> get_obj (p_objs p) i <> None /\ 0 < i < p_next p;
  pi_fresh : forall i, p_next p <= i -> get_obj (p_objs p) i = None;
  pi_next : 0 < p_next p }.

Lemma mk_objs_get i ps total j :
  get_obj (mk_objs i ps total) j <> None -> i <= j < i + Z.of_nat (length ps).
Proof.
  revert i. induction ps as [|[k pct] r IH]; intros i; cbn; [congruence|].
  destruct (Z.eqb_spec i j); [intros _; lia|]. intros H. apply IH in H. lia.
Qed.
Lemma mk_objs_share i ps total j b : get_obj (mk_objs i ps total) j = Some b -> b_limit b = share total (b_pct b) /\ b_busy b = 0.
Proof.
  revert i. induction ps as [|[k pct] r IH]; intros i; cbn; [discriminate|].
  destruct (i =? j); [intros H; inversion H; subst; cbn; auto|]. apply IH.
Qed.
Lemma mk_objs_sum i ps total : sum_busy (mk_objs i ps total) = 0.
Proof. revert i. induction ps as [|[k pct] r IH]; intros i; cbn; [reflexivity|]. fold (sum_busy (mk_objs (i + 1) r total)). rewrite IH. reflexivity. Qed.
Lemma mk_objs_fst i ps total j : In j (map fst (mk_objs i ps total)) -> get_obj (mk_objs i ps total) j <> None.
Proof.
  revert i. induction ps as [|[k pct] r IH]; intros i; cbn; [tauto|].
  intros [H|H]; [subst; rewrite Z.eqb_refl; discriminate|]. destruct (i =? j); [discriminate|]. now apply IH.
Qed.

Lemma init_inv lookup ps total : PInv (part_init lookup ps total) [].
Proof.
  unfold part_init. constructor; cbn [p_busy p_objs p_live p_limit p_next].
  - cbn. fold (sum_busy (mk_objs 1 ps total)). rewrite mk_objs_sum. reflexivity.
  - intros i b. cbn [get_obj]. destruct (0 =? i); [intros H; injection H as <-; reflexivity|]. intros H. apply mk_objs_share in H. unfold count_tok; cbn. tauto.
  - intros i [].
  - intros i b Hi. cbn [get_obj]. destruct (Z.eqb_spec 0 i).
    + subst. apply mk_objs_fst, mk_objs_get in Hi. lia.
    + intros H. apply mk_objs_share in H. tauto.
  - intros i Hi. pose proof (mk_objs_fst _ _ _ _ Hi) as H. pose proof (mk_objs_get _ _ _ _ H). split; [|lia].
    cbn [get_obj]. destruct (0 =? i); [discriminate|exact H].
  - intros i Hi. cbn [get_obj]. destruct (Z.eqb_spec 0 i); [lia|]. destruct (get_obj (mk_objs 1 ps total) i) eqn:E; [|reflexivity].
    assert (get_obj (mk_objs 1 ps total) i <> None) by congruence. apply mk_objs_get in H. lia.
  - lia.
Qed.

Lemma count_tok_cons i j t : count_tok i (j :: t) = (if j =? i then 1 else 0) + count_tok i t.
Proof. unfold count_tok. cbn. destruct (j =? i); cbn [length]; lia. Qed.


(* changing one object's busy count by d, with the token multiset changing accordingly *)
Lemma inv_upd_busy p toks i b d toks' : PInv p toks -> get_obj (p_objs p) i = Some b ->
  (forall j, count_tok j toks' = count_tok j toks + (if i =? j then d else 0)) ->
  (forall j, In j toks' -> j = i \/ In j toks) ->
  PInv (part_with p (upd_obj (p_objs p) i (bin_add_busy d)) (p_live p) (p_busy p + d) (p_limit p) (p_next p)) toks'.
Proof.
  intros I E Hc Hin. destruct I as [I1 I2 I3 I4 I5 I6 I7].
  constructor; cbn [part_with p_busy p_objs p_live p_limit p_next]; auto.
  - rewrite (sum_busy_upd _ _ _ _ E). cbn. lia.
  - intros j bj. rewrite get_upd. destruct (Z.eqb_spec i j).
    + subst j. rewrite E. cbn. intros H; inversion H; subst. cbn. rewrite Hc, Z.eqb_refl, (I2 i b E). reflexivity.
    + intros H. rewrite Hc. destruct (Z.eqb_spec i j); [contradiction|]. rewrite (I2 j bj H). lia.
  - intros j Hj. rewrite get_upd. destruct (Z.eqb_spec i j).
    + subst. rewrite E. discriminate.
    + destruct (Hin j Hj) as [->|H]; [congruence|]. now apply I3.
  - intros j bj Hj. rewrite get_upd. destruct (Z.eqb_spec i j).
    + subst j. rewrite E. cbn. intros H; inversion H; subst. cbn. exact (I4 i b Hj E).
    + intros H. exact (I4 j bj Hj H).
  - intros j Hj. destruct (I5 j Hj) as [A B]. split; [|exact B]. rewrite get_upd. destruct (i =? j); [|exact A].
    destruct (get_obj (p_objs p) j); [discriminate|congruence].
  - intros j Hj. rewrite get_upd. destruct (Z.eqb_spec i j); [|now apply I6]. subst. rewrite (I6 j Hj) in E. discriminate.
Qed.

Theorem try_inv p toks k : PInv p toks ->
  let '(p', ok, n, o) := part_try p k in
  match o with Some i => ok = true /\ PInv p' (i :: toks) | None => ok = false /\ p' = p end.
Proof.
  intros I. unfold part_try.
  destruct (match find_live _ _ _ with Some i => Some i | None => _ end) as [i|]; [|split; reflexivity].
  destruct (get_obj (p_objs p) i) as [b|] eqn:E; [|split; reflexivity].
  destruct (_ && _); [split; reflexivity|]. split; [reflexivity|].
  apply (inv_upd_busy p toks i b 1); auto.
  - intros j. rewrite count_tok_cons. destruct (i =? j); lia.
  - intros j [->|H]; auto.
Qed.

Fixpoint remove_one (i : objid) (l : list objid) : list objid :=
  match l with [] => [] | j :: r => if j =? i then r else j :: remove_one i r end.
Lemma count_remove_one i l j : In i l -> count_tok j (remove_one i l) = count_tok j l + (if i =? j then -1 else 0).
Proof.
  induction l as [|x r IH]; [intros []|]. intros Hin. cbn [remove_one]. rewrite count_tok_cons.
  destruct (Z.eqb_spec x i).
  - subst x. destruct (i =? j); lia.
  - destruct Hin as [->|Hin]; [contradiction|]. rewrite count_tok_cons, (IH Hin). destruct (x =? j), (i =? j); lia.
Qed.
Lemma in_remove_one i l j : In j (remove_one i l) -> In j l.
Proof. induction l as [|x r IH]; cbn; [tauto|]. destruct (x =? i); cbn; tauto. Qed.

(* releasing an outstanding token gives back exactly one unit to the object it was charged to, live or removed *)
Theorem release_inv p toks i : PInv p toks -> In i toks -> PInv (part_release p i) (remove_one i toks).
Proof.
  intros I Hin. destruct (get_obj (p_objs p) i) as [b|] eqn:E; [|exfalso; exact (pi_toks _ _ I i Hin E)].
  unfold part_release. replace (p_busy p - 1) with (p_busy p + -1) by lia.
  apply (inv_upd_busy p toks i b (-1)); auto.
  - intros j. now apply count_remove_one.
  - intros j H. right. eapply in_remove_one; eauto.
Qed.

(* SetLimit: every live bin gets the share of the new total; nothing else moves *)
Lemma fold_set_limit_get l live objs j :
  get_obj (fold_left (fun o i => upd_obj o i (bin_set_limit l)) live objs) j =
  if existsb (fun i => i =? j) live then option_map (bin_set_limit l) (get_obj objs j) else get_obj objs j.
Proof.
  revert objs. induction live as [|i r IH]; intros objs; cbn [fold_left existsb]; [reflexivity|].
  rewrite IH, get_upd. destruct (Z.eqb_spec i j); cbn [orb].
  - subst j. destruct (existsb (fun i0 => i0 =? i) r); [|reflexivity]. destruct (get_obj objs i); cbn; reflexivity.
  - reflexivity.
Qed.
Lemma fold_set_limit_sum l live objs : sum_busy (fold_left (fun o i => upd_obj o i (bin_set_limit l)) live objs) = sum_busy objs.
Proof. revert objs. induction live as [|i r IH]; intros objs; cbn [fold_left]; [reflexivity|]. rewrite IH. now apply sum_busy_upd_same. Qed.
Lemma existsb_in live j : existsb (fun i => i =? j) live = true <-> In j live.
Proof. rewrite existsb_exists. split; [intros (x & H & E); apply Z.eqb_eq in E; now subst|intros H; exists j; split; [exact H|apply Z.eqb_refl]]. Qed.

Theorem set_limit_inv p toks n : PInv p toks -> PInv (part_set_limit p n) toks /\ p_limit (part_set_limit p n) = clamp_limit n.
Proof.
  intros I. unfold part_set_limit. destruct (Z.eqb_spec (p_limit p) (clamp_limit n)) as [e|e]; [split; [exact I|exact e]|].
  split; [|reflexivity]. destruct I as [I1 I2 I3 I4 I5 I6 I7].
  constructor; cbn [part_with p_busy p_objs p_live p_limit p_next]; auto.
  - now rewrite fold_set_limit_sum.
  - intros j bj. rewrite fold_set_limit_get. destruct (existsb _ _); [|apply I2].
    destruct (get_obj (p_objs p) j) eqn:E; cbn; [|discriminate]. intros H; inversion H; subst. cbn. now apply I2.
  - intros j Hj. rewrite fold_set_limit_get. specialize (I3 j Hj). destruct (existsb _ _); [|exact I3].
    destruct (get_obj (p_objs p) j); [discriminate|congruence].
  - intros j bj Hj. rewrite fold_set_limit_get. rewrite (proj2 (existsb_in _ _) Hj).
    destruct (get_obj (p_objs p) j); cbn; [|discriminate]. intros H; inversion H; subst. reflexivity.
  - intros j Hj. destruct (I5 j Hj) as [A B]. split; [|exact B]. rewrite fold_set_limit_get.
    destruct (existsb _ _); [|exact A]. destruct (get_obj (p_objs p) j); [discriminate|congruence].
  - intros j Hj. rewrite fold_set_limit_get, (I6 j Hj). destruct (existsb _ _); reflexivity.
Qed.

(* AddPartition: the new bin starts empty with the share of the current total *)
Theorem add_inv p toks k pct : PInv p toks -> PInv (fst (part_add p k pct)) toks.
Proof.
  intros I. unfold part_add. destruct (_ && _); [exact I|]. cbn [fst].
  destruct I as [I1 I2 I3 I4 I5 I6 I7].
  assert (Fn: get_obj (p_objs p) (p_next p) = None) by (apply I6; lia).
  constructor; cbn [part_with p_busy p_objs p_live p_limit p_next]; auto.
  - rewrite sum_busy_app. cbn. lia.
  - intros j bj. rewrite get_app. destruct (get_obj (p_objs p) j) eqn:E; [intros H; inversion H; subst; now apply I2|].
    cbn. destruct (Z.eqb_spec (p_next p) j); [|discriminate]. intros H; inversion H; subst. cbn.
    unfold count_tok. assert (forall t, (forall x, In x t -> get_obj (p_objs p) x <> None) -> filter (fun x => x =? p_next p) t = []).
    { induction t as [|x t IHt]; intros Ht; cbn; [reflexivity|]. destruct (Z.eqb_spec x (p_next p)).
      - subst. exfalso. apply (Ht (p_next p)); [left; reflexivity|exact Fn].
      - apply IHt. intros y Hy. apply Ht. now right. }
    rewrite (H0 toks I3). reflexivity.
  - intros j Hj. rewrite get_app. specialize (I3 j Hj). destruct (get_obj (p_objs p) j); [discriminate|congruence].
  - intros j bj Hj. rewrite get_app. apply in_app_or in Hj. destruct Hj as [Hj|[<-|[]]].
    + destruct (I5 j Hj) as [A _]. destruct (get_obj (p_objs p) j) eqn:E; [|congruence]. intros H; inversion H; subst. now apply (I4 j).
    + rewrite Fn. cbn. rewrite Z.eqb_refl. intros H; inversion H; subst. reflexivity.
  - intros j Hj. rewrite get_app. apply in_app_or in Hj. destruct Hj as [Hj|[<-|[]]].
    + destruct (I5 j Hj) as [A B]. split; [|lia]. destruct (get_obj (p_objs p) j); [discriminate|congruence].
    + rewrite Fn. cbn. rewrite Z.eqb_refl. split; [discriminate|lia].
  - intros j Hj. rewrite get_app, (I6 j) by lia. cbn. destruct (Z.eqb_spec (p_next p) j); [lia|reflexivity].
  - lia.
Qed.

(* Remove: only the set of live partitions shrinks; tokens of a removed bin still release into it *)
Theorem remove_inv p toks k : PInv p toks -> PInv (fst (fst (part_remove p k))) toks.
Proof.
  intros I. unfold part_remove. destruct (p_lookup p).
  - destruct (find_live _ _ _); [|exact I]. cbn [fst]. destruct I as [I1 I2 I3 I4 I5 I6 I7].
    constructor; cbn [part_with p_busy p_objs p_live p_limit p_next]; auto.
    + intros j bj Hj. apply filter_In in Hj. now apply I4.
    + intros j Hj. apply filter_In in Hj. now apply I5.
  - cbn [fst]. destruct I as [I1 I2 I3 I4 I5 I6 I7].
    constructor; cbn [part_with p_busy p_objs p_live p_limit p_next]; auto.
    + intros j bj Hj. apply filter_In in Hj. now apply I4.
    + intros j Hj. apply filter_In in Hj. now apply I5.
Qed.

(* ---------- corollaries at the level of the property's wording ---------- *)
(* a partition under its share is never refused; a grant at or above the share needs room under the total *)
Corollary guarantee p k i b : target p k = Some i -> get_obj (p_objs p) i = Some b -> b_busy b < b_limit b ->
  snd (fst (fst (part_try p k))) = true.
Proof.
  intros T E H. pose proof (admit_iff p k) as A. destruct (part_try p k) as [[[p' ok] n] o]. rewrite T, E in A. cbn. apply A. now right.
Qed.
Corollary borrow_cap p k i b : target p k = Some i -> get_obj (p_objs p) i = Some b -> b_limit b <= b_busy b ->
  snd (fst (fst (part_try p k))) = true -> p_busy p < p_limit p.
Proof.
  intros T E H G. pose proof (admit_iff p k) as A. destruct (part_try p k) as [[[p' ok] n] o]. rewrite T, E in A. cbn in G.
  destruct A as [[A _] _]. destruct (A G); lia.
Qed.

(* ---------- every reachable state of a partitioned strategy ---------- *)
Inductive pop := PTry (k : Z) | PRel (i : objid) | PSet (n : Z) | PAdd (k : Z) (pct : f64) | PRemove (k : Z).
Definition pstep (st : part * list objid) (o : pop) : part * list objid :=
  let '(p, toks) := st in
  match o with
  | PTry k => let '(p', _, _, t) := part_try p k in (p', match t with Some i => i :: toks | None => toks end)
  | PRel i => if existsb (fun j => j =? i) toks then (part_release p i, remove_one i toks) else (p, toks) (* only outstanding tokens are released *)
  | PSet n => (part_set_limit p n, toks)
  | PAdd k pct => (fst (part_add p k pct), toks)
  | PRemove k => (fst (fst (part_remove p k)), toks)
  end.
Theorem reach_inv lookup ps total ops :
  let st := fold_left pstep ops (part_init lookup ps total, []) in PInv (fst st) (snd st).
Proof.
  cbv zeta. assert (G: forall st, PInv (fst st) (snd st) -> PInv (fst (fold_left pstep ops st)) (snd (fold_left pstep ops st))).
  { induction ops as [|o r IH]; intros st I; cbn [fold_left]; [exact I|]. apply IH. destruct st as [p toks]. cbn [fst snd] in I.
    destruct o as [k|i|n|k pct|k]; cbn [pstep].
    - pose proof (try_inv p toks k I) as T. destruct (part_try p k) as [[[p' ok] n] [i|]]; cbn [fst snd].
      + tauto.
      + destruct T as [_ ->]. exact I.
    - destruct (existsb (fun j => j =? i) toks) eqn:E; cbn [fst snd]; [|exact I]. apply release_inv; [exact I|]. now apply existsb_in.
    - cbn [fst snd]. now apply set_limit_inv.
    - cbn [fst snd]. now apply add_inv.
    - cbn [fst snd]. now apply remove_inv. }
  apply G. apply init_inv.
Qed.

(* the limit a strategy enforces after SetLimit, for every kind *)
Lemma strat_set_limit_limit s n : strat_limit (strat_set_limit s n) = clamp_limit n.
Proof.
  destruct s as [c|c|p]; cbn; try reflexivity. unfold part_set_limit.
  destruct (Z.eqb_spec (p_limit p) (clamp_limit n)); [exact e|reflexivity].
Qed.
Lemma strat_set_limit_busy s n : strat_busy (strat_set_limit s n) = strat_busy s.
Proof. destruct s as [c|c|p]; cbn; try reflexivity. unfold part_set_limit. destruct (_ =? _); reflexivity. Qed.
Lemma strat_release_busy s i : strat_busy (strat_release s i) = strat_busy s - 1.
Proof. destruct s as [c|c|p]; reflexivity. Qed.
Lemma strat_try_busy s k : let '(s', ok, n, o) := strat_try s k in
  (ok = true -> strat_busy s' = strat_busy s + 1 /\ o <> None) /\ (ok = false -> s' = s /\ o = None) /\ strat_limit s' = strat_limit s.
Proof.
  destruct s as [c|c|p]; cbn [strat_try].
  - unfold counter_try. destruct (_ <=? _); cbn; repeat split; try discriminate; auto.
  - unfold counter_try. destruct (_ <=? _); cbn; repeat split; try discriminate; auto.
  - unfold part_try. destruct (match find_live _ _ _ with Some i => Some i | None => _ end) as [i|]; [|cbn; repeat split; try discriminate; auto].
    destruct (get_obj _ _); [|cbn; repeat split; try discriminate; auto].
    destruct (_ && _); cbn; repeat split; try discriminate; auto.
Qed.

(* the atomic counting gate (simple / precise): granted iff below the limit; n successive grants from an empty gate *)
Lemma counter_gate c : let '(c', ok, n) := counter_try c in
  (ok = true <-> c_busy c < c_limit c) /\ (ok = true -> c_busy c' = c_busy c + 1) /\ (ok = false -> c' = c) /\ c_limit c' = c_limit c.
Proof. unfold counter_try. destruct (Z.leb_spec (c_limit c) (c_busy c)); cbn; repeat split; try discriminate; auto; lia. Qed.
