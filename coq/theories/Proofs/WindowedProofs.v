(* C09 for the windowed limit: the delegate is updated only with whole windows, aggregated exactly. *)
From Coq Require Import ZArith List Bool Lia.
From GCL Require Import Base.F64 Model.Measure Model.Limits Proofs.MeasureProofs.
Import ListNotations.
Open Scope Z_scope.

(* the window-level part of WindowedLimit.OnSample: what a sample does to (window, next update time) and what it forwards *)
Definition closes (c : wcfg) (nx : Z) (s : sample) : bool :=
  (nx <? s_start s + s_rtt s) && (s_rtt s <? MAXINT) && (w_size c <? to_int32 (s_inflight s)).
Definition wd_step (c : wcfg) (st : win * Z) (s : sample) : (win * Z) * option (Z * Z * bool) :=
  let '(w, nx) := st in
  if s_rtt s <? w_thr c then (st, None)
  else
    let wn := if s_drop s then win_add_dropped w (s_inflight s) else win_add w (s_rtt s) (s_inflight s) in
    if closes c nx s
    then ((win_empty, s_start s + s_rtt s + Z.min (Z.max (wrap64 (wmin wn * 2)) (w_minw c)) (w_maxw c)),
          Some (win_avg wn, wmaxinf wn, wdrop wn))
    else ((wn, nx), None).

(* tie to the model of the wrapper: windowed_step forwards exactly what wd_step says, to the delegate, with the sample's start time *)
Lemma windowed_is_wd_step w s :
  windowed_step w s =
  match wd_step (wd_cfg w) (wd_win w, wd_next w) s with
  | ((wn, nx), None) =>
      Some (mk {| wd_cfg := wd_cfg w; wd_next := nx; wd_win := wn; wd_inner := wd_inner w |} []
               (tag_outer (common_sample (s_rtt s) (s_inflight s) (s_drop s))) (if s_rtt s <? w_thr (wd_cfg w) then 101 else 102))
  | ((wn, nx), Some (r, i, d)) =>
      match algo_step (wd_inner w) {| s_start := s_start s; s_rtt := r; s_inflight := i; s_drop := d; s_draw := s_draw s; s_lgi := s_lgi s; s_lgf := s_lgf s |} with
      | None => None
      | Some o => Some (mk {| wd_cfg := wd_cfg w; wd_next := nx; wd_win := wn; wd_inner := o_st o |} (o_notify o)
                           (tag_outer (common_sample (s_rtt s) (s_inflight s) (s_drop s)) ++ o_emit o) (200 + o_branch o))
      end
  end.
Proof.
  unfold windowed_step, wd_step, closes. cbv zeta. destruct (s_rtt s <? w_thr (wd_cfg w)) eqn:T.
  - destruct w; reflexivity.
  - destruct ((wd_next w <? s_start s + s_rtt s) && (s_rtt s <? MAXINT) && (w_size (wd_cfg w) <? to_int32 (s_inflight s))); reflexivity.
Qed.

(* specification over the list of samples *)
Definition wqualifies (c : wcfg) (s : sample) : bool := negb (s_rtt s <? w_thr c).
Definition to_ws (s : sample) : wsample := if s_drop s then WDrop (s_inflight s) else WOk (s_rtt s) (s_inflight s).
Definition wsummary (seg : list sample) : Z * Z * bool :=
  let w := win_of (map to_ws seg) in (win_avg w, wmaxinf w, wdrop w).
Definition wperiod (c : wcfg) (seg : list sample) : Z :=
  Z.min (Z.max (wrap64 (wmin (win_of (map to_ws seg)) * 2)) (w_minw c)) (w_maxw c).
Fixpoint wspec (c : wcfg) (seg : list sample) (nx : Z) (l : list sample) : list (Z * Z * bool) :=
  match l with
  | [] => []
  | s :: r =>
      if wqualifies c s then
        let seg' := seg ++ [s] in
        if closes c nx s then wsummary seg' :: wspec c [] (s_start s + s_rtt s + wperiod c seg') r
        else wspec c seg' nx r
      else wspec c seg nx r
  end.
Fixpoint wd_run (c : wcfg) (st : win * Z) (l : list sample) : list (Z * Z * bool) :=
  match l with
  | [] => []
  | s :: r => let '(st', o) := wd_step c st s in match o with Some v => v :: wd_run c st' r | None => wd_run c st' r end
  end.

Lemma win_of_snoc seg s : win_of (map to_ws (seg ++ [s])) = win_apply (win_of (map to_ws seg)) (to_ws s).
Proof. unfold win_of. rewrite map_app, fold_left_app. reflexivity. Qed.

(* the delegate receives exactly: one call per closed window, carrying the fold of ALL qualifying samples since the previous call
   (mean RTT of the successes, 0 if none; maximum in-flight; drop flag iff some sample of the window was a drop); samples faster than the
   threshold leave no trace; the window closes only on a sample that ends after the period and meets the readiness rule as coded *)
Theorem windowed_refines c l : forall seg nx, wd_run c (win_of (map to_ws seg), nx) l = wspec c seg nx l.
Proof.
  induction l as [|s l IH]; intros seg nx; cbn [wd_run wspec]; [reflexivity|].
  unfold wd_step, wqualifies. destruct (s_rtt s <? w_thr c); cbn [negb]; [apply IH|].
  assert (E: (if s_drop s then win_add_dropped (win_of (map to_ws seg)) (s_inflight s) else win_add (win_of (map to_ws seg)) (s_rtt s) (s_inflight s))
             = win_of (map to_ws (seg ++ [s]))).
  { rewrite win_of_snoc. unfold to_ws. destruct (s_drop s); reflexivity. }
  rewrite E. destruct (closes c nx s).
  - unfold wsummary, wperiod. f_equal. apply (IH [] _).
  - apply IH.
Qed.

(* the aggregate itself, in closed form (from the window theorem of C18) *)
Corollary wsummary_spec seg :
  let ws := map to_ws seg in
  wsummary seg = (let n := Z.of_nat (length (ok_rtts ws)) in if n =? 0 then 0 else Z.quot (wrap64 (fold_right Z.add 0 (ok_rtts ws))) n,
                  fold_right Z.max 0 (infs ws), any_drop ws).
Proof.
  cbv zeta. unfold wsummary. destruct (window_summary (map to_ws seg)) as (A & B & C & D & E). cbv zeta in *.
  unfold win_avg. rewrite B, C, D, E. reflexivity.
Qed.
