(* C18: measurement primitives. *)
From Coq Require Import ZArith List Bool Lia Permutation Reals Lra.
From Flocq Require Import Core BinarySingleNaN.
From GCL Require Import Base.F64 Base.F64Facts Model.Measure.
Import ListNotations.
Open Scope Z_scope.

(* ---------------- sample window: exact summary, independent of the order ---------------- *)
Inductive wsample := WOk (rtt inf : Z) | WDrop (inf : Z).
Definition win_apply (w : win) (s : wsample) : win :=
  match s with WOk r i => win_add w r i | WDrop i => win_add_dropped w i end.
Definition win_of (l : list wsample) : win := fold_left win_apply l win_empty.

Lemma wrap64_add a b : wrap64 (wrap64 a + b) = wrap64 (a + b).
Proof.
  unfold wrap64. f_equal.
  replace (a + 2^63 + b) with (a + b + 2^63) by ring.
  replace ((a + 2 ^ 63) mod 2 ^ 64 - 2 ^ 63 + b + 2 ^ 63) with ((a + 2^63) mod 2^64 + b) by ring.
  rewrite Zplus_mod_idemp_l. f_equal. ring.
Qed.

Lemma zmin_if a b : (if a <? b then a else b) = Z.min a b.
Proof. destruct (Z.ltb_spec a b); lia. Qed.
Lemma zmax_if a b : (if a <? b then b else a) = Z.max a b.
Proof. destruct (Z.ltb_spec a b); lia. Qed.

Lemma win_apply_comm w a b : win_apply (win_apply w a) b = win_apply (win_apply w b) a.
Proof.
  destruct a as [ra ia|ia], b as [rb ib|ib]; unfold win_apply, win_add, win_add_dropped; cbn [wmin wmaxinf wcount wsum wdrop];
    rewrite ?zmin_if, ?zmax_if; f_equal; try lia.
  rewrite !wrap64_add. f_equal. ring.
Qed.

Lemma fold_apply_perm l1 l2 : Permutation l1 l2 -> forall w, fold_left win_apply l1 w = fold_left win_apply l2 w.
Proof.
  induction 1 as [|x l l' P IH|x y l|l l' l'' P1 IH1 P2 IH2]; intros w; cbn [fold_left].
  - reflexivity.
  - apply IH.
  - now rewrite win_apply_comm.
  - now rewrite IH1, IH2.
Qed.

Theorem window_order_independent l1 l2 : Permutation l1 l2 -> win_of l1 = win_of l2.
Proof. intros P. unfold win_of. now apply fold_apply_perm. Qed.

(* the summary itself: minimum RTT and (wrapped) sum over the successful samples, their count,
   maximum in-flight over all samples, drop flag iff some sample was a drop *)
Definition ok_rtts (l : list wsample) : list Z := flat_map (fun s => match s with WOk r _ => [r] | _ => [] end) l.
Definition infs (l : list wsample) : list Z := map (fun s => match s with WOk _ i => i | WDrop i => i end) l.
Definition any_drop (l : list wsample) : bool := existsb (fun s => match s with WDrop _ => true | _ => false end) l.

Theorem window_summary l :
  let w := win_of l in
  wmin w = fold_right Z.min MAXINT (ok_rtts l) /\
  wmaxinf w = fold_right Z.max 0 (infs l) /\
  wcount w = Z.of_nat (length (ok_rtts l)) /\
  wsum w = wrap64 (fold_right Z.add 0 (ok_rtts l)) /\
  wdrop w = any_drop l.
Proof.
  (* by induction from the right, using order independence to move the last sample *)
  induction l as [|s l IH] using rev_ind.
  - cbn. repeat split; reflexivity.
  - unfold win_of in *. rewrite fold_left_app. cbn [fold_left]. cbv zeta in IH.
    destruct IH as (A & B & C & D & E).
    set (w := fold_left win_apply l win_empty) in *.
    unfold ok_rtts, infs, any_drop in *. rewrite flat_map_app, map_app, existsb_app, ?app_length.
    assert (Hmin: forall xs x, fold_right Z.min MAXINT (xs ++ [x]) = Z.min x (fold_right Z.min MAXINT xs)).
    { induction xs as [|y ys IHy]; intros x; cbn [app fold_right]; [reflexivity|]. rewrite IHy. lia. }
    assert (Hmax: forall xs x, fold_right Z.max 0 (xs ++ [x]) = Z.max x (fold_right Z.max 0 xs)).
    { induction xs as [|y ys IHy]; intros x; cbn [app fold_right]; [reflexivity|]. rewrite IHy. lia. }
    assert (Hsum: forall xs x, fold_right Z.add 0 (xs ++ [x]) = x + fold_right Z.add 0 xs).
    { induction xs as [|y ys IHy]; intros x; cbn [app fold_right]; [lia|]. rewrite IHy. lia. }
    destruct s as [r i|i]; cbn [win_apply win_add win_add_dropped wmin wmaxinf wcount wsum wdrop flat_map map existsb app length].
    + rewrite ?app_nil_r, Hmin, Hmax, Hsum, zmin_if, zmax_if, A, B, C, D, E. cbn [length].
      repeat split; try lia.
      * rewrite wrap64_add. f_equal. ring.
      * rewrite orb_false_r. reflexivity.
    + rewrite ?app_nil_r, Hmax, zmax_if, A, B, C, D, ?E. repeat split; try lia; try (rewrite orb_true_r; reflexivity).
Qed.

(* ---------------- Reset: a reset instance is the new instance ---------------- *)
(* ExponentialAverage: Reset gives literally the constructor's state for the same (window, warm-up) *)
Lemma ea_cfg_add m x : ea_window (ea_add m x) = ea_window m /\ ea_warmup (ea_add m x) = ea_warmup m.
Proof. unfold ea_add. destruct (_ <? _); split; reflexivity. Qed.
Theorem ea_reset_fresh w k xs : ea_reset (fold_left ea_add xs (ea_new w k)) = ea_new w k.
Proof.
  assert (H: forall m, ea_window (fold_left ea_add xs m) = ea_window m /\ ea_warmup (fold_left ea_add xs m) = ea_warmup m).
  { induction xs as [|x r IH]; intros m; cbn [fold_left]; [split; reflexivity|].
    destruct (IH (ea_add m x)) as [A B]. destruct (ea_cfg_add m x) as [C D]. rewrite A, B, C, D. split; reflexivity. }
  unfold ea_reset. destruct (H (ea_new w k)) as [A B]. rewrite A, B. reflexivity.
Qed.

(* moving average: every operation preserves (alpha, minSamples); Reset restores the rest *)
Definition sema_cfg (m : sema) := (sm_alpha m, sm_min m).
Lemma sema_add_cfg m x : sema_cfg (fst (sema_add m x)) = sema_cfg m.
Proof. reflexivity. Qed.
Lemma sema_update_cfg m f : sema_cfg (sema_update m f) = sema_cfg m.
Proof. reflexivity. Qed.
Lemma sema_reset_is_new m a : sema_cfg m = sema_cfg (sema_new a) -> sema_reset m = sema_new a.
Proof. unfold sema_cfg. intros H. assert (A := f_equal fst H). assert (B := f_equal snd H). cbn [fst snd] in A, B. unfold sema_reset. rewrite A, B. reflexivity. Qed.

Inductive sop := SAdd (x : f64) | SUpd (k : Z) (c : f64) | SReset.
Definition upd (k : Z) (c v : f64) : f64 := if k =? 0 then add v c else mul v c.
Definition sema_do (m : sema) (o : sop) : sema :=
  match o with SAdd x => fst (sema_add m x) | SUpd k c => sema_update m (upd k c) | SReset => sema_reset m end.
Theorem sema_reset_fresh a ops : sema_reset (fold_left sema_do ops (sema_new a)) = sema_new a.
Proof.
  apply sema_reset_is_new.
  assert (H: forall m, sema_cfg (fold_left sema_do ops m) = sema_cfg m).
  { induction ops as [|o r IH]; intros m; cbn [fold_left]; [reflexivity|]. rewrite IH. destruct o; reflexivity. }
  apply H.
Qed.

(* moving variance *)
Definition smv_cfg (m : smv) := (sema_cfg (mv_avg m), sema_cfg (mv_var m)).
Definition smv_do (m : smv) (o : sop) : smv :=
  match o with SAdd x => fst (smv_add m x) | SUpd k c => smv_update m (upd k c) | SReset => smv_reset m end.
Lemma smv_do_cfg m o : smv_cfg (smv_do m o) = smv_cfg m.
Proof.
  destruct o as [x|k c|]; cbn [smv_do]; try reflexivity.
  unfold smv_add. cbv zeta. unfold smv_cfg. cbn [fst mv_avg mv_var].
  destruct (0 <? sm_seen (mv_avg m)); reflexivity.
Qed.
Lemma smv_reset_is_new m aa av : smv_cfg m = smv_cfg (smv_new aa av) -> smv_reset m = smv_new aa av.
Proof.
  unfold smv_cfg. intros H. assert (A := f_equal fst H). assert (B := f_equal snd H). cbn [fst snd] in A, B. unfold smv_reset.
  rewrite (sema_reset_is_new (mv_avg m) aa A), (sema_reset_is_new (mv_var m) av B). reflexivity.
Qed.
Theorem smv_reset_fresh aa av ops : smv_reset (fold_left smv_do ops (smv_new aa av)) = smv_new aa av.
Proof.
  apply smv_reset_is_new.
  assert (H: forall m, smv_cfg (fold_left smv_do ops m) = smv_cfg m).
  { induction ops as [|o r IH]; intros m; cbn [fold_left]; [reflexivity|]. rewrite IH. apply smv_do_cfg. }
  apply H.
Qed.

(* windowless percentile (after the repair of Reset: delta and the variance state are reset too) *)
Definition wmp_cfg (m : wmp) := (wp_p m, wp_dinit m, smv_cfg (wp_state m)).
Definition wmp_do (m : wmp) (o : sop) : wmp :=
  match o with SAdd x => fst (wmp_add m x) | SUpd k c => wmp_update m (upd k c) | SReset => wmp_reset m end.
Lemma wmp_add_cfg m x : wmp_cfg (fst (wmp_add m x)) = wmp_cfg m.
Proof.
  unfold wmp_add. cbv zeta. destruct (smv_add (wp_state m) x) as [st [sd b]] eqn:E.
  unfold wmp_cfg. cbn [fst wp_p wp_dinit wp_state].
  assert (smv_cfg st = smv_cfg (wp_state m)). { change st with (fst (st, (sd, b))). rewrite <- E. apply (smv_do_cfg _ (SAdd x)). }
  rewrite H. reflexivity.
Qed.
Lemma wmp_do_cfg m o : wmp_cfg (wmp_do m o) = wmp_cfg m.
Proof.
  destruct o as [x|k c|]; cbn [wmp_do].
  - apply wmp_add_cfg.
  - unfold wmp_update. cbv zeta. unfold wmp_cfg at 1. cbn [wp_p wp_dinit wp_state]. apply wmp_add_cfg.
  - unfold wmp_reset, wmp_cfg. cbn [wp_p wp_dinit wp_state]. f_equal; try apply (smv_do_cfg _ SReset).
Qed.
Lemma wmp_reset_is_new m p d aa av : wmp_cfg m = wmp_cfg (wmp_new p d aa av) -> wmp_reset m = wmp_new p d aa av.
Proof.
  unfold wmp_cfg. intros H. assert (A := f_equal (fun t => fst (fst t)) H). assert (B := f_equal (fun t => snd (fst t)) H).
  assert (C := f_equal snd H). cbn [fst snd] in A, B, C. unfold wmp_reset.
  rewrite A, B, (smv_reset_is_new (wp_state m) aa av C). reflexivity.
Qed.
Theorem wmp_reset_fresh p d aa av ops : wmp_reset (fold_left wmp_do ops (wmp_new p d aa av)) = wmp_new p d aa av.
Proof.
  apply wmp_reset_is_new.
  assert (H: forall m, wmp_cfg (fold_left wmp_do ops m) = wmp_cfg m).
  { induction ops as [|o r IH]; intros m; cbn [fold_left]; [reflexivity|]. rewrite IH. apply wmp_do_cfg. }
  apply H.
Qed.

(* ---------------- MinimumMeasurement over the reals ---------------- *)
Open Scope R_scope.
Definition pos_fin (x : f64) : Prop := fin x = true /\ 0 < R x.

Lemma feq_R x y : fin x = true -> fin y = true -> feq x y = Req_bool (R x) (R y).
Proof. intros; unfold feq; now apply Beqb_correct. Qed.

Lemma min_add_pos old x : pos_fin old -> pos_fin x ->
  pos_fin (min_add old x) /\ R (min_add old x) = Rmin (R old) (R x).
Proof.
  intros [Fo Po] [Fx Px]. unfold min_add. destruct R_zero as [Fz Ez].
  rewrite (feq_R old zero Fo Fz), Ez. rewrite Req_bool_false by lra. cbn [orb].
  rewrite (flt_R x old Fx Fo). destruct (Rlt_bool_spec (R x) (R old)).
  - split; [split; assumption|]. rewrite Rmin_right; lra.
  - split; [split; assumption|]. rewrite Rmin_left; lra.
Qed.

Lemma min_add_first x : min_add zero x = x.
Proof. unfold min_add. assert (E: feq zero zero = true) by reflexivity. rewrite E. reflexivity. Qed.

(* after Reset (value 0 = unset) and any non-empty list of positive finite samples, the value is their minimum *)
Theorem minimum_is_min x xs : pos_fin x -> Forall pos_fin xs ->
  let v := fold_left min_add (x :: xs) zero in
  pos_fin v /\ R v = fold_left Rmin (map R xs) (R x).
Proof.
  intros Hx Hxs. cbn [fold_left]. rewrite min_add_first. revert x Hx.
  induction Hxs as [|y ys Hy Hys IH]; intros x Hx; cbn [fold_left map].
  - split; [exact Hx|reflexivity].
  - destruct (min_add_pos x y Hx Hy) as [P E]. destruct (IH _ P) as [P' E']. split; [exact P'|]. rewrite E', E. reflexivity.
Qed.

(* Add's flag: whenever the stored value changed (as a number), the flag is true *)
Theorem minimum_flag old x : fin old = true -> fin x = true ->
  R (fst (min_add_flag old x)) <> R old -> snd (min_add_flag old x) = true.
Proof.
  intros Fo Fx H. unfold min_add_flag in *. cbn [fst snd] in *. unfold fneq.
  assert (Fv: fin (min_add old x) = true) by (unfold min_add; destruct (_ || _); assumption).
  rewrite (feq_R old _ Fo Fv). rewrite Req_bool_false; [reflexivity|]. intros E. apply H. symmetry. exact E.
Qed.

(* ---------------- ExponentialAverage: arithmetic mean (float sum / count) during warm-up ---------------- *)
Theorem expavg_warmup w k xs : (Z.of_nat (length xs) <= k)%Z -> xs <> [] ->
  let m := fold_left ea_add xs (ea_new w k) in
  ea_value m = div (fold_left add xs zero) (of_int (Z.of_nat (length xs))) /\ ea_count m = Z.of_nat (length xs).
Proof.
  intros Hk Hne.
  assert (G: forall ys m, (ea_count m + Z.of_nat (length ys) <= ea_warmup m)%Z ->
             let m' := fold_left ea_add ys m in
             ea_sum m' = fold_left add ys (ea_sum m) /\ ea_count m' = (ea_count m + Z.of_nat (length ys))%Z /\
             ea_warmup m' = ea_warmup m /\
             (ys <> [] -> ea_value m' = div (ea_sum m') (of_int (ea_count m')))).
  { induction ys as [|y ys IH]; intros m Hm; cbn [fold_left length] in *.
    - repeat split; try lia. congruence.
    - rewrite Nat2Z.inj_succ in Hm.
      assert (Hlt: (ea_count m <? ea_warmup m)%Z = true) by (apply Z.ltb_lt; lia).
      assert (S1: ea_add m y = {| ea_value := div (add (ea_sum m) y) (of_int (ea_count m + 1)); ea_sum := add (ea_sum m) y;
                                  ea_count := ea_count m + 1; ea_window := ea_window m; ea_warmup := ea_warmup m |}).
      { unfold ea_add. rewrite Hlt. reflexivity. }
      assert (Es: ea_sum (ea_add m y) = add (ea_sum m) y) by (rewrite S1; reflexivity).
      assert (Ec: ea_count (ea_add m y) = (ea_count m + 1)%Z) by (rewrite S1; reflexivity).
      assert (Ew: ea_warmup (ea_add m y) = ea_warmup m) by (rewrite S1; reflexivity).
      destruct (IH (ea_add m y)) as (A & B & C & D).
      { rewrite Ec, Ew. lia. }
      split; [rewrite A, Es; reflexivity|]. split; [rewrite B, Ec, Nat2Z.inj_succ; lia|]. split; [rewrite C, Ew; reflexivity|].
      intros _. destruct ys as [|z zs].
      + cbn [fold_left]. rewrite S1. reflexivity.
      + apply D. discriminate. }
  destruct (G xs (ea_new w k)) as (A & B & C & D). { cbn [ea_count ea_warmup ea_new]. lia. }
  cbv zeta. split.
  - rewrite (D Hne), A, B. reflexivity.
  - rewrite B. reflexivity.
Qed.
