(* C13, time: in the settled model no caller of the queue limiter (backlog timeout) or of the deadline limiter stays blocked past
   the instant its timer is due - after advancing the clock to `target` nobody is blocked with a due instant in (0, target] -
   and a cancellation refuses a blocked caller at once (always for the blocking and deadline limiters, with eviction for the queue). *)
From Coq Require Import ZArith List Bool Lia Arith Sorted.
From GCL Require Import Model.Waiters Proofs.WaitersProofs.
Import ListNotations.
Open Scope Z_scope.

(* ---- what a step may do to one caller: nothing, or take it out of the blocked state ---- *)
Definition step_rel (c c' : caller) : Prop := c' = c \/ blocked c' = false.
Lemma step_rel_refl c : step_rel c c. Proof. now left. Qed.
Lemma step_rel_trans a b c : step_rel a b -> step_rel b c -> step_rel a c.
Proof. intros [->|H1] [->|H2]; unfold step_rel; auto. Qed.

Definition pointwise (P : caller -> caller -> Prop) (l l' : list caller) : Prop :=
  length l' = length l /\ forall j c, nth_error l j = Some c -> exists c', nth_error l' j = Some c' /\ P c c'.

Lemma pointwise_refl (P : caller -> caller -> Prop) l : (forall c, P c c) -> pointwise P l l.
Proof. intros H. split; [reflexivity|]. intros j c E. exists c. auto. Qed.
Lemma pointwise_trans (P : caller -> caller -> Prop) l1 l2 l3 : (forall a b c, P a b -> P b c -> P a c) -> pointwise P l1 l2 -> pointwise P l2 l3 -> pointwise P l1 l3.
Proof.
  intros T [L1 H1] [L2 H2]. split; [congruence|]. intros j c E. destruct (H1 j c E) as (c' & E' & P1). destruct (H2 j c' E') as (c'' & E'' & P2).
  exists c''. split; [exact E''|]. eapply T; eauto.
Qed.

Definition granted_at (now : Z) (c : caller) : caller := if blocked c then mk_caller 1 now 0 (c_cancel c) else c.
Lemma grant_nth s i j : nth_error (ws_callers (grant s i)) j =
  if Nat.eqb i j then option_map (granted_at (ws_now s)) (nth_error (ws_callers s) j) else nth_error (ws_callers s) j.
Proof.
  unfold grant. destruct (nth_error (ws_callers s) i) as [c|] eqn:E.
  - destruct (blocked c) eqn:B.
    + cbn [ws_callers with_callers]. rewrite set_caller_nth. assert (L: Nat.ltb i (length (ws_callers s)) = true).
      { apply Nat.ltb_lt. apply nth_error_Some. congruence. }
      rewrite L, andb_true_r. destruct (Nat.eqb_spec i j); [|reflexivity]. subst j. rewrite E. cbn. unfold granted_at. rewrite B. reflexivity.
    + destruct (Nat.eqb_spec i j); [|reflexivity]. subst j. rewrite E. cbn. unfold granted_at. rewrite B. reflexivity.
  - destruct (Nat.eqb_spec i j); [|reflexivity]. subst j. rewrite E. reflexivity.
Qed.
Lemma grant_length s i : length (ws_callers (grant s i)) = length (ws_callers s).
Proof. unfold grant. destruct (nth_error _ _) as [c|]; [destruct (blocked c)|]; cbn [ws_callers with_callers]; auto using set_caller_length. Qed.
Lemma refuse_length s i : length (ws_callers (refuse s i)) = length (ws_callers s).
Proof. unfold refuse. destruct (nth_error _ _) as [c|]; [destruct (blocked c)|]; cbn [ws_callers with_callers]; auto using set_caller_length. Qed.

Lemma granted_rel now c : step_rel c (granted_at now c).
Proof. unfold granted_at, step_rel. destruct (blocked c) eqn:B; [right; reflexivity|left; reflexivity]. Qed.
Lemma refused_rel now c : step_rel c (refused_at now c).
Proof. unfold refused_at, step_rel. destruct (blocked c) eqn:B; [right; reflexivity|left; reflexivity]. Qed.
Lemma refused_not_blocked now c : blocked (refused_at now c) = false.
Proof. unfold refused_at. destruct (blocked c) eqn:B; [reflexivity|exact B]. Qed.

Lemma grant_rel s i : pointwise step_rel (ws_callers s) (ws_callers (grant s i)).
Proof.
  split; [apply grant_length|]. intros j c E. rewrite grant_nth, E. destruct (Nat.eqb i j); cbn; eexists; split; try reflexivity.
  - apply granted_rel. - apply step_rel_refl.
Qed.
Lemma refuse_rel s i : pointwise step_rel (ws_callers s) (ws_callers (refuse s i)).
Proof.
  split; [apply refuse_length|]. intros j c E. rewrite refuse_nth, E. destruct (Nat.eqb i j); cbn; eexists; split; try reflexivity.
  - apply refused_rel. - apply step_rel_refl.
Qed.
Lemma attempt_all_rel ids : forall s, pointwise step_rel (ws_callers s) (ws_callers (attempt_all s ids)).
Proof.
  induction ids as [|i r IH]; intros s; cbn [attempt_all]; [apply pointwise_refl, step_rel_refl|].
  destruct (has_room s); [|apply pointwise_refl, step_rel_refl].
  eapply pointwise_trans; [exact step_rel_trans|apply grant_rel|apply IH].
Qed.

(* the deadline limiter's last fold is a plain fold of refuse *)
Lemma refuse_cond st i : (match nth_error (ws_callers st) i with Some c => if blocked c then refuse st i else st | None => st end) = refuse st i.
Proof. unfold refuse. destruct (nth_error (ws_callers st) i) as [c|]; [destruct (blocked c)|]; reflexivity. Qed.
Lemma fold_refuse_cond ids : forall st,
  fold_left (fun st i => match nth_error (ws_callers st) i with Some c => if blocked c then refuse st i else st | None => st end) ids st = fold_left refuse ids st.
Proof. induction ids as [|i r IH]; intros st; cbn [fold_left]; [reflexivity|]. rewrite refuse_cond. apply IH. Qed.

Lemma attempt_all_now ids : forall s, ws_now (attempt_all s ids) = ws_now s.
Proof.
  induction ids as [|i r IH]; intros s; cbn [attempt_all]; [reflexivity|]. destruct (has_room s); [|reflexivity]. rewrite IH.
  unfold grant. destruct (nth_error _ _) as [c|]; [destruct (blocked c)|]; reflexivity.
Qed.

(* ---- the timers firing at instant t (queue, deadline): each caller is untouched or leaves the blocked state, and every caller
        that was blocked with due = t leaves it ---- *)
Definition fire_rel (t : Z) (c c' : caller) : Prop := step_rel c c' /\ (blocked c = true -> c_due c = t -> blocked c' = false).

Theorem fire_clears s t pref : w_kind (ws_cfg s) <> KBlocking ->
  pointwise (fire_rel t) (ws_callers s) (ws_callers (fire s t pref)).
Proof.
  intros K. unfold fire. set (s0 := with_callers s (ws_busy s) t (ws_callers s)).
  assert (C0: ws_callers s0 = ws_callers s) by reflexivity.
  set (ids := due_ids (ws_callers s0) 0 t).
  assert (G: forall s1, pointwise step_rel (ws_callers s) (ws_callers s1) ->
             pointwise (fire_rel t) (ws_callers s) (ws_callers (fold_left refuse ids s1))).
  { intros s1 [L1 H1]. split.
    - rewrite <- L1. clear. generalize s1. induction ids as [|i r IH]; intros st; cbn [fold_left]; [reflexivity|]. rewrite IH. apply refuse_length.
    - intros j c E. destruct (H1 j c E) as (c1 & E1 & R1). rewrite fold_refuse_nth, E1.
      destruct (existsb (Nat.eqb j) ids) eqn:X; cbn [option_map].
      + eexists; split; [reflexivity|]. split.
        * eapply step_rel_trans; [exact R1|apply refused_rel].
        * intros _ _. apply refused_not_blocked.
      + eexists; split; [reflexivity|]. split; [exact R1|]. intros B D. exfalso.
        assert (In j ids).
        { unfold ids. rewrite C0. apply due_ids_in. split; [lia|]. exists c. rewrite Nat.sub_0_r. auto. }
        assert (existsb (Nat.eqb j) ids = true) by (apply existsb_exists; exists j; split; [assumption|apply Nat.eqb_refl]). congruence. }
  destruct (w_kind (ws_cfg s)) eqn:Kd; [congruence| |].
  - rewrite fold_refuse_cond. apply G. rewrite <- C0. apply attempt_all_rel.
  - apply G. apply pointwise_refl, step_rel_refl.
Qed.

(* ---- counting the overdue callers ---- *)
Definition overdue (target : Z) (c : caller) : bool := blocked c && (0 <? c_due c) && (c_due c <=? target).
Definition n_overdue (target : Z) (l : list caller) : nat := length (filter (overdue target) l).

Lemma pointwise_cons (P : caller -> caller -> Prop) a l b l' : pointwise P (a :: l) (b :: l') -> P a b /\ pointwise P l l'.
Proof.
  intros [L H]. split.
  - destruct (H 0%nat a eq_refl) as (c' & E & Pc). cbn in E. inversion E; subst. exact Pc.
  - split; [cbn in L; lia|]. intros j c E. exact (H (S j) c E).
Qed.

Lemma overdue_rel target c c' : step_rel c c' -> overdue target c' = true -> overdue target c = true.
Proof. intros [->|B] O; [exact O|]. unfold overdue in O. rewrite B in O. discriminate. Qed.

Lemma n_overdue_le t target l : forall l', pointwise (fire_rel t) l l' -> (n_overdue target l' <= n_overdue target l)%nat.
Proof.
  induction l as [|a l IH]; intros [|b l'] PW; try (destruct PW as [L _]; cbn in L; lia).
  apply pointwise_cons in PW. destruct PW as [[Pa _] PW]. specialize (IH l' PW). unfold n_overdue in *. cbn [filter].
  destruct (overdue target b) eqn:Ob.
  - rewrite (overdue_rel target a b Pa Ob). cbn [length]. lia.
  - destruct (overdue target a); cbn [length]; lia.
Qed.

Lemma n_overdue_lt t target l : forall l', pointwise (fire_rel t) l l' ->
  (exists c, In c l /\ overdue target c = true /\ c_due c = t) -> (n_overdue target l' < n_overdue target l)%nat.
Proof.
  induction l as [|a l IH]; intros [|b l'] PW (c & Hin & Oc & Dc); try (destruct PW as [L _]; cbn in L; lia); [destruct Hin|].
  pose proof (n_overdue_le t target l l') as LE.
  apply pointwise_cons in PW. destruct PW as [[Pa Ca] PW]. specialize (LE PW). unfold n_overdue in *. cbn [filter].
  destruct Hin as [<-|Hin].
  - rewrite Oc. assert (Bb: blocked b = false).
    { apply Ca; [|exact Dc]. unfold overdue in Oc. destruct (blocked a); [reflexivity|discriminate]. }
    assert (Ob: overdue target b = false) by (unfold overdue; rewrite Bb; reflexivity). rewrite Ob. cbn [length]. lia.
  - assert (IH' := IH l' PW (ex_intro _ c (conj Hin (conj Oc Dc)))).
    destruct (overdue target b) eqn:Ob.
    + rewrite (overdue_rel target a b Pa Ob). cbn [length]. lia.
    + destruct (overdue target a); cbn [length]; lia.
Qed.

(* next_due finds an overdue caller whenever there is one *)
Lemma next_due_spec s target :
  match next_due s target with
  | None => n_overdue target (ws_callers s) = 0%nat
  | Some t => exists c, In c (ws_callers s) /\ overdue target c = true /\ c_due c = t
  end.
Proof.
  unfold next_due, n_overdue.
  assert (G: forall l acc,
    match fold_left (fun acc c => if blocked c && (0 <? c_due c) && (c_due c <=? target)
                                  then match acc with Some d => Some (Z.min d (c_due c)) | None => Some (c_due c) end else acc) l acc with
    | None => acc = None /\ length (filter (overdue target) l) = 0%nat
    | Some t => (acc = Some t \/ exists c, In c l /\ overdue target c = true /\ c_due c = t)
    end).
  { induction l as [|c l IH]; intros acc; cbn [fold_left filter].
    - destruct acc; auto.
    - fold (overdue target c). destruct (overdue target c) eqn:O.
      + specialize (IH (match acc with Some d => Some (Z.min d (c_due c)) | None => Some (c_due c) end)).
        destruct (fold_left _ l _) as [t|].
        * destruct IH as [E|(c' & Hin & Oc & Dc)].
          -- destruct acc as [d|]; inversion E; subst.
             ++ destruct (Z.min_spec d (c_due c)) as [[_ ->]|[_ ->]]; [left; reflexivity|right; exists c; cbn; auto].
             ++ right. exists c. cbn. auto.
          -- right. exists c'. cbn. auto.
        * destruct IH as [E _]. destruct acc; discriminate.
      + specialize (IH acc). destruct (fold_left _ l acc) as [t|].
        * destruct IH as [E|(c' & Hin & Oc & Dc)]; [left; exact E|right; exists c'; cbn; auto].
        * exact IH. }
  specialize (G (ws_callers s) None). destruct (fold_left _ _ _) as [t|].
  - destruct G as [E|G]; [discriminate|exact G].
  - exact (proj2 G).
Qed.

Lemma fire_cfg s t pref : w_kind (ws_cfg s) <> KBlocking -> ws_cfg (fire s t pref) = ws_cfg s.
Proof.
  intros K. unfold fire. set (s0 := with_callers s (ws_busy s) t (ws_callers s)).
  assert (F: forall ids st, ws_cfg (fold_left refuse ids st) = ws_cfg st).
  { induction ids as [|i r IH]; intros st; cbn [fold_left]; [reflexivity|]. rewrite IH. apply refuse_cfg. }
  assert (A: forall ids st, ws_cfg (attempt_all st ids) = ws_cfg st).
  { induction ids as [|i r IH]; intros st; cbn [attempt_all]; [reflexivity|]. destruct (has_room st); [|reflexivity]. rewrite IH. apply grant_cfg. }
  destruct (w_kind (ws_cfg s)) eqn:Kd; [congruence| |].
  - rewrite fold_refuse_cond, F, A. reflexivity.
  - rewrite F. reflexivity.
Qed.

(* with fuel for every caller, advancing the clock leaves nobody blocked with a timer due at or before the target *)
Theorem advance_no_overdue fuel : forall s target pref, w_kind (ws_cfg s) <> KBlocking ->
  (n_overdue target (ws_callers s) <= fuel)%nat ->
  n_overdue target (ws_callers (advance fuel s target pref)) = 0%nat.
Proof.
  induction fuel as [|f IH]; intros s target pref K Hf; cbn [advance].
  - cbn [ws_callers with_callers]. lia.
  - pose proof (next_due_spec s target) as N. destruct (next_due s target) as [t|].
    + apply IH.
      * rewrite fire_cfg by exact K. exact K.
      * pose proof (n_overdue_lt t target _ _ (fire_clears s t pref K) N). lia.
    + cbn [ws_callers with_callers]. exact N.
Qed.

Lemma filter_len_le (f : caller -> bool) l : (length (filter f l) <= length l)%nat.
Proof. induction l as [|a l IH]; cbn; [lia|]. destruct (f a); cbn; lia. Qed.

Corollary advance_nobody_past_due fuel s target pref c : w_kind (ws_cfg s) <> KBlocking -> (length (ws_callers s) <= fuel)%nat ->
  In c (ws_callers (advance fuel s target pref)) -> blocked c = true -> 0 < c_due c -> target < c_due c.
Proof.
  intros K Hf Hin B D.
  assert (Z0: n_overdue target (ws_callers (advance fuel s target pref)) = 0%nat).
  { apply advance_no_overdue; [exact K|]. unfold n_overdue. pose proof (filter_len_le (overdue target) (ws_callers s)). lia. }
  destruct (Z.leb_spec (c_due c) target) as [Le|]; [|lia]. exfalso.
  assert (O: overdue target c = true) by (unfold overdue; rewrite B; cbn; apply andb_true_iff; split; [apply Z.ltb_lt; lia|apply Z.leb_le; lia]).
  unfold n_overdue in Z0. assert (In c (filter (overdue target) (ws_callers (advance fuel s target pref)))) by (apply filter_In; auto).
  destruct (filter _ _); [contradiction|discriminate].
Qed.

(* ---- cancellation refuses a blocked caller at once ---- *)
Theorem cancel_refuses s i c : nth_error (ws_callers s) i = Some c -> blocked c = true ->
  (w_kind (ws_cfg s) <> KQueue \/ w_evict (ws_cfg s) = true) ->
  nth_error (ws_callers (cancel s i)) i = Some (mk_caller 2 (ws_now s) 0 true) /\ ws_busy (cancel s i) = ws_busy s.
Proof.
  intros E B Hk. unfold cancel. rewrite E, B.
  set (s1 := with_callers s (ws_busy s) (ws_now s) (set_caller (ws_callers s) i (mk_caller (c_st c) (c_t c) (c_due c) true))).
  assert (L: Nat.ltb i (length (ws_callers s)) = true) by (apply Nat.ltb_lt; apply nth_error_Some; congruence).
  assert (E1: nth_error (ws_callers s1) i = Some (mk_caller (c_st c) (c_t c) (c_due c) true)).
  { cbn [s1 ws_callers with_callers]. rewrite set_caller_nth, Nat.eqb_refl, L. reflexivity. }
  assert (R: nth_error (ws_callers (refuse s1 i)) i = Some (mk_caller 2 (ws_now s) 0 true) /\ ws_busy (refuse s1 i) = ws_busy s).
  { split; [|exact (proj2 (refuse_now s1 i))]. rewrite refuse_nth, Nat.eqb_refl, E1. cbn. unfold refused_at.
    assert (B': blocked (mk_caller (c_st c) (c_t c) (c_due c) true) = true) by exact B. rewrite B'. reflexivity. }
  destruct (w_kind (ws_cfg s)) eqn:K; try exact R.
  destruct Hk as [Hk|Hk]; [congruence|]. rewrite Hk. exact R.
Qed.
