(* C04 for Vegas: for every sample list (any RTTs in range, any in-flight, any drop flags, ANY jitter draws and any
   Log10 oracle values in [2,400]) no step panics, the stored estimate stays finite in [1, M + 1/2] and the
   reported integer estimate stays in [1, M]. *)
From Coq Require Import ZArith Reals Lia Lra Psatz Bool List.
From Flocq Require Import Core BinarySingleNaN.
From GCL Require Import Base.F64 Base.F64Facts Proofs.Smooth Model.Measure Model.Limits.
Open Scope R_scope.

Record cfg_ok (v : vegas) (M : Z) : Prop := {
  c_M : (1 <= M < 2^31)%Z;
  c_max : (1 <= v_max v <= M)%Z;
  c_sfin : fin (v_smooth v) = true;
  c_s1 : 8 * u * IZR M <= R (v_smooth v);
  c_s2 : R (v_smooth v) <= 1 }.

Definition VInv (v : vegas) (M : Z) : Prop :=
  cfg_ok v M /\ fin (v_est v) = true /\ 1 <= R (v_est v) /\ R (v_est v) <= IZR M + /2.

Record sample_ok (s : sample) : Prop := {
  so_rtt : (0 <= s_rtt s <= 2^62)%Z;
  so_inf : (0 <= s_inflight s < 2^31)%Z;
  so_li : fin (s_lgi s) = true; so_li1 : 2 <= R (s_lgi s); so_li2 : R (s_lgi s) <= 400;
  so_lf : fin (s_lgf s) = true; so_lf1 : 2 <= R (s_lgf s); so_lf2 : R (s_lgf s) <= 400 }.

Lemma add_zero_l x : fin x = true -> Rabs (R x) <= 1e30 -> fin (add zero x) = true /\ R (add zero x) = R x.
Proof.
  intros Hx Hb. destruct R_zero as [Fz Ez]. destruct (add_ok zero x Fz Hx) as [A B].
  { rewrite Ez, Rplus_0_l. now apply bpow1000_big. }
  split; [exact A|]. rewrite B, Ez, Rplus_0_l. apply rnd_id, fmt_R.
Qed.

Lemma tbl_range n : (1 <= log10_tbl n <= 2)%Z.
Proof. unfold log10_tbl. destruct (n <? 10)%Z; [lia|]. destruct (n <? 100)%Z; lia. Qed.

Lemma Btrunc_Z (x : f64) : BinarySingleNaN.Btrunc x = Ztrunc (R x).
Proof.
  apply eq_IZR. rewrite Btrunc_correct. unfold round, F2R, scaled_mantissa, cexp, FIX_exp; cbn [Defs.Fnum Defs.Fexp].
  simpl. rewrite !Rmult_1_r. reflexivity. exact Hmax.
Qed.

Lemma to_int_trunc x : fin x = true -> (- 2^63 <= Ztrunc (R x) < 2^63)%Z -> to_int x = Ztrunc (R x).
Proof.
  intros Hx Hr. destruct x as [s|s| |s m e Hb]; try discriminate.
  - cbn. unfold R; cbn. symmetry. apply (Ztrunc_IZR 0).
  - unfold to_int. rewrite Btrunc_Z.
    destruct Hr as [H1 H2]. apply Z.ltb_lt in H2. apply Z.leb_le in H1.
    change (2^63)%Z with (2^63)%Z in *. rewrite H2, H1. reflexivity.
Qed.

Lemma to_int_range x lo hi : fin x = true -> IZR lo <= R x -> R x <= IZR hi + /2 ->
  (0 <= lo)%Z -> (hi < 2^62)%Z -> (lo <= to_int x <= hi)%Z.
Proof.
  intros Hx Hlo Hhi H0 H1.
  assert (Hnn: 0 <= R x) by (apply Rle_trans with (2 := Hlo); apply (IZR_le 0); lia).
  assert (T: (lo <= Ztrunc (R x) <= hi)%Z).
  { rewrite Ztrunc_floor by exact Hnn. split.
    - apply Zfloor_lub. exact Hlo.
    - apply Zlt_succ_le. apply lt_IZR. apply Rle_lt_trans with (R x). apply Zfloor_lb.
      unfold Z.succ. rewrite plus_IZR. lra. }
  rewrite to_int_trunc; [exact T | exact Hx | lia].
Qed.

Section Step.
Variables (v : vegas) (M : Z) (s : sample).
Hypothesis HI : VInv v M.
Hypothesis HS : sample_ok s.

Let Hc : cfg_ok v M := proj1 HI.
Let Fe : fin (v_est v) = true := proj1 (proj2 HI).
Let E1 : 1 <= R (v_est v) := proj1 (proj2 (proj2 HI)).
Let E2 : R (v_est v) <= IZR M + /2 := proj2 (proj2 (proj2 HI)).

Lemma M_b : 1 <= IZR M <= 2147483648.
Proof. destruct (c_M _ _ Hc). split. apply (IZR_le 1); lia. apply (IZR_le _ 2147483648); lia. Qed.

Lemma est_int : (1 <= to_int (v_est v) <= M)%Z.
Proof. destruct (c_M _ _ Hc). apply to_int_range; auto; try lia. Qed.

Lemma log10f_ok : exists y, log10f (v_est v) (s_lgf s) = Some y /\ fin y = true /\ 1 <= R y <= 400.
Proof.
  unfold log10f. pose proof est_int as EI.
  destruct (Z.ltb_spec (to_int (v_est v)) 0); [lia|].
  destruct (to_int (v_est v) <? TBL)%Z.
  - pose proof (tbl_range (to_int (v_est v))) as T.
    destruct (of_int_exact (log10_tbl (to_int (v_est v)))) as [A B]. lia.
    assert (1 <= IZR (log10_tbl (to_int (v_est v))) <= 2) by (split; [apply (IZR_le 1) | apply (IZR_le _ 2)]; lia).
    destruct (add_zero_l _ A) as [C D]. rewrite B. apply Rabs_le; lra.
    eexists; split; [reflexivity|]. split; [exact C|]. rewrite D, B. lra.
  - destruct HS. destruct (add_zero_l _ so_lf0) as [C D]. apply Rabs_le; lra.
    eexists; split; [reflexivity|]. split; [exact C|]. rewrite D. lra.
Qed.

Lemma log10i_ok : exists l, log10i (to_int (v_est v)) (s_lgi s) = Some l /\ (1 <= l <= 400)%Z.
Proof.
  unfold log10i. pose proof est_int as EI.
  destruct (Z.ltb_spec (to_int (v_est v)) 0); [lia|].
  destruct (to_int (v_est v) <? TBL)%Z.
  - eexists; split; [reflexivity|]. pose proof (tbl_range (to_int (v_est v))). lia.
  - eexists; split; [reflexivity|]. destruct HS. assert (2 <= to_int (s_lgi s) <= 400)%Z; [|lia].
    apply to_int_range; auto; try lia. lra.
Qed.

(* any finite candidate is clamped into [1, max] and then smoothed into [1, M+1/2] *)
Lemma fin_step newl pc :
  fin newl = true ->
  let c := fmax one (fmin (of_int (v_max v)) newl) in
  let n := add (mul (sub one (v_smooth v)) (v_est v)) (mul (v_smooth v) c) in
  VInv (vegas_set v n (v_noload v) pc (v_jitter v)) M.
Proof.
  intros Fn c n. destruct Hc as [cM cmax csf cs1 cs2].
  destruct (of_int_exact (v_max v)) as [Fm Em]. lia.
  destruct (fmin_ok _ _ Fm Fn) as [F1 R1]. destruct R_one as [Fo Eo].
  destruct (fmax_ok _ _ Fo F1) as [F2 R2]. fold c in F2, R2. rewrite R1, Eo, Em in R2.
  assert (C1: 1 <= R c) by (rewrite R2; apply Rmax_l).
  assert (C2: R c <= IZR M).
  { rewrite R2. apply Rmax_lub. apply (IZR_le 1); lia.
    apply Rle_trans with (IZR (v_max v)). apply Rmin_l. apply IZR_le; lia. }
  destruct (smooth_bounds (v_smooth v) (v_est v) c M csf Fe F2 cM cs1 cs2 E1 E2 C1 C2) as [Fn' [L U]].
  unfold VInv, vegas_set; cbn [v_est v_max v_smooth]. repeat split; auto; cbn [v_max]; lia.
Qed.

Lemma newl_sub y : fin y = true -> 1 <= R y <= 400 -> fin (sub (v_est v) y) = true.
Proof.
  intros F [L U]. pose proof M_b.
  destruct (sub_ok _ _ Fe F) as [A _]; [|exact A]. apply bpow1000_big. apply Rabs_le. split; lra.
Qed.
Lemma newl_addf y : fin y = true -> 1 <= R y <= 400 -> fin (add (v_est v) y) = true.
Proof.
  intros F [L U]. pose proof M_b.
  destruct (add_ok _ _ Fe F) as [A _]; [|exact A]. apply bpow1000_big. apply Rabs_le. split; lra.
Qed.
Lemma newl_addb l : (1 <= l <= 400)%Z -> fin (add (v_est v) (of_int (6 * l))) = true.
Proof.
  intros L. pose proof M_b.
  destruct (of_int_exact (6 * l)) as [F E]. lia.
  assert (6 <= IZR (6 * l) <= 2400) by (split; [apply (IZR_le 6) | apply (IZR_le _ 2400)]; lia).
  destruct (add_ok _ _ Fe F) as [A _]; [|exact A]. rewrite E. apply bpow1000_big. apply Rabs_le. split; lra.
Qed.

Lemma Inv_same e nl pc j : e = v_est v -> VInv (vegas_set v e nl pc j) M.
Proof.
  intros A. destruct HI as (Hcfg & H1 & H2 & H3). subst e.
  split; [destruct Hcfg; constructor; assumption | split; [exact H1 | split; [exact H2 | exact H3]]].
Qed.

Theorem vegas_step_safe : exists o, vegas_step v s = Some o /\ VInv (o_st o) M.
Proof.
  unfold vegas_step, vegas_update.
  destruct (vegas_should_probe v (v_pcount v + 1)).
  { eexists; split; [reflexivity|]. cbn [o_st mk]. apply Inv_same; reflexivity. }
  destruct (feq (v_noload v) zero || flt (of_int (s_rtt s)) (v_noload v)).
  { eexists; split; [reflexivity|]. cbn [o_st mk]. apply Inv_same; reflexivity. }
  destruct log10f_ok as (y & Ey & Fy & By). rewrite Ey. cbn [option_map].
  destruct (s_drop s).
  { eexists; split; [reflexivity|]. cbn [o_st mk]. apply fin_step. now apply newl_sub. }
  destruct (flt (mul (of_int (s_inflight s)) two) (v_est v)).
  { eexists; split; [reflexivity|]. cbn [o_st mk]. apply Inv_same; reflexivity. }
  destruct log10i_ok as (l & El & Bl). rewrite El.
  destruct (_ <? _)%Z.
  { eexists; split; [reflexivity|]. cbn [o_st mk]. apply fin_step. now apply newl_addb. }
  destruct (_ <? _)%Z.
  { eexists; split; [reflexivity|]. cbn [o_st mk]. apply fin_step. now apply newl_addf. }
  destruct (_ <? _)%Z.
  { eexists; split; [reflexivity|]. cbn [o_st mk]. apply fin_step. now apply newl_sub. }
  eexists; split; [reflexivity|]. cbn [o_st mk]. apply Inv_same; reflexivity.
Qed.
End Step.

(* running a whole sample list; None = some step panicked *)
Fixpoint vegas_run (v : vegas) (l : list sample) : option vegas :=
  match l with
  | nil => Some v
  | s :: r => match vegas_step v s with Some o => vegas_run (o_st o) r | None => None end
  end.

Theorem vegas_run_safe v M samples :
  VInv v M -> Forall sample_ok samples ->
  exists v', vegas_run v samples = Some v' /\ VInv v' M /\ (1 <= vegas_est v' <= M)%Z.
Proof.
  intros HI HS. revert v HI. induction HS as [|s l Hs Hl IH]; intros v HI; cbn [vegas_run].
  - exists v. split; [reflexivity|]. split; [exact HI|]. now apply est_int.
  - destruct (vegas_step_safe v M s HI Hs) as (o & Eo & Io). rewrite Eo. apply IH. exact Io.
Qed.

(* the constructor establishes the invariant for every valid argument list *)
Lemma vegas_init_inv initial maxc mult smooth jit M :
  (1 <= M < 2^31)%Z ->
  let v := vegas_init initial maxc mult smooth jit in
  (v_max v <= M)%Z -> (1 <= v_max v)%Z -> ((if (initial <? 1)%Z then 20 else initial) <= M)%Z ->
  fin (v_smooth v) = true -> 8 * u * IZR M <= R (v_smooth v) -> R (v_smooth v) <= 1 ->
  VInv v M.
Proof.
  intros HM v H1 H2 H3 H4 H5 H6. unfold VInv. split; [constructor; auto|].
  set (i := (if (initial <? 1)%Z then 20 else initial)%Z) in *.
  assert (1 <= i)%Z by (unfold i; destruct (Z.ltb_spec initial 1); lia).
  destruct (of_int_exact i) as [A B]. lia.
  change (v_est v) with (of_int i). split; [exact A|]. rewrite B. split.
  - apply (IZR_le 1). lia.
  - apply Rle_trans with (IZR M). apply IZR_le; lia. lra.
Qed.
