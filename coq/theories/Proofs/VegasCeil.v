(* C08 REFUTED at the ceiling (known finding F24): a Vegas limit whose stored estimate equals its maximum exactly.  The increase branch
   clamps the candidate to the maximum - equal to the estimate - and then smooths: (1-s)*est + s*max in binary64 can round BELOW est
   (0.7*12 + 0.3*12 = 11.999999999999998), so the reported limit drops to max - 1, while a higher-latency sample (queue inside the dead
   band) leaves it at max.  More latency, more limit.  Witness evaluated by the kernel on the faithful model. *)
From Coq Require Import ZArith List.
From GCL Require Import Base.F64 Model.Measure Model.Limits.
Import ListNotations.
Open Scope Z_scope.

Definition vc0 : vegas := vegas_init 12 12 1048576 (of_bits 4599075939470750515) (of_bits 4604930618986332160).  (* smoothing 0.3, jitter 0.75 *)
Definition vc_sample (rtt : Z) : sample :=
  {| s_start := 0; s_rtt := rtt; s_inflight := 12; s_drop := false; s_draw := 0; s_lgi := zero; s_lgf := zero |}.
Definition vc_after (rtt : Z) : option Z :=
  match vegas_step vc0 (vc_sample 1000000) with              (* first sample: sets the baseline *)
  | Some o1 => match vegas_step (o_st o1) (vc_sample rtt) with Some o2 => Some (vegas_est (o_st o2)) | None => None end
  | None => None
  end.

Theorem vegas_ceiling_refuted : vc_after 1000000 = Some 11 /\ vc_after 1600000 = Some 12.
Proof. split; vm_compute; reflexivity. Qed.
