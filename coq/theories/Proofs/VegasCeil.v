(* C08 REFUTED at the ceiling (known finding F24): a Vegas limit whose stored estimate equals its maximum exactly.  The increase branch
   clamps the candidate to the maximum - equal to the estimate - and then smooths: (1-s)*est + s*max in binary64 can round BELOW est
   (0.7*12 + 0.3*12 = 11.999999999999998), so the reported limit drops to max - 1, while a higher-latency sample (queue inside the dead
   band) leaves it at max.  More latency, more limit.  Witness evaluated by the kernel on the faithful model. *)
From Coq Require Import ZArith List.
From GCL Require Import Base.F64 Model.Measure Model.Limits.
Import ListNotations.
Open Scope Z_scope.

Definition vc0 : vegas := vegas_init 12 12 1048576 (of_bits 4599075939470750515) (of_bits 4604930618986332160).  (* smoothing 0.3, jitter 0.75 *)
Definition vc_sample (rtt : Z) : sample :=
  {| s_start := 0; s_rtt := rtt; s_inflight := 12; s_drop := false; s_draw := 0; s_lgi := zero; s_lgf := zero |}.
Definition vc_after (rtt : Z) : option Z :=
  match vegas_step vc0 (vc_sample 1000000) with              (* first sample: sets the baseline *)
  | Some o1 => match vegas_step (o_st o1) (vc_sample rtt) with Some o2 => Some (vegas_est (o_st o2)) | None => None end
  | None => None
  end.

Theorem vegas_ceiling_refuted : vc_after 1000000 = Some 11 /\ vc_after 1600000 = Some 12.
Proof. split; vm_compute; reflexivity. Qed.

(* ... and how much that costs: whenever the clamped candidate is at or above the estimate (the increase branches, also AT the ceiling where
   the clamp makes it equal to the estimate), smoothing lowers the stored estimate by less than 2^-20 - three roundings of a value below
   2^31.  So the reported integer falls by at most one, and only if the stored estimate was within 2^-20 above an integer (at the ceiling:
   the maximum itself). *)
From Coq Require Import Reals Lia Lra Psatz.
From Flocq Require Import Core BinarySingleNaN.
From GCL Require Import Base.F64Facts Proofs.Smooth Proofs.VegasSafe Proofs.AimdProofs Proofs.GradSafe Proofs.Grad2Safe Proofs.VegasDrop Proofs.VegasRecover Proofs.VegasMono.
Open Scope R_scope.

Theorem vegas_increase_never_costs_much (v : vegas) (M : Z) (newl : f64) : VInv v M -> fin newl = true ->
  R (v_est v) <= R (fmax one (fmin (of_int (v_max v)) newl)) ->
  R (v_est v) - / 1048576 <= R (smoothed v newl).
Proof.
  intros HI Fn Hc. pose proof (M_b v M HI) as MB. destruct HI as (C & Fe & E1 & E2). destruct C as [cM cmax csf cs1 cs2].
  destruct (of_int_exact (v_max v)) as [Fm Em]; [lia|].
  destruct (fmin_ok _ _ Fm Fn) as [F1 R1]. destruct R_one as [Fo Eo]. destruct (fmax_ok _ _ Fo F1) as [F2 R2].
  unfold smoothed. set (c := fmax one (fmin (of_int (v_max v)) newl)) in *. rewrite R1, Eo, Em in R2.
  assert (Mx: 1 <= IZR (v_max v) <= IZR M) by (split; [apply (IZR_le 1)|apply IZR_le]; lia).
  assert (C1: R c <= IZR M).
  { rewrite R2. apply Rmax_lub; [lra|]. apply Rle_trans with (1 := Rmin_l _ _). lra. }
  pose proof dd_small as [D0 D1]. pose proof u_pos as U0.
  assert (S0: 0 <= R (v_smooth v)) by (assert (0 <= u * IZR M) by (apply Rmult_le_pos; lra); lra).
  pose proof (smooth_lower (v_smooth v) (v_est v) c (R (v_est v)) csf Fe F2 (conj S0 cs2)) as SL.
  assert (G1: 1 <= R (v_est v) <= 4294967296) by lra. assert (G2: 0 <= R (v_est v) <= R c) by lra. assert (G3: R c <= 4294967296) by lra.
  refine (Rle_trans _ _ _ _ (SL G1 G2 G3)).
  set (e := R (v_est v)) in *. set (sv := R (v_smooth v)) in *.
  assert (U1: u <= / 9000000000000000) by (unfold u; lra).
  assert (Eb: e <= 2147483649) by lra.
  (* e - 2^-20 <= ((e((1-sv)(1-u)-dd)(1-u)-dd) + (sv e (1-u) - dd))(1-u) - dd *)
  assert (A: e * (1 - sv) * (1 - u) * (1 - u) - e * dd - dd <= e * ((1 - sv) * (1 - u) - dd) * (1 - u) - dd).
  { assert (0 <= e * dd * u) by (repeat apply Rmult_le_pos; lra). nra. }
  assert (B: sv * e * (1 - u) * (1 - u) <= sv * e * (1 - u)).
  { assert (0 <= sv * e * (1 - u)) by (repeat apply Rmult_le_pos; lra). nra. }
  assert (Cc: e * (1 - u) * (1 - u) - e * dd - 2 * dd <= e * ((1 - sv) * (1 - u) - dd) * (1 - u) - dd + (sv * e * (1 - u) - dd)).
  { replace (e * (1 - u) * (1 - u)) with (e * (1 - sv) * (1 - u) * (1 - u) + sv * e * (1 - u) * (1 - u)) by ring. lra. }
  assert (P0: 0 <= e * (1 - u) * (1 - u) - e * dd - 2 * dd).
  { assert (e * (1 - u) * (1 - u) >= e * (1 - 2 * u)) by nra. assert (e * dd <= 2147483649 * dd) by (apply Rmult_le_compat_r; lra). nra. }
  assert (Dd: (e * (1 - u) * (1 - u) - e * dd - 2 * dd) * (1 - u) <= (e * ((1 - sv) * (1 - u) - dd) * (1 - u) - dd + (sv * e * (1 - u) - dd)) * (1 - u))
    by (apply Rmult_le_compat_r; lra).
  assert (Ee: e - 3 * (e * u) - e * dd - 2 * dd <= (e * (1 - u) * (1 - u) - e * dd - 2 * dd) * (1 - u)).
  { assert (0 <= e * u * u) by (repeat apply Rmult_le_pos; lra). assert (0 <= e * dd * u) by (repeat apply Rmult_le_pos; lra). assert (0 <= dd * u) by (apply Rmult_le_pos; lra). nra. }
  assert (Eu: e * u <= 2147483649 * u) by (apply Rmult_le_compat_r; lra).
  assert (Ed: e * dd <= 2147483649 * dd) by (apply Rmult_le_compat_r; lra).
  assert (Uu: 3 * (2147483649 * u) <= / 1300000) by (unfold u; lra).
  lra.
Qed.
