(* C18, the hull between the smallest and the largest sample, in binary64.  The exponential average value*(1-f) + sample*f can leave the
   interval [lo, hi] of its inputs by an ulp (round(1 - f) + f may exceed 1), so "stays between the smallest and largest sample" cannot hold
   to the last bit.  What holds, for every sample sequence of any length, is a band that does not grow with the length: once the value is
   within [lo (1 - 4u/f), hi (1 + 4u/f)] it stays there (u = 2^-53, f = 2/(window+1)): an excursion above hi is pulled back by the factor f
   faster than the three roundings of a step can push it out. *)
From Coq Require Import ZArith Reals Lia Lra Psatz Bool List.
From Flocq Require Import Core BinarySingleNaN Ulp.
From GCL Require Import Base.F64 Base.F64Facts Proofs.Smooth Model.Measure Proofs.GradSafe Proofs.Grad2Safe Proofs.VegasRecover Proofs.HullPow2.
Import ListNotations.
Open Scope R_scope.

Section ConvNear.
Variables (a v x lo hi : Rdefinitions.R).
Hypothesis Fa : fmt a.
Hypothesis Ha : / 1073741824 <= a <= 1.          (* 2^-30 <= f *)
Hypothesis Hlo : 1 <= lo <= hi.
Let e := 4 * u / a.
Hypothesis Hv : lo * (1 - e) <= v <= hi * (1 + e).
Hypothesis Hx : lo <= x <= hi.

Lemma e_facts : 0 < e <= / 2097152 /\ a * e = 4 * u.
Proof.
  pose proof u_pos as U0. assert (A0: 0 < a) by lra. unfold e. split; [split|].
  - unfold Rdiv. apply Rmult_lt_0_compat; [lra|]. now apply Rinv_0_lt_compat.
  - apply Rmult_le_reg_r with a; [exact A0|]. unfold Rdiv. rewrite Rmult_assoc, Rinv_l by lra.
    assert (4 * u <= / 2097152 * / 1073741824) by (unfold u; lra).
    assert (/ 2097152 * / 1073741824 <= / 2097152 * a) by (apply Rmult_le_compat_l; lra). lra.
  - unfold Rdiv. field. lra.
Qed.

Theorem conv_near : lo * (1 - e) <= rnd (rnd (rnd (1 - a) * v) + rnd (a * x)) <= hi * (1 + e).
Proof.
  destruct e_facts as [[E0 E1] AE]. assert (Ha': 0 <= a <= 1) by lra.
  destruct (weight_ok a Fa Ha') as (_ & Bw & Sw). rewrite b54 in Sw.
  assert (Wl: (1 - a) * (1 - u) - dd <= rnd (1 - a)) by (apply rnd_dn; lra).
  set (w := rnd (1 - a)) in *.
  pose proof dd_small as [D0 D1]. pose proof u_pos as U0. pose proof u_small as U1.
  assert (U2: / 10000000000000000000 <= u) by (unfold u; lra).
  assert (Uh: / 18014398509481984 = u / 2) by (unfold u; lra). rewrite Uh in Sw.
  set (V := hi * (1 + e)) in *. set (L := lo * (1 - e)) in *.
  assert (L0: 0 <= L) by (unfold L; apply Rmult_le_pos; lra).
  assert (LL: L <= lo) by (unfold L; assert (lo * e >= 0) by (apply Rle_ge, Rmult_le_pos; lra); lra).
  assert (Vh: hi <= V <= hi * (1 + / 2097152)).
  { unfold V. assert (0 <= hi * e) by (apply Rmult_le_pos; lra). assert (hi * e <= hi * / 2097152) by (apply Rmult_le_compat_l; lra). lra. }
  assert (v0: 0 <= v) by lra. assert (x0: 0 <= x) by lra.
  assert (WV0: 0 <= w * v) by (apply Rmult_le_pos; lra). assert (AX0: 0 <= a * x) by (apply Rmult_le_pos; lra).
  assert (R1u: rnd (w * v) <= w * v * (1 + u) + dd) by (now apply rnd_up).
  assert (R2u: rnd (a * x) <= a * x * (1 + u) + dd) by (now apply rnd_up).
  assert (R1l: w * v * (1 - u) - dd <= rnd (w * v)) by (now apply rnd_dn).
  assert (R2l: a * x * (1 - u) - dd <= rnd (a * x)) by (now apply rnd_dn).
  assert (R10: 0 <= rnd (w * v)) by (now apply rnd_nonneg). assert (R20: 0 <= rnd (a * x)) by (now apply rnd_nonneg).
  assert (S0: 0 <= rnd (w * v) + rnd (a * x)) by lra.
  assert (R3u: rnd (rnd (w * v) + rnd (a * x)) <= (rnd (w * v) + rnd (a * x)) * (1 + u) + dd) by (now apply rnd_up).
  assert (R3l: (rnd (w * v) + rnd (a * x)) * (1 - u) - dd <= rnd (rnd (w * v) + rnd (a * x))) by (now apply rnd_dn).
  split.
  - (* lower *)
    set (T := w * v + a * x) in *.
    assert (T0: 0 <= T) by (unfold T; lra).
    assert (P1: (1 - a - u - dd) * L <= w * v).
    { apply Rle_trans with (w * L); [apply Rmult_le_compat_r; [exact L0|]|apply Rmult_le_compat_l; lra].
      assert (0 <= a * u) by (apply Rmult_le_pos; lra). lra. }
    assert (P2: a * lo <= a * x) by (apply Rmult_le_compat_l; lra).
    assert (ID: (1 - a - u - dd) * L + a * lo = L - (u + dd) * L + lo * (a * e)) by (unfold L; ring).
    assert (P3: (u + dd) * L <= (u + dd) * lo) by (apply Rmult_le_compat_l; lra).
    assert (Tlow: L + 3 * (lo * u) - dd * lo <= T) by (unfold T; rewrite AE in ID; lra).
    assert (Hlu: 0 <= lo * u) by (apply Rmult_le_pos; lra).
    assert (T0': L + 3 * (lo * u) - dd * lo <= lo + 3 * (lo * u)) by (assert (0 <= dd * lo) by (apply Rmult_le_pos; lra); lra).
    (* v' >= T (1 - 2u) - 3 dd *)
    assert (Q1: T * (1 - u) - 2 * dd <= rnd (w * v) + rnd (a * x)) by (unfold T; lra).
    assert (Q2: (T * (1 - u) - 2 * dd) * (1 - u) <= (rnd (w * v) + rnd (a * x)) * (1 - u)) by (apply Rmult_le_compat_r; lra).
    assert (Q3: T * (1 - 2 * u) - 3 * dd <= rnd (rnd (w * v) + rnd (a * x))).
    { assert (T * (1 - 2 * u) <= T * (1 - u) * (1 - u)).
      { replace (T * (1 - u) * (1 - u)) with (T * (1 - 2 * u) + T * (u * u)) by ring. assert (0 <= T * (u * u)) by (repeat apply Rmult_le_pos; lra). lra. }
      assert (2 * dd * (1 - u) <= 2 * dd) by (assert (0 <= dd * u) by (apply Rmult_le_pos; lra); lra).
      replace ((T * (1 - u) - 2 * dd) * (1 - u)) with (T * (1 - u) * (1 - u) - 2 * dd * (1 - u)) in Q2 by ring. lra. }
    assert (Q4: (L + 3 * (lo * u) - dd * lo) * (1 - 2 * u) <= T * (1 - 2 * u)) by (apply Rmult_le_compat_r; lra).
    assert (Q5: (L + 3 * (lo * u) - dd * lo) - 2 * u * (lo + 3 * (lo * u)) <= (L + 3 * (lo * u) - dd * lo) * (1 - 2 * u)).
    { replace ((L + 3 * (lo * u) - dd * lo) * (1 - 2 * u)) with ((L + 3 * (lo * u) - dd * lo) - 2 * u * (L + 3 * (lo * u) - dd * lo)) by ring.
      assert (2 * u * (L + 3 * (lo * u) - dd * lo) <= 2 * u * (lo + 3 * (lo * u))) by (apply Rmult_le_compat_l; lra). lra. }
    assert (Q6: 6 * u * (lo * u) <= / 100 * (lo * u)) by (apply Rmult_le_compat_r; lra).
    assert (Q7: dd * lo <= / 10 * (lo * u)).
    { replace (/ 10 * (lo * u)) with (/ 10 * u * lo) by ring. apply Rmult_le_compat_r; lra. }
    assert (Q8: u <= lo * u) by (assert (1 * u <= lo * u) by (apply Rmult_le_compat_r; lra); lra).
    replace (2 * u * (lo + 3 * (lo * u))) with (2 * (lo * u) + 6 * u * (lo * u)) in Q5 by ring.
    lra.
  - (* upper *)
    assert (V0: 0 <= V) by lra.
    assert (P1: w * v <= w * V) by (apply Rmult_le_compat_l; lra).
    assert (P2: a * x <= a * hi) by (apply Rmult_le_compat_l; lra).
    assert (P3: w * V <= (1 - a + u / 2) * V) by (apply Rmult_le_compat_r; lra).
    assert (ID: (1 - a + u / 2) * V + a * hi = V - hi * (a * e) + V * u / 2) by (unfold V; field).
    assert (VU: V * u <= hi * (1 + / 2097152) * u) by (apply Rmult_le_compat_r; lra).
    assert (Hhu: 0 <= hi * u) by (apply Rmult_le_pos; lra).
    assert (Tup: w * v + a * x <= V - 3 * (hi * u) - / 2 * (hi * u) + / 1000 * (hi * u)).
    { rewrite AE in ID. replace (hi * (1 + / 2097152) * u) with (hi * u + / 2097152 * (hi * u)) in VU by ring. lra. }
    assert (WVV: w * v <= V) by (apply Rle_trans with (1 * V); [apply Rmult_le_compat; lra|lra]).
    assert (AXH: a * x <= hi) by (apply Rle_trans with (1 * hi); [apply Rmult_le_compat; lra|lra]).
    assert (E1': w * v * u <= V * u) by (apply Rmult_le_compat_r; lra).
    assert (E2': a * x * u <= hi * u) by (apply Rmult_le_compat_r; lra).
    replace (hi * (1 + / 2097152) * u) with (hi * u + / 2097152 * (hi * u)) in VU by ring.
    assert (Sum: rnd (w * v) + rnd (a * x) <= V - 3 * (hi * u) - / 2 * (hi * u) + / 1000 * (hi * u) + V * u + hi * u + 2 * dd) by lra.
    assert (SV: rnd (w * v) + rnd (a * x) <= V).
    { assert (u <= hi * u) by (assert (1 * u <= hi * u) by (apply Rmult_le_compat_r; lra); lra). lra. }
    assert (E3': (rnd (w * v) + rnd (a * x)) * u <= V * u) by (apply Rmult_le_compat_r; lra).
    assert (Q8: u <= hi * u) by (assert (1 * u <= hi * u) by (apply Rmult_le_compat_r; lra); lra).
    lra.
Qed.
End ConvNear.

(* ---------------- binary64 level: ExponentialAverageMeasurement after its warm-up ---------------- *)
Definition near (lo hi f : Rdefinitions.R) (v : f64) : Prop :=
  fin v = true /\ lo * (1 - 4 * u / f) <= R v <= hi * (1 + 4 * u / f).

Lemma factor_lower n : (1 <= n < 2^31)%Z -> fin (ea_factor n) = true /\ / 1073741824 <= R (ea_factor n) <= 1.
Proof.
  intros Hn. destruct (factor_hull n ltac:(lia)) as [Ff Bf]. split; [exact Ff|]. split; [|tauto].
  unfold ea_factor in *. assert (Ftwo: fin two = true /\ R two = 2) by (apply (of_int_exact 2); reflexivity). destruct Ftwo as [F2 E2].
  destruct (of_int_exact (n + 1)) as [Fn En]; [lia|].
  assert (N1: 2 <= IZR (n + 1) <= 2147483648) by (split; [apply (IZR_le 2)|apply (IZR_le _ 2147483648)]; lia).
  assert (Q: / 1073741824 <= 2 / IZR (n + 1) <= 1).
  { split.
    - apply Rmult_le_reg_r with (IZR (n + 1)); [lra|]. unfold Rdiv. rewrite Rmult_assoc, Rinv_l by lra. lra.
    - apply Rmult_le_reg_r with (IZR (n + 1)); [lra|]. unfold Rdiv. rewrite Rmult_assoc, Rinv_l by lra. lra. }
  destruct (div_ok two (of_int (n + 1)) F2 Fn) as [Fd Ed]; [rewrite En; lra|rewrite E2, En; apply (bpow1000 0); [lia|simpl; lra]|].
  rewrite Ed, E2, En. replace (/ 1073741824) with (bpow radix2 (-30)).
  - rewrite <- (rnd_id (bpow radix2 (-30))) by (apply fmt_bpow; lia). apply rnd_mono.
    replace (bpow radix2 (-30)) with (/ 1073741824); [tauto|].
    unfold bpow. replace (Z.pow_pos radix2 30) with 1073741824%Z by (vm_compute; reflexivity). reflexivity.
  - unfold bpow. replace (Z.pow_pos radix2 30) with 1073741824%Z by (vm_compute; reflexivity). reflexivity.
Qed.

Lemma bpow_double k : bpow radix2 (k + 1) = bpow radix2 k * 2.
Proof. rewrite bpow_plus. reflexivity. Qed.

Definition NInv (lo hi : Rdefinitions.R) (m : expavg) : Prop :=
  (1 <= ea_window m < 2^31)%Z /\ (ea_warmup m <= ea_count m)%Z /\ near lo hi (R (ea_factor (ea_window m))) (ea_value m).

Lemma ea_add_near lo hi m x : 1 <= lo <= hi -> hi <= bpow radix2 900 -> NInv lo hi m ->
  fin x = true -> lo <= R x <= hi -> NInv lo hi (ea_add m x).
Proof.
  intros Hlo Hhi (Hw & Hc & Fv & Bv) Fx Bx. unfold ea_add.
  destruct (Z.ltb_spec (ea_count m) (ea_warmup m)) as [Warm|Run]; [lia|]. cbv zeta.
  destruct (factor_lower (ea_window m) Hw) as [Ff Bf]. set (f := ea_factor (ea_window m)) in *.
  unfold NInv, near. cbn [ea_window ea_warmup ea_count ea_value]. fold f. split; [exact Hw|]. split; [exact Hc|].
  assert (Fa: fmt (R f)) by apply fmt_R.
  destruct (e_facts (R f) Bf) as [[E0 E1] AE].
  pose proof (conv_near (R f) (R (ea_value m)) (R x) lo hi Fa Bf Hlo Bv Bx) as CN.
  destruct R_one as [Fo Eo].
  assert (Bf': 0 <= R f <= 1) by lra.
  destruct (sub_ok one f Fo Ff) as [Fw Ew]; [rewrite Eo; apply (bpow1000 0); [lia|simpl; lra]|]. rewrite Eo in Ew.
  destruct (weight_ok (R f) Fa Bf') as (_ & Bw & _).
  assert (W: 0 <= R (sub one f) <= 1) by (rewrite Ew; exact Bw).
  pose proof (bpow_gt_0 radix2 900) as P900.
  assert (Vb: 0 <= R (ea_value m) <= bpow radix2 901).
  { split.
    - apply Rle_trans with (lo * (1 - 4 * u / R f)); [apply Rmult_le_pos; lra|tauto].
    - apply Rle_trans with (hi * (1 + 4 * u / R f)); [tauto|]. rewrite (bpow_double 900 : bpow radix2 901 = _).
      apply Rmult_le_compat; lra. }
  assert (Xb: 0 <= R x <= bpow radix2 901).
  { split; [lra|]. apply Rle_trans with (bpow radix2 900); [lra|apply bpow_le; lia]. }
  destruct (mul_ok _ _ Fv Fw) as [Fm1 Em1].
  { apply (bpow1000 901); [lia|]. split; [apply Rmult_le_pos; lra|]. apply Rle_trans with (bpow radix2 901 * 1); [apply Rmult_le_compat; lra|lra]. }
  destruct (mul_ok _ _ Fx Ff) as [Fm2 Em2].
  { apply (bpow1000 901); [lia|]. split; [apply Rmult_le_pos; lra|]. apply Rle_trans with (bpow radix2 901 * 1); [apply Rmult_le_compat; lra|lra]. }
  assert (S1: 0 <= R (mul (ea_value m) (sub one f)) <= bpow radix2 901).
  { rewrite Em1. split; [apply rnd_nonneg; apply Rmult_le_pos; lra|].
    rewrite <- (rnd_id (bpow radix2 901)) by (apply fmt_bpow; lia). apply rnd_mono. apply Rle_trans with (bpow radix2 901 * 1); [apply Rmult_le_compat; lra|lra]. }
  assert (S2: 0 <= R (mul x f) <= bpow radix2 901).
  { rewrite Em2. split; [apply rnd_nonneg; apply Rmult_le_pos; lra|].
    rewrite <- (rnd_id (bpow radix2 901)) by (apply fmt_bpow; lia). apply rnd_mono. apply Rle_trans with (bpow radix2 901 * 1); [apply Rmult_le_compat; lra|lra]. }
  destruct (add_ok _ _ Fm1 Fm2) as [Fs Es].
  { rewrite Rabs_pos_eq by lra. apply Rle_trans with (bpow radix2 902); [rewrite (bpow_double 901 : bpow radix2 902 = _); lra|apply bpow_le; lia]. }
  split; [exact Fs|]. rewrite Es, Em1, Em2, Ew.
  rewrite (Rmult_comm (R (ea_value m))), (Rmult_comm (R x)). exact CN.
Qed.

Theorem expavg_near_hull lo hi xs : forall m, 1 <= lo <= hi -> hi <= bpow radix2 900 -> NInv lo hi m ->
  Forall (fun x => fin x = true /\ lo <= R x <= hi) xs -> NInv lo hi (fold_left ea_add xs m).
Proof.
  induction xs as [|x r IH]; intros m Hlo Hhi HI HL; cbn [fold_left]; [exact HI|].
  inversion HL as [|? ? [Fx Bx] Hr]; subst. apply IH; auto. now apply ea_add_near.
Qed.

(* the band is non-empty around every value of [lo, hi]: a measurement whose value is inside [lo, hi] satisfies the invariant *)
Lemma near_of_inside lo hi f v : 1 <= lo <= hi -> / 1073741824 <= f <= 1 -> fin v = true -> lo <= R v <= hi -> near lo hi f v.
Proof.
  intros Hlo Hf Fv Bv. split; [exact Fv|]. pose proof u_pos.
  assert (0 < 4 * u / f) by (unfold Rdiv; apply Rmult_lt_0_compat; [lra|apply Rinv_0_lt_compat; lra]).
  assert (0 <= lo * (4 * u / f)) by (apply Rmult_le_pos; lra). assert (0 <= hi * (4 * u / f)) by (apply Rmult_le_pos; lra).
  split; lra.
Qed.

(* ---------------- SimpleExponentialMovingAverage after its warm-up (alpha fixed) ---------------- *)
Definition SNInv (lo hi : Rdefinitions.R) (m : sema) : Prop :=
  fin (sm_alpha m) = true /\ / 1073741824 <= R (sm_alpha m) <= 1 /\ (sm_min m <= sm_seen m)%Z /\ near lo hi (R (sm_alpha m)) (sm_value m).

Lemma sema_add_near lo hi m x : 1 <= lo <= hi -> hi <= bpow radix2 900 -> SNInv lo hi m ->
  fin x = true -> lo <= R x <= hi -> SNInv lo hi (fst (sema_add m x)).
Proof.
  intros Hlo Hhi (Ff & Bf & Hs & Fv & Bv) Fx Bx. unfold sema_add. cbv zeta. cbn [fst].
  destruct (Z.ltb_spec (sm_seen m) (sm_min m)) as [Warm|Run]; [lia|].
  destruct (Z.leb_spec (sm_min m) (sm_seen m)) as [_|Bad]; [|lia].
  set (f := sm_alpha m) in *.
  unfold SNInv, near. cbn [sm_alpha sm_min sm_seen sm_value]. fold f. split; [exact Ff|]. split; [exact Bf|]. split; [exact Hs|].
  assert (Fa: fmt (R f)) by apply fmt_R.
  destruct (e_facts (R f) Bf) as [[E0 E1] AE].
  pose proof (conv_near (R f) (R (sm_value m)) (R x) lo hi Fa Bf Hlo Bv Bx) as CN.
  destruct R_one as [Fo Eo].
  assert (Bf': 0 <= R f <= 1) by lra.
  destruct (sub_ok one f Fo Ff) as [Fw Ew]; [rewrite Eo; apply (bpow1000 0); [lia|simpl; lra]|]. rewrite Eo in Ew.
  destruct (weight_ok (R f) Fa Bf') as (_ & Bw & _).
  assert (W: 0 <= R (sub one f) <= 1) by (rewrite Ew; exact Bw).
  pose proof (bpow_gt_0 radix2 900) as P900.
  assert (Vb: 0 <= R (sm_value m) <= bpow radix2 901).
  { split.
    - apply Rle_trans with (lo * (1 - 4 * u / R f)); [apply Rmult_le_pos; lra|tauto].
    - apply Rle_trans with (hi * (1 + 4 * u / R f)); [tauto|]. rewrite (bpow_double 900 : bpow radix2 901 = _).
      apply Rmult_le_compat; lra. }
  assert (Xb: 0 <= R x <= bpow radix2 901).
  { split; [lra|]. apply Rle_trans with (bpow radix2 900); [lra|apply bpow_le; lia]. }
  destruct (mul_ok _ _ Fw Fv) as [Fm1 Em1].
  { apply (bpow1000 901); [lia|]. split; [apply Rmult_le_pos; lra|]. apply Rle_trans with (1 * bpow radix2 901); [apply Rmult_le_compat; lra|lra]. }
  destruct (mul_ok _ _ Ff Fx) as [Fm2 Em2].
  { apply (bpow1000 901); [lia|]. split; [apply Rmult_le_pos; lra|]. apply Rle_trans with (1 * bpow radix2 901); [apply Rmult_le_compat; lra|lra]. }
  assert (S1: 0 <= R (mul (sub one f) (sm_value m)) <= bpow radix2 901).
  { rewrite Em1. split; [apply rnd_nonneg; apply Rmult_le_pos; lra|].
    rewrite <- (rnd_id (bpow radix2 901)) by (apply fmt_bpow; lia). apply rnd_mono. apply Rle_trans with (1 * bpow radix2 901); [apply Rmult_le_compat; lra|lra]. }
  assert (S2: 0 <= R (mul f x) <= bpow radix2 901).
  { rewrite Em2. split; [apply rnd_nonneg; apply Rmult_le_pos; lra|].
    rewrite <- (rnd_id (bpow radix2 901)) by (apply fmt_bpow; lia). apply rnd_mono. apply Rle_trans with (1 * bpow radix2 901); [apply Rmult_le_compat; lra|lra]. }
  destruct (add_ok _ _ Fm1 Fm2) as [Fs Es].
  { rewrite Rabs_pos_eq by lra. apply Rle_trans with (bpow radix2 902); [rewrite (bpow_double 901 : bpow radix2 902 = _); lra|apply bpow_le; lia]. }
  split; [exact Fs|]. rewrite Es, Em1, Em2, Ew. exact CN.
Qed.

Theorem sema_near_hull lo hi xs : forall m, 1 <= lo <= hi -> hi <= bpow radix2 900 -> SNInv lo hi m ->
  Forall (fun x => fin x = true /\ lo <= R x <= hi) xs -> SNInv lo hi (fold_left (fun m x => fst (sema_add m x)) xs m).
Proof.
  induction xs as [|x r IH]; intros m Hlo Hhi HI HL; cbn [fold_left]; [exact HI|].
  inversion HL as [|? ? [Fx Bx] Hr]; subst. apply IH; auto. now apply sema_add_near.
Qed.

(* ---------------- the warm-up phase: running sum and arithmetic mean ---------------- *)
Section Warm.
Variables (lo hi : Rdefinitions.R).
Hypothesis Hlo : 1 <= lo <= hi.

(* K = number of samples after this one; bounds on the running sum carry a drift term 1.01 K^2 u *)
Lemma sum_step K s x : 1 <= K <= 1048576 ->
  lo * ((K - 1) - 101 / 100 * ((K - 1) * (K - 1)) * u) <= s <= hi * ((K - 1) + 101 / 100 * ((K - 1) * (K - 1)) * u) ->
  lo <= x <= hi ->
  lo * (K - 101 / 100 * (K * K) * u) <= rnd (s + x) <= hi * (K + 101 / 100 * (K * K) * u).
Proof.
  intros HK Hs Hx. pose proof dd_small as [D0 D1]. pose proof u_pos as U0.
  assert (U1: u <= / 9000000000000000) by (unfold u; lra). assert (U2: / 10000000000000000000 <= u) by (unfold u; lra).
  set (Q := (K - 1) * (K - 1)) in *.
  assert (Q0: 0 <= Q <= 1099511627776) by (unfold Q; nra).
  assert (Qu: 0 <= Q * u <= / 8000) by nra.
  assert (KK: K * K = Q + 2 * K - 1) by (unfold Q; ring).
  assert (L0: 0 <= (K - 1) - 101 / 100 * Q * u) by nra.
  assert (S0: 0 <= s + x).
  { assert (0 <= lo * ((K - 1) - 101 / 100 * Q * u)) by (apply Rmult_le_pos; lra). lra. }
  assert (Ru: rnd (s + x) <= (s + x) * (1 + u) + dd) by (now apply rnd_up).
  assert (Rl: (s + x) * (1 - u) - dd <= rnd (s + x)) by (now apply rnd_dn).
  split.
  - assert (A: lo * (K - 101 / 100 * Q * u) <= s + x) by lra.
    assert (A0: 0 <= K - 101 / 100 * Q * u) by nra.
    assert (B: lo * (K - 101 / 100 * Q * u) * (1 - u) <= (s + x) * (1 - u)) by (apply Rmult_le_compat_r; lra).
    assert (C: K - 101 / 100 * (K * K) * u + / 200 * u <= (K - 101 / 100 * Q * u) * (1 - u)) by (rewrite KK; nra).
    assert (D: lo * (K - 101 / 100 * (K * K) * u + / 200 * u) <= lo * ((K - 101 / 100 * Q * u) * (1 - u))) by (apply Rmult_le_compat_l; lra).
    assert (E: dd <= lo * (/ 200 * u)) by (assert (1 * (/ 200 * u) <= lo * (/ 200 * u)) by (apply Rmult_le_compat_r; lra); lra).
    replace (lo * (K - 101 / 100 * (K * K) * u + / 200 * u)) with (lo * (K - 101 / 100 * (K * K) * u) + lo * (/ 200 * u)) in D by ring.
    replace (lo * ((K - 101 / 100 * Q * u) * (1 - u))) with (lo * (K - 101 / 100 * Q * u) * (1 - u)) in D by ring. lra.
  - assert (A: s + x <= hi * (K + 101 / 100 * Q * u)) by lra.
    assert (B: (s + x) * (1 + u) <= hi * (K + 101 / 100 * Q * u) * (1 + u)) by (apply Rmult_le_compat_r; lra).
    assert (C: (K + 101 / 100 * Q * u) * (1 + u) <= K + 101 / 100 * (K * K) * u - / 200 * u) by (rewrite KK; nra).
    assert (D: hi * ((K + 101 / 100 * Q * u) * (1 + u)) <= hi * (K + 101 / 100 * (K * K) * u - / 200 * u)) by (apply Rmult_le_compat_l; lra).
    assert (E: dd <= hi * (/ 200 * u)) by (assert (1 * (/ 200 * u) <= hi * (/ 200 * u)) by (apply Rmult_le_compat_r; lra); lra).
    replace (hi * (K + 101 / 100 * (K * K) * u - / 200 * u)) with (hi * (K + 101 / 100 * (K * K) * u) - hi * (/ 200 * u)) in D by ring.
    replace (hi * ((K + 101 / 100 * Q * u) * (1 + u))) with (hi * (K + 101 / 100 * Q * u) * (1 + u)) in D by ring. lra.
Qed.

(* the mean of the first K samples is within (1.02 K + 2) u of [lo, hi] *)
Lemma mean_step K s : 1 <= K <= 1048576 ->
  lo * (K - 101 / 100 * (K * K) * u) <= s <= hi * (K + 101 / 100 * (K * K) * u) ->
  lo * (1 - (102 / 100 * K + 2) * u) <= rnd (s / K) <= hi * (1 + (102 / 100 * K + 2) * u).
Proof.
  intros HK Hs. pose proof dd_small as [D0 D1]. pose proof u_pos as U0.
  assert (U1: u <= / 9000000000000000) by (unfold u; lra). assert (U2: / 10000000000000000000 <= u) by (unfold u; lra).
  assert (Ku: 0 <= K * u <= / 8000000000) by nra.
  assert (K0: 0 < K) by lra.
  assert (E1: lo * (K - 101 / 100 * (K * K) * u) / K = lo * (1 - 101 / 100 * K * u)) by (field; lra).
  assert (E2: hi * (K + 101 / 100 * (K * K) * u) / K = hi * (1 + 101 / 100 * K * u)) by (field; lra).
  assert (Q1: lo * (1 - 101 / 100 * K * u) <= s / K) by (rewrite <- E1; unfold Rdiv; apply Rmult_le_compat_r; [apply Rlt_le, Rinv_0_lt_compat; lra|lra]).
  assert (Q2: s / K <= hi * (1 + 101 / 100 * K * u)) by (rewrite <- E2; unfold Rdiv; apply Rmult_le_compat_r; [apply Rlt_le, Rinv_0_lt_compat; lra|lra]).
  assert (P0: 0 <= 1 - 101 / 100 * K * u) by lra.
  assert (S0: 0 <= s / K) by (assert (0 <= lo * (1 - 101 / 100 * K * u)) by (apply Rmult_le_pos; lra); lra).
  assert (Ru: rnd (s / K) <= s / K * (1 + u) + dd) by (now apply rnd_up).
  assert (Rl: s / K * (1 - u) - dd <= rnd (s / K)) by (now apply rnd_dn).
  split.
  - assert (B: lo * (1 - 101 / 100 * K * u) * (1 - u) <= s / K * (1 - u)) by (apply Rmult_le_compat_r; lra).
    assert (C: 1 - (102 / 100 * K + 2) * u + u <= (1 - 101 / 100 * K * u) * (1 - u)) by nra.
    assert (D: lo * (1 - (102 / 100 * K + 2) * u + u) <= lo * ((1 - 101 / 100 * K * u) * (1 - u))) by (apply Rmult_le_compat_l; lra).
    assert (E: dd <= lo * u) by (assert (1 * u <= lo * u) by (apply Rmult_le_compat_r; lra); lra).
    replace (lo * (1 - (102 / 100 * K + 2) * u + u)) with (lo * (1 - (102 / 100 * K + 2) * u) + lo * u) in D by ring.
    replace (lo * ((1 - 101 / 100 * K * u) * (1 - u))) with (lo * (1 - 101 / 100 * K * u) * (1 - u)) in D by ring. lra.
  - assert (B: s / K * (1 + u) <= hi * (1 + 101 / 100 * K * u) * (1 + u)) by (apply Rmult_le_compat_r; lra).
    assert (C: (1 + 101 / 100 * K * u) * (1 + u) <= 1 + (102 / 100 * K + 2) * u - u / 2) by nra.
    assert (D: hi * ((1 + 101 / 100 * K * u) * (1 + u)) <= hi * (1 + (102 / 100 * K + 2) * u - u / 2)) by (apply Rmult_le_compat_l; lra).
    assert (E: dd <= hi * (u / 2)) by (assert (1 * (u / 2) <= hi * (u / 2)) by (apply Rmult_le_compat_r; lra); lra).
    replace (hi * (1 + (102 / 100 * K + 2) * u - u / 2)) with (hi * (1 + (102 / 100 * K + 2) * u) - hi * (u / 2)) in D by ring.
    replace (hi * ((1 + 101 / 100 * K * u) * (1 + u))) with (hi * (1 + 101 / 100 * K * u) * (1 + u)) in D by ring. lra.
Qed.
End Warm.

(* the warm-up band is inside the steady-state band: (1.02 K + 2) u <= 4 u / f for K <= window *)
Lemma warm_band_le n K : (1 <= n < 2^20)%Z -> 1 <= K <= IZR n ->
  (102 / 100 * K + 2) * u <= 4 * u / R (ea_factor n).
Proof.
  intros Hn HK. destruct (factor_lower n ltac:(lia)) as [Ff Bf]. pose proof u_pos as U0. pose proof dd_small as [D0 D1].
  assert (U1: u <= / 9000000000000000) by (unfold u; lra).
  set (f := R (ea_factor n)) in *. assert (F0: 0 < f) by lra.
  assert (N1: 1 <= IZR n <= 1048576) by (split; [apply (IZR_le 1)|apply (IZR_le _ 1048576)]; lia).
  (* f <= 2/(n+1) (1+u) + dd *)
  assert (Fu: f <= 2 / IZR (n + 1) * (1 + u) + dd).
  { unfold f, ea_factor. assert (Ftwo: fin two = true /\ R two = 2) by (apply (of_int_exact 2); reflexivity). destruct Ftwo as [F2 E2].
    destruct (of_int_exact (n + 1)) as [Fn En]; [lia|].
    assert (N2: 2 <= IZR (n + 1)) by (apply (IZR_le 2); lia).
    assert (Q: 0 <= 2 / IZR (n + 1) <= 1).
    { split; [unfold Rdiv; apply Rmult_le_pos; [lra|apply Rlt_le, Rinv_0_lt_compat; lra]|].
      apply Rmult_le_reg_r with (IZR (n + 1)); [lra|]. unfold Rdiv. rewrite Rmult_assoc, Rinv_l by lra. lra. }
    destruct (div_ok two (of_int (n + 1)) F2 Fn) as [Fd Ed]; [rewrite En; lra|rewrite E2, En; apply (bpow1000 0); [lia|simpl; lra]|].
    rewrite Ed, E2, En. apply rnd_up. tauto. }
  rewrite plus_IZR in Fu. change (IZR 1) with 1 in Fu.
  apply Rmult_le_reg_r with f; [exact F0|]. unfold Rdiv. rewrite (Rmult_assoc (4 * u)), Rinv_l by lra. rewrite Rmult_1_r.
  assert (G: (102 / 100 * K + 2) * f <= 4).
  { assert (G1: 102 / 100 * K + 2 <= 102 / 100 * IZR n + 2) by lra.
    assert (G2: (102 / 100 * K + 2) * f <= (102 / 100 * IZR n + 2) * f) by (apply Rmult_le_compat_r; lra).
    assert (G3: (102 / 100 * IZR n + 2) * f <= (102 / 100 * IZR n + 2) * (2 / (IZR n + 1) * (1 + u) + dd)) by (apply Rmult_le_compat_l; lra).
    assert (G4: (102 / 100 * IZR n + 2) * (2 / (IZR n + 1)) <= 302 / 100).
    { apply Rmult_le_reg_r with (IZR n + 1); [lra|]. unfold Rdiv. rewrite !Rmult_assoc. rewrite Rinv_l by lra. lra. }
    assert (G5: (102 / 100 * IZR n + 2) * dd <= / 1000) by nra.
    assert (G6: (102 / 100 * IZR n + 2) * (2 / (IZR n + 1) * (1 + u) + dd)
                = (102 / 100 * IZR n + 2) * (2 / (IZR n + 1)) * (1 + u) + (102 / 100 * IZR n + 2) * dd) by ring.
    assert (G7: (102 / 100 * IZR n + 2) * (2 / (IZR n + 1)) * (1 + u) <= 302 / 100 * (1 + u)) by (apply Rmult_le_compat_r; lra).
    lra. }
  apply Rle_trans with ((102 / 100 * K + 2) * f * u); [right; unfold Rdiv; ring|].
  apply Rmult_le_compat_r; lra.
Qed.

(* full invariant: both phases, from a fresh measurement on *)
Definition FInv (lo hi : Rdefinitions.R) (m : expavg) : Prop :=
  (1 <= ea_window m < 2^20)%Z /\ (1 <= ea_warmup m <= ea_window m)%Z /\ (0 <= ea_count m <= ea_warmup m)%Z /\
  fin (ea_sum m) = true /\
  lo * (IZR (ea_count m) - 101 / 100 * (IZR (ea_count m) * IZR (ea_count m)) * u) <= R (ea_sum m)
     <= hi * (IZR (ea_count m) + 101 / 100 * (IZR (ea_count m) * IZR (ea_count m)) * u) /\
  (ea_count m = 0%Z \/ near lo hi (R (ea_factor (ea_window m))) (ea_value m)).

Lemma ea_new_finv lo hi w wu : (1 <= w < 2^20)%Z -> (1 <= wu <= w)%Z -> FInv lo hi (ea_new w wu).
Proof.
  intros Hw Hwu. destruct R_zero as [Fz Ez]. unfold FInv, ea_new; cbn [ea_window ea_warmup ea_count ea_sum ea_value].
  rewrite Ez. repeat split; auto; try lia; simpl; lra.
Qed.

Lemma ea_add_finv lo hi m x : 1 <= lo <= hi -> hi <= bpow radix2 900 -> FInv lo hi m ->
  fin x = true -> lo <= R x <= hi -> FInv lo hi (ea_add m x).
Proof.
  intros Hlo Hhi (Hw & Hwu & Hc & Fs & Bs & Hv) Fx Bx.
  destruct (Z.ltb_spec (ea_count m) (ea_warmup m)) as [Warm|Run].
  - (* warm-up *)
    unfold ea_add. destruct (Z.ltb_spec (ea_count m) (ea_warmup m)) as [_|]; [|lia]. cbv zeta.
    set (c := (ea_count m + 1)%Z). assert (C1: (1 <= c <= ea_window m)%Z) by (unfold c; lia).
    assert (Cm: IZR c - 1 = IZR (ea_count m)) by (unfold c; rewrite plus_IZR; simpl; lra).
    assert (CK: 1 <= IZR c <= 1048576) by (split; [apply (IZR_le 1)|apply (IZR_le _ 1048576)]; lia).
    rewrite <- Cm in Bs.
    pose proof (sum_step lo hi Hlo (IZR c) (R (ea_sum m)) (R x) CK Bs Bx) as SS.
    pose proof (bpow_gt_0 radix2 900) as P900. pose proof u_pos as U0. assert (U1: u <= / 9000000000000000) by (unfold u; lra).
    assert (KKu: 0 <= 101 / 100 * (IZR c * IZR c) * u <= 1) by nra.
    assert (Big: hi * (IZR c + 1) <= bpow radix2 921).
    { replace 921%Z with (900 + 21)%Z by lia. rewrite bpow_plus. apply Rmult_le_compat; try lra.
      change (bpow radix2 21) with (IZR (2^21)). assert (IZR (2^21) = 2097152) by reflexivity. lra. }
    assert (Sx: 0 <= R (ea_sum m) + R x <= bpow radix2 921).
    { assert (0 <= lo * (IZR c - 1 - 101 / 100 * ((IZR c - 1) * (IZR c - 1)) * u)) by (apply Rmult_le_pos; [lra|]; nra).
      split; [lra|]. assert (hi * (IZR c - 1 + 101 / 100 * ((IZR c - 1) * (IZR c - 1)) * u) <= hi * (IZR c)) by (apply Rmult_le_compat_l; [lra|]; nra).
      assert (hi * IZR c + hi = hi * (IZR c + 1)) by ring. lra. }
    destruct (add_ok _ _ Fs Fx) as [Fa Ea]; [apply (bpow1000 921); [lia|exact Sx]|].
    destruct (of_int_exact c) as [Fc Ec]; [lia|].
    assert (Sb: 0 <= R (add (ea_sum m) x) <= bpow radix2 921).
    { rewrite Ea. split; [apply rnd_nonneg; lra|]. rewrite <- (rnd_id (bpow radix2 921)) by (apply fmt_bpow; lia). apply rnd_mono. lra. }
    assert (Qb: 0 <= R (add (ea_sum m) x) / IZR c <= bpow radix2 921).
    { split; [unfold Rdiv; apply Rmult_le_pos; [lra|apply Rlt_le, Rinv_0_lt_compat; lra]|].
      apply Rmult_le_reg_r with (IZR c); [lra|]. unfold Rdiv. rewrite Rmult_assoc, Rinv_l by lra.
      apply Rle_trans with (bpow radix2 921 * 1); [lra|apply Rmult_le_compat_l; lra]. }
    destruct (div_ok _ _ Fa Fc) as [Fd Ed]; [rewrite Ec; lra|rewrite Ec; apply (bpow1000 921); [lia|exact Qb]|]. rewrite Ec in Ed.
    rewrite <- Ea in SS.
    pose proof (mean_step lo hi Hlo (IZR c) (R (add (ea_sum m) x)) CK SS) as MS.
    unfold FInv. cbn [ea_window ea_warmup ea_count ea_sum ea_value]. fold c.
    split; [exact Hw|]. split; [exact Hwu|]. split; [unfold c; lia|]. split; [exact Fa|]. split; [exact SS|].
    right. split; [exact Fd|]. rewrite Ed.
    pose proof (warm_band_le (ea_window m) (IZR c) Hw ltac:(split; [lra|apply IZR_le; lia])) as WB.
    assert (0 <= lo * (4 * u / R (ea_factor (ea_window m)) - (102 / 100 * IZR c + 2) * u)) by (apply Rmult_le_pos; lra).
    assert (0 <= hi * (4 * u / R (ea_factor (ea_window m)) - (102 / 100 * IZR c + 2) * u)) by (apply Rmult_le_pos; lra).
    split; lra.
  - (* exponential phase *)
    assert (Cnz: ea_count m <> 0%Z) by lia. destruct Hv as [Z0|Hv]; [contradiction|].
    assert (NI: NInv lo hi m) by (split; [lia|split; [exact Run|exact Hv]]).
    destruct (ea_add_near lo hi m x Hlo Hhi NI Fx Bx) as (_ & _ & Hv').
    unfold ea_add in *. destruct (Z.ltb_spec (ea_count m) (ea_warmup m)) as [|_]; [lia|]. cbv zeta in *.
    unfold FInv. cbn [ea_window ea_warmup ea_count ea_sum ea_value] in *.
    split; [exact Hw|]. split; [exact Hwu|]. split; [exact Hc|]. split; [exact Fs|]. split; [exact Bs|]. right. exact Hv'.
Qed.

(* for every sample sequence, of any length, from a fresh measurement on: once a sample has been added the value is in the band *)
Theorem expavg_band lo hi xs : forall m, 1 <= lo <= hi -> hi <= bpow radix2 900 -> FInv lo hi m ->
  Forall (fun x => fin x = true /\ lo <= R x <= hi) xs -> FInv lo hi (fold_left ea_add xs m).
Proof.
  induction xs as [|x r IH]; intros m Hlo Hhi HI HL; cbn [fold_left]; [exact HI|].
  inversion HL as [|? ? [Fx Bx] Hr]; subst. apply IH; auto. now apply ea_add_finv.
Qed.
