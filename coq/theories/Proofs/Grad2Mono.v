(* C08 for Gradient2 (partial): the update is est' = clamp(est*(1-s) + (est*gradient + 4)*s) with gradient = max(1/2, min(1, long/short)).
   In binary64: (i) est' is monotone in the gradient (every operation is a monotone rounding of a monotone real function);
   (ii) for a given long-term value the gradient is antitone in the sample's RTT and monotone in the long-term value.
   The long-term value itself moves with the sample (by the factor f of the exponential average), which (i)+(ii) do not cover: that part is
   decided by the twin-run oracle (harness/c08_test.go, directed knee twins included). *)
From Coq Require Import ZArith Reals Lia Lra Psatz Bool List.
From Flocq Require Import Core BinarySingleNaN.
From GCL Require Import Base.F64 Base.F64Facts Proofs.Smooth Model.Measure Model.Limits Proofs.VegasSafe Proofs.AimdProofs Proofs.GradSafe Proofs.Grad2Safe.
Import ListNotations.
Open Scope R_scope.

Definition g2_gradient (lv short : f64) : f64 := if fgt short zero then fmax half (fmin one (div lv short)) else one.
Definition g2_finish (v : grad2) (gr : f64) : f64 :=
  let newl := add (mul (h_est v) gr) (of_int 4) in
  let newl := add (mul (h_est v) (sub one (h_s v))) (mul newl (h_s v)) in
  fmax (of_int (h_min v)) (fmin (of_int (h_max v)) newl).

(* the updating branch of the step is g2_finish of g2_gradient *)
Lemma grad2_step_finish v s : flt (of_int (s_inflight s)) (div (h_est v) two) = false ->
  let x := of_int (s_rtt s) in let l1 := ea_add (h_long v) x in
  h_est (o_st (grad2_step v s)) = g2_finish v (g2_gradient (ea_value l1) x).
Proof. intros Hs. unfold grad2_step. cbv zeta. rewrite Hs. reflexivity. Qed.

Section Fin.
Variables (g : grad2) (Mx : Z).
Hypothesis HI : G2Inv g Mx.

Lemma finish_ok gr : fin gr = true -> /2 <= R gr <= 1 ->
  let n1 := add (mul (h_est g) gr) (of_int 4) in
  let n2 := add (mul (h_est g) (sub one (h_s g))) (mul n1 (h_s g)) in
  fin n1 = true /\ R n1 = rnd (rnd (R (h_est g) * R gr) + 4) /\ fin n2 = true /\
  R n2 = rnd (R (mul (h_est g) (sub one (h_s g))) + rnd (R n1 * R (h_s g))).
Proof.
  intros Fgr Bgr. cbv zeta. destruct HI as (C & Fe & Be & EI). destruct C as [cM cmm cmx csf csb].
  assert (MB: 1 <= IZR Mx <= 2147483648) by (split; [apply (IZR_le 1)|apply (IZR_le _ 2147483648)]; lia).
  assert (P0: 0 <= R (h_est g)) by (assert (0 <= IZR (h_min g)) by (apply (IZR_le 0); lia); lra).
  destruct R_one as [Fo Eo].
  destruct (of_int_exact 4) as [F4 E4]; [reflexivity|].
  destruct (mul_ok _ _ Fe Fgr) as [Fm Em].
  { apply bpow1000_big. apply Rabs_le. assert (0 <= R (h_est g) * R gr) by (apply Rmult_le_pos; lra).
    assert (R (h_est g) * R gr <= 2147483648 * 1) by (apply Rmult_le_compat; lra). split; lra. }
  assert (Bm: 0 <= R (mul (h_est g) gr) <= 2147483648).
  { rewrite Em. assert (0 <= R (h_est g) * R gr) by (apply Rmult_le_pos; lra).
    assert (R (h_est g) * R gr <= 2147483648 * 1) by (apply Rmult_le_compat; lra).
    split; [now apply rnd_nonneg|]. apply (rnd_le_int _ 2147483648); [reflexivity|lra]. }
  destruct (add_ok _ _ Fm F4) as [Fn En]; [rewrite E4; apply bpow1000_big; apply Rabs_le; simpl; split; lra|].
  set (n1 := add (mul (h_est g) gr) (of_int 4)) in *.
  assert (Bn: 0 <= R n1 <= 2147483652).
  { rewrite En, E4. split; [apply rnd_nonneg; simpl; lra|]. apply (rnd_le_int _ 2147483652); [reflexivity|simpl; lra]. }
  destruct (sub_ok one (h_s g) Fo csf) as [Fw Ew]; [rewrite Eo; apply bpow1000_big; apply Rabs_le; split; lra|].
  assert (Bw: 0 <= R (sub one (h_s g)) <= 1).
  { rewrite Ew, Eo. split; [apply rnd_nonneg; lra|]. apply (rnd_le_int _ 1); [reflexivity|simpl; lra]. }
  destruct (mul_ok _ _ Fe Fw) as [Fa Ea].
  { apply bpow1000_big. apply Rabs_le. assert (0 <= R (h_est g) * R (sub one (h_s g))) by (apply Rmult_le_pos; tauto).
    assert (R (h_est g) * R (sub one (h_s g)) <= 2147483648 * 1) by (apply Rmult_le_compat; lra). split; lra. }
  assert (Ba: 0 <= R (mul (h_est g) (sub one (h_s g))) <= 2147483648).
  { rewrite Ea. assert (0 <= R (h_est g) * R (sub one (h_s g))) by (apply Rmult_le_pos; tauto).
    assert (R (h_est g) * R (sub one (h_s g)) <= 2147483648 * 1) by (apply Rmult_le_compat; lra).
    split; [now apply rnd_nonneg|]. apply (rnd_le_int _ 2147483648); [reflexivity|lra]. }
  destruct (mul_ok _ _ Fn csf) as [Fb Eb].
  { apply bpow1000_big. apply Rabs_le. assert (0 <= R n1 * R (h_s g)) by (apply Rmult_le_pos; tauto).
    assert (R n1 * R (h_s g) <= 2147483652 * 1) by (apply Rmult_le_compat; tauto). split; lra. }
  assert (Bb: 0 <= R (mul n1 (h_s g)) <= 2147483652).
  { rewrite Eb. assert (0 <= R n1 * R (h_s g)) by (apply Rmult_le_pos; tauto).
    assert (R n1 * R (h_s g) <= 2147483652 * 1) by (apply Rmult_le_compat; tauto).
    split; [now apply rnd_nonneg|]. apply (rnd_le_int _ 2147483652); [reflexivity|lra]. }
  destruct (add_ok _ _ Fa Fb) as [Fc Ec]; [apply bpow1000_big; apply Rabs_le; split; lra|].
  split; [exact Fn|]. split; [rewrite En, Em, E4; reflexivity|]. split; [exact Fc|]. rewrite Ec, Eb. reflexivity.
Qed.

(* (i) monotone in the gradient *)
Theorem g2_finish_mono gr1 gr2 : fin gr1 = true -> fin gr2 = true -> /2 <= R gr1 <= R gr2 -> R gr2 <= 1 ->
  R (g2_finish g gr1) <= R (g2_finish g gr2).
Proof.
  intros F1 F2 B12 B2. unfold g2_finish. cbv zeta.
  destruct (finish_ok gr1 F1 ltac:(lra)) as (Fa1 & Ea1 & Fb1 & Eb1). destruct (finish_ok gr2 F2 ltac:(lra)) as (Fa2 & Ea2 & Fb2 & Eb2).
  cbv zeta in *. destruct HI as (C & Fe & Be & EI). destruct C as [cM cmm cmx csf csb].
  assert (P0: 0 <= R (h_est g)) by (assert (0 <= IZR (h_min g)) by (apply (IZR_le 0); lia); lra).
  destruct (of_int_exact (h_min g)) as [Fmn Emn]; [lia|]. destruct (of_int_exact (h_max g)) as [Fmx Emx]; [lia|].
  destruct (fmin_ok _ _ Fmx Fb1) as [G1 H1]. destruct (fmin_ok _ _ Fmx Fb2) as [G2 H2].
  destruct (fmax_ok _ _ Fmn G1) as [_ K1]. destruct (fmax_ok _ _ Fmn G2) as [_ K2]. rewrite K1, K2, H1, H2.
  apply Rle_max_compat_l. apply Rle_min_compat_l. rewrite Eb1, Eb2. apply rnd_mono. apply Rplus_le_compat_l. apply rnd_mono.
  apply Rmult_le_compat_r; [tauto|]. rewrite Ea1, Ea2. apply rnd_mono. apply Rplus_le_compat_r. apply rnd_mono.
  apply Rmult_le_compat_l; lra.
Qed.
End Fin.

(* (ii) the gradient for a given long-term value: antitone in the RTT, monotone in the long-term value *)
Theorem g2_gradient_mono lv1 lv2 x1 x2 : fin lv1 = true -> fin lv2 = true -> fin x1 = true -> fin x2 = true ->
  0 <= R lv1 <= R lv2 -> R lv2 <= BB -> 1 <= R x2 <= R x1 -> R x1 <= XX ->
  fin (g2_gradient lv1 x1) = true /\ fin (g2_gradient lv2 x2) = true /\
  /2 <= R (g2_gradient lv1 x1) <= R (g2_gradient lv2 x2) /\ R (g2_gradient lv2 x2) <= 1.
Proof.
  intros Fl1 Fl2 Fx1 Fx2 Bl Bl2 Bx Bx1. unfold g2_gradient, fgt. destruct R_zero as [Fz Ez]. destruct R_one as [Fo Eo]. destruct R_half as [Fh Eh].
  rewrite (flt_R zero x1 Fz Fx1), (flt_R zero x2 Fz Fx2), Ez.
  destruct (Rlt_bool_spec 0 (R x1)); [|lra]. destruct (Rlt_bool_spec 0 (R x2)); [|lra].
  assert (Q: forall lv x, fin lv = true -> fin x = true -> 0 <= R lv <= BB -> 1 <= R x ->
             fin (div lv x) = true /\ R (div lv x) = rnd (R lv / R x)).
  { intros lv x Fl Fx Bv Bxx. apply div_ok; auto; [lra|]. apply bpow1000_big. apply Rabs_le.
    assert (0 <= R lv / R x) by (unfold Rdiv; apply Rmult_le_pos; [tauto|apply Rlt_le, Rinv_0_lt_compat; lra]).
    assert (R lv / R x <= BB).
    { apply Rmult_le_reg_r with (R x); [lra|]. unfold Rdiv. rewrite Rmult_assoc, Rinv_l by lra.
      apply Rle_trans with (BB * 1); [lra|]. apply Rmult_le_compat_l; [unfold BB; lra|lra]. }
    unfold BB in *. split; lra. }
  destruct (Q lv1 x1 Fl1 Fx1 ltac:(lra) ltac:(lra)) as [Fd1 Ed1]. destruct (Q lv2 x2 Fl2 Fx2 ltac:(lra) ltac:(lra)) as [Fd2 Ed2].
  destruct (fmin_ok _ _ Fo Fd1) as [A1 B1]. destruct (fmin_ok _ _ Fo Fd2) as [A2 B2].
  destruct (fmax_ok _ _ Fh A1) as [C1 D1]. destruct (fmax_ok _ _ Fh A2) as [C2 D2].
  split; [exact C1|]. split; [exact C2|]. rewrite D1, D2, B1, B2, Eh, Eo, Ed1, Ed2.
  assert (M: R lv1 / R x1 <= R lv2 / R x2).
  { unfold Rdiv. apply Rmult_le_compat; try lra; [apply Rlt_le, Rinv_0_lt_compat; lra|]. apply Rinv_le_contravar; lra. }
  split; [split; [apply Rmax_l|]|].
  - apply Rle_max_compat_l. apply Rle_min_compat_l. now apply rnd_mono.
  - apply Rmax_lub; [lra|apply Rmin_l].
Qed.
