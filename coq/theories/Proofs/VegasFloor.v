(* C06 for Vegas, floor reachability: a drop sample that reaches updateEstimatedLimit (it neither probes nor lowers the baseline) lowers the
   stored estimate by at least smoothing/40 while it is at or above 7/4, and keeps it below 15/8 afterwards:
   est' <= max(15/8, est - smoothing/40).  After n such samples est_n <= max(15/8, est_0 - n x smoothing/40): the reported estimate is the
   floor 1 within 40 x est_0 / smoothing samples.  (Samples that probe or lower the baseline leave the estimate unchanged: C06_vegas_nonincrease;
   a configuration in which every sample probes is known finding F19.) *)
From Coq Require Import ZArith Reals Lia Lra Psatz Bool List.
From Flocq Require Import Core BinarySingleNaN.
From GCL Require Import Base.F64 Base.F64Facts Proofs.Smooth Model.Measure Model.Limits Proofs.VegasSafe Proofs.AimdProofs Proofs.GradSafe Proofs.Grad2Safe Proofs.VegasDrop.
Import ListNotations.
Open Scope R_scope.

Lemma vdrop_ineq2 e s m d : 7/4 <= e <= m + /2 -> 2 <= m <= 2147483648 -> 8 * u * m <= s <= 1 ->
  0 < d <= / 1000000000000000000000000000000 ->
  ((e*((1-s)*(1+u)+d)*(1+u)+d) + (s*(e-/2)*(1+u)+d))*(1+u)+d <= e - s/40.
Proof.
  intros He Hm Hs Hd. pose proof k3_bound as K3. pose proof u_pos as U0. set (k := 1 + u) in *.
  assert (K1: 1 <= k <= 2) by (unfold k, u; lra).
  assert (Um: / 4503599627370496 <= u * m) by (unfold u; lra).
  replace (((e*((1-s)*k+d)*k+d) + (s*(e-/2)*k+d))*k+d)
    with (e*(1-s)*(k*k*k) + s*(e-/2)*(k*k) + e*(d*(k*k)) + d*k + d*k + d) by ring.
  assert (S0: 0 <= s) by nra.
  assert (Q1: s*(e-/2)*(k*k) <= s*(e-/2)*(k*k*k)).
  { apply Rmult_le_compat_l; [apply Rmult_le_pos; lra|]. assert (0 <= k*k) by nra. nra. }
  assert (Q2: s*(e-/2)*(k*k*k) = s*e*(k*k*k) - s/2*(k*k*k)) by (unfold Rdiv; ring).
  assert (Q3: s/2 * 1 <= s/2*(k*k*k)).
  { apply Rmult_le_compat_l; [lra|]. assert (1 <= k*k) by nra. nra. }
  assert (Q4: e*(1-s)*(k*k*k) + s*e*(k*k*k) = e*(k*k*k)) by ring.
  assert (Q5: e*(k*k*k) <= e*(1 + 3*u + / 1000000000000000000000000000000)) by (apply Rmult_le_compat_l; lra).
  assert (Q6: d*(k*k) <= 4*d) by (assert (k*k <= 4) by nra; nra).
  assert (Q7: e*(d*(k*k)) <= e*(4*d)) by (apply Rmult_le_compat_l; lra).
  assert (Q8: e*(4*d) <= 2147483649 * (4 * / 1000000000000000000000000000000)) by (apply Rmult_le_compat; lra).
  assert (Q9: d*k <= 2*d) by nra.
  assert (QA: e * (3*u) <= (m + /2) * (3*u)) by (apply Rmult_le_compat_r; lra).
  assert (QB: (m + /2) * (3*u) <= 15/4 * (u*m)) by nra.
  assert (QC: e * / 1000000000000000000000000000000 <= 2147483649 * / 1000000000000000000000000000000) by (apply Rmult_le_compat_r; lra).
  assert (QD: 15/4 * (u*m) <= 15/32 * s) by lra.
  assert (QE: s/160 >= / 4503599627370496 / 20) by lra.
  lra.
Qed.

Theorem vegas_drop_contracts v M s o : VInv v M -> sample_ok s -> s_drop s = true ->
  vegas_step v s = Some o -> o_branch o = 3%Z ->
  R (v_est (o_st o)) <= Rmax (15/8) (R (v_est v) - R (v_smooth v) / 40).
Proof.
  intros HI HS Hd. pose proof (M_b v M HI) as MB.
  pose proof (fin_step v M HI) as FS. pose proof (log10f_ok v M s HI HS) as (y & Ey & Fy & By). pose proof (newl_sub v M HI y Fy By) as Fn.
  destruct HI as (C & Fe & E1 & E2). destruct C as [cM cmax csf cs1 cs2].
  unfold vegas_step, vegas_update.
  destruct (vegas_should_probe v (v_pcount v + 1)).
  { intros H Hb; injection H as H; subst o. cbn [o_branch mk] in Hb. discriminate. }
  destruct (feq (v_noload v) zero || flt (of_int (s_rtt s)) (v_noload v)).
  { intros H Hb; injection H as H; subst o. cbn [o_branch mk] in Hb. discriminate. }
  rewrite Ey, Hd. cbn [option_map].
  intros H _; injection H as H; subst o. cbn [o_st mk vegas_set v_est].
  destruct (sub_ok _ _ Fe Fy) as [_ En]; [apply bpow1000_big; apply Rabs_le; split; lra|].
  destruct (of_int_exact (v_max v)) as [Fm Em]; [lia|].
  destruct (fmin_ok _ _ Fm Fn) as [F1 R1]. destruct R_one as [Fo Eo]. destruct (fmax_ok _ _ Fo F1) as [F2 R2].
  set (c := fmax one (fmin (of_int (v_max v)) (sub (v_est v) y))) in *. rewrite R1, Eo, Em in R2.
  assert (C1: 1 <= R c) by (rewrite R2; apply Rmax_l).
  pose proof dd_small as DD. pose proof u_pos as U0.
  assert (S0: 0 <= R (v_smooth v)) by (assert (0 <= u * IZR M) by (apply Rmult_le_pos; lra); lra).
  destruct (Rlt_dec (R (v_est v)) (7/4)) as [Lo|Hi].
  - assert (C2: R c <= 1).
    { rewrite R2. apply Rmax_lub; [lra|]. apply Rle_trans with (1 := Rmin_r _ _). rewrite En.
      apply (rnd_le_int _ 1); [reflexivity|simpl; lra]. }
    pose proof (smooth_upper (v_smooth v) (v_est v) c 1 csf Fe F2 (conj S0 cs2)) as SU.
    assert (G1: 1 <= R (v_est v) <= 2147483649) by lra. assert (G2: 0 <= R c <= 1) by lra. assert (G3: 1 <= 2147483649) by lra.
    refine (Rle_trans _ _ _ (SU G1 G2 G3) _). apply Rle_trans with (2 := Rmax_l _ _). apply vdrop_low; lra.
  - assert (Hi': 7/4 <= R (v_est v)) by lra. clear Hi.
    assert (M2: 2 <= IZR M).
    { apply (IZR_le 2). assert (1 < M)%Z; [apply lt_IZR; lra | lia]. }
    assert (C2: R c <= R (v_est v) - /2).
    { rewrite R2. apply Rmax_lub; [lra|]. apply Rle_trans with (1 := Rmin_r _ _). rewrite En.
      destruct (Rle_dec (R (v_est v) - R y) 1) as [L1|L1].
      - apply Rle_trans with 1; [|lra]. apply (rnd_le_int _ 1); [reflexivity|simpl; lra].
      - apply Rle_trans with ((R (v_est v) - R y) * (1 + u) + dd); [apply rnd_up; lra|].
        assert ((R (v_est v) - R y) * u <= 2147483649 * u) by (apply Rmult_le_compat_r; lra). unfold u in *. lra. }
    pose proof (smooth_upper (v_smooth v) (v_est v) c (R (v_est v) - /2) csf Fe F2 (conj S0 cs2)) as SU.
    assert (G1: 1 <= R (v_est v) <= 2147483649) by lra. assert (G2: 0 <= R c <= R (v_est v) - /2) by lra. assert (G3: R (v_est v) - /2 <= 2147483649) by lra.
    refine (Rle_trans _ _ _ (SU G1 G2 G3) _). apply Rle_trans with (2 := Rmax_r _ _). apply (vdrop_ineq2 _ _ (IZR M)); lra.
Qed.

(* a run in which every sample reaches the update (branch 3 = the drop branch of updateEstimatedLimit) *)
Fixpoint vegas_run_upd (v : vegas) (l : list sample) : option vegas :=
  match l with
  | nil => Some v
  | s :: r => match vegas_step v s with
              | Some o => if (o_branch o =? 3)%Z then vegas_run_upd (o_st o) r else None
              | None => None end
  end.

Lemma vegas_step_smooth v s o : vegas_step v s = Some o -> v_smooth (o_st o) = v_smooth v.
Proof.
  unfold vegas_step, vegas_update. destruct (vegas_should_probe v (v_pcount v + 1)); [intros H; injection H as H; subst o; reflexivity|].
  destruct (feq (v_noload v) zero || flt (of_int (s_rtt s)) (v_noload v)); [intros H; injection H as H; subst o; reflexivity|].
  destruct (log10f _ _); cbn [option_map]; destruct (log10i _ _);
  repeat match goal with |- context [if ?c then _ else _] => destruct c end; intros H; try discriminate; injection H as H; subst o; reflexivity.
Qed.

Theorem vegas_drop_run_contracts M ss : forall v v', VInv v M -> Forall (fun s => sample_ok s /\ s_drop s = true) ss ->
  vegas_run_upd v ss = Some v' ->
  R (v_est v') <= Rmax (15/8) (R (v_est v) - INR (length ss) * (R (v_smooth v) / 40)).
Proof.
  induction ss as [|s r IH]; intros v v' HI HL E; cbn [vegas_run_upd] in E.
  - injection E as <-. cbn [length INR]. rewrite Rmult_0_l, Rminus_0_r. apply Rmax_r.
  - inversion HL as [|? ? [Hs Hd] Hr]; subst. destruct (vegas_step_safe v M s HI Hs) as (o & Eo & Io). rewrite Eo in E.
    destruct (Z.eqb_spec (o_branch o) 3) as [Hb|]; [|discriminate].
    pose proof (vegas_drop_contracts v M s o HI Hs Hd Eo Hb) as Step.
    specialize (IH (o_st o) v' Io Hr E). rewrite (vegas_step_smooth v s o Eo) in IH.
    assert (S0: 0 <= R (v_smooth v) / 40).
    { pose proof (M_b v M HI) as MB. destruct HI as ([_ _ _ c1 _] & _). pose proof u_pos.
      assert (0 <= u * IZR M) by (apply Rmult_le_pos; lra). lra. }
    apply Rle_trans with (1 := IH). cbn [length]. rewrite S_INR. apply Rmax_lub; [apply Rmax_l|].
    set (t := R (v_smooth v) / 40) in *. assert (T: 0 <= INR (length r) * t) by (apply Rmult_le_pos; [apply pos_INR|exact S0]).
    destruct (Rmax_case (15/8) (R (v_est v) - t) (fun m => m = 15/8 \/ m = R (v_est v) - t)) as [Em|Em]; auto; rewrite Em in Step.
    + apply Rle_trans with (2 := Rmax_l _ _). lra.
    + apply Rle_trans with (2 := Rmax_r _ _). lra.
Qed.

Corollary vegas_floor_reached M ss v v' : VInv v M -> Forall (fun s => sample_ok s /\ s_drop s = true) ss ->
  vegas_run_upd v ss = Some v' -> R (v_est v) - INR (length ss) * (R (v_smooth v) / 40) < 2 -> vegas_est v' = 1%Z.
Proof.
  intros HI HL E Hn. pose proof (vegas_drop_run_contracts M ss v v' HI HL E) as U.
  assert (Up: R (v_est v') < 2) by (apply Rle_lt_trans with (1 := U); apply Rmax_lub_lt; lra).
  assert (I': VInv v' M).
  { clear U Up Hn. revert v HI E. induction HL as [|s r [Hs Hd] Hr IH]; intros v HI E; cbn [vegas_run_upd] in E.
    - injection E as <-. exact HI.
    - destruct (vegas_step_safe v M s HI Hs) as (o & Eo & Io). rewrite Eo in E. destruct (o_branch o =? 3)%Z; [|discriminate]. exact (IH (o_st o) Io E). }
  pose proof (est_int v' M I') as EI. destruct I' as (_ & Fe' & L' & _).
  assert (to_int (v_est v') <= 1)%Z by (apply to_int_lt2; [exact Fe'|lra]). unfold vegas_est. lia.
Qed.
