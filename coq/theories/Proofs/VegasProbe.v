(* C15 for Vegas: baseline resets recur - between two probes there are fewer than multiplier x (M + 1) samples, for every jitter stream. *)
From Coq Require Import ZArith Reals Lia Lra Psatz Bool List.
From Flocq Require Import Core BinarySingleNaN.
From GCL Require Import Base.F64 Base.F64Facts Proofs.Smooth Model.Measure Model.Limits Proofs.VegasSafe Proofs.GradSafe.
Import ListNotations.
Open Scope R_scope.

Definition jit_ok (j : f64) : Prop := fin j = true /\ 0 <= R j <= 1.

Lemma probe_threshold_bound v M : VInv v M -> jit_ok (v_jitter v) -> (1 <= v_mult v <= 2^20)%Z ->
  (to_int (mul (mul (v_jitter v) (of_int (v_mult v))) (v_est v)) <= v_mult v * (M + 1))%Z.
Proof.
  intros (C & Fe & E1 & E2) [Fj Bj] Hm. destruct C as [cM _ _ _ _].
  assert (MB: 1 <= IZR M <= 2147483648) by (split; [apply (IZR_le 1)|apply (IZR_le _ 2147483648)]; lia).
  assert (Mm: 1 <= IZR (v_mult v) <= 1048576) by (split; [apply (IZR_le 1)|apply (IZR_le _ 1048576)]; lia).
  destruct (of_int_exact (v_mult v)) as [Fm Em]; [lia|].
  destruct (mul_ok _ _ Fj Fm) as [Fa Ea].
  { rewrite Em. apply bpow1000_big. apply Rabs_le. assert (0 <= R (v_jitter v) * IZR (v_mult v)) by (apply Rmult_le_pos; lra).
    assert (R (v_jitter v) * IZR (v_mult v) <= 1 * 1048576) by (apply Rmult_le_compat; lra). split; lra. }
  rewrite Em in Ea.
  assert (Ba: 0 <= R (mul (v_jitter v) (of_int (v_mult v))) <= IZR (v_mult v)).
  { rewrite Ea. assert (0 <= R (v_jitter v) * IZR (v_mult v)) by (apply Rmult_le_pos; lra).
    split; [now apply rnd_nonneg|]. apply rnd_le_int; [lia|]. rewrite <- (Rmult_1_l (IZR (v_mult v))) at 2. apply Rmult_le_compat_r; lra. }
  destruct (mul_ok _ _ Fa Fe) as [Fb Eb].
  { apply bpow1000_big. apply Rabs_le. assert (0 <= R (mul (v_jitter v) (of_int (v_mult v))) * R (v_est v)) by (apply Rmult_le_pos; lra).
    assert (R (mul (v_jitter v) (of_int (v_mult v))) * R (v_est v) <= 1048576 * 2147483649) by (apply Rmult_le_compat; lra). split; lra. }
  assert (K: IZR (v_mult v * (M + 1)) = IZR (v_mult v) * (IZR M + 1)) by (rewrite mult_IZR, plus_IZR; reflexivity).
  assert (Bb: 0 <= R (mul (mul (v_jitter v) (of_int (v_mult v))) (v_est v)) <= IZR (v_mult v * (M + 1))).
  { rewrite Eb. assert (0 <= R (mul (v_jitter v) (of_int (v_mult v))) * R (v_est v)) by (apply Rmult_le_pos; lra).
    split; [now apply rnd_nonneg|]. apply rnd_le_int; [nia|]. rewrite K.
    apply Rle_trans with (IZR (v_mult v) * (IZR M + /2)); [apply Rmult_le_compat; lra|]. apply Rmult_le_compat_l; lra. }
  assert (0 <= v_mult v * (M + 1) < 2^63 - 1)%Z by nia.
  destruct (to_int_range2 _ 0 (v_mult v * (M + 1)) Fb) as [_ T]; try lia; try tauto.
Qed.

(* one step: a non-probe sample increments the counter, which stays below the threshold; a probe resets it and installs the drawn jitter *)
Lemma vegas_counter v s o : vegas_step v s = Some o ->
  (o_branch o = 1%Z /\ v_pcount (o_st o) = 0%Z /\ v_jitter (o_st o) = of_bits (s_draw s) /\ v_mult (o_st o) = v_mult v) \/
  (o_branch o <> 1%Z /\ v_pcount (o_st o) = (v_pcount v + 1)%Z /\ v_jitter (o_st o) = v_jitter v /\ v_mult (o_st o) = v_mult v /\
   (v_pcount v + 1 < to_int (mul (mul (v_jitter v) (of_int (v_mult v))) (v_est v)))%Z).
Proof.
  unfold vegas_step, vegas_update, vegas_should_probe. cbv zeta.
  destruct (Z.leb_spec (to_int (mul (mul (v_jitter v) (of_int (v_mult v))) (v_est v))) (v_pcount v + 1)) as [P|P].
  - intros H; inversion H; subst. left. cbn. auto.
  - intros H. right.
    repeat match type of H with
    | (if ?c then _ else _) = _ => destruct c
    | (match ?c with Some _ => _ | None => _ end) = _ => destruct c
    | Some _ = Some _ => inversion H; subst; clear H; cbn; repeat split; try exact P; discriminate
    | None = Some _ => discriminate
    end.
Qed.

Definition psample_ok (s : sample) : Prop := sample_ok s /\ jit_ok (of_bits (s_draw s)).

(* every run of consecutive non-probe samples is shorter than K = multiplier x (M + 1), whatever jitter values are drawn *)
Theorem vegas_probe_period M ss : forall v, VInv v M -> jit_ok (v_jitter v) -> (1 <= v_mult v <= 2^20)%Z -> (0 <= v_pcount v)%Z ->
  Forall psample_ok ss ->
  (fix go (v : vegas) (ss : list sample) (n : Z) : Prop :=
     match ss with
     | [] => True
     | s :: r => match vegas_step v s with
                 | None => False    (* no panic either *)
                 | Some o => if (o_branch o =? 1)%Z then True else (n + 1 < v_mult v * (M + 1))%Z /\ go (o_st o) r (n + 1)%Z
                 end
     end) v ss (v_pcount v).
Proof.
  induction ss as [|s r IH]; intros v HI HJ HM HP HS; [exact I|]. inversion HS as [|? ? [Hs Hd] Hr]; subst.
  destruct (vegas_step_safe v M s HI Hs) as (o & Eo & Io). rewrite Eo.
  destruct (vegas_counter v s o Eo) as [(B & _)|(B & C & D & E & F)].
  - rewrite B. exact I.
  - destruct (Z.eqb_spec (o_branch o) 1); [contradiction|]. pose proof (probe_threshold_bound v M HI HJ HM) as T.
    split; [lia|]. rewrite <- C. apply IH; auto; try lia. rewrite D. exact HJ.
Qed.
