(* C08 for Vegas, the missing half: the queue estimate q = int(ceil(est x (1 - baseline/rtt))) is monotone in the sample's RTT -
   every binary64 operation on the way (conversion, division, subtraction, product, ceil, truncation) is monotone on the operands' range.
   Together with vegas_update_mono: a higher RTT never yields a higher stored estimate, when both samples update it. *)
From Coq Require Import ZArith Reals Lia Lra Psatz Bool List.
From Flocq Require Import Core BinarySingleNaN.
From GCL Require Import Base.F64 Base.F64Facts Proofs.Smooth Model.Measure Model.Limits Proofs.VegasSafe Proofs.AimdProofs Proofs.GradSafe Proofs.Grad2Safe Proofs.VegasDrop Proofs.VegasMono.
Import ListNotations.
Open Scope R_scope.

Lemma fceil_ok x : fin x = true -> fin (fceil x) = true /\ R (fceil x) = IZR (Zceil (R x)).
Proof.
  intros Fx. unfold fceil, fin, R in *. destruct (@Bnearbyint_correct prec emax _ mode_UP x) as (A & B & _).
  split; [rewrite B; exact Fx|]. rewrite A. unfold round, F2R, scaled_mantissa, cexp, FIX_exp; cbn [Defs.Fnum Defs.Fexp round_mode].
  simpl. rewrite !Rmult_1_r. reflexivity.
Qed.

Lemma of_int_mono a b : (0 <= a <= b)%Z -> (b <= 2^62)%Z -> R (of_int a) <= R (of_int b).
Proof.
  intros H1 H2.
  destruct (of_int_ok a) as [_ Ea]. { apply bpow1000_big. apply Rabs_le. assert (0 <= IZR a <= IZR (2^62)) by (split; [apply (IZR_le 0)|apply IZR_le]; lia). change (IZR (2^62)) with 4611686018427387904 in *. split; lra. }
  destruct (of_int_ok b) as [_ Eb]. { apply bpow1000_big. apply Rabs_le. assert (0 <= IZR b <= IZR (2^62)) by (split; [apply (IZR_le 0)|apply IZR_le]; lia). change (IZR (2^62)) with 4611686018427387904 in *. split; lra. }
  rewrite Ea, Eb. apply rnd_mono. apply IZR_le. lia.
Qed.

Section Q.
Variables (v : vegas) (M : Z).
Hypothesis HI : VInv v M.
Hypothesis Fnl : fin (v_noload v) = true.
Hypothesis Bnl : 0 <= R (v_noload v) <= 4611686018427387904.

(* the product est x (1 - baseline/rtt) as a real, and its range, for an RTT not below the baseline *)
Lemma queue_arg rtt : (1 <= rtt <= 2^62)%Z -> R (v_noload v) <= R (of_int rtt) ->
  let x := mul (v_est v) (sub one (div (v_noload v) (of_int rtt))) in
  fin x = true /\ 0 <= R x <= 4294967296 /\
  R x = rnd (R (v_est v) * rnd (1 - rnd (R (v_noload v) / R (of_int rtt)))).
Proof.
  intros Hr Hb x. pose proof (M_b v M HI) as MB. destruct HI as (_ & Fe & E1 & E2).
  destruct (of_int_big rtt ltac:(lia)) as (Frt & Brt & Prt). specialize (Prt ltac:(lia)). rewrite big in Brt.
  destruct R_one as [Fo Eo].
  assert (D0: 0 <= R (v_noload v) / R (of_int rtt) <= 1).
  { split; [unfold Rdiv; apply Rmult_le_pos; [lra|apply Rlt_le, Rinv_0_lt_compat; lra]|].
    apply Rmult_le_reg_r with (R (of_int rtt)); [lra|]. unfold Rdiv. rewrite Rmult_assoc, Rinv_l by lra. lra. }
  destruct (div_ok _ _ Fnl Frt) as [Fd Ed]; [lra|apply bpow1000_big; apply Rabs_le; split; lra|].
  assert (D1: 0 <= R (div (v_noload v) (of_int rtt)) <= 1).
  { rewrite Ed. split; [apply rnd_nonneg; lra|]. apply (rnd_le_int _ 1); [reflexivity|simpl; lra]. }
  destruct (sub_ok one _ Fo Fd) as [Fs Es]; [rewrite Eo; apply bpow1000_big; apply Rabs_le; split; lra|]. rewrite Eo in Es.
  assert (S1: 0 <= R (sub one (div (v_noload v) (of_int rtt))) <= 1).
  { rewrite Es. split; [apply rnd_nonneg; lra|]. apply (rnd_le_int _ 1); [reflexivity|simpl; lra]. }
  destruct (mul_ok _ _ Fe Fs) as [Fm Em].
  { apply bpow1000_big. apply Rabs_le. assert (0 <= R (v_est v) * R (sub one (div (v_noload v) (of_int rtt)))) by (apply Rmult_le_pos; lra).
    assert (R (v_est v) * R (sub one (div (v_noload v) (of_int rtt))) <= 2147483649 * 1) by (apply Rmult_le_compat; lra). split; lra. }
  split; [exact Fm|]. split.
  - unfold x. rewrite Em. assert (0 <= R (v_est v) * R (sub one (div (v_noload v) (of_int rtt)))) by (apply Rmult_le_pos; lra).
    split; [now apply rnd_nonneg|]. apply (rnd_le_int _ 4294967296); [reflexivity|].
    apply Rle_trans with (2147483649 * 1); [apply Rmult_le_compat; lra|simpl; lra].
  - unfold x. rewrite Em, Es, Ed. reflexivity.
Qed.

Theorem vegas_queue_mono rtt1 rtt2 : (1 <= rtt1 <= rtt2)%Z -> (rtt2 <= 2^62)%Z -> R (v_noload v) <= R (of_int rtt1) ->
  (vegas_queue v rtt1 <= vegas_queue v rtt2)%Z.
Proof.
  intros H12 H2 Hb. pose proof (of_int_mono rtt1 rtt2 ltac:(lia) H2) as Mo.
  destruct (queue_arg rtt1 ltac:(lia) Hb) as (F1 & B1 & E1). destruct (queue_arg rtt2 ltac:(lia) ltac:(lra)) as (F2 & B2 & E2). cbv zeta in *.
  destruct (of_int_big rtt1 ltac:(lia)) as (_ & _ & P1). specialize (P1 ltac:(lia)).
  pose proof (M_b v M HI) as MB. destruct HI as (_ & Fe & Ee1 & Ee2).
  (* the argument of ceil is monotone *)
  assert (Mx: R (mul (v_est v) (sub one (div (v_noload v) (of_int rtt1)))) <= R (mul (v_est v) (sub one (div (v_noload v) (of_int rtt2))))).
  { rewrite E1, E2. apply rnd_mono. apply Rmult_le_compat_l; [lra|]. apply rnd_mono. apply Rplus_le_compat_l. apply Ropp_le_contravar.
    apply rnd_mono. unfold Rdiv. apply Rmult_le_compat_l; [lra|]. apply Rinv_le_contravar; lra. }
  unfold vegas_queue. destruct (fceil_ok _ F1) as [Fc1 Ec1]. destruct (fceil_ok _ F2) as [Fc2 Ec2].
  assert (Z1: (0 <= Zceil (R (mul (v_est v) (sub one (div (v_noload v) (of_int rtt1))))) <= 4294967296)%Z).
  { split; [apply le_IZR; eapply Rle_trans; [exact (proj1 B1)|apply Zceil_ub]|apply Zceil_glb; exact (proj2 B1)]. }
  assert (Z2: (0 <= Zceil (R (mul (v_est v) (sub one (div (v_noload v) (of_int rtt2))))) <= 4294967296)%Z).
  { split; [apply le_IZR; eapply Rle_trans; [exact (proj1 B2)|apply Zceil_ub]|apply Zceil_glb; exact (proj2 B2)]. }
  apply to_int_mono; auto; rewrite ?Ec1, ?Ec2.
  - apply (IZR_le 0); lia.
  - apply IZR_le. apply Zceil_le. exact Mx.
  - apply Rle_trans with (IZR 4294967296); [apply IZR_le; lia|simpl; lra].
Qed.
End Q.

(* C08 for Vegas, complete for updating samples: same state, same in-flight and drop flag, RTTs at or above the baseline, both samples
   reach the update and change the estimate: the higher RTT never yields the higher stored estimate. *)
Theorem vegas_rtt_mono v M s1 s2 o1 o2 : VInv v M -> sample_ok s1 -> sample_ok s2 ->
  fin (v_noload v) = true -> 0 <= R (v_noload v) <= 4611686018427387904 ->
  s_inflight s2 = s_inflight s1 -> s_drop s2 = s_drop s1 -> s_lgi s2 = s_lgi s1 -> s_lgf s2 = s_lgf s1 ->
  (1 <= s_rtt s1 <= s_rtt s2)%Z -> R (v_noload v) <= R (of_int (s_rtt s1)) ->
  (forall l y, log10i (to_int (v_est v)) (s_lgi s1) = Some l -> log10f (v_est v) (s_lgf s1) = Some y -> R y <= 6 * IZR l) ->
  vegas_step v s1 = Some o1 -> vegas_step v s2 = Some o2 -> o_notify o1 <> [] -> o_notify o2 <> [] ->
  R (v_est (o_st o2)) <= R (v_est (o_st o1)).
Proof.
  intros HI HS1 HS2 Fnl Bnl Ei Ed Eli Elf Hr Hb Hlog.
  assert (Q: (vegas_queue v (s_rtt s1) <= vegas_queue v (s_rtt s2))%Z).
  { apply (vegas_queue_mono v M HI Fnl Bnl); [exact Hr| |exact Hb]. destruct HS2 as [[_ ?] _ _ _ _ _ _ _]. assumption. }
  unfold vegas_step. destruct (vegas_should_probe v (v_pcount v + 1)).
  { intros H1 _ N1. injection H1 as H1; subst o1. cbn in N1. congruence. }
  destruct (feq (v_noload v) zero || flt (of_int (s_rtt s1)) (v_noload v)).
  { intros H1 _ N1. injection H1 as H1; subst o1. cbn in N1. congruence. }
  destruct (feq (v_noload v) zero || flt (of_int (s_rtt s2)) (v_noload v)).
  { intros _ H2 _ N2. injection H2 as H2; subst o2. cbn in N2. congruence. }
  (* both reach vegas_update: it reads the sample only through in-flight, drop flag and the Log10 oracles *)
  intros H1 H2 N1 N2.
  assert (U: forall em q, vegas_update v s2 (v_pcount v + 1) em q = vegas_update v s1 (v_pcount v + 1) em q).
  { intros em q. unfold vegas_update. rewrite Ei, Ed, Eli, Elf. reflexivity. }
  (* the emission lists differ (they carry the RTT) but do not influence the state *)
  assert (St: forall em em' q o o', vegas_update v s1 (v_pcount v + 1) em q = Some o -> vegas_update v s1 (v_pcount v + 1) em' q = Some o' ->
              o_st o' = o_st o /\ o_notify o' = o_notify o).
  { intros em em' q o o'. unfold vegas_update. cbv zeta. destruct (log10f _ _); cbn [option_map]; destruct (log10i _ _);
    repeat match goal with |- context [if ?c then _ else _] => destruct c end; intros A B; try discriminate; injection A as <-; injection B as <-; split; reflexivity. }
  rewrite U in H2.
  set (em1 := common_sample (s_rtt s1) (s_inflight s1) (s_drop s1) ++ [(4%Z, v_noload v)]) in *.
  destruct (vegas_update v s1 (v_pcount v + 1) em1 (vegas_queue v (s_rtt s2))) as [o2'|] eqn:E2'.
  - destruct (St _ _ _ _ _ E2' H2) as [S2 Nn2]. rewrite S2.
    apply (vegas_update_mono v M s1 (v_pcount v + 1) em1 HI HS1 Hlog _ _ o1 o2' Q H1 E2' N1). rewrite <- Nn2. exact N2.
  - exfalso. revert H2 E2'. unfold vegas_update. cbv zeta. destruct (log10f _ _); cbn [option_map]; destruct (log10i _ _);
    repeat match goal with |- context [if ?c then _ else _] => destruct c end; intros A B; discriminate.
Qed.
