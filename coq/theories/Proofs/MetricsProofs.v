(* C20: metric emissions of the limit algorithms and the registry life cycle. *)
From Coq Require Import ZArith List Bool Lia.
From GCL Require Import Base.F64 Model.Measure Model.Limits Model.Registry.
Import ListNotations.
Open Scope Z_scope.

(* ---- every processed sample emits its RTT and in-flight once, and the drop counter iff it was a drop ---- *)
Definition count_kind (k : Z) (e : list emission) : nat := length (filter (fun p => fst p =? k) e).
Definition values_of (k : Z) (e : list emission) : list f64 := map snd (filter (fun p => fst p =? k) e).

Lemma common_sample_spec rtt inf drop :
  values_of 1 (common_sample rtt inf drop) = [of_int rtt] /\ values_of 2 (common_sample rtt inf drop) = [of_int inf] /\
  values_of 3 (common_sample rtt inf drop) = (if drop then [one] else []).
Proof. unfold common_sample, values_of. destruct drop; cbn; repeat split. Qed.

Lemma values_app k a b : values_of k (a ++ b) = values_of k a ++ values_of k b.
Proof. unfold values_of. now rewrite filter_app, map_app. Qed.

Definition sample_emits (s : sample) (e : list emission) : Prop :=
  values_of 1 e = [of_int (s_rtt s)] /\ values_of 2 e = [of_int (s_inflight s)] /\ values_of 3 e = (if s_drop s then [one] else []).

Lemma emits_app_other s e tail : sample_emits s e -> values_of 1 tail = [] -> values_of 2 tail = [] -> values_of 3 tail = [] ->
  sample_emits s (e ++ tail).
Proof. intros (A & B & C) T1 T2 T3. unfold sample_emits. rewrite !values_app, A, B, C, T1, T2, T3, !app_nil_r. auto. Qed.
Lemma cs_emits s : sample_emits s (common_sample (s_rtt s) (s_inflight s) (s_drop s)).
Proof. apply common_sample_spec. Qed.

Theorem aimd_emits a s : sample_emits s (o_emit (aimd_step a s)).
Proof. unfold aimd_step. destruct (s_drop s) eqn:D; [|destruct (_ <=? _)]; cbn [o_emit mk]; rewrite <- ?D; apply cs_emits. Qed.

Theorem vegas_emits v s o : vegas_step v s = Some o -> sample_emits s (o_emit o).
Proof.
  unfold vegas_step, vegas_update. cbv zeta. intros H.
  assert (T: sample_emits s (common_sample (s_rtt s) (s_inflight s) (s_drop s) ++ [(4, v_noload v)])).
  { apply emits_app_other; [apply cs_emits|reflexivity..]. }
  repeat match type of H with
  | (if ?c then _ else _) = _ => destruct c
  | (match ?c with Some _ => _ | None => _ end) = _ => destruct c
  | Some _ = Some _ => inversion H; subst; clear H; cbn [o_emit mk]; first [exact T | apply cs_emits]
  | None = Some _ => discriminate
  end.
Qed.

Theorem grad_emits v s o : grad_step v s = Some o -> sample_emits s (o_emit o).
Proof.
  unfold grad_step. destruct (sqrt_q _) as [q|]; [|discriminate]. cbv zeta. intros H.
  assert (T1: sample_emits s (common_sample (s_rtt s) (s_inflight s) (s_drop s) ++ [(5, of_int (s_rtt s)); (6, of_int q)])).
  { apply emits_app_other; [apply cs_emits|reflexivity..]. }
  assert (T2: forall x, sample_emits s ((common_sample (s_rtt s) (s_inflight s) (s_drop s) ++ [(5, of_int (s_rtt s)); (6, of_int q)]) ++ [(4, x)])).
  { intros x. apply emits_app_other; [exact T1|reflexivity..]. }
  repeat match type of H with
  | (if ?c then _ else _) = _ => destruct c
  | Some _ = Some _ => inversion H; subst; clear H; cbn [o_emit mk]; first [exact T1 | apply T2]
  end.
Qed.

Theorem grad2_emits v s : sample_emits s (o_emit (grad2_step v s)).
Proof.
  unfold grad2_step. cbv zeta. destruct (flt _ _); cbn [o_emit mk]; (apply emits_app_other; [apply cs_emits|reflexivity..]).
Qed.

(* ---- registry life cycle ---- *)
Definition reg_ok (r : reg) : Prop := r_pollers r = (if r_started r then 1 else 0) /\ 0 <= r_gauges r.
Theorem reg_step_ok r o : reg_ok r -> reg_ok (fst (reg_step r o)) /\
  (* polls happen only while started, once per period and gauge *)
  (r_started r = false -> snd (reg_step r o) = 0) /\
  (forall n, o = RTick n -> r_started r = true -> snd (reg_step r o) = n * r_gauges r).
Proof.
  intros [P G]. destruct o as [| |n|f]; cbn [reg_step].
  - destruct (r_started r) eqn:S; cbn; unfold reg_ok; cbn; rewrite ?S; repeat split; auto; try lia; discriminate.
  - destruct (r_started r) eqn:S; cbn; unfold reg_ok; cbn; rewrite ?S; repeat split; auto; try lia; discriminate.
  - cbn. split; [split; assumption|]. split.
    + intros S. rewrite S in P. rewrite P. lia.
    + intros m E S. inversion E; subst. rewrite S in P. rewrite P. lia.
  - cbn. unfold reg_ok; cbn. split; [split; [exact P|destruct f; lia]|]. split; [reflexivity|discriminate].
Qed.
(* Start and Stop are idempotent; Stop leaves no poller *)
Theorem reg_idempotent r : reg_ok r ->
  fst (reg_step (fst (reg_step r RStart)) RStart) = fst (reg_step r RStart) /\
  fst (reg_step (fst (reg_step r RStop)) RStop) = fst (reg_step r RStop) /\
  r_pollers (fst (reg_step r RStop)) = 0 /\ r_pollers (fst (reg_step r RStart)) = 1.
Proof.
  intros [P G]. cbn [reg_step]. destruct (r_started r) eqn:S; cbn; rewrite ?S; cbn; rewrite ?S; repeat split; auto; lia.
Qed.
Theorem reg_run_ok ops : forall r, reg_ok r -> reg_ok (fold_left (fun r o => fst (reg_step r o)) ops r).
Proof. induction ops as [|o t IH]; intros r H; cbn; [exact H|]. apply IH. now apply reg_step_ok. Qed.
