(* C08 for Gradient, the mixed case: the lower RTT's candidate is at or above the estimate (taken as it is), the higher RTT's candidate is
   below it (smoothed).  In binary64 the smoothed value w*est + s*c with c < est can exceed est by an ulp (w = rnd(1 - s) rounds up), so the
   statement carries a margin: whenever the lower RTT's candidate is at least est + 1, the higher RTT never ends with the larger estimate.
   Together with GradMono.finish_mono (same side) only est <= c1 < est + 1 with c2 < est is left to the twin-run oracle. *)
From Coq Require Import ZArith Reals Lia Lra Psatz Bool List.
From Flocq Require Import Core BinarySingleNaN.
From GCL Require Import Base.F64 Base.F64Facts Proofs.Smooth Model.Measure Model.Limits Proofs.VegasSafe Proofs.AimdProofs Proofs.GradSafe Proofs.Grad2Safe Proofs.VegasQueueMono Proofs.GradMono.
Import ListNotations.
Open Scope R_scope.

Section G.
Variables (g : grad) (Mx : Z).
Hypothesis HI : GInv g Mx.

(* smoothing towards a candidate below the estimate ends at most one above the estimate (in fact within a few ulps of it) *)
Lemma smooth_upper newl : fin newl = true -> 0 <= R newl <= R (g_est g) ->
  let sm := add (mul (g_est g) (sub one (g_s g))) (mul (g_s g) newl) in
  fin sm = true /\ R sm <= R (g_est g) + 1.
Proof.
  intros Fnew Bnew sm. pose proof (Mx_b g Mx HI) as MB.
  assert (Be: 0 <= R (g_est g) <= 2147483648).
  { destruct HI as (C & _ & Be & _). destruct C as [cM cmin _ _ _ _ _ _]. assert (0 <= IZR (g_min g)) by (apply (IZR_le 0); lia). lra. }
  destruct (smooth_ok g Mx HI newl Fnew ltac:(lra)) as [Fs Es]. fold sm in Fs, Es. split; [exact Fs|].
  destruct HI as (C & Fe & _ & _). destruct C as [cM cmin cmax cmm csf cs ctf ct].
  destruct R_one as [Fo Eo].
  destruct (sub_ok one (g_s g) Fo csf) as [Fw Ew]; [rewrite Eo; apply bpow1000_big; apply Rabs_le; split; lra|].
  destruct (mul_ok _ _ Fe Fw) as [Fa Ea].
  { assert (Bw: 0 <= R (sub one (g_s g)) <= 1).
    { rewrite Ew, Eo. split; [apply rnd_nonneg; lra|]. change 1 with (IZR 1) at 2. apply rnd_le_int; [reflexivity|simpl; lra]. }
    apply bpow1000_big. apply Rabs_le. assert (0 <= R (g_est g) * R (sub one (g_s g))) by (apply Rmult_le_pos; tauto).
    assert (R (g_est g) * R (sub one (g_s g)) <= 2147483648 * 1) by (apply Rmult_le_compat; lra). split; lra. }
  rewrite Es, Ea, Ew, Eo.
  set (E := R (g_est g)) in *. set (S := R (g_s g)) in *. set (N := R newl) in *.
  pose proof dd_small as [D0 D1]. pose proof u_pos as U0. pose proof u_small as U1.
  (* W = rnd(1 - S) *)
  assert (W0: 0 <= rnd (1 - S)) by (apply rnd_nonneg; lra).
  assert (W1: rnd (1 - S) <= (1 - S) * (1 + u) + dd) by (apply rnd_up; lra).
  (* A = rnd(E * W) *)
  assert (EW0: 0 <= E * rnd (1 - S)) by (apply Rmult_le_pos; lra).
  assert (A0: 0 <= rnd (E * rnd (1 - S))) by (apply rnd_nonneg; lra).
  assert (A1: rnd (E * rnd (1 - S)) <= E * rnd (1 - S) * (1 + u) + dd) by (apply rnd_up; lra).
  (* B = rnd(S * N) *)
  assert (SN0: 0 <= S * N) by (apply Rmult_le_pos; lra).
  assert (B0: 0 <= rnd (S * N)) by (apply rnd_nonneg; lra).
  assert (B1: rnd (S * N) <= S * N * (1 + u) + dd) by (apply rnd_up; lra).
  assert (SN1: S * N <= S * E) by (apply Rmult_le_compat_l; lra).
  assert (T: rnd (rnd (E * rnd (1 - S)) + rnd (S * N)) <= (rnd (E * rnd (1 - S)) + rnd (S * N)) * (1 + u) + dd) by (apply rnd_up; lra).
  (* E * W <= E * ((1-S)(1+u) + dd) *)
  assert (EW1: E * rnd (1 - S) <= E * ((1 - S) * (1 + u) + dd)) by (apply Rmult_le_compat_l; lra).
  assert (K1: E * ((1 - S) * (1 + u) + dd) * (1 + u) + S * E * (1 + u) <= E * (1 + u) * (1 + u) + E * dd * (1 + u)).
  { assert (0 <= E * S * u * (1 + u)) by (repeat apply Rmult_le_pos; lra). nra. }
  assert (Sum: rnd (E * rnd (1 - S)) + rnd (S * N) <= E * (1 + u) * (1 + u) + E * dd * (1 + u) + 2 * dd).
  { assert (E * rnd (1 - S) * (1 + u) <= E * ((1 - S) * (1 + u) + dd) * (1 + u)) by (apply Rmult_le_compat_r; lra).
    assert (S * N * (1 + u) <= S * E * (1 + u)) by (apply Rmult_le_compat_r; lra). lra. }
  assert (Sum2: (rnd (E * rnd (1 - S)) + rnd (S * N)) * (1 + u) <= (E * (1 + u) * (1 + u) + E * dd * (1 + u) + 2 * dd) * (1 + u)).
  { apply Rmult_le_compat_r; lra. }
  assert (Eu: E * u <= 2147483648 * u) by (apply Rmult_le_compat_r; lra).
  assert (Ed: E * dd <= 2147483648 * dd) by (apply Rmult_le_compat_r; lra).
  assert (uu: u * u <= u * / 4) by (apply Rmult_le_compat_l; lra).
  assert (uuu: u * u * u <= u * u * / 4) by (apply Rmult_le_compat_l; [apply Rmult_le_pos; lra | lra]).
  assert (u3: (1 + u) * (1 + u) * (1 + u) <= 1 + 4 * u).
  { replace ((1 + u) * (1 + u) * (1 + u)) with (1 + 3 * u + 3 * (u * u) + u * u * u) by ring. lra. }
  assert (F1: E * (1 + u) * (1 + u) * (1 + u) <= E + 4 * (E * u)).
  { replace (E * (1 + u) * (1 + u) * (1 + u)) with (E * ((1 + u) * (1 + u) * (1 + u))) by ring.
    apply Rle_trans with (E * (1 + 4 * u)); [apply Rmult_le_compat_l; lra | lra]. }
  assert (F2: E * dd * (1 + u) * (1 + u) <= 2 * (E * dd)).
  { assert (0 <= E * dd) by (apply Rmult_le_pos; lra). assert ((1 + u) * (1 + u) <= 2) by (replace ((1 + u) * (1 + u)) with (1 + 2 * u + u * u) by ring; lra).
    replace (E * dd * (1 + u) * (1 + u)) with (E * dd * ((1 + u) * (1 + u))) by ring. nra. }
  assert (U2: 2147483648 * u <= / 4000000) by (unfold u; lra).
  assert (X: (E * (1 + u) * (1 + u) + E * dd * (1 + u) + 2 * dd) * (1 + u)
             = E * (1 + u) * (1 + u) * (1 + u) + E * dd * (1 + u) * (1 + u) + 2 * dd * (1 + u)) by ring.
  assert (Du: dd * u <= dd * 1) by (apply Rmult_le_compat_l; lra).
  rewrite X in Sum2. lra.
Qed.

Theorem finish_mixed q n1 n2 : (4 <= q <= Mx)%Z -> fin n1 = true -> fin n2 = true ->
  0 <= R n2 -> flt n1 (g_est g) = false -> flt n2 (g_est g) = true ->
  R (g_est g) + 1 <= R n1 ->
  R (grad_finish g q n2) <= R (grad_finish g q n1).
Proof.
  intros Hq F1 F2 B2 S1 S2 Mg. unfold grad_finish. cbv zeta. rewrite S1, S2.
  pose proof HI as HI'. destruct HI' as (C & Fe & Be & _). destruct C as [cM cmin cmax cmm csf cs ctf ct].
  destruct (of_int_exact q) as [Fq Rq]; [lia|]. destruct (of_int_exact (g_min g)) as [Fmn Rmn]; [lia|]. destruct (of_int_exact (g_max g)) as [Fmx Rmx]; [lia|].
  rewrite (flt_R _ _ F2 Fe) in S2. apply Rlt_bool_true_iff in S2 || (destruct (Rlt_bool_spec (R n2) (R (g_est g))) as [S2'|S2']; [|discriminate]).
  assert (L2: R n2 < R (g_est g)).
  { destruct (Rlt_bool_spec (R n2) (R (g_est g))) as [H|H]; [exact H|]. first [discriminate | lra]. }
  destruct (smooth_upper n2 F2 ltac:(lra)) as [Fs Bs]. cbv zeta in Fs, Bs.
  destruct (fmax_ok _ _ Fmn Fs) as [G2 H2].
  destruct (fmin_ok _ _ Fmx F1) as [Fa1 Ea1]. destruct (fmin_ok _ _ Fmx G2) as [Fb1 Eb1].
  destruct (fmax_ok _ _ Fq Fa1) as [_ Ea2]. destruct (fmax_ok _ _ Fq Fb1) as [_ Eb2]. rewrite Ea2, Eb2, Ea1, Eb1.
  apply Rle_max_compat_l. apply Rle_min_compat_l. rewrite H2. apply Rmax_lub; lra.
Qed.
End G.

(* whole step: samples differing only in RTT; all cases except est <= c1 < est + 1 with c2 < est *)
Theorem grad_rtt_mono_margin g Mx s1 s2 o1 o2 q : GInv g Mx -> gsample_ok s1 -> gsample_ok s2 ->
  sqrt_q (to_int (g_est g)) = Some q -> (4 <= q <= Mx)%Z ->
  s_drop s1 = false -> s_drop s2 = false -> s_inflight s2 = s_inflight s1 ->
  (1 <= s_rtt s1 <= s_rtt s2)%Z ->
  min_add (g_noload g) (of_int (s_rtt s1)) = g_noload g -> min_add (g_noload g) (of_int (s_rtt s2)) = g_noload g ->
  flt (of_int (s_inflight s1)) (div (g_est g) two) = false ->
  grad_step g s1 = Some o1 -> grad_step g s2 = Some o2 -> o_branch o1 <> 1%Z -> o_branch o2 <> 1%Z ->
  let c1 := grad_cand g q (grad_gradient (g_tol g) (to_int (g_noload g)) (s_rtt s1)) in
  let c2 := grad_cand g q (grad_gradient (g_tol g) (to_int (g_noload g)) (s_rtt s2)) in
  (R c1 < R (g_est g) \/ R (g_est g) <= R c2 \/ R (g_est g) + 1 <= R c1) ->
  R (g_est (o_st o2)) <= R (g_est (o_st o1)).
Proof.
  intros HI HS1 HS2 Eq Hq Hd1 Hd2 Ei Hr Hn1 Hn2 Hs E1 E2 Hb1 Hb2 c1 c2 Cases.
  destruct (grad_rtt_mono g Mx s1 s2 o1 o2 q HI HS1 HS2 Eq Hq Hd1 Hd2 Ei Hr Hn1 Hn2 Hs E1 E2 Hb1 Hb2) as [CM Same].
  fold c1 c2 in CM, Same.
  assert (Hs2: flt (of_int (s_inflight s2)) (div (g_est g) two) = false) by (rewrite Ei; exact Hs).
  assert (Bn: (0 <= to_int (g_noload g) <= 2^62)%Z).
  { destruct HI as (_ & _ & _ & Fn & Bn). apply to_int_range2; auto; try lia; [change (IZR 0) with 0|]; tauto. }
  destruct HS2 as [[_ R2] _].
  destruct (gradient_ok g Mx HI _ (s_rtt s1) Bn ltac:(lia)) as (F1 & B1 & _). destruct (gradient_ok g Mx HI _ (s_rtt s2) Bn ltac:(lia)) as (F2 & B2 & _).
  destruct (cand_ok g Mx HI q _ Hq F1 B1) as (Fc1 & _ & Bc1). destruct (cand_ok g Mx HI q _ Hq F2 B2) as (Fc2 & _ & Bc2).
  fold c1 in Fc1, Bc1. fold c2 in Fc2, Bc2.
  pose proof HI as (_ & Fe & _).
  assert (X1: flt c1 (g_est g) = Rlt_bool (R c1) (R (g_est g))) by (apply flt_R; assumption).
  assert (X2: flt c2 (g_est g) = Rlt_bool (R c2) (R (g_est g))) by (apply flt_R; assumption).
  destruct (Rlt_bool_spec (R c1) (R (g_est g))) as [L1|L1]; destruct (Rlt_bool_spec (R c2) (R (g_est g))) as [L2|L2].
  - apply Same. rewrite X1, X2. reflexivity.
  - lra.
  - (* mixed *) destruct Cases as [K|[K|K]]; [lra|lra|].
    rewrite (grad_step_growth g s1 o1 q Eq Hd1 ltac:(lia) Hn1 Hs E1 Hb1), (grad_step_growth g s2 o2 q Eq Hd2 ltac:(lia) Hn2 Hs2 E2 Hb2).
    fold c1 c2. apply (finish_mixed g Mx HI q c1 c2 Hq Fc1 Fc2); [lra | rewrite X1 | rewrite X2 | exact K].
    + destruct (Rlt_bool_spec (R c1) (R (g_est g))); [lra|reflexivity].
    + destruct (Rlt_bool_spec (R c2) (R (g_est g))); [reflexivity|lra].
  - apply Same. rewrite X1, X2. reflexivity.
Qed.
