(* C19 / C10 (settled): every release by a holder, while callers are blocked, serves at least one of them in the same operation - for the
   queue limiter (FIFO / LIFO pools) and for the blocking and deadline limiters (random-order pools) alike - so a run of n releases leaves at
   most max(0, blocked - n) callers waiting: every queued caller is served once the holders ahead of it have released. *)
From Coq Require Import ZArith List Bool Lia Arith Sorted.
From GCL Require Import Model.Waiters Proofs.WaitersProofs Proofs.WaitersTimers.
Import ListNotations.
Open Scope Z_scope.

Lemma grant_blocked_nblocked s j c : nth_error (ws_callers s) j = Some c -> blocked c = true -> nblocked (grant s j) = nblocked s - 1.
Proof.
  intros E B. unfold grant, nblocked. rewrite E, B. cbn [ws_callers with_callers].
  rewrite (set_caller_nblocked _ _ _ c E); [|reflexivity]. rewrite B. lia.
Qed.

Lemma attempt_all_nblocked ids : forall s, nblocked (attempt_all s ids) <= nblocked s.
Proof.
  induction ids as [|i r IH]; intros s; cbn [attempt_all]; [lia|]. destruct (has_room s); [|lia].
  pose proof (IH (grant s i)). pose proof (grant_nblocked s i). lia.
Qed.

Lemma nblocked_pointwise l l' : length l' = length l -> (forall j c, nth_error l j = Some c -> exists c', nth_error l' j = Some c' /\ blocked c' = blocked c) ->
  length (filter blocked l') = length (filter blocked l).
Proof.
  revert l'. induction l as [|a l IH]; intros [|b l'] L H; cbn in L; try lia.
  destruct (H 0%nat a eq_refl) as (c' & E & B). cbn in E. inversion E; subst. cbn [filter]. rewrite B.
  assert (IH': length (filter blocked l') = length (filter blocked l)) by (apply IH; [lia|]; intros j c Hj; exact (H (S j) c Hj)).
  destruct (blocked a); cbn [length]; lia.
Qed.

Lemma rearm_nblocked s ids : nblocked (rearm s ids) = nblocked s.
Proof.
  unfold rearm. destruct (w_kind (ws_cfg s)); try reflexivity. destruct (0 <? w_timeout (ws_cfg s)); [|reflexivity].
  unfold nblocked. cbn [ws_callers with_callers]. f_equal.
  generalize (ws_callers s). induction ids as [|i r IH]; intros l; cbn [fold_left]; [reflexivity|].
  rewrite IH. destruct (nth_error l i) as [c|] eqn:E; [|reflexivity]. destruct (blocked c) eqn:B; [|reflexivity].
  apply nblocked_pointwise; [apply set_caller_length|]. intros j c0 Hj. rewrite set_caller_nth.
  assert (L: Nat.ltb i (length l) = true) by (apply Nat.ltb_lt; apply nth_error_Some; congruence). rewrite L, andb_true_r.
  destruct (Nat.eqb_spec i j) as [->|]; [|exists c0; auto]. rewrite E in Hj. inversion Hj; subst. eexists; split; [reflexivity|]. rewrite B. reflexivity.
Qed.

Lemma order_pref_nonempty cands pref : cands <> [] -> exists j r, order_pref cands pref = j :: r /\ In j cands.
Proof.
  intros Hc. unfold order_pref.
  destruct (filter (fun i => existsb (Nat.eqb i) cands) pref) as [|j r] eqn:F1.
  - cbn [app]. destruct cands as [|a cs]; [contradiction|].
    assert (In a (filter (fun i => negb (existsb (Nat.eqb i) pref)) (a :: cs)) \/ existsb (Nat.eqb a) pref = true).
    { destruct (existsb (Nat.eqb a) pref) eqn:X; [right; reflexivity|left]. apply filter_In. split; [left; reflexivity|]. rewrite X. reflexivity. }
    destruct H as [H|H].
    + destruct (filter _ (a :: cs)) as [|j r] eqn:F2; [destruct H|]. exists j, r. split; [reflexivity|].
      assert (In j (filter (fun i => negb (existsb (Nat.eqb i) pref)) (a :: cs))) by (rewrite F2; left; reflexivity). apply filter_In in H0. tauto.
    + exfalso. apply existsb_exists in H. destruct H as (x & Hx & Ex). apply Nat.eqb_eq in Ex. subst x.
      assert (In a (filter (fun i => existsb (Nat.eqb i) (a :: cs)) pref)).
      { apply filter_In. split; [exact Hx|]. cbn. rewrite Nat.eqb_refl. reflexivity. }
      rewrite F1 in H. destruct H.
  - exists j, (r ++ filter (fun i => negb (existsb (Nat.eqb i) pref)) cands). split; [reflexivity|].
    assert (In j (filter (fun i => existsb (Nat.eqb i) cands) pref)) by (rewrite F1; left; reflexivity).
    apply filter_In in H. destruct H as [_ H]. apply existsb_exists in H. destruct H as (x & Hx & Ex). apply Nat.eqb_eq in Ex. subst x. exact Hx.
Qed.

Definition nheld (s : wstate) : Z := ws_busy s.

(* one release: a blocked caller (if any) is served in the same operation *)
Theorem release_serves_one s i c pref : nth_error (ws_callers s) i = Some c -> c_st c = 1 -> within s -> 0 < nblocked s ->
  nblocked (release s i pref) <= nblocked s - 1.
Proof.
  intros E St W NB. unfold release. rewrite E, St, Z.eqb_refl.
  set (s1 := with_callers s (ws_busy s - 1) (ws_now s) (set_caller (ws_callers s) i (mk_caller 3 (c_t c) 0 (c_cancel c)))).
  assert (NB1: nblocked s1 = nblocked s).
  { unfold nblocked, s1. cbn [ws_callers with_callers]. rewrite (set_caller_nblocked _ _ _ c E); [|reflexivity].
    assert (blocked c = false) by (unfold blocked; rewrite St; reflexivity). rewrite H. lia. }
  assert (Room: has_room s1 = true).
  { unfold has_room, s1. cbn [ws_busy ws_limit with_callers]. apply Z.ltb_lt. unfold within in W. lia. }
  assert (Ex: exists k, is_blocked s1 k).
  { assert (blocked_ids (ws_callers s1) 0 <> []).
    { intros Z0. unfold nblocked in NB1, NB. clear -Z0 NB NB1.
      assert (G: forall l k, blocked_ids l k = [] -> filter blocked l = []).
      { induction l as [|a l IH]; intros k H; cbn in *; [reflexivity|]. destruct (blocked a); [discriminate|]. eapply IH; eauto. }
      rewrite (G _ _ Z0) in NB1. cbn in NB1. lia. }
    destruct (blocked_ids (ws_callers s1) 0) as [|k r] eqn:B; [contradiction|]. exists k.
    assert (In k (blocked_ids (ws_callers s1) 0)) by (rewrite B; left; reflexivity).
    apply blocked_ids_in in H0. destruct H0 as (_ & c' & Hc & Bc). rewrite Nat.sub_0_r in Hc. exists c'. auto. }
  destruct (w_kind (ws_cfg s)) eqn:K; cbv zeta.
  - (* blocking *)
    rewrite rearm_nblocked.
    assert (NE: blocked_ids (ws_callers s1) 0 <> []).
    { destruct Ex as (k & c' & Hc & Bc). intros Z0. assert (In k (blocked_ids (ws_callers s1) 0)) by (apply blocked_ids_in; split; [lia|]; exists c'; rewrite Nat.sub_0_r; auto). rewrite Z0 in H. destruct H. }
    destruct (order_pref_nonempty _ pref NE) as (j & r & Eo & Hin). rewrite Eo, attempt_all_first by exact Room.
    apply blocked_ids_in in Hin. destruct Hin as (_ & cj & Hcj & Bj). rewrite Nat.sub_0_r in Hcj.
    pose proof (attempt_all_nblocked r (grant s1 j)). rewrite (grant_blocked_nblocked s1 j cj Hcj Bj) in H. lia.
  - (* deadline *)
    rewrite rearm_nblocked.
    assert (NE: blocked_ids (ws_callers s1) 0 <> []).
    { destruct Ex as (k & c' & Hc & Bc). intros Z0. assert (In k (blocked_ids (ws_callers s1) 0)) by (apply blocked_ids_in; split; [lia|]; exists c'; rewrite Nat.sub_0_r; auto). rewrite Z0 in H. destruct H. }
    destruct (order_pref_nonempty _ pref NE) as (j & r & Eo & Hin). rewrite Eo, attempt_all_first by exact Room.
    apply blocked_ids_in in Hin. destruct Hin as (_ & cj & Hcj & Bj). rewrite Nat.sub_0_r in Hcj.
    pose proof (attempt_all_nblocked r (grant s1 j)). rewrite (grant_blocked_nblocked s1 j cj Hcj Bj) in H. lia.
  - (* queue *)
    destruct (peek_some s1 Ex) as [j Hj]. rewrite Hj, Room. destruct (peek_order s1 j Hj) as [(cj & Hcj & Bj) _].
    rewrite (grant_blocked_nblocked s1 j cj Hcj Bj). lia.
Qed.

(* a run of releases, each by a caller that holds a token at that moment *)
Fixpoint releases (s : wstate) (l : list (nat * list nat)) : option wstate :=
  match l with
  | [] => Some s
  | (i, pref) :: r => match nth_error (ws_callers s) i with
                      | Some c => if c_st c =? 1 then releases (release s i pref) r else None
                      | None => None end
  end.

Theorem releases_drain l : forall s s', within s -> releases s l = Some s' ->
  nblocked s' <= Z.max 0 (nblocked s - Z.of_nat (length l)).
Proof.
  induction l as [|[i pref] r IH]; intros s s' W E; cbn [releases] in E.
  - injection E as <-. cbn [length]. lia.
  - destruct (nth_error (ws_callers s) i) as [c|] eqn:Ec; [|discriminate]. destruct (Z.eqb_spec (c_st c) 1) as [St|]; [|discriminate].
    specialize (IH (release s i pref) s' (release_within s i pref W) E). cbn [length]. rewrite Nat2Z.inj_succ.
    assert (N0: 0 <= nblocked s) by (unfold nblocked; lia).
    destruct (Z.lt_ge_cases 0 (nblocked s)) as [Pos|Zero].
    + pose proof (release_serves_one s i c pref Ec St W Pos). lia.
    + assert (nblocked (release s i pref) <= nblocked s).
      { unfold release. rewrite Ec. destruct (c_st c =? 1) eqn:S1; [|lia].
        set (s1 := with_callers s (ws_busy s - 1) (ws_now s) (set_caller (ws_callers s) i (mk_caller 3 (c_t c) 0 (c_cancel c)))).
        assert (NB1: nblocked s1 = nblocked s).
        { unfold nblocked, s1. cbn [ws_callers with_callers]. rewrite (set_caller_nblocked _ _ _ c Ec); [|reflexivity].
          assert (blocked c = false) by (unfold blocked; rewrite St; reflexivity). rewrite H. lia. }
        destruct (w_kind (ws_cfg s)); cbv zeta.
        - rewrite rearm_nblocked. pose proof (attempt_all_nblocked (order_pref (blocked_ids (ws_callers s1) 0) pref) s1). lia.
        - rewrite rearm_nblocked. pose proof (attempt_all_nblocked (order_pref (blocked_ids (ws_callers s1) 0) pref) s1). lia.
        - destruct (peek s1); [destruct (has_room s1); [pose proof (grant_nblocked s1 n); lia|lia]|lia]. }
      lia.
Qed.
