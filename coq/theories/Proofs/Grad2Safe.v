(* C04 for Gradient2: for every sample list (rtt in [0,2^62], zero RTTs included; any in-flight; any drop flags) the stored estimate
   stays finite within [min, max] and the long-term exponential average stays finite within [0, 2^63] - no sample can poison it. *)
From Coq Require Import ZArith Reals Lia Lra Psatz Bool List.
From Flocq Require Import Core BinarySingleNaN.
From GCL Require Import Base.F64 Base.F64Facts Proofs.Smooth Model.Measure Model.Limits Proofs.VegasSafe Proofs.GradSafe.
Import ListNotations.
Open Scope R_scope.

Definition BB := 9223372036854775808.   (* 2^63 *)
Definition XX := 4611686018427387904.   (* 2^62 *)
Definition dd := bpow radix2 (-1022).
Lemma BB_pow : BB = bpow radix2 63. Proof. reflexivity. Qed.
Lemma dd_small : 0 < dd <= / 1000000000000000000000000000000.
Proof.
  unfold dd. split; [apply bpow_gt_0|]. apply Rle_trans with (bpow radix2 (-100)); [apply bpow_le; lia|].
  change (bpow radix2 (-100)) with (/ IZR (Z.pow_pos 2 100)). replace (Z.pow_pos 2 100) with 1267650600228229401496703205376%Z by (vm_compute; reflexivity).
  apply Rinv_le_contravar; lra.
Qed.

(* rounding of a non-negative real: relative error in the normal range, below the smallest normal otherwise *)
Lemma rnd_up y : 0 <= y -> rnd y <= y * (1 + u) + dd.
Proof.
  intros Hy. pose proof dd_small as [D0 _]. pose proof u_pos. destruct (Rle_dec dd y) as [H1|H1].
  - apply Rle_trans with (y * (1 + u)); [now apply rnd_le_rel|lra].
  - apply Rle_trans with (rnd dd); [apply rnd_mono; lra|]. rewrite rnd_id; [|apply fmt_bpow; lia].
    assert (0 <= y * (1 + u)) by (apply Rmult_le_pos; lra). lra.
Qed.

Lemma fmt_scaled k e : (Z.abs k < 2^53)%Z -> (-1074 <= e)%Z -> fmt (IZR k * bpow radix2 e).
Proof.
  intros Hk He. replace (IZR k * bpow radix2 e) with (F2R (Float radix2 k e)) by (unfold F2R; simpl; ring).
  apply generic_format_F2R. intros Hz. unfold cexp. rewrite fexp_eq.
  assert (mag radix2 (F2R (Float radix2 k e)) <= 53 + e)%Z.
  { apply mag_le_bpow. intros H0. apply Hz. unfold F2R in H0. cbn [Defs.Fnum Defs.Fexp] in H0.
    apply Rmult_integral in H0. destruct H0 as [H0|H0]; [apply eq_IZR in H0; exact H0|]. pose proof (bpow_gt_0 radix2 e). lra.
    unfold F2R. cbn [Defs.Fnum Defs.Fexp]. rewrite Rabs_mult, (Rabs_pos_eq (bpow radix2 e)) by (apply bpow_ge_0).
    rewrite bpow_plus. apply Rmult_lt_compat_r; [apply bpow_gt_0|]. rewrite <- abs_IZR.
    change (bpow radix2 53) with (IZR (Z.pow_pos 2 53)). apply IZR_lt. exact Hk. }
  simpl. lia.
Qed.

Lemma R_c09 : fin c09 = true /\ 0 <= R c09 <= 1.
Proof.
  assert (E: B2SF c09 = SpecFloat.S754_finite false 8106479329266893 (-53)) by (vm_compute; reflexivity).
  split.
  - unfold fin. rewrite <- is_finite_SF_B2SF, E. reflexivity.
  - unfold R. rewrite <- SF2R_B2SF, E. unfold SF2R, F2R. cbn [Defs.Fnum Defs.Fexp cond_Zopp].
    change (bpow radix2 (-53)) with (/ IZR (Z.pow_pos 2 53)). change (Z.pow_pos 2 53) with 9007199254740992%Z. lra.
Qed.

(* ---- the exponential average ---- *)
Definition f0 := / 1099511627776.   (* 2^-40 *)
Record EInv (m : expavg) : Prop := {
  e_vf : fin (ea_value m) = true; e_v : 0 <= R (ea_value m) <= BB;
  e_sf : fin (ea_sum m) = true; e_s : 0 <= R (ea_sum m) <= IZR (ea_count m) * BB;
  e_c : (0 <= ea_count m <= 10)%Z; e_w : ea_warmup m = 10%Z;
  e_ff : fin (ea_factor (ea_window m)) = true; e_f : f0 <= R (ea_factor (ea_window m)) <= 1 }.

Definition xs_ok (x : f64) : Prop := fin x = true /\ 0 <= R x <= XX.

Lemma ea_add_inv m x : EInv m -> xs_ok x -> EInv (ea_add m x).
Proof.
  intros [Vf Vb Sf Sb Cb Wm Ff Fb] [Fx Bx]. unfold ea_add. rewrite Wm.
  pose proof dd_small as [D0 D1]. pose proof u_pos as U0. pose proof u_small as U1.
  assert (BBv: BB = 9223372036854775808) by reflexivity. assert (XXv: XX = 4611686018427387904) by reflexivity.
  destruct (Z.ltb_spec (ea_count m) 10) as [Hc|Hc].
  - (* warm-up: sum and arithmetic mean *)
    set (c := (ea_count m + 1)%Z). assert (Hc1: (1 <= c <= 10)%Z) by (unfold c; lia).
    assert (Cr: 0 <= IZR (ea_count m) <= 9) by (split; [apply (IZR_le 0)|apply (IZR_le _ 9)]; lia).
    assert (Cc: IZR c = IZR (ea_count m) + 1) by (unfold c; rewrite plus_IZR; reflexivity).
    destruct (add_ok _ _ Sf Fx) as [Fs Es].
    { apply bpow1000_big. apply Rabs_le. assert (IZR (ea_count m) * BB <= 9 * BB) by (apply Rmult_le_compat_r; lra). lra. }
    assert (Bs: 0 <= R (add (ea_sum m) x) <= IZR c * BB).
    { rewrite Es. split; [apply rnd_nonneg; lra|].
      apply Rle_trans with (rnd (IZR c * BB)); [apply rnd_mono; rewrite Cc; lra|].
      rewrite rnd_id; [lra|]. rewrite BB_pow. apply fmt_scaled; lia. }
    destruct (of_int_exact c) as [Fc Ec]; [lia|].
    assert (Cp: 1 <= IZR c <= 10) by (split; [apply (IZR_le 1)|apply (IZR_le _ 10)]; lia).
    assert (Q: 0 <= R (add (ea_sum m) x) / IZR c <= BB).
    { split; [unfold Rdiv; apply Rmult_le_pos; [lra|apply Rlt_le, Rinv_0_lt_compat; lra]|].
      apply Rmult_le_reg_r with (IZR c); [lra|]. unfold Rdiv. rewrite Rmult_assoc, Rinv_l by lra. lra. }
    destruct (div_ok _ _ Fs Fc) as [Fd Ed]; [rewrite Ec; lra|rewrite Ec; apply bpow1000_big; apply Rabs_le; lra|]. rewrite Ec in Ed.
    constructor; cbn [ea_value ea_sum ea_count ea_window ea_warmup]; auto; try lia.
    + rewrite Ed. split; [apply rnd_nonneg; tauto|]. apply Rle_trans with (rnd BB); [apply rnd_mono; tauto|].
      rewrite rnd_id; [lra|rewrite BB_pow; apply fmt_bpow; lia].
  - (* exponential phase: value*(1-f) + x*f stays below 2^63 because x <= 2^62 *)
    assert (Hc10: ea_count m = 10%Z) by lia.
    set (f := ea_factor (ea_window m)) in *. destruct R_one as [Fo Eo].
    destruct (sub_ok one f Fo Ff) as [Fw Ew]; [rewrite Eo; apply bpow1000_big; apply Rabs_le; unfold f0 in Fb; split; lra|]. rewrite Eo in Ew.
    assert (F0: 0 < f0) by (unfold f0; lra). assert (Ff0: f0 = / 1099511627776) by reflexivity.
    assert (Wb: 0 <= R (sub one f) <= (1 - R f) * (1 + u) + dd).
    { rewrite Ew. split; [apply rnd_nonneg; lra|apply rnd_up; lra]. }
    assert (W1: R (sub one f) <= 1). { rewrite Ew. apply (rnd_le_int _ 1); [reflexivity|simpl; lra]. }
    destruct (mul_ok _ _ Vf Fw) as [Fa Ea].
    { apply bpow1000_big. apply Rabs_le. assert (0 <= R (ea_value m) * R (sub one f)) by (apply Rmult_le_pos; tauto).
      assert (R (ea_value m) * R (sub one f) <= BB * 1) by (apply Rmult_le_compat; tauto). lra. }
    destruct (mul_ok _ _ Fx Ff) as [Fb' Eb].
    { apply bpow1000_big. apply Rabs_le. assert (0 <= R x * R f) by (apply Rmult_le_pos; lra).
      assert (R x * R f <= XX * 1) by (apply Rmult_le_compat; lra). lra. }
    (* real bounds on the two products *)
    assert (P1: 0 <= R (ea_value m) * R (sub one f) <= BB * ((1 - R f) * (1 + u) + dd)).
    { split; [apply Rmult_le_pos; tauto|apply Rmult_le_compat; tauto]. }
    assert (P2: 0 <= R x * R f <= XX * R f).
    { split; [apply Rmult_le_pos; lra|apply Rmult_le_compat_r; lra]. }
    assert (A1: 0 <= R (mul (ea_value m) (sub one f)) <= R (ea_value m) * R (sub one f) * (1 + u) + dd).
    { rewrite Ea. split; [apply rnd_nonneg; tauto|apply rnd_up; tauto]. }
    assert (B1: 0 <= R (mul x f) <= R x * R f * (1 + u) + dd).
    { rewrite Eb. split; [apply rnd_nonneg; tauto|apply rnd_up; tauto]. }
    assert (A2: R (mul (ea_value m) (sub one f)) <= BB).
    { rewrite Ea. apply Rle_trans with (rnd BB); [apply rnd_mono|rewrite rnd_id; [lra|rewrite BB_pow; apply fmt_bpow; lia]].
      apply Rle_trans with (BB * 1); [apply Rmult_le_compat; tauto|lra]. }
    assert (B2: R (mul x f) <= XX).
    { rewrite Eb. apply Rle_trans with (rnd XX); [apply rnd_mono|rewrite rnd_id; [lra|change XX with (bpow radix2 62); apply fmt_bpow; lia]].
      apply Rle_trans with (XX * R f); [tauto|]. rewrite <- (Rmult_1_r XX) at 2. apply Rmult_le_compat_l; lra. }
    destruct (add_ok _ _ Fa Fb') as [Fn En]; [apply bpow1000_big; apply Rabs_le; lra|].
    constructor; cbn [ea_value ea_sum ea_count ea_window ea_warmup]; auto.
    rewrite En. split; [apply rnd_nonneg; lra|].
    apply Rle_trans with ((R (mul (ea_value m) (sub one f)) + R (mul x f)) * (1 + u) + dd); [apply rnd_up; lra|].
    (* everything is now a polynomial inequality in r = R f with numeric coefficients *)
    set (r := R f) in *.
    assert (T1: R (mul (ea_value m) (sub one f)) <= BB * ((1 - r) * (1 + u) + dd) * (1 + u) + dd).
    { apply Rle_trans with (1 := proj2 A1). apply Rplus_le_compat_r. apply Rmult_le_compat_r; [lra|tauto]. }
    assert (T2: R (mul x f) <= XX * r * (1 + u) + dd).
    { apply Rle_trans with (1 := proj2 B1). apply Rplus_le_compat_r. apply Rmult_le_compat_r; [lra|tauto]. }
    apply Rle_trans with ((BB * ((1 - r) * (1 + u) + dd) * (1 + u) + dd + (XX * r * (1 + u) + dd)) * (1 + u) + dd).
    { apply Rplus_le_compat_r. apply Rmult_le_compat_r; lra. }
    (* numeric: u = 2^-53, dd <= 1e-30, r in [2^-40, 1] *)
    unfold u in *. rewrite BBv, XXv in *. rewrite Ff0 in Fb. clear -Fb D0 D1.
    nra.
Qed.

Lemma ea_set_inv m v : EInv m -> fin v = true -> 0 <= R v <= BB -> EInv (ea_set m v).
Proof. intros [Vf Vb Sf Sb Cb Wm Ff Fb] Fv Bv. constructor; cbn [ea_value ea_sum ea_count ea_window ea_warmup ea_set]; auto. Qed.

(* the factor 2/(window+1) for window in [1, 2^40] *)
Lemma factor_ok w : (1 <= w <= 2^40)%Z -> fin (ea_factor w) = true /\ f0 <= R (ea_factor w) <= 1.
Proof.
  intros Hw. unfold ea_factor. destruct (of_int_exact (w + 1)) as [Fw Ew]; [lia|].
  assert (F2: fin two = true /\ R two = 2) by (apply (of_int_exact 2); reflexivity). destruct F2 as [F2 E2].
  assert (Wb: 2 <= IZR (w + 1) <= 1099511627777) by (split; [apply (IZR_le 2)|apply (IZR_le _ 1099511627777)]; lia).
  assert (Q: f0 <= 2 / IZR (w + 1) <= 1).
  { unfold f0. split.
    - apply Rmult_le_reg_r with (IZR (w + 1)); [lra|]. unfold Rdiv. rewrite Rmult_assoc, Rinv_l by lra.
      apply Rle_trans with (/ 1099511627776 * 1099511627777); [apply Rmult_le_compat_l; lra|lra].
    - apply Rmult_le_reg_r with (IZR (w + 1)); [lra|]. unfold Rdiv. rewrite Rmult_assoc, Rinv_l by lra. lra. }
  destruct (div_ok _ _ F2 Fw) as [Fd Ed]; [rewrite Ew; lra|rewrite E2, Ew; apply bpow1000_big; apply Rabs_le; unfold f0 in Q; split; lra|].
  rewrite E2, Ew in Ed. split; [exact Fd|]. rewrite Ed. split.
  - apply Rle_trans with (rnd f0); [|apply rnd_mono; tauto]. rewrite rnd_id; [lra|]. unfold f0.
    change (/ 1099511627776) with (bpow radix2 (-40)). apply fmt_bpow. lia.
  - apply (rnd_le_int _ 1); [reflexivity|simpl; tauto].
Qed.

Record g2cfg_ok (g : grad2) (Mx : Z) : Prop := {
  h_M : (1 <= Mx < 2^31)%Z; h_mm : (1 <= h_min g <= h_max g)%Z; h_mx : (h_max g <= Mx)%Z;
  h_sf : fin (h_s g) = true; h_sb : 0 <= R (h_s g) <= 1 }.
Definition G2Inv (g : grad2) (Mx : Z) : Prop :=
  g2cfg_ok g Mx /\ fin (h_est g) = true /\ IZR (h_min g) <= R (h_est g) <= IZR Mx /\ EInv (h_long g).

Theorem grad2_step_safe g Mx s : G2Inv g Mx -> gsample_ok s -> G2Inv (o_st (grad2_step g s)) Mx.
Proof.
  intros (C & Fe & Be & EI) [Hr Hi]. assert (C' := C). destruct C' as [cM cmm cmx csf csb].
  unfold grad2_step. cbv zeta.
  destruct (of_int_big (s_rtt s) Hr) as (Fx & Bx & Px). set (x := of_int (s_rtt s)) in *. rewrite big in Bx.
  assert (Xok: xs_ok x) by (split; [exact Fx|unfold XX; exact Bx]).
  pose proof (ea_add_inv _ _ EI Xok) as E1. set (l1 := ea_add (h_long g) x) in *.
  assert (E2: EInv (if fgt (div (ea_value l1) x) two then ea_set l1 (mul (ea_value l1) c09) else l1)).
  { destruct (fgt _ _); [|exact E1]. destruct R_c09 as [Fc Bc]. destruct E1 as [Vf Vb Sf Sb Cb Wm Ff Fb].
    destruct (mul_ok _ _ Vf Fc) as [Fm Em].
    { apply bpow1000_big. apply Rabs_le. assert (0 <= R (ea_value l1) * R c09) by (apply Rmult_le_pos; tauto).
      assert (R (ea_value l1) * R c09 <= BB * 1) by (apply Rmult_le_compat; tauto). unfold BB in *. lra. }
    apply ea_set_inv; [constructor; auto|exact Fm|]. rewrite Em. split; [apply rnd_nonneg; apply Rmult_le_pos; tauto|].
    apply Rle_trans with (rnd BB); [apply rnd_mono|rewrite rnd_id; [lra|rewrite BB_pow; apply fmt_bpow; lia]].
    apply Rle_trans with (BB * 1); [apply Rmult_le_compat; tauto|lra]. }
  set (l2 := if fgt (div (ea_value l1) x) two then ea_set l1 (mul (ea_value l1) c09) else l1) in *.
  destruct (flt (of_int (s_inflight s)) (div (h_est g) two)).
  { cbn [o_st mk h_est h_long]. split; [destruct C; constructor; assumption|]. cbn. auto. }
  cbn [o_st mk].
  (* gradient in [1/2, 1] *)
  assert (MB: 1 <= IZR Mx <= 2147483648) by (split; [apply (IZR_le 1)|apply (IZR_le _ 2147483648)]; lia).
  assert (P0: 0 <= R (h_est g)) by (assert (0 <= IZR (h_min g)) by (apply (IZR_le 0); lia); lra).
  destruct R_one as [Fo Eo]. destruct R_zero as [Fz Ez]. destruct R_half as [Fh Eh].
  assert (G: exists gr, (if fgt x zero then fmax half (fmin one (div (ea_value l1) x)) else one) = gr /\ fin gr = true /\ /2 <= R gr <= 1).
  { unfold fgt. rewrite (flt_R zero x Fz Fx), Ez. destruct (Rlt_bool_spec 0 (R x)) as [Hp|Hp].
    - eexists; split; [reflexivity|]. destruct E1 as [Vf Vb _ _ _ _ _ _].
      assert (X1: 1 <= R x). { apply Px. destruct (Z.eq_dec (s_rtt s) 0) as [Z0|Z0]; [|lia]. exfalso. unfold x in Hp. rewrite Z0 in Hp. change (of_int 0) with zero in Hp. lra. }
      assert (Q0: 0 <= R (ea_value l1) / R x <= BB).
      { split; [unfold Rdiv; apply Rmult_le_pos; [tauto|apply Rlt_le, Rinv_0_lt_compat; lra]|].
        apply Rmult_le_reg_r with (R x); [lra|]. unfold Rdiv. rewrite Rmult_assoc, Rinv_l by lra.
        apply Rle_trans with (BB * 1); [lra|]. apply Rmult_le_compat_l; [unfold BB; lra|lra]. }
      destruct (div_ok _ _ Vf Fx) as [Fd Ed]; [lra|apply bpow1000_big; apply Rabs_le; unfold BB in Q0; split; lra|].
      destruct (fmin_ok _ _ Fo Fd) as [F1 E1']. destruct (fmax_ok _ _ Fh F1) as [F2 E2']. split; [exact F2|].
      rewrite E2', E1', Eh, Eo. split; [apply Rmax_l|]. apply Rmax_lub; [lra|apply Rmin_l].
    - exists one. split; [reflexivity|]. split; [exact Fo|]. rewrite Eo. lra. }
  destruct G as (gr & Egr & Fgr & Bgr). rewrite Egr.
  destruct (of_int_exact 4) as [F4 E4]; [reflexivity|].
  destruct (mul_ok _ _ Fe Fgr) as [Fm Em].
  { apply bpow1000_big. apply Rabs_le. assert (0 <= R (h_est g) * R gr) by (apply Rmult_le_pos; lra).
    assert (R (h_est g) * R gr <= 2147483648 * 1) by (apply Rmult_le_compat; lra). split; lra. }
  assert (Bm: 0 <= R (mul (h_est g) gr) <= 2147483648).
  { rewrite Em. assert (0 <= R (h_est g) * R gr) by (apply Rmult_le_pos; lra).
    assert (R (h_est g) * R gr <= 2147483648 * 1) by (apply Rmult_le_compat; lra).
    split; [now apply rnd_nonneg|]. apply (rnd_le_int _ 2147483648); [reflexivity|lra]. }
  destruct (add_ok _ _ Fm F4) as [Fn En]; [rewrite E4; apply bpow1000_big; apply Rabs_le; simpl; split; lra|].
  assert (Bn: 0 <= R (add (mul (h_est g) gr) (of_int 4)) <= 2147483652).
  { rewrite En, E4. split; [apply rnd_nonneg; simpl; lra|]. apply (rnd_le_int _ 2147483652); [reflexivity|simpl; lra]. }
  destruct (sub_ok one (h_s g) Fo csf) as [Fw Ew]; [rewrite Eo; apply bpow1000_big; apply Rabs_le; split; lra|].
  assert (Bw: 0 <= R (sub one (h_s g)) <= 1).
  { rewrite Ew, Eo. split; [apply rnd_nonneg; lra|]. apply (rnd_le_int _ 1); [reflexivity|simpl; lra]. }
  destruct (mul_ok _ _ Fe Fw) as [Fa Ea].
  { apply bpow1000_big. apply Rabs_le. assert (0 <= R (h_est g) * R (sub one (h_s g))) by (apply Rmult_le_pos; tauto).
    assert (R (h_est g) * R (sub one (h_s g)) <= 2147483648 * 1) by (apply Rmult_le_compat; lra). split; lra. }
  assert (Ba: 0 <= R (mul (h_est g) (sub one (h_s g))) <= 2147483648).
  { rewrite Ea. assert (0 <= R (h_est g) * R (sub one (h_s g))) by (apply Rmult_le_pos; tauto).
    assert (R (h_est g) * R (sub one (h_s g)) <= 2147483648 * 1) by (apply Rmult_le_compat; lra).
    split; [now apply rnd_nonneg|]. apply (rnd_le_int _ 2147483648); [reflexivity|lra]. }
  destruct (mul_ok _ _ Fn csf) as [Fb Eb].
  { apply bpow1000_big. apply Rabs_le. assert (0 <= R (add (mul (h_est g) gr) (of_int 4)) * R (h_s g)) by (apply Rmult_le_pos; tauto).
    assert (R (add (mul (h_est g) gr) (of_int 4)) * R (h_s g) <= 2147483652 * 1) by (apply Rmult_le_compat; tauto). split; lra. }
  assert (Bb: 0 <= R (mul (add (mul (h_est g) gr) (of_int 4)) (h_s g)) <= 2147483652).
  { rewrite Eb. assert (0 <= R (add (mul (h_est g) gr) (of_int 4)) * R (h_s g)) by (apply Rmult_le_pos; tauto).
    assert (R (add (mul (h_est g) gr) (of_int 4)) * R (h_s g) <= 2147483652 * 1) by (apply Rmult_le_compat; tauto).
    split; [now apply rnd_nonneg|]. apply (rnd_le_int _ 2147483652); [reflexivity|lra]. }
  destruct (add_ok _ _ Fa Fb) as [Fc _]; [apply bpow1000_big; apply Rabs_le; split; lra|].
  destruct (of_int_exact (h_min g)) as [Fmn Emn]; [lia|]. destruct (of_int_exact (h_max g)) as [Fmx Emx]; [lia|].
  destruct (fmin_ok _ _ Fmx Fc) as [F1 E1']. destruct (fmax_ok _ _ Fmn F1) as [F2 E2'].
  split; [destruct C; constructor; assumption|]. cbn [h_est h_long h_min]. split; [exact F2|]. split; [|exact E2].
  rewrite E2', E1', Emn, Emx.
  assert (IZR (h_min g) <= IZR (h_max g)) by (apply IZR_le; lia). assert (IZR (h_max g) <= IZR Mx) by (apply IZR_le; lia).
  split; [apply Rmax_l|]. apply Rmax_lub; [lra|]. apply Rle_trans with (1 := Rmin_l _ _). lra.
Qed.

Theorem grad2_run_safe g Mx samples : G2Inv g Mx -> Forall gsample_ok samples ->
  let g' := fold_left (fun a s => o_st (grad2_step a s)) samples g in
  G2Inv g' Mx /\ (h_min g' <= grad2_est g' <= Mx)%Z.
Proof.
  intros HI HS. cbv zeta. revert g HI. induction HS as [|s l Hs Hl IH]; intros g HI; cbn [fold_left].
  - split; [exact HI|]. destruct HI as (C & Fe & Be & _). destruct C. unfold grad2_est. apply to_int_range2; auto; try lia; tauto.
  - apply IH. now apply grad2_step_safe.
Qed.

(* the state built by the constructor satisfies the invariant (window in [1, 2^40], min <= initial <= Mx, min <= max <= Mx) *)
Lemma grad2_init_inv initial maxc minl window smooth Mx :
  let g := grad2_init initial maxc minl window smooth in
  (1 <= Mx < 2^31)%Z -> (1 <= h_min g <= h_max g)%Z -> (h_max g <= Mx)%Z ->
  (h_min g <= (if (initial <=? 0)%Z then 4 else initial) <= Mx)%Z ->
  fin (h_s g) = true -> 0 <= R (h_s g) <= 1 -> (1 <= (if (window <? 0)%Z then 100 else window) <= 2^40)%Z -> G2Inv g Mx.
Proof.
  intros g HM H1 H2 H3 H4 H5 H6. split; [constructor; auto|].
  set (i := (if (initial <=? 0)%Z then 4 else initial)%Z) in *. destruct (of_int_exact i) as [A B]; [lia|].
  change (h_est g) with (of_int i). split; [exact A|]. rewrite B. split; [split; apply IZR_le; lia|].
  change (h_long g) with (ea_new (if (window <? 0)%Z then 100 else window) 10).
  destruct (factor_ok _ H6) as [Ff Fb]. destruct R_zero as [Fz Ez].
  constructor; cbn [ea_new ea_value ea_sum ea_count ea_window ea_warmup]; auto; try lia; rewrite ?Ez; unfold BB; simpl; lra.
Qed.
