(* C07 for Vegas with the default smoothing 1.0: from every state satisfying the safety invariant, a saturated drop-free sample
   whose RTT equals the no-load baseline (queue size 0) and that is not a probe step moves the estimate exactly to
   min(max, est + 6 x log10(est)) - in particular the reported estimate grows by at least 6, up to the ceiling. *)
From Coq Require Import ZArith Reals Lia Lra Psatz Bool List.
From Flocq Require Import Core BinarySingleNaN.
From GCL Require Import Base.F64 Base.F64Facts Proofs.Smooth Model.Measure Model.Limits Proofs.VegasSafe Proofs.AimdProofs Proofs.GradSafe Proofs.Grad2Safe Proofs.VegasDrop.
Import ListNotations.
Open Scope R_scope.

Lemma R0_is_zero x : fin x = true -> R x = 0 -> exists sg, x = B754_zero sg.
Proof.
  intros Fx Ex. destruct x as [sg|sg| |sg m e Hb]; try discriminate; [now exists sg|].
  exfalso. destruct sg; unfold R in Ex; cbn in Ex.
  - assert (F2R (Float radix2 (Z.neg m) e) < 0) by (apply F2R_lt_0; cbn; lia). lra.
  - assert (0 < F2R (Float radix2 (Z.pos m) e)) by (apply F2R_gt_0; cbn; lia). lra.
Qed.

Lemma to_int_ceil_zero x : fin x = true -> R x = 0 -> to_int (fceil x) = 0%Z.
Proof. intros Fx Ex. destruct (R0_is_zero x Fx Ex) as [sg ->]. destruct sg; reflexivity. Qed.

Definition vegas_healthy (v : vegas) (s : sample) : Prop :=
  (0 < s_rtt s < 2^53)%Z /\ fin (v_noload v) = true /\ R (v_noload v) = IZR (s_rtt s) /\
  vegas_should_probe v (v_pcount v + 1) = false /\ s_drop s = false /\
  flt (mul (of_int (s_inflight s)) two) (v_est v) = false.

Theorem vegas_recovers_s1 v M s o : VInv v M -> sample_ok s -> v_smooth v = one -> vegas_healthy v s ->
  vegas_step v s = Some o ->
  (Z.min (v_max v) (vegas_est v + 6) <= vegas_est (o_st o))%Z.
Proof.
  intros HI HS Hs1 (Hrt & Fnl & Enl & Hp & Hd & Hsat) H.
  pose proof (M_b v M HI) as MB. pose proof (est_int v M HI) as EI.
  destruct (log10i_ok v M s HI HS) as (l & El & Bl). pose proof (newl_addb v M HI l Bl) as Fnew.
  destruct (vegas_step_safe v M s HI HS) as (o' & E' & I'). rewrite H in E'. injection E' as <-. destruct I' as (_ & Fin & N1 & N2).
  destruct HI as (C & Fe & E1 & E2). destruct C as [cM cmax csf cs1 cs2].
  destruct (of_int_exact (s_rtt s)) as [Frt Ert]; [lia|].
  destruct R_one as [Fo Eo]. destruct R_zero as [Fz Ez].
  assert (P1: 1 <= IZR (s_rtt s)) by (apply (IZR_le 1); lia).
  revert H Fin N1 N2. unfold vegas_step. rewrite Hp.
  (* not a baseline update *)
  assert (B1: feq (v_noload v) zero || flt (of_int (s_rtt s)) (v_noload v) = false).
  { apply orb_false_iff. split.
    - destruct (v_noload v) as [sg|sg| |sg m e Hb] eqn:En; try discriminate.
      + exfalso. unfold R in Enl; cbn in Enl. lra.
      + destruct sg; reflexivity.
    - rewrite (flt_R _ _ Frt Fnl). destruct (Rlt_bool_spec (R (of_int (s_rtt s))) (R (v_noload v))); [lra|reflexivity]. }
  rewrite B1. unfold vegas_update. rewrite Hd, Hsat, El.
  (* queue size 0 *)
  destruct (div_ok _ _ Fnl Frt) as [Fd Ed]; [lra|rewrite Enl, Ert; unfold Rdiv; rewrite Rinv_r by lra; apply bpow1000_big; apply Rabs_le; split; lra|].
  rewrite Enl, Ert in Ed. unfold Rdiv in Ed. rewrite Rinv_r, rnd_1 in Ed by lra.
  destruct (sub_ok one _ Fo Fd) as [Fw Ew]; [rewrite Eo, Ed; apply bpow1000_big; apply Rabs_le; split; lra|].
  rewrite Eo, Ed in Ew. replace (1 - 1) with 0 in Ew by ring. rewrite rnd_0 in Ew.
  destruct (mul_ok _ _ Fe Fw) as [Fq Eq]; [rewrite Ew, Rmult_0_r; apply bpow1000_big; apply Rabs_le; split; lra|].
  rewrite Ew, Rmult_0_r, rnd_0 in Eq.
  assert (Q0: vegas_queue v (s_rtt s) = 0%Z) by (unfold vegas_queue; now apply to_int_ceil_zero).
  rewrite Q0. destruct (Z.ltb_spec 0 l) as [_|]; [|lia].
  (* smoothing 1.0: the new estimate is the clamp itself *)
  intros H Fin N1 N2; injection H as H; subst o. cbn [o_st mk vegas_set v_est] in *. unfold vegas_est. cbn [vegas_set v_est].
  destruct (of_int_exact (6 * l)) as [Fb Eb]; [lia|].
  assert (B6: 6 <= IZR (6 * l) <= 2400) by (split; [apply (IZR_le 6)|apply (IZR_le _ 2400)]; lia).
  destruct (add_ok _ _ Fe Fb) as [_ Ea]; [rewrite Eb; apply bpow1000_big; apply Rabs_le; split; lra|]. rewrite Eb in Ea.
  destruct (of_int_exact (v_max v)) as [Fm Em]; [lia|].
  destruct (fmin_ok _ _ Fm Fnew) as [F1 R1]. destruct (fmax_ok _ _ Fo F1) as [F2 R2].
  set (c := fmax one (fmin (of_int (v_max v)) (add (v_est v) (of_int (6 * l))))) in *.
  rewrite Hs1 in *.
  destruct (sub_ok one one Fo Fo) as [Fw1 Ew1]; [rewrite Eo; apply bpow1000_big; apply Rabs_le; split; lra|].
  rewrite Eo in Ew1. replace (1 - 1) with 0 in Ew1 by ring. rewrite rnd_0 in Ew1.
  destruct (mul_ok _ _ Fw1 Fe) as [Fa1 Ea1]; [rewrite Ew1, Rmult_0_l; apply bpow1000_big; apply Rabs_le; split; lra|].
  rewrite Ew1, Rmult_0_l, rnd_0 in Ea1.
  assert (C1: 1 <= R c <= 2147483648).
  { rewrite R2, R1, Eo, Em. split; [apply Rmax_l|]. apply Rmax_lub; [lra|]. apply Rle_trans with (1 := Rmin_l _ _).
    apply Rle_trans with (IZR M); [apply IZR_le; lia|lra]. }
  destruct (mul_ok _ _ Fo F2) as [Fb1 Eb1]; [rewrite Eo, Rmult_1_l; apply bpow1000_big; apply Rabs_le; split; lra|].
  rewrite Eo, Rmult_1_l, rnd_id in Eb1 by apply fmt_R.
  destruct (add_ok _ _ Fa1 Fb1) as [Fn En]; [rewrite Ea1, Eb1, Rplus_0_l; apply bpow1000_big; apply Rabs_le; split; lra|].
  rewrite Ea1, Eb1, Rplus_0_l, rnd_id in En by apply fmt_R.
  (* lower bound of the clamp *)
  assert (E0: 0 <= R (v_est v) <= 4611686018427387904) by lra.
  assert (Fl: IZR (to_int (v_est v) + 6) <= R (add (v_est v) (of_int (6 * l)))).
  { rewrite Ea. apply rnd_ge_int; [lia|]. rewrite plus_IZR. rewrite (to_int_floor _ Fe E0). pose proof (Zfloor_lb (R (v_est v))). lra. }
  assert (L: IZR (Z.min (v_max v) (to_int (v_est v) + 6)) <= R (add (mul (sub one one) (v_est v)) (mul one c))).
  { rewrite En, R2, R1, Em. apply Rle_trans with (2 := Rmax_r _ _). apply Rmin_glb.
    - apply IZR_le. lia.
    - apply Rle_trans with (2 := Fl). apply IZR_le. lia. }
  assert (T: (Z.min (v_max v) (to_int (v_est v) + 6) <= to_int (add (mul (sub one one) (v_est v)) (mul one c)) <= M)%Z).
  { apply to_int_range; auto; try lia. }
  exact (proj1 T).
Qed.

(* ---- sustained healthy runs (no probe step in between) ---- *)
Fixpoint vegas_run_noprobe (v : vegas) (l : list sample) : option vegas :=
  match l with
  | nil => Some v
  | s :: r => match vegas_step v s with
              | Some o => if (o_branch o =? 1)%Z then None else vegas_run_noprobe (o_st o) r
              | None => None end
  end.

Lemma vegas_noprobe v s o : vegas_step v s = Some o -> o_branch o <> 1%Z -> vegas_should_probe v (v_pcount v + 1) = false.
Proof.
  unfold vegas_step. destruct (vegas_should_probe v (v_pcount v + 1)); [|reflexivity].
  intros H Hb; injection H as H; subst o. cbn [o_branch mk] in Hb. congruence.
Qed.

Lemma vegas_step_fields v s o : vegas_step v s = Some o ->
  v_smooth (o_st o) = v_smooth v /\ v_max (o_st o) = v_max v /\
  (vegas_should_probe v (v_pcount v + 1) = false -> feq (v_noload v) zero || flt (of_int (s_rtt s)) (v_noload v) = false ->
   v_noload (o_st o) = v_noload v).
Proof.
  unfold vegas_step, vegas_update. destruct (vegas_should_probe v (v_pcount v + 1)).
  { intros H; injection H as H; subst o. repeat split; auto. discriminate. }
  destruct (feq (v_noload v) zero || flt (of_int (s_rtt s)) (v_noload v)).
  { intros H; injection H as H; subst o. repeat split; auto. discriminate. }
  destruct (log10f _ _); cbn [option_map]; destruct (log10i _ _);
  repeat match goal with |- context [if ?c then _ else _] => destruct c end; intros H; try discriminate; injection H as H; subst o;
    cbn [o_st mk vegas_set v_smooth v_max v_noload]; repeat split; auto.
Qed.

Definition vhealthy_sample (M r : Z) (s : sample) : Prop :=
  sample_ok s /\ s_rtt s = r /\ s_drop s = false /\ (M <= s_inflight s)%Z.

Lemma vsaturated v M s : VInv v M -> sample_ok s -> (M <= s_inflight s)%Z -> flt (mul (of_int (s_inflight s)) two) (v_est v) = false.
Proof.
  intros HI HS Hi. pose proof (M_b v M HI) as MB. destruct HI as (C & Fe & E1 & E2). destruct C as [cM cmax csf cs1 cs2]. destruct HS.
  destruct (of_int_exact (s_inflight s)) as [Fi Ei]; [lia|].
  assert (Ftwo: fin two = true /\ R two = 2) by (apply (of_int_exact 2); reflexivity). destruct Ftwo as [F2 T2].
  assert (Bi: IZR M <= IZR (s_inflight s) <= 2147483648) by (split; [apply IZR_le; lia|apply (IZR_le _ 2147483648); lia]).
  destruct (mul_ok _ _ Fi F2) as [Fm Em]; [rewrite Ei, T2; apply bpow1000_big; apply Rabs_le; split; lra|]. rewrite Ei, T2 in Em.
  rewrite (flt_R _ _ Fm Fe). destruct (Rlt_bool_spec (R (mul (of_int (s_inflight s)) two)) (R (v_est v))) as [Hlt|]; [|reflexivity].
  exfalso. assert (IZR (2 * M) <= R (mul (of_int (s_inflight s)) two)).
  { rewrite Em. apply rnd_ge_int; [lia|]. rewrite mult_IZR. simpl. lra. }
  rewrite mult_IZR in H. simpl in H. lra.
Qed.

Theorem vegas_recovery_run_s1 M r : forall ss v v', VInv v M -> v_smooth v = one ->
  (0 < r < 2^53)%Z -> fin (v_noload v) = true -> R (v_noload v) = IZR r ->
  Forall (vhealthy_sample M r) ss -> vegas_run_noprobe v ss = Some v' ->
  (Z.min (v_max v) (vegas_est v + 6 * Z.of_nat (length ss)) <= vegas_est v')%Z.
Proof.
  induction ss as [|s l IH]; intros v v' HI Hs1 Hr Fnl Enl HL E; cbn [vegas_run_noprobe] in E.
  - injection E as <-. cbn [length]. lia.
  - inversion HL as [|? ? (HS & Er & Hd & Hi) Hl]; subst.
    destruct (vegas_step_safe v M s HI HS) as (o & Eo & Io). rewrite Eo in E.
    destruct (Z.eqb_spec (o_branch o) 1) as [|Hb]; [discriminate|].
    pose proof (vegas_noprobe v s o Eo Hb) as Hp.
    assert (HH: vegas_healthy v s) by (repeat split; auto; try lia; apply (vsaturated v M s HI HS Hi)).
    pose proof (vegas_recovers_s1 v M s o HI HS Hs1 HH Eo) as Step.
    destruct (vegas_step_fields v s o Eo) as (Es & Em & En).
    destruct (of_int_exact (s_rtt s)) as [Frt Ert]; [lia|].
    assert (B1: feq (v_noload v) zero || flt (of_int (s_rtt s)) (v_noload v) = false).
    { apply orb_false_iff. split.
      - destruct (v_noload v) as [sg|sg| |sg m e Hb'] eqn:En'; try discriminate.
        + exfalso. unfold R in Enl; cbn in Enl. assert (1 <= IZR (s_rtt s)) by (apply (IZR_le 1); lia). lra.
        + destruct sg; reflexivity.
      - rewrite (flt_R _ _ Frt Fnl). destruct (Rlt_bool_spec (R (of_int (s_rtt s))) (R (v_noload v))); [lra|reflexivity]. }
    specialize (En Hp B1). specialize (IH (o_st o) v' Io). rewrite Es, Em, En in IH.
    specialize (IH Hs1 Hr Fnl Enl Hl E). cbn [length]. rewrite Nat2Z.inj_succ. lia.
Qed.
