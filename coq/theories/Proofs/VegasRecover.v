(* C07 for Vegas with the default smoothing 1.0: from every state satisfying the safety invariant, a saturated drop-free sample
   whose RTT equals the no-load baseline (queue size 0) and that is not a probe step moves the estimate exactly to
   min(max, est + 6 x log10(est)) - in particular the reported estimate grows by at least 6, up to the ceiling. *)
From Coq Require Import ZArith Reals Lia Lra Psatz Bool List.
From Flocq Require Import Core BinarySingleNaN.
From GCL Require Import Base.F64 Base.F64Facts Proofs.Smooth Model.Measure Model.Limits Proofs.VegasSafe Proofs.AimdProofs Proofs.GradSafe Proofs.Grad2Safe Proofs.VegasDrop.
Import ListNotations.
Open Scope R_scope.

Lemma R0_is_zero x : fin x = true -> R x = 0 -> exists sg, x = B754_zero sg.
Proof.
  intros Fx Ex. destruct x as [sg|sg| |sg m e Hb]; try discriminate; [now exists sg|].
  exfalso. destruct sg; unfold R in Ex; cbn in Ex.
  - assert (F2R (Float radix2 (Z.neg m) e) < 0) by (apply F2R_lt_0; cbn; lia). lra.
  - assert (0 < F2R (Float radix2 (Z.pos m) e)) by (apply F2R_gt_0; cbn; lia). lra.
Qed.

Lemma to_int_ceil_zero x : fin x = true -> R x = 0 -> to_int (fceil x) = 0%Z.
Proof. intros Fx Ex. destruct (R0_is_zero x Fx Ex) as [sg ->]. destruct sg; reflexivity. Qed.

Definition vegas_healthy (v : vegas) (s : sample) : Prop :=
  (0 < s_rtt s < 2^53)%Z /\ fin (v_noload v) = true /\ R (v_noload v) = IZR (s_rtt s) /\
  vegas_should_probe v (v_pcount v + 1) = false /\ s_drop s = false /\
  flt (mul (of_int (s_inflight s)) two) (v_est v) = false.

Theorem vegas_recovers_s1 v M s o : VInv v M -> sample_ok s -> v_smooth v = one -> vegas_healthy v s ->
  vegas_step v s = Some o ->
  (Z.min (v_max v) (vegas_est v + 6) <= vegas_est (o_st o))%Z.
Proof.
  intros HI HS Hs1 (Hrt & Fnl & Enl & Hp & Hd & Hsat) H.
  pose proof (M_b v M HI) as MB. pose proof (est_int v M HI) as EI.
  destruct (log10i_ok v M s HI HS) as (l & El & Bl). pose proof (newl_addb v M HI l Bl) as Fnew.
  destruct (vegas_step_safe v M s HI HS) as (o' & E' & I'). rewrite H in E'. injection E' as <-. destruct I' as (_ & Fin & N1 & N2).
  destruct HI as (C & Fe & E1 & E2). destruct C as [cM cmax csf cs1 cs2].
  destruct (of_int_exact (s_rtt s)) as [Frt Ert]; [lia|].
  destruct R_one as [Fo Eo]. destruct R_zero as [Fz Ez].
  assert (P1: 1 <= IZR (s_rtt s)) by (apply (IZR_le 1); lia).
  revert H Fin N1 N2. unfold vegas_step. rewrite Hp.
  (* not a baseline update *)
  assert (B1: feq (v_noload v) zero || flt (of_int (s_rtt s)) (v_noload v) = false).
  { apply orb_false_iff. split.
    - destruct (v_noload v) as [sg|sg| |sg m e Hb] eqn:En; try discriminate.
      + exfalso. unfold R in Enl; cbn in Enl. lra.
      + destruct sg; reflexivity.
    - rewrite (flt_R _ _ Frt Fnl). destruct (Rlt_bool_spec (R (of_int (s_rtt s))) (R (v_noload v))); [lra|reflexivity]. }
  rewrite B1. unfold vegas_update. rewrite Hd, Hsat, El.
  (* queue size 0 *)
  destruct (div_ok _ _ Fnl Frt) as [Fd Ed]; [lra|rewrite Enl, Ert; unfold Rdiv; rewrite Rinv_r by lra; apply bpow1000_big; apply Rabs_le; split; lra|].
  rewrite Enl, Ert in Ed. unfold Rdiv in Ed. rewrite Rinv_r, rnd_1 in Ed by lra.
  destruct (sub_ok one _ Fo Fd) as [Fw Ew]; [rewrite Eo, Ed; apply bpow1000_big; apply Rabs_le; split; lra|].
  rewrite Eo, Ed in Ew. replace (1 - 1) with 0 in Ew by ring. rewrite rnd_0 in Ew.
  destruct (mul_ok _ _ Fe Fw) as [Fq Eq]; [rewrite Ew, Rmult_0_r; apply bpow1000_big; apply Rabs_le; split; lra|].
  rewrite Ew, Rmult_0_r, rnd_0 in Eq.
  assert (Q0: vegas_queue v (s_rtt s) = 0%Z) by (unfold vegas_queue; now apply to_int_ceil_zero).
  rewrite Q0. destruct (Z.ltb_spec 0 l) as [_|]; [|lia].
  (* smoothing 1.0: the new estimate is the clamp itself *)
  intros H Fin N1 N2; injection H as H; subst o. cbn [o_st mk vegas_set v_est] in *. unfold vegas_est. cbn [vegas_set v_est].
  destruct (of_int_exact (6 * l)) as [Fb Eb]; [lia|].
  assert (B6: 6 <= IZR (6 * l) <= 2400) by (split; [apply (IZR_le 6)|apply (IZR_le _ 2400)]; lia).
  destruct (add_ok _ _ Fe Fb) as [_ Ea]; [rewrite Eb; apply bpow1000_big; apply Rabs_le; split; lra|]. rewrite Eb in Ea.
  destruct (of_int_exact (v_max v)) as [Fm Em]; [lia|].
  destruct (fmin_ok _ _ Fm Fnew) as [F1 R1]. destruct (fmax_ok _ _ Fo F1) as [F2 R2].
  set (c := fmax one (fmin (of_int (v_max v)) (add (v_est v) (of_int (6 * l))))) in *.
  rewrite Hs1 in *.
  destruct (sub_ok one one Fo Fo) as [Fw1 Ew1]; [rewrite Eo; apply bpow1000_big; apply Rabs_le; split; lra|].
  rewrite Eo in Ew1. replace (1 - 1) with 0 in Ew1 by ring. rewrite rnd_0 in Ew1.
  destruct (mul_ok _ _ Fw1 Fe) as [Fa1 Ea1]; [rewrite Ew1, Rmult_0_l; apply bpow1000_big; apply Rabs_le; split; lra|].
  rewrite Ew1, Rmult_0_l, rnd_0 in Ea1.
  assert (C1: 1 <= R c <= 2147483648).
  { rewrite R2, R1, Eo, Em. split; [apply Rmax_l|]. apply Rmax_lub; [lra|]. apply Rle_trans with (1 := Rmin_l _ _).
    apply Rle_trans with (IZR M); [apply IZR_le; lia|lra]. }
  destruct (mul_ok _ _ Fo F2) as [Fb1 Eb1]; [rewrite Eo, Rmult_1_l; apply bpow1000_big; apply Rabs_le; split; lra|].
  rewrite Eo, Rmult_1_l, rnd_id in Eb1 by apply fmt_R.
  destruct (add_ok _ _ Fa1 Fb1) as [Fn En]; [rewrite Ea1, Eb1, Rplus_0_l; apply bpow1000_big; apply Rabs_le; split; lra|].
  rewrite Ea1, Eb1, Rplus_0_l, rnd_id in En by apply fmt_R.
  (* lower bound of the clamp *)
  assert (E0: 0 <= R (v_est v) <= 4611686018427387904) by lra.
  assert (Fl: IZR (to_int (v_est v) + 6) <= R (add (v_est v) (of_int (6 * l)))).
  { rewrite Ea. apply rnd_ge_int; [lia|]. rewrite plus_IZR. rewrite (to_int_floor _ Fe E0). pose proof (Zfloor_lb (R (v_est v))). lra. }
  assert (L: IZR (Z.min (v_max v) (to_int (v_est v) + 6)) <= R (add (mul (sub one one) (v_est v)) (mul one c))).
  { rewrite En, R2, R1, Em. apply Rle_trans with (2 := Rmax_r _ _). apply Rmin_glb.
    - apply IZR_le. lia.
    - apply Rle_trans with (2 := Fl). apply IZR_le. lia. }
  assert (T: (Z.min (v_max v) (to_int (v_est v) + 6) <= to_int (add (mul (sub one one) (v_est v)) (mul one c)) <= M)%Z).
  { apply to_int_range; auto; try lia. }
  exact (proj1 T).
Qed.

(* ---- sustained healthy runs (no probe step in between) ---- *)
Fixpoint vegas_run_noprobe (v : vegas) (l : list sample) : option vegas :=
  match l with
  | nil => Some v
  | s :: r => match vegas_step v s with
              | Some o => if (o_branch o =? 1)%Z then None else vegas_run_noprobe (o_st o) r
              | None => None end
  end.

Lemma vegas_noprobe v s o : vegas_step v s = Some o -> o_branch o <> 1%Z -> vegas_should_probe v (v_pcount v + 1) = false.
Proof.
  unfold vegas_step. destruct (vegas_should_probe v (v_pcount v + 1)); [|reflexivity].
  intros H Hb; injection H as H; subst o. cbn [o_branch mk] in Hb. congruence.
Qed.

Lemma vegas_step_fields v s o : vegas_step v s = Some o ->
  v_smooth (o_st o) = v_smooth v /\ v_max (o_st o) = v_max v /\
  (vegas_should_probe v (v_pcount v + 1) = false -> feq (v_noload v) zero || flt (of_int (s_rtt s)) (v_noload v) = false ->
   v_noload (o_st o) = v_noload v).
Proof.
  unfold vegas_step, vegas_update. destruct (vegas_should_probe v (v_pcount v + 1)).
  { intros H; injection H as H; subst o. repeat split; auto. discriminate. }
  destruct (feq (v_noload v) zero || flt (of_int (s_rtt s)) (v_noload v)).
  { intros H; injection H as H; subst o. repeat split; auto. discriminate. }
  destruct (log10f _ _); cbn [option_map]; destruct (log10i _ _);
  repeat match goal with |- context [if ?c then _ else _] => destruct c end; intros H; try discriminate; injection H as H; subst o;
    cbn [o_st mk vegas_set v_smooth v_max v_noload]; repeat split; auto.
Qed.

Definition vhealthy_sample (M r : Z) (s : sample) : Prop :=
  sample_ok s /\ s_rtt s = r /\ s_drop s = false /\ (M <= s_inflight s)%Z.

Lemma vsaturated v M s : VInv v M -> sample_ok s -> (M <= s_inflight s)%Z -> flt (mul (of_int (s_inflight s)) two) (v_est v) = false.
Proof.
  intros HI HS Hi. pose proof (M_b v M HI) as MB. destruct HI as (C & Fe & E1 & E2). destruct C as [cM cmax csf cs1 cs2]. destruct HS.
  destruct (of_int_exact (s_inflight s)) as [Fi Ei]; [lia|].
  assert (Ftwo: fin two = true /\ R two = 2) by (apply (of_int_exact 2); reflexivity). destruct Ftwo as [F2 T2].
  assert (Bi: IZR M <= IZR (s_inflight s) <= 2147483648) by (split; [apply IZR_le; lia|apply (IZR_le _ 2147483648); lia]).
  destruct (mul_ok _ _ Fi F2) as [Fm Em]; [rewrite Ei, T2; apply bpow1000_big; apply Rabs_le; split; lra|]. rewrite Ei, T2 in Em.
  rewrite (flt_R _ _ Fm Fe). destruct (Rlt_bool_spec (R (mul (of_int (s_inflight s)) two)) (R (v_est v))) as [Hlt|]; [|reflexivity].
  exfalso. assert (IZR (2 * M) <= R (mul (of_int (s_inflight s)) two)).
  { rewrite Em. apply rnd_ge_int; [lia|]. rewrite mult_IZR. simpl. lra. }
  rewrite mult_IZR in H. simpl in H. lra.
Qed.

Theorem vegas_recovery_run_s1 M r : forall ss v v', VInv v M -> v_smooth v = one ->
  (0 < r < 2^53)%Z -> fin (v_noload v) = true -> R (v_noload v) = IZR r ->
  Forall (vhealthy_sample M r) ss -> vegas_run_noprobe v ss = Some v' ->
  (Z.min (v_max v) (vegas_est v + 6 * Z.of_nat (length ss)) <= vegas_est v')%Z.
Proof.
  induction ss as [|s l IH]; intros v v' HI Hs1 Hr Fnl Enl HL E; cbn [vegas_run_noprobe] in E.
  - injection E as <-. cbn [length]. lia.
  - inversion HL as [|? ? (HS & Er & Hd & Hi) Hl]; subst.
    destruct (vegas_step_safe v M s HI HS) as (o & Eo & Io). rewrite Eo in E.
    destruct (Z.eqb_spec (o_branch o) 1) as [|Hb]; [discriminate|].
    pose proof (vegas_noprobe v s o Eo Hb) as Hp.
    assert (HH: vegas_healthy v s) by (repeat split; auto; try lia; apply (vsaturated v M s HI HS Hi)).
    pose proof (vegas_recovers_s1 v M s o HI HS Hs1 HH Eo) as Step.
    destruct (vegas_step_fields v s o Eo) as (Es & Em & En).
    destruct (of_int_exact (s_rtt s)) as [Frt Ert]; [lia|].
    assert (B1: feq (v_noload v) zero || flt (of_int (s_rtt s)) (v_noload v) = false).
    { apply orb_false_iff. split.
      - destruct (v_noload v) as [sg|sg| |sg m e Hb'] eqn:En'; try discriminate.
        + exfalso. unfold R in Enl; cbn in Enl. assert (1 <= IZR (s_rtt s)) by (apply (IZR_le 1); lia). lra.
        + destruct sg; reflexivity.
      - rewrite (flt_R _ _ Frt Fnl). destruct (Rlt_bool_spec (R (of_int (s_rtt s))) (R (v_noload v))); [lra|reflexivity]. }
    specialize (En Hp B1). specialize (IH (o_st o) v' Io). rewrite Es, Em, En in IH.
    specialize (IH Hs1 Hr Fnl Enl Hl E). cbn [length]. rewrite Nat2Z.inj_succ. lia.
Qed.

(* ================= any smoothing: recovery to within one of the ceiling ================= *)
Lemma rnd_dn y : 0 <= y -> y * (1 - u) - dd <= rnd y.
Proof.
  intros Hy. pose proof dd_small as [D0 _]. pose proof u_pos. destruct (Rle_dec dd y) as [H1|H1].
  - generalize (rnd_rel y). rewrite (Rabs_pos_eq y) by lra. intros G. specialize (G H1). apply Rabs_le_inv in G. lra.
  - apply Rle_trans with 0; [|apply rnd_nonneg; lra]. assert (y * (1 - u) <= y) by (unfold u in *; nra). lra.
Qed.

Section ChainLow.
Variables (s est c : f64) (cb : Rdefinitions.R).
Hypothesis Hs : fin s = true.
Hypothesis He : fin est = true.
Hypothesis Hc : fin c = true.
Hypothesis Hs0 : 0 <= R s <= 1.
Hypothesis He1 : 1 <= R est <= 4294967296.
Hypothesis Hc1 : 0 <= cb <= R c.
Hypothesis Hcb : R c <= 4294967296.

Lemma smooth_lower :
  ((R est*((1-R s)*(1-u)-dd)*(1-u)-dd) + (R s*cb*(1-u)-dd))*(1-u)-dd <= R (add (mul (sub one s) est) (mul s c)).
Proof.
  destruct R_one as [Fo Eo]. pose proof dd_small as [D0 D1]. pose proof u_pos as U0. assert (U1: u <= /2) by (unfold u; lra).
  destruct (sub_ok one s Fo Hs) as [Fw Ew]; [rewrite Eo; apply bpow1000_big; apply Rabs_le; split; lra|]. rewrite Eo in Ew.
  assert (Bw: (1 - R s) * (1 - u) - dd <= R (sub one s) /\ 0 <= R (sub one s)) by (rewrite Ew; split; [apply rnd_dn; lra|apply rnd_nonneg; lra]).
  assert (W1: R (sub one s) <= 1) by (rewrite Ew; apply (rnd_le_int _ 1); [reflexivity|simpl; lra]).
  destruct (mul_ok _ _ Fw He) as [Fa Ea].
  { apply bpow1000_big. apply Rabs_le. assert (0 <= R (sub one s) * R est) by (apply Rmult_le_pos; lra).
    assert (R (sub one s) * R est <= 1 * 4294967296) by (apply Rmult_le_compat; lra). split; lra. }
  destruct (mul_ok _ _ Hs Hc) as [Fb Eb].
  { apply bpow1000_big. apply Rabs_le. assert (0 <= R s * R c) by (apply Rmult_le_pos; lra).
    assert (R s * R c <= 1 * 4294967296) by (apply Rmult_le_compat; lra). split; lra. }
  assert (P1: 0 <= R (sub one s) * R est) by (apply Rmult_le_pos; lra).
  assert (P2: 0 <= R s * R c) by (apply Rmult_le_pos; lra).
  assert (A1: R est * ((1 - R s) * (1 - u) - dd) * (1 - u) - dd <= R (mul (sub one s) est) /\ 0 <= R (mul (sub one s) est)).
  { rewrite Ea. split; [|now apply rnd_nonneg]. apply Rle_trans with (2 := rnd_dn _ P1). apply Rplus_le_compat_r. apply Rmult_le_compat_r; [lra|].
    rewrite (Rmult_comm (R (sub one s))). apply Rmult_le_compat_l; lra. }
  assert (B1: R s * cb * (1 - u) - dd <= R (mul s c) /\ 0 <= R (mul s c)).
  { rewrite Eb. split; [|now apply rnd_nonneg]. apply Rle_trans with (2 := rnd_dn _ P2). apply Rplus_le_compat_r. apply Rmult_le_compat_r; [lra|].
    apply Rmult_le_compat_l; lra. }
  assert (A2: R (mul (sub one s) est) <= 4294967296).
  { rewrite Ea. apply (rnd_le_int _ 4294967296); [reflexivity|]. apply Rle_trans with (1 * 4294967296); [apply Rmult_le_compat; lra|simpl; lra]. }
  assert (B2: R (mul s c) <= 4294967296).
  { rewrite Eb. apply (rnd_le_int _ 4294967296); [reflexivity|]. apply Rle_trans with (1 * 4294967296); [apply Rmult_le_compat; lra|simpl; lra]. }
  destruct (add_ok _ _ Fa Fb) as [Fc Ec]; [apply bpow1000_big; apply Rabs_le; split; lra|].
  rewrite Ec. apply Rle_trans with ((R (mul (sub one s) est) + R (mul s c)) * (1 - u) - dd); [|apply rnd_dn; lra].
  apply Rplus_le_compat_r. apply Rmult_le_compat_r; lra.
Qed.
End ChainLow.

Lemma vrec_ineq e s cb m T d : 1 <= e <= m + /2 -> 0 <= cb <= m + 6 -> 20 <= m <= 2147483648 -> 8 * u * m <= s <= 1 ->
  T + s <= e * (1 - s) + s * cb -> 0 < d <= / 1000000000000000000000000000000 ->
  T + s / 2 <= ((e*((1-s)*(1-u)-d)*(1-u)-d) + (s*cb*(1-u)-d))*(1-u)-d.
Proof.
  intros He Hc Hm Hs HV Hd. pose proof u_pos as U0. set (k := 1 - u) in *.
  assert (K1: /2 <= k <= 1) by (unfold k, u; lra).
  assert (K3: 1 - 3 * u <= k*k*k) by (unfold k, u; nra).
  replace (((e*((1-s)*k-d)*k-d) + (s*cb*k-d))*k-d)
    with (e*(1-s)*(k*k*k) + s*cb*(k*k) - (e*(d*(k*k)) + d*k + d*k + d)) by ring.
  assert (S0: 0 <= s) by (assert (0 <= u * m) by (apply Rmult_le_pos; lra); lra).
  assert (Q1: s*cb*(k*k*k) <= s*cb*(k*k)).
  { apply Rmult_le_compat_l; [apply Rmult_le_pos; lra|]. assert (0 <= k*k) by nra. nra. }
  set (V := e*(1-s) + s*cb) in *.
  assert (Q2: e*(1-s)*(k*k*k) + s*cb*(k*k*k) = V*(k*k*k)) by (unfold V; ring).
  assert (V0: 0 <= V <= m + 13/2).
  { unfold V. split; [assert (0 <= e*(1-s)) by (apply Rmult_le_pos; lra); assert (0 <= s*cb) by (apply Rmult_le_pos; lra); lra|].
    assert (e*(1-s) <= (m + 13/2)*(1-s)) by (apply Rmult_le_compat_r; lra). assert (s*cb <= s*(m + 13/2)) by (apply Rmult_le_compat_l; lra). lra. }
  assert (Q3: V*(1 - 3*u) <= V*(k*k*k)) by (apply Rmult_le_compat_l; lra).
  assert (Q4: V*(3*u) <= (m + 13/2)*(3*u)) by (apply Rmult_le_compat_r; lra).
  assert (Q5: (m + 13/2)*(3*u) <= 4*(u*m) - u/2) by nra.
  assert (Q6: d*(k*k) <= d) by (assert (k*k <= 1) by nra; nra).
  assert (Q7: e*(d*(k*k)) <= 2147483649 * d) by (apply Rmult_le_compat; nra).
  assert (Q8: d*k <= d) by nra.
  assert (Q9: 2147483649 * d + 3 * d <= u/2) by (unfold u; lra).
  lra.
Qed.

Theorem vegas_recovers v M s o : VInv v M -> (20 <= M)%Z -> sample_ok s -> vegas_healthy v s ->
  vegas_step v s = Some o ->
  Rmin (R (v_est v)) (IZR (v_max v) - 1) + R (v_smooth v) / 2 <= R (v_est (o_st o)).
Proof.
  intros HI M20 HS (Hrt & Fnl & Enl & Hp & Hd & Hsat) H.
  pose proof (M_b v M HI) as MB.
  destruct (log10i_ok v M s HI HS) as (l & El & Bl). pose proof (newl_addb v M HI l Bl) as Fnew.
  destruct HI as (C & Fe & E1 & E2). destruct C as [cM cmax csf cs1 cs2].
  destruct (of_int_exact (s_rtt s)) as [Frt Ert]; [lia|].
  destruct R_one as [Fo Eo]. destruct R_zero as [Fz Ez].
  assert (P1: 1 <= IZR (s_rtt s)) by (apply (IZR_le 1); lia).
  revert H. unfold vegas_step. rewrite Hp.
  assert (B1: feq (v_noload v) zero || flt (of_int (s_rtt s)) (v_noload v) = false).
  { apply orb_false_iff. split.
    - destruct (v_noload v) as [sg|sg| |sg m e Hb] eqn:En; try discriminate.
      + exfalso. unfold R in Enl; cbn in Enl. lra.
      + destruct sg; reflexivity.
    - rewrite (flt_R _ _ Frt Fnl). destruct (Rlt_bool_spec (R (of_int (s_rtt s))) (R (v_noload v))); [lra|reflexivity]. }
  rewrite B1. unfold vegas_update. rewrite Hd, Hsat, El.
  destruct (div_ok _ _ Fnl Frt) as [Fd Ed]; [lra|rewrite Enl, Ert; unfold Rdiv; rewrite Rinv_r by lra; apply bpow1000_big; apply Rabs_le; split; lra|].
  rewrite Enl, Ert in Ed. unfold Rdiv in Ed. rewrite Rinv_r, rnd_1 in Ed by lra.
  destruct (sub_ok one _ Fo Fd) as [Fw Ew]; [rewrite Eo, Ed; apply bpow1000_big; apply Rabs_le; split; lra|].
  rewrite Eo, Ed in Ew. replace (1 - 1) with 0 in Ew by ring. rewrite rnd_0 in Ew.
  destruct (mul_ok _ _ Fe Fw) as [Fq Eq]; [rewrite Ew, Rmult_0_r; apply bpow1000_big; apply Rabs_le; split; lra|].
  rewrite Ew, Rmult_0_r, rnd_0 in Eq.
  assert (Q0: vegas_queue v (s_rtt s) = 0%Z) by (unfold vegas_queue; now apply to_int_ceil_zero).
  rewrite Q0. destruct (Z.ltb_spec 0 l) as [_|]; [|lia].
  intros H; injection H as H; subst o. cbn [o_st mk vegas_set v_est].
  destruct (of_int_exact (6 * l)) as [Fb Eb]; [lia|].
  assert (B6: 6 <= IZR (6 * l) <= 2400) by (split; [apply (IZR_le 6)|apply (IZR_le _ 2400)]; lia).
  destruct (add_ok _ _ Fe Fb) as [_ Ea]; [rewrite Eb; apply bpow1000_big; apply Rabs_le; split; lra|]. rewrite Eb in Ea.
  destruct (of_int_exact (v_max v)) as [Fm Em]; [lia|].
  destruct (fmin_ok _ _ Fm Fnew) as [F1 R1]. destruct (fmax_ok _ _ Fo F1) as [F2 R2].
  set (c := fmax one (fmin (of_int (v_max v)) (add (v_est v) (of_int (6 * l))))) in *.
  rewrite R1, Eo, Em in R2.
  pose proof dd_small as [D0 D1]. pose proof u_pos as U0.
  assert (Mx: 1 <= IZR (v_max v) <= IZR M) by (split; [apply (IZR_le 1)|apply IZR_le]; lia).
  assert (M20': 20 <= IZR M) by (apply (IZR_le 20); exact M20).
  assert (Nl: R (v_est v) + 5 <= R (add (v_est v) (of_int (6 * l)))).
  { rewrite Ea. apply Rle_trans with ((R (v_est v) + IZR (6 * l)) * (1 - u) - dd); [|apply rnd_dn; lra].
    assert ((R (v_est v) + IZR (6 * l)) * u <= 2147486049 * u) by (apply Rmult_le_compat_r; lra). unfold u in *. lra. }
  assert (C1: 1 <= R c <= IZR M + 6).
  { rewrite R2. split; [apply Rmax_l|]. apply Rmax_lub; [lra|]. apply Rle_trans with (1 := Rmin_l _ _). lra. }
  assert (C2: Rmin (IZR (v_max v)) (R (v_est v) + 5) <= R c).
  { rewrite R2. apply Rle_trans with (2 := Rmax_r _ _). apply Rmin_glb; [apply Rmin_l|]. apply Rle_trans with (1 := Rmin_r _ _). exact Nl. }
  assert (S0: 0 <= R (v_smooth v)) by (assert (0 <= u * IZR M) by (apply Rmult_le_pos; lra); lra).
  pose proof (smooth_lower (v_smooth v) (v_est v) c (R c) csf Fe F2 (conj S0 cs2)) as SL.
  assert (G1: 1 <= R (v_est v) <= 4294967296) by lra. assert (G2: 0 <= R c <= R c) by lra. assert (G3: R c <= 4294967296) by lra.
  refine (Rle_trans _ _ _ _ (SL G1 G2 G3)).
  apply (vrec_ineq _ _ _ (IZR M)); try lra.
  (* the exact convex combination gains a full smoothing step towards min(est + 1, max) *)
  set (e := R (v_est v)) in *. set (sv := R (v_smooth v)) in *. set (mx := IZR (v_max v)) in *.
  destruct (Rle_dec e (mx - 1)) as [A|B].
  - rewrite Rmin_left by lra. assert (e + 1 <= R c).
    { apply Rle_trans with (2 := C2). apply Rmin_glb; lra. }
    assert (sv * (e + 1) <= sv * R c) by (apply Rmult_le_compat_l; lra). nra.
  - rewrite Rmin_right by lra. assert (Rmin mx (e + 5) <= R c) by exact C2.
    destruct (Rle_dec mx e) as [Ge|Lt].
    + (* est at or above the ceiling: the combination stays at or above min(ceiling, est) >= ceiling - 1 + s *)
      assert (mx <= R c) by (apply Rle_trans with (2 := C2); apply Rmin_glb; lra).
      assert (sv * mx <= sv * R c) by (apply Rmult_le_compat_l; lra).
      assert (mx * (1 - sv) <= e * (1 - sv)) by (apply Rmult_le_compat_r; lra). nra.
    + assert (mx <= R c) by (apply Rle_trans with (2 := C2); apply Rmin_glb; lra).
      assert (sv * mx <= sv * R c) by (apply Rmult_le_compat_l; lra).
      assert ((mx - 1) * (1 - sv) <= e * (1 - sv)) by (apply Rmult_le_compat_r; lra). nra.
Qed.

Theorem vegas_recovery_run M r : forall ss v v', VInv v M -> (20 <= M)%Z ->
  (0 < r < 2^53)%Z -> fin (v_noload v) = true -> R (v_noload v) = IZR r ->
  Forall (vhealthy_sample M r) ss -> vegas_run_noprobe v ss = Some v' ->
  Rmin (R (v_est v) + INR (length ss) * (R (v_smooth v) / 2)) (IZR (v_max v) - 1 + R (v_smooth v) / 2) <= R (v_est v') \/ ss = [].
Proof.
  induction ss as [|s l IH]; intros v v' HI M20 Hr Fnl Enl HL E; cbn [vegas_run_noprobe] in E; [right; reflexivity|left].
  inversion HL as [|? ? (HS & Er & Hd & Hi) Hl]; subst.
  destruct (vegas_step_safe v M s HI HS) as (o & Eo & Io). rewrite Eo in E.
  destruct (Z.eqb_spec (o_branch o) 1) as [|Hb]; [discriminate|].
  pose proof (vegas_noprobe v s o Eo Hb) as Hp.
  assert (HH: vegas_healthy v s) by (repeat split; auto; try lia; apply (vsaturated v M s HI HS Hi)).
  pose proof (vegas_recovers v M s o HI M20 HS HH Eo) as Step.
  destruct (vegas_step_fields v s o Eo) as (Es & Em & En).
  destruct (of_int_exact (s_rtt s)) as [Frt Ert]; [lia|].
  assert (B1: feq (v_noload v) zero || flt (of_int (s_rtt s)) (v_noload v) = false).
  { apply orb_false_iff. split.
    - destruct (v_noload v) as [sg|sg| |sg m e Hb'] eqn:En'; try discriminate.
      + exfalso. unfold R in Enl; cbn in Enl. assert (1 <= IZR (s_rtt s)) by (apply (IZR_le 1); lia). lra.
      + destruct sg; reflexivity.
    - rewrite (flt_R _ _ Frt Fnl). destruct (Rlt_bool_spec (R (of_int (s_rtt s))) (R (v_noload v))); [lra|reflexivity]. }
  specialize (En Hp B1). specialize (IH (o_st o) v' Io M20 Hr). rewrite Es, Em, En in IH. specialize (IH Fnl Enl Hl E).
  assert (S0: 0 <= R (v_smooth v) / 2).
  { pose proof (M_b v M HI) as MB. destruct HI as ([_ _ _ c1 _] & _). pose proof u_pos. assert (0 <= u * IZR M) by (apply Rmult_le_pos; lra). lra. }
  set (t := R (v_smooth v) / 2) in *. set (mx := IZR (v_max v)) in *. cbn [length]. rewrite S_INR.
  assert (T: 0 <= INR (length l) * t) by (apply Rmult_le_pos; [apply pos_INR|exact S0]).
  destruct IH as [IH|E0]; [|subst l].
  - apply Rle_trans with (2 := IH). apply Rmin_glb; [|apply Rmin_r].
    destruct (Rle_dec (R (v_est v)) (mx - 1)) as [A|B].
    + rewrite Rmin_left in Step by lra. apply Rle_trans with (1 := Rmin_l _ _). lra.
    + rewrite Rmin_right in Step by lra. apply Rle_trans with (1 := Rmin_r _ _). lra.
  - cbn [vegas_run_noprobe] in E. injection E as <-. cbn [length INR].
    destruct (Rle_dec (R (v_est v)) (mx - 1)) as [A|B].
    + rewrite Rmin_left in Step by lra. apply Rle_trans with (1 := Rmin_l _ _). lra.
    + rewrite Rmin_right in Step by lra. apply Rle_trans with (1 := Rmin_r _ _). lra.
Qed.

Lemma vegas_run_noprobe_inv M ss : forall v v', VInv v M -> Forall sample_ok ss -> vegas_run_noprobe v ss = Some v' -> VInv v' M.
Proof.
  induction ss as [|s l IH]; intros v v' HI HL E; cbn [vegas_run_noprobe] in E.
  - injection E as <-. exact HI.
  - inversion HL as [|? ? HS Hl]; subst. destruct (vegas_step_safe v M s HI HS) as (o & Eo & Io). rewrite Eo in E.
    destruct (o_branch o =? 1)%Z; [discriminate|]. exact (IH (o_st o) v' Io Hl E).
Qed.

(* hence the reported estimate is within one of the ceiling after 2 (max - est_0) / smoothing healthy samples *)
Corollary vegas_recovered M r ss v v' : VInv v M -> (20 <= M)%Z ->
  (0 < r < 2^53)%Z -> fin (v_noload v) = true -> R (v_noload v) = IZR r ->
  Forall (vhealthy_sample M r) ss -> vegas_run_noprobe v ss = Some v' -> ss <> [] ->
  IZR (v_max v) - 1 <= R (v_est v) + INR (length ss) * (R (v_smooth v) / 2) ->
  (v_max v - 1 <= vegas_est v')%Z.
Proof.
  intros HI M20 Hr Fnl Enl HL E Hne Hn.
  destruct (vegas_recovery_run M r ss v v' HI M20 Hr Fnl Enl HL E) as [G|G]; [|contradiction].
  assert (S0: 0 <= R (v_smooth v) / 2).
  { pose proof (M_b v M HI) as MB. destruct HI as ([_ _ _ c1 _] & _). pose proof u_pos. assert (0 <= u * IZR M) by (apply Rmult_le_pos; lra). lra. }
  assert (L: IZR (v_max v - 1) <= R (v_est v')).
  { rewrite minus_IZR. apply Rle_trans with (2 := G). apply Rmin_glb; simpl; lra. }
  assert (I': VInv v' M).
  { apply (vegas_run_noprobe_inv M ss v v' HI); [|exact E]. eapply Forall_impl; [|exact HL]. intros a (A & _). exact A. }
  assert (Mv: (1 <= v_max v <= M)%Z) by (destruct HI as ([_ ? _ _ _] & _); assumption).
  pose proof (est_int v' M I') as EI. destruct I' as ([cM cmax _ _ _] & Fe' & _ & U').
  assert (B: (v_max v - 1 <= to_int (v_est v') <= M)%Z) by (apply to_int_range; auto; lia).
  unfold vegas_est. lia.
Qed.
