From Coq Require Import ZArith List Lia Bool Arith.
From GCL Require Import Model.QueueLTS.
Import ListNotations.
Open Scope Z_scope.
(* F9a: the release runs between the waiter's failed attempt and its push *)
Theorem C10_queue_refuted_before_push :
  exists sched, ends_in stranded (init1 FIFO 10 [Holding; W0]) sched = true.
Proof. exists [LTry 1; LRelease 0; LLock 0; LPeek 0; LLen 1; LPush 1; LSelect 1]%nat. vm_compute; reflexivity. Qed.

(* F9b: hand-off attempted between push and select; the waiter is evicted, blocked, capacity free *)
Theorem C10_C12_queue_refuted_before_select :
  exists sched, ends_in (fun s => stranded s && Nat.eqb (length (backlog s)) 0) (init1 FIFO 10 [Holding; W0]) sched = true.
Proof. exists [LTry 1; LLen 1; LPush 1; LRelease 0; LLock 0; LPeek 0; LAcq 0; LEvictW 0; LSend 0; LIgnore 0; LSelect 1]%nat.
  vm_compute; reflexivity. Qed.

(* F9c: the peeked waiter gives up during the hand-off; the next waiter stays blocked *)
Theorem C10_queue_refuted_giveup_during_handoff :
  exists sched, ends_in stranded (init1 FIFO 10 [Holding; W0; W0]) sched = true.
Proof. exists [LTry 1; LLen 1; LPush 1; LSelect 1; LTry 2; LLen 2; LPush 2; LSelect 2;
               LRelease 0; LLock 0; LPeek 0; LAcq 0; LGiveUp 1; LEvict 1; LEvictW 0; LSend 0; LIgnore 0]%nat.
  vm_compute; reflexivity. Qed.

(* F11: the bound is checked before the push *)
Theorem C12_bound_refuted :
  exists sched, ends_in (fun s => maxb s <? Z.of_nat (length (backlog s))) (init1 FIFO 1 [Holding; W0; W0]) sched = true.
Proof. exists [LTry 1; LTry 2; LLen 1; LLen 2; LPush 1; LPush 2]%nat. vm_compute; reflexivity. Qed.

(* C02 on the queue: tokens are conserved in every reachable state *)
Definition tok (p : pc) : Z := match p with Holding | U3 _ | U4 _ | U5 => 1 | _ => 0 end.
Fixpoint sumf (c : pc -> Z) (l : list pc) : Z := match l with [] => 0 | p :: r => c p + sumf c r end.
Lemma sumf_upd c l i old p : nth_error l i = Some old -> sumf c (upd l i p) = sumf c l - c old + c p.
Proof.
  revert i; induction l as [|q l IH]; intros [|i] H; cbn in H; try discriminate.
  - inversion H; subst. cbn [upd sumf]. lia.
  - cbn [upd sumf]. rewrite (IH i H). lia.
Qed.
Lemma nth_upd_other l i j p : i <> j -> nth_error (upd l i p) j = nth_error l j.
Proof. revert i j; induction l as [|q l IH]; intros [|i] [|j] H; cbn; try congruence; auto. Qed.

Definition Conserved (s : st) : Prop := busy s = sumf tok (thr s).

Inductive reachable (s0 : st) : st -> Prop :=
| r0 : reachable s0 s0
| r1 s a s' : reachable s0 s -> step s a = Some s' -> reachable s0 s'.

Ltac inv := match goal with H : Some _ = Some _ |- _ => inversion H; subst; clear H end.
Ltac one_upd Hg := unfold Conserved, go, set_busy, set_backlog, set_lmu, set_thr in *; cbn [busy thr] in *;
                   rewrite (sumf_upd _ _ _ _ _ Hg); cbn [tok]; lia.

Lemma step_conserved s a s' : Conserved s -> step s a = Some s' -> Conserved s'.
Proof.
  intros HC Hs. unfold at_pc in *.
  destruct a as [i|i|i|i|i|i|i|i|i|i|i|i|i]; cbn [step] in Hs; unfold at_pc in Hs;
    destruct (nth_error (thr s) i) as [p|] eqn:Hg; try discriminate; destruct p; try discriminate.
  - destruct (busy s <? limit s); inv; one_upd Hg.
  - destruct (maxb s <=? _); inv; one_upd Hg.
  - inv; one_upd Hg.
  - inv; one_upd Hg.
  - inv; one_upd Hg.
  - inv; one_upd Hg.
  - inv; one_upd Hg.
  - destruct (lmu s); try discriminate. inv; one_upd Hg.
  - destruct (peek _ _); inv; one_upd Hg.
  - destruct (busy s <? limit s); inv; one_upd Hg.
  - inv; one_upd Hg.
  - (* send *)
    destruct (nth_error (thr s) w) as [q|] eqn:Hw.
    + destruct q; inv; try one_upd Hg.
      (* rendezvous: two updates *)
      unfold Conserved, go, set_busy, set_backlog, set_lmu, set_thr in *; cbn [busy thr] in *.
      assert (Hne: w <> i) by (intros ->; rewrite Hg in Hw; discriminate).
      assert (Hg': nth_error (upd (thr s) w Holding) i = Some (U4 w)) by (rewrite nth_upd_other; auto).
      rewrite (sumf_upd _ _ _ _ _ Hg'). rewrite (sumf_upd _ _ _ _ _ Hw). cbn [tok]. lia.
    + inv; one_upd Hg.
  - inv; one_upd Hg.
Qed.

Theorem C02_queue_conservation s0 s : Conserved s0 -> reachable s0 s -> Conserved s.
Proof. intros H0 Hr; induction Hr; [assumption | eapply step_conserved; eauto]. Qed.
