(* C04 for Gradient: for every sample list (rtt in [0,2^62], in-flight in [0,2^31), any drop flags, ANY probe countdown draws)
   no step panics (the square-root table index stays in range) and the stored estimate stays finite within [min, Mx],
   Mx >= max(maxLimit, initial). *)
From Coq Require Import ZArith Reals Lia Lra Psatz Bool List.
From Flocq Require Import Core BinarySingleNaN.
From GCL Require Import Base.F64 Base.F64Facts Proofs.Smooth Model.Measure Model.Limits Proofs.VegasSafe.
Import ListNotations.
Open Scope R_scope.

(* ---- a few more binary64 facts ---- *)
Lemma div_ok x y : fin x = true -> fin y = true -> R y <> 0 -> Rabs (R x / R y) <= bpow radix2 1000 ->
  fin (div x y) = true /\ R (div x y) = rnd (R x / R y).
Proof.
  intros Hx Hy Hn Hb. unfold div, R, fin in *.
  generalize (Bdiv_correct prec emax _ _ mode_NE x y Hn). cbn [round_mode].
  rewrite Rlt_bool_true by (apply rnd_lt_emax; exact Hb).
  intros (A & B & _). rewrite B, Hx. now split.
Qed.

Lemma fsqrt_ok x : fin x = true -> 0 <= R x -> fin (fsqrt x) = true /\ R (fsqrt x) = rnd (sqrt (R x)).
Proof.
  intros Hx Hp. unfold fsqrt. destruct (Bsqrt_correct prec emax _ _ mode_NE x) as (A & B & _). cbn [round_mode] in A.
  split; [|exact A]. unfold fin. rewrite B. destruct x as [s|s| |s m e Hb]; try discriminate; [reflexivity|].
  destruct s; [|reflexivity]. exfalso. unfold R in Hp. cbn in Hp.
  assert (F2R (Float radix2 (Z.neg m) e) < 0) by (apply F2R_lt_0; cbn; lia). lra.
Qed.

Lemma R_half : fin half = true /\ R half = / 2.
Proof.
  assert (E: B2SF half = SpecFloat.S754_finite false 4503599627370496 (-53)) by (vm_compute; reflexivity).
  split.
  - unfold fin. rewrite <- is_finite_SF_B2SF, E. reflexivity.
  - unfold R. rewrite <- SF2R_B2SF, E. unfold SF2R, F2R. cbn [Defs.Fnum Defs.Fexp cond_Zopp].
    change (bpow radix2 (-53)) with (/ IZR (Z.pow_pos 2 53)). change (Z.pow_pos 2 53) with 9007199254740992%Z. lra.
Qed.

Lemma rnd_nonneg x : 0 <= x -> 0 <= rnd x.
Proof. intros H. apply Rle_trans with (rnd 0); [rewrite rnd_0; lra|now apply rnd_mono]. Qed.
Lemma rnd_le_int x z : (Z.abs z < 2^53)%Z -> x <= IZR z -> rnd x <= IZR z.
Proof. intros Hz H. apply Rle_trans with (rnd (IZR z)); [now apply rnd_mono|]. rewrite rnd_id; [lra|now apply fmt_int]. Qed.
Lemma rnd_ge_int x z : (Z.abs z < 2^53)%Z -> IZR z <= x -> IZR z <= rnd x.
Proof. intros Hz H. apply Rle_trans with (rnd (IZR z)); [rewrite rnd_id; [lra|now apply fmt_int]|now apply rnd_mono]. Qed.

Lemma to_int_range2 x lo hi : fin x = true -> IZR lo <= R x -> R x <= IZR hi ->
  (0 <= lo)%Z -> (hi < 2^63 - 1)%Z -> (lo <= to_int x <= hi)%Z.
Proof.
  intros Hx Hlo Hhi H0 H1.
  assert (Hnn: 0 <= R x) by (apply Rle_trans with (2 := Hlo); apply (IZR_le 0); lia).
  assert (T: (lo <= Ztrunc (R x) <= hi)%Z).
  { rewrite Ztrunc_floor by exact Hnn. split.
    - apply Zfloor_lub. exact Hlo.
    - apply Zfloor_le in Hhi. rewrite Zfloor_IZR in Hhi. exact Hhi. }
  rewrite to_int_trunc; [exact T | exact Hx | lia].
Qed.

Lemma of_int_big z : (0 <= z <= 2^62)%Z -> fin (of_int z) = true /\ 0 <= R (of_int z) <= IZR (2^62) /\ ((1 <= z)%Z -> 1 <= R (of_int z)).
Proof.
  intros Hz. assert (Hb: 0 <= IZR z <= IZR (2^62)) by (split; [apply (IZR_le 0)|apply IZR_le]; lia).
  destruct (of_int_ok z) as [A B].
  { apply bpow1000_big. apply Rabs_le. change (IZR (2^62)) with 4611686018427387904 in Hb. split; lra. }
  split; [exact A|]. rewrite B. split.
  - split; [now apply rnd_nonneg|]. assert (F: fmt (IZR (2^62))).
    { change (IZR (2^62)) with (bpow radix2 62). apply fmt_bpow. lia. }
    apply Rle_trans with (rnd (IZR (2^62))); [apply rnd_mono; lra|rewrite rnd_id; [lra|exact F]].
  - intros H1. change 1 with (IZR 1). apply rnd_ge_int; [reflexivity|apply IZR_le; lia].
Qed.

(* ---- the queue allowance never panics and stays within [4, max 4 n] ---- *)
Lemma sqrt_q_ok n : (0 <= n < 2^31)%Z -> exists q, sqrt_q n = Some q /\ (4 <= q <= Z.max 4 n)%Z.
Proof.
  intros Hn. unfold sqrt_q. destruct (Z.ltb_spec n 0); [lia|]. destruct (Z.ltb_spec n TBL).
  - eexists; split; [reflexivity|]. unfold sqrt_tbl. pose proof (Z.sqrt_le_lin n). pose proof (Z.sqrt_nonneg n). lia.
  - eexists; split; [reflexivity|]. unfold TBL in *.
    destruct (of_int_exact n) as [Fn En]; [lia|].
    assert (Hn1: 1000 <= IZR n) by (apply (IZR_le 1000); lia).
    destruct (fsqrt_ok (of_int n) Fn) as [Fs Es]; [rewrite En; lra|]. rewrite En in Es.
    assert (S1: 1 <= sqrt (IZR n)). { rewrite <- sqrt_1. apply sqrt_le_1_alt. lra. }
    assert (S2: sqrt (IZR n) <= IZR n).
    { rewrite <- (sqrt_sqrt (IZR n)) at 2 by lra. rewrite <- (Rmult_1_r (sqrt (IZR n))) at 1. apply Rmult_le_compat_l; lra. }
    assert (B: (0 <= to_int (fsqrt (of_int n)) <= n)%Z).
    { apply to_int_range2; auto; try lia; rewrite Es.
      - apply rnd_nonneg. lra.
      - apply rnd_le_int; [lia|exact S2]. }
    lia.
Qed.

(* ---- invariant ---- *)
Record gcfg_ok (g : grad) (Mx : Z) : Prop := {
  gc_M : (4 <= Mx < 2^31)%Z;
  gc_min : (1 <= g_min g <= Mx)%Z;
  gc_max : (1 <= g_max g <= Mx)%Z;
  gc_minmax : (g_min g <= g_max g)%Z;
  gc_sf : fin (g_s g) = true; gc_s : 0 <= R (g_s g) <= 1;
  gc_tf : fin (g_tol g) = true; gc_t : 0 <= R (g_tol g) <= 1073741824 (* 2^30 *) }.

Definition GInv (g : grad) (Mx : Z) : Prop :=
  gcfg_ok g Mx /\ fin (g_est g) = true /\ IZR (g_min g) <= R (g_est g) <= IZR Mx /\
  fin (g_noload g) = true /\ 0 <= R (g_noload g) <= IZR (2^62).

Definition gsample_ok (s : sample) : Prop := (0 <= s_rtt s <= 2^62)%Z /\ (0 <= s_inflight s < 2^31)%Z.

Lemma GInv_set g Mx e nl c : gcfg_ok g Mx -> fin e = true -> IZR (g_min g) <= R e <= IZR Mx ->
  fin nl = true -> 0 <= R nl <= IZR (2^62) -> GInv (grad_set g e nl c) Mx.
Proof. intros C F B Fn Bn. destruct C. split; [constructor; assumption|]. cbn. auto. Qed.

Lemma big : IZR (2^62) = 4611686018427387904. Proof. reflexivity. Qed.

Section Step.
Variables (g : grad) (Mx : Z) (s : sample).
Hypothesis HI : GInv g Mx.
Hypothesis HS : gsample_ok s.

Lemma Mx_b : 4 <= IZR Mx <= 2147483648.
Proof. destruct HI as [[cM _ _ _ _ _ _ _] _]. split; [apply (IZR_le 4)|apply (IZR_le _ 2147483648)]; lia. Qed.

Lemma gest_int : (g_min g <= to_int (g_est g) <= Mx)%Z.
Proof.
  destruct HI as (C & Fe & Be & _). destruct C. apply to_int_range2; auto; try lia. tauto. tauto.
Qed.

(* clamp at the end: max(q, min(max, x)) for any finite x >= min *)
Lemma final_clamp q x : (4 <= q <= Mx)%Z -> fin x = true -> IZR (g_min g) <= R x ->
  let n := fmax (of_int q) (fmin (of_int (g_max g)) x) in
  fin n = true /\ IZR (g_min g) <= R n <= IZR Mx.
Proof.
  intros Hq Fx Hx n. destruct HI as (C & _). destruct C as [cM cmin cmax cmm _ _ _ _].
  destruct (of_int_exact q) as [Fq Eq]; [lia|]. destruct (of_int_exact (g_max g)) as [Fm Em]; [lia|].
  destruct (fmin_ok _ _ Fm Fx) as [F1 E1]. destruct (fmax_ok _ _ Fq F1) as [F2 E2]. fold n in F2, E2.
  split; [exact F2|]. rewrite E2, E1, Eq, Em.
  assert (IZR (g_min g) <= IZR (g_max g)) by (apply IZR_le; lia).
  assert (IZR (g_max g) <= IZR Mx) by (apply IZR_le; lia). assert (IZR q <= IZR Mx) by (apply IZR_le; lia).
  split.
  - apply Rle_trans with (2 := Rmax_r _ _). apply Rmin_glb; lra.
  - apply Rmax_lub; [lra|]. apply Rle_trans with (1 := Rmin_l _ _). lra.
Qed.

Theorem grad_step_safe : exists o, grad_step g s = Some o /\ GInv (o_st o) Mx.
Proof.
  pose proof gest_int as EI. pose proof Mx_b as MB.
  destruct HI as (C & Fe & Be & Fn & Bn). destruct HS as [Hr Hi].
  assert (C' := C). destruct C' as [cM cmin cmax cmm csf cs ctf ct].
  unfold grad_step. destruct (sqrt_q_ok (to_int (g_est g))) as (q & Eq & Bq); [lia|]. rewrite Eq. cbv zeta.
  assert (Hq: (4 <= q <= Mx)%Z) by lia.
  destruct (of_int_exact q) as [Fq Rq]; [lia|]. destruct (of_int_exact (g_min g)) as [Fmn Rmn]; [lia|].
  destruct R_zero as [Fz Ez].
  assert (Bz: 0 <= R zero <= IZR (2^62)) by (rewrite Ez, big; lra).
  destruct (negb (g_int g =? -1) && _).
  { (* probe *)
    eexists; split; [reflexivity|]. cbn [o_st mk]. destruct (fmax_ok _ _ Fmn Fq) as [F E].
    apply GInv_set; auto. rewrite E, Rmn, Rq. split; [apply Rmax_l|]. apply Rmax_lub; apply IZR_le; lia. }
  (* baseline update *)
  destruct (of_int_big (s_rtt s) Hr) as (Frt & Brt & Prt).
  set (frtt := of_int (s_rtt s)) in *.
  assert (Nl: fin (min_add (g_noload g) frtt) = true /\ 0 <= R (min_add (g_noload g) frtt) <= IZR (2^62)).
  { unfold min_add. destruct (_ || _); split; assumption. }
  destruct Nl as [Fnl Bnl]. set (nl := min_add (g_noload g) frtt) in *.
  assert (Keep: GInv (grad_set g (g_est g) nl (if g_int g =? -1 then g_cnt g else (g_cnt g - 1)%Z)) Mx) by (apply GInv_set; auto).
  (* the gradient is a finite number in [1/2, 1] *)
  assert (G: exists gr, (if (0 <? s_rtt s)%Z then fmax half (fmin one (div (mul (g_tol g) (of_int (to_int nl))) frtt)) else one) = gr /\ fin gr = true /\ /2 <= R gr <= 1).
  { destruct R_one as [Fo Eo]. destruct (Z.ltb_spec 0 (s_rtt s)) as [Hp|Hp].
    - eexists; split; [reflexivity|].
      assert (Bi: (0 <= to_int nl <= 2^62)%Z) by (apply to_int_range2; auto; try lia; [rewrite Ez in Bz; change (IZR 0) with 0; tauto|tauto]).
      destruct (of_int_big _ Bi) as (Fni & Bni & _). rewrite big in *.
      destruct (mul_ok _ _ ctf Fni) as [Fa Ea].
      { apply bpow1000_big. apply Rabs_le.
        assert (0 <= R (g_tol g) * R (of_int (to_int nl))) by (apply Rmult_le_pos; tauto).
        assert (R (g_tol g) * R (of_int (to_int nl)) <= 1073741824 * 4611686018427387904) by (apply Rmult_le_compat; tauto).
        split; lra. }
      assert (Ba: 0 <= R (mul (g_tol g) (of_int (to_int nl))) <= 1e28).
      { rewrite Ea. assert (0 <= R (g_tol g) * R (of_int (to_int nl))) by (apply Rmult_le_pos; tauto).
        assert (R (g_tol g) * R (of_int (to_int nl)) <= 1073741824 * 4611686018427387904) by (apply Rmult_le_compat; tauto).
        split; [now apply rnd_nonneg|]. apply Rle_trans with (rnd (IZR (2^93))); [apply rnd_mono; change (IZR (2^93)) with 9903520314283042199192993792; lra|].
        rewrite rnd_id; [change (IZR (2^93)) with 9903520314283042199192993792; lra|].
        change (IZR (2^93)) with (bpow radix2 93). apply fmt_bpow. lia. }
      assert (P1: 1 <= R frtt) by (apply Prt; lia).
      assert (Q0: 0 <= R (mul (g_tol g) (of_int (to_int nl))) / R frtt <= 1e28).
      { split; [unfold Rdiv; apply Rmult_le_pos; [lra|]; apply Rlt_le, Rinv_0_lt_compat; lra|]. apply Rle_trans with (R (mul (g_tol g) (of_int (to_int nl))) / 1); [|lra].
        unfold Rdiv. apply Rmult_le_compat_l; [lra|]. apply Rinv_le_contravar; lra. }
      destruct (div_ok _ _ Fa Frt) as [Fd Ed]; [lra|apply bpow1000_big; apply Rabs_le; split; lra|].
      destruct (fmin_ok _ _ Fo Fd) as [F1 E1]. destruct R_half as [Fh Eh].
      destruct (fmax_ok _ _ Fh F1) as [F2 E2]. split; [exact F2|]. rewrite E2, E1, Eh, Eo. split; [apply Rmax_l|].
      apply Rmax_lub; [lra|apply Rmin_l].
    - exists one. split; [reflexivity|]. split; [exact Fo|]. rewrite Eo. lra. }
  destruct G as (gr & Egr & Fgr & Bgr). rewrite Egr.
  (* finish: any finite candidate is smoothed if below the estimate, then clamped *)
  assert (Fin: forall newl b, fin newl = true -> 0 <= R newl <= 1000000000000 ->
     exists o, (let newl1 := if flt newl (g_est g) then fmax (of_int (g_min g)) (add (mul (g_est g) (sub one (g_s g))) (mul (g_s g) newl)) else newl in
                let newl2 := fmax (of_int q) (fmin (of_int (g_max g)) newl1) in
                Some (mk (grad_set g newl2 nl (if g_int g =? -1 then g_cnt g else (g_cnt g - 1)%Z)) [to_int newl2]
                         ((common_sample (s_rtt s) (s_inflight s) (s_drop s) ++ [(5%Z, frtt); (6%Z, of_int q)]) ++ [(4%Z, of_int (to_int nl))]) b)) = Some o
               /\ GInv (o_st o) Mx).
  { intros newl b Fnew Bnew. eexists; split; [reflexivity|]. cbn [o_st mk].
    assert (N1: let newl1 := if flt newl (g_est g) then fmax (of_int (g_min g)) (add (mul (g_est g) (sub one (g_s g))) (mul (g_s g) newl)) else newl in
                fin newl1 = true /\ IZR (g_min g) <= R newl1).
    { rewrite (flt_R _ _ Fnew Fe). destruct (Rlt_bool_spec (R newl) (R (g_est g))) as [Hlt|Hge].
      - destruct R_one as [Fo Eo].
        destruct (sub_ok one (g_s g) Fo csf) as [Fw Ew]; [rewrite Eo; apply bpow1000_big; apply Rabs_le; split; lra|].
        assert (Bw: 0 <= R (sub one (g_s g)) <= 1).
        { rewrite Ew, Eo. split; [apply rnd_nonneg; lra|]. change 1 with (IZR 1) at 2. apply rnd_le_int; [reflexivity|simpl; lra]. }
        assert (P0: 0 <= R (g_est g)) by (assert (0 <= IZR (g_min g)) by (apply (IZR_le 0); lia); lra).
        destruct (mul_ok _ _ Fe Fw) as [Fa Ea].
        { apply bpow1000_big. apply Rabs_le. assert (0 <= R (g_est g) * R (sub one (g_s g))) by (apply Rmult_le_pos; tauto).
          assert (R (g_est g) * R (sub one (g_s g)) <= 2147483648 * 1) by (apply Rmult_le_compat; lra). split; lra. }
        destruct (mul_ok _ _ csf Fnew) as [Fb Eb].
        { apply bpow1000_big. apply Rabs_le. assert (0 <= R (g_s g) * R newl) by (apply Rmult_le_pos; tauto).
          assert (R (g_s g) * R newl <= 1 * 1000000000000) by (apply Rmult_le_compat; lra). split; lra. }
        assert (Ba: 0 <= R (mul (g_est g) (sub one (g_s g))) <= 10000000000000).
        { rewrite Ea. assert (0 <= R (g_est g) * R (sub one (g_s g))) by (apply Rmult_le_pos; tauto).
          assert (R (g_est g) * R (sub one (g_s g)) <= 2147483648 * 1) by (apply Rmult_le_compat; lra).
          split; [now apply rnd_nonneg|]. apply (rnd_le_int _ 10000000000000); [reflexivity|lra]. }
        assert (Bb: 0 <= R (mul (g_s g) newl) <= 10000000000000).
        { rewrite Eb. assert (0 <= R (g_s g) * R newl) by (apply Rmult_le_pos; tauto).
          assert (R (g_s g) * R newl <= 1 * 1000000000000) by (apply Rmult_le_compat; lra).
          split; [now apply rnd_nonneg|]. apply (rnd_le_int _ 10000000000000); [reflexivity|lra]. }
        destruct (add_ok _ _ Fa Fb) as [Fc _]; [apply bpow1000_big; apply Rabs_le; split; lra|].
        destruct (fmax_ok _ _ Fmn Fc) as [F E]. split; [exact F|]. rewrite E, Rmn. apply Rmax_l.
      - split; [exact Fnew|]. lra. }
    destruct N1 as [F1 B1].
    destruct (final_clamp q _ Hq F1 B1) as [F2 B2]. apply GInv_set; auto. }
  destruct R_one as [Fo Eo]. assert (Ftwo: fin two = true /\ R two = 2) by (apply (of_int_exact 2); reflexivity). destruct Ftwo as [F2 E2].
  assert (P0: 0 <= R (g_est g)) by (assert (0 <= IZR (g_min g)) by (apply (IZR_le 0); lia); lra).
  destruct (div_ok (g_est g) two Fe F2) as [Fh Eh]; [rewrite E2; lra|rewrite E2; apply bpow1000_big; apply Rabs_le; split; lra|]. rewrite E2 in Eh.
  assert (Bh: 0 <= R (div (g_est g) two) <= 1000000000000).
  { rewrite Eh. split; [apply rnd_nonneg; lra|]. apply (rnd_le_int _ 1000000000000); [reflexivity|lra]. }
  destruct (s_drop s).
  { destruct (Fin (div (g_est g) two) 2%Z Fh Bh) as (o & Eo' & Io). exists o. split; [exact Eo'|exact Io]. }
  destruct (flt (of_int (s_inflight s)) (div (g_est g) two)).
  { eexists; split; [reflexivity|]. cbn [o_st mk]. exact Keep. }
  destruct (mul_ok _ _ Fe Fgr) as [Fm Em].
  { apply bpow1000_big. apply Rabs_le. assert (0 <= R (g_est g) * R gr) by (apply Rmult_le_pos; lra).
    assert (R (g_est g) * R gr <= 2147483648 * 1) by (apply Rmult_le_compat; lra). split; lra. }
  assert (Bm: 0 <= R (mul (g_est g) gr) <= 100000000000).
  { rewrite Em. assert (0 <= R (g_est g) * R gr) by (apply Rmult_le_pos; lra).
    assert (R (g_est g) * R gr <= 2147483648 * 1) by (apply Rmult_le_compat; lra).
    split; [now apply rnd_nonneg|]. apply (rnd_le_int _ 100000000000); [reflexivity|lra]. }
  assert (Bq': 4 <= IZR q <= 2147483648) by (split; [apply (IZR_le 4)|apply (IZR_le _ 2147483648)]; lia).
  destruct (add_ok _ _ Fm Fq) as [Fc Ec]; [rewrite Rq; apply bpow1000_big; apply Rabs_le; split; lra|].
  assert (Bc: 0 <= R (add (mul (g_est g) gr) (of_int q)) <= 1000000000000).
  { rewrite Ec, Rq. split; [apply rnd_nonneg; lra|]. apply (rnd_le_int _ 1000000000000); [reflexivity|lra]. }
  destruct (Fin _ 4%Z Fc Bc) as (o & Eo' & Io). exists o. split; [exact Eo'|exact Io].
Qed.
End Step.

Fixpoint grad_run (g : grad) (l : list sample) : option grad :=
  match l with
  | nil => Some g
  | s :: r => match grad_step g s with Some o => grad_run (o_st o) r | None => None end
  end.

Theorem grad_run_safe g Mx samples : GInv g Mx -> Forall gsample_ok samples ->
  exists g', grad_run g samples = Some g' /\ GInv g' Mx /\ (g_min g' <= grad_est g' <= Mx)%Z.
Proof.
  intros HI HS. revert g HI. induction HS as [|s l Hs Hl IH]; intros g HI; cbn [grad_run].
  - exists g. split; [reflexivity|]. split; [exact HI|]. now apply gest_int.
  - destruct (grad_step_safe g Mx s HI Hs) as (o & Eo & Io). rewrite Eo. apply IH. exact Io.
Qed.
