(* C07 for Gradient2: a saturated sample whose RTT is (almost) not above the long-term average - R lv >= R x (1 - delta) with delta x Mx <= 1 -
   raises the stored estimate by at least twice the smoothing, up to the ceiling: est' >= min(max, est + 2 s).
   And the long-term average does stay that close to a constant RTT: its deficit x - lv contracts by (1 - f) per sample and is fed by at most
   3 roundings, so once it is below 4 u x / f it stays there.  Together: after the long-term average has caught up with a constant RTT,
   n healthy saturated samples bring the estimate to min(max, est + 2 s n). *)
From Coq Require Import ZArith Reals Lia Lra Psatz Bool List.
From Flocq Require Import Core BinarySingleNaN.
From GCL Require Import Base.F64 Base.F64Facts Proofs.Smooth Model.Measure Model.Limits Proofs.VegasSafe Proofs.AimdProofs Proofs.GradSafe Proofs.Grad2Safe Proofs.VegasDrop Proofs.VegasRecover.
Import ListNotations.
Open Scope R_scope.

(* lower bound of the smoothing chain, factors as Gradient2 writes them: add (mul est (sub one s)) (mul c s) *)
Section ChainLowC.
Variables (s est c : f64) (cb : Rdefinitions.R).
Hypothesis Hs : fin s = true.
Hypothesis He : fin est = true.
Hypothesis Hc : fin c = true.
Hypothesis Hs0 : 0 <= R s <= 1.
Hypothesis He1 : 1 <= R est <= 4294967296.
Hypothesis Hc1 : 0 <= cb <= R c.
Hypothesis Hcb : R c <= 4294967296.

Lemma smooth_lower_c :
  ((R est*((1-R s)*(1-u)-dd)*(1-u)-dd) + (R s*cb*(1-u)-dd))*(1-u)-dd <= R (add (mul est (sub one s)) (mul c s)).
Proof.
  destruct R_one as [Fo Eo]. pose proof dd_small as [D0 D1]. pose proof u_pos as U0. assert (U1: u <= /2) by (unfold u; lra).
  destruct (sub_ok one s Fo Hs) as [Fw Ew]; [rewrite Eo; apply bpow1000_big; apply Rabs_le; split; lra|]. rewrite Eo in Ew.
  assert (Bw: (1 - R s) * (1 - u) - dd <= R (sub one s) /\ 0 <= R (sub one s)) by (rewrite Ew; split; [apply rnd_dn; lra|apply rnd_nonneg; lra]).
  assert (W1: R (sub one s) <= 1) by (rewrite Ew; apply (rnd_le_int _ 1); [reflexivity|simpl; lra]).
  destruct (mul_ok _ _ He Fw) as [Fa Ea].
  { apply bpow1000_big. apply Rabs_le. assert (0 <= R est * R (sub one s)) by (apply Rmult_le_pos; lra).
    assert (R est * R (sub one s) <= 4294967296 * 1) by (apply Rmult_le_compat; lra). split; lra. }
  destruct (mul_ok _ _ Hc Hs) as [Fb Eb].
  { apply bpow1000_big. apply Rabs_le. assert (0 <= R c * R s) by (apply Rmult_le_pos; lra).
    assert (R c * R s <= 4294967296 * 1) by (apply Rmult_le_compat; lra). split; lra. }
  assert (P1: 0 <= R est * R (sub one s)) by (apply Rmult_le_pos; lra).
  assert (P2: 0 <= R c * R s) by (apply Rmult_le_pos; lra).
  assert (A1: R est * ((1 - R s) * (1 - u) - dd) * (1 - u) - dd <= R (mul est (sub one s)) /\ 0 <= R (mul est (sub one s))).
  { rewrite Ea. split; [|now apply rnd_nonneg]. apply Rle_trans with (2 := rnd_dn _ P1). apply Rplus_le_compat_r. apply Rmult_le_compat_r; [lra|].
    apply Rmult_le_compat_l; lra. }
  assert (B1: R s * cb * (1 - u) - dd <= R (mul c s) /\ 0 <= R (mul c s)).
  { rewrite Eb. split; [|now apply rnd_nonneg]. apply Rle_trans with (2 := rnd_dn _ P2). apply Rplus_le_compat_r. apply Rmult_le_compat_r; [lra|].
    rewrite (Rmult_comm (R c)). apply Rmult_le_compat_l; lra. }
  assert (A2: R (mul est (sub one s)) <= 4294967296).
  { rewrite Ea. apply (rnd_le_int _ 4294967296); [reflexivity|]. apply Rle_trans with (4294967296 * 1); [apply Rmult_le_compat; lra|simpl; lra]. }
  assert (B2: R (mul c s) <= 4294967296).
  { rewrite Eb. apply (rnd_le_int _ 4294967296); [reflexivity|]. apply Rle_trans with (4294967296 * 1); [apply Rmult_le_compat; lra|simpl; lra]. }
  destruct (add_ok _ _ Fa Fb) as [Fc Ec]; [apply bpow1000_big; apply Rabs_le; split; lra|].
  rewrite Ec. apply Rle_trans with ((R (mul est (sub one s)) + R (mul c s)) * (1 - u) - dd); [|apply rnd_dn; lra].
  apply Rplus_le_compat_r. apply Rmult_le_compat_r; lra.
Qed.
End ChainLowC.

(* the candidate est x gradient + 4 when the gradient is at least 1 - delta - u - dd *)
Lemma cand_lower e gr m delta d : 1 <= e <= m -> 1 <= m <= 2147483648 -> 0 <= delta -> delta * m <= 1 -> 0 < d <= / 1000000000000000000000000000000 ->
  1 - delta - u - d <= gr -> /2 <= gr <= 1 ->
  e + 29 / 10 <= ((e * gr * (1 - u) - d) + 4) * (1 - u) - d.
Proof.
  intros He Hm Hd0 Hd Hdd Hg [Hg0 Hg1]. pose proof u_pos as U0.
  assert (E1: e * delta <= 1) by (apply Rle_trans with (m * delta); [apply Rmult_le_compat_r; lra|lra]).
  assert (E2: e * (u + d) <= 2147483648 * (u + d)) by (apply Rmult_le_compat_r; lra).
  assert (E3: e * (1 - delta - u - d) <= e * gr) by (apply Rmult_le_compat_l; lra).
  assert (E4: e - 1 - 2147483648 * (u + d) <= e * gr) by lra.
  assert (E5: e * gr <= e) by (rewrite <- (Rmult_1_r e) at 2; apply Rmult_le_compat_l; lra).
  assert (E6: e * gr * u <= 2147483648 * u) by (apply Rmult_le_compat_r; lra).
  assert (K: ((e * gr * (1 - u) - d) + 4) * (1 - u) - d = e * gr - 2 * (e * gr * u) + e * gr * u * u + 4 - 4 * u - d * (1 - u) - d) by ring.
  rewrite K. assert (0 <= e * gr * u * u) by (apply Rmult_le_pos; [apply Rmult_le_pos; [apply Rmult_le_pos; lra|lra]|lra]).
  assert (d * (1 - u) <= d) by nra. unfold u in *. lra.
Qed.

Section Step.
Variables (g : grad2) (Mx : Z) (s : sample) (delta : Rdefinitions.R).
Hypothesis HI : G2Inv g Mx.
Hypothesis HS : gsample_ok s.
Hypothesis Hrtt : (1 <= s_rtt s < 2^53)%Z.
Hypothesis Hsat : flt (of_int (s_inflight s)) (div (h_est g) two) = false.
Hypothesis HM : (20 <= Mx)%Z.
Hypothesis Hd0 : 0 <= delta.
Hypothesis Hd1 : delta * IZR Mx <= 1.
Hypothesis Hsm : 8 * u * IZR Mx <= R (h_s g).
Hypothesis Hclose : R (of_int (s_rtt s)) * (1 - delta) <= R (ea_value (ea_add (h_long g) (of_int (s_rtt s)))).

Theorem grad2_recovers : Rmin (IZR (h_max g)) (R (h_est g) + 2 * R (h_s g)) <= R (h_est (o_st (grad2_step g s))).
Proof.
  destruct HI as (C & Fe & Be & EI). destruct HS as [Hr Hi]. assert (C' := C). destruct C' as [cM cmm cmx csf csb].
  unfold grad2_step. cbv zeta. rewrite Hsat. cbn [o_st mk h_est].
  destruct (of_int_exact (s_rtt s)) as [Fx Ex]; [lia|]. set (x := of_int (s_rtt s)) in *.
  assert (X1: 1 <= R x <= 9007199254740992) by (rewrite Ex; split; [apply (IZR_le 1)|apply (IZR_le _ 9007199254740992)]; lia).
  assert (Xok: xs_ok x) by (split; [exact Fx|unfold XX; lra]).
  pose proof (ea_add_inv _ _ EI Xok) as E1. set (l1 := ea_add (h_long g) x) in *. destruct E1 as [Vf Vb _ _ _ _ _ _].
  assert (MB: 20 <= IZR Mx <= 2147483648) by (split; [apply (IZR_le 20)|apply (IZR_le _ 2147483648)]; lia).
  assert (P0: 1 <= R (h_est g)) by (assert (1 <= IZR (h_min g)) by (apply (IZR_le 1); lia); lra).
  destruct R_one as [Fo Eo]. destruct R_zero as [Fz Ez]. destruct R_half as [Fh Eh].
  pose proof dd_small as [D0 D1]. pose proof u_pos as U0. pose proof u_small as U1.
  (* the gradient *)
  unfold fgt. rewrite (flt_R zero x Fz Fx), Ez. destruct (Rlt_bool_spec 0 (R x)) as [_|Hn]; [|lra].
  assert (Q0: 0 <= R (ea_value l1) / R x <= BB).
  { split; [unfold Rdiv; apply Rmult_le_pos; [tauto|apply Rlt_le, Rinv_0_lt_compat; lra]|].
    apply Rmult_le_reg_r with (R x); [lra|]. unfold Rdiv. rewrite Rmult_assoc, Rinv_l by lra.
    apply Rle_trans with (BB * 1); [lra|]. apply Rmult_le_compat_l; [unfold BB; lra|lra]. }
  destruct (div_ok _ _ Vf Fx) as [Fd Ed]; [lra|apply bpow1000_big; apply Rabs_le; unfold BB in Q0; split; lra|].
  destruct (fmin_ok _ _ Fo Fd) as [F1 E1']. destruct (fmax_ok _ _ Fh F1) as [F2 E2'].
  set (gr := fmax half (fmin one (div (ea_value l1) x))) in *.
  assert (Q1: 1 - delta <= R (ea_value l1) / R x).
  { apply Rmult_le_reg_r with (R x); [lra|]. unfold Rdiv. rewrite Rmult_assoc, Rinv_l by lra. lra. }
  assert (D1': delta <= /20) by (apply Rmult_le_reg_r with (IZR Mx); [lra|]; apply Rle_trans with 1; [exact Hd1|lra]).
  assert (Gr: 1 - delta - u - dd <= R gr <= 1).
  { rewrite E2', E1', Eh, Eo, Ed. split.
    - apply Rle_trans with (2 := Rmax_r _ _). apply Rmin_glb; [lra|].
      apply Rle_trans with ((R (ea_value l1) / R x) * (1 - u) - dd); [|apply rnd_dn; tauto].
      assert ((1 - delta) * (1 - u) <= R (ea_value l1) / R x * (1 - u)) by (apply Rmult_le_compat_r; [unfold u; lra|lra]). assert (0 <= delta * u) by (apply Rmult_le_pos; lra). nra.
    - apply Rmax_lub; [lra|apply Rmin_l]. }
  (* the candidate *)
  destruct (of_int_exact 4) as [F4 E4]; [reflexivity|].
  destruct (mul_ok _ _ Fe F2) as [Fm Em].
  { apply bpow1000_big. apply Rabs_le. assert (0 <= R (h_est g) * R gr) by (apply Rmult_le_pos; lra).
    assert (R (h_est g) * R gr <= 2147483648 * 1) by (apply Rmult_le_compat; lra). split; lra. }
  assert (Pg: 0 <= R (h_est g) * R gr) by (apply Rmult_le_pos; lra).
  assert (Bm: R (h_est g) * R gr * (1 - u) - dd <= R (mul (h_est g) gr) <= 2147483648).
  { rewrite Em. split; [now apply rnd_dn|]. apply (rnd_le_int _ 2147483648); [reflexivity|].
    apply Rle_trans with (2147483648 * 1); [apply Rmult_le_compat; lra|simpl; lra]. }
  assert (Bm0: 0 <= R (mul (h_est g) gr)) by (rewrite Em; now apply rnd_nonneg).
  destruct (add_ok _ _ Fm F4) as [Fn En]; [rewrite E4; apply bpow1000_big; apply Rabs_le; simpl; split; lra|].
  set (newl := add (mul (h_est g) gr) (of_int 4)) in *.
  assert (Bn: R (h_est g) + 29 / 10 <= R newl <= 2147483652).
  { rewrite En, E4. split.
    - apply Rle_trans with ((R (mul (h_est g) gr) + IZR 4) * (1 - u) - dd); [|apply rnd_dn; simpl; lra].
      apply Rle_trans with (((R (h_est g) * R gr * (1 - u) - dd) + 4) * (1 - u) - dd).
      + apply (cand_lower _ _ (IZR Mx) delta); lra.
      + apply Rplus_le_compat_r. apply Rmult_le_compat_r; [unfold u; lra|]. simpl. lra.
    - apply (rnd_le_int _ 2147483652); [reflexivity|simpl; lra]. }
  (* smoothing and clamp *)
  pose proof (smooth_lower_c (h_s g) (h_est g) newl (R (h_est g) + 29 / 10) csf Fe Fn csb) as SL.
  assert (G1: 1 <= R (h_est g) <= 4294967296) by lra. assert (G2: 0 <= R (h_est g) + 29 / 10 <= R newl) by lra. assert (G3: R newl <= 4294967296) by lra.
  specialize (SL G1 G2 G3).
  assert (Sm: R (h_est g) + 24 / 10 * R (h_s g) <= R (add (mul (h_est g) (sub one (h_s g))) (mul newl (h_s g)))).
  { apply Rle_trans with (2 := SL).
    replace (R (h_est g) + 24 / 10 * R (h_s g)) with ((R (h_est g) + 19 / 10 * R (h_s g)) + R (h_s g) / 2) by field.
    apply (vrec_ineq _ _ _ (IZR Mx)); try lra. }
  (* finiteness of the smoothed value, for the clamp *)
  destruct (sub_ok one (h_s g) Fo csf) as [Fw Ew]; [rewrite Eo; apply bpow1000_big; apply Rabs_le; split; lra|].
  assert (Bw: 0 <= R (sub one (h_s g)) <= 1).
  { rewrite Ew, Eo. split; [apply rnd_nonneg; lra|]. apply (rnd_le_int _ 1); [reflexivity|simpl; lra]. }
  destruct (mul_ok _ _ Fe Fw) as [Fa Ea].
  { apply bpow1000_big. apply Rabs_le. assert (0 <= R (h_est g) * R (sub one (h_s g))) by (apply Rmult_le_pos; lra).
    assert (R (h_est g) * R (sub one (h_s g)) <= 2147483648 * 1) by (apply Rmult_le_compat; lra). split; lra. }
  assert (Ba: 0 <= R (mul (h_est g) (sub one (h_s g))) <= 2147483648).
  { rewrite Ea. assert (0 <= R (h_est g) * R (sub one (h_s g))) by (apply Rmult_le_pos; lra).
    assert (R (h_est g) * R (sub one (h_s g)) <= 2147483648 * 1) by (apply Rmult_le_compat; lra).
    split; [now apply rnd_nonneg|]. apply (rnd_le_int _ 2147483648); [reflexivity|lra]. }
  destruct (mul_ok _ _ Fn csf) as [Fb Eb].
  { apply bpow1000_big. apply Rabs_le. assert (0 <= R newl * R (h_s g)) by (apply Rmult_le_pos; lra).
    assert (R newl * R (h_s g) <= 2147483652 * 1) by (apply Rmult_le_compat; lra). split; lra. }
  assert (Bb: 0 <= R (mul newl (h_s g)) <= 2147483652).
  { rewrite Eb. assert (0 <= R newl * R (h_s g)) by (apply Rmult_le_pos; lra).
    assert (R newl * R (h_s g) <= 2147483652 * 1) by (apply Rmult_le_compat; lra).
    split; [now apply rnd_nonneg|]. apply (rnd_le_int _ 2147483652); [reflexivity|lra]. }
  destruct (add_ok _ _ Fa Fb) as [Fc _]; [apply bpow1000_big; apply Rabs_le; split; lra|].
  destruct (of_int_exact (h_min g)) as [Fmn Emn]; [lia|]. destruct (of_int_exact (h_max g)) as [Fmx Emx]; [lia|].
  destruct (fmin_ok _ _ Fmx Fc) as [F1c E1c]. destruct (fmax_ok _ _ Fmn F1c) as [F2c E2c].
  refine (Rle_trans _ _ _ _ (Req_le _ _ (eq_sym E2c))). rewrite E1c, Emx.
  apply Rle_trans with (2 := Rmax_r _ _). apply Rle_min_compat_l. lra.
Qed.
End Step.

(* ---------------- the long-term average follows a constant RTT ---------------- *)
Lemma R_c09_tight : 89 / 100 <= R c09.
Proof.
  assert (E: B2SF c09 = SpecFloat.S754_finite false 8106479329266893 (-53)) by (vm_compute; reflexivity).
  unfold R. rewrite <- SF2R_B2SF, E. unfold SF2R, F2R. cbn [Defs.Fnum Defs.Fexp cond_Zopp].
  change (bpow radix2 (-53)) with (/ IZR (Z.pow_pos 2 53)). change (Z.pow_pos 2 53) with 9007199254740992%Z. lra.
Qed.

Lemma deficit_ineq x D f d : 1 <= x -> 0 <= D <= 1 -> 0 <= f <= 1 -> 4 * u <= D * f -> 0 < d <= / 1000000000000000000000000000000 ->
  x * (1 - D) <= ((x * (1 - D) * ((1 - f) * (1 - u) - d)) * (1 - u) - d + (x * f * (1 - u) - d)) * (1 - u) - d.
Proof.
  intros Hx HD Hf HDf Hd. pose proof u_pos as U0. set (k := 1 - u). assert (K1: /2 <= k <= 1) by (unfold k, u; lra).
  assert (K3: 1 - 3 * u <= k*k*k) by (unfold k, u; nra). assert (K2: k*k*k <= k*k) by nra. assert (K2': k * k <= 1) by nra.
  set (y := x * (1 - D)). assert (Y: 0 <= y <= x) by (unfold y; nra).
  replace (((y * ((1 - f) * k - d)) * k - d + (x * f * k - d)) * k - d)
    with (y * (1 - f) * (k*k*k) + x * f * (k*k) - (y * (d * (k*k)) + d*k + d*k + d)) by ring.
  assert (A1: y * (1 - f) * (1 - 3*u) <= y * (1 - f) * (k*k*k)) by (apply Rmult_le_compat_l; [apply Rmult_le_pos; lra|lra]).
  assert (A2: x * f * (1 - 3*u) <= x * f * (k*k)) by (apply Rmult_le_compat_l; [apply Rmult_le_pos; lra|lra]).
  assert (A3: y * (d * (k*k)) <= x * d) by (apply Rmult_le_compat; nra).
  assert (A4: d * k <= d) by nra.
  (* y(1-f) + x f = x (1 - D (1 - f)) >= x (1 - D) + x D f >= y + 4 u x *)
  assert (A5: y * (1 - f) + x * f = y + x * (D * f)) by (unfold y; ring).
  assert (A6: x * (4 * u) <= x * (D * f)) by (apply Rmult_le_compat_l; lra).
  assert (A7: (y * (1 - f) + x * f) * (3 * u) <= x * (3 * u)).
  { apply Rmult_le_compat_r; [lra|]. assert (y * (1 - f) <= x * (1 - f)) by (apply Rmult_le_compat_r; lra). lra. }
  assert (A8: x * d + 3 * d <= x * u / 2) by (unfold u; nra).
  nra.
Qed.

Lemma ea_deficit_step m x D : EInv m -> (ea_count m <? ea_warmup m)%Z = false -> fin x = true -> 1 <= R x <= 9007199254740991 ->
  0 <= D <= 1 -> 4 * u <= D * R (ea_factor (ea_window m)) -> R x * (1 - D) <= R (ea_value m) ->
  R x * (1 - D) <= R (ea_value (ea_add m x)).
Proof.
  intros [Vf Vb Sf Sb Cb Wm Ff Fb] Post Fx Bx HD HDf Hv. unfold ea_add. rewrite Post. cbn [ea_value].
  set (f := ea_factor (ea_window m)) in *. destruct R_one as [Fo Eo]. pose proof dd_small as [D0 D1]. pose proof u_pos as U0. assert (U1: u <= /2) by (unfold u; lra).
  assert (F01: 0 <= R f <= 1) by (unfold f0 in Fb; lra).
  destruct (sub_ok one f Fo Ff) as [Fw Ew]; [rewrite Eo; apply bpow1000_big; apply Rabs_le; split; lra|]. rewrite Eo in Ew.
  assert (Bw: (1 - R f) * (1 - u) - dd <= R (sub one f) /\ 0 <= R (sub one f) <= 1).
  { rewrite Ew. split; [apply rnd_dn; lra|]. split; [apply rnd_nonneg; lra|]. apply (rnd_le_int _ 1); [reflexivity|simpl; lra]. }
  destruct (mul_ok _ _ Vf Fw) as [Fa Ea].
  { apply bpow1000_big. apply Rabs_le. assert (0 <= R (ea_value m) * R (sub one f)) by (apply Rmult_le_pos; tauto).
    assert (R (ea_value m) * R (sub one f) <= BB * 1) by (apply Rmult_le_compat; tauto). unfold BB in *. split; lra. }
  destruct (mul_ok _ _ Fx Ff) as [Fb' Eb].
  { apply bpow1000_big. apply Rabs_le. assert (0 <= R x * R f) by (apply Rmult_le_pos; lra).
    assert (R x * R f <= 9007199254740991 * 1) by (apply Rmult_le_compat; lra). split; lra. }
  assert (P1: 0 <= R (ea_value m) * R (sub one f)) by (apply Rmult_le_pos; tauto).
  assert (P2: 0 <= R x * R f) by (apply Rmult_le_pos; lra).
  assert (Y0: 0 <= R x * (1 - D)) by (apply Rmult_le_pos; lra).
  assert (A1: R x * (1 - D) * ((1 - R f) * (1 - u) - dd) * (1 - u) - dd <= R (mul (ea_value m) (sub one f))).
  { rewrite Ea. apply Rle_trans with (2 := rnd_dn _ P1). apply Rplus_le_compat_r. apply Rmult_le_compat_r; [lra|].
    apply Rle_trans with (R x * (1 - D) * R (sub one f)); [apply Rmult_le_compat_l; tauto|apply Rmult_le_compat_r; tauto]. }
  assert (B1: R x * R f * (1 - u) - dd <= R (mul x f)) by (rewrite Eb; now apply rnd_dn).
  assert (A2: 0 <= R (mul (ea_value m) (sub one f)) <= BB).
  { rewrite Ea. split; [now apply rnd_nonneg|]. apply Rle_trans with (rnd BB); [apply rnd_mono|rewrite rnd_id; [lra|rewrite BB_pow; apply fmt_bpow; lia]].
    apply Rle_trans with (BB * 1); [apply Rmult_le_compat; tauto|lra]. }
  assert (B2: 0 <= R (mul x f) <= 9007199254740991).
  { rewrite Eb. split; [now apply rnd_nonneg|]. apply (rnd_le_int _ 9007199254740991); [reflexivity|].
    apply Rle_trans with (9007199254740991 * 1); [apply Rmult_le_compat; lra|simpl; lra]. }
  destruct (add_ok _ _ Fa Fb') as [Fn En]; [apply bpow1000_big; apply Rabs_le; unfold BB in *; split; lra|].
  rewrite En. apply Rle_trans with ((R (mul (ea_value m) (sub one f)) + R (mul x f)) * (1 - u) - dd); [|apply rnd_dn; lra].
  apply Rle_trans with (((R x * (1 - D) * ((1 - R f) * (1 - u) - dd)) * (1 - u) - dd + (R x * R f * (1 - u) - dd)) * (1 - u) - dd).
  - apply deficit_ineq; lra.
  - apply Rplus_le_compat_r. apply Rmult_le_compat_r; lra.
Qed.

(* ---------------- sustained healthy traffic at a constant RTT ---------------- *)
Definition g2_long_ok (g : grad2) (r : Z) (D : Rdefinitions.R) : Prop :=
  (ea_count (h_long g) <? ea_warmup (h_long g))%Z = false /\ 4 * u <= D * R (ea_factor (ea_window (h_long g))) /\
  IZR r * (1 - D) <= R (ea_value (h_long g)).

Lemma g2_saturated g Mx s : G2Inv g Mx -> (Mx <= s_inflight s < 2^31)%Z -> flt (of_int (s_inflight s)) (div (h_est g) two) = false.
Proof.
  intros (C & Fe & Be & _) Hi. destruct C as [cM cmm cmx csf csb].
  destruct (of_int_exact (s_inflight s)) as [Fi Ei]; [lia|].
  assert (Ftwo: fin two = true /\ R two = 2) by (apply (of_int_exact 2); reflexivity). destruct Ftwo as [F2 E2].
  assert (MB: 1 <= IZR Mx <= 2147483648) by (split; [apply (IZR_le 1)|apply (IZR_le _ 2147483648)]; lia).
  assert (P0: 1 <= R (h_est g)) by (assert (1 <= IZR (h_min g)) by (apply (IZR_le 1); lia); lra).
  destruct (div_ok (h_est g) two Fe F2) as [Fh Eh]; [rewrite E2; lra|rewrite E2; apply bpow1000_big; apply Rabs_le; split; lra|]. rewrite E2 in Eh.
  rewrite (flt_R _ _ Fi Fh). destruct (Rlt_bool_spec (R (of_int (s_inflight s))) (R (div (h_est g) two))) as [Hlt|]; [|reflexivity].
  exfalso. assert (R (div (h_est g) two) <= IZR Mx) by (rewrite Eh; apply rnd_le_int; [lia|lra]).
  assert (IZR Mx <= IZR (s_inflight s)) by (apply IZR_le; lia). lra.
Qed.

Definition g2_healthy (Mx r : Z) (s : sample) : Prop := s_rtt s = r /\ (Mx <= s_inflight s < 2^31)%Z.

Theorem grad2_recovery_run Mx r D : forall ss g, G2Inv g Mx -> (20 <= Mx)%Z -> (1 <= r < 2^53)%Z ->
  0 <= D <= 1 -> D * IZR Mx <= 1 -> 8 * u * IZR Mx <= R (h_s g) ->
  g2_long_ok g r D -> Forall (g2_healthy Mx r) ss ->
  let g' := fold_left (fun a s => o_st (grad2_step a s)) ss g in
  Rmin (IZR (h_max g)) (R (h_est g) + INR (length ss) * (2 * R (h_s g))) <= R (h_est g') \/ ss = [].
Proof.
  induction ss as [|s l IH]; intros g HI HM Hr HD HDM Hsm (Post & HDf & Hv) HL; cbn [fold_left]; [right; reflexivity|left].
  inversion HL as [|? ? (Er & Hi) Hl]; subst.
  assert (HS: gsample_ok s) by (split; lia).
  destruct (of_int_exact (s_rtt s)) as [Fx Ex]; [lia|].
  assert (X1: 1 <= R (of_int (s_rtt s)) <= 9007199254740991) by (rewrite Ex; split; [apply (IZR_le 1)|apply (IZR_le _ 9007199254740991)]; lia).
  assert (EI: EInv (h_long g)) by (destruct HI as (_ & _ & _ & E); exact E).
  rewrite <- Ex in Hv.
  pose proof (ea_deficit_step (h_long g) (of_int (s_rtt s)) D EI Post Fx X1 HD HDf Hv) as Close.
  pose proof (grad2_recovers g Mx s D HI HS Hr (g2_saturated g Mx s HI Hi) HM (proj1 HD) HDM Hsm Close) as Step.
  pose proof (grad2_step_safe g Mx s HI HS) as Io.
  set (g1 := o_st (grad2_step g s)) in *.
  (* configuration and the long-term average of the new state *)
  assert (Cfg: h_s g1 = h_s g /\ h_max g1 = h_max g /\
               h_long g1 = (let l1 := ea_add (h_long g) (of_int (s_rtt s)) in
                            if fgt (div (ea_value l1) (of_int (s_rtt s))) two then ea_set l1 (mul (ea_value l1) c09) else l1)).
  { unfold g1, grad2_step. cbv zeta. destruct (flt _ _); cbn [o_st mk h_s h_max h_long]; repeat split. }
  destruct Cfg as (Es & Em & El).
  assert (Long1: g2_long_ok g1 (s_rtt s) D).
  { unfold g2_long_ok. rewrite El. cbv zeta. set (l1 := ea_add (h_long g) (of_int (s_rtt s))) in *.
    assert (P1: (ea_count l1 <? ea_warmup l1)%Z = false /\ ea_window l1 = ea_window (h_long g)).
    { unfold l1, ea_add. rewrite Post. cbn [ea_count ea_warmup ea_window]. split; [exact Post|reflexivity]. }
    destruct P1 as [P1 P2].
    destruct (fgt (div (ea_value l1) (of_int (s_rtt s))) two) eqn:Dec; cbn [ea_set ea_count ea_warmup ea_window ea_value].
    - (* the long average was more than twice the RTT: it is scaled by 0.9 and stays above the RTT *)
      rewrite P2. split; [exact P1|]. split; [exact HDf|].
      assert (Xok: xs_ok (of_int (s_rtt s))) by (split; [exact Fx|unfold XX; lra]).
      pose proof (ea_add_inv _ _ EI Xok) as E1.
      destruct E1 as [Vf Vb _ _ _ _ _ _]. fold l1 in Vf, Vb.
      destruct R_c09 as [Fc Bc]. pose proof R_c09_tight as Tc.
      assert (Ftwo: fin two = true /\ R two = 2) by (apply (of_int_exact 2); reflexivity). destruct Ftwo as [F2 E2].
      assert (Q0: 0 <= R (ea_value l1) / R (of_int (s_rtt s)) <= BB).
      { split; [unfold Rdiv; apply Rmult_le_pos; [tauto|apply Rlt_le, Rinv_0_lt_compat; lra]|].
        apply Rmult_le_reg_r with (R (of_int (s_rtt s))); [lra|]. unfold Rdiv. rewrite Rmult_assoc, Rinv_l by lra.
        apply Rle_trans with (BB * 1); [lra|]. apply Rmult_le_compat_l; [unfold BB; lra|lra]. }
      destruct (div_ok _ _ Vf Fx) as [Fd Ed]; [lra|apply bpow1000_big; apply Rabs_le; unfold BB in Q0; split; lra|].
      unfold fgt in Dec. rewrite (flt_R _ _ F2 Fd), E2, Ed in Dec.
      destruct (Rlt_bool_spec 2 (rnd (R (ea_value l1) / R (of_int (s_rtt s))))) as [G2|]; [|discriminate].
      assert (Big: 2 <= R (ea_value l1) / R (of_int (s_rtt s))).
      { destruct (Rle_dec 2 (R (ea_value l1) / R (of_int (s_rtt s)))) as [|N]; [assumption|]. exfalso.
        assert (rnd (R (ea_value l1) / R (of_int (s_rtt s))) <= 2) by (apply (rnd_le_int _ 2); [reflexivity|simpl; lra]). lra. }
      assert (Big': 2 * R (of_int (s_rtt s)) <= R (ea_value l1)).
      { apply Rmult_le_reg_r with (/ R (of_int (s_rtt s))); [apply Rinv_0_lt_compat; lra|]. rewrite Rmult_assoc, Rinv_r by lra. unfold Rdiv in Big. lra. }
      destruct (mul_ok _ _ Vf Fc) as [Fm Em'].
      { apply bpow1000_big. apply Rabs_le. assert (0 <= R (ea_value l1) * R c09) by (apply Rmult_le_pos; tauto).
        assert (R (ea_value l1) * R c09 <= BB * 1) by (apply Rmult_le_compat; tauto). unfold BB in *. lra. }
      rewrite Em'. rewrite <- Ex. apply Rle_trans with (R (of_int (s_rtt s))); [assert (0 <= R (of_int (s_rtt s)) * D) by (apply Rmult_le_pos; lra); lra|].
      rewrite <- (rnd_id (R (of_int (s_rtt s)))) by apply fmt_R. apply rnd_mono. nra.
    - rewrite P2. split; [exact P1|]. split; [exact HDf|]. rewrite <- Ex. exact Close. }
  specialize (IH g1 Io HM Hr HD HDM). rewrite Es, Em in IH. specialize (IH Hsm Long1 Hl). cbv zeta in IH.
  assert (S0: 0 <= 2 * R (h_s g)) by (destruct HI as ([_ _ _ _ [? _]] & _); lra).
  cbn [length]. rewrite S_INR. set (t := 2 * R (h_s g)) in *. set (mx := IZR (h_max g)) in *.
  assert (T: 0 <= INR (length l) * t) by (apply Rmult_le_pos; [apply pos_INR|exact S0]).
  fold t in Step. destruct IH as [IH|E0]; [|subst l].
  - apply Rle_trans with (2 := IH). apply Rmin_glb; [apply Rmin_l|].
    destruct (Rle_dec mx (R (h_est g) + t)) as [A|B].
    + rewrite Rmin_left in Step by lra. apply Rle_trans with (1 := Rmin_l _ _). lra.
    + rewrite Rmin_right in Step by lra. apply Rle_trans with (1 := Rmin_r _ _). lra.
  - cbn [fold_left length INR]. fold g1. apply Rle_trans with (2 := Step). apply Rle_min_compat_l. lra.
Qed.
