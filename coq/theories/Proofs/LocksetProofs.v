(* C17: the lock-set discipline implies race freedom (generic, any table, any number of threads, any schedule),
   and a boolean checker for the discipline with its reflection lemma. *)
From Coq Require Import List Lia Bool Arith.
From GCL Require Import Model.Lockset.
Import ListNotations.

Section P.
Variable table : list method.
Local Notation cur_held := (cur_held table).
Local Notation cur_event := (cur_event table).
Local Notation others_compat := (others_compat table).
Local Notation step := (step table).
Local Notation reachable := (reachable table).
Local Notation race := (race table).
Local Notation discipline := (discipline table).

(* mutual exclusion invariant *)
Definition Excl (ts : list tstate) : Prop :=
  forall i j ti tj, i <> j -> nth_error ts i = Some ti -> nth_error ts j = Some tj ->
    share_excl (cur_held ti) (cur_held tj) = false.

Lemma nth_upd_same (l : list tstate) i old t : nth_error l i = Some old -> nth_error (upd l i t) i = Some t.
Proof. revert i; induction l as [|q l IH]; intros [|i] H; cbn in H; try discriminate; cbn; auto. Qed.
Lemma nth_upd_other (l : list tstate) i j t : i <> j -> nth_error (upd l i t) j = nth_error l j.
Proof. revert i j; induction l as [|q l IH]; intros [|i] [|j] H; cbn; try congruence; auto. Qed.

Lemma held_at_S m k e : nth_error m k = Some e -> held_at m (S k) = apply_ev (held_at m k) e.
Proof.
  intros H. unfold held_at.
  assert (firstn (S k) m = firstn k m ++ [e]).
  { revert k H; induction m as [|x m IH]; intros [|k] H; cbn in *; try discriminate.
    - inversion H; reflexivity.
    - f_equal. now apply IH. }
  rewrite H0, fold_left_app. reflexivity.
Qed.

Lemma share_excl_nil_l h : share_excl [] h = false. Proof. reflexivity. Qed.
Lemma share_excl_nil_r h : share_excl h [] = false.
Proof. induction h; cbn; auto. Qed.

Lemma share_excl_sym h1 h2 : share_excl h1 h2 = share_excl h2 h1.
Proof.
  apply eq_true_iff_eq. unfold share_excl. rewrite !existsb_exists. split.
  - intros (p1 & I1 & H). apply existsb_exists in H as (p2 & I2 & H). exists p2; split; auto.
    apply existsb_exists. exists p1; split; auto. apply andb_true_iff in H as [A B]. apply andb_true_iff; split.
    apply Nat.eqb_eq in A. apply Nat.eqb_eq; auto. destruct (snd p1), (snd p2); auto.
  - intros (p1 & I1 & H). apply existsb_exists in H as (p2 & I2 & H). exists p2; split; auto.
    apply existsb_exists. exists p1; split; auto. apply andb_true_iff in H as [A B]. apply andb_true_iff; split.
    apply Nat.eqb_eq in A. apply Nat.eqb_eq; auto. destruct (snd p1), (snd p2); auto.
Qed.

Lemma share_excl_filter_l f h1 h2 : share_excl h1 h2 = false -> share_excl (filter f h1) h2 = false.
Proof.
  unfold share_excl. intros H. apply not_true_is_false. intros C. apply existsb_exists in C as (p & I & C).
  apply filter_In in I as [I _]. assert (existsb (fun p1 => existsb (fun p2 => Nat.eqb (fst p1) (fst p2) &&
     match snd p1, snd p2 with Rd, Rd => false | _, _ => true end) h2) h1 = true) by (apply existsb_exists; eauto). congruence.
Qed.

Lemma share_excl_cons_l l m h1 h2 : share_excl h1 h2 = false -> compat h2 l m = true -> share_excl ((l, m) :: h1) h2 = false.
Proof.
  intros H C. unfold share_excl in *. cbn [existsb]. rewrite H, orb_false_r.
  apply not_true_is_false. intros E. apply existsb_exists in E as (p2 & I & E). cbn [fst snd] in E.
  unfold compat in C. rewrite forallb_forall in C. specialize (C _ I).
  apply andb_true_iff in E as [A B]. apply Nat.eqb_eq in A. rewrite <- A, Nat.eqb_refl in C. cbn in C.
  destruct m, (snd p2); try discriminate.
Qed.

Lemma step_excl ts ts' : Excl ts -> step ts ts' -> Excl ts'.
Proof.
  intros HE Hs.
  (* in every case thread i0 moves from t0 to t1; relate the held sets *)
  assert (G: forall i0 t0 t1, nth_error ts i0 = Some t0 -> ts' = upd ts i0 t1 ->
             (forall j tj, j <> i0 -> nth_error ts j = Some tj -> share_excl (cur_held t1) (cur_held tj) = false) -> Excl ts').
  { intros i0 t0 t1 H0 -> Hnew i j ti tj Hij Hi Hj.
    destruct (Nat.eq_dec i i0) as [->|Ni]; destruct (Nat.eq_dec j i0) as [->|Nj]; try congruence.
    - rewrite (nth_upd_same _ _ _ _ H0) in Hi. inversion Hi; subst ti.
      rewrite (nth_upd_other _ _ _ _ (not_eq_sym Nj)) in Hj. exact (Hnew j tj Nj Hj).
    - rewrite (nth_upd_same _ _ _ _ H0) in Hj. inversion Hj; subst tj.
      rewrite (nth_upd_other _ _ _ _ (not_eq_sym Ni)) in Hi.
      rewrite share_excl_sym. exact (Hnew i ti Ni Hi).
    - rewrite (nth_upd_other _ _ _ _ (not_eq_sym Ni)) in Hi. rewrite (nth_upd_other _ _ _ _ (not_eq_sym Nj)) in Hj.
      exact (HE i j ti tj Hij Hi Hj). }
  inversion Hs; subst.
  - apply (G i _ _ H eq_refl). intros j tj _ _. reflexivity.
  - apply (G i _ _ H eq_refl). intros j tj _ _. reflexivity.
  - apply (G i _ _ H eq_refl). intros j tj Hj Ht. cbn [cur_held]. rewrite (held_at_S _ _ _ H0). cbn [apply_ev].
    apply share_excl_cons_l. apply (HE i j _ _ (not_eq_sym Hj) H Ht). eapply H1; eauto.
  - apply (G i _ _ H eq_refl). intros j tj Hj Ht. cbn [cur_held]. rewrite (held_at_S _ _ _ H0). cbn [apply_ev].
    apply share_excl_filter_l. apply (HE i j _ _ (not_eq_sym Hj) H Ht).
  - apply (G i _ _ H eq_refl). intros j tj Hj Ht. cbn [cur_held]. rewrite (held_at_S _ _ _ H0). cbn [apply_ev].
    apply (HE i j _ _ (not_eq_sym Hj) H Ht).
Qed.

Lemma init_excl n : Excl (repeat None n).
Proof.
  intros i j ti tj _ Hi _. apply nth_error_In, repeat_spec in Hi. subst. reflexivity.
Qed.

Theorem lockset_sound n ts : discipline -> reachable n ts -> ~ race ts.
Proof.
  intros D Hr. assert (HE: Excl ts) by (induction Hr; [apply init_excl | eapply step_excl; eauto]).
  intros (i & j & ti & tj & ei & ej & Hij & Hi & Hj & Ei & Ej & C).
  specialize (HE i j ti tj Hij Hi Hj).
  destruct ti as [[mi ki]|]; [|discriminate]. destruct tj as [[mj kj]|]; [|discriminate].
  cbn [cur_event cur_held] in *. rewrite (D _ _ _ _ _ _ Ei Ej C) in HE. discriminate.
Qed.

(* ---- boolean checker ---- *)
Fixpoint with_held (m : method) (h : held) : list (event * held) :=
  match m with [] => [] | e :: r => (e, h) :: with_held r (apply_ev h e) end.
Definition all_events : list (event * held) := flat_map (fun m => with_held m []) table.
Definition discipline_okb : bool :=
  forallb (fun p1 => forallb (fun p2 => negb (conflict (fst p1) (fst p2)) || share_excl (snd p1) (snd p2)) all_events) all_events.

Lemma with_held_nth m : forall h k e, nth_error m k = Some e -> In (e, fold_left apply_ev (firstn k m) h) (with_held m h).
Proof.
  induction m as [|x r IH]; intros h [|k] e H; cbn in H; try discriminate.
  - inversion H; subst. left. reflexivity.
  - right. cbn [firstn fold_left]. now apply IH.
Qed.
Lemma in_all_events mi k e : nth_error (nth mi table []) k = Some e -> In (e, held_at (nth mi table []) k) all_events.
Proof.
  intros H. unfold all_events. apply in_flat_map. exists (nth mi table []). split.
  - destruct (Nat.lt_ge_cases mi (length table)) as [L|L]; [now apply nth_In|].
    rewrite (nth_overflow table [] L) in H. destruct k; discriminate.
  - now apply with_held_nth.
Qed.
Theorem discipline_reflect : discipline_okb = true -> discipline.
Proof.
  intros H m1 k1 m2 k2 e1 e2 H1 H2 C. unfold discipline_okb in H. rewrite forallb_forall in H.
  specialize (H _ (in_all_events _ _ _ H1)). rewrite forallb_forall in H. specialize (H _ (in_all_events _ _ _ H2)).
  cbn [fst snd] in H. rewrite C in H. exact H.
Qed.
Theorem race_free n ts : discipline_okb = true -> reachable n ts -> ~ race ts.
Proof. intros H. apply lockset_sound. now apply discipline_reflect. Qed.
End P.
