From Coq Require Import ZArith List Lia Bool Arith.
From GCL Require Import Model.PollLTS.
Import ListNotations.
Open Scope Z_scope.

Lemma forall_pupd (P : ppc -> Prop) l i p : Forall P l -> P p -> Forall P (pupd l i p).
Proof.
  revert i; induction l as [|q l IH]; intros i H Hp; cbn; [constructor|].
  inversion H; subst. destruct i; constructor; auto.
Qed.

Lemma due_ok_frame s b t p : due_ok s p -> due_ok (pwith s b t) p.
Proof. unfold due_ok, pwith; cbn. auto. Qed.

Lemma forall_frame s b t l : Forall (due_ok s) l -> Forall (due_ok (pwith s b t)) l.
Proof. intros H. eapply Forall_impl; [|exact H]. intros p. apply due_ok_frame. Qed.

Lemma nth_forall (P : ppc -> Prop) l i p : Forall P l -> nth_error l i = Some p -> P p.
Proof. intros H E. rewrite Forall_forall in H. apply H. eapply nth_error_In; eauto. Qed.

Lemma inv_set s b i p : PInv s -> due_ok (pwith s b (pupd (pthr s) i p)) p -> PInv (pwith s b (pupd (pthr s) i p)).
Proof. intros [HP HI] Hp. split; [exact HP|]. cbn. apply forall_pupd; [apply forall_frame; exact HI|exact Hp]. Qed.

Lemma pstep_inv s a s' : PInv s -> pstep s a = Some s' -> PInv s'.
Proof.
  intros HI0 Hs. pose proof HI0 as [HP HI]. destruct a as [i|i|i|i| |i]; cbn [pstep] in Hs.
  - destruct (nth_error (pthr s) i) as [p|] eqn:Hg; try discriminate. destruct p; try discriminate.
    + destruct (pbusy s <? plimit s); inversion Hs; subst; apply inv_set; auto; unfold due_ok; cbn; try exact I; lia.
    + destruct (pbusy s <? plimit s); inversion Hs; subst; apply inv_set; auto; unfold due_ok; cbn; exact I.
  - destruct (nth_error (pthr s) i) as [p|] eqn:Hg; try discriminate. destruct p; try discriminate. inversion Hs; subst.
    apply inv_set; auto. pose proof (nth_forall _ _ _ _ HI Hg) as D. unfold due_ok in *; cbn in *. exact D.
  - destruct (nth_error (pthr s) i) as [p|] eqn:Hg; try discriminate. destruct p; try discriminate. inversion Hs; subst.
    apply inv_set; auto. unfold due_ok; cbn; exact I.
  - destruct (nth_error (pthr s) i) as [p|] eqn:Hg; try discriminate. destruct p; try discriminate. inversion Hs; subst.
    split; [exact HP|]. cbn. apply Forall_map.
    assert (F: Forall (due_ok s) (pupd (pthr s) i PDone)) by (apply forall_pupd; [exact HI|unfold due_ok; cbn; exact I]).
    eapply Forall_impl; [|exact F]. intros q Hq. destruct q; unfold due_ok in *; cbn in *; auto.
  - destruct (existsb (timer_due (pnow s)) (pthr s)) eqn:He; try discriminate. inversion Hs; subst. split; [exact HP|]. cbn.
    rewrite Forall_forall in *. intros p Hp. specialize (HI p Hp).
    assert (Hd: timer_due (pnow s) p = false).
    { destruct (timer_due (pnow s) p) eqn:E; [|reflexivity]. exfalso.
      assert (existsb (timer_due (pnow s)) (pthr s) = true) by (apply existsb_exists; eauto). congruence. }
    unfold due_ok, timer_due in *; cbn in *. destruct (due_of p) as [d|]; [|exact I]. apply Z.leb_gt in Hd. lia.
  - destruct (nth_error (pthr s) i) as [p|] eqn:Hg; try discriminate.
    destruct p; try discriminate; destruct (due <=? pnow s); try discriminate; inversion Hs; subst;
      apply inv_set; auto; unfold due_ok; cbn; exact I.
Qed.

(* C13 for the poll period: in every reachable state nobody is parked or asleep past its poll instant, and that instant is at most one
   period away - whatever the schedule of attempts, releases, broadcasts (lost or not) and clock ticks *)
Theorem poll_bound s0 s : PInv s0 -> preach s0 s -> PInv s.
Proof. intros H0 Hr. induction Hr; [assumption|eapply pstep_inv; eauto]. Qed.

(* ... and at its poll instant a caller that finds capacity free takes it: the wake-up lost in the window of F8 costs at most one period *)
Lemma nth_pupd l i (p q : ppc) : nth_error l i = Some q -> nth_error (pupd l i p) i = Some p.
Proof. revert i; induction l as [|x l IH]; intros [|i] H; cbn in *; try discriminate; auto. Qed.

Theorem poll_recovers s i d : nth_error (pthr s) i = Some (PAsleep d) \/ nth_error (pthr s) i = Some (PParked d) ->
  d <= pnow s -> pbusy s < plimit s ->
  exists s', prun s [PTimer i; PTry i] = Some s' /\ nth_error (pthr s') i = Some PHolding /\ pbusy s' = pbusy s + 1 /\ pnow s' = pnow s.
Proof.
  intros Hg Hd Hb. unfold prun; cbn [fold_left pstep].
  assert (E: exists q, nth_error (pthr s) i = Some q /\ (q = PAsleep d \/ q = PParked d)) by (destruct Hg; eauto).
  destruct E as (q & Hq & Hq'). rewrite Hq. destruct (Z.leb_spec d (pnow s)); [|lia].
  assert (X: (match q with PParked d0 | PAsleep d0 => if d0 <=? pnow s then Some (pwith s (pbusy s) (pupd (pthr s) i PIdle)) else None | _ => None end)
             = Some (pwith s (pbusy s) (pupd (pthr s) i PIdle))).
  { destruct Hq'; subst q; destruct (Z.leb_spec d (pnow s)); try lia; reflexivity. }
  rewrite X. cbn [pthr pwith pbusy plimit]. rewrite (nth_pupd _ _ PIdle _ Hq).
  destruct (Z.ltb_spec (pbusy s) (plimit s)); [|lia].
  eexists. split; [reflexivity|]. cbn. split; [|split; reflexivity].
  eapply nth_pupd. eapply nth_pupd. exact Hq.
Qed.

(* the lost wake-up itself, with a poll period: stranded at time 0, served at the poll instant *)
Example poll_witness :
  prun {| pbusy := 1; plimit := 1; pnow := 0; pperiod := 3; pthr := [PHolding; PIdle] |}
       [PTry 1%nat; PRel 0%nat; PBcast 0%nat; PSleep 1%nat; PTick; PTick; PTick; PTimer 1%nat; PTry 1%nat]
  = Some {| pbusy := 1; plimit := 1; pnow := 3; pperiod := 3; pthr := [PDone; PHolding] |}.
Proof. vm_compute. reflexivity. Qed.
Example poll_inv0 : PInv {| pbusy := 1; plimit := 1; pnow := 0; pperiod := 3; pthr := [PHolding; PIdle] |}.
Proof. split; cbn; [lia|]. repeat constructor; unfold due_ok; cbn; exact I. Qed.
