(* C07 for Gradient: from every state satisfying the safety invariant, a healthy saturated sample (drop-free, in-flight at least half
   the estimate, RTT not above the baseline, tolerance >= 1) that is not a probe step raises the reported estimate by at least the
   smallest queue allowance 4, up to the ceiling: est' >= min(max, est + 4). *)
From Coq Require Import ZArith Reals Lia Lra Psatz Bool List.
From Flocq Require Import Core BinarySingleNaN.
From GCL Require Import Base.F64 Base.F64Facts Proofs.Smooth Model.Measure Model.Limits Proofs.VegasSafe Proofs.AimdProofs Proofs.GradSafe Proofs.Grad2Safe Proofs.VegasDrop.
Import ListNotations.
Open Scope R_scope.

Definition healthy_rtt (g : grad) (s : sample) : Prop :=
  (0 < s_rtt s < 2^53)%Z /\ (feq (g_noload g) zero = true \/ R (of_int (s_rtt s)) <= R (g_noload g)).

Theorem grad_recovers g Mx s o : GInv g Mx -> gsample_ok s -> s_drop s = false ->
  healthy_rtt g s -> 1 <= R (g_tol g) ->
  flt (of_int (s_inflight s)) (div (g_est g) two) = false ->
  grad_step g s = Some o -> o_branch o <> 1%Z ->
  (Z.min (g_max g) (grad_est g + 4) <= grad_est (o_st o))%Z.
Proof.
  intros HI HS Hd [Hrt Hh] Ht Hsat H Hb.
  destruct (grad_step_safe g Mx s HI HS) as (o' & E' & I'). rewrite H in E'. injection E' as <-.
  destruct I' as (_ & Fin & [_ Bfin] & _). pose proof (gest_int g Mx HI) as EI. pose proof (Mx_b g Mx HI) as MB.
  destruct HI as (C & Fe & Be & Fn & Bn). destruct C as [cM cmin cmax cmm csf cs ctf ct]. destruct HS as [Hr Hi].
  revert H Hb Fin Bfin. unfold grad_step. destruct (sqrt_q_ok (to_int (g_est g))) as (q & Eq & Bq); [lia|]. rewrite Eq. cbv beta zeta.
  destruct (of_int_exact q) as [Fq Rq]; [lia|].
  destruct (negb (g_int g =? -1) && _).
  { intros H Hb; injection H as H; subst o. cbn [o_branch mk] in Hb. congruence. }
  rewrite Hd, Hsat. destruct (Z.ltb_spec 0 (s_rtt s)) as [_|]; [|lia].
  destruct (of_int_exact (s_rtt s)) as [Frt Ert]; [lia|]. set (frtt := of_int (s_rtt s)) in *.
  assert (P1: 1 <= R frtt) by (rewrite Ert; apply (IZR_le 1); lia).
  (* the new baseline equals the sample's RTT *)
  set (nl := min_add (g_noload g) frtt).
  assert (Nl: fin nl = true /\ R nl = R frtt).
  { unfold nl, min_add. destruct Hh as [Hz|Hle]; [rewrite Hz; cbn [orb]; auto|].
    destruct (feq (g_noload g) zero); cbn [orb]; auto. rewrite (flt_R _ _ Frt Fn).
    destruct (Rlt_bool_spec (R frtt) (R (g_noload g))); auto. split; [exact Fn|lra]. }
  destruct Nl as [Fnl Enl].
  assert (Ti: to_int nl = s_rtt s).
  { rewrite to_int_trunc; [rewrite Enl, Ert; apply Ztrunc_IZR|exact Fnl|rewrite Enl, Ert, Ztrunc_IZR; lia]. }
  rewrite Ti. fold frtt.
  (* the gradient is exactly 1 *)
  destruct R_one as [Fo Eo]. destruct R_half as [Fh Eh].
  destruct (mul_ok _ _ ctf Frt) as [Fa Ea].
  { apply bpow1000_big. apply Rabs_le. assert (0 <= R (g_tol g) * R frtt) by (apply Rmult_le_pos; lra).
    assert (R (g_tol g) * R frtt <= 1073741824 * 9007199254740992).
    { apply Rmult_le_compat; try lra. rewrite Ert. apply (IZR_le _ 9007199254740992). lia. } split; lra. }
  assert (A1: R frtt <= R (mul (g_tol g) frtt)).
  { rewrite Ea. rewrite <- (rnd_id (R frtt)) at 1 by apply fmt_R. apply rnd_mono. nra. }
  assert (A2: R (mul (g_tol g) frtt) <= 1e28).
  { rewrite Ea. apply Rle_trans with (rnd (IZR (2^93))).
    - apply rnd_mono. change (IZR (2^93)) with 9903520314283042199192993792.
      assert (R (g_tol g) * R frtt <= 1073741824 * 9007199254740992).
      { apply Rmult_le_compat; try lra. rewrite Ert. apply (IZR_le _ 9007199254740992). lia. } lra.
    - rewrite rnd_id; [change (IZR (2^93)) with 9903520314283042199192993792; lra|]. change (IZR (2^93)) with (bpow radix2 93). apply fmt_bpow. lia. }
  assert (Q0: 1 <= R (mul (g_tol g) frtt) / R frtt <= 1e28).
  { split.
    - apply Rmult_le_reg_r with (R frtt); [lra|]. unfold Rdiv. rewrite Rmult_assoc, Rinv_l by lra. lra.
    - apply Rle_trans with (R (mul (g_tol g) frtt) / 1); [|lra]. unfold Rdiv. apply Rmult_le_compat_l; [lra|]. apply Rinv_le_contravar; lra. }
  destruct (div_ok _ _ Fa Frt) as [Fd Ed]; [lra|apply bpow1000_big; apply Rabs_le; split; lra|].
  assert (D1: 1 <= R (div (mul (g_tol g) frtt) frtt)) by (rewrite Ed; apply (rnd_ge_int _ 1); [reflexivity|simpl; lra]).
  destruct (fmin_ok _ _ Fo Fd) as [F1 E1]. destruct (fmax_ok _ _ Fh F1) as [F2 E2].
  set (gr := fmax half (fmin one (div (mul (g_tol g) frtt) frtt))) in *.
  assert (Gr: R gr = 1).
  { rewrite E2, E1, Eo, Eh. rewrite Rmin_left by lra. apply Rmax_right. lra. }
  (* the candidate est*1 + q *)
  assert (P0: 1 <= R (g_est g)) by (assert (1 <= IZR (g_min g)) by (apply (IZR_le 1); lia); lra).
  destruct (mul_ok _ _ Fe F2) as [Fm Em]; [rewrite Gr; apply bpow1000_big; apply Rabs_le; split; lra|].
  rewrite Gr, Rmult_1_r, rnd_id in Em by apply fmt_R.
  assert (Bq': 4 <= IZR q <= 2147483648) by (split; [apply (IZR_le 4)|apply (IZR_le _ 2147483648)]; lia).
  destruct (add_ok _ _ Fm Fq) as [Fc Ec]; [rewrite Rq, Em; apply bpow1000_big; apply Rabs_le; split; lra|].
  rewrite Em, Rq in Ec.
  set (newl := add (mul (g_est g) gr) (of_int q)) in *.
  assert (E0: 0 <= R (g_est g) <= 4611686018427387904) by lra.
  assert (Fl: IZR (to_int (g_est g) + q) <= R newl).
  { rewrite Ec. apply rnd_ge_int; [lia|]. rewrite plus_IZR. rewrite (to_int_floor _ Fe E0). pose proof (Zfloor_lb (R (g_est g))). lra. }
  assert (Ge: R (g_est g) <= R newl).
  { rewrite Ec. rewrite <- (rnd_id (R (g_est g))) at 1 by apply fmt_R. apply rnd_mono. lra. }
  rewrite (flt_R _ _ Fc Fe). destruct (Rlt_bool_spec (R newl) (R (g_est g))) as [Hlt|_]; [lra|].
  intros H Hb Fin Bfin; injection H as H; subst o. cbn [o_st mk grad_set g_est] in *. unfold grad_est. cbn [grad_set g_est].
  destruct (of_int_exact (g_max g)) as [Fmx Emx]; [lia|].
  destruct (fmin_ok _ _ Fmx Fc) as [F3 E3]. destruct (fmax_ok _ _ Fq F3) as [F4 E4].
  assert (L: IZR (Z.min (g_max g) (to_int (g_est g) + 4)) <= R (fmax (of_int q) (fmin (of_int (g_max g)) newl))).
  { rewrite E4, E3, Emx. apply Rle_trans with (2 := Rmax_r _ _). apply Rmin_glb.
    - apply IZR_le. lia.
    - apply Rle_trans with (2 := Fl). apply IZR_le. lia. }
  assert (T: (Z.min (g_max g) (to_int (g_est g) + 4) <= to_int (fmax (of_int q) (fmin (of_int (g_max g)) newl)) <= Mx)%Z).
  { apply to_int_range2; auto; try lia. }
  exact (proj1 T).
Qed.

(* ---- sustained healthy runs ---- *)
Lemma grad_step_fields g s o : grad_step g s = Some o ->
  g_s (o_st o) = g_s g /\ g_tol (o_st o) = g_tol g /\ g_max (o_st o) = g_max g /\ g_min (o_st o) = g_min g /\
  (o_branch o <> 1%Z -> g_noload (o_st o) = min_add (g_noload g) (of_int (s_rtt s))).
Proof.
  unfold grad_step. destruct (sqrt_q _); [|discriminate]. cbv beta zeta.
  repeat match goal with |- context [if ?c then _ else _] => destruct c end; intros H; injection H as H; subst o;
    cbn [o_st o_branch mk grad_set g_s g_tol g_max g_min g_noload]; repeat split; auto; intros; congruence.
Qed.

Lemma healthy_min_add g s : fin (g_noload g) = true -> healthy_rtt g s ->
  R (min_add (g_noload g) (of_int (s_rtt s))) = R (of_int (s_rtt s)).
Proof.
  intros Fn [Hrt Hh]. destruct (of_int_exact (s_rtt s)) as [Frt Ert]; [lia|].
  unfold min_add. destruct Hh as [Hz|Hle]; [rewrite Hz; reflexivity|].
  destruct (feq (g_noload g) zero); cbn [orb]; auto. rewrite (flt_R _ _ Frt Fn).
  destruct (Rlt_bool_spec (R (of_int (s_rtt s))) (R (g_noload g))); auto. lra.
Qed.

(* a run in which no step is a probe step *)
Fixpoint grad_run_noprobe (g : grad) (l : list sample) : option grad :=
  match l with
  | nil => Some g
  | s :: r => match grad_step g s with
              | Some o => if (o_branch o =? 1)%Z then None else grad_run_noprobe (o_st o) r
              | None => None end
  end.

Definition healthy_sample (Mx r : Z) (s : sample) : Prop :=
  s_rtt s = r /\ s_drop s = false /\ (Mx <= s_inflight s < 2^31)%Z.

Lemma saturated g Mx s : GInv g Mx -> (Mx <= s_inflight s < 2^31)%Z -> flt (of_int (s_inflight s)) (div (g_est g) two) = false.
Proof.
  intros HI Hi. pose proof (Mx_b g Mx HI) as MB. destruct HI as (C & Fe & Be & _). destruct C as [cM cmin cmax cmm csf cs ctf ct].
  destruct (of_int_exact (s_inflight s)) as [Fi Ei]; [lia|].
  assert (Ftwo: fin two = true /\ R two = 2) by (apply (of_int_exact 2); reflexivity). destruct Ftwo as [F2 E2].
  assert (P0: 1 <= R (g_est g)) by (assert (1 <= IZR (g_min g)) by (apply (IZR_le 1); lia); lra).
  destruct (div_ok (g_est g) two Fe F2) as [Fh Eh]; [rewrite E2; lra|rewrite E2; apply bpow1000_big; apply Rabs_le; split; lra|]. rewrite E2 in Eh.
  rewrite (flt_R _ _ Fi Fh). destruct (Rlt_bool_spec (R (of_int (s_inflight s))) (R (div (g_est g) two))) as [Hlt|]; [|reflexivity].
  exfalso. assert (R (div (g_est g) two) <= IZR Mx).
  { rewrite Eh. apply rnd_le_int; [lia|]. lra. }
  assert (IZR Mx <= IZR (s_inflight s)) by (apply IZR_le; lia). lra.
Qed.

Theorem grad_recovery_run Mx r : forall ss g g', GInv g Mx -> 1 <= R (g_tol g) ->
  (0 < r < 2^53)%Z -> (feq (g_noload g) zero = true \/ R (of_int r) <= R (g_noload g)) ->
  Forall (healthy_sample Mx r) ss -> grad_run_noprobe g ss = Some g' ->
  (Z.min (g_max g) (grad_est g + 4 * Z.of_nat (length ss)) <= grad_est g')%Z.
Proof.
  induction ss as [|s l IH]; intros g g' HI Ht Hr Hh HL E; cbn [grad_run_noprobe] in E.
  - injection E as <-. cbn [length]. lia.
  - inversion HL as [|? ? (Er & Hd & Hi) Hl]; subst.
    assert (M4: (4 <= Mx)%Z) by (destruct HI as [[cM _ _ _ _ _ _ _] _]; lia).
    assert (HS: gsample_ok s) by (split; lia).
    destruct (grad_step_safe g Mx s HI HS) as (o & Eo & Io). rewrite Eo in E.
    destruct (Z.eqb_spec (o_branch o) 1) as [|Hb]; [discriminate|].
    assert (HH: healthy_rtt g s) by (split; [lia|exact Hh]).
    pose proof (grad_recovers g Mx s o HI HS Hd HH Ht (saturated g Mx s HI Hi) Eo Hb) as Step.
    destruct (grad_step_fields g s o Eo) as (_ & Et & Em & _ & En). specialize (En Hb).
    assert (Fn: fin (g_noload g) = true) by (destruct HI as (_ & _ & _ & Fn & _); exact Fn).
    specialize (IH (o_st o) g' Io). rewrite Et, Em in IH.
    assert (Hh': feq (g_noload (o_st o)) zero = true \/ R (of_int (s_rtt s)) <= R (g_noload (o_st o))).
    { right. rewrite En, (healthy_min_add g s Fn HH). lra. }
    specialize (IH Ht Hr Hh' Hl E). cbn [length]. rewrite Nat2Z.inj_succ. lia.
Qed.
