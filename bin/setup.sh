#!/bin/sh
# Builds the whole framework from files on disk, offline: Coq development (full .vo), extracted model driver,
# Go tools and a warm Go build cache for the harness.
set -e
cd /verif
export GOFLAGS=-mod=mod GOPROXY=off GOSUMDB=off GOTOOLCHAIN=local
[ -x tools/gen.sh ] && sh tools/gen.sh || true
cd coq && coq_makefile -f _CoqProject -o Makefile >/dev/null && make -j16 && cd ..
sh modelrun/build.sh
cp /repo/go.sum harness/go.sum
(cd harness && go1.26.8 test -tags verif -count=1 -run '^$' . >/dev/null)
echo setup-ok
