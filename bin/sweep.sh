#!/bin/sh
# multi-seed sweep of all quick checks (false-alarm hunt); usage: bin/sweep.sh "2 3 4" [props...]
cd "$(dirname "$0")/.."
[ -f coq/Makefile ] || sh bin/setup.sh >/dev/null 2>&1
seeds="$1"; shift
props="${*:-C01 C02 C03 C04 C05 C06 C07 C08 C09 C10 C11 C12 C13 C14 C15 C16 C17 C18 C19 C20}"
for s in $seeds; do for p in $props; do
  out=$(VERIF_SEED=$s bin/check --property $p 2>&1)
  echo "$out" | grep -E "^(VIOLATION|C[0-9]+ quick)" | sed "s/^/seed=$s /"
  echo "$out" | grep -q "^VIOLATION" && { f=$(echo "$out" | grep -o "replay=[^ ]*" | cut -d= -f2); python3 -c "import json,sys;d=json.load(open('$f'));print('   ',d.get('signature'),str(d.get('oracle') or d.get('broken'))[:400])"; }
done; done
