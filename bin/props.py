# Per-property tables used by bin/check: harness drivers, the non-triviality rule reported in the evidence,
# extra trusted-base items and assumptions.
PROPS = {
 "C14": {
  "tests": ["TestC14", "TestC14Edge"],
  "rule": "every (interceptor kind, option list, acquire result, call error, classifier answer) combination is enumerated "
          "exhaustively for single calls, plus random RecvMsg/SendMsg sequences; a case is non-trivial when it performs a wrapped "
          "call with recording doubles installed; distinct = distinct (options, operation) tuples",
  "level_text": "Theorems C14_unary_server/_unary_client/_stream/_options_* (Coq, closed under the global context) state the full contract of each wrapper for every option list, outcome and RecvMsg/SendMsg sequence; the model is tied to grpc/*.go by replaying every enumerated combination on the real interceptors with recording doubles.",
  "level_note": "Trusted: Coq kernel; the hand-written model of the four wrappers (checked differentially, exhaustively over the finite outcome space, on every run); doubles for limiter/handler/stream; classifier answers restricted to success/ignore/dropped.",
  "technique": "Coq theorem over wrapper model + exhaustive differential replay on the real interceptors",
  "assumptions": ["the gRPC runtime invokes interceptors as the harness does (handler/invoker/stream are doubles)",
                  "classifier answers range over success/ignore/dropped as the property states"],
 },
 "C04": {
  "tests": ["TestC04", "TestC04TableEdge", "TestC04Allowance"],
  "rule": "random valid configurations of AIMD/Vegas/Gradient/Gradient2, each plain, traced, windowed and traced(windowed); sample streams "
          "mix structured phases (steady, idle, overload, drop bursts), boundary-targeted values computed from the implementation's "
          "state (in-flight around est/2 and est, RTT solved for Vegas' queue thresholds, RTT = baseline +-1) and edge values "
          "(rtt 0, 1, 2^53+1, 2^62, in-flight 0 and 2^31-1); non-trivial = a sample that changed the estimate or carried an edge value; "
          "distinct by (algorithm, wrapper, estimate before/after, inputs)",
  "level_text": "C04_aimd_safe, C04_vegas_safe (all jitter draws, Log10 oracle in [2,400]), C04_gradient_safe (incl. zero RTTs, any countdown draws) and C04_gradient2_safe are proved for every "
                "sample list of unbounded length: no panic, finite estimate, reported integer within [floor, ceiling]; C04_windowed_safe lifts this through the windowed wrapper for every raw sample "
                "list whose RTT sum stays below 2^63; the lookup tables of limit/functions are re-dumped and checked against the model's closed forms on every run.",
  "level_note": "Trusted: Coq kernel + 4 stdlib real/classical axioms (Flocq); binary64 model of the Go float operations (amd64 int conversion, math.Max/Min); "
                "math.Log10 beyond the lookup table and math/rand draws are oracle inputs constrained only by range; model tied to limit/*.go by bit-exact replay of every sample.",
  "technique": "Coq/Flocq invariant proof over binary64 model + bit-exact differential replay",
  "assumptions": ["rtt in [0,2^62], in-flight in [0,2^31)", "Vegas smoothing >= 8*2^-53*max (theorem hypothesis)", "window sums below 2^63 for the windowed wrapper"],
 },
 "C06": {
  "tests": ["TestC06", "TestC06Concurrent"],
  "rule": "reachable states by random prefixes (as C04), every drop sample checked for non-increase and AIMD's exact rule, then a sustained run of "
          "drops at the current baseline RTT until the floor; concurrent drop samples from several goroutines (never a rise between ordered reads, result = sequential twin); non-trivial = a drop sample / a completed floor run; distinct by (algorithm, estimate, inputs)",
  "level_text": "C06_aimd_exact (the decrease rule with the binary64 product) and C06_aimd_nonincrease proved for all limits < 2^52 and ratios in [0,1]; "
                "C06_gradient_nonincrease / C06_gradient_after_any_history: after any sample history from a state with estimate >= 4 and smoothing in [2^-50,1] a drop never raises Gradient's estimate "
                "(halving, binary64 smoothing, clamps; the side conditions are proved step-invariant); C06_vegas_nonincrease / C06_vegas_after_any_history / C06_vegas_drop_run_monotone: "
                "from every state satisfying the Vegas safety invariant, after any history, a drop never raises the reported estimate and drop runs are monotone; "
                "floor reachability with a bound fixed by the configuration: C06_aimd_floor_reached (1 within limit-1 drops), C06_gradient_contracts / C06_gradient_floor_reached "
                "(est_n <= max(floor, est_0 (1 - s/4)^n), reported = max(min,4) once that is below floor+1), C06_vegas_contracts / C06_vegas_floor_reached (est_n <= max(15/8, est_0 - n s/40), reported 1); "
                "drop samples that probe instead of updating are outside these run theorems (F19) and decided by replay + oracle.",
  "level_note": "Trusted as C04. Known findings F5 (Gradient built below its queue allowance) and F19 (Vegas frozen by per-sample probing when multiplier*estimate <= 2) are replayed and reported as KNOWN-FINDING.",
  "technique": "Coq/Flocq theorems (non-increase over all histories, geometric / linear contraction to the floor) + differential replay and drop-run oracle",
 },
 "C07": {
  "tests": ["TestC07", "TestC07Concurrent"],
  "rule": "random prefixes, every non-drop sample with in-flight below half the estimate (below the estimate for AIMD) checked for no raise; then a healthy saturated "
          "run at the baseline RTT until within one of the ceiling; k identical saturated samples delivered from several goroutines must equal k sequential ones on a twin; "
          "non-trivial = an app-limited sample / a completed recovery run",
  "level_text": "C07_app_limited_{aimd,vegas,gradient,gradient2} proved for all states and samples (stored estimate untouched, nobody notified); C07_aimd_recovers proved; "
                "C07_gradient_recovers / C07_gradient_recovery_run (every healthy saturated non-probe sample adds at least 4 up to the ceiling: min(max, est + 4n) after n) and "
                "C07_vegas_recovers / C07_vegas_recovery_run (smoothing 1.0: min(max, est + 6n)), C07_vegas_recovers_any_smoothing / C07_vegas_recovered (any smoothing: +s/2 per sample, within one of "
                "the ceiling after 2(max - est)/s samples) proved from every state in the safety invariant; C07_gradient2_recovers / C07_gradient2_recovery_run: + 2s per healthy sample at a constant RTT once the long-term average has caught up "
                "(its deficit provably stays below 4u/f of the RTT); Gradient2's catch-up phase and probe-interleaved runs are decided by replay + bounded-run oracle.",
  "level_note": "Trusted as C04. The app-limited theorems use the implementation's own float comparison as hypothesis (exact for in-flight < 2^31).",
  "technique": "Coq case-analysis theorems + differential replay and recovery-run oracle",
 },
 "C15": {
  "tests": ["TestC15"],
  "rule": "streams with step changes up and down, small probe multipliers/intervals so that many resets occur; after every sample RTTNoLoad() is compared with the sample "
          "and with the set of RTTs observed since the last reset; non-trivial = a sample after which the baseline is set; distinct by (algorithm, baseline, rtt)",
  "level_text": "C15_{vegas,gradient}_baseline (baseline unset or not above the sample), C15_*_baseline_observed (baseline is an RTT seen since the last reset, by induction "
                "over steps) and C15_gradient_reset_period (any draw stream) are proved; Vegas' reset period is decided by the oracle (needs float bound on the probe threshold).",
  "level_note": "Trusted as C04; RTTs below 2^53 so that float64(rtt) is exact.",
  "technique": "Coq structural induction over the step function + differential replay",
 },
 "C16": {
  "tests": ["TestC16", "TestC16Concurrent", "TestC16Traced", "TestC16TwoInstances"],
  "rule": "all six limit kinds x {plain, traced, windowed, traced(windowed)}, listeners registered at random points of the history, explicit SetLimit on the settable limit; "
          "non-trivial = a step that changed the reported estimate with at least one listener registered; distinct by (kind, wrapper, before, after, listener)",
  "level_text": "C16_step, C16_last_agrees, C16_suffix, C16_settable proved for every limit kind, wrapper and history.",
  "level_note": "Trusted as C04; Settable values within int32.",
  "technique": "Coq structural theorems over all limit models + differential replay of per-listener logs",
 },
 "C18": {
  "tests": ["TestC18", "TestC18Interleaved"],
  "rule": "six measurement types x random constructor arguments x random interleavings of Add/Get/Reset/Update with positive finite samples; every Add is checked against the "
          "named quantity (minimum / latest / warm-up mean / hull) and the changed-flag; each case ends with Reset and a twin run against a new instance; sample windows are "
          "built twice in two random orders; non-trivial = an Add on a distinct (type, configuration, position, value), a reset twin, a distinct window multiset",
  "level_text": "Proved: C18_minimum (over the reals, any number of positive finite samples), C18_minimum_flag, C18_expavg_warmup, C18_window_summary, C18_window_perm "
                "(any permutation), C18_reset_fresh_* for the four stateful types (Reset yields literally the constructor's state after any operation sequence). "
                "C18_expavg_hull / C18_moving_average_hull: in binary64 the averages stay finite within [0, 2^k] for every sample sequence in [0, 2^k] (no drift: scaling by 2^k is exact, "
                "the rounded weights exceed 1 by at most 2^-54); C18_variance_nonneg: the moving variance stays finite in [0, 2^2k], never negative. The hull between the exact smallest and largest "
                "sample is decided by replay + oracle (ulp slack).",
  "level_note": "Trusted as C04; math.Pow(d,2) modelled as d*d (identical unless the square is subnormal; generator keeps |d| >= 2^-500). Known finding F20 (warm-up 0) replayed.",
  "technique": "Coq structural/real-number theorems over the binary64 model + bit-exact differential replay with reset twins",
 },
 "C01": {
  "tests": ["TestC01", "TestC01Limiter", "TestC01Stress", "TestC01Panic"],
  "rule": "random acquire/release/SetLimit (0 and negative values included) sequences on the simple and precise strategies, compared step by step with the model; every TryAcquire "
          "is checked against the gate rule; plus a 16-goroutine stress run with a flipping limit and a harness-side holder counter; non-trivial = a distinct (busy, limit, decision)",
  "level_text": "C01_no_over_admission and C01_gate_decision are proved on a transition system with one label per atomic step of Acquire/TryAcquire/Release/SetLimit, for any number of "
                "threads, any interleaving and arbitrary limit updates (invariant by induction over reachable states); C01_precise_direct covers the precise strategy used directly.",
  "level_note": "Trusted: Coq kernel; the atomicity granularity of the transition system (critical section of DefaultLimiter.mu, atomic ops of SimpleStrategy) is a modelling assumption "
                "cross-checked by the lock-map facts of C17's scanner; sequential behaviour tied to strategy/*.go by replay.",
  "technique": "Coq inductive invariant over an unbounded-thread transition system + differential replay + stress oracle",
  "traces_from": ["C01"],
 },
 "C02": {
  "tests": ["TestC02", "TestC02Races", "TestC02Bare", "TestC01Panic", "TestC01Stress"],
  "rule": "random histories of acquires, completions with the three outcomes, scripted estimate changes, partition adds/removes and virtual-time steps through the default limiter over "
          "all four strategy kinds, ending with a full drain and re-acquisition of the full limit; after every op gauge = busy = outstanding listeners; race-window replays (hand-off to a departed waiter, "
          "cancellation during the grant of the blocking limiter); non-trivial = a completed drain",
  "level_text": "C02_init/_acquire/_complete: LInv (gauge = strategy busy = outstanding listeners) is an invariant of the default limiter over any strategy, any outcome, any window "
                "closing; refusals change nothing. C02_partition_bins: bins exact in every reachable state. Blocking/queue wrappers: see C10/C12 (transition systems).",
  "level_note": "Trusted as C01; sequential model of limiter/default.go (time.Now as explicit argument, synctest virtual clock in the harness).",
  "technique": "Coq invariant over limiter + strategy models + differential replay with drain oracle",
 },
 "C03": {
  "tests": ["TestC03", "TestC03Stress", "TestC03Races"],
  "rule": "random partition sets (fractions from a grid and random doubles, sums <= 1, overlapping predicates), key streams including unknown keys, interleaved releases, SetLimit (0, negative, "
          "repeats), dynamic add/remove; after every op all counts, limits and shares are compared; non-trivial = a distinct admission situation (total busy/limit, bin busy/limit, match, decision)",
  "level_text": "C03_admit_iff (exact admission rule incl. first-match, unknown and no-match), C03_reachable (shares of the current total, exact bins, sum) for every operation sequence, "
                "C03_guarantee, C03_borrow_cap.",
  "level_note": "Trusted: the share is stated with the binary64 product the code computes; request-to-partition mapping abstracted as key/tag equality (harness uses the bundled string matchers).",
  "technique": "Coq inductive invariant over all operation sequences + differential replay",
 },
 "C05": {
  "tests": ["TestC05", "TestC05Races", "TestC05Stress", "TestC03Stress", "TestC05Constructors", "TestC05Bare"],
  "rule": "default limiter over all four strategy kinds with a scripted limit double (estimates 0, negative, repeated, large), random histories plus closing bursts that fill and close windows "
          "at instants around the period end; after every forwarded window the strategy limit and every share are checked; a real-time replay of two overlapping window updates with a slow strategy; non-trivial = a distinct closed window",
  "level_text": "C05_sync_init, C05_sync_update (same step as the forwarded sample), C05_shares_follow (SetLimit keeps the invariant 'every live bin has the share of the current total').",
  "level_note": "Trusted as C02. Limits changed from outside (SettableLimit.SetLimit) are outside the statement and the model.",
  "technique": "Coq theorems over limiter + strategy models + differential replay",
 },
 "C09": {
  "tests": ["TestC09", "TestC09Windowed"],
  "rule": "completion histories with all outcomes, durations around the RTT threshold, end times at next-1/next/next+1, drops at every position of a window; every call the limit double "
          "receives is compared with the fold of the qualifying completions since the previous update; non-trivial = a distinct closed window",
  "level_text": "C09_default_windows: refinement of the incremental window to the list-based spec for every completion list (rtt in [0,2^62)); C09_limiter_step ties it to the limiter model. "
                "The windowed limit is decided by replay (model in Limits.v) + oracle.",
  "level_note": "Trusted as C02.",
  "technique": "Coq refinement proof (incremental fold vs list spec) + differential replay",
 },
 "C10": {
  "tests": ["TestC10", "TestC10Races"],
  "rule": "settled scenarios on a virtual clock (every operation followed by synctest.Wait): arrivals, releases with the three outcomes, cancellations, time steps aimed at timer instants, limit changes, "
          "through every constructor of the blocking, deadline and queue limiters and the pools; after each release with waiters and room someone must have been granted; plus forced race-window "
          "replays of the refuted theorems' witness schedules; non-trivial = a release with callers waiting, distinct by (constructor, ordering, busy, limit, waiters, grants)",
  "level_text": "C10_queue_settled (a release serves the waiter chosen by the ordering in the same operation) and C10_blocking_partial (no stranded sleeper on an unbounded-thread transition system, "
                "outside the window of F8) are proved; inside the race windows the property is REFUTED on the faithful model by kernel-checked witness schedules (C10_blocking_refuted, "
                "C10_queue_refuted_*), each replayed on the implementation as a known finding.",
  "level_note": "Trusted: synctest quiescence detection and virtual clock; the settled model is a separate, coarser model of the same code than the step-level transition systems; Go's sync.Cond / channel semantics as modelled.",
  "technique": "Coq theorems on settled model + transition-system invariant/refutations + differential replay of scenarios",
 },
 "C11": {
  "tests": ["TestC11", "TestC11Races"],
  "rule": "as C10 with 2..13 waiters, arrivals at distinct instants, chosen waiters timing out or cancelled before releases; the grant order is compared with the model and with the oracle "
          "(oldest / newest still waiting); every constructor is exercised and its installed ordering read back; non-trivial = a release serving one of >= 2 waiters",
  "level_text": "C11_order + C11_release proved on the settled model (served waiter = oldest/newest still blocked); C11_constructors is a generated-fact obligation over the 14 constructor variants.",
  "level_note": "Trusted as C10; constructor table regenerated from /repo by tools/tablegen on every run.",
  "technique": "Coq theorems + generated constructor table obligation + differential replay",
 },
 "C12": {
  "tests": ["TestC12", "TestC12Races", "TestC12Stress"],
  "rule": "as C10 on queue limiters with small bounds; after every operation backlog length (accessor) and the queue_size gauge are compared with the number of blocked callers; arrivals at a full backlog "
          "must be refused in the same instant; plus race replays F9b/F11; non-trivial = an arrival at a full backlog",
  "level_text": "C12_bound proved on the settled model; at step granularity the bound and the exactness are REFUTED (C12_bound_refuted = F11, C12_exact_refuted = F9b), replayed as known findings.",
  "level_note": "Trusted as C10.",
  "technique": "Coq theorem + kernel-checked refutations + differential replay",
 },
 "C13": {
  "tests": ["TestC13", "TestC13CtxDeadline"],
  "rule": "as C10 with time steps aimed at due-1/due/due+1 of every timer and at the deadline instant, cancellations at arbitrary instants, already-cancelled contexts; every refusal of a caller that "
          "had been blocked must happen exactly at its bound, none may stay blocked past it; non-trivial = a bounded refusal / an already-cancelled arrival",
  "level_text": "C13_cancelled_ctx, C13_after_deadline, C13_wait_timer (arrival-time refusals hold no capacity; a waiter's timer is armed at exactly its bound), C13_queue_timeout, "
                "C13_cancel_refuses (a cancellation refuses a blocked caller at that instant), C13_fire_clears and C13_nobody_past_due (after any advance of the clock no caller of the queue or "
                "deadline limiter is blocked past its due instant) proved over the settled model for every state; the blocking limiter's poll period is decided by replay + oracle.",
  "level_note": "Trusted as C10; the blocking limiter's timeout is a polling period (as coded), not a bound - it is not listed in the property either.",
  "technique": "Coq theorems on settled model + differential replay on a virtual clock",
 },
 "C19": {
  "tests": ["TestC19", "TestC19Races", "TestC19Sustained"],
  "rule": "fixed and generic pools, all orderings, limit + 1..4 callers arriving at different instants, holders releasing one at a time after random hold times; holders never exceed the limit and every caller "
          "must end up served; non-trivial = a completed pool run, distinct by (constructor, ordering, limit, callers)",
  "level_text": "C19_wiring (generated constructor facts), C19_never_over_* (every operation of every wrapper keeps busy <= limit), C19_served_partial (each release with waiters and room serves one at once; queue pools) proved; "
                "the random-ordering pool inherits F8, queue pools F9a.",
  "level_note": "Trusted as C10.",
  "technique": "Coq invariants on settled model + differential replay",
 },
 "C08": {
  "tests": ["TestC08"],
  "rule": "twin instances of Vegas/Gradient/Gradient2 built and driven with an identically re-seeded math/rand source (identical jitter/countdown draws), same random prefix, then one final sample "
          "differing only in RTT (pairs around the baseline and around Vegas' queue thresholds); pairs where a final sample is a probe or lowers the baseline are discarded; non-trivial = a compared pair",
  "level_text": "C08_vegas_partial (the stored estimate is monotone in the queue estimate across all updating branches: branch ladder + clamp + smoothing, binary64, any state in the C04 invariant), "
                "C08_vegas_queue_mono (the queue estimate is monotone in the RTT through division, subtraction, product, ceil and truncation) and their composition C08_vegas_rtt_mono on the whole step are proved. "
                "C08_gradient_partial: Gradient's gradient and candidate are antitone in the RTT, and so is the new estimate when both candidates fall on the same side of the current estimate. "
                "C08_vegas_all_branches closes the dead-band corner for estimates in [7/4, max - 1]. Vegas above max - 1 (F18), Gradient's mixed-side case and Gradient2 are decided by bit-exact replay + the twin-run oracle.",
  "level_note": "Trusted as C04 plus: log10 oracle values satisfy log10(est) <= 6*int(log10(int est)) (checked by the harness on every supplied value). Known finding F18 replayed.",
  "technique": "Coq/Flocq monotonicity theorem + differential replay of twin runs",
 },
 "C20": {
  "tests": ["TestC20", "TestC20Strategies", "TestC20Concurrent", "TestC20Registry", "TestC20Races", "TestC20Names", "TestC20QueueGauges"],
  "rule": "all six limit kinds (plain, traced) on a recording registry: every sample's emissions (kind = how the metric was registered, name, value) are compared with the model and with the oracle; "
          "strategies' in-flight samples and limit gauges are checked by driving all four strategies through random acquire/release/SetLimit histories (including limits lowered below the tokens outstanding); the go-metrics registry is driven through random Start/Stop/Register/Tick sequences on a virtual clock "
          "and polls are counted per period; the datadog registry is exercised once over a loopback UDP socket in real time; non-trivial = a distinct sample emission / tick situation",
  "level_text": "C20_{aimd,vegas,gradient,gradient2}_emits (every branch of every algorithm emits RTT and in-flight once, drop counter iff drop) and C20_registry_* (life cycle over all operation sequences) proved; "
                "the registry model is tied to metric_registry/gometrics by replay of poll counts; the datadog backend is only observed (partial).",
  "level_note": "Trusted as C04; registry model abstracts the poller goroutine as 'one poll per period and gauge while started' (synctest virtual clock); the dogstatsd client and go-metrics are outside the model.",
  "technique": "Coq case-analysis theorems + differential replay of emissions and poll counts",
 },
 "C17": {
  "tests": ["TestC17"],
  "race": True,
  "traces": False,
  "rule": "static: tools/lockscan regenerates the access table (every exported method of limit, strategy, limiter, measurements, metric_registry, core, patterns; same-module callees inlined under the "
          "caller's lock set; shared references re-rooted) and Coq re-checks the discipline over all pairs of accesses; dynamic: goroutines hammer method mixes on shared instances of every type under "
          "the Go race detector; non-trivial = a stress scenario (one per shared instance kind); evaluations = method calls made",
  "level_text": "C17_lockset_sound is a generic theorem (any table, any number of threads, any schedule, RW-mutex semantics); C17_discipline is re-proved on every run for the table generated from the "
                "current source, giving C17_race_free for the summarised program. PARTIAL: the scanner is unverified (interface calls are not followed across objects, closures are analysed at "
                "creation with no lock held, sharing annotations are a fixed list); 'never crashes the runtime' is covered as unsynchronised map access being a flagged conflict.",
  "level_note": "Trusted: tools/lockscan (go/packages, go/types), its two annotation lists, Go's memory model as 'conflicting non-atomic accesses need a common lock'; cross-checked dynamically by -race.",
  "technique": "Coq generic lock-set theorem + per-run discipline obligation over a table translated from the source + race-detector stress",
 },
}
