# Per-property tables used by bin/check: harness drivers, the non-triviality rule reported in the evidence,
# extra trusted-base items and assumptions.
PROPS = {
 "C14": {
  "tests": ["TestC14"],
  "rule": "every (interceptor kind, option list, acquire result, call error, classifier answer) combination is enumerated "
          "exhaustively for single calls, plus random RecvMsg/SendMsg sequences; a case is non-trivial when it performs a wrapped "
          "call with recording doubles installed; distinct = distinct (options, operation) tuples",
  "level_text": "Theorems C14_unary_server/_unary_client/_stream/_options_* (Coq, closed under the global context) state the full contract of each wrapper for every option list, outcome and RecvMsg/SendMsg sequence; the model is tied to grpc/*.go by replaying every enumerated combination on the real interceptors with recording doubles.",
  "level_note": "Trusted: Coq kernel; the hand-written model of the four wrappers (checked differentially, exhaustively over the finite outcome space, on every run); doubles for limiter/handler/stream; classifier answers restricted to success/ignore/dropped.",
  "technique": "Coq theorem over wrapper model + exhaustive differential replay on the real interceptors",
  "assumptions": ["the gRPC runtime invokes interceptors as the harness does (handler/invoker/stream are doubles)",
                  "classifier answers range over success/ignore/dropped as the property states"],
 },
}
