package harness

import (
	"context"
	"errors"
	"fmt"
	"io"
	"sync"
	"testing"

	"github.com/platinummonkey/go-concurrency-limits/core"
	gclgrpc "github.com/platinummonkey/go-concurrency-limits/grpc"
	"google.golang.org/grpc"
	"google.golang.org/grpc/codes"
	"google.golang.org/grpc/metadata"
	"google.golang.org/grpc/status"
)

// ---- doubles ----
type evlog struct{ ev []int64 }

func (l *evlog) add(xs ...int64) { l.ev = append(l.ev, xs...) }

type recListener struct {
	id  int64
	log *evlog
}

func (r *recListener) OnSuccess() { r.log.add(4, r.id, 0) }
func (r *recListener) OnIgnore()  { r.log.add(4, r.id, 1) }
func (r *recListener) OnDropped() { r.log.add(4, r.id, 2) }

type recLimiter struct {
	id  int64
	ok  *bool
	log *evlog
}

func (r *recLimiter) Acquire(ctx context.Context) (core.Listener, bool) {
	r.log.add(1, r.id)
	if !*r.ok {
		return nil, false
	}
	return &recListener{r.id, r.log}, true
}
func (r *recLimiter) String() string { return fmt.Sprintf("recLimiter%d", r.id) }

var c14Codes = map[int64]codes.Code{1: codes.Unavailable, 2: codes.Aborted, 3: codes.DeadlineExceeded}

type fakeStream struct {
	log     *evlog
	callErr *error
}

func (f *fakeStream) SetHeader(metadata.MD) error  { return nil }
func (f *fakeStream) SendHeader(metadata.MD) error { return nil }
func (f *fakeStream) SetTrailer(metadata.MD)       {}
func (f *fakeStream) Context() context.Context     { return context.Background() }
func (f *fakeStream) SendMsg(m interface{}) error  { f.log.add(2); return *f.callErr }
func (f *fakeStream) RecvMsg(m interface{}) error  { f.log.add(2); return *f.callErr }

type c14case struct {
	Kind int       `json:"kind"` // 1 unary server, 2 unary client, 3 stream
	Opts []int64   `json:"opts"` // (kind, value) pairs
	Ops  [][]int64 `json:"ops"`  // per op: [opcode, acquire_ok, (call_err,) cls]
}

func limiterIDOf(l core.Limiter) int64 {
	if r, ok := l.(*recLimiter); ok {
		return r.id
	}
	return 0
}

// runs one case on the implementation; returns per-op observations
func c14Run(c c14case) [][]int64 {
	log := &evlog{}
	ok := true
	var callErr error
	cls := int64(0)
	respObj := &struct{ x int }{42}
	limiters := map[int64]*recLimiter{}
	lim := func(id int64) *recLimiter {
		if limiters[id] == nil {
			limiters[id] = &recLimiter{id: id, ok: &ok, log: log}
		}
		return limiters[id]
	}
	limitCls := func(id int64) gclgrpc.LimitExceededResponseClassifier {
		return func(ctx context.Context, method string, req interface{}, l core.Limiter) (interface{}, codes.Code, error) {
			log.add(5, id, limiterIDOf(l))
			return id, c14Codes[id], fmt.Errorf("limit-class-%d", id)
		}
	}
	var out [][]int64
	retCode := func(resp interface{}, err error, wantResp interface{}, wantErr error, refusedRespOK func(interface{}) bool) []int64 {
		// classify the returned value
		if err == wantErr && resp == wantResp {
			return []int64{100}
		}
		if st, isSt := status.FromError(err); isSt && err != nil {
			for id, code := range c14Codes {
				if st.Code() == code && st.Message() == fmt.Sprintf("limit-class-%d", id) && (refusedRespOK == nil || refusedRespOK(resp) || resp == id) {
					return []int64{101, id}
				}
			}
			if st.Code() == codes.ResourceExhausted {
				return []int64{101, 0}
			}
		}
		return []int64{102}
	}
	switch c.Kind {
	case 1, 2:
		var opts []gclgrpc.InterceptorOption
		for i := 0; i+1 < len(c.Opts); i += 2 {
			k, v := c.Opts[i], c.Opts[i+1]
			switch k {
			case 1:
				opts = append(opts, gclgrpc.WithLimiter(lim(v)))
			case 2:
				opts = append(opts, gclgrpc.WithLimitExceededResponseClassifier(limitCls(v)))
			case 3:
				id := v
				opts = append(opts, gclgrpc.WithServerResponseTypeClassifier(func(ctx context.Context, req interface{}, info *grpc.UnaryServerInfo, resp interface{}, err error) gclgrpc.ResponseType {
					log.add(3, id)
					return gclgrpc.ResponseType(cls)
				}))
			case 4:
				id := v
				opts = append(opts, gclgrpc.WithClientResponseTypeClassifier(func(ctx context.Context, method string, req, reply interface{}, err error) gclgrpc.ResponseType {
					log.add(3, id)
					return gclgrpc.ResponseType(cls)
				}))
			case 5:
				opts = append(opts, gclgrpc.WithName("n"))
			default:
				opts = append(opts, gclgrpc.WithTags([]string{"a", "b"}))
			}
		}
		if c.Kind == 1 {
			ic := gclgrpc.UnaryServerInterceptor(opts...)
			for _, op := range c.Ops {
				log.ev = nil
				ok, cls = op[1] != 0, op[3]
				callErr = nil
				if op[2] != 0 {
					callErr = errors.New("handler failed")
				}
				// every third call is abandoned by its caller while the handler runs (the context is cancelled mid-call):
				// the token must still be completed exactly once, by the classified outcome
				cctx, cancel := context.WithCancel(context.Background())
				abandon := len(out)%3 == 1
				if len(out)%4 == 2 {
					cancel() // the call arrives with a context that is already done: admission, refusal status and completion do not depend on it
				}
				resp, err := ic(cctx, "req", &grpc.UnaryServerInfo{FullMethod: "/m"}, func(ctx context.Context, req interface{}) (interface{}, error) {
					log.add(2)
					if abandon {
						cancel()
					}
					return respObj, callErr
				})
				cancel()
				o := append([]int64{}, log.ev...)
				o = append(o, retCode(resp, err, respObj, callErr, nil)...)
				out = append(out, o)
			}
		} else {
			ic := gclgrpc.UnaryClientInterceptor(opts...)
			for _, op := range c.Ops {
				log.ev = nil
				ok, cls = op[1] != 0, op[3]
				callErr = nil
				if op[2] != 0 {
					callErr = errors.New("invoker failed")
				}
				cctx, cancel := context.WithCancel(context.Background())
				abandon := len(out)%3 == 1
				if len(out)%4 == 2 {
					cancel()
				}
				err := ic(cctx, "/m", "req", "reply", nil, func(ctx context.Context, method string, req, reply interface{}, cc *grpc.ClientConn, opts ...grpc.CallOption) error {
					log.add(2)
					if abandon {
						cancel()
					}
					return callErr
				})
				cancel()
				o := append([]int64{}, log.ev...)
				o = append(o, retCode(nil, err, nil, callErr, func(interface{}) bool { return true })...)
				out = append(out, o)
			}
		}
	case 3:
		var opts []gclgrpc.StreamInterceptorOption
		for i := 0; i+1 < len(c.Opts); i += 2 {
			k, v := c.Opts[i], c.Opts[i+1]
			switch k {
			case 1:
				opts = append(opts, gclgrpc.WithStreamRecvLimiter(lim(v)))
			case 2:
				opts = append(opts, gclgrpc.WithStreamSendLimiter(lim(v)))
			case 3:
				opts = append(opts, gclgrpc.WithStreamRecvLimitExceededResponseClassifier(limitCls(v)))
			case 4:
				opts = append(opts, gclgrpc.WithStreamSendLimitExceededResponseClassifier(limitCls(v)))
			case 5:
				id := v
				opts = append(opts, gclgrpc.WithStreamServerResponseTypeClassifier(func(ctx context.Context, req interface{}, info *grpc.StreamServerInfo, err error) gclgrpc.ResponseType {
					log.add(3, id)
					return gclgrpc.ResponseType(cls)
				}))
			case 6:
				id := v
				opts = append(opts, gclgrpc.WithStreamClientResponseTypeClassifier(func(ctx context.Context, req interface{}, info *grpc.StreamServerInfo, err error) gclgrpc.ResponseType {
					log.add(3, id)
					return gclgrpc.ResponseType(cls)
				}))
			case 7:
				opts = append(opts, gclgrpc.WithStreamSendName("s"))
			default:
				opts = append(opts, gclgrpc.WithStreamRecvName("r"))
			}
		}
		ic := gclgrpc.StreamServerInterceptor(opts...)
		fs := &fakeStream{log: log, callErr: &callErr}
		// every kind of streaming method (client-streaming, server-streaming, both, neither flag set): the limiters see every message alike
		kindFlags := (len(c.Ops) + len(c.Opts)/2) % 4
		_ = ic(nil, fs, &grpc.StreamServerInfo{FullMethod: "/s", IsClientStream: kindFlags&1 != 0, IsServerStream: kindFlags&2 != 0}, func(srv interface{}, ss grpc.ServerStream) error {
			for _, op := range c.Ops {
				log.ev = nil
				ok, cls = op[1] != 0, op[3]
				callErr = nil
				if op[2] != 0 {
					callErr = errors.New("stream op failed")
					if len(out)%2 == 0 {
						callErr = io.EOF // the peer half-closed: an error like any other for the token's completion
					}
				}
				var err error
				if op[0] == 3 {
					err = ss.RecvMsg("m")
				} else {
					err = ss.SendMsg("m")
				}
				o := append([]int64{}, log.ev...)
				o = append(o, retCode(nil, err, nil, callErr, func(interface{}) bool { return true })...)
				out = append(out, o)
			}
			return nil
		})
	}
	return out
}

// configured ids from an option list: last one wins
func lastOpt(opts []int64, kind int64) int64 {
	v := int64(0)
	for i := 0; i+1 < len(opts); i += 2 {
		if opts[i] == kind {
			v = opts[i+1]
		}
	}
	return v
}

// C14 oracle on one observed operation (independent of the Coq model)
func c14Oracle(rep *Report, c c14case, op []int64, obs []int64) {
	var lim, lcls, rcls int64
	consulted := true
	switch op[0] {
	case 1:
		lim, lcls, rcls = lastOpt(c.Opts, 1), lastOpt(c.Opts, 2), lastOpt(c.Opts, 3)
	case 2:
		lim, lcls, rcls = lastOpt(c.Opts, 1), lastOpt(c.Opts, 2), lastOpt(c.Opts, 4)
	case 3:
		lim, lcls, rcls = lastOpt(c.Opts, 1), lastOpt(c.Opts, 3), lastOpt(c.Opts, 5)
		consulted = op[2] != 0
	case 4:
		lim, lcls, rcls = lastOpt(c.Opts, 2), lastOpt(c.Opts, 4), lastOpt(c.Opts, 6)
		consulted = op[2] != 0
	}
	ok, cls := op[1] != 0, op[3]
	if !consulted {
		cls = 0
	}
	// parse events
	type ev struct{ k, a, b int64 }
	var evs []ev
	i := 0
	for i < len(obs) && obs[i] < 100 {
		switch obs[i] {
		case 1, 3:
			evs = append(evs, ev{obs[i], obs[i+1], 0})
			i += 2
		case 2:
			evs = append(evs, ev{2, 0, 0})
			i++
		default:
			evs = append(evs, ev{obs[i], obs[i+1], obs[i+2]})
			i += 3
		}
	}
	ret := obs[i:]
	fail := func(sig, d string) {
		rep.Violate("grpc:"+sig, fmt.Sprintf("%s: case=%+v op=%v observed=%v", d, c, op, obs), map[string]interface{}{"case": c, "op": op, "observed": obs})
	}
	acq, calls, toks := 0, 0, 0
	for idx, e := range evs {
		switch e.k {
		case 1:
			acq++
			if e.a != lim && lim != 0 {
				fail("wrong-limiter", "acquired from a limiter other than the configured one")
			}
			if idx != 0 {
				fail("acquire-not-first", "something happened before Acquire")
			}
		case 2:
			calls++
			if toks > 0 {
				fail("token-before-call", "token completed before the call ran")
			}
		case 3:
			if rcls != 0 && e.a != rcls {
				fail("wrong-classifier", "a response classifier other than the configured one was consulted")
			}
			if !consulted {
				fail("classifier-on-success", "stream response classifier consulted although the operation returned nil")
			}
		case 4:
			toks++
			if e.a != lim {
				fail("token-wrong-limiter", "completed a token of another limiter")
			}
			if e.b != cls {
				fail("wrong-outcome", "token completed with an outcome other than the classifier's")
			}
		case 5:
			if e.a != lcls {
				fail("wrong-limit-classifier", "limit-exceeded classifier of the other direction consulted")
			}
		}
	}
	if lim != 0 && acq != 1 {
		fail("acquire-count", "Acquire not called exactly once on the configured limiter")
	}
	if ok {
		if calls != 1 {
			fail("call-count", "wrapped call not invoked exactly once after a grant")
		}
		if lim != 0 && toks != 1 {
			fail("token-count", "token not completed exactly once")
		}
		if len(ret) != 1 || ret[0] != 100 {
			fail("result-changed", "the call's own result was not returned unchanged")
		}
	} else {
		if calls != 0 {
			fail("call-on-refusal", "wrapped call invoked although the limiter refused")
		}
		if toks != 0 {
			fail("token-on-refusal", "token touched although the limiter refused")
		}
		if len(ret) != 2 || ret[0] != 101 || ret[1] != lcls {
			fail("refusal-status", "status is not the one chosen by the configured limit-exceeded classifier")
		}
		n5 := 0
		for _, e := range evs {
			if e.k == 5 {
				n5++
			}
		}
		if lcls != 0 && n5 != 1 {
			fail("limit-classifier-count", fmt.Sprintf("the configured limit-exceeded classifier was consulted %d times for this refusal (it decides the answer for each request)", n5))
		}
	}
}

func c14Emit(tr *Trace, rep *Report, c c14case) {
	obs := c14Run(c)
	tr.Case(14, c.Opts...)
	for i, op := range c.Ops {
		var args []int64
		if op[0] <= 2 {
			args = []int64{op[1], op[3]}
		} else {
			args = []int64{op[1], op[2], op[3]}
		}
		tr.Op(int(op[0]), args, obs[i])
		c14Oracle(rep, c, op, obs[i])
		rep.Evaluations++
		rep.Count(fmt.Sprintf("op%d.ok%d.err%d.cls%d", op[0], op[1], op[2], op[3]))
		rep.Distinct("call", fmt.Sprint(c.Opts, op))
	}
	tr.End()
	rep.Sample(map[string]interface{}{"case": c, "observed": obs})
}

func TestC14(t *testing.T) {
	tr := NewTrace("C14")
	rep := NewReport("C14")
	defer func() { tr.Close(); rep.Write(t) }()
	rng := NewRng(Seed())
	// exhaustive over unary: limiter option (none / one / overridden), classifiers present or not, outcomes
	limOpts := [][]int64{{}, {1, 1}, {1, 2, 1, 1}, {1, 1, 5, 0}, {6, 0, 1, 3}}
	for kind := 1; kind <= 2; kind++ {
		for _, lo := range limOpts {
			for lc := 0; lc <= 1; lc++ {
				for sc := 0; sc <= 1; sc++ {
					for cc := 0; cc <= 1; cc++ {
						opts := append([]int64{}, lo...)
						if lc == 1 {
							opts = append(opts, 2, 1)
						}
						if sc == 1 {
							opts = append(opts, 3, 2)
						}
						if cc == 1 {
							opts = append(opts, 4, 3)
						}
						hasLim := lastOpt(opts, 1) != 0
						hasCls := (kind == 1 && sc == 1) || (kind == 2 && cc == 1)
						c := c14case{Kind: kind, Opts: opts}
						for okv := int64(0); okv <= 1; okv++ {
							if !hasLim && okv == 0 {
								continue
							}
							for errv := int64(0); errv <= 1; errv++ {
								for cls := int64(0); cls <= 2; cls++ {
									if !hasCls {
										// default classifier: Dropped iff error
										if (errv == 1) != (cls == 2) || cls == 1 {
											continue
										}
									}
									c.Ops = append(c.Ops, []int64{int64(kind), okv, errv, cls})
								}
							}
						}
						c14Emit(tr, rep, c)
					}
				}
			}
		}
	}
	// streams: exhaustive over option presence with single ops, then random sequences
	for mask := 0; mask < 64; mask++ {
		var opts []int64
		ids := []int64{1, 2, 1, 2, 1, 2}
		for k := 0; k < 6; k++ {
			if mask&(1<<k) != 0 {
				opts = append(opts, int64(k+1), ids[k])
			}
		}
		if mask%5 == 0 {
			opts = append(opts, 7, 0, 8, 0)
		}
		c := c14case{Kind: 3, Opts: opts}
		for opc := int64(3); opc <= 4; opc++ {
			hasLim := (opc == 3 && lastOpt(opts, 1) != 0) || (opc == 4 && lastOpt(opts, 2) != 0)
			hasCls := (opc == 3 && lastOpt(opts, 5) != 0) || (opc == 4 && lastOpt(opts, 6) != 0)
			for okv := int64(0); okv <= 1; okv++ {
				if !hasLim && okv == 0 {
					continue
				}
				for errv := int64(0); errv <= 1; errv++ {
					for cls := int64(0); cls <= 2; cls++ {
						if !hasCls || errv == 0 {
							if (errv == 1) != (cls == 2) || cls == 1 {
								continue
							}
						}
						c.Ops = append(c.Ops, []int64{opc, okv, errv, cls})
					}
				}
			}
		}
		c14Emit(tr, rep, c)
	}
	n := Scale(200, 5000)
	for i := 0; i < n; i++ {
		// all doubles installed, distinct ids for the two directions; random op sequences
		opts := []int64{1, 1, 2, 2, 3, 1, 4, 2, 5, 1, 6, 2}
		if rng.Bool(30) {
			opts = append(opts, 1, 3) // override the receive limiter
		}
		c := c14case{Kind: 3, Opts: opts}
		m := 1 + rng.Intn(12)
		for j := 0; j < m; j++ {
			errv := B(rng.Bool(40))
			cls := int64(0)
			if errv == 1 {
				cls = int64(rng.Intn(3))
			}
			c.Ops = append(c.Ops, []int64{3 + int64(rng.Intn(2)), B(rng.Bool(75)), errv, cls})
		}
		c14Emit(tr, rep, c)
	}
}

// ---------------- C14 edges outside the sequential model: a classifier answering codes.OK on refusal; receive and send overlapping on one stream ----------------
type lockedLog struct {
	mu sync.Mutex
	ev [][3]int64 // (kind, limiter id, outcome): 1 acquire, 2 call, 4 completion
}

func (l *lockedLog) add(k, id, o int64) {
	l.mu.Lock()
	l.ev = append(l.ev, [3]int64{k, id, o})
	l.mu.Unlock()
}
func (l *lockedLog) count(k, id int64) int {
	l.mu.Lock()
	defer l.mu.Unlock()
	n := 0
	for _, e := range l.ev {
		if e[0] == k && e[1] == id {
			n++
		}
	}
	return n
}

type lkListener struct {
	id  int64
	log *lockedLog
}

func (r *lkListener) OnSuccess() { r.log.add(4, r.id, 0) }
func (r *lkListener) OnIgnore()  { r.log.add(4, r.id, 1) }
func (r *lkListener) OnDropped() { r.log.add(4, r.id, 2) }

type lkLimiter struct {
	id    int64
	grant bool
	log   *lockedLog
}

func (r *lkLimiter) Acquire(ctx context.Context) (core.Listener, bool) {
	r.log.add(1, r.id, 0)
	if !r.grant {
		return nil, false
	}
	return &lkListener{r.id, r.log}, true
}
func (r *lkLimiter) String() string { return fmt.Sprintf("lkLimiter%d", r.id) }

type parkStream struct {
	log     *lockedLog
	parkRcv chan chan struct{}
}

func (f *parkStream) SetHeader(metadata.MD) error  { return nil }
func (f *parkStream) SendHeader(metadata.MD) error { return nil }
func (f *parkStream) SetTrailer(metadata.MD)       {}
func (f *parkStream) Context() context.Context     { return context.Background() }
func (f *parkStream) SendMsg(m interface{}) error  { f.log.add(2, 2, 0); return nil }
func (f *parkStream) RecvMsg(m interface{}) error {
	f.log.add(2, 1, 0)
	c := make(chan struct{})
	f.parkRcv <- c
	<-c
	return nil
}

func TestC14Edge(t *testing.T) {
	rep := NewReport("C14edge")
	defer rep.Write(t)
	// (1) the limiter refuses and the limit-exceeded classifier answers codes.OK: the wrapped call is still not made
	for kind := 1; kind <= 2; kind++ {
		log := &lockedLog{}
		lim := &lkLimiter{id: 1, grant: false, log: log}
		okCls := func(ctx context.Context, method string, req interface{}, l core.Limiter) (interface{}, codes.Code, error) {
			return "refused", codes.OK, fmt.Errorf("refused politely")
		}
		called := 0
		if kind == 1 {
			ic := gclgrpc.UnaryServerInterceptor(gclgrpc.WithLimiter(lim), gclgrpc.WithLimitExceededResponseClassifier(okCls))
			ic(context.Background(), "req", &grpc.UnaryServerInfo{FullMethod: "/m"}, func(ctx context.Context, req interface{}) (interface{}, error) {
				called++
				return "resp", nil
			})
		} else {
			ic := gclgrpc.UnaryClientInterceptor(gclgrpc.WithLimiter(lim), gclgrpc.WithLimitExceededResponseClassifier(okCls))
			ic(context.Background(), "/m", "req", "reply", nil, func(ctx context.Context, method string, req, reply interface{}, cc *grpc.ClientConn, opts ...grpc.CallOption) error {
				called++
				return nil
			})
		}
		rep.Evaluations++
		rep.Distinct("refusal-with-ok-code", fmt.Sprint(kind))
		if called != 0 || log.count(1, 1) != 1 || log.count(4, 1) != 0 {
			rep.Violate("grpc:call-on-refusal", fmt.Sprintf("unary %s: the limiter refused (classifier code OK): wrapped call made %d times, acquires %d, completions %d",
				[]string{"", "server", "client"}[kind], called, log.count(1, 1), log.count(4, 1)), map[string]interface{}{"component": "grpc", "kind": kind})
		}
	}
	// (2) RecvMsg and SendMsg overlap on one stream: each direction completes its own token, exactly once
	for round := 0; round < 3; round++ {
		log := &lockedLog{}
		rl, sl := &lkLimiter{id: 1, grant: true, log: log}, &lkLimiter{id: 2, grant: true, log: log}
		ic := gclgrpc.StreamServerInterceptor(gclgrpc.WithStreamRecvLimiter(rl), gclgrpc.WithStreamSendLimiter(sl))
		fs := &parkStream{log: log, parkRcv: make(chan chan struct{}, 1)}
		_ = ic(nil, fs, &grpc.StreamServerInfo{FullMethod: "/s"}, func(srv interface{}, ss grpc.ServerStream) error {
			done := make(chan struct{})
			go func() { ss.RecvMsg("m"); close(done) }()
			c := <-fs.parkRcv // the receive is inside the underlying stream
			for i := 0; i <= round; i++ {
				ss.SendMsg("m") // one or more whole sends meanwhile
			}
			close(c)
			<-done
			return nil
		})
		rep.Evaluations++
		rep.Distinct("recv-send-overlap", fmt.Sprint(round))
		if log.count(4, 1) != 1 || log.count(4, 2) != round+1 || log.count(1, 1) != 1 || log.count(1, 2) != round+1 {
			rep.Violate("grpc:token-count", fmt.Sprintf("a receive overlapped by %d send(s): receive tokens acquired/completed %d/%d, send tokens %d/%d",
				round+1, log.count(1, 1), log.count(4, 1), log.count(1, 2), log.count(4, 2)), map[string]interface{}{"component": "grpc", "sends": round + 1})
		}
	}
	// (3) a refusal classifier whose error is itself a gRPC status (plain or wrapped) with another code: the classifier's code decides
	for dir := 1; dir <= 2; dir++ {
		for _, wrapped := range []bool{false, true} {
			log := &lockedLog{}
			refuse := &lkLimiter{id: 1, grant: false, log: log}
			cls := func(ctx context.Context, method string, req interface{}, l core.Limiter) (interface{}, codes.Code, error) {
				e := status.Error(codes.Internal, "inner status")
				if wrapped {
					e = fmt.Errorf("wrapped: %w", e)
				}
				return nil, codes.ResourceExhausted, e
			}
			var opts []gclgrpc.StreamInterceptorOption
			if dir == 1 {
				opts = []gclgrpc.StreamInterceptorOption{gclgrpc.WithStreamRecvLimiter(refuse), gclgrpc.WithStreamRecvLimitExceededResponseClassifier(cls)}
			} else {
				opts = []gclgrpc.StreamInterceptorOption{gclgrpc.WithStreamSendLimiter(refuse), gclgrpc.WithStreamSendLimitExceededResponseClassifier(cls)}
			}
			var got error
			fs := &parkStream{log: log, parkRcv: make(chan chan struct{}, 1)}
			_ = gclgrpc.StreamServerInterceptor(opts...)(nil, fs, &grpc.StreamServerInfo{FullMethod: "/s"}, func(srv interface{}, ss grpc.ServerStream) error {
				if dir == 1 {
					got = ss.RecvMsg("m")
				} else {
					got = ss.SendMsg("m")
				}
				return nil
			})
			rep.Evaluations++
			rep.Distinct("status-error-classifier", fmt.Sprint(dir, wrapped))
			if st, _ := status.FromError(got); got == nil || st.Code() != codes.ResourceExhausted || log.count(2, int64(dir)) != 0 {
				rep.Violate("grpc:refusal-code", fmt.Sprintf("stream %s refused, classifier answered ResourceExhausted with an error that is a gRPC status (wrapped=%v): returned %v, underlying calls %d",
					[]string{"", "receive", "send"}[dir], wrapped, got, log.count(2, int64(dir))), map[string]interface{}{"component": "grpc", "direction": dir, "wrapped": wrapped})
			}
		}
	}
	// (4) two stream interceptors chained on one stream (a global and a per-method limiter): every message passes both pairs of limiters
	{
		log := &lockedLog{}
		o1, o2 := &lkLimiter{id: 1, grant: true, log: log}, &lkLimiter{id: 2, grant: true, log: log}
		i1, i2 := &lkLimiter{id: 3, grant: true, log: log}, &lkLimiter{id: 4, grant: true, log: log}
		outer := gclgrpc.StreamServerInterceptor(gclgrpc.WithStreamRecvLimiter(o1), gclgrpc.WithStreamSendLimiter(o2))
		inner := gclgrpc.StreamServerInterceptor(gclgrpc.WithStreamRecvLimiter(i1), gclgrpc.WithStreamSendLimiter(i2))
		fs := &parkStream{log: log, parkRcv: make(chan chan struct{}, 4)}
		info := &grpc.StreamServerInfo{FullMethod: "/s"}
		_ = outer(nil, fs, info, func(srv interface{}, ss grpc.ServerStream) error {
			return inner(srv, ss, info, func(srv interface{}, ss2 grpc.ServerStream) error {
				go func() { c := <-fs.parkRcv; close(c) }()
				ss2.RecvMsg("m")
				ss2.SendMsg("m")
				ss2.SendMsg("m")
				return nil
			})
		})
		rep.Evaluations++
		rep.Distinct("chained-interceptors", "2")
		for id, want := range map[int64]int{1: 1, 2: 2, 3: 1, 4: 2} {
			if log.count(1, id) != want || log.count(4, id) != want {
				rep.Violate("grpc:chained-limiter-skipped", fmt.Sprintf("two chained stream interceptors, 1 receive and 2 sends: limiter %d (1,2 outer recv/send; 3,4 inner) was asked %d times and completed %d times, expected %d",
					id, log.count(1, id), log.count(4, id), want), map[string]interface{}{"component": "grpc", "limiter": id})
			}
		}
	}
	// (5) interceptors built one after the other keep their own configuration: building a second one (other limiter, other classifier)
	// changes nothing about the first
	{
		log := &lockedLog{}
		l1 := &lkLimiter{id: 1, grant: true, log: log}
		l2 := &lkLimiter{id: 2, grant: false, log: log}
		cls2 := func(ctx context.Context, method string, req interface{}, l core.Limiter) (interface{}, codes.Code, error) {
			return nil, codes.Unavailable, fmt.Errorf("second")
		}
		srv := gclgrpc.UnaryServerInterceptor(gclgrpc.WithLimiter(l1))
		cli := gclgrpc.UnaryClientInterceptor(gclgrpc.WithLimiter(l2), gclgrpc.WithLimitExceededResponseClassifier(cls2))
		srv2 := gclgrpc.UnaryServerInterceptor(gclgrpc.WithLimiter(l2), gclgrpc.WithLimitExceededResponseClassifier(cls2))
		_ = srv2
		called := 0
		resp, err := srv(context.Background(), "req", &grpc.UnaryServerInfo{FullMethod: "/m"}, func(ctx context.Context, req interface{}) (interface{}, error) {
			called++
			return "resp", nil
		})
		cliCalled := 0
		cerr := cli(context.Background(), "/m", "req", "reply", nil, func(ctx context.Context, method string, req, reply interface{}, cc *grpc.ClientConn, opts ...grpc.CallOption) error {
			cliCalled++
			return nil
		})
		rep.Evaluations += 2
		rep.Distinct("interceptors-side-by-side", "server+client+server")
		if called != 1 || err != nil || resp != "resp" || log.count(1, 1) != 1 || log.count(4, 1) != 1 {
			rep.Violate("grpc:config-shared", fmt.Sprintf("server interceptor built with limiter 1 (grants), then two more interceptors built with limiter 2 (refuses): the first made %d calls, returned (%v, %v), asked limiter 1 %d times, limiter 2 %d times",
				called, resp, err, log.count(1, 1), log.count(1, 2)), map[string]interface{}{"component": "grpc", "case": "side-by-side"})
		}
		if st, _ := status.FromError(cerr); cliCalled != 0 || cerr == nil || st.Code() != codes.Unavailable {
			rep.Violate("grpc:config-shared", fmt.Sprintf("client interceptor built with a refusing limiter and classifier code Unavailable: %d calls made, returned %v", cliCalled, cerr), map[string]interface{}{"component": "grpc", "case": "side-by-side-client"})
		}
	}
}
