package harness

import (
	"context"
	"fmt"
	"runtime"
	"sort"
	"sync"
	"sync/atomic"
	"testing"
	"time"

	"github.com/platinummonkey/go-concurrency-limits/core"
	"github.com/platinummonkey/go-concurrency-limits/limit"
	"github.com/platinummonkey/go-concurrency-limits/limiter"
	"github.com/platinummonkey/go-concurrency-limits/strategy"
	"github.com/platinummonkey/go-concurrency-limits/strategy/matchers"
)

// Real-goroutine stress runs for clauses that only show under contention.  Every oracle here is a statement that must hold in
// EVERY interleaving (so no schedule can make it fail on a correct tree), checked on whatever interleavings the scheduler produces.

// ---------------- C05: a SetLimit that has returned is in force (limit and shares), whatever else is going on ----------------
func TestC05Stress(t *testing.T) {
	rep := NewReport("C05stress")
	defer rep.Write(t)
	dur := time.Duration(Scale(300, 3000)) * time.Millisecond
	for kind := 1; kind <= 4; kind++ {
		reg := newSyncRegistry()
		var st core.Strategy
		var limitOf func() int
		var binLimit func(i int) int
		keys := []string{"a", "b"}
		pcts := []float64{0.5, 0.3}
		switch kind {
		case 1:
			s := strategy.NewSimpleStrategyWithMetricRegistry(4, reg)
			st, limitOf = s, s.GetLimit
		case 2:
			s := strategy.NewPreciseStrategyWithMetricRegistry(4, reg)
			st, limitOf = s, s.GetLimit
		case 3:
			parts := map[string]*strategy.LookupPartition{}
			for i, k := range keys {
				parts[k] = strategy.NewLookupPartitionWithMetricRegistry(k, pcts[i], 1, reg)
			}
			s, err := strategy.NewLookupPartitionStrategyWithMetricRegistry(parts, nil, 4, reg)
			if err != nil {
				t.Fatal(err)
			}
			st, limitOf = s, s.Limit
			binLimit = func(i int) int { v, _ := s.BinLimit(keys[i]); return v }
		default:
			var parts []*strategy.PredicatePartition
			for i, k := range keys {
				parts = append(parts, strategy.NewPredicatePartitionWithMetricRegistry(k, pcts[i], matchers.StringPredicateMatcher(k, false), reg))
			}
			s, err := strategy.NewPredicatePartitionStrategyWithMetricRegistry(parts, 4, reg)
			if err != nil {
				t.Fatal(err)
			}
			st, limitOf = s, s.Limit
			binLimit = func(i int) int { v, _ := s.BinLimit(i); return v }
		}
		ctxOf := func(i int) context.Context {
			k := []string{"a", "b", "zz"}[i%3]
			switch kind {
			case 3:
				return context.WithValue(context.Background(), matchers.LookupPartitionContextKey, k)
			case 4:
				return context.WithValue(context.Background(), matchers.StringPredicateContextKey, k)
			}
			return context.Background()
		}
		stop := make(chan struct{})
		var wg sync.WaitGroup
		for g := 0; g < 8; g++ {
			wg.Add(1)
			go func(g int) {
				defer wg.Done()
				for i := g; ; i++ {
					select {
					case <-stop:
						return
					default:
					}
					if tok, ok := st.TryAcquire(ctxOf(i)); ok {
						tok.Release()
					}
				}
			}(g)
		}
		bad := ""
		end := time.Now().Add(dur / 4)
		n := 0
		for i := 0; time.Now().Before(end) && bad == ""; i++ {
			v := 1 + i%9
			st.SetLimit(v)
			n++
			if got := limitOf(); got != v {
				bad = fmt.Sprintf("SetLimit(%d) returned, Limit() reads %d", v, got)
			}
			if binLimit != nil && bad == "" {
				for b := range keys {
					if got, want := binLimit(b), int(shareOf(int64(v), pcts[b])); got != want {
						bad = fmt.Sprintf("SetLimit(%d) returned, partition %q has limit %d, its share is %d", v, keys[b], got, want)
					}
				}
			}
		}
		close(stop)
		wg.Wait()
		rep.Evaluations += n
		rep.Distinct("setlimit-under-contention", fmt.Sprint(kind))
		if bad != "" {
			rep.Violate(stratNames[kind]+":setlimit-lost-under-contention", bad+" (8 goroutines acquiring and releasing meanwhile; only this goroutine sets limits)", map[string]interface{}{"component": "strategy-stress", "kind": kind})
		}
	}
}

// ---------------- C12: a caller that has been granted is no longer counted in the backlog ----------------
func TestC12Stress(t *testing.T) {
	rep := NewReport("C12stress")
	defer rep.Write(t)
	trials := Scale(4000, 60000)
	end := time.Now().Add(time.Duration(Scale(6, 60)) * time.Second)
	dl, _ := limiter.NewDefaultLimiter(limit.NewFixedLimit("f", 1, nil), 1e9, 1e9, 0, 10, strategy.NewPreciseStrategy(1), nil, core.EmptyMetricRegistryInstance)
	q := limiter.NewQueueBlockingLimiterFromConfig(dl, limiter.QueueLimiterConfig{Ordering: limiter.OrderingFIFO, MaxBacklogSize: 3, MaxBacklogTimeout: 50 * time.Millisecond})
	// observers: once the (only) waiter of the current trial has returned from Acquire, the backlog must read 0.  They also keep the
	// backlog's lock busy, which stretches the instants between the steps of a hand-off.
	var cur, returned, stopObs int64
	var obsMu sync.Mutex
	obsBad := ""
	var obsWG sync.WaitGroup
	for o := 0; o < 6; o++ {
		obsWG.Add(1)
		go func() {
			defer obsWG.Done()
			for atomic.LoadInt64(&stopObs) == 0 {
				f := atomic.LoadInt64(&returned)
				n := q.VerifBacklogLen()
				if c := atomic.LoadInt64(&cur); f != 0 && f == c && n != 0 {
					obsMu.Lock()
					if obsBad == "" {
						obsBad = fmt.Sprintf("trial %d: the only waiter's Acquire had returned (granted) and the backlog still read %d", c, n)
					}
					obsMu.Unlock()
				}
			}
		}()
	}
	bad := ""
	n := 0
	for i := 0; i < trials && time.Now().Before(end) && bad == ""; i++ {
		holder, ok := q.Acquire(context.Background())
		if !ok {
			bad = "setup: an idle limiter refused"
			break
		}
		atomic.StoreInt64(&cur, int64(i+1))
		seen := make(chan int, 1)
		go func(id int64) {
			l, ok := q.Acquire(context.Background())
			if ok {
				atomic.StoreInt64(&returned, id)
			}
			n := q.VerifBacklogLen() // the first thing the granted caller does
			if ok {
				l.OnIgnore()
			} else {
				n = -1
			}
			seen <- n
		}(int64(i + 1))
		for q.VerifBacklogLen() != 1 {
			runtime.Gosched()
		}
		holder.OnSuccess()
		// (a refusal here is the hand-off lost between the waiter's push and its select - known finding F9b, replayed in TestC12Races - not this clause)
		if got := <-seen; got == -1 {
			rep.Count("lost-handoff-F9b")
		} else if got != 0 {
			bad = fmt.Sprintf("trial %d: the granted caller read a backlog of %d right after its Acquire returned (it was the only waiter)", i, got)
		}
		obsMu.Lock()
		if bad == "" {
			bad = obsBad
		}
		obsMu.Unlock()
		n++
	}
	atomic.StoreInt64(&stopObs, 1)
	obsWG.Wait()
	rep.Evaluations += n
	rep.Distinct("granted-caller-reads-backlog", "fifo")
	if bad != "" {
		rep.Violate("queue:backlog-counts-granted-caller", bad, map[string]interface{}{"component": "queue-stress"})
	}
}

// ---------------- C20: under concurrent admissions each grant's in-flight sample is its own admission count ----------------
type lockedSamples struct {
	mu sync.Mutex
	v  []float64
}

func (l *lockedSamples) AddSample(v float64, tags ...string) {
	l.mu.Lock()
	l.v = append(l.v, v)
	l.mu.Unlock()
}

type lockedRegistry struct{ s *lockedSamples }

func (r lockedRegistry) RegisterDistribution(string, ...string) core.MetricSampleListener { return r.s }
func (r lockedRegistry) RegisterTiming(string, ...string) core.MetricSampleListener       { return r.s }
func (r lockedRegistry) RegisterCount(string, ...string) core.MetricSampleListener        { return r.s }
func (r lockedRegistry) RegisterGauge(string, core.MetricSupplier, ...string)             {}
func (r lockedRegistry) Start()                                                           {}
func (r lockedRegistry) Stop()                                                            {}

func TestC20Concurrent(t *testing.T) {
	rep := NewReport("C20conc")
	defer rep.Write(t)
	trials := Scale(3000, 40000)
	end := time.Now().Add(time.Duration(Scale(5, 60)) * time.Second)
	for kind := 1; kind <= 2; kind++ {
		bad := ""
		n := 0
		for i := 0; i < trials/2 && time.Now().Before(end) && bad == ""; i++ {
			k := 2 + i%7
			ls := &lockedSamples{}
			var st core.Strategy
			if kind == 1 {
				st = strategy.NewSimpleStrategyWithMetricRegistry(64, lockedRegistry{ls})
			} else {
				st = strategy.NewPreciseStrategyWithMetricRegistry(64, lockedRegistry{ls})
			}
			var wg sync.WaitGroup
			start := make(chan struct{})
			var granted int64
			for g := 0; g < k; g++ {
				wg.Add(1)
				go func() {
					defer wg.Done()
					<-start
					if _, ok := st.TryAcquire(context.Background()); ok {
						atomic.AddInt64(&granted, 1)
					}
				}()
			}
			close(start)
			wg.Wait()
			n++
			got := append([]float64{}, ls.v...)
			sort.Float64s(got)
			ok := int(granted) == k && len(got) == k
			for j := 0; ok && j < k; j++ {
				ok = got[j] == float64(j+1)
			}
			if !ok {
				bad = fmt.Sprintf("%d concurrent admissions (all granted: %d) emitted the in-flight samples %v, the admission counts are 1..%d", k, granted, got, k)
			}
		}
		rep.Evaluations += n
		rep.Distinct("concurrent-admission-samples", fmt.Sprint(kind))
		if bad != "" {
			rep.Violate(stratNames[kind]+":concurrent-inflight-sample", bad, map[string]interface{}{"component": "strategy-stress", "kind": kind})
		}
	}
}

// ---------------- C03 / C05: partitions under churn - tokens are charged to and released from the right bins while partitions are added
// and removed and the limit moves; a partition added while the limit changes gets the share of the limit in force ----------------
func TestC03Stress(t *testing.T) {
	rep := NewReport("C03stress")
	defer rep.Write(t)
	dur := time.Duration(Scale(400, 4000)) * time.Millisecond
	for kind := 3; kind <= 4; kind++ {
		reg := newSyncRegistry()
		keys := []string{"a", "b"}
		pcts := []float64{0.5, 0.3}
		var st core.Strategy
		var total func() int
		var limitOf func() int
		var binBusy func(i int) int
		var addC func() (func() int, bool) // adds partition "c" (20%), returns a reader of its limit
		var removeC func()
		ctxOf := func(k string) context.Context {
			if kind == 3 {
				return context.WithValue(context.Background(), matchers.LookupPartitionContextKey, k)
			}
			return context.WithValue(context.Background(), matchers.StringPredicateContextKey, k)
		}
		if kind == 3 {
			parts := map[string]*strategy.LookupPartition{}
			for i, k := range keys {
				parts[k] = strategy.NewLookupPartitionWithMetricRegistry(k, pcts[i], 1, reg)
			}
			s, err := strategy.NewLookupPartitionStrategyWithMetricRegistry(parts, nil, 6, reg)
			if err != nil {
				t.Fatal(err)
			}
			st, total, limitOf = s, s.BusyCount, s.Limit
			binBusy = func(i int) int { v, _ := s.BinBusyCount(keys[i]); return v }
			addC = func() (func() int, bool) {
				ok := s.AddPartition("c", strategy.NewLookupPartitionWithMetricRegistry("c", 0.2, 1, reg))
				return func() int { v, _ := s.BinLimit("c"); return v }, ok
			}
			removeC = func() { s.RemovePartition("c") }
		} else {
			var parts []*strategy.PredicatePartition
			for i, k := range keys {
				parts = append(parts, strategy.NewPredicatePartitionWithMetricRegistry(k, pcts[i], matchers.StringPredicateMatcher(k, false), reg))
			}
			s, err := strategy.NewPredicatePartitionStrategyWithMetricRegistry(parts, 6, reg)
			if err != nil {
				t.Fatal(err)
			}
			st, total, limitOf = s, s.BusyCount, s.Limit
			binBusy = func(i int) int { v, _ := s.BinBusyCount(i); return v }
			addC = func() (func() int, bool) {
				p := strategy.NewPredicatePartitionWithMetricRegistry("c", 0.2, matchers.StringPredicateMatcher("c", false), reg)
				ok := s.AddPartition(p)
				return func() int { return p.Limit() }, ok
			}
			removeC = func() { s.RemovePartitionsMatching(ctxOf("c")) }
		}
		stop := make(chan struct{})
		var wg sync.WaitGroup
		var ops int64
		for g := 0; g < 6; g++ {
			wg.Add(1)
			go func(g int) {
				defer wg.Done()
				ks := []string{"a", "b", "c", "zz"}
				for i := g; ; i++ {
					select {
					case <-stop:
						return
					default:
					}
					if tok, ok := st.TryAcquire(ctxOf(ks[i%4])); ok {
						runtime.Gosched()
						tok.Release()
					}
					atomic.AddInt64(&ops, 1)
				}
			}(g)
		}
		// the limit only ever grows (so that two equal reads of it bracket a period in which it did not change)
		wg.Add(1)
		go func() {
			defer wg.Done()
			for v := 6; ; v++ {
				select {
				case <-stop:
					return
				default:
				}
				st.SetLimit(v)
				time.Sleep(20 * time.Microsecond)
			}
		}()
		bad := ""
		end := time.Now().Add(dur / 4)
		for time.Now().Before(end) && bad == "" {
			read, ok := addC()
			if ok {
				l1 := limitOf()
				b := read()
				l2 := limitOf()
				if l1 == l2 && b != int(shareOf(int64(l1), 0.2)) {
					bad = fmt.Sprintf("a 20%% partition added while the limit was moving has limit %d with the total at %d (share %d)", b, l1, shareOf(int64(l1), 0.2))
				}
			}
			runtime.Gosched()
			removeC()
		}
		close(stop)
		wg.Wait()
		rep.Evaluations += int(ops)
		rep.Distinct("partition-churn", fmt.Sprint(kind))
		name := stratNames[kind]
		if bad != "" {
			rep.Violate(name+":stale-share-on-add", bad, map[string]interface{}{"component": "strategy-stress", "kind": kind})
		}
		// quiescent: every token has been released
		if n := total(); n != 0 {
			rep.Violate(name+":stress-busy-not-zero", fmt.Sprintf("all tokens released, the strategy still counts %d in flight", n), map[string]interface{}{"component": "strategy-stress", "kind": kind})
		}
		for i := range keys {
			if n := binBusy(i); n != 0 {
				rep.Violate(name+":stress-bin-not-zero", fmt.Sprintf("all tokens released, partition %q still counts %d in flight", keys[i], n), map[string]interface{}{"component": "strategy-stress", "kind": kind})
			}
		}
	}
}
