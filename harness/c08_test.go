//go:debug randseednop=0
package harness

import (
	"fmt"
	"math"
	"math/rand"
	"testing"
)

// ---------------- C08: more latency never means more limit ----------------
// Twin instances are built and driven with the global math/rand source re-seeded identically, so that their probe jitter /
// probe countdown draws coincide; they receive the same prefix and then a final sample that differs only in its RTT.
func TestC08(t *testing.T) {
	tr := NewTrace("C08")
	rep := NewReport("C08")
	defer func() { tr.Close(); rep.Write(t) }()
	root := NewRng(Seed())
	nCases := Scale(120, 2500)
	type sm struct {
		start, rtt, inf int64
		drop            bool
	}
	for _, kind := range []int{1, 2, 3} {
		for ci := 0; ci < nCases; ci++ {
			r := root.Fork()
			cfg := GenLimitCfg(r, kind, r.Intn(2))
			forceDir := kind == 1 && r.Bool(30)
			if forceDir {
				// a plain Vegas limit with smoothing 1.0: every change of the candidate shows in the reported estimate
				cfg = GenLimitCfg(r, kind, 0)
				cfg.P[3] = FBits(1.0)
			}
			atCeiling := false
			if kind == 1 && r.Bool(10) && !forceDir {
				cfg.P[0], cfg.P[1] = 50, 20 // initial above max: known finding F18
			} else if kind == 1 && r.Bool(8) && !forceDir && cfg.Wrapper == 0 {
				// built exactly at its ceiling, judged from there (known finding F24 lives here; anything else at the ceiling is reported)
				m := r.Pick(3, 12, 20, 24, 48, 100, 250)
				cfg.P[0], cfg.P[1], cfg.P[2] = m, m, 1<<20
				atCeiling = true
			}
			seed := int64(r.U64() >> 1)
			// prefix generated against a scout instance
			rand.Seed(seed)
			scout, err := NewLUT(cfg)
			if err != nil {
				continue
			}
			st := NewStream(r, scout)
			st.EdgePct = 1
			var prefix []sm
			n := r.Intn(Scale(80, 250))
			if atCeiling {
				n = 0
				scout.Now += 1000
				x := sm{scout.Now, st.base, cfg.P[0], false} // the sample that sets the baseline
				prefix = append(prefix, x)
				scout.OnSample(x.start, x.rtt, x.inf, x.drop)
			}
			// Gradient2 in its warm-up: k equal samples, then a pair whose higher RTT is exactly twice the long-term average that includes it
			// (the knee of max(1/2, min(1, long/short))) - the boundary value itself must behave like its neighbours
			g2k, g2b := int64(0), int64(0)
			if kind == 3 && cfg.Wrapper == 0 && r.Bool(25) {
				g2k = 2 + int64(r.Intn(7))
				g2b = (g2k - 1) * (g2k + 1) * 1000 * r.Pick(1, 3, 10)
				n = 0
				for i := int64(0); i < g2k && !scout.Dead; i++ {
					scout.Now += 1000
					x := sm{scout.Now, g2b, int64(scout.EstFloat()) + 1, false}
					prefix = append(prefix, x)
					scout.OnSample(x.start, x.rtt, x.inf, x.drop)
				}
			}
			// Gradient2 with a constant-RTT history: the long-term average equals that RTT exactly; the pair is that very RTT against a slightly higher one
			g2const := int64(0)
			if kind == 3 && g2k == 0 && cfg.Wrapper == 0 && r.Bool(15) {
				g2const = r.Pick(1_000_000, 50_000, 7_777_777)
				n = 0
				for i := 0; i < 12+r.Intn(40) && !scout.Dead; i++ {
					scout.Now += 1000
					x := sm{scout.Now, g2const, int64(scout.EstFloat()) + 1, false}
					prefix = append(prefix, x)
					scout.OnSample(x.start, x.rtt, x.inf, x.drop)
				}
			}
			for i := 0; i < n && !scout.Dead; i++ {
				a, b, c, d := st.Next()
				prefix = append(prefix, sm{a, b, c, d})
				scout.OnSample(a, b, c, d)
			}
			if kind == 2 && r.Bool(50) && !scout.Dead {
				// push the Gradient estimate towards its floor with a run of high-latency saturated samples
				b0 := scout.NoLoad()
				if b0 <= 0 {
					b0 = st.base
				}
				for i := 0; i < 5+r.Intn(40) && !scout.Dead; i++ {
					scout.Now += 1000
					x := sm{scout.Now, b0 * r.Pick(3, 4, 6), int64(scout.EstFloat()) + 1, false}
					prefix = append(prefix, x)
					scout.OnSample(x.start, x.rtt, x.inf, x.drop)
				}
			}
			if scout.Dead {
				continue
			}
			nl := scout.NoLoad()
			base := nl
			if kind == 3 || base <= 0 {
				base = st.base
			}
			lo := base + r.Pick(0, 0, 1, base/10, base/2, base, 3*base)
			hi := lo + r.Pick(1, 1, 2, base/100+1, base/10+1, base, 5*base, 150*base, 1000*base)
			directed := false
			if r.Bool(30) || forceDir { // aim around Vegas' queue thresholds
				est := scout.EstFloat()
				q := float64(r.Pick(0, 1, 2, 3, 5, 6, 7, 12, 13))
				if (r.Bool(60) || forceDir) && est >= 1 {
					// the thresholds of the current estimate: log10 root, x3 (alpha), x6 (beta), and their neighbours
					lg := int64(math.Max(1, math.Floor(math.Log10(math.Floor(est)))))
					q = float64(r.Pick(lg, 3*lg, 6*lg) + r.Pick(-1, 0, 0, 1))
					if q < 0 {
						q = 0
					}
				}
				if est > q+1 && nl > 0 {
					directed = forceDir || (kind == 1 && r.Bool(75))
					off := r.Pick(-1, 0, 1)
					if directed {
						off = r.Pick(1, 1, 0)
					}
					lo = int64(float64(nl)/(1-q/est)) + off
					hi = lo + r.Pick(1, 2, nl/20+1)
					if lo < nl {
						lo = nl
						hi = lo + 1
					}
					if directed && lo > 0 && lo < 1<<58 && !scout.Dead {
						// the sample just before the pair already carries the low RTT (and moves the estimate a little): the pair must be
						// judged against the estimate as it is now, not as it was one sample ago
						scout.Now += 1000
						x := sm{scout.Now, lo, int64(est) + 1, r.Bool(70)}
						prefix = append(prefix, x)
						scout.OnSample(x.start, x.rtt, x.inf, x.drop)
					}
				}
			}
			if len(prefix) > 0 && r.Bool(25) {
				// the low RTT repeats the RTT of the sample before it (the estimate has moved since): nothing may be carried over from that sample
				if last := prefix[len(prefix)-1].rtt; last > 0 && last >= nl && last < 1<<58 {
					lo = last
					hi = lo + r.Pick(1, 2, last/20+1, last)
				}
			}
			if base > 1<<58 {
				base = st.base // an edge RTT of 2^62 became the baseline: stay inside the RTT range of the property
				if nl > 1<<58 {
					rep.Count("baseline-at-range-end")
					continue
				}
			}
			if lo < 0 || hi <= lo || hi > 1<<62 {
				rep.Count("pair-out-of-range")
				continue
			}
			if kind == 2 && nl > 0 && r.Bool(60) {
				// RTTs inside the band where Gradient's gradient moves: (tolerance x baseline, 2 x tolerance x baseline)
				lo = nl + nl*r.Range(0, 300)/100
				hi = lo + 1 + nl*r.Range(1, 150)/100
			}
			inf := r.Pick(0, int64(scout.EstFloat()/2), int64(scout.EstFloat()), int64(scout.EstFloat())+2)
			drop := r.Bool(20)
			if g2k > 0 {
				hi = 2 * g2k * g2b / (g2k - 1)
				lo = hi - r.Pick(1, hi/30, hi/3)
				inf, drop = int64(scout.EstFloat())+1, false
			}
			if kind == 2 && r.Bool(60) {
				inf, drop = int64(scout.EstFloat())+1, false
			}
			if g2const > 0 {
				lo, hi = g2const, g2const+r.Pick(1, 2, g2const/100, g2const/3)
				inf, drop = int64(scout.EstFloat())+1, false
			} else if kind == 3 && g2k == 0 && r.Bool(12) {
				// a completion below the clock's resolution (RTT 0) against a small positive RTT
				lo, hi = 0, r.Pick(1, 1000, base/2+1, base)
				inf, drop = int64(scout.EstFloat())+1, false
			}
			if directed && r.Bool(80) {
				inf, drop = int64(scout.EstFloat())+1, false
			}
			start := scout.Now + 1000
			run := func(rtt int64) (*LUT, *caseCtx, pre, SampleObs, bool) {
				rand.Seed(seed)
				l, _ := NewLUT(cfg)
				c := &caseCtx{Cfg: l.Cfg, rep: rep, prop: "C08", state: map[string]float64{}}
				tr.Case(30, l.Cfg.Ints()...)
				for _, s := range prefix {
					c.sample(l, tr, s.start, s.rtt, s.inf, s.drop)
				}
				cnt := 0
				if l.grad != nil {
					_, cnt = l.grad.VerifState()
				}
				p, o := c.sample(l, tr, start, rtt, inf, drop)
				tr.End()
				probe := o.Probe
				if l.grad != nil && l.Interval > 0 && cnt-1 <= 0 {
					probe = true
				}
				return l, c, p, o, probe
			}
			la, ca, pa, oa, probeA := run(lo)
			_, _, pb, ob, probeB := run(hi)
			rep.Evaluations++
			if pa.Est != pb.Est || pa.NoLoad != pb.NoLoad {
				rep.Count("twins-diverged") // different random draws: not comparable
				continue
			}
			if probeA || probeB || oa.Panicked || ob.Panicked {
				rep.Count("final-sample-was-probe")
				continue
			}
			if kind != 3 && (pa.NoLoad == 0 || lo < pa.NoLoad) {
				rep.Count("final-sample-lowers-baseline")
				continue
			}
			rep.Distinct("twin-pair", fmt.Sprint(kind, pa.Est, pa.NoLoad, lo, hi, inf, drop, oa.Est, ob.Est))
			rep.Count(limitKindNames[kind] + ".pairs")
			if ob.Est > oa.Est {
				sig := limitKindNames[kind] + ":more-latency-more-limit"
				if kind == 1 && pa.EstF > float64(la.MaxL) {
					sig += ":estimate-above-max" // known finding F18
				} else if kind == 1 && pa.EstF > float64(la.MaxL)-1 && pa.EstF <= float64(la.MaxL) && pa.EstF-math.Floor(pa.EstF) < 1.0/1048576 && ob.Est == pa.Est && oa.Est == pa.Est-1 {
					// known finding F24: the stored estimate is an integer (to within 2^-20) inside (max-1, max] - in practice the maximum itself; the increase
					// branch clamps to the maximum, less than one above the estimate, and the smoothing
					// (1-s)*max + s*max rounds below it - the lower RTT reports max-1, the higher RTT (no change) reports max
					sig += ":estimate-at-ceiling"
				}
				ca.violate(sig, fmt.Sprintf("same history, same in-flight %d and drop=%v: RTT %d gives estimate %d, the higher RTT %d gives %d (estimate before %v, baseline %d)", inf, drop, lo, oa.Est, hi, ob.Est, pa.EstF, pa.NoLoad))
			}
			if ci == 0 {
				rep.Sample(map[string]interface{}{"limit": limitKindNames[kind], "cfg": la.Cfg.Ints(), "prefix_len": len(prefix), "rtt_low": lo, "rtt_high": hi, "inflight": inf, "drop": drop, "est_low": oa.Est, "est_high": ob.Est})
			}
		}
	}
	// replay of known finding F24 (witness of C08_vegas_refuted_at_ceiling): estimate = maximum = 12, smoothing 0.3
	{
		mk := func() *LUT {
			rand.Seed(7)
			l, _ := NewLUT(LimitCfg{Kind: 1, P: []int64{12, 12, 1 << 20, FBits(0.3)}})
			l.OnSample(0, 1_000_000, 12, false) // baseline
			return l
		}
		a, b := mk(), mk()
		oa := a.OnSample(1, 1_000_000, 12, false)
		ob := b.OnSample(1, 1_600_000, 12, false)
		if ob.Est > oa.Est {
			rep.KnownStillFails("vegas:more-latency-more-limit:estimate-at-ceiling", fmt.Sprintf("Vegas with estimate = maximum = 12 and smoothing 0.3: RTT = baseline gives %d (0.7*12 + 0.3*12 rounds below 12), a higher RTT gives %d", oa.Est, ob.Est), nil)
		}
	}
	// replay of known finding F18
	{
		rand.Seed(7)
		mk := func() *LUT {
			l, _ := NewLUT(LimitCfg{Kind: 1, P: []int64{50, 20, 30, FBits(1.0)}})
			l.OnSample(0, 1000, 100, false) // baseline
			return l
		}
		a, b := mk(), mk()
		oa := a.OnSample(1, 1000, 100, false)
		ob := b.OnSample(1, 1100, 100, false)
		if ob.Est > oa.Est {
			rep.KnownStillFails("vegas:more-latency-more-limit:estimate-above-max", fmt.Sprintf("Vegas built with initial 50 above max 20: RTT=baseline gives %d, a higher RTT gives %d", oa.Est, ob.Est), nil)
		}
	}
}
