package harness

import (
	"context"
	"fmt"
	"math"
	"runtime"
	"sync"
	"sync/atomic"
	"testing"
	"testing/synctest"
	"time"

	"github.com/platinummonkey/go-concurrency-limits/core"
	"github.com/platinummonkey/go-concurrency-limits/limit"
	"github.com/platinummonkey/go-concurrency-limits/limiter"
	"github.com/platinummonkey/go-concurrency-limits/strategy"
)

func shareOf(total int64, pct float64) int64 {
	return int64(int32(math.Max(1, math.Ceil(float64(total)*pct))))
}

type heldTok struct {
	tok core.StrategyToken
	bin int // harness bin identity: index into binIDs, -1 = unknown bin / unpartitioned
}

// only violations whose signature (after "<strategy>:") is listed are reported by driveBare (nil = all)
var bareOnly map[string]bool

// bare strategy driver (component 41) with the C01/C03 oracles
func driveBare(t *testing.T, prop string, kinds []int, nCases, nOps int) {
	only := bareOnly
	bareOnly = nil
	tr := NewTrace(prop)
	rep := NewReport(prop)
	defer func() { tr.Close(); rep.Write(t) }()
	root := NewRng(Seed())
	for _, kind := range kinds {
		for ci := 0; ci < nCases; ci++ {
			r := root.Fork()
			cfg := GenStratCfg(r, kind)
			s, err := NewSUT(cfg)
			if err != nil {
				rep.Count("constructor-error")
				continue
			}
			name := stratNames[kind]
			tr.Case(41, cfg.Ints()...)
			var hist [][]int64
			fail := func(sig, d string) {
				if only != nil && !only[sig] {
					return
				}
				rep.Violate(name+":"+sig, fmt.Sprintf("%s (cfg=%v after %d ops)", d, cfg.Ints(), len(hist)), map[string]interface{}{"component": "strategy", "cfg": cfg.Ints(), "ops": hist})
			}
			// harness-side identity of bin objects: live bins carry an id; binBusy[id] = outstanding tokens of that object
			ids := make([]int, len(s.Live))
			for i := range ids {
				ids[i] = i
			}
			nextID := len(ids)
			binBusy := map[int]int64{}
			unknownBusy := int64(0)
			var toks []heldTok
			released := map[int]bool{}
			nextKey := int64(10)
			maxLimitSeen := s.Limit()
			for i := 0; i < nOps; i++ {
				op := r.Intn(20)
				switch {
				case op < 9: // TryAcquire
					key := int64(1 + r.Intn(len(cfg.Parts)+2)) // includes keys matching no partition
					if kind == 4 && r.Bool(6) {
						key = 7 // a value that no predicate matches (see predValue)
					}
					if kind <= 2 {
						key = 0
					}
					busy0, lim0 := s.Busy(), s.Limit()
					fl := s.firstLive(key)
					var binB, binL int64 = unknownBusy, 1
					if fl >= 0 {
						b := s.Bins()[fl]
						binB, binL = b[0], b[1]
					}
					s.Reg.Log = nil
					tok, ok := s.Strat.TryAcquire(s.Ctx(key))
					if ok != tok.IsAcquired() {
						fail("token-flag", "IsAcquired disagrees with ok")
					}
					obs := []int64{B(ok), int64(tok.InFlightCount()), int64(len(s.Reg.Log))}
					for _, e := range s.Reg.Log {
						obs = append(obs, int64(fb(e.Bits)))
						if e.Kind != 2 {
							fail("metric-kind", fmt.Sprintf("in-flight sample registered as kind %d", e.Kind))
						}
					}
					// C20: the in-flight sample equals the in-flight count at the admission decision
					if kind <= 2 {
						want := busy0
						if ok {
							want = busy0 + 1
						}
						if len(s.Reg.Log) != 1 || int64(fb(s.Reg.Log[0].Bits)) != want {
							fail("inflight-sample", fmt.Sprintf("TryAcquire with %d in flight (ok=%v) emitted in-flight samples %v", busy0, ok, s.Reg.Log))
						}
					} else if ok && (len(s.Reg.Log) != 1 || (fl >= 0 && int64(fb(s.Reg.Log[0].Bits)) != binB+1)) {
						fail("partition-inflight-sample", fmt.Sprintf("grant to a partition with %d in flight emitted %v", binB, s.Reg.Log))
					}
					obs = append(obs, s.State()...)
					tr.Op(1, []int64{key}, obs)
					hist = append(hist, []int64{1, key})
					rep.Evaluations++
					want := busy0 < lim0
					if kind >= 3 {
						want = busy0 < lim0 || binB < binL
						if kind == 4 && fl < 0 {
							want = false
						}
						rep.Distinct("partition-admission", fmt.Sprint(kind, cfg.Total, busy0, lim0, binB, binL, fl < 0, ok))
					} else {
						rep.Distinct("gate-decision", fmt.Sprint(kind, busy0, lim0, ok))
					}
					if ok != want {
						cls := "refused-with-room"
						if ok {
							cls = "over-admission"
						}
						fail(cls, fmt.Sprintf("TryAcquire(key %d) ok=%v with total %d/%d, partition %d/%d (matching bin index %d)", key, ok, busy0, lim0, binB, binL, fl))
					}
					if ok {
						id := -1
						if fl >= 0 {
							id = ids[fl]
							binBusy[id]++
						} else if kind >= 3 {
							unknownBusy++
						}
						toks = append(toks, heldTok{tok, id})
						if s.Busy() != busy0+1 {
							fail("busy-not-incremented", "grant did not add exactly one unit")
						}
					} else if s.Busy() != busy0 {
						fail("refusal-changed-busy", "a refused TryAcquire changed the busy count")
					}
				case op < 14: // Release
					var cand []int
					for j := range toks {
						if !released[j] {
							cand = append(cand, j)
						}
					}
					if len(cand) == 0 {
						continue
					}
					j := cand[r.Intn(len(cand))]
					busy0 := s.Busy()
					toks[j].tok.Release()
					released[j] = true
					if toks[j].bin >= 0 {
						binBusy[toks[j].bin]--
					} else if kind >= 3 {
						unknownBusy--
					}
					tr.Op(2, []int64{int64(j)}, s.State())
					hist = append(hist, []int64{2, int64(j)})
					rep.Evaluations++
					if s.Busy() != busy0-1 {
						fail("release-not-one", fmt.Sprintf("Release changed busy %d -> %d", busy0, s.Busy()))
					}
				case op < 17: // SetLimit
					n := r.Pick(0, -1, 1, 1, 2, 3, 4, 5, 7, 10, 33, 100, s.Limit())
					s.Strat.SetLimit(int(n))
					tr.Op(3, []int64{n}, s.State())
					hist = append(hist, []int64{3, n})
					rep.Evaluations++
					want := n
					if want < 1 {
						want = 1
					}
					if s.Limit() != want {
						fail("limit-not-set", fmt.Sprintf("SetLimit(%d) -> Limit() = %d", n, s.Limit()))
					}
					if want > maxLimitSeen {
						maxLimitSeen = want
					}
				case op < 19 && kind >= 3: // AddPartition
					key := nextKey
					if r.Bool(40) && len(cfg.Parts) > 0 {
						key = int64(1 + r.Intn(len(cfg.Parts))) // re-use a name (lookup: refused if live; predicate: overlapping)
					} else {
						nextKey++
					}
					pct := []float64{0, 0.1, 0.25, 0.5}[r.Intn(4)]
					ok := s.AddPartition(key, pct)
					if ok {
						ids = append(ids, nextID)
						nextID++
					}
					tr.Op(4, []int64{key, FBits(pct)}, append([]int64{B(ok)}, s.State()...))
					hist = append(hist, []int64{4, key, FBits(pct)})
					rep.Evaluations++
					rep.Count(name + ".add-partition")
				case kind >= 3: // RemovePartition
					if len(s.Live) == 0 || (len(s.Live) == 1 && (kind != 4 || !r.Bool(25))) {
						continue // the predicate strategy may lose its last partition (everything is then refused until one is added again)
					}
					key := s.Live[r.Intn(len(s.Live))].key
					// mirror the removal on the id list
					var nids []int
					removedOne := false
					for bi, b := range s.Live {
						if b.key == key && (kind == 4 || !removedOne) {
							removedOne = true
							continue
						}
						nids = append(nids, ids[bi])
					}
					n, ok := s.RemovePartition(key)
					ids = nids
					tr.Op(5, []int64{key}, append([]int64{n, B(ok)}, s.State()...))
					hist = append(hist, []int64{5, key})
					rep.Evaluations++
					rep.Count(name + ".remove-partition")
				default:
					continue
				}
				// C20: limit gauges report the currently enforced values
				for name, sup := range s.Reg.Gauges {
					v, _ := sup()
					if name == "limit" && int64(v) != s.Limit() {
						fail("limit-gauge", fmt.Sprintf("limit gauge reports %v, the strategy enforces %d", v, s.Limit()))
					}
				}
				for bi, b := range s.Bins() {
					if sup, ok := s.Reg.Gauges["limit.partition|partition:"+keyName(s.Live[bi].key)]; ok && kind == 4 {
						_ = sup // partition gauges are keyed by name: overlapping names collapse (observed, outside the statement)
					}
					_ = b
				}
				// invariants after every operation
				var outstanding int64
				for j := range toks {
					if !released[j] {
						outstanding++
					}
				}
				if s.Busy() != outstanding {
					fail("busy-not-outstanding", fmt.Sprintf("busy %d but %d tokens outstanding", s.Busy(), outstanding))
				}
				if kind >= 3 {
					for bi, b := range s.Bins() {
						if b[0] != binBusy[ids[bi]] {
							fail("bin-count", fmt.Sprintf("bin %d reports busy %d but holds %d tokens", bi, b[0], binBusy[ids[bi]]))
						}
						if want := shareOf(s.Limit(), s.Live[bi].pct); b[1] != want {
							fail("share", fmt.Sprintf("bin %d (fraction %v) has limit %d, share of total %d is %d", bi, s.Live[bi].pct, b[1], s.Limit(), want))
						}
					}
					sum := unknownBusy
					for _, v := range binBusy {
						sum += v
					}
					if sum != s.Busy() {
						fail("bins-sum", fmt.Sprintf("bin counts sum to %d, total busy %d", sum, s.Busy()))
					}
				} else if s.Busy() > maxLimitSeen {
					fail("over-limit", fmt.Sprintf("%d tokens held, largest limit in force %d", s.Busy(), maxLimitSeen))
				}
			}
			tr.End()
			if ci == 0 {
				h := hist
				if len(h) > 8 {
					h = h[:8]
				}
				rep.Sample(map[string]interface{}{"strategy": name, "cfg": cfg.Ints(), "first_ops": h})
			}
		}
	}
}

func TestC03(t *testing.T) { driveBare(t, "C03", []int{3, 4}, Scale(250, 4000), Scale(60, 120)) }

// ---------------- default limiter histories (component 40): C02, C05, C09 and the sequential part of C01 ----------------
type limHooks struct {
	afterAcquire  func(l *LimSUT, key int64, ok bool, busy0, limit0 int64, fail func(sig, d string))
	afterComplete func(l *LimSUT, k int, outcome int64, call []int64, now int64, fail func(sig, d string))
	afterScript   func(l *LimSUT, fail func(sig, d string))
	always        func(l *LimSUT, fail func(sig, d string))
	pickEst       func(r *Rng) int64
	fullDrain     bool
	bursts        int // closing bursts appended to every history: enough qualifying completions to fill and close windows
}

type completion struct {
	Outcome  int64
	Rtt      int64
	Inflight int64
	End      int64
}

func driveLimiter(t *testing.T, prop string, kinds []int, nCases, nOps int, h limHooks) {
	tr := NewTrace(prop)
	rep := NewReport(prop)
	defer func() { tr.Close(); rep.Write(t) }()
	root := NewRng(Seed())
	for _, kind := range kinds {
		for ci := 0; ci < nCases; ci++ {
			r := root.Fork()
			cfg := GenLimCfg(r, kind)
			synctest.Test(t, func(t *testing.T) {
				l, err := NewLimSUT(cfg)
				if err != nil {
					rep.Count("constructor-error")
					return
				}
				name := stratNames[kind]
				tr.Case(40, cfg.Ints()...)
				var hist [][]int64
				fail := func(sig, d string) {
					rep.Violate(name+":"+sig, fmt.Sprintf("%s (cfg=%v after %d ops)", d, cfg.Ints(), len(hist)), map[string]interface{}{"component": "default-limiter", "cfg": cfg.Ints(), "ops": hist})
				}
				if l.S.Limit() != max64(1, cfg.Est0) {
					fail("initial-limit", fmt.Sprintf("after construction the strategy enforces %d, the estimate is %d", l.S.Limit(), cfg.Est0))
				}
				starts := []int64{}
				nextKey := int64(10)
				step := func() {
					switch op := r.Intn(24); {
					case op < 9:
						key := int64(0)
						if kind >= 3 {
							key = int64(1 + r.Intn(len(cfg.S.Parts)+2))
						}
						busy0, limit0 := l.S.Busy(), l.S.Limit()
						ok, now := l.Acquire(key)
						if ok {
							starts = append(starts, now)
						}
						tr.Op(1, []int64{key, now}, append([]int64{B(ok)}, l.State()...))
						hist = append(hist, []int64{1, key, now})
						rep.Evaluations++
						if h.afterAcquire != nil {
							h.afterAcquire(l, key, ok, busy0, limit0, fail)
						}
					case op < 19:
						var cand []int
						for j, d := range l.Done {
							if !d {
								cand = append(cand, j)
							}
						}
						if len(cand) == 0 {
							return
						}
						k := cand[r.Intn(len(cand))]
						oc := r.Pick(0, 0, 0, 0, 1, 2)
						call, now := l.Complete(k, oc)
						obs := []int64{0, 0, 0, 0}
						if call != nil {
							obs = []int64{1, call[0], call[1], call[2]}
						}
						tr.Op(2, []int64{int64(k), oc, now}, append(obs, l.State()...))
						hist = append(hist, []int64{2, int64(k), oc, now})
						rep.Evaluations++
						if h.afterComplete != nil {
							h.afterComplete(l, k, oc, call, now, fail)
						}
					case op < 21:
						est := r.Pick(0, -3, 1, 2, 3, 5, 8, 13, 50, int64(l.Script.Want()))
						if h.pickEst != nil {
							est = h.pickEst(r)
						}
						l.Script.Script(int(est))
						tr.Op(3, []int64{est}, l.State())
						hist = append(hist, []int64{3, est})
						if h.afterScript != nil {
							h.afterScript(l, fail)
						}
					case op < 22 && kind >= 3:
						key := nextKey
						if r.Bool(50) {
							key = int64(1 + r.Intn(len(cfg.S.Parts))) // re-use the name of a (possibly removed) partition
						} else {
							nextKey++
						}
						pct := []float64{0, 0.1, 0.25}[r.Intn(3)]
						ok := l.S.AddPartition(key, pct)
						tr.Op(4, []int64{key, FBits(pct)}, append([]int64{B(ok)}, l.State()...))
						hist = append(hist, []int64{4, key, FBits(pct)})
					case op < 23 && kind >= 3 && (len(l.S.Live) > 1 || (kind == 4 && len(l.S.Live) == 1 && r.Bool(30))):
						// (the predicate strategy may lose its last partition: updates keep arriving from listeners still outstanding)
						key := l.S.Live[r.Intn(len(l.S.Live))].key
						n, ok := l.S.RemovePartition(key)
						tr.Op(5, []int64{key}, append([]int64{n, B(ok)}, l.State()...))
						hist = append(hist, []int64{5, key})
					default:
						// let virtual time pass: around the threshold, the window periods, or a little
						d := r.Pick(1, 500, cfg.Thr-1, cfg.Thr, cfg.Thr+1, cfg.MinW/20, cfg.MinW/3, cfg.MinW, cfg.MaxW+1, 2*cfg.MaxW)
						if r.Bool(30) {
							if nx := l.Lim.VerifNextUpdateTime() - time.Now().UnixNano(); nx > -2 && nx < 3*cfg.MaxW {
								d = nx + r.Pick(-1, 0, 1)
							}
						}
						if d > 0 {
							time.Sleep(time.Duration(d))
						}
						return
					}
					if h.always != nil {
						h.always(l, fail)
					}
				}
				for i := 0; i < nOps; i++ {
					step()
				}
				for b := 0; b < h.bursts; b++ {
					n := int(cfg.WSize) + 1 + r.Intn(4)
					dropAt := -1
					if r.Bool(50) {
						dropAt = r.Intn(n)
					}
					if int64(l.Script.Want()) < 1 {
						l.Script.Script(5)
						tr.Op(3, []int64{5}, l.State())
						hist = append(hist, []int64{3, 5})
					}
					for i := 0; i <= n; i++ {
						if i == n {
							// last completion lands just around the end of the period
							if nx := l.Lim.VerifNextUpdateTime() - time.Now().UnixNano(); nx > 0 {
								time.Sleep(time.Duration(nx + r.Pick(-1, 0, 1, 2) - cfg.Thr - 5))
							}
						}
						key := int64(0)
						if kind >= 3 {
							key = int64(1 + r.Intn(len(cfg.S.Parts)))
						}
						ok, now := l.Acquire(key)
						tr.Op(1, []int64{key, now}, append([]int64{B(ok)}, l.State()...))
						hist = append(hist, []int64{1, key, now})
						if !ok {
							continue
						}
						time.Sleep(time.Duration(cfg.Thr + r.Pick(0, 1, 5, 1000, 50_000)))
						k := len(l.Listeners) - 1
						oc := int64(0)
						if i == dropAt {
							oc = 2
						} else if r.Bool(8) {
							oc = 1
						}
						call, now2 := l.Complete(k, oc)
						obs := []int64{0, 0, 0, 0}
						if call != nil {
							obs = []int64{1, call[0], call[1], call[2]}
							rep.Distinct("window-closed", fmt.Sprint(kind, call, dropAt, n))
						}
						tr.Op(2, []int64{int64(k), oc, now2}, append(obs, l.State()...))
						hist = append(hist, []int64{2, int64(k), oc, now2})
						rep.Evaluations++
						if h.afterComplete != nil {
							h.afterComplete(l, k, oc, call, now2, fail)
						}
						if h.always != nil {
							h.always(l, fail)
						}
					}
					if r.Bool(50) {
						est := r.Pick(1, 2, 4, 7, 12, 30)
						l.Script.Script(int(est))
						tr.Op(3, []int64{est}, l.State())
						hist = append(hist, []int64{3, est})
					}
				}
				if h.fullDrain {
					// complete everything, then the limiter must again admit its full limit
					for k, d := range l.Done {
						if !d {
							oc := r.Pick(0, 1, 2)
							call, now := l.Complete(k, oc)
							obs := []int64{0, 0, 0, 0}
							if call != nil {
								obs = []int64{1, call[0], call[1], call[2]}
							}
							tr.Op(2, []int64{int64(k), oc, now}, append(obs, l.State()...))
							hist = append(hist, []int64{2, int64(k), oc, now})
						}
					}
					if l.S.Busy() != 0 || l.Lim.VerifInFlight() != 0 {
						fail("not-quiescent", fmt.Sprintf("all listeners completed but busy=%d gauge=%d", l.S.Busy(), l.Lim.VerifInFlight()))
					}
					for _, b := range l.S.Bins() {
						if b[0] != 0 {
							fail("bin-not-quiescent", "all listeners completed but a bin is still busy")
						}
					}
					lim := l.S.Limit()
					if kind <= 2 {
						granted := int64(0)
						for i := int64(0); i < lim+2 && i < 300; i++ {
							ok, now := l.Acquire(0)
							tr.Op(1, []int64{0, now}, append([]int64{B(ok)}, l.State()...))
							hist = append(hist, []int64{1, 0, now})
							if ok {
								granted++
							}
						}
						if lim <= 298 && granted != lim {
							fail("full-limit-not-admitted", fmt.Sprintf("after quiescence %d of %d acquisitions were granted", granted, lim))
						}
					}
					rep.Distinct("drain", fmt.Sprint(kind, cfg.Ints(), len(hist)))
				}
				tr.End()
				if ci == 0 {
					hh := hist
					if len(hh) > 8 {
						hh = hh[:8]
					}
					rep.Sample(map[string]interface{}{"strategy": name, "cfg": cfg.Ints(), "first_ops": hh})
				}
			})
		}
	}
}

func max64(a, b int64) int64 {
	if a > b {
		return a
	}
	return b
}

// ---------------- C02: capacity conservation ----------------
func TestC02(t *testing.T) {
	rep2 := (*Report)(nil)
	_ = rep2
	driveLimiter(t, "C02", []int{1, 2, 3, 4}, Scale(60, 1200), Scale(90, 200), limHooks{
		fullDrain: true,
		always: func(l *LimSUT, fail func(sig, d string)) {
			out := int64(0)
			for _, d := range l.Done {
				if !d {
					out++
				}
			}
			if g := l.Lim.VerifInFlight(); g != out {
				fail("gauge", fmt.Sprintf("in-flight gauge %d but %d granted listeners outstanding", g, out))
			}
			if b := l.S.Busy(); b != out {
				fail("busy", fmt.Sprintf("strategy busy %d but %d granted listeners outstanding", b, out))
			}
			// partition bins hold exactly their outstanding tokens
			for bi, b := range l.S.Bins() {
				held := int64(0)
				for k, d := range l.Done {
					if !d && l.BinOf[k] == l.S.Live[bi].id {
						held++
					}
				}
				if b[0] != held {
					fail("bin-count", fmt.Sprintf("bin %d reports busy %d but %d of its listeners are outstanding", bi, b[0], held))
				}
			}
		},
	})
}

// ---------------- C05: enforcement follows the estimate ----------------
func TestC05(t *testing.T) {
	driveLimiter(t, "C05", []int{1, 2, 3, 4}, Scale(60, 1200), Scale(120, 250), limHooks{
		bursts: 4,
		afterComplete: func(l *LimSUT, k int, oc int64, call []int64, now int64, fail func(sig, d string)) {
			if call == nil {
				return
			}
			// a sample-driven update completed: enforcement must equal the estimate floored at 1, shares recomputed from it
			want := max64(1, int64(l.Script.est))
			if got := l.S.Limit(); got != want {
				fail("stale-limit", fmt.Sprintf("update completed with estimate %d but the strategy enforces %d", l.Script.est, got))
			}
			for bi, b := range l.S.Bins() {
				if w := shareOf(want, l.S.Live[bi].pct); b[1] != w {
					fail("stale-share", fmt.Sprintf("after the update to %d bin %d (fraction %v) has limit %d, expected %d", want, bi, l.S.Live[bi].pct, b[1], w))
				}
			}
		},
	})
}

// ---------------- C09: sampling windows (default limiter) ----------------
func TestC09(t *testing.T) {
	type winState struct {
		seg  []completion
		next int64
	}
	states := map[*LimSUT]*winState{}
	var repRef *Report
	_ = repRef
	driveLimiter(t, "C09", []int{1, 2}, Scale(80, 1500), Scale(260, 600), limHooks{
		bursts:  5,
		pickEst: func(r *Rng) int64 { return r.Pick(20, 50, 100) }, // keep capacity so that windows fill
		afterComplete: func(l *LimSUT, k int, oc int64, call []int64, now int64, fail func(sig, d string)) {
			st := states[l]
			if st == nil {
				st = &winState{}
				states[l] = st
			}
			rtt := now - l.Starts[k]
			qualifies := oc == 2 || (oc == 0 && rtt >= l.Cfg.Thr)
			if qualifies {
				st.seg = append(st.seg, completion{oc, rtt, l.CMI[k], now})
			}
			// the fold of the qualifying completions since the previous update
			mn, mx, cnt, drop := int64(math.MaxInt64), int64(0), int64(0), false
			for _, c := range st.seg {
				if c.Inflight > mx {
					mx = c.Inflight
				}
				if c.Outcome == 2 {
					drop = true
				} else {
					cnt++
					if c.Rtt < mn {
						mn = c.Rtt
					}
				}
			}
			ready := qualifies && now > st.next && mn < math.MaxInt64 && cnt > l.Cfg.WSize
			if call != nil {
				if !qualifies {
					fail("update-from-ignored", "an ignored or sub-threshold completion triggered an update")
				}
				if !(now > st.next) {
					fail("update-too-early", fmt.Sprintf("update at %d, window period ends at %d", now, st.next))
				}
				if !(mn < math.MaxInt64 && cnt > l.Cfg.WSize) {
					fail("update-not-ready", fmt.Sprintf("update from a window with %d samples (size %d)", cnt, l.Cfg.WSize))
				}
				want := []int64{mn, mx, B(drop)}
				if fmt.Sprint(call) != fmt.Sprint(want) {
					fail("wrong-aggregate", fmt.Sprintf("the algorithm received (rtt,inflight,drop)=%v, the window folds to %v (%d qualifying completions)", call, want, len(st.seg)))
				}
				p := 2 * mn
				if p < l.Cfg.MinW {
					p = l.Cfg.MinW
				}
				if p > l.Cfg.MaxW {
					p = l.Cfg.MaxW
				}
				st.next = now + p
				st.seg = nil
			} else if ready {
				fail("window-not-closed", fmt.Sprintf("a ready window (%d samples) past its period was not forwarded", cnt))
			}
		},
	})
}

// ---------------- C01: admission is an atomic gate ----------------
func TestC01(t *testing.T) {
	driveBare(t, "C01", []int{1, 2}, Scale(300, 4000), Scale(50, 100))
}

// the same gate rule through the default limiter (any context, cancelled ones included)
func TestC01Limiter(t *testing.T) {
	maxSeen := map[*LimSUT]int64{}
	driveLimiter(t, "C01L", []int{1, 2}, Scale(80, 1500), Scale(120, 250), limHooks{
		fullDrain: true,
		bursts:    2,
		afterComplete: func(l *LimSUT, k int, oc int64, call []int64, now int64, fail func(sig, d string)) {
			// the limit in force for the gate is the estimate the algorithm reported last (floored at 1), from the moment the update completed
			if call != nil {
				if want, got := max64(1, int64(l.Script.est)), l.S.Limit(); got != want {
					fail("stale-limit", fmt.Sprintf("an update completed with estimate %d but the gate enforces %d", l.Script.est, got))
				}
			}
		},
		afterAcquire: func(l *LimSUT, key int64, ok bool, busy0, limit0 int64, fail func(sig, d string)) {
			if ok != (busy0 < limit0) {
				cls := "refused-with-room"
				if ok {
					cls = "over-admission"
				}
				fail(cls, fmt.Sprintf("Acquire ok=%v with %d tokens outstanding and limit %d", ok, busy0, limit0))
			}
			if limit0 > maxSeen[l] {
				maxSeen[l] = limit0
			}
			if ok && l.S.Busy() > maxSeen[l] {
				fail("over-limit", fmt.Sprintf("%d tokens held, largest limit in force while they were acquired %d", l.S.Busy(), maxSeen[l]))
			}
		},
	})
}

// concurrent stress: holders counted by the harness never exceed the largest limit in force, no refusal with room at quiescence
func busyOf(st core.Strategy) int {
	type b interface{ GetBusyCount() int }
	if x, ok := st.(b); ok {
		return x.GetBusyCount()
	}
	return 0
}

func limitOf(st core.Strategy) int {
	type b interface{ GetLimit() int }
	if x, ok := st.(b); ok {
		return x.GetLimit()
	}
	return -1
}

func TestC01Stress(t *testing.T) {
	rep := NewReport("C01stress")
	defer rep.Write(t)
	dur := time.Duration(Scale(1500, 12000)) * time.Millisecond
	for _, kind := range []int{1, 2} {
		var st core.Strategy
		if kind == 1 {
			st = strategy.NewSimpleStrategy(2)
		} else {
			st = strategy.NewPreciseStrategy(2)
		}
		sl := limit.NewSettableLimit("s", 2, nil)
		lim, _ := limiter.NewDefaultLimiter(sl, 1e6, 1e6, 0, 10, st, nil, core.EmptyMetricRegistryInstance)
		var holders, maxHolders, maxBusy, grants, refusals, lostSets int64
		const maxLimit = 3
		stop := make(chan struct{})
		var wg sync.WaitGroup
		for g := 0; g < 16; g++ {
			wg.Add(1)
			go func(g int) {
				defer wg.Done()
				for i := 0; ; i++ {
					select {
					case <-stop:
						return
					default:
					}
					ls, ok := lim.Acquire(context.Background())
					if ok {
						// the strategy's own count can never exceed the largest limit ever in force (admission requires busy < limit)
						if b := int64(busyOf(st)); b > maxLimit {
							for {
								m := atomic.LoadInt64(&maxBusy)
								if b <= m || atomic.CompareAndSwapInt64(&maxBusy, m, b) {
									break
								}
							}
						}
						h := atomic.AddInt64(&holders, 1)
						runtime.Gosched()
						for {
							m := atomic.LoadInt64(&maxHolders)
							if h <= m || atomic.CompareAndSwapInt64(&maxHolders, m, h) {
								break
							}
						}
						atomic.AddInt64(&grants, 1)
						atomic.AddInt64(&holders, -1)
						switch i % 3 {
						case 0:
							ls.OnSuccess()
						case 1:
							ls.OnIgnore()
						default:
							ls.OnDropped()
						}
					} else {
						atomic.AddInt64(&refusals, 1)
					}
				}
			}(g)
		}
		go func() {
			for i := 0; ; i++ {
				select {
				case <-stop:
					return
				default:
				}
				st.SetLimit(1 + i%maxLimit)
				time.Sleep(50 * time.Microsecond)
			}
		}()
		time.Sleep(dur / 2)
		close(stop)
		wg.Wait()
		rep.Evaluations += int(grants + refusals)
		rep.Distinct("stress-run", fmt.Sprint(kind, grants > 0, refusals > 0))
		rep.Count(fmt.Sprintf("%s.grants", stratNames[kind]))
		if maxBusy > maxLimit {
			rep.Violate(stratNames[kind]+":stress-over-admission", fmt.Sprintf("the strategy counted %d tokens in flight with limits never above %d", maxBusy, maxLimit), map[string]interface{}{"kind": kind, "max_busy": maxBusy})
		}

		if maxHolders > maxLimit {
			rep.Violate(stratNames[kind]+":stress-over-admission", fmt.Sprintf("%d simultaneous holders with limits never above %d", maxHolders, maxLimit), map[string]interface{}{"kind": kind, "max_holders": maxHolders})
		}
		// second phase: a limit well above the number of goroutines - nobody may ever be refused
		st.SetLimit(64)
		var refused2, tries2 int64
		stop2 := make(chan struct{})
		var wg2 sync.WaitGroup
		for g := 0; g < 16; g++ {
			wg2.Add(1)
			go func() {
				defer wg2.Done()
				for {
					select {
					case <-stop2:
						return
					default:
					}
					tok, ok := st.TryAcquire(context.Background())
					atomic.AddInt64(&tries2, 1)
					if ok {
						tok.Release()
					} else {
						atomic.AddInt64(&refused2, 1)
					}
				}
			}()
		}
		time.Sleep(dur / 8)
		close(stop2)
		wg2.Wait()
		rep.Evaluations += int(tries2)
		if refused2 > 0 {
			rep.Violate(stratNames[kind]+":stress-refused-with-room", fmt.Sprintf("%d of %d TryAcquire calls were refused with at most 16 tokens out and a limit of 64", refused2, tries2), map[string]interface{}{"kind": kind})
		}
		// third phase: the strategy used directly (no limiter mutex in front of it) at a small limit, with a metrics backend that takes its time
		if kind == 2 {
			ps := strategy.NewPreciseStrategyWithMetricRegistry(2, slowRegistry{})
			var h3, max3, n3 int64
			stop3 := make(chan struct{})
			var wg3 sync.WaitGroup
			for g := 0; g < 16; g++ {
				wg3.Add(1)
				go func() {
					defer wg3.Done()
					for {
						select {
						case <-stop3:
							return
						default:
						}
						tok, ok := ps.TryAcquire(context.Background())
						atomic.AddInt64(&n3, 1)
						if ok {
							h := atomic.AddInt64(&h3, 1)
							for {
								m := atomic.LoadInt64(&max3)
								if h <= m || atomic.CompareAndSwapInt64(&max3, m, h) {
									break
								}
							}
							runtime.Gosched()
							atomic.AddInt64(&h3, -1)
							tok.Release()
						}
					}
				}()
			}
			// the only setter: a SetLimit that has returned is in force, however busy the gate is
			wg3.Add(1)
			go func() {
				defer wg3.Done()
				for i := 0; ; i++ {
					select {
					case <-stop3:
						ps.SetLimit(2)
						return
					default:
					}
					v := 1 + i%2
					ps.SetLimit(v)
					if got := ps.GetLimit(); got != v {
						atomic.AddInt64(&lostSets, 1)
					}
					time.Sleep(20 * time.Microsecond)
				}
			}()
			time.Sleep(dur / 4)
			close(stop3)
			wg3.Wait()
			rep.Evaluations += int(n3)
			if max3 > 2 {
				rep.Violate("precise:stress-over-admission", fmt.Sprintf("precise strategy used directly: %d simultaneous holders with limit 2", max3), map[string]interface{}{"kind": kind, "max_holders": max3, "direct": true})
			}
			if n := atomic.LoadInt64(&lostSets); n > 0 {
				rep.Violate("precise:stress-setlimit-lost", fmt.Sprintf("precise strategy used directly: %d SetLimit calls (single setter) had returned without the new limit being in force, while acquisitions were running", n), map[string]interface{}{"kind": kind, "direct": true})
			}
			if b := ps.GetBusyCount(); b != 0 {
				rep.Violate("precise:stress-capacity-leak", fmt.Sprintf("precise strategy used directly: busy count %d with every token released", b), map[string]interface{}{"kind": kind, "direct": true})
			}
		}
		// quiescent: all released; the full limit must be admitted again
		st.SetLimit(3)
		n := 0
		for i := 0; i < 5; i++ {
			if _, ok := lim.Acquire(context.Background()); ok {
				n++
			}
		}
		if n != 3 {
			rep.Violate(stratNames[kind]+":stress-capacity-leak", fmt.Sprintf("after the stress run %d of 3 acquisitions were granted", n), map[string]interface{}{"kind": kind})
		}
	}
}

// A limit algorithm that panics while a completion is being reported must not cost the caller's unit: whatever the algorithm does,
// one completion gives back exactly one unit (the panic is recovered by the caller, as a gRPC recovery interceptor would).
func TestC01Panic(t *testing.T) {
	rep := NewReport("C01panic")
	defer rep.Write(t)
	root := NewRng(Seed())
	for _, kind := range []int{1, 2, 3} {
		for ci := 0; ci < Scale(40, 500); ci++ {
			r := root.Fork()
			cfg := GenLimCfg(r, kind)
			cfg.Est0 = r.Pick(2, 3, 5, 10)
			cfg.S.Total = cfg.Est0
			cfg.Thr = r.Pick(0, 1000) // a burst of WSize+2 qualifying completions fits inside the shortest window period
			synctest.Test(t, func(t *testing.T) {
				l, err := NewLimSUT(cfg)
				if err != nil {
					rep.Count("constructor-error")
					return
				}
				name := stratNames[kind]
				var hist [][]int64
				fail := func(sig, d string) {
					rep.Violate(name+":"+sig, fmt.Sprintf("%s (cfg=%v after %d ops)", d, cfg.Ints(), len(hist)), map[string]interface{}{"component": "default-limiter-panicking-limit", "cfg": cfg.Ints(), "ops": hist})
				}
				armed := false
				l.Script.onSet = func() {
					if armed {
						armed = false
						panic("limit algorithm failed")
					}
				}
				check := func(what string) {
					out := int64(0)
					for _, d := range l.Done {
						if !d {
							out++
						}
					}
					if b, g := l.S.Busy(), l.Lim.VerifInFlight(); b != out || g != out {
						fail("panic-leaks-unit", fmt.Sprintf("%s: strategy busy %d, in-flight gauge %d, but %d granted listeners have not completed", what, b, g, out))
					}
				}
				for i := 0; i < Scale(150, 300); i++ {
					switch op := r.Intn(10); {
					case op < 4:
						key := int64(0)
						if kind >= 3 {
							key = int64(1 + r.Intn(len(cfg.S.Parts)+1))
						}
						_, now := l.Acquire(key)
						hist = append(hist, []int64{1, key, now})
					case op < 8:
						var cand []int
						for j, d := range l.Done {
							if !d {
								cand = append(cand, j)
							}
						}
						if len(cand) == 0 {
							continue
						}
						k := cand[r.Intn(len(cand))]
						oc := r.Pick(0, 0, 0, 2, 2, 1)
						armed = r.Bool(50)
						wasArmed := armed
						time.Sleep(time.Duration(cfg.Thr + 1))
						func() {
							defer func() {
								if recover() != nil {
									l.Done[k] = true
									rep.Count(fmt.Sprintf("panic-in-outcome-%d", oc))
								}
							}()
							_, now := l.Complete(k, oc)
							hist = append(hist, []int64{2, int64(k), oc, now, B(wasArmed)})
						}()
						armed = false
						rep.Evaluations++
						check(fmt.Sprintf("after completion %d (outcome %d)", k, oc))
					case op < 9:
						time.Sleep(time.Duration(r.Pick(cfg.MinW, cfg.MaxW+1, cfg.MinW/3+1)))
					default:
						// directed: fill a window quickly (it is ready, its period not yet over), let the period pass, then the completion
						// that closes it - a drop two times out of three - finds the algorithm panicking
						one := func(oc int64, arm bool) {
							key := int64(0)
							if kind >= 3 {
								key = int64(1 + r.Intn(len(cfg.S.Parts)))
							}
							ok, now := l.Acquire(key)
							hist = append(hist, []int64{1, key, now})
							if !ok {
								return
							}
							k := len(l.Listeners) - 1
							time.Sleep(time.Duration(cfg.Thr + 1))
							armed = arm
							func() {
								defer func() {
									if recover() != nil {
										l.Done[k] = true
										rep.Count(fmt.Sprintf("panic-in-outcome-%d", oc))
									}
								}()
								_, now := l.Complete(k, oc)
								hist = append(hist, []int64{2, int64(k), oc, now, B(arm)})
							}()
							armed = false
							rep.Evaluations++
							check(fmt.Sprintf("after completion %d (outcome %d)", k, oc))
						}
						time.Sleep(time.Duration(cfg.MaxW + 1))
						for j := int64(0); j < 2*(cfg.WSize+2); j++ {
							one(0, false)
						}
						time.Sleep(time.Duration(cfg.MaxW + 1))
						one(r.Pick(2, 2, 0), true)
					}
				}
				for k, d := range l.Done {
					if !d {
						l.Complete(k, 1)
					}
				}
				check("after completing everything")
				if kind <= 2 {
					lim, n := l.S.Limit(), int64(0)
					for i := int64(0); i < lim+2; i++ {
						if ok, _ := l.Acquire(0); ok {
							n++
						}
					}
					if n != lim {
						fail("panic-leaks-unit", fmt.Sprintf("at quiescence %d of %d acquisitions were granted", n, lim))
					}
				}
				rep.Distinct("panic-history", fmt.Sprint(kind, cfg.Ints(), len(hist)))
			})
		}
	}
}

// the gate counters of the bare strategies under limit changes (conservation part only)
func TestC02Bare(t *testing.T) {
	bareOnly = map[string]bool{"busy-not-outstanding": true, "refusal-changed-busy": true, "busy-not-incremented": true, "release-not-one": true, "bin-count": true, "bins-sum": true}
	driveBare(t, "C02bare", []int{1, 2, 3, 4}, Scale(150, 2000), Scale(60, 120))
}

// every constructor of the default limiter leaves the strategy enforcing the limit's current estimate
func TestC05Constructors(t *testing.T) {
	rep := NewReport("C05ctor")
	defer rep.Write(t)
	for _, kind := range []int{1, 2, 3, 4} {
		for _, total := range []int64{1, 3, 7, 50, 500} {
			cfg := StratCfg{Kind: kind, Total: total}
			if kind >= 3 {
				cfg.Parts = []PartSpec{{1, 0.25}, {2, 0.5}}
			}
			s, err := NewSUT(cfg)
			if err != nil {
				rep.Count("constructor-error")
				continue
			}
			l, err := limiter.NewDefaultLimiterWithDefaults("c05", s.Strat, limit.NoopLimitLogger{}, core.EmptyMetricRegistryInstance)
			if err != nil {
				rep.Count("constructor-error")
				continue
			}
			rep.Evaluations++
			est := int64(l.EstimatedLimit())
			rep.Distinct("with-defaults", fmt.Sprint(kind, total, est))
			if got := s.Limit(); got != max64(1, est) {
				rep.Violate(stratNames[kind]+":initial-limit", fmt.Sprintf("NewDefaultLimiterWithDefaults: the limit's estimate is %d, the strategy (built with %d) enforces %d", est, total, got), map[string]interface{}{"component": "default-limiter-with-defaults", "kind": kind, "strategy_built_with": total})
			}
			for bi, b := range s.Bins() {
				if w := shareOf(max64(1, est), s.Live[bi].pct); b[1] != w {
					rep.Violate(stratNames[kind]+":stale-share", fmt.Sprintf("NewDefaultLimiterWithDefaults: estimate %d, bin %d (fraction %v) has limit %d, expected %d", est, bi, s.Live[bi].pct, b[1], w), map[string]interface{}{"component": "default-limiter-with-defaults", "kind": kind, "strategy_built_with": total})
				}
			}
		}
	}
}

// the strategies on their own: what SetLimit hands them is what they enforce and what the shares are computed from, whatever the partition
// set at that moment (none included)
func TestC05Bare(t *testing.T) {
	bareOnly = map[string]bool{"limit-not-set": true, "share": true, "limit-gauge": true}
	driveBare(t, "C05bare", []int{1, 2, 3, 4}, Scale(150, 2000), Scale(60, 120))
}
