package harness

import (
	"context"
	"fmt"
	"reflect"
	"runtime"
	"strings"
	"sync"
	"sync/atomic"
	"testing"
	"testing/synctest"
	"time"

	"github.com/platinummonkey/go-concurrency-limits/core"
	"github.com/platinummonkey/go-concurrency-limits/limit"
	"github.com/platinummonkey/go-concurrency-limits/limiter"
	"github.com/platinummonkey/go-concurrency-limits/strategy"
	"github.com/platinummonkey/go-concurrency-limits/strategy/matchers"
)

// Race-window replays: interleavings inside one Acquire / one release, forced with a gate delegate (parks the caller right
// after the delegate answered) and the verif schedule points of the queue limiter.  They replay the witness schedules of the
// `_refuted` theorems (Properties/C10.v, C12.v) on the implementation: known findings F8, F9a, F9b, F9c, F11.

// gate: wraps a delegate; when armed, parks the calling goroutine after a refused (parkFail) or granted (parkOK) Acquire
type gate struct {
	d           core.Limiter
	mu          sync.Mutex
	parkFail    bool
	parkOK      bool
	parkRelease bool
	parkBefore  bool // park the next Acquire before it reaches the delegate
	parked      chan chan struct{}
}

func (g *gate) Acquire(ctx context.Context) (core.Listener, bool) {
	g.mu.Lock()
	pb := g.parkBefore
	g.parkBefore = false
	g.mu.Unlock()
	if pb {
		c := make(chan struct{})
		g.parked <- c
		<-c
	}
	l, ok := g.d.Acquire(ctx)
	g.mu.Lock()
	park := (!ok && g.parkFail) || (ok && g.parkOK)
	g.mu.Unlock()
	if park {
		c := make(chan struct{})
		g.parked <- c
		<-c
	}
	if ok && l != nil {
		l = &gatedListener{g: g, l: l}
	}
	return l, ok
}

// gatedListener: when the gate's parkRelease is armed, a completion parks before it reaches the delegate (a slow release)
type gatedListener struct {
	g *gate
	l core.Listener
}

func (x *gatedListener) pause() {
	x.g.mu.Lock()
	p := x.g.parkRelease
	x.g.parkRelease = false
	x.g.mu.Unlock()
	if p {
		c := make(chan struct{})
		x.g.parked <- c
		<-c
	}
}
func (x *gatedListener) OnSuccess() { x.pause(); x.l.OnSuccess() }
func (x *gatedListener) OnIgnore()  { x.pause(); x.l.OnIgnore() }
func (x *gatedListener) OnDropped() { x.pause(); x.l.OnDropped() }
func (g *gate) armRelease()         { g.mu.Lock(); g.parkRelease = true; g.mu.Unlock() }
func (g *gate) arm(fail, ok bool)   { g.mu.Lock(); g.parkFail, g.parkOK = fail, ok; g.mu.Unlock() }

func newGated(limitN int) (*gate, *strategy.PreciseStrategy) {
	st := strategy.NewPreciseStrategy(limitN)
	dl, _ := limiter.NewDefaultLimiter(limit.NewFixedLimit("f", limitN, nil), 1e9, 1e9, 0, 10, st, nil, core.EmptyMetricRegistryInstance)
	return &gate{d: dl, parked: make(chan chan struct{}, 8)}, st
}

type raceResult struct {
	Sig, Detail string
	Failed      bool
}

// F8: BlockingLimiter - the release and its Broadcast run after the caller's failed attempt but before its helper goroutine
// reaches cond.Wait: the wake-up is lost, the caller sleeps although capacity is free.
func raceF8(t *testing.T) (res raceResult) {
	res.Sig = "blocking:lost-wakeup:broadcast-before-wait"
	synctest.Test(t, func(t *testing.T) {
		g, st := newGated(1)
		bl := limiter.NewBlockingLimiter(g, 0, nil)
		holder, _ := bl.Acquire(context.Background())
		g.arm(true, false)
		done := make(chan bool, 1)
		ctx, cancel := context.WithCancel(context.Background())
		go func() { _, ok := bl.Acquire(ctx); done <- ok }()
		c := <-g.parked // attempt failed; the caller is between "acquire failed" and "asleep"
		g.arm(false, false)
		holder.OnSuccess() // release + Broadcast: nobody is waiting yet
		synctest.Wait()
		close(c) // now the caller goes to sleep
		synctest.Wait()
		select {
		case <-done:
		default:
			res.Failed = true
			res.Detail = fmt.Sprintf("caller asleep with %d/1 tokens held after the release (no further release, timeout or cancellation pending)", st.GetBusyCount())
		}
		cancel()
		synctest.Wait()
		if h, ok := bl.Acquire(context.Background()); ok {
			h.OnIgnore()
		}
		synctest.Wait()
	})
	return
}

// F8d: the deadline limiter shares blockUntilSignaled with the blocking limiter and has the same window: the release and its
// Broadcast run between the caller's failed attempt and its helper goroutine reaching cond.Wait.  The caller then sleeps until the
// deadline (and is refused there) although capacity has been free all along.
func raceF8deadline(t *testing.T) (res raceResult) {
	res.Sig = "deadline:lost-wakeup:broadcast-before-wait"
	synctest.Test(t, func(t *testing.T) {
		g, st := newGated(1)
		dl := limiter.NewDeadlineLimiter(g, time.Now().Add(time.Hour), nil)
		holder, _ := dl.Acquire(context.Background())
		g.arm(true, false)
		type ans struct {
			l  core.Listener
			ok bool
		}
		done := make(chan ans, 1)
		ctx, cancel := context.WithCancel(context.Background())
		go func() { l, ok := dl.Acquire(ctx); done <- ans{l, ok} }()
		c := <-g.parked
		g.arm(false, false)
		holder.OnSuccess()
		synctest.Wait()
		close(c)
		synctest.Wait()
		select {
		case a := <-done:
			if a.ok {
				a.l.OnIgnore()
			}
		default:
			res.Failed = true
			res.Detail = fmt.Sprintf("caller asleep until the deadline with %d/1 tokens held after the release", st.GetBusyCount())
		}
		cancel()
		synctest.Wait()
		if h, ok := dl.Acquire(context.Background()); ok { // its release broadcasts to the helper goroutine orphaned in cond.Wait
			h.OnIgnore()
		}
		synctest.Wait()
	})
	return
}

// B2: a slow completion - the holder's release is parked before it reaches the delegate.  Whatever the wrapper does around the
// delegate call, once the completion has finished the blocked caller must hold the freed token (a Broadcast issued before the
// token is actually back wakes the caller too early: it retries, fails and sleeps for good).
func raceB2(t *testing.T) (res raceResult) {
	res.Sig = "blocking:lost-wakeup:broadcast-before-release"
	synctest.Test(t, func(t *testing.T) {
		g, st := newGated(1)
		bl := limiter.NewBlockingLimiter(g, 0, nil)
		holder, _ := bl.Acquire(context.Background())
		type ans struct {
			l  core.Listener
			ok bool
		}
		done := make(chan ans, 1)
		ctx, cancel := context.WithCancel(context.Background())
		go func() { l, ok := bl.Acquire(ctx); done <- ans{l, ok} }()
		synctest.Wait() // the caller sleeps
		g.armRelease()
		go holder.OnSuccess()
		c := <-g.parked // the completion is inside the wrapper, the token is not back yet
		synctest.Wait() // anything the wrapper did before reaching the delegate has taken effect
		close(c)
		synctest.Wait()
		select {
		case a := <-done:
			if a.ok {
				a.l.OnIgnore()
			}
		default:
			res.Failed = true
			res.Detail = fmt.Sprintf("caller still asleep after the completion finished, %d/1 tokens held", st.GetBusyCount())
		}
		cancel()
		synctest.Wait()
		if st.GetBusyCount() == 0 {
			if h, ok := bl.Acquire(context.Background()); ok {
				h.OnIgnore()
			}
		}
		synctest.Wait()
	})
	return
}

// Q2 (real time: the second completion waits on a mutex, which a bubble cannot wait out): two completions overlap, the first one's
// hand-off is slow; both waiters must end up served - the second completion must not skip its hand-off because the first is busy.
func raceQ2(t *testing.T) (res raceResult) {
	res.Sig = "queue:lost-handoff:overlapping-completions"
	g, st := newGated(2)
	q := limiter.NewQueueBlockingLimiterFromConfig(g, limiter.QueueLimiterConfig{Ordering: limiter.OrderingFIFO, MaxBacklogSize: 5, MaxBacklogTimeout: 5 * time.Second})
	h1, ok1 := q.Acquire(context.Background())
	h2, ok2 := q.Acquire(context.Background())
	if !ok1 || !ok2 {
		t.Fatal("setup: could not acquire")
	}
	served := make(chan core.Listener, 2)
	for i := 0; i < 2; i++ {
		go func() {
			if l, ok := q.Acquire(context.Background()); ok {
				served <- l
			} else {
				served <- nil
			}
		}()
	}
	time.Sleep(30 * time.Millisecond) // both are queued
	g.arm(false, true)
	go h1.OnSuccess()
	c := <-g.parked // first hand-off: delegate acquired, parked before the send
	g.arm(false, false)
	go h2.OnSuccess()
	time.Sleep(30 * time.Millisecond) // the second completion has reached the limiter
	close(c)
	n := 0
	deadline := time.After(2 * time.Second)
	for n < 2 {
		select {
		case l := <-served:
			if l != nil {
				n++
				defer l.OnIgnore()
			} else {
				n = 99
			}
		case <-deadline:
			res.Failed = true
			res.Detail = fmt.Sprintf("two completions, two waiters: only %d served after 2 s, %d/2 tokens held, %d backlog entries", n, st.GetBusyCount(), q.VerifBacklogLen())
			return
		}
	}
	if n == 99 {
		res.Failed, res.Detail = true, "a waiter was refused although both tokens were released"
	}
	return
}

// F8p: the same window with a poll period configured: the wake-up lost in the window is recovered by the caller's next poll
// (it re-attempts the delegate every period), so the caller must hold the token one period later.
func raceF8poll(t *testing.T) (res raceResult) {
	res.Sig = "blocking:lost-wakeup:not-recovered-at-poll"
	synctest.Test(t, func(t *testing.T) {
		g, st := newGated(1)
		bl := limiter.NewBlockingLimiter(g, time.Second, nil)
		holder, _ := bl.Acquire(context.Background())
		g.arm(true, false)
		type ans struct {
			l  core.Listener
			ok bool
		}
		done := make(chan ans, 1)
		ctx, cancel := context.WithCancel(context.Background())
		go func() { l, ok := bl.Acquire(ctx); done <- ans{l, ok} }()
		c := <-g.parked
		g.arm(false, false)
		holder.OnSuccess()
		synctest.Wait()
		close(c)
		synctest.Wait()
		time.Sleep(2500 * time.Millisecond) // two poll periods
		synctest.Wait()
		select {
		case a := <-done:
			if a.ok {
				a.l.OnIgnore()
			}
		default:
			res.Failed = true
			res.Detail = fmt.Sprintf("caller still asleep two poll periods after the release, %d/1 tokens held", st.GetBusyCount())
		}
		cancel()
		synctest.Wait()
		if st.GetBusyCount() == 0 {
			if h, ok := bl.Acquire(context.Background()); ok {
				h.OnIgnore()
			}
		}
		synctest.Wait()
	})
	return
}

func queueRace(t *testing.T, sig string, body func(g *gate, st *strategy.PreciseStrategy, q *limiter.QueueBlockingLimiter, points chan chan struct{}, armPoint func(string)) (bool, string)) (res raceResult) {
	res.Sig = sig
	synctest.Test(t, func(t *testing.T) {
		g, st := newGated(1)
		points := make(chan chan struct{}, 8)
		var pmu sync.Mutex
		want := ""
		limiter.VerifSetHook(func(name string) {
			pmu.Lock()
			hit := name == want
			pmu.Unlock()
			if hit {
				c := make(chan struct{})
				points <- c
				<-c
			}
		})
		defer limiter.VerifSetHook(nil)
		q := limiter.NewQueueBlockingLimiterFromConfig(g, limiter.QueueLimiterConfig{Ordering: limiter.OrderingFIFO, MaxBacklogSize: 1, MaxBacklogTimeout: 10 * time.Second})
		res.Failed, res.Detail = body(g, st, q, points, func(n string) { pmu.Lock(); want = n; pmu.Unlock() })
		time.Sleep(30 * time.Second) // all timers fire, every caller returns
		synctest.Wait()
	})
	return
}

// F9a: the release (and its unblock) runs between the waiter's failed attempt and its push: nobody is in the backlog yet.
func raceF9a(t *testing.T) raceResult {
	return queueRace(t, "queue:lost-handoff:release-before-push", func(g *gate, st *strategy.PreciseStrategy, q *limiter.QueueBlockingLimiter, points chan chan struct{}, armPoint func(string)) (bool, string) {
		holder, _ := q.Acquire(context.Background())
		g.arm(true, false)
		done := make(chan bool, 1)
		go func() { _, ok := q.Acquire(context.Background()); done <- ok }()
		c := <-g.parked
		g.arm(false, false)
		holder.OnSuccess()
		synctest.Wait()
		close(c)
		synctest.Wait()
		select {
		case <-done:
			return false, ""
		default:
			return true, fmt.Sprintf("waiter blocked in the backlog (%d entries) with %d/1 tokens held", q.VerifBacklogLen(), st.GetBusyCount())
		}
	})
}

// F9b: the hand-off is attempted between the waiter's push and its select: the non-blocking send fails, the token is given back,
// the waiter has been evicted - it then blocks although it is no longer in the backlog and capacity is free.
func raceF9b(t *testing.T) raceResult {
	return queueRace(t, "queue:lost-handoff:handoff-before-select", func(g *gate, st *strategy.PreciseStrategy, q *limiter.QueueBlockingLimiter, points chan chan struct{}, armPoint func(string)) (bool, string) {
		holder, _ := q.Acquire(context.Background())
		armPoint("queue.afterPush")
		done := make(chan bool, 1)
		go func() { _, ok := q.Acquire(context.Background()); done <- ok }()
		c := <-points
		armPoint("")
		holder.OnSuccess()
		synctest.Wait()
		close(c)
		synctest.Wait()
		select {
		case <-done:
			return false, ""
		default:
			return true, fmt.Sprintf("waiter blocked, backlog holds %d entries, %d/1 tokens held", q.VerifBacklogLen(), st.GetBusyCount())
		}
	})
}

// F9c: the peeked waiter gives up between unblock's successful delegate Acquire and its send: the token is given back and no
// further unblock runs, so the next waiter stays blocked with capacity free.
func raceF9c(t *testing.T) (res raceResult) {
	res.Sig = "queue:lost-handoff:giveup-during-handoff"
	synctest.Test(t, func(t *testing.T) {
		g, st := newGated(1)
		q := limiter.NewQueueBlockingLimiterFromConfig(g, limiter.QueueLimiterConfig{Ordering: limiter.OrderingFIFO, MaxBacklogSize: 5, MaxBacklogTimeout: 10 * time.Second, BacklogEvictDoneCtx: true})
		holder, _ := q.Acquire(context.Background())
		ctx1, cancel1 := context.WithCancel(context.Background())
		d1, d2 := make(chan bool, 1), make(chan bool, 1)
		go func() { _, ok := q.Acquire(ctx1); d1 <- ok }()
		synctest.Wait()
		time.Sleep(time.Second)
		go func() { _, ok := q.Acquire(context.Background()); d2 <- ok }()
		synctest.Wait()
		g.arm(false, true) // park unblock right after its delegate Acquire succeeded
		go holder.OnSuccess()
		c := <-g.parked
		g.arm(false, false)
		cancel1() // the peeked waiter gives up and evicts itself
		synctest.Wait()
		close(c)
		synctest.Wait()
		blockedNow := 0
		select {
		case <-d2:
		default:
			blockedNow = 1
			res.Failed = true
			res.Detail = fmt.Sprintf("second waiter still blocked with %d/1 tokens held and %d backlog entries", st.GetBusyCount(), q.VerifBacklogLen())
		}
		// conservation and exactness must survive the race even though the wake-up is lost
		if n := q.VerifBacklogLen(); n != blockedNow {
			extraRace = append(extraRace, raceResult{"queue:backlog-not-exact:after-giveup-race", fmt.Sprintf("backlog reports %d entries, %d callers are blocked", n, blockedNow), true})
		}
		holders := 0
		select {
		case ok := <-d1:
			if ok {
				holders++
			}
		default:
		}
		if b := st.GetBusyCount(); b != holders {
			extraRace = append(extraRace, raceResult{"queue:token-leak:handoff-to-departed-waiter", fmt.Sprintf("%d tokens held at the delegate, %d callers hold one: the hand-off to a waiter that had given up leaked its token", b, holders), true})
		}
		time.Sleep(30 * time.Second)
		synctest.Wait()
	})
	return
}

var extraRace []raceResult

// B1: a blocked BlockingLimiter caller is woken by a release, its re-attempt at the delegate succeeds, and its context is
// cancelled before the grant is returned to it: whatever Acquire answers, a token held at the delegate must be held by a caller.
func raceB1(t *testing.T) (res raceResult) {
	res.Sig = "blocking:token-leak:cancel-during-grant"
	synctest.Test(t, func(t *testing.T) {
		g, st := newGated(1)
		bl := limiter.NewBlockingLimiter(g, 0, nil)
		holder, _ := bl.Acquire(context.Background())
		ctx, cancel := context.WithCancel(context.Background())
		type ans struct {
			l  core.Listener
			ok bool
		}
		done := make(chan ans, 1)
		go func() { l, ok := bl.Acquire(ctx); done <- ans{l, ok} }()
		synctest.Wait()    // the caller sleeps
		g.arm(false, true) // park it right after its next successful delegate Acquire
		holder.OnSuccess()
		c := <-g.parked
		g.arm(false, false)
		// a second caller arrives meanwhile (the token is taken): it goes to sleep behind the first
		done2 := make(chan ans, 1)
		go func() { l, ok := bl.Acquire(context.Background()); done2 <- ans{l, ok} }()
		synctest.Wait()
		cancel()
		synctest.Wait()
		close(c)
		synctest.Wait()
		holders := 0
		var got core.Listener
		select {
		case a := <-done:
			if a.ok != (a.l != nil) {
				res.Failed, res.Detail = true, "Acquire returned a listener without ok, or ok without a listener"
			}
			if a.ok {
				holders, got = 1, a.l
			}
		default:
		}
		if b := st.GetBusyCount(); b != holders {
			res.Failed = true
			res.Detail = fmt.Sprintf("%d token(s) held at the delegate, %d caller(s) hold one: the grant that raced with the cancellation was dropped without being released", b, holders)
		}
		// whatever the first caller was answered: if its token is free again, the second caller must not be left asleep
		select {
		case a := <-done2:
			if a.ok {
				a.l.OnIgnore()
			}
		default:
			if st.GetBusyCount() == 0 {
				extraRace = append(extraRace, raceResult{"blocking:lost-wakeup:silent-release", "the grant that raced with the cancellation was given back without waking anybody: a second caller sleeps with 0/1 tokens held", true})
			}
		}
		if got != nil {
			got.OnIgnore()
		}
		synctest.Wait()
		select {
		case a := <-done2:
			if a.ok {
				a.l.OnIgnore()
			}
		default:
		}
		synctest.Wait()
		if st.GetBusyCount() == 0 { // (a leaked token would block this clean-up call for ever)
			if h, ok := bl.Acquire(context.Background()); ok {
				h.OnIgnore()
			}
		}
		synctest.Wait()
		select {
		case a := <-done2:
			if a.ok {
				a.l.OnIgnore()
			}
		default:
		}
		synctest.Wait()
	})
	return
}

// slowStrategy: SetLimit can be parked (a contended or slow strategy)
type slowStrategy struct {
	*strategy.SimpleStrategy
	mu     sync.Mutex
	park   bool
	parked chan chan struct{}
}

func (s *slowStrategy) SetLimit(n int) {
	s.mu.Lock()
	p := s.park
	s.park = false
	s.mu.Unlock()
	if p {
		c := make(chan struct{})
		s.parked <- c
		<-c
	}
	s.SimpleStrategy.SetLimit(n)
}

// U1: two completions close two consecutive sample windows on different goroutines; the first one's SetLimit is slow.  The
// strategy must end up enforcing the newest estimate (real time, no bubble: the second completion waits on a mutex).
func raceU1(t *testing.T) (res raceResult) {
	res.Sig = "default:stale-limit:setlimit-out-of-order"
	st := &slowStrategy{SimpleStrategy: strategy.NewSimpleStrategy(100), parked: make(chan chan struct{}, 2)}
	sl := &scriptLimit{est: 100}
	sl.onSet = func() { sl.est += 10 }
	l, err := limiter.NewDefaultLimiter(sl, 1, 1, 0, 10, st, nil, core.EmptyMetricRegistryInstance)
	if err != nil {
		t.Fatal(err)
	}
	var ls []core.Listener
	for i := 0; i < 22; i++ {
		x, ok := l.Acquire(context.Background())
		if !ok {
			t.Fatal("setup: could not acquire")
		}
		ls = append(ls, x)
	}
	time.Sleep(2 * time.Millisecond)
	for i := 0; i < 10; i++ {
		ls[i].OnSuccess() // 10 samples: the window is not ready yet
	}
	st.mu.Lock()
	st.park = true
	st.mu.Unlock()
	var wg sync.WaitGroup
	wg.Add(2)
	go func() { defer wg.Done(); ls[10].OnSuccess() }() // 11th sample closes the first window
	var c chan struct{}
	select {
	case c = <-st.parked: // its estimate (110) is on its way into the strategy
	case <-time.After(5 * time.Second):
		res.Failed, res.Detail = true, "a window closed (11 qualifying samples, period over) and the algorithm was updated, but the strategy's SetLimit was not called within 5 s"
		return
	}
	go func() {
		defer wg.Done()
		time.Sleep(time.Millisecond)
		for i := 11; i < 22; i++ {
			ls[i].OnSuccess() // 11 more samples close the second window (estimate 120)
		}
	}()
	time.Sleep(60 * time.Millisecond)
	close(c)
	wg.Wait()
	if got, want := st.GetLimit(), l.EstimatedLimit(); got != want {
		res.Failed = true
		res.Detail = fmt.Sprintf("after two window updates (estimates 110 then %d) the strategy enforces %d while the algorithm's estimate is %d", want, got, want)
	}
	return
}

// F11: two arrivals both pass the length check before either pushes: the backlog exceeds its bound.
func raceF11(t *testing.T) raceResult {
	return queueRace(t, "queue:backlog-over-bound:check-then-push", func(g *gate, st *strategy.PreciseStrategy, q *limiter.QueueBlockingLimiter, points chan chan struct{}, armPoint func(string)) (bool, string) {
		q.Acquire(context.Background()) // holder, never released
		armPoint("queue.afterLenCheck")
		var returned int64
		for i := 0; i < 2; i++ {
			go func() { q.Acquire(context.Background()); atomic.AddInt64(&returned, 1) }()
		}
		c1, c2 := <-points, <-points
		armPoint("")
		close(c1)
		close(c2)
		synctest.Wait()
		// whatever the limiter makes of two arrivals that both passed the length check: its backlog holds exactly the callers still blocked
		if blockedNow := 2 - int(atomic.LoadInt64(&returned)); q.VerifBacklogLen() != blockedNow {
			extraRace = append(extraRace, raceResult{"queue:backlog-not-exact:after-check-then-push-race", fmt.Sprintf("backlog reports %d entries, %d callers are blocked", q.VerifBacklogLen(), blockedNow), true})
		}
		if n := q.VerifBacklogLen(); n > 1 {
			return true, fmt.Sprintf("%d callers wait in a backlog bounded at 1", n)
		}
		return false, ""
	})
}

// Q1: LIFO backlog, a newcomer pushes itself in while unblock is between its peek and the hand-off: the hand-off must remove the
// waiter it serves (not whoever is at the head now), so that the newcomer is the one served by the next release.
func raceQ1(t *testing.T) (res raceResult) {
	res.Sig = "queue:order:newcomer-lost-during-handoff"
	synctest.Test(t, func(t *testing.T) {
		g, st := newGated(1)
		q := limiter.NewQueueBlockingLimiterFromConfig(g, limiter.QueueLimiterConfig{Ordering: limiter.OrderingLIFO, MaxBacklogSize: 5, MaxBacklogTimeout: 10 * time.Second})
		holder, _ := q.Acquire(context.Background())
		type ans struct {
			l  core.Listener
			ok bool
		}
		d1, d2 := make(chan ans, 1), make(chan ans, 1)
		go func() { l, ok := q.Acquire(context.Background()); d1 <- ans{l, ok} }()
		synctest.Wait()
		time.Sleep(time.Second)
		g.arm(false, true) // park unblock right after its delegate Acquire succeeded (it has peeked waiter 1)
		go holder.OnSuccess()
		c := <-g.parked
		g.arm(false, false)
		go func() { l, ok := q.Acquire(context.Background()); d2 <- ans{l, ok} }() // the newcomer: refused by the delegate, pushed at the head
		synctest.Wait()
		close(c)
		synctest.Wait()
		var first ans
		select {
		case first = <-d1:
		default:
		}
		if !first.ok {
			res.Failed, res.Detail = true, "the peeked waiter was not served by the hand-off"
		} else {
			func() { // next release: the newcomer is the only caller waiting
				defer func() {
					if r := recover(); r != nil {
						res.Failed, res.Detail = true, fmt.Sprintf("the release after the hand-off panicked: %v", r)
					}
				}()
				first.l.OnSuccess()
			}()
			synctest.Wait()
			select {
			case a := <-d2:
				if a.ok {
					a.l.OnIgnore()
				}
			default:
				if !res.Failed {
					res.Failed = true
					res.Detail = fmt.Sprintf("the caller that queued during the hand-off was not served by the next release (%d backlog entries, %d/1 tokens held)", q.VerifBacklogLen(), st.GetBusyCount())
				}
			}
		}
		time.Sleep(30 * time.Second)
		synctest.Wait()
	})
	return
}

// Q3: the token a completion frees is taken by a caller that goes straight to the delegate before the completion's hand-off reaches it:
// the hand-off finds no capacity.  The waiter it had in mind must still be waiting in the backlog, and be served by the next completion.
func raceQ3(t *testing.T) (res raceResult) {
	res.Sig = "queue:order:waiter-dropped-by-failed-handoff"
	synctest.Test(t, func(t *testing.T) {
		g, st := newGated(1)
		q := limiter.NewQueueBlockingLimiterFromConfig(g, limiter.QueueLimiterConfig{Ordering: limiter.OrderingFIFO, MaxBacklogSize: 5, MaxBacklogTimeout: 10 * time.Second})
		holder, _ := q.Acquire(context.Background())
		type ans struct {
			l  core.Listener
			ok bool
		}
		d1, d2 := make(chan ans, 1), make(chan ans, 1)
		go func() { l, ok := q.Acquire(context.Background()); d1 <- ans{l, ok} }()
		synctest.Wait()
		time.Sleep(time.Second)
		go func() { l, ok := q.Acquire(context.Background()); d2 <- ans{l, ok} }() // a second waiter, behind the first (FIFO)
		synctest.Wait()
		time.Sleep(time.Second)
		g.mu.Lock()
		g.parkBefore = true // park the hand-off's delegate Acquire before it reaches the delegate
		g.mu.Unlock()
		go holder.OnSuccess()
		c := <-g.parked
		thief, ok := g.d.Acquire(context.Background()) // somebody else takes the freed token
		if !ok {
			res.Failed, res.Detail = true, "setup: the freed token was not available"
		}
		close(c)
		synctest.Wait()
		if n := q.VerifBacklogLen(); n != 2 && !res.Failed {
			res.Failed = true
			res.Detail = fmt.Sprintf("after a hand-off that found no capacity the backlog holds %d entries, 2 callers are waiting", n)
		}
		if thief != nil {
			thief.OnIgnore() // gives the token back without going through the queue
		}
		synctest.Wait()
		if h, ok := q.Acquire(context.Background()); ok { // the next completion through the queue serves the waiter at the head
			h.OnSuccess()
		}
		synctest.Wait()
		var first ans
		select {
		case first = <-d1:
		default:
			if !res.Failed {
				res.Failed = true
				res.Detail = fmt.Sprintf("FIFO: the first waiter was not served by the next completion (%d backlog entries, %d/1 tokens held)", q.VerifBacklogLen(), st.GetBusyCount())
				select {
				case a := <-d2:
					res.Detail += "; the second waiter was served instead"
					if a.ok {
						a.l.OnIgnore()
					}
				default:
				}
			}
		}
		if first.ok {
			first.l.OnSuccess() // and the one after it serves the second
			synctest.Wait()
			select {
			case a := <-d2:
				if a.ok {
					a.l.OnIgnore()
				}
			default:
				if !res.Failed {
					res.Failed, res.Detail = true, "the second waiter was not served by the completion after that"
				}
			}
		}
		time.Sleep(30 * time.Second)
		synctest.Wait()
	})
	return
}

// P1 (a settled scenario, no race): the delegate is partitioned by the caller's context.  The total is saturated, the <unknown> partition is
// full, and a holder of partition "a" completes: the waiter queued for "a" is admitted through its partition's guaranteed share - but only
// if the hand-off asks the delegate on the WAITER's behalf (with the waiter's context).
func raceP1(t *testing.T) (res raceResult) {
	res.Sig = "queue:lost-handoff:waiter-context-ignored"
	synctest.Test(t, func(t *testing.T) {
		reg := newSyncRegistry()
		parts := map[string]*strategy.LookupPartition{"a": strategy.NewLookupPartitionWithMetricRegistry("a", 0.5, 1, reg), "b": strategy.NewLookupPartitionWithMetricRegistry("b", 0.5, 1, reg)}
		st, err := strategy.NewLookupPartitionStrategyWithMetricRegistry(parts, nil, 2, reg)
		if err != nil {
			t.Fatal(err)
		}
		dl, _ := limiter.NewDefaultLimiter(limit.NewFixedLimit("f", 2, nil), 1e9, 1e9, 0, 10, st, nil, core.EmptyMetricRegistryInstance)
		q := limiter.NewQueueBlockingLimiterFromConfig(dl, limiter.QueueLimiterConfig{Ordering: limiter.OrderingFIFO, MaxBacklogSize: 5, MaxBacklogTimeout: 10 * time.Second})
		ctx := func(k string) context.Context {
			return context.WithValue(context.Background(), matchers.LookupPartitionContextKey, k)
		}
		ha, ok1 := q.Acquire(ctx("a"))
		_, ok2 := q.Acquire(ctx("zz")) // <unknown> partition: 1/1
		_, ok3 := q.Acquire(ctx("b"))  // admitted through b's guaranteed share although the total is full
		if !ok1 || !ok2 || !ok3 {
			res.Failed, res.Detail = true, fmt.Sprintf("setup: holders a=%v unknown=%v b=%v", ok1, ok2, ok3)
			return
		}
		type ans struct {
			l  core.Listener
			ok bool
		}
		d := make(chan ans, 1)
		go func() { l, ok := q.Acquire(ctx("a")); d <- ans{l, ok} }()
		synctest.Wait()
		select {
		case <-d:
			res.Failed, res.Detail = true, "setup: the second caller of partition a was not queued"
			return
		default:
		}
		ha.OnSuccess()
		synctest.Wait()
		select {
		case a := <-d:
			if a.ok {
				a.l.OnIgnore()
			}
		default:
			res.Failed = true
			res.Detail = fmt.Sprintf("partition a has a free guaranteed slot after its holder completed, the caller queued for a was not served (%d backlog entries)", q.VerifBacklogLen())
		}
		time.Sleep(30 * time.Second)
		synctest.Wait()
	})
	return
}

// S1 (real time: the removal waits on the strategy's mutex): predicate partitions a and b both match the request; a TryAcquire is parked
// inside a's predicate while RemovePartitionsMatching removes a.  Matching and charging are one atomic step: either the request was
// charged before a was removed, or it is charged to b - a partition that has been removed is never charged afterwards.
func raceS1(t *testing.T) (res raceResult) {
	res.Sig = "predicate:charged-after-removal"
	reg := newSyncRegistry()
	var mu sync.Mutex
	armed := false
	parkedCh := make(chan chan struct{}, 1)
	key := func(ctx context.Context) string {
		v, _ := ctx.Value(matchers.StringPredicateContextKey).(string)
		return v
	}
	predA := func(ctx context.Context) bool {
		k := key(ctx)
		if k == "x" {
			mu.Lock()
			p := armed
			armed = false
			mu.Unlock()
			if p {
				c := make(chan struct{})
				parkedCh <- c
				<-c
			}
		}
		return k == "x" || k == "rm"
	}
	predB := func(ctx context.Context) bool { return key(ctx) == "x" }
	a := strategy.NewPredicatePartitionWithMetricRegistry("a", 0.5, predA, reg)
	b := strategy.NewPredicatePartitionWithMetricRegistry("b", 0.5, predB, reg)
	s, err := strategy.NewPredicatePartitionStrategyWithMetricRegistry([]*strategy.PredicatePartition{a, b}, 4, reg)
	if err != nil {
		t.Fatal(err)
	}
	ctx := func(k string) context.Context {
		return context.WithValue(context.Background(), matchers.StringPredicateContextKey, k)
	}
	mu.Lock()
	armed = true
	mu.Unlock()
	var wg sync.WaitGroup
	wg.Add(2)
	var tok core.StrategyToken
	var ok bool
	go func() { defer wg.Done(); tok, ok = s.TryAcquire(ctx("x")) }()
	c := <-parkedCh // the request is inside a's predicate
	busyAtRemoval := -1
	go func() {
		defer wg.Done()
		s.RemovePartitionsMatching(ctx("rm")) // removes a (waits for the strategy if the request holds it)
		busyAtRemoval = a.BusyCount()
	}()
	time.Sleep(40 * time.Millisecond)
	close(c)
	wg.Wait()
	if !ok {
		res.Failed, res.Detail = true, "the request matching both partitions was refused with the strategy idle"
		return
	}
	if after := a.BusyCount(); after > busyAtRemoval {
		res.Failed = true
		res.Detail = fmt.Sprintf("partition a counted %d in flight when RemovePartitionsMatching returned and %d afterwards: it was charged after its removal (b counts %d)", busyAtRemoval, after, b.BusyCount())
	}
	tok.Release()
	return
}

// only signatures starting with one of `only` are reported (empty = all)
var raceOnly []string

// Q4: a caller queues while a completion is in progress (the completion has started, the delegate's unit is not yet back).  When the
// unit comes back the completion's hand-off must look at the backlog as it is then: the caller that queued meanwhile is served by it.
func raceQ4(t *testing.T) (res raceResult) {
	res.Sig = "queue:lost-handoff:waiter-queued-during-completion"
	synctest.Test(t, func(t *testing.T) {
		for _, oc := range []int{0, 1, 2} {
			g, st := newGated(1)
			q := limiter.NewQueueBlockingLimiterFromConfig(g, limiter.QueueLimiterConfig{Ordering: limiter.OrderingFIFO, MaxBacklogSize: 5, MaxBacklogTimeout: time.Hour})
			holder, _ := q.Acquire(context.Background())
			g.armRelease()
			go func() {
				switch oc {
				case 0:
					holder.OnSuccess()
				case 1:
					holder.OnIgnore()
				default:
					holder.OnDropped()
				}
			}()
			c := <-g.parked // the completion is under way; the unit is still held
			type ans struct {
				l  core.Listener
				ok bool
			}
			d := make(chan ans, 1)
			go func() { l, ok := q.Acquire(context.Background()); d <- ans{l, ok} }()
			synctest.Wait() // refused by the delegate, queued, asleep
			close(c)        // the unit comes back, the hand-off runs
			synctest.Wait()
			select {
			case a := <-d:
				if a.ok {
					a.l.OnIgnore()
				}
			default:
				if !res.Failed {
					res.Failed = true
					res.Detail = fmt.Sprintf("completion outcome %d: the caller that queued while the completion was in progress is still asleep after it finished (%d backlog entries, %d/1 tokens held, no timeout pending for an hour)", oc, q.VerifBacklogLen(), st.GetBusyCount())
				}
				time.Sleep(2 * time.Hour)
			}
			synctest.Wait()
		}
	})
	return
}

// B3 (real time): a waiter that gave up (cancelled) leaves its helper goroutine behind; the next release wakes that helper, which
// must simply finish.  Later waiters are then woken as usual.  The oracle is deliberately weaker than the property (five further
// releases, five seconds) so that scheduling noise cannot trip it.
func raceB3(t *testing.T) (res raceResult) {
	res.Sig = "blocking:waiters-stuck-after-abandoned-waiter"
	for _, mk := range []func(core.Limiter) core.Limiter{
		func(d core.Limiter) core.Limiter { return limiter.NewBlockingLimiter(d, 0, nil) },
		func(d core.Limiter) core.Limiter {
			return limiter.NewDeadlineLimiter(d, time.Now().Add(time.Hour), nil)
		},
	} {
		g, st := newGated(1)
		bl := mk(g)
		holder, ok := bl.Acquire(context.Background())
		if !ok {
			res.Failed, res.Detail = true, "first acquisition refused"
			return
		}
		ctxA, cancelA := context.WithCancel(context.Background())
		doneA := make(chan bool, 1)
		go func() { _, ok := bl.Acquire(ctxA); doneA <- ok }()
		time.Sleep(30 * time.Millisecond)
		cancelA()
		select {
		case <-doneA:
		case <-time.After(5 * time.Second):
			res.Failed, res.Detail = true, "a cancelled waiter did not return within 5s"
			return
		}
		holder.OnSuccess() // wakes the abandoned helper
		time.Sleep(30 * time.Millisecond)
		h2, ok := bl.Acquire(context.Background())
		if !ok {
			res.Failed, res.Detail = true, "acquisition with capacity free refused"
			return
		}
		type ans struct {
			l  core.Listener
			ok bool
		}
		doneB := make(chan ans, 1)
		go func() { l, ok := bl.Acquire(context.Background()); doneB <- ans{l, ok} }()
		time.Sleep(100 * time.Millisecond)
		h2.OnSuccess()
		served := false
		for round := 0; round < 6 && !served; round++ {
			select {
			case a := <-doneB:
				served = true
				if a.ok {
					a.l.OnIgnore()
				}
			case <-time.After(time.Second):
				// one more release (capacity is free, so this acquisition is granted at once)
				nctx, ncancel := context.WithTimeout(context.Background(), 500*time.Millisecond)
				done := make(chan struct{})
				go func() {
					defer close(done)
					if l, ok := bl.Acquire(nctx); ok {
						l.OnIgnore()
					}
				}()
				select {
				case <-done:
				case <-time.After(time.Second):
				}
				ncancel()
			}
		}
		if !served {
			res.Failed = true
			res.Detail = fmt.Sprintf("after one waiter was cancelled and its slot released, a later waiter was never woken: still asleep after the release it waited for and 5 more (%d/1 tokens held)", st.GetBusyCount())
			return
		}
	}
	return
}

// Q5: the hand-off has picked a waiter and is inside the delegate when that waiter's backlog timeout fires: the waiter removes its own
// entry, the hand-off then removes it again (a no-op), finds nobody to hand the token to and gives it back.  Afterwards the backlog is
// empty and every count of it says so: the limiter's own, the queue_size gauge, and the admission of the next callers (the token is
// free for the first, the second is queued - not refused - and served by the next completion).
func raceQ5(t *testing.T) (res raceResult) {
	res.Sig = "queue:backlog-not-exact:after-double-evict"
	synctest.Test(t, func(t *testing.T) {
		for _, fifo := range []bool{true, false} {
			g, st := newGated(1)
			reg := newRecRegistry()
			ord := limiter.OrderingLIFO
			if fifo {
				ord = limiter.OrderingFIFO
			}
			q := limiter.NewQueueBlockingLimiterFromConfig(g, limiter.QueueLimiterConfig{Ordering: ord, MaxBacklogSize: 4, MaxBacklogTimeout: time.Second, MetricRegistry: reg})
			holder, _ := q.Acquire(context.Background())
			d1 := make(chan bool, 1)
			go func() { _, ok := q.Acquire(context.Background()); d1 <- ok }()
			synctest.Wait()
			time.Sleep(500 * time.Millisecond)
			g.arm(false, true)
			go holder.OnSuccess()
			c := <-g.parked // the hand-off has peeked the waiter and holds the delegate's token
			g.arm(false, false)
			time.Sleep(600 * time.Millisecond) // the waiter's timeout fires: it leaves the backlog and returns
			synctest.Wait()
			close(c)
			synctest.Wait()
			select {
			case ok := <-d1:
				if ok {
					res.Failed, res.Detail = true, "a waiter whose timeout had fired was granted"
				}
			default:
				res.Failed, res.Detail = true, "the waiter did not return at its backlog timeout"
			}
			add := func(sig, d string) { extraRace = append(extraRace, raceResult{sig, d, true}) }
			if n := q.VerifBacklogLen(); n != 0 && !res.Failed {
				res.Failed, res.Detail = true, fmt.Sprintf("the backlog is empty (its only waiter timed out during the hand-off) but reports %d entries", n)
			}
			for k, sup := range reg.Gauges {
				if strings.HasPrefix(k, "queue_size") {
					if v, _ := sup(); v != 0 {
						add("queue:queue-size-gauge:after-double-evict", fmt.Sprintf("gauge %s reports %v with nobody in the backlog (its only waiter timed out during the hand-off)", k, v))
					}
				}
			}
			if b := st.GetBusyCount(); b != 0 {
				add("queue:token-leak:handoff-to-departed-waiter", fmt.Sprintf("%d tokens held at the delegate, nobody holds one", b))
			}
			h2, ok2 := q.Acquire(context.Background())
			if !ok2 {
				add("queue:refused-with-room:after-double-evict", "the token is free and the backlog empty, but the next caller was refused")
				continue
			}
			d3 := make(chan core.Listener, 1)
			t0 := time.Now()
			go func() { l, _ := q.Acquire(context.Background()); d3 <- l }()
			synctest.Wait()
			select {
			case l := <-d3:
				if l == nil && time.Since(t0) == 0 {
					add("queue:refused-with-backlog-room:after-double-evict", "limit reached, backlog empty (bound 4): the next caller was refused at once instead of being queued")
				}
			default:
				h2.OnSuccess()
				synctest.Wait()
				select {
				case l := <-d3:
					if l != nil {
						l.OnIgnore()
					}
				default:
					add("queue:lost-handoff:after-double-evict", "the caller queued after the race was not served by the next completion")
				}
			}
			time.Sleep(5 * time.Second)
			synctest.Wait()
		}
	})
	return
}

// G1: a completion lands while another Acquire is between the strategy's grant and the limiter's own in-flight count.  Both must be
// counted: afterwards gauge = strategy busy = listeners outstanding.
type parkStrategy struct {
	core.Strategy
	mu     sync.Mutex
	park   bool
	parked chan chan struct{}
}

func (p *parkStrategy) TryAcquire(ctx context.Context) (core.StrategyToken, bool) {
	tok, ok := p.Strategy.TryAcquire(ctx)
	p.mu.Lock()
	pk := p.park && ok
	p.mu.Unlock()
	if pk {
		c := make(chan struct{})
		p.parked <- c
		<-c
	}
	return tok, ok
}

func raceG1(t *testing.T) (res raceResult) {
	res.Sig = "default:gauge-lost-update:completion-during-acquire"
	// real time: OnSuccess / OnDropped give their unit back and then wait for the limiter's mutex (held by the parked Acquire)
	for _, oc := range []int{0, 1, 2} {
		inner := strategy.NewPreciseStrategy(5)
		st := &parkStrategy{Strategy: inner, parked: make(chan chan struct{}, 1)}
		l, err := limiter.NewDefaultLimiter(limit.NewFixedLimit("f", 5, nil), 1e9, 1e9, 0, 10, st, nil, core.EmptyMetricRegistryInstance)
		if err != nil {
			t.Fatal(err)
		}
		a, _ := l.Acquire(context.Background())
		st.mu.Lock()
		st.park = true
		st.mu.Unlock()
		done := make(chan core.Listener, 1)
		go func() { b, _ := l.Acquire(context.Background()); done <- b }()
		c := <-st.parked // B holds its strategy token, the limiter has not counted it yet
		st.mu.Lock()
		st.park = false
		st.mu.Unlock()
		adone := make(chan struct{})
		go func() { // A completes meanwhile: its unit goes back at once
			defer close(adone)
			switch oc {
			case 0:
				a.OnSuccess()
			case 1:
				a.OnIgnore()
			default:
				a.OnDropped()
			}
		}()
		time.Sleep(100 * time.Millisecond)
		close(c)
		b := <-done
		<-adone
		if g, busy := l.VerifInFlight(), inner.GetBusyCount(); (g != 1 || busy != 1) && !res.Failed {
			res.Failed = true
			res.Detail = fmt.Sprintf("completion outcome %d during another Acquire: one listener outstanding, in-flight gauge %d, strategy busy %d", oc, g, busy)
		}
		if b != nil {
			b.OnIgnore()
		}
		if g := l.VerifInFlight(); g != 0 && !res.Failed {
			res.Failed = true
			res.Detail = fmt.Sprintf("completion outcome %d during another Acquire: everything completed, in-flight gauge %d", oc, g)
		}
	}
	return
}

// L1 (real time): a reader holds the default limiter's lock for a moment (a monitoring call to EstimatedLimit() inside a slow limit
// algorithm) exactly when a woken waiter - or the queue's hand-off on its behalf - asks the delegate again.  The attempt has to wait for the
// lock, not give up: capacity is free, so the waiter is served.
type parkEstLimit struct {
	mu     sync.Mutex
	park   bool
	parked chan chan struct{}
}

func (l *parkEstLimit) EstimatedLimit() int {
	l.mu.Lock()
	p := l.park
	l.park = false
	l.mu.Unlock()
	if p {
		c := make(chan struct{})
		l.parked <- c
		<-c
	}
	return 1
}
func (l *parkEstLimit) NotifyOnChange(core.LimitChangeListener) {}
func (l *parkEstLimit) OnSample(int64, int64, int, bool)        {}

func raceL1(t *testing.T) (res raceResult) {
	res.Sig = "default:refused-under-lock-contention:woken-waiter"
	for kind := 0; kind < 3; kind++ {
		pl := &parkEstLimit{parked: make(chan chan struct{}, 1)}
		st := strategy.NewPreciseStrategy(1)
		dl, err := limiter.NewDefaultLimiter(pl, 1e9, 1e9, 0, 10, st, nil, core.EmptyMetricRegistryInstance)
		if err != nil {
			t.Fatal(err)
		}
		var lim core.Limiter
		switch kind {
		case 0:
			lim = limiter.NewBlockingLimiter(dl, 0, nil)
		case 1:
			lim = limiter.NewDeadlineLimiter(dl, time.Now().Add(time.Hour), nil)
		default:
			lim = limiter.NewQueueBlockingLimiterFromConfig(dl, limiter.QueueLimiterConfig{MaxBacklogSize: 3, MaxBacklogTimeout: time.Hour})
		}
		holder, ok := lim.Acquire(context.Background())
		if !ok {
			res.Failed, res.Detail = true, "setup: first acquisition refused"
			return
		}
		ctx, cancel := context.WithCancel(context.Background())
		type ans struct {
			l  core.Listener
			ok bool
		}
		done := make(chan ans, 1)
		go func() { l, ok := lim.Acquire(ctx); done <- ans{l, ok} }()
		time.Sleep(500 * time.Millisecond) // the waiter is asleep
		pl.mu.Lock()
		pl.park = true
		pl.mu.Unlock()
		go dl.EstimatedLimit()
		c := <-pl.parked     // the reader is inside the limiter's read lock
		go holder.OnIgnore() // release + wake-up (this completion takes no limiter lock)
		time.Sleep(300 * time.Millisecond)
		close(c) // the reader leaves
		select {
		case a := <-done:
			if a.ok {
				a.l.OnIgnore()
			} else if !res.Failed {
				res.Failed, res.Detail = true, fmt.Sprintf("%s: the woken waiter was refused", []string{"blocking", "deadline", "queue"}[kind])
			}
		case <-time.After(3 * time.Second):
			if !res.Failed {
				res.Failed = true
				res.Detail = fmt.Sprintf("%s limiter: a token was released while a reader held the default limiter's lock for 300 ms; 3 s after the reader left the waiter is still blocked with %d/1 tokens held", []string{"blocking", "deadline", "queue"}[kind], st.GetBusyCount())
			}
			cancel()
		}
		cancel()
	}
	return
}

func runRaces(t *testing.T, rep *Report, races ...func(*testing.T) raceResult) {
	keep := func(sig string) bool {
		if len(raceOnly) == 0 {
			return true
		}
		for _, p := range raceOnly {
			if len(sig) >= len(p) && sig[:len(p)] == p {
				return true
			}
		}
		return false
	}
	defer func() { raceOnly = nil }()
	for _, f := range races {
		extraRace = nil
		r := func() (r raceResult) {
			defer func() {
				// synctest reports goroutines that stay blocked for ever when the replay is over by panicking in the caller
				if p := recover(); p != nil {
					name := runtime.FuncForPC(reflect.ValueOf(f).Pointer()).Name()
					if i := strings.LastIndex(name, "."); i >= 0 {
						name = name[i+1:]
					}
					r = raceResult{Sig: name + ":goroutines-blocked-for-ever", Failed: true, Detail: fmt.Sprintf("replay %s: %v (a goroutine started by the limiter never finished; if it holds the condition's mutex no later waiter can be signalled)", name, p)}
				}
			}()
			return f(t)
		}()
		for _, r := range append([]raceResult{r}, extraRace...) {
			rep.Evaluations++
			rep.Distinct("race-replay", r.Sig)
			if r.Failed && keep(r.Sig) {
				rep.KnownStillFails(r.Sig, r.Detail, map[string]interface{}{"schedule": r.Sig})
				rep.Violate(r.Sig, r.Detail, map[string]interface{}{"component": "race-window", "schedule": r.Sig})
			}
		}
	}
}

func TestC10Races(t *testing.T) {
	rep := NewReport("C10races")
	defer rep.Write(t)
	runRaces(t, rep, raceF8, raceF8deadline, raceF8poll, raceB2, raceF9a, raceF9b, raceF9c, raceQ2, raceP1, raceQ4, raceB3, raceL1, raceB1, raceQ1)
}
func TestC12Races(t *testing.T) {
	rep := NewReport("C12races")
	defer rep.Write(t)
	runRaces(t, rep, raceF9b, raceF11, raceF9c, raceQ5)
}

// the queue_size gauge after a give-up that overlaps a hand-off
func TestC20Races(t *testing.T) {
	rep := NewReport("C20races")
	defer rep.Write(t)
	raceOnly = []string{"queue:queue-size-gauge"}
	runRaces(t, rep, raceQ5)
}
func TestC19Races(t *testing.T) {
	rep := NewReport("C19races")
	defer rep.Write(t)
	runRaces(t, rep, raceF8, raceF9a)
	// a token handed to a waiter that has left must come back: a leaked token shrinks the pool for good
	raceOnly = []string{"queue:token-leak"}
	runRaces(t, rep, raceF9c)
	// a waiter must not be dropped from the backlog by a hand-off that found no capacity
	raceOnly = []string{"queue:order"}
	runRaces(t, rep, raceQ3)
	// after a waiter timed out during a hand-off the pool still queues and serves the next callers
	raceOnly = []string{"queue:refused-with", "queue:lost-handoff:after-double-evict", "queue:token-leak", "queue:backlog-not-exact:after-double-evict"}
	runRaces(t, rep, raceQ5)
	// a pool with a poll period recovers a wake-up lost in the window at its next poll
	raceOnly = []string{"blocking:lost-wakeup:not-recovered-at-poll"}
	runRaces(t, rep, raceF8poll)
	// two holders complete at the same time: both tokens reach queued callers
	raceOnly = []string{"queue:lost-handoff:overlapping-completions"}
	runRaces(t, rep, raceQ2)
}

func TestC03Races(t *testing.T) {
	rep := NewReport("C03races")
	defer rep.Write(t)
	runRaces(t, rep, raceS1)
}

func TestC11Races(t *testing.T) {
	rep := NewReport("C11races")
	defer rep.Write(t)
	raceOnly = []string{"queue:order", "queue:lost-handoff:overlapping-completions"}
	runRaces(t, rep, raceQ1, raceQ3, raceQ2)
}

func TestC02Races(t *testing.T) {
	rep := NewReport("C02races")
	defer rep.Write(t)
	// conservation must survive the race windows (the lost wake-ups themselves belong to C10)
	raceOnly = []string{"queue:token-leak", "queue:backlog-not-exact", "blocking:token-leak", "default:gauge-lost-update"}
	runRaces(t, rep, raceF9c, raceF9b, raceB1, raceF11, raceG1)
}

func TestC05Races(t *testing.T) {
	rep := NewReport("C05races")
	defer rep.Write(t)
	runRaces(t, rep, raceU1)
}
