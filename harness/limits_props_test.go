package harness

import (
	"fmt"
	"math"
	"testing"

	"github.com/platinummonkey/go-concurrency-limits/core"
	"github.com/platinummonkey/go-concurrency-limits/limit"
	"github.com/platinummonkey/go-concurrency-limits/limit/functions"
	"github.com/platinummonkey/go-concurrency-limits/measurements"
)

type pre struct {
	Est      int64
	EstF     float64
	NoLoad   int64
	Start    int64
	Rtt      int64
	Inflight int64
	Drop     bool
	Index    int
}

type caseCtx struct {
	Cfg     LimitCfg
	History [][]int64 // ops so far: [op, args...]
	rep     *Report
	prop    string
	state   map[string]float64
}

func (c *caseCtx) replay() map[string]interface{} {
	return map[string]interface{}{"component": "limit", "cfg": c.Cfg.Ints(), "ops": c.History}
}
func (c *caseCtx) violate(sig, detail string) {
	c.rep.Violate(sig, fmt.Sprintf("%s (limit=%s wrapper=%d cfg=%v, after %d ops)", detail, limitKindNames[c.Cfg.Kind], c.Cfg.Wrapper, c.Cfg.P, len(c.History)), c.replay())
}

// newLimitCase builds a limit under test from a generated valid configuration and opens its trace case.
func newLimitCase(tr *Trace, rep *Report, prop string, r *Rng, kind, wr int, cfgFix func(*LimitCfg)) (*LUT, *caseCtx, *Stream) {
	cfg := GenLimitCfg(r, kind, wr)
	if cfgFix != nil {
		cfgFix(&cfg)
	}
	l, err := NewLUT(cfg)
	if err != nil {
		rep.Count("constructor-error")
		return nil, nil, nil
	}
	c := &caseCtx{Cfg: l.Cfg, rep: rep, prop: prop, state: map[string]float64{}}
	tr.Case(30, l.Cfg.Ints()...)
	return l, c, NewStream(r, l)
}

// sample feeds one sample to the implementation, records it in the trace and the history.
func (c *caseCtx) sample(l *LUT, tr *Trace, start, rtt, inflight int64, drop bool) (pre, SampleObs) {
	p := pre{Est: int64(l.Outer.EstimatedLimit()), EstF: l.EstFloat(), NoLoad: l.NoLoad(), Start: start, Rtt: rtt, Inflight: inflight, Drop: drop, Index: len(c.History)}
	o := l.OnSample(start, rtt, inflight, drop)
	tr.Op(1, o.Args, o.Obs)
	c.History = append(c.History, append([]int64{1}, o.Args...))
	c.rep.Evaluations++
	return p, o
}
func (c *caseCtx) next(l *LUT, tr *Trace, st *Stream) (pre, SampleObs) {
	start, rtt, inflight, drop := st.Next()
	return c.sample(l, tr, start, rtt, inflight, drop)
}
func (c *caseCtx) notify(l *LUT, tr *Trace) {
	a, o := l.Notify()
	tr.Op(2, a, o)
	c.History = append(c.History, []int64{2})
}

// queue allowance of GradientLimit's default SqrtRootFunction(4)
func gradQueue(est int64) int64 {
	q := int64(math.Sqrt(float64(est)))
	if q < 4 {
		q = 4
	}
	return q
}

type limitOracle func(c *caseCtx, l *LUT, p pre, o SampleObs)

// driveLimits runs nCases streams of nSamples samples for each (kind, wrapper), writing the trace for the model
// and evaluating the oracle after every sample.
func driveLimits(t *testing.T, prop string, kinds, wrappers []int, nCases, nSamples int, edgePct int, oracle limitOracle, extra func(c *caseCtx, l *LUT, tr *Trace, r *Rng, i int)) {
	tr := NewTrace(prop)
	rep := NewReport(prop)
	defer func() { tr.Close(); rep.Write(t) }()
	root := NewRng(Seed())
	for _, kind := range kinds {
		for _, wr := range wrappers {
			for ci := 0; ci < nCases; ci++ {
				r := root.Fork()
				cfg := GenLimitCfg(r, kind, wr)
				l, err := NewLUT(cfg)
				if err != nil {
					rep.Count("constructor-error")
					continue
				}
				c := &caseCtx{Cfg: l.Cfg, rep: rep, prop: prop, state: map[string]float64{}}
				tr.Case(30, l.Cfg.Ints()...)
				st := NewStream(r, l)
				st.EdgePct = edgePct
				if wr >= 2 {
					// under the windowed wrapper in-flight must exceed the window size for windows to close
					rep.Count("windowed-cases")
				}
				nl := r.Intn(3)
				for j := 0; j < nl; j++ {
					a, o := l.Notify()
					tr.Op(2, a, o)
					c.History = append(c.History, []int64{2})
				}
				for i := 0; i < nSamples && !l.Dead; i++ {
					if extra != nil {
						extra(c, l, tr, r, i)
					}
					start, rtt, inflight, drop := st.Next()
					if wr >= 2 && r.Bool(60) {
						inflight += l.Cfg.WSize + 1
					}
					p := pre{Est: int64(l.Outer.EstimatedLimit()), EstF: l.EstFloat(), NoLoad: l.NoLoad(), Start: start, Rtt: rtt, Inflight: inflight, Drop: drop, Index: i}
					o := l.OnSample(start, rtt, inflight, drop)
					tr.Op(1, o.Args, o.Obs)
					c.History = append(c.History, append([]int64{1}, o.Args...))
					rep.Evaluations++
					rep.Count(fmt.Sprintf("%s.w%d.samples", limitKindNames[kind], wr))
					if drop {
						rep.Count("drop-samples")
					}
					if rtt == 0 {
						rep.Count("zero-rtt-samples")
					}
					oracle(c, l, p, o)
				}
				tr.End()
				if ci == 0 && wr == 0 {
					h := c.History
					if len(h) > 6 {
						h = h[:6]
					}
					rep.Sample(map[string]interface{}{"limit": limitKindNames[kind], "cfg": l.Cfg.Ints(), "first_ops": h})
				}
			}
		}
	}
}

// ---------------- C04: finite in-bounds integer estimate, no panic ----------------
func TestC04(t *testing.T) {
	driveLimits(t, "C04", []int{0, 1, 2, 3}, []int{0, 1, 2, 3}, Scale(10, 120), Scale(150, 800), 6,
		func(c *caseCtx, l *LUT, p pre, o SampleObs) {
			name := limitKindNames[l.Cfg.Kind]
			if o.Panicked {
				c.violate(name+":panic", "OnSample panicked: "+o.PanicVal)
				return
			}
			lo := l.MinL
			if lo < 1 {
				lo = 1
			}
			hi := l.MaxL
			if l.Initial > hi {
				hi = l.Initial
			}
			if l.Cfg.Kind == 0 {
				hi = math.MaxInt64 // AIMD has no configured maximum in this port
			}
			if o.Est < lo {
				c.violate(name+":below-floor", fmt.Sprintf("EstimatedLimit()=%d below the floor %d", o.Est, lo))
			} else if o.Est > hi {
				c.violate(name+":above-ceiling", fmt.Sprintf("EstimatedLimit()=%d above the ceiling %d", o.Est, hi))
			}
			ef := l.EstFloat()
			if math.IsNaN(ef) || math.IsInf(ef, 0) {
				c.violate(name+":not-finite", "stored estimate is NaN or infinite")
			}
			if o.Est != p.Est {
				c.rep.Distinct("estimate-changed", fmt.Sprint(l.Cfg.Kind, l.Cfg.Wrapper, p.Est, o.Est, p.Drop))
			}
			if p.Rtt == 0 || p.Rtt >= 1<<53 || p.Inflight >= 1<<31-2 {
				c.rep.Distinct("edge-input", fmt.Sprint(l.Cfg.Kind, l.Cfg.Wrapper, p.Rtt, p.Inflight, p.Drop, p.Est))
			}
		}, nil)
}

// C04 around the end of the lookup tables (index 999 / 1000): Vegas and Gradient estimates climb through 990..1010 with fractional values
// (smoothing < 1) while drops, small queues and latency steps call every function that is table-backed below 1000 and computed above.
func TestC04TableEdge(t *testing.T) {
	tr := NewTrace("C04T")
	rep := NewReport("C04T")
	defer func() { tr.Close(); rep.Write(t) }()
	root := NewRng(Seed())
	nCases := Scale(12, 200)
	for _, kind := range []int{1, 2} {
		for ci := 0; ci < nCases; ci++ {
			r := root.Fork()
			l, c, st := newLimitCase(tr, rep, "C04", r, kind, 0, func(cfg *LimitCfg) {
				sm := FBits([]float64{0.2, 0.5, 0.9, 0.05, 1.0}[r.Intn(5)])
				if cfg.Kind == 1 {
					cfg.P = []int64{r.Pick(985, 995, 998), r.Pick(1000, 1000, 1200, 3000), 30, sm}
				} else {
					cfg.P = []int64{r.Pick(985, 995, 998), 1, r.Pick(1000, 1200, 3000), -1, sm, FBits(2.0)}
				}
			})
			if l == nil {
				continue
			}
			name := limitKindNames[kind]
			base := st.base
			for i := 0; i < 260 && !l.Dead; i++ {
				l.Now += 1000
				rtt, inf, drop := base, p2(l)+1, false
				switch r.Intn(8) {
				case 0:
					drop = true
				case 1: // a small queue: est x (1 - base/rtt) of a few units
					if e := l.EstFloat(); e > 8 {
						rtt = int64(float64(base) / (1 - float64(r.Pick(1, 2, 4, 7, 13))/e))
					}
				case 2:
					rtt = base * 2
				}
				_, o := c.sample(l, tr, l.Now, rtt, inf, drop)
				rep.Distinct("table-edge", fmt.Sprint(kind, o.Est, drop))
				if o.Panicked {
					c.violate(name+":panic", "OnSample panicked near the end of the lookup tables: "+o.PanicVal)
					break
				}
				if o.Est < 1 || o.Est > l.MaxL {
					c.violate(name+":out-of-bounds", fmt.Sprintf("EstimatedLimit()=%d outside [1, %d]", o.Est, l.MaxL))
				}
			}
			tr.End()
		}
	}
}

// ---------------- C06: a drop never raises the limit; sustained drops reach the floor ----------------
func TestC06(t *testing.T) {
	tr := NewTrace("C06")
	rep := NewReport("C06")
	defer func() { tr.Close(); rep.Write(t) }()
	root := NewRng(Seed())
	nCases := Scale(40, 600)
	for _, kind := range []int{0, 1, 2} {
		for ci := 0; ci < nCases; ci++ {
			r := root.Fork()
			l, c, st := newLimitCase(tr, rep, "C06", r, kind, r.Intn(2), nil)
			if l == nil {
				continue
			}
			name := limitKindNames[kind]
			// known finding F5 is a Gradient limit BUILT below its queue allowance: the tag applies only while the estimate has never reached it
			belowSinceBuilt := true
			check := func(p pre, o SampleObs) {
				if kind == 2 && p.Est >= gradQueue(p.Est) {
					belowSinceBuilt = false
				}
				if !p.Drop || o.Panicked {
					return
				}
				rep.Distinct("drop-sample", fmt.Sprint(kind, p.Est, p.Rtt, p.Inflight, o.Est))
				if o.Est > p.Est {
					sig := name + ":drop-raises"
					if kind == 2 && p.Est < gradQueue(p.Est) && belowSinceBuilt {
						sig += ":estimate-below-queue-allowance" // known finding F5
					}
					c.violate(sig, fmt.Sprintf("a drop sample raised EstimatedLimit() %d -> %d", p.Est, o.Est))
				}
				if kind == 0 {
					ratio := fb(l.Cfg.P[2])
					want := int64(math.Max(1, math.Min(float64(p.Est-1), math.Floor(float64(p.Est)*ratio))))
					if o.Est != want {
						c.violate("aimd:drop-rule", fmt.Sprintf("drop at limit %d ratio %v gave %d, rule says %d", p.Est, ratio, o.Est, want))
					}
				}
			}
			// reachable state: random prefix
			n := r.Intn(Scale(60, 200))
			for i := 0; i < n && !l.Dead; i++ {
				check(c.next(l, tr, st))
			}
			// sustained drops at a constant RTT equal to the current baseline (so that no sample lowers the baseline)
			rtt := l.NoLoad()
			if rtt <= 0 {
				rtt = st.base
			}
			est0 := float64(l.Outer.EstimatedLimit())
			var bound int
			floor := int64(1)
			switch kind {
			case 0:
				bound = int(est0) + 2
			case 1:
				// every effective drop lowers the stored estimate by at least smoothing*1 (table value >= 1); at most every
				// second sample is a probe or sets the baseline when multiplier*jitter*est >= 2
				bound = (int(4*est0/l.Smooth) + 40) * int(1+8/l.Mult)
			default:
				bound = int(4*math.Log(est0+2)/(-math.Log(1-l.Smooth/2+1e-12))) + 3*int(est0) + 60
				floor = l.MinL
			}
			if bound > 20000 {
				bound = 20000
			}
			reached := -1
			infMode := r.Intn(3) // the whole run uses one in-flight class: idle, at the limit, above it
			for i := 0; i < bound && !l.Dead; i++ {
				l.Now += 1000
				p, o := c.sample(l, tr, l.Now, rtt, []int64{0, p2(l), p2(l) + 3}[infMode], true)
				check(p, o)
				f := floor
				if kind == 2 && gradQueue(o.Est) > f {
					f = gradQueue(o.Est)
				}
				if o.Est <= f {
					reached = i
					break
				}
			}
			if !l.Dead {
				if reached < 0 {
					sig := name + ":floor-not-reached"
					if kind == 1 && float64(l.Mult)*l.EstFloat() < 4 && l.EstFloat() >= 1 {
						sig += ":every-sample-probes" // known finding F19
					}
					c.violate(sig, fmt.Sprintf("%d sustained drops from estimate %v did not reach the floor (now %d)", bound, est0, l.Outer.EstimatedLimit()))
				} else {
					rep.Distinct("floor-run", fmt.Sprint(kind, est0, reached))
					rep.Count(fmt.Sprintf("%s.floor-runs", name))
				}
			}
			tr.End()
			if ci == 0 {
				rep.Sample(map[string]interface{}{"limit": name, "cfg": l.Cfg.Ints(), "prefix_len": n, "drops_to_floor": reached})
			}
		}
	}
	// AIMD's drop rule at products limit x ratio that land next to an integer in binary64 (100 x 0.57 = 56.99999999999999):
	// the rule truncates the binary64 product, nothing is added before the truncation
	{
		r := root.Fork()
		pairs := 0
		for _, ratio := range []float64{0.57, 0.29, 0.58, 0.35, 0.7, 0.07, 0.9, 0.99, 0.1, 0.55, 0.15, 0.85, 0.6} {
			for lim := int64(2); lim <= 1200; lim++ {
				x := float64(lim) * ratio
				if math.Abs(x-math.Round(x)) > 1e-7 && !r.Bool(2) {
					continue
				}
				l, c, _ := newLimitCase(tr, rep, "C06", r, 0, 0, func(cfg *LimitCfg) { cfg.P = []int64{lim, 1, FBits(ratio)} })
				if l == nil {
					continue
				}
				l.Now += 1000
				p, o := c.sample(l, tr, l.Now, 1000, lim, true)
				tr.End()
				pairs++
				want := int64(math.Max(1, math.Min(float64(lim-1), math.Floor(x))))
				if !o.Panicked && o.Est != want {
					c.violate("aimd:drop-rule", fmt.Sprintf("drop at limit %d ratio %v gave %d, rule says %d (binary64 product %v)", p.Est, ratio, o.Est, want, x))
				}
				if o.Est > p.Est {
					c.violate("aimd:drop-raises", fmt.Sprintf("a drop sample raised EstimatedLimit() %d -> %d", p.Est, o.Est))
				}
			}
		}
		rep.Distinct("aimd-near-integer-products", fmt.Sprint(pairs))
	}
	// Vegas configured with another baseline measurement (an exponential average instead of the minimum): drops still lower the estimate,
	// sustained drops at a constant RTT reach the floor
	for _, init := range []int{10, 40, 200} {
		v := limit.NewVegasLimitWithRegistry("v", init, measurements.NewExponentialAverageMeasurement(100, 10), 1000, 1.0, nil, nil, nil, nil, nil, 1<<20, nil, nil)
		var hist [][]int64
		prev, reached := v.EstimatedLimit(), false
		for i := 0; i < 40*init+200; i++ {
			hist = append(hist, []int64{int64(i) * 1000, 1_000_000, int64(prev) + 1, 1})
			v.OnSample(int64(i)*1000, 1_000_000, prev+1, true)
			rep.Evaluations++
			e := v.EstimatedLimit()
			if e > prev {
				rep.Violate("vegas:drop-raises:custom-baseline", fmt.Sprintf("exponential-average baseline: a drop raised the estimate %d -> %d", prev, e), map[string]interface{}{"component": "vegas-custom-baseline", "initial": init, "samples": len(hist)})
				break
			}
			prev = e
			if e <= 1 {
				reached = true
				break
			}
		}
		rep.Distinct("vegas-custom-baseline", fmt.Sprint(init, reached))
		if !reached {
			rep.Violate("vegas:floor-not-reached:custom-baseline", fmt.Sprintf("exponential-average baseline, initial %d: %d drops at a constant RTT left the estimate at %d", init, len(hist), prev), map[string]interface{}{"component": "vegas-custom-baseline", "initial": init, "samples": len(hist)})
		}
	}
	// replay of known finding F5: Gradient constructed below its queue allowance
	{
		l, _ := NewLUT(LimitCfg{Kind: 2, P: []int64{2, 1, 1000, 1000, FBits(0.2), FBits(2.0)}})
		before := l.Outer.EstimatedLimit()
		l.OnSample(0, 1000, 100, true)
		if after := l.Outer.EstimatedLimit(); after > before {
			rep.KnownStillFails("gradient:drop-raises:estimate-below-queue-allowance", fmt.Sprintf("initial=2: one drop raises %d -> %d", before, after), nil)
		}
	}
}

func p2(l *LUT) int64 { return int64(l.Outer.EstimatedLimit()) }

// ---------------- C07: growth is demand-gated; healthy saturation recovers ----------------
func TestC07(t *testing.T) {
	tr := NewTrace("C07")
	rep := NewReport("C07")
	defer func() { tr.Close(); rep.Write(t) }()
	root := NewRng(Seed())
	nCases := Scale(30, 500)
	for _, kind := range []int{0, 1, 2, 3} {
		for ci := 0; ci < nCases; ci++ {
			r := root.Fork()
			l, c, st := newLimitCase(tr, rep, "C07", r, kind, r.Intn(2), func(cfg *LimitCfg) {
				if cfg.Kind == 2 { // recovery clause is stated for RTT tolerance >= 1
					if t := fb(cfg.P[5]); t >= 0 && t < 1 {
						cfg.P[5] = FBits(1.0)
					}
				}
				if cfg.Kind == 3 && cfg.P[2] > 4 && r.Bool(60) {
					cfg.P[0] = r.Range(1, cfg.P[2]-1) // Gradient2 built below its configured minimum: an app-limited sample must still not move it
				}
			})
			if l == nil {
				continue
			}
			name := limitKindNames[kind]
			belowSinceBuilt := true
			check := func(p pre, o SampleObs) {
				if kind == 2 && p.Est >= gradQueue(p.Est) {
					belowSinceBuilt = false
				}
				if p.Drop || o.Panicked {
					return
				}
				app := 2*float64(p.Inflight) < p.EstF
				if kind == 0 {
					app = p.Inflight < p.Est
				}
				if app {
					rep.Distinct("app-limited", fmt.Sprint(kind, p.Est, p.Inflight, p.Rtt))
					if o.Est > p.Est {
						sig := name + ":app-limited-raise"
						if kind == 2 && p.Est < gradQueue(p.Est) && belowSinceBuilt {
							sig += ":estimate-below-queue-allowance"
						}
						c.violate(sig, fmt.Sprintf("a non-drop sample with in-flight %d below half the estimate %v raised EstimatedLimit() %d -> %d", p.Inflight, p.EstF, p.Est, o.Est))
					}
				}
			}
			if kind == 3 && l.Cfg.P[0] > 0 && l.Cfg.P[0] < l.Cfg.P[2] {
				// built below the minimum: the very first samples are app-limited ones
				for i := 0; i < 3 && !l.Dead; i++ {
					l.Now += 1000
					check(c.sample(l, tr, l.Now, st.base, 0, false))
				}
			}
			n := r.Intn(Scale(80, 300))
			for i := 0; i < n && !l.Dead; i++ {
				check(c.next(l, tr, st))
			}
			// start times as callers report them: increasing, all zero (what the default limiter passes), or decreasing (completions out of order)
			startMode := r.Intn(3)
			startOf := func() int64 {
				switch startMode {
				case 0:
					return l.Now
				case 1:
					return 0
				default:
					return 4_000_000_000_000_000 - l.Now
				}
			}
			// in a third of the cases the history ends in a collapse (a long run of drops): recovery must work from the floor too
			if !l.Dead && r.Bool(33) {
				rttc := l.NoLoad()
				if rttc <= 0 {
					rttc = st.base
				}
				for i := 0; i < 80 && !l.Dead; i++ {
					l.Now += 1000
					c.sample(l, tr, startOf(), rttc, p2(l), true)
				}
			}
			if l.Dead {
				tr.End()
				continue
			}
			// healthy run: saturated, drop-free, RTT equal to the current baseline (constant for Gradient2)
			rtt := l.NoLoad()
			if rtt <= 0 {
				rtt = st.base
			}
			est0 := p2(l)
			ceil := l.MaxL
			var bound int
			switch kind {
			case 0:
				bound = 50
			case 1:
				bound = (int(3*float64(ceil)/l.Smooth) + 3*int(l.Mult) + 50) * int(1+8/l.Mult)
			case 2:
				bound = int(float64(ceil))*2 + 100
				if l.Interval > 0 {
					// between two probes the estimate must climb by the queue allowance per sample
					bound = int(2 * l.Interval)
				}
			default:
				bound = int(8*float64(ceil)/l.Smooth) + 4000
			}
			if bound > 60000 {
				bound = 60000
			}
			reached := -1
			for i := 0; i < bound && !l.Dead; i++ {
				l.Now += 1000
				p, o := c.sample(l, tr, startOf(), rtt, p2(l)+r.Range(0, 2), false)
				check(p, o)
				switch kind {
				case 0:
					inc := l.Cfg.P[1]
					if inc <= 0 {
						inc = 1
					}
					if o.Est != p.Est+inc {
						c.violate("aimd:increase-rule", fmt.Sprintf("saturated drop-free sample at %d gave %d, expected +%d", p.Est, o.Est, inc))
					}
				case 2:
					// up by at least the queue allowance per sample until the ceiling or the next probe
					probe := len(o.Notified) > 0 && false
					_ = probe
					nl := l.NoLoad()
					if nl != 0 && p.NoLoad != 0 && o.Est < p.Est+gradQueue(p.Est) && o.Est < ceil && p.Est >= gradQueue(p.Est) {
						c.violate("gradient:slow-recovery", fmt.Sprintf("healthy saturated sample raised %d -> %d, less than the queue allowance %d below ceiling %d", p.Est, o.Est, gradQueue(p.Est), ceil))
					}
				}
				if kind != 0 && o.Est >= ceil-1 {
					reached = i
					break
				}
			}
			if kind != 0 && !l.Dead {
				if reached < 0 && !(kind == 2 && l.Interval > 0) {
					sig := name + ":no-recovery"
					if kind == 1 && float64(l.Mult)*l.EstFloat() < 4 && l.EstFloat() >= 1 {
						sig += ":every-sample-probes" // known finding F19
					}
					c.violate(sig, fmt.Sprintf("%d healthy saturated samples from estimate %d did not bring the estimate within one of the ceiling %d (now %d)", bound, est0, ceil, p2(l)))
				} else if reached >= 0 {
					rep.Distinct("recovery-run", fmt.Sprint(kind, est0, ceil, reached))
					rep.Count(name + ".recovery-runs")
				}
			}
			tr.End()
			if ci == 0 {
				rep.Sample(map[string]interface{}{"limit": name, "cfg": l.Cfg.Ints(), "prefix_len": n, "samples_to_ceiling": reached})
			}
		}
	}
	// Vegas configured with another baseline measurement (an exponential average): healthy saturated traffic at the baseline RTT still
	// recovers the estimate to the ceiling, also after a collapse and across baseline probes
	for _, init := range []int{4, 10, 60} {
		for _, mult := range []int{1 << 20, 30} {
			v := limit.NewVegasLimitWithRegistry("v", init, measurements.NewExponentialAverageMeasurement(100, 10), 200, 1.0, nil, nil, nil, nil, nil, mult, nil, nil)
			n := 0
			for i := 0; i < 30; i++ { // collapse first
				n++
				v.OnSample(int64(n)*1000, 1_000_000, v.EstimatedLimit()+1, true)
			}
			low := v.EstimatedLimit()
			reached := false
			for i := 0; i < 4000; i++ {
				n++
				v.OnSample(int64(n)*1000, 1_000_000, v.EstimatedLimit()+1, false)
				rep.Evaluations++
				if v.EstimatedLimit() >= 199 {
					reached = true
					break
				}
			}
			rep.Distinct("vegas-custom-baseline-recovery", fmt.Sprint(init, mult, low, reached))
			if !reached {
				rep.Violate("vegas:no-recovery:custom-baseline", fmt.Sprintf("exponential-average baseline, initial %d, probe multiplier %d: after a collapse to %d, 4000 healthy saturated samples at a constant RTT left the estimate at %d (ceiling 200)", init, mult, low, v.EstimatedLimit()), map[string]interface{}{"component": "vegas-custom-baseline", "initial": init, "probe_multiplier": mult})
			}
		}
	}
}

// ---------------- C15: the no-load baseline is a recent true minimum, refreshed by probing ----------------
func TestC15(t *testing.T) {
	tr := NewTrace("C15")
	rep := NewReport("C15")
	defer func() { tr.Close(); rep.Write(t) }()
	root := NewRng(Seed())
	nCases := Scale(40, 600)
	for _, kind := range []int{1, 2} {
		for ci := 0; ci < nCases; ci++ {
			r := root.Fork()
			l, c, st := newLimitCase(tr, rep, "C15", r, kind, r.Intn(2), func(cfg *LimitCfg) {
				if cfg.Kind == 1 && r.Bool(60) {
					cfg.P[2] = r.Pick(1, 1, 2, 3) // small multipliers: many probes
				}
				if cfg.Kind == 2 && r.Bool(60) {
					cfg.P[3] = r.Pick(1, 2, 3, 5)
				}
			})
			if l == nil {
				continue
			}
			name := limitKindNames[kind]
			seen := map[int64]bool{} // RTTs observed since the last reset
			sinceReset := 0
			maxEst := float64(p2(l))
			_, cntBefore := int64(0), int64(0)
			if l.grad != nil {
				_, cb := l.grad.VerifState()
				cntBefore = int64(cb)
			}
			n := Scale(200, 600)
			collapseAt := -1
			if kind == 1 && r.Bool(40) {
				collapseAt = 20 + r.Intn(40)
			}
			for i := 0; i < n && !l.Dead; i++ {
				start, rtt, inflight, drop := st.Next()
				if rtt >= 1<<53 {
					rtt = st.base // baseline equality is exact for integers below 2^53
				}
				if collapseAt >= 0 && i >= collapseAt && i < collapseAt+70 {
					rtt, inflight, drop = st.base, p2(l), true // a collapse: the estimate (and with it the probe threshold) shrinks
				}
				p, o := c.sample(l, tr, start, rtt, inflight, drop)
				if o.Panicked {
					break
				}
				reset := false
				if kind == 1 {
					reset = o.Probe
					// the probe threshold follows the CURRENT estimate: jitter <= 1, so once the count reaches multiplier x estimate the sample must probe
					if !o.Probe && float64(sinceReset+1) >= float64(l.Mult)*p.EstF+1 {
						c.violate("vegas:reset-overdue", fmt.Sprintf("%d samples since the last baseline reset with multiplier %d and estimate %v: this sample had to probe", sinceReset+1, l.Mult, p.EstF))
					}
				} else {
					_, cb := l.grad.VerifState()
					reset = l.Interval > 0 && int64(cb) > cntBefore-1+0 && int64(cb) >= l.Interval && cntBefore-1 <= 0
					cntBefore = int64(cb)
				}
				if reset {
					rep.Count(name + ".resets")
					seen = map[int64]bool{}
					if kind == 1 {
						lim := float64(l.Mult)*maxEst + 1
						if float64(sinceReset) > lim {
							c.violate("vegas:reset-period", fmt.Sprintf("%d samples between baseline resets, more than multiplier x limit = %v", sinceReset, lim))
						}
					} else if int64(sinceReset) > 2*l.Interval {
						c.violate("gradient:reset-period", fmt.Sprintf("%d samples between baseline resets, more than twice the probe interval %d", sinceReset, l.Interval))
					}
					sinceReset = 0
					maxEst = float64(o.Est)
				}
				sinceReset++
				if p.EstF > maxEst {
					maxEst = p.EstF
				}
				if !(kind == 2 && reset) {
					seen[rtt] = true
				}
				nl := o.NoLoad
				if nl != 0 {
					rep.Distinct("baseline-set", fmt.Sprint(kind, nl, rtt))
					if nl > rtt {
						c.violate(name+":baseline-above-sample", fmt.Sprintf("after a sample with RTT %d the baseline is %d", rtt, nl))
					}
					if !seen[nl] {
						c.violate(name+":baseline-not-observed", fmt.Sprintf("baseline %d is not an RTT observed since the last reset", nl))
					}
				}
				if kind == 1 && float64(sinceReset) > float64(l.Mult)*maxEst+1 {
					c.violate("vegas:reset-overdue", fmt.Sprintf("%d samples without a baseline reset, more than multiplier x limit", sinceReset))
					break
				}
				if kind == 2 && l.Interval > 0 && int64(sinceReset) > 2*l.Interval {
					c.violate("gradient:reset-overdue", fmt.Sprintf("%d samples without a baseline reset, more than twice the probe interval %d", sinceReset, l.Interval))
					break
				}
			}
			tr.End()
			if ci == 0 {
				rep.Sample(map[string]interface{}{"limit": name, "cfg": l.Cfg.Ints(), "samples": n})
			}
		}
	}
}

// ---------------- C16: change notifications are complete and agree with the estimate ----------------
func TestC16(t *testing.T) {
	tr := NewTrace("C16")
	rep := NewReport("C16")
	defer func() { tr.Close(); rep.Write(t) }()
	root := NewRng(Seed())
	nCases := Scale(12, 150)
	for _, kind := range []int{0, 1, 2, 3, 4, 5} {
		for _, wr := range []int{0, 1, 2, 3} {
			for ci := 0; ci < nCases; ci++ {
				r := root.Fork()
				var fix func(*LimitCfg)
				if kind == 2 && r.Bool(15) {
					// built below the queue allowance, probing at once: the probe moves the estimate up (to the allowance) - a change like any other
					fix = func(cfg *LimitCfg) { cfg.P[0], cfg.P[3] = r.Pick(1, 2, 3), r.Pick(1, 2, 3) }
				} else if kind == 2 && r.Bool(10) {
					// a ceiling below the queue allowance (outside C04's valid configurations, but what is notified must still be what is reported)
					fix = func(cfg *LimitCfg) { cfg.P[0], cfg.P[1], cfg.P[2] = r.Pick(1, 2), 1, r.Pick(2, 3) }
				}
				l, c, st := newLimitCase(tr, rep, "C16", r, kind, wr, fix)
				if l == nil {
					continue
				}
				name := limitKindNames[kind]
				n := Scale(120, 400)
				for i := 0; i < n && !l.Dead; i++ {
					if len(l.Listeners) < 4 && (i == 0 || r.Bool(3)) {
						c.notify(l, tr)
						rep.Count("listeners-registered")
					}
					var est0, est1 int64
					var notified [][]int64
					if kind == 4 && r.Bool(25) {
						est0 = p2(l)
						v := r.Pick(0, 1, 5, 10, 10, 100, 1000, 1<<31-1)
						a, o, nf := l.SetLimit(v)
						tr.Op(3, a, o)
						c.History = append(c.History, []int64{3, v})
						rep.Evaluations++
						est1, notified = p2(l), nf
						if est1 != v {
							c.violate("settable:set-not-reported", fmt.Sprintf("SetLimit(%d) but EstimatedLimit()=%d", v, est1))
						}
					} else {
						start, rtt, inflight, drop := st.Next()
						if wr >= 2 && r.Bool(60) {
							inflight += l.Cfg.WSize + 1
						}
						p, o := c.sample(l, tr, start, rtt, inflight, drop)
						if o.Panicked {
							break
						}
						est0, est1, notified = p.Est, o.Est, o.Notified
					}
					if int64(l.Inner.EstimatedLimit()) != est1 {
						c.violate(name+":wrapper-estimate", "wrapper reports an estimate different from its delegate")
					}
					for li, vals := range notified {
						if est1 != est0 {
							rep.Distinct("estimate-change", fmt.Sprint(kind, wr, est0, est1, li))
							if len(vals) == 0 {
								c.violate(name+":missed-notification", fmt.Sprintf("estimate changed %d -> %d but listener %d was not called", est0, est1, li))
							}
						}
						if len(vals) > 0 && vals[len(vals)-1] != est1 {
							c.violate(name+":stale-notification", fmt.Sprintf("listener %d last received %d but EstimatedLimit() reports %d", li, vals[len(vals)-1], est1))
						}
						if li > 0 && fmt.Sprint(vals) != fmt.Sprint(notified[0]) {
							c.violate(name+":listeners-disagree", fmt.Sprintf("listener %d received %v, listener 0 received %v", li, vals, notified[0]))
						}
					}
				}
				tr.End()
				if ci == 0 && wr == 0 {
					rep.Sample(map[string]interface{}{"limit": name, "cfg": l.Cfg.Ints(), "listeners": len(l.Listeners)})
				}
			}
		}
	}
}

// ---------------- C09 (windowed limit): the delegate sees each window once, aggregated exactly ----------------
func TestC09Windowed(t *testing.T) {
	tr := NewTrace("C09W")
	rep := NewReport("C09W")
	defer func() { tr.Close(); rep.Write(t) }()
	root := NewRng(Seed())
	nCases := Scale(120, 2500)
	for ci := 0; ci < nCases; ci++ {
		r := root.Fork()
		cfg := LimitCfg{Wrapper: 2, Kind: 5, P: []int64{10}}
		cfg.MinW = 1e8 * r.Pick(1, 2, 10)
		cfg.MaxW = cfg.MinW * r.Pick(1, 1, 3)
		cfg.WSize = r.Pick(10, 10, 12, 20)
		cfg.Thr = r.Pick(0, 1000, 100_000, 5_000_000)
		l, err := NewLUT(cfg)
		if err != nil {
			rep.Count("constructor-error")
			continue
		}
		c := &caseCtx{Cfg: l.Cfg, rep: rep, prop: "C09", state: map[string]float64{}}
		tr.Case(30, l.Cfg.Ints()...)
		type smp struct {
			rtt, inf int64
			drop     bool
		}
		var seg []smp
		next := int64(0)
		now := int64(1_000_000_000)
		n := Scale(150, 400)
		for i := 0; i < n; i++ {
			rtt := r.Pick(cfg.Thr-1, cfg.Thr, cfg.Thr+1, 2_000_000, 10_000_000, 50_000_000, r.Range(1, 300_000_000))
			if rtt < 0 {
				rtt = 0
			}
			inf := r.Pick(1, 5, cfg.WSize-1, cfg.WSize, cfg.WSize+1, cfg.WSize+5, 100)
			drop := r.Bool(15)
			now += r.Pick(1, 1000, cfg.MinW/7, cfg.MinW/2, cfg.MinW)
			start := now
			if r.Bool(25) && next > 0 { // end time right around the end of the period
				start = next - rtt + r.Pick(-1, 0, 1)
				if start < 0 {
					start = 0
				}
			}
			p, o := c.sample(l, tr, start, rtt, inf, drop)
			_ = p
			// forwarded sample = inner limit's common-sampler emissions (kinds 1 rtt, 2 in-flight, 3 dropped)
			var fwd []int64
			gotDrop := false
			for _, e := range o.Emitted {
				switch e.Kind {
				case 1:
					fwd = append(fwd, int64(fb(e.Bits)))
				case 2:
					fwd = append(fwd, int64(fb(e.Bits)))
				case 3:
					gotDrop = true
				}
			}
			end := start + rtt
			qualifies := rtt >= cfg.Thr
			if qualifies {
				seg = append(seg, smp{rtt, inf, drop})
			}
			var sum, cnt, mx, mn int64
			mn = math.MaxInt64
			anyDrop := false
			for _, s := range seg {
				if s.inf > mx {
					mx = s.inf
				}
				if s.drop {
					anyDrop = true
				} else {
					sum += s.rtt
					cnt++
					if s.rtt < mn {
						mn = s.rtt
					}
				}
			}
			ready := qualifies && end > next && int64(int32(inf)) > cfg.WSize
			if len(fwd) > 0 {
				rep.Distinct("window-closed", fmt.Sprint(cfg.Ints(), fwd, gotDrop, len(seg)))
				if !ready {
					c.violate("windowed:update-not-ready", fmt.Sprintf("delegate updated by a sample that does not close a window (end %d, next %d, in-flight %d, size %d, rtt %d, threshold %d)", end, next, inf, cfg.WSize, rtt, cfg.Thr))
				}
				avg := int64(0)
				if cnt > 0 {
					avg = sum / cnt
				}
				if len(fwd) != 2 || fwd[0] != avg || fwd[1] != mx || gotDrop != anyDrop {
					c.violate("windowed:wrong-aggregate", fmt.Sprintf("delegate received (rtt,inflight)=%v drop=%v; the window folds to mean %d, max in-flight %d, drop %v over %d qualifying samples", fwd, gotDrop, avg, mx, anyDrop, len(seg)))
				}
				pd := 2 * mn
				if mn == math.MaxInt64 {
					pd = cfg.MinW // doubling the unset minimum wraps below the minimum window
				}
				if pd < cfg.MinW {
					pd = cfg.MinW
				}
				if pd > cfg.MaxW {
					pd = cfg.MaxW
				}
				next = end + pd
				seg = nil
			} else if ready {
				c.violate("windowed:window-not-closed", "a ready window past its period was not forwarded")
			}
			if got := l.windowed.VerifNextUpdateTime(); got != next {
				c.violate("windowed:period", fmt.Sprintf("next update time %d, expected %d", got, next))
				next = got
			}
		}
		tr.End()
		if ci == 0 {
			h := c.History
			if len(h) > 5 {
				h = h[:5]
			}
			rep.Sample(map[string]interface{}{"limit": "windowed(fixed)", "cfg": l.Cfg.Ints(), "first_ops": h})
		}
	}
}

// C04 with a configured constant queue allowance (0 included) and configured minimum 0 or 1: the floor of 1 holds whatever the allowance;
// long runs of drops and of doubled latency drive the estimate down to it.
func TestC04Allowance(t *testing.T) {
	rep := NewReport("C04Q")
	defer rep.Write(t)
	root := NewRng(Seed())
	for _, kind := range []int{2, 3} {
		for ci := 0; ci < Scale(60, 800); ci++ {
			r := root.Fork()
			q := int(r.Pick(0, 0, 1, 2, 4, 10))
			minL := int(r.Pick(0, 0, 1, 2, 3, 5))
			maxL := int(r.Pick(20, 50, 200, 1000))
			initial := int(r.Pick(int64(max(minL, 1)), 5, 10, 20))
			if initial < minL {
				initial = minL
			}
			sm := []float64{0.2, 0.5, 1.0, 0.3, 0.05, 0.9}[r.Intn(6)]
			cfgMin := minL
			if kind == 3 && minL <= 0 {
				minL = 4 // Gradient2 replaces a non-positive minimum by 4: a valid configuration starts at or above it
				initial = max(initial, 4)
			}
			var lim core.Limit
			floor := max(minL, 1)
			name := limitKindNames[kind]
			if kind == 2 {
				lim = limit.NewGradientLimitWithRegistry("g", initial, cfgMin, maxL, sm, functions.FixedQueueSizeFunc(q), 2.0, -1, nil, nil)
			} else {
				g2, err := limit.NewGradient2Limit("g2", initial, maxL, cfgMin, functions.FixedQueueSizeFunc(q), sm, int(r.Pick(10, 100, 600)), nil, nil)
				if err != nil {
					rep.Count("constructor-error")
					continue
				}
				lim = g2
			}
			var hist [][]int64
			now, base := int64(0), r.Pick(1000, 50_000, 1_000_000)
			feed := func(rtt, inf int64, drop bool) bool {
				now += 1000
				hist = append(hist, []int64{now, rtt, inf, B(drop)})
				var pv interface{}
				func() {
					defer func() { pv = recover() }()
					lim.OnSample(now, rtt, int(inf), drop)
				}()
				rep.Evaluations++
				rp := map[string]interface{}{"component": "limit-constant-allowance", "kind": kind, "initial": initial, "min": minL, "max": maxL, "queue": q, "smoothing": sm, "samples": hist}
				if pv != nil {
					rep.Violate(name+":panic", fmt.Sprintf("OnSample panicked: %v", pv), rp)
					return false
				}
				e := lim.EstimatedLimit()
				if e < floor {
					rep.Violate(name+":below-floor", fmt.Sprintf("EstimatedLimit()=%d below the floor %d (configured minimum %d, constant queue allowance %d)", e, floor, minL, q), rp)
					return false
				}
				if e > max(maxL, initial) {
					rep.Violate(name+":above-ceiling", fmt.Sprintf("EstimatedLimit()=%d above the ceiling %d", e, max(maxL, initial)), rp)
					return false
				}
				return true
			}
			ok := true
			for ph := 0; ph < 6 && ok; ph++ {
				n := 20 + r.Intn(80)
				mode := r.Intn(4)
				for i := 0; i < n && ok; i++ {
					e := int64(lim.EstimatedLimit())
					switch mode {
					case 0: // drops
						ok = feed(base, e+1, true)
					case 1: // latency doubling every few samples, saturated
						ok = feed(base*(1<<uint(min(i/3, 20))), e+1, false)
					case 2: // healthy saturated
						ok = feed(base+r.Range(0, base/10), e+1, false)
					default: // mixed, app-limited included
						ok = feed(base*r.Pick(1, 1, 2, 5)+r.Range(0, 50), r.Pick(0, e/2, e, e+1), r.Bool(20))
					}
				}
			}
			rep.Distinct("allowance-run", fmt.Sprint(kind, q, minL, maxL, initial, sm, lim.EstimatedLimit()))
		}
	}
}

// the traced wrapper hands every sample to its delegate unchanged (zero RTTs, idle samples and drops included), reports the delegate's
// estimate, and registers listeners with the delegate
type recLimit struct {
	est   int
	calls [][]int64
	ls    []core.LimitChangeListener
}

func (l *recLimit) EstimatedLimit() int                       { return l.est }
func (l *recLimit) NotifyOnChange(c core.LimitChangeListener) { l.ls = append(l.ls, c) }
func (l *recLimit) OnSample(start, rtt int64, inflight int, drop bool) {
	l.calls = append(l.calls, []int64{start, rtt, int64(inflight), B(drop)})
	l.est++
	for _, c := range l.ls {
		c(l.est)
	}
}

func TestC16Traced(t *testing.T) {
	rep := NewReport("C16traced")
	defer rep.Write(t)
	root := NewRng(Seed())
	for ci := 0; ci < Scale(60, 600); ci++ {
		r := root.Fork()
		rec := &recLimit{est: int(r.Pick(1, 5, 20))}
		var tl core.Limit = limit.NewTracedLimit(rec, limit.NoopLimitLogger{})
		if r.Bool(30) {
			tl = limit.NewTracedLimit(tl, limit.NoopLimitLogger{}) // traced twice
		}
		var got []int
		var hist [][]int64
		fail := func(sig, d string) {
			rep.Violate("traced:"+sig, d, map[string]interface{}{"component": "traced-wrapper", "samples": hist})
		}
		for i := 0; i < 40; i++ {
			if i == 0 || r.Bool(5) {
				n := len(rec.ls)
				tl.NotifyOnChange(func(v int) { got = append(got, v) })
				if len(rec.ls) != n+1 {
					fail("listener-not-registered", "NotifyOnChange on the wrapper did not register the listener with the delegate")
				}
			}
			args := []int64{r.Pick(0, 1, int64(i)*1000), r.Pick(0, 0, 1, 999, 1_000_000, 1<<40, 1<<62), r.Pick(0, 0, 1, 7, 1<<31-1), B(r.Bool(25))}
			hist = append(hist, args)
			n, g := len(rec.calls), len(got)
			tl.OnSample(args[0], args[1], int(args[2]), args[3] != 0)
			rep.Evaluations++
			rep.Distinct("traced-sample", fmt.Sprint(args[1] == 0, args[2] == 0, args[3]))
			if len(rec.calls) != n+1 {
				fail("sample-not-forwarded", fmt.Sprintf("sample (start,rtt,inflight,drop)=%v reached the delegate %d times", args, len(rec.calls)-n))
				break
			}
			if fmt.Sprint(rec.calls[n]) != fmt.Sprint(args) {
				fail("sample-altered", fmt.Sprintf("sample %v reached the delegate as %v", args, rec.calls[n]))
			}
			if tl.EstimatedLimit() != rec.est {
				fail("wrapper-estimate", fmt.Sprintf("wrapper reports %d, its delegate %d", tl.EstimatedLimit(), rec.est))
			}
			if len(got) == g || got[len(got)-1] != rec.est {
				fail("missed-notification", "the delegate's estimate changed but the listener registered through the wrapper was not called with it")
			}
		}
	}
}

// two instances of the same algorithm side by side: each one's listeners hear that instance's changes and nothing else
func TestC16TwoInstances(t *testing.T) {
	rep := NewReport("C16two")
	defer rep.Write(t)
	mk := []struct {
		name string
		f    func() core.Limit
	}{
		{"aimd", func() core.Limit { return limit.NewAIMDLimit("a", 10, 0.9, 1, nil) }},
		{"vegas", func() core.Limit {
			return limit.NewVegasLimitWithRegistry("v", 10, nil, 200, 1.0, nil, nil, nil, nil, nil, 1<<20, nil, nil)
		}},
		{"gradient", func() core.Limit {
			return limit.NewGradientLimitWithRegistry("g", 10, 1, 200, 1.0, nil, 2.0, -1, nil, nil)
		}},
		{"gradient2", func() core.Limit {
			l, _ := limit.NewGradient2Limit("g2", 10, 200, 4, nil, 1.0, 100, nil, nil)
			return l
		}},
		{"settable", func() core.Limit { return limit.NewSettableLimit("s", 10, nil) }},
	}
	for _, k := range mk {
		for n := 1; n <= 3; n++ { // listeners per instance
			a, b := k.f(), k.f()
			var gotA, gotB [][]int
			for i := 0; i < n; i++ {
				i := i
				gotA, gotB = append(gotA, nil), append(gotB, nil)
				a.NotifyOnChange(func(v int) { gotA[i] = append(gotA[i], v) })
				b.NotifyOnChange(func(v int) { gotB[i] = append(gotB[i], v) })
			}
			drive := func(l core.Limit, step int) {
				if s, ok := l.(*limit.SettableLimit); ok {
					s.SetLimit(20 + step)
					return
				}
				l.OnSample(int64(step)*1000, 1_000_000, l.EstimatedLimit()+1, false)
			}
			fail := func(sig, d string) {
				rep.Violate(k.name+":"+sig, d, map[string]interface{}{"component": "two-instances", "limit": k.name, "listeners_each": n})
			}
			for step := 0; step < 6; step++ {
				before := a.EstimatedLimit()
				la, lb := len(gotA[0]), len(gotB[0])
				drive(a, step)
				rep.Evaluations++
				if len(gotB[0]) != lb {
					fail("foreign-notification", fmt.Sprintf("a sample on instance A called the listener registered on instance B with %v", gotB[0][lb:]))
				}
				if a.EstimatedLimit() != before {
					for i := 0; i < n; i++ {
						if len(gotA[i]) == 0 || gotA[i][len(gotA[i])-1] != a.EstimatedLimit() || (i == 0 && len(gotA[0]) == la) {
							fail("missed-notification", fmt.Sprintf("instance A moved %d -> %d, its listener %d of %d has received %v", before, a.EstimatedLimit(), i, n, gotA[i]))
						}
					}
				}
			}
			for step := 0; step < 4; step++ {
				before := b.EstimatedLimit()
				la := len(gotA[0])
				drive(b, step)
				rep.Evaluations++
				if len(gotA[0]) != la {
					fail("foreign-notification", fmt.Sprintf("a sample on instance B called the listener registered on instance A with %v", gotA[0][la:]))
				}
				if b.EstimatedLimit() != before {
					for i := 0; i < n; i++ {
						if len(gotB[i]) == 0 || gotB[i][len(gotB[i])-1] != b.EstimatedLimit() {
							fail("missed-notification", fmt.Sprintf("instance B moved %d -> %d, its listener %d of %d has received %v", before, b.EstimatedLimit(), i, n, gotB[i]))
						}
					}
				}
			}
			rep.Distinct("two-instances", fmt.Sprint(k.name, n, a.EstimatedLimit(), b.EstimatedLimit()))
		}
	}
}
