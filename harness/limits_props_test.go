package harness

import (
	"fmt"
	"math"
	"testing"
)

type pre struct {
	Est      int64
	EstF     float64
	NoLoad   int64
	Start    int64
	Rtt      int64
	Inflight int64
	Drop     bool
	Index    int
}

type caseCtx struct {
	Cfg     LimitCfg
	History [][]int64 // ops so far: [op, args...]
	rep     *Report
	prop    string
	state   map[string]float64
}

func (c *caseCtx) replay() map[string]interface{} {
	return map[string]interface{}{"component": "limit", "cfg": c.Cfg.Ints(), "ops": c.History}
}
func (c *caseCtx) violate(sig, detail string) {
	c.rep.Violate(sig, fmt.Sprintf("%s (limit=%s wrapper=%d cfg=%v, after %d ops)", detail, limitKindNames[c.Cfg.Kind], c.Cfg.Wrapper, c.Cfg.P, len(c.History)), c.replay())
}

type limitOracle func(c *caseCtx, l *LUT, p pre, o SampleObs)

// driveLimits runs nCases streams of nSamples samples for each (kind, wrapper), writing the trace for the model
// and evaluating the oracle after every sample.
func driveLimits(t *testing.T, prop string, kinds, wrappers []int, nCases, nSamples int, edgePct int, oracle limitOracle, extra func(c *caseCtx, l *LUT, tr *Trace, r *Rng, i int)) {
	tr := NewTrace(prop)
	rep := NewReport(prop)
	defer func() { tr.Close(); rep.Write(t) }()
	root := NewRng(Seed())
	for _, kind := range kinds {
		for _, wr := range wrappers {
			for ci := 0; ci < nCases; ci++ {
				r := root.Fork()
				cfg := GenLimitCfg(r, kind, wr)
				l, err := NewLUT(cfg)
				if err != nil {
					rep.Count("constructor-error")
					continue
				}
				c := &caseCtx{Cfg: l.Cfg, rep: rep, prop: prop, state: map[string]float64{}}
				tr.Case(30, l.Cfg.Ints()...)
				st := NewStream(r, l)
				st.EdgePct = edgePct
				if wr >= 2 {
					// under the windowed wrapper in-flight must exceed the window size for windows to close
					rep.Count("windowed-cases")
				}
				nl := r.Intn(3)
				for j := 0; j < nl; j++ {
					a, o := l.Notify()
					tr.Op(2, a, o)
					c.History = append(c.History, []int64{2})
				}
				for i := 0; i < nSamples && !l.Dead; i++ {
					if extra != nil {
						extra(c, l, tr, r, i)
					}
					start, rtt, inflight, drop := st.Next()
					if wr >= 2 && r.Bool(60) {
						inflight += l.Cfg.WSize + 1
					}
					p := pre{Est: int64(l.Outer.EstimatedLimit()), EstF: l.EstFloat(), NoLoad: l.NoLoad(), Start: start, Rtt: rtt, Inflight: inflight, Drop: drop, Index: i}
					o := l.OnSample(start, rtt, inflight, drop)
					tr.Op(1, o.Args, o.Obs)
					c.History = append(c.History, append([]int64{1}, o.Args...))
					rep.Evaluations++
					rep.Count(fmt.Sprintf("%s.w%d.samples", limitKindNames[kind], wr))
					if drop {
						rep.Count("drop-samples")
					}
					if rtt == 0 {
						rep.Count("zero-rtt-samples")
					}
					oracle(c, l, p, o)
				}
				tr.End()
				if ci == 0 && wr == 0 {
					h := c.History
					if len(h) > 6 {
						h = h[:6]
					}
					rep.Sample(map[string]interface{}{"limit": limitKindNames[kind], "cfg": l.Cfg.Ints(), "first_ops": h})
				}
			}
		}
	}
}

// ---------------- C04: finite in-bounds integer estimate, no panic ----------------
func TestC04(t *testing.T) {
	driveLimits(t, "C04", []int{0, 1, 2, 3}, []int{0, 1, 2, 3}, Scale(10, 120), Scale(150, 800), 6,
		func(c *caseCtx, l *LUT, p pre, o SampleObs) {
			name := limitKindNames[l.Cfg.Kind]
			if o.Panicked {
				c.violate(name+":panic", "OnSample panicked: "+o.PanicVal)
				return
			}
			lo := l.MinL
			if lo < 1 {
				lo = 1
			}
			hi := l.MaxL
			if l.Initial > hi {
				hi = l.Initial
			}
			if l.Cfg.Kind == 0 {
				hi = math.MaxInt64 // AIMD has no configured maximum in this port
			}
			if o.Est < lo {
				c.violate(name+":below-floor", fmt.Sprintf("EstimatedLimit()=%d below the floor %d", o.Est, lo))
			} else if o.Est > hi {
				c.violate(name+":above-ceiling", fmt.Sprintf("EstimatedLimit()=%d above the ceiling %d", o.Est, hi))
			}
			ef := l.EstFloat()
			if math.IsNaN(ef) || math.IsInf(ef, 0) {
				c.violate(name+":not-finite", "stored estimate is NaN or infinite")
			}
			if o.Est != p.Est {
				c.rep.Distinct("estimate-changed", fmt.Sprint(l.Cfg.Kind, l.Cfg.Wrapper, p.Est, o.Est, p.Drop))
			}
			if p.Rtt == 0 || p.Rtt >= 1<<53 || p.Inflight >= 1<<31-2 {
				c.rep.Distinct("edge-input", fmt.Sprint(l.Cfg.Kind, l.Cfg.Wrapper, p.Rtt, p.Inflight, p.Drop, p.Est))
			}
		}, nil)
}
