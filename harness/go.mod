module verifharness

go 1.25

require (
	github.com/platinummonkey/go-concurrency-limits v0.0.0
	github.com/rcrowley/go-metrics v0.0.0-20180503174638-e2704e165165
	google.golang.org/grpc v1.71.1
)

require (
	github.com/DataDog/datadog-go/v5 v5.6.0 // indirect
	golang.org/x/net v0.38.0 // indirect
	golang.org/x/sys v0.31.0 // indirect
	golang.org/x/text v0.23.0 // indirect
	google.golang.org/genproto/googleapis/rpc v0.0.0-20250115164207-1a7da9e5054f // indirect
	google.golang.org/protobuf v1.36.4 // indirect
)

replace github.com/platinummonkey/go-concurrency-limits => /repo
