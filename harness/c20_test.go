package harness

import (
	"context"
	"fmt"
	"net"
	"strings"
	"sync/atomic"
	"testing"
	"testing/synctest"
	"time"

	gometrics "github.com/rcrowley/go-metrics"

	"github.com/platinummonkey/go-concurrency-limits/core"
	"github.com/platinummonkey/go-concurrency-limits/limit"
	"github.com/platinummonkey/go-concurrency-limits/limiter"
	ddreg "github.com/platinummonkey/go-concurrency-limits/metric_registry/datadog"
	gmreg "github.com/platinummonkey/go-concurrency-limits/metric_registry/gometrics"
	"github.com/platinummonkey/go-concurrency-limits/strategy"
)

// ---------------- C20 (limits): every processed sample emits its RTT and in-flight once, the drop counter iff it was a drop ----------------
func TestC20(t *testing.T) {
	driveLimits(t, "C20", []int{0, 1, 2, 3, 4, 5}, []int{0, 1}, Scale(12, 150), Scale(120, 400), 5,
		func(c *caseCtx, l *LUT, p pre, o SampleObs) {
			if o.Panicked {
				return
			}
			name := limitKindNames[l.Cfg.Kind]
			var rtts, infs, drops []float64
			for _, e := range o.Emitted {
				switch e.Kind {
				case 1:
					rtts = append(rtts, fb(e.Bits))
				case 2:
					infs = append(infs, fb(e.Bits))
				case 3:
					drops = append(drops, fb(e.Bits))
				default:
					if e.Kind >= 50 {
						c.violate(name+":metric-kind", fmt.Sprintf("a metric was registered with the wrong kind (code %d)", e.Kind))
					}
				}
			}
			c.rep.Distinct("sample-emission", fmt.Sprint(l.Cfg.Kind, p.Rtt, p.Inflight, p.Drop))
			if len(rtts) != 1 || rtts[0] != float64(p.Rtt) {
				c.violate(name+":rtt-emission", fmt.Sprintf("sample rtt=%d emitted RTT samples %v", p.Rtt, rtts))
			}
			if len(infs) != 1 || infs[0] != float64(p.Inflight) {
				c.violate(name+":inflight-emission", fmt.Sprintf("sample in-flight=%d emitted in-flight samples %v", p.Inflight, infs))
			}
			if p.Drop != (len(drops) == 1 && drops[0] == 1) || len(drops) > 1 {
				c.violate(name+":drop-counter", fmt.Sprintf("didDrop=%v but drop counter increments %v", p.Drop, drops))
			}
			// the limit gauge reports the current estimate
			if sup, ok := l.Reg.Gauges["inner.limit"]; ok {
				if v, _ := sup(); int64(v) != o.Est {
					c.violate(name+":limit-gauge", fmt.Sprintf("limit gauge reports %v, EstimatedLimit() is %d", v, o.Est))
				}
			}
		}, nil)
}

// ---------------- C20 (strategies): in-flight samples equal the in-flight count at the admission decision, gauges report the enforced limit ----------------
func TestC20Strategies(t *testing.T) {
	bareOnly = map[string]bool{"inflight-sample": true, "partition-inflight-sample": true, "metric-kind": true, "limit-gauge": true}
	driveBare(t, "C20S", []int{1, 2, 3, 4}, Scale(120, 1500), Scale(60, 120))
}

// ---------------- C20 (registries): right backend metric kind and name; polls only between Start and Stop ----------------
type polledGauge struct{ n int64 }

func (g *polledGauge) supplier() core.MetricSupplier {
	return func() (float64, bool) { return float64(atomic.AddInt64(&g.n, 1)), true }
}

func TestC20Registry(t *testing.T) {
	tr := NewTrace("C20R")
	rep := NewReport("C20R")
	defer func() { tr.Close(); rep.Write(t) }()
	root := NewRng(Seed())
	// (a) forwarding: kind and prefixed name
	{
		r := gometrics.NewRegistry()
		mr, err := gmreg.NewGoMetricsMetricRegistry(r, "", "pfx", time.Second)
		if err != nil {
			t.Fatal(err)
		}
		mr.RegisterDistribution("d.inflight").AddSample(7)
		mr.RegisterTiming("d.rtt").AddSample(5)
		mr.RegisterCount("d.dropped").AddSample(1)
		mr.RegisterCount("d.dropped").AddSample(1)
		rep.Evaluations += 3
		rep.Distinct("forwarding", "gometrics")
		if h, ok := r.Get("pfx.d.inflight").(gometrics.Histogram); !ok || h.Count() != 1 || h.Max() != 7 {
			rep.Violate("gometrics:distribution-forwarding", "distribution sample not forwarded to a histogram named <prefix>.<id>", nil)
		}
		if tm, ok := r.Get("pfx.d.rtt").(gometrics.Timer); !ok || tm.Count() != 1 {
			rep.Violate("gometrics:timing-forwarding", "timing sample not forwarded to a timer named <prefix>.<id>", nil)
		}
		if c, ok := r.Get("pfx.d.dropped").(gometrics.Counter); !ok || c.Count() != 2 {
			rep.Violate("gometrics:count-forwarding", "count samples not forwarded to a counter named <prefix>.<id>", nil)
		}
		// a second adapter over the same backend and prefix (an adapter re-created after Stop, two components sharing one registry),
		// and a metric the application registered itself: samples still reach the backend metric of that name
		mr2, err := gmreg.NewGoMetricsMetricRegistry(r, "", "pfx", time.Second)
		if err != nil {
			t.Fatal(err)
		}
		mr2.RegisterDistribution("d.inflight").AddSample(9)
		mr2.RegisterTiming("d.rtt").AddSample(5)
		mr2.RegisterCount("d.dropped").AddSample(1)
		gometrics.GetOrRegisterCounter("pfx.app.dropped", r).Inc(10)
		mr2.RegisterCount("app.dropped").AddSample(1)
		rep.Evaluations += 4
		rep.Distinct("forwarding", "gometrics-shared-backend")
		if h, ok := r.Get("pfx.d.inflight").(gometrics.Histogram); !ok || h.Count() != 2 || h.Max() != 9 {
			rep.Violate("gometrics:distribution-forwarding:shared-backend", "second adapter over the same backend: its distribution sample did not reach the histogram named <prefix>.<id>", nil)
		}
		if tm, ok := r.Get("pfx.d.rtt").(gometrics.Timer); !ok || tm.Count() != 2 {
			rep.Violate("gometrics:timing-forwarding:shared-backend", "second adapter over the same backend: its timing sample did not reach the timer named <prefix>.<id>", nil)
		}
		if c, ok := r.Get("pfx.d.dropped").(gometrics.Counter); !ok || c.Count() != 3 {
			rep.Violate("gometrics:count-forwarding:shared-backend", "second adapter over the same backend: its count sample did not reach the counter named <prefix>.<id>", nil)
		}
		if c, ok := r.Get("pfx.app.dropped").(gometrics.Counter); !ok || c.Count() != 11 {
			rep.Violate("gometrics:count-forwarding:shared-backend", "a counter of that name already existed in the backend: the count sample did not reach it", nil)
		}
	}
	// (b) life cycle on a virtual clock, compared with the registry model (component 60)
	n := Scale(60, 1000)
	leaked := false
	for ci := 0; ci < n; ci++ {
		r := root.Fork()
		var hist [][]int64
		// the bubble runs in a goroutine of its own, under a real-time watchdog: a poller that outlives Stop keeps the bubble from ever ending
		bubbleDone := make(chan struct{})
		go func() {
			defer close(bubbleDone)
			synctest.Test(t, func(t *testing.T) {
				reg := gometrics.NewRegistry()
				mr, _ := gmreg.NewGoMetricsMetricRegistry(reg, "", "p", time.Second)
				tr.Case(60)
				var gauges []*polledGauge
				started := false
				total := func() int64 {
					s := int64(0)
					for _, g := range gauges {
						s += atomic.LoadInt64(&g.n)
					}
					return s
				}
				steps := 4 + r.Intn(14)
				for i := 0; i < steps; i++ {
					before := total()
					var op, arg int64
					switch k := r.Intn(12); {
					case k >= 10:
						// back-to-back life-cycle calls, nothing in between (not even a scheduling point): Start;Stop, Start;Start or Stop;Start.
						// Each call is reported to the model on its own; only the last one is followed by a settle.
						first, second := int64(1), int64(2)
						switch r.Intn(3) {
						case 1:
							second = 1
						case 2:
							first, second = 2, 1
						}
						call := func(o int64) {
							if o == 1 {
								mr.Start()
								started = true
							} else {
								mr.Stop()
								started = false
							}
						}
						call(first)
						pl := int64(0)
						if started {
							pl = 1
						}
						tr.Op(int(first), []int64{0}, []int64{0, pl})
						hist = append(hist, []int64{first, 0})
						rep.Evaluations++
						op = second
						call(second)
					case k < 3:
						op = 1
						mr.Start()
						started = true
					case k < 5:
						op = 2
						mr.Stop()
						started = false
					case k < 8:
						op, arg = 3, int64(1+r.Intn(4))
						// move strictly inside a period so that ticks and operations never coincide
						time.Sleep(time.Duration(arg) * time.Second)
					default:
						op, arg = 4, 1
						g := &polledGauge{}
						gauges = append(gauges, g)
						mr.RegisterGauge(fmt.Sprintf("g%d", len(gauges)), g.supplier())
					}
					synctest.Wait()
					polls := total() - before
					pollers := int64(0)
					if started {
						pollers = 1
					}
					tr.Op(int(op), []int64{arg}, []int64{polls, pollers})
					hist = append(hist, []int64{op, arg})
					rep.Evaluations++
					if op == 3 {
						rep.Distinct("tick", fmt.Sprint(started, len(gauges), arg))
						want := int64(0)
						if started {
							want = arg * int64(len(gauges))
						}
						if polls != want {
							sig := "gometrics:polls"
							if !started {
								sig = "gometrics:polls-while-stopped"
							} else if polls > want {
								sig = "gometrics:extra-pollers"
							}
							rep.Violate(sig, fmt.Sprintf("%d gauge polls in %d periods with %d gauges (started=%v), expected %d; history %v", polls, arg, len(gauges), started, want, hist), map[string]interface{}{"component": "gometrics-registry", "ops": hist})
						}
					} else if polls != 0 {
						rep.Violate("gometrics:polls-outside-tick", "gauges polled during Start/Stop/Register", map[string]interface{}{"ops": hist})
					}
				}
				tr.End()
				mr.Stop()
				synctest.Wait()
			})
		}()
		select {
		case <-bubbleDone:
		case <-time.After(20 * time.Second):
			rep.Violate("gometrics:poller-outlives-stop", fmt.Sprintf("after the final Stop a poller goroutine keeps running (the scenario never quiesces); history %v", hist), map[string]interface{}{"component": "gometrics-registry", "ops": hist})
			leaked = true
		}
		if leaked {
			break // the stray poller spins on the virtual clock: no further scenarios in this process
		}
	}
	// (c) datadog registry over a loopback UDP socket (real time; the dogstatsd client is outside the model)
	func() {
		pc, err := net.ListenPacket("udp", "127.0.0.1:0")
		if err != nil {
			rep.Notes = append(rep.Notes, "datadog: no loopback UDP socket available: "+err.Error())
			return
		}
		defer pc.Close()
		var gaugeLines, distLines int64
		go func() {
			buf := make([]byte, 65536)
			for {
				n, _, err := pc.ReadFrom(buf)
				if err != nil {
					return
				}
				for _, line := range strings.Split(string(buf[:n]), "\n") {
					if strings.HasPrefix(line, "vp.g1:") && strings.Contains(line, "|g") {
						atomic.AddInt64(&gaugeLines, 1)
					}
					if strings.HasPrefix(line, "vp.dist:") && strings.Contains(line, "|d") {
						atomic.AddInt64(&distLines, 1)
					}
				}
			}
		}()
		mr, err := ddreg.NewMetricRegistry(pc.LocalAddr().String(), "vp", 20*time.Millisecond)
		if err != nil {
			rep.Notes = append(rep.Notes, "datadog: client could not be created: "+err.Error())
			return
		}
		g := &polledGauge{}
		mr.RegisterGauge("g1", g.supplier())
		mr.RegisterDistribution("dist").AddSample(5)
		mr.Start()
		mr.Start()
		time.Sleep(400 * time.Millisecond)
		polled := atomic.LoadInt64(&g.n)
		mr.Stop()
		mr.Stop()
		after := atomic.LoadInt64(&g.n)
		time.Sleep(200 * time.Millisecond)
		late := atomic.LoadInt64(&g.n) - after
		rep.Evaluations += 3
		rep.Distinct("datadog-lifecycle", fmt.Sprint(polled > 0, late))
		if polled == 0 {
			rep.Violate("datadog:no-polls", "no gauge poll between Start and Stop", nil)
		}
		if polled > 30 { // one poller at 20 ms polls at most ~20 times in 400 ms; two pollers would double it
			rep.Violate("datadog:extra-pollers", fmt.Sprintf("%d polls in 400 ms at a 20 ms period: more than one poller", polled), nil)
		}
		if late != 0 {
			rep.Violate("datadog:polls-after-stop", fmt.Sprintf("%d gauge polls after Stop", late), nil)
		}
		// a registry that was stopped can be started again: the gauges are polled again, by one poller, until the next Stop
		base := atomic.LoadInt64(&g.n)
		mr.Start()
		time.Sleep(400 * time.Millisecond)
		again := atomic.LoadInt64(&g.n) - base
		mr.Stop()
		after2 := atomic.LoadInt64(&g.n)
		time.Sleep(200 * time.Millisecond)
		late2 := atomic.LoadInt64(&g.n) - after2
		rep.Evaluations += 3
		rep.Distinct("datadog-restart", fmt.Sprint(again > 0, late2))
		if again == 0 {
			rep.Violate("datadog:no-polls-after-restart", "Start, Stop, Start: no gauge poll in the 400 ms after the second Start (period 20 ms)", map[string]interface{}{"component": "datadog-registry"})
		}
		if again > 30 {
			rep.Violate("datadog:extra-pollers", fmt.Sprintf("%d polls in 400 ms at a 20 ms period after a restart: more than one poller", again), nil)
		}
		if late2 != 0 {
			rep.Violate("datadog:polls-after-stop", fmt.Sprintf("%d gauge polls after the second Stop", late2), nil)
		}
		// Stop terminates the poller whatever the poller is doing: with a slow gauge (each poll outlasts the period) Start/Stop cycles return promptly
		mr2, err2 := ddreg.NewMetricRegistry(pc.LocalAddr().String(), "vp2", time.Millisecond)
		if err2 == nil {
			mr2.RegisterGauge("slow", func() (float64, bool) { time.Sleep(3 * time.Millisecond); return 1, true })
			stuck := ""
			for cyc := 0; cyc < 6 && stuck == ""; cyc++ {
				done := make(chan struct{})
				go func() {
					mr2.Start()
					time.Sleep(10 * time.Millisecond)
					mr2.Stop()
					close(done)
				}()
				select {
				case <-done:
				case <-time.After(4 * time.Second):
					stuck = fmt.Sprintf("cycle %d: Start; 10 ms; Stop did not return within 4 s (gauge poll 3 ms, period 1 ms)", cyc)
				}
				rep.Evaluations++
			}
			rep.Distinct("datadog-stop-under-slow-poll", "")
			if stuck != "" {
				rep.Violate("datadog:stop-does-not-terminate", stuck, map[string]interface{}{"component": "datadog-registry"})
			}
		}
		time.Sleep(50 * time.Millisecond)
		if atomic.LoadInt64(&gaugeLines) == 0 || atomic.LoadInt64(&distLines) == 0 {
			rep.Notes = append(rep.Notes, fmt.Sprintf("datadog: statsd lines seen on loopback: gauge %d distribution %d", gaugeLines, distLines))
		}
	}()
}

// ---- metric names: every limit name (the empty one, one ending in a dot, dotted ones) yields its own prefixed identifiers ----
type idRegistry struct {
	ids   []string             // every identifier registered, in order
	vals  map[string][]float64 // samples per identifier
	gauge map[string]core.MetricSupplier
}
type idListener struct {
	r  *idRegistry
	id string
}

func (l idListener) AddSample(v float64, tags ...string) { l.r.vals[l.id] = append(l.r.vals[l.id], v) }
func (r *idRegistry) reg(id string) core.MetricSampleListener {
	r.ids = append(r.ids, id)
	return idListener{r, id}
}
func (r *idRegistry) RegisterDistribution(id string, tags ...string) core.MetricSampleListener {
	return r.reg(id)
}
func (r *idRegistry) RegisterTiming(id string, tags ...string) core.MetricSampleListener {
	return r.reg(id)
}
func (r *idRegistry) RegisterCount(id string, tags ...string) core.MetricSampleListener {
	return r.reg(id)
}
func (r *idRegistry) RegisterGauge(id string, s core.MetricSupplier, tags ...string) {
	r.ids = append(r.ids, id)
	if _, dup := r.gauge[id]; !dup {
		r.gauge[id] = s // the bundled registries keep the first gauge registered under an identifier
	}
}
func (r *idRegistry) Start() {}
func (r *idRegistry) Stop()  {}

func TestC20Names(t *testing.T) {
	rep := NewReport("C20names")
	defer rep.Write(t)
	for _, name := range []string{"", "svc", "svc.", "a.b", "default", "x"} {
		prefix := name + "."
		if name == "" {
			prefix = "default."
		} else if strings.HasSuffix(name, ".") {
			prefix = name
		}
		for kind := 0; kind < 5; kind++ {
			reg := &idRegistry{vals: map[string][]float64{}, gauge: map[string]core.MetricSupplier{}}
			st := strategy.NewSimpleStrategyWithMetricRegistry(7, reg)
			nStrat := len(reg.ids)
			stratIDs := map[string]bool{}
			for _, id := range reg.ids {
				stratIDs[id] = true
			}
			var l core.Limit
			switch kind {
			case 0:
				l = limit.NewAIMDLimit(name, 10, 0.9, 1, reg)
			case 1:
				l = limit.NewVegasLimitWithRegistry(name, 20, nil, 100, 1.0, nil, nil, nil, nil, nil, 30, nil, reg)
			case 2:
				l = limit.NewGradientLimitWithRegistry(name, 20, 1, 100, 0.2, nil, 2.0, -1, nil, reg)
			case 3:
				l, _ = limit.NewGradient2Limit(name, 20, 100, 4, nil, 0.2, 100, nil, reg)
			default:
				l = limit.NewSettableLimit(name, 10, reg)
			}
			kn := []string{"aimd", "vegas", "gradient", "gradient2", "settable"}[kind]
			fail := func(sig, d string) {
				rep.Violate(kn+":"+sig, fmt.Sprintf("%s (limit name %q)", d, name), map[string]interface{}{"component": "metric-names", "limit": kn, "name": name, "registered": reg.ids})
			}
			rep.Evaluations++
			rep.Distinct("named-limit", fmt.Sprint(kind, name))
			for _, id := range reg.ids[nStrat:] {
				if !strings.HasPrefix(id, prefix) || strings.Contains(id[len(prefix):], "..") || id[len(prefix):] == "" {
					fail("metric-id", fmt.Sprintf("metric registered as %q, expected the form %q + metric", id, prefix))
				}
				if stratIDs[id] {
					fail("metric-id-collision", fmt.Sprintf("the limit registers %q, the identifier the strategy on the same registry already uses", id))
				}
			}
			// one sample: RTT and in-flight once each under the limit's identifiers, the drop counter iff it was a drop; the strategy's stay its own
			if kind == 4 {
				continue
			}
			for i, drop := range []bool{false, true} {
				before := map[string]int{}
				for k, v := range reg.vals {
					before[k] = len(v)
				}
				l.OnSample(int64(i)*1000, 12345, 3, drop)
				got := func(id string) []float64 { return reg.vals[id][before[id]:] }
				if v := got(prefix + core.MetricRTT); len(v) != 1 || v[0] != 12345 {
					fail("rtt-emission", fmt.Sprintf("sample with RTT 12345: %q received %v", prefix+core.MetricRTT, v))
				}
				if v := got(prefix + core.MetricInFlight); len(v) != 1 || v[0] != 3 {
					fail("inflight-emission", fmt.Sprintf("sample with 3 in flight: %q received %v", prefix+core.MetricInFlight, v))
				}
				if v := got(prefix + core.MetricDropped); (len(v) == 1) != drop {
					fail("drop-emission", fmt.Sprintf("drop=%v: %q received %v", drop, prefix+core.MetricDropped, v))
				}
				if v := got(core.MetricInFlight); len(v) != 0 {
					fail("metric-id-collision", fmt.Sprintf("a limit sample was recorded under the strategy's %q: %v", core.MetricInFlight, v))
				}
			}
			if sup, ok := reg.gauge[prefix+core.MetricLimit]; !ok {
				fail("limit-gauge", fmt.Sprintf("no gauge %q", prefix+core.MetricLimit))
			} else if v, _ := sup(); int(v) != l.EstimatedLimit() {
				fail("limit-gauge", fmt.Sprintf("gauge %q reports %v, the limit estimates %d", prefix+core.MetricLimit, v, l.EstimatedLimit()))
			}
			if sup, ok := reg.gauge[core.MetricLimit]; ok {
				if v, _ := sup(); int(v) != st.GetLimit() {
					fail("limit-gauge", fmt.Sprintf("the strategy's gauge %q reports %v, the strategy enforces %d", core.MetricLimit, v, st.GetLimit()))
				}
			}
		}
	}
}

// the queue limiter's gauges: queue_limit reports the bound actually enforced (also when the configured size asked for the default),
// queue_size the callers waiting
func TestC20QueueGauges(t *testing.T) {
	rep := NewReport("C20queue")
	defer rep.Write(t)
	for _, raw := range []int{-3, 0, 1, 5} {
		for _, via := range []string{"config", "lifo"} {
			synctest.Test(t, func(t *testing.T) {
				reg := newRecRegistry()
				g, _ := newGated(1)
				var q *limiter.QueueBlockingLimiter
				if via == "config" {
					q = limiter.NewQueueBlockingLimiterFromConfig(g, limiter.QueueLimiterConfig{MaxBacklogSize: raw, MaxBacklogTimeout: time.Second, MetricRegistry: reg})
				} else {
					q = limiter.NewLifoBlockingLimiter(g, raw, time.Second, reg).QueueBlockingLimiter
				}
				enforced, _ := q.VerifBacklogConfig()
				rep.Evaluations++
				rep.Distinct("queue-gauges", fmt.Sprint(via, raw, enforced))
				found := false
				for k, sup := range reg.Gauges {
					if strings.HasPrefix(k, "queue_limit") {
						found = true
						if v, _ := sup(); uint64(v) != enforced || v < 0 {
							rep.Violate("queue:queue-limit-gauge", fmt.Sprintf("constructor %s with backlog size %d: gauge %s reports %v, the limiter enforces %d", via, raw, k, v, enforced), map[string]interface{}{"component": "queue-gauges", "via": via, "size": raw})
						}
					}
				}
				if !found {
					rep.Violate("queue:queue-limit-gauge", fmt.Sprintf("constructor %s: no queue_limit gauge registered", via), map[string]interface{}{"component": "queue-gauges", "via": via, "size": raw})
				}
				// one holder, two waiters: queue_size follows
				h, _ := q.Acquire(context.Background())
				for i := 0; i < 2 && uint64(i) < enforced; i++ {
					go q.Acquire(context.Background())
					synctest.Wait()
					for k, sup := range reg.Gauges {
						if strings.HasPrefix(k, "queue_size") {
							if v, _ := sup(); int(v) != i+1 {
								rep.Violate("queue:queue-size-gauge", fmt.Sprintf("%d callers waiting, gauge %s reports %v", i+1, k, v), map[string]interface{}{"component": "queue-gauges", "via": via, "size": raw})
							}
						}
					}
				}
				h.OnIgnore()
				time.Sleep(5 * time.Second)
				synctest.Wait()
			})
		}
	}
}
