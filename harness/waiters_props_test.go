package harness

import (
	"context"
	"errors"
	"fmt"
	"sync/atomic"
	"testing"
	"testing/synctest"
	"time"

	"github.com/platinummonkey/go-concurrency-limits/core"
	"github.com/platinummonkey/go-concurrency-limits/limiter"
	"github.com/platinummonkey/go-concurrency-limits/patterns/pool"
)

type wOracle func(rep *Report, w *WSUT, op wOp, before []int64, granted []int64, fail func(sig, d string))

func genWCfg(r *Rng, kinds []string) WCfg {
	via := kinds[r.Intn(len(kinds))]
	c := WCfg{Via: via, Limit: r.Pick(1, 1, 2, 3), Precise: r.Bool(50)}
	switch via {
	case "blocking":
		c.Kind, c.Timeout = 1, r.Pick(0, 0, 1_000_000, 7_000_000)
	case "deadline":
		c.Kind, c.Deadline = 2, r.Pick(5_000_000, 20_000_000, 100_000_000)
		if r.Bool(6) {
			c.Deadline = ZeroDeadline // built with the zero time.Time: a deadline long past, every call is refused at once
		} else if r.Bool(6) {
			c.Deadline = FarDeadline // "effectively never": blocked callers wait for a release or their own cancellation
		}
	case "with-defaults", "lifo-defaults":
		c.Kind, c.MaxB, c.Timeout, c.Fifo = 3, 100, 1_000_000_000, false
	case "fifo-defaults":
		c.Kind, c.MaxB, c.Timeout, c.Fifo = 3, 100, 1_000_000_000, true
	case "lifo":
		c.Kind, c.MaxB, c.Timeout, c.Fifo = 3, r.Pick(1, 2, 3, 5), r.Pick(3_000_000, 10_000_000, 50_000_000, 999_999, 700), false
	case "fifo":
		c.Kind, c.MaxB, c.Timeout, c.Fifo = 3, r.Pick(1, 2, 3, 5), r.Pick(3_000_000, 10_000_000, 50_000_000, 999_999, 700), true
	case "config-default-order":
		c.Kind, c.MaxB, c.Timeout, c.Fifo, c.Evict = 3, r.Pick(1, 2, 3, 5), r.Pick(3_000_000, 10_000_000, 50_000_000, 999_999, 700), false, r.Bool(50)
	case "config":
		// a negative backlog timeout means "no backlog timer": the only ways out of the backlog are a grant or (with eviction) a cancellation
		c.Kind, c.MaxB, c.Timeout, c.Fifo, c.Evict = 3, r.Pick(1, 2, 3, 5), r.Pick(-1, 3_000_000, 10_000_000, 50_000_000, 999_999, 700), r.Bool(50), r.Bool(50)
	}
	if (via == "config" || via == "config-default-order" || via == "lifo" || via == "fifo") && r.Bool(12) {
		// a non-positive backlog size asks for the default bound (100) - and for nothing else: ordering, timeout and eviction stay as configured
		c.RawB, c.MaxB = r.Pick(-1, -7), 100
	}
	if c.Kind == 3 && r.Bool(30) {
		c.Shared = true // e.g. a batch client that passes its own long-lived context to every call
	}
	switch via {
	case "pool", "fixedpool":
		switch r.Intn(3) {
		case 0:
			c.Kind, c.Timeout = 1, r.Pick(0, 2_000_000)
		default:
			c.Kind, c.MaxB, c.Timeout, c.Fifo = 3, r.Pick(2, 3, 5), r.Pick(10_000_000, 50_000_000), r.Bool(50)
			if r.Bool(10) {
				c.RawTO, c.Timeout = r.Pick(-1, -5_000_000), 1_000_000_000 // a negative timeout asks for the queue limiter's default of one second
			}
		}
		if via == "fixedpool" {
			c.Precise = true
		}
	}
	return c
}

func driveWaiters(t *testing.T, prop string, vias []string, nCases, steps int, oracle wOracle, bias func(r *Rng) []int) {
	tr := NewTrace(prop)
	rep := NewReport(prop)
	defer func() { tr.Close(); rep.Write(t) }()
	root := NewRng(Seed())
	for ci := 0; ci < nCases; ci++ {
		r := root.Fork()
		cfg := genWCfg(r, vias)
		weights := []int{8, 6, 2, 4, 1} // arrive, release, cancel, advance, set-limit
		if bias != nil {
			weights = bias(r)
		}
		var hist []wOp
		fail := func(sig, d string) {
			rep.Violate(wKindNames[cfg.Kind]+":"+sig, fmt.Sprintf("%s (via %s, cfg=%+v, after %d ops)", d, cfg.Via, cfg, len(hist)),
				map[string]interface{}{"component": "blocking-wrapper", "cfg": cfg, "ops": hist})
		}
		gen := func(w *WSUT, step int) *wOp {
			if cfg.Kind == 2 && len(w.Callers) < 14 {
				// the deadline limiter in its last millisecond: a caller arriving then still waits for the deadline (and takes a token released before it)
				if left := w.Absdl - nowNs(); left > 0 && left < 1_000_000 && r.Bool(60) {
					return &wOp{1, []int64{0}}
				}
			}
			for try := 0; try < 20; try++ {
				k := r.Intn(weights[0] + weights[1] + weights[2] + weights[3] + weights[4])
				switch {
				case k < weights[0]:
					if len(w.Callers) >= 14 {
						continue
					}
					return &wOp{1, []int64{B(r.Bool(8))}}
				case k < weights[0]+weights[1]:
					var hs []int
					for i, c := range w.Callers {
						if c.status == 1 {
							hs = append(hs, i)
						}
					}
					if len(hs) == 0 {
						continue
					}
					return &wOp{2, []int64{int64(hs[r.Intn(len(hs))]), r.Pick(0, 1, 2)}}
				case k < weights[0]+weights[1]+weights[2]:
					if len(w.Callers) == 0 || cfg.Shared {
						continue
					}
					return &wOp{3, []int64{int64(r.Intn(len(w.Callers)))}}
				case k < weights[0]+weights[1]+weights[2]+weights[3]:
					d := r.Pick(1, 1000, 500_000, 1_000_000, 3_000_000)
					// aim at timer instants: due-1, due, due+1
					if r.Bool(50) {
						for _, c := range w.Callers {
							if c.status == 0 && cfg.Timeout > 0 && cfg.Kind == 3 {
								if x := c.arrival + cfg.Timeout - nowNs(); x > -2 {
									d = x + r.Pick(-1, 0, 1)
								}
							}
						}
						if cfg.Kind == 2 && cfg.Deadline != FarDeadline {
							if x := w.Absdl - nowNs(); x > -2 {
								d = x + r.Pick(-1, 0, 1, -400_000, -900_000)
							}
						}
					}
					if d <= 0 {
						d = 1
					}
					return &wOp{4, []int64{d}}
				default:
					if w.Strat == nil {
						continue
					}
					return &wOp{5, []int64{r.Pick(1, 1, 2, 3, 4)}}
				}
			}
			return &wOp{4, []int64{1}}
		}
		after := func(w *WSUT, op wOp, before []int64, granted []int64) {
			hist = append(hist, op)
			rep.Evaluations++
			rep.Count(fmt.Sprintf("%s.op%d", wKindNames[cfg.Kind], op.Op))
			for _, c := range w.Callers {
				if c.status == -9 {
					fail("listener-iff-ok", "Acquire returned a listener without ok, or ok without a listener")
				}
			}
			oracle(rep, w, op, before, granted, fail)
		}
		if _, err := RunScenario(t, cfg, tr, gen, after, steps); err == ErrStuck {
			fail("scenario-does-not-come-to-rest", "two minutes after the last operation the limiter's goroutines have still not come to rest (a caller is spinning or stuck on a lock): no caller can be answered any more")
			tr.End()
			return // the stuck goroutines keep running: stop this driver here
		} else if errors.Is(err, ErrBlocked) {
			fail("callers-blocked-for-ever", fmt.Sprintf("the scenario cannot finish: %v (every holder has released and every context is cancelled, yet callers of the limiter are still blocked with no timer pending)", err))
			tr.End()
			return
		} else if err != nil {
			rep.Count("constructor-error")
		}
		if ci < 2 {
			h := hist
			if len(h) > 8 {
				h = h[:8]
			}
			rep.Sample(map[string]interface{}{"cfg": cfg, "first_ops": h})
		}
	}
}

func nowNs() int64 { return timeNow().UnixNano() }

var allVias = []string{"blocking", "deadline", "config", "config-default-order", "with-defaults", "lifo", "lifo-defaults", "fifo", "fifo-defaults", "pool", "fixedpool"}

// helpers over the observation vector [busy, nblocked, n, (status, t)*]
func obsStatus(o []int64, i int) (int64, int64) {
	if 3+2*i+1 < len(o) {
		return o[3+2*i], o[3+2*i+1]
	}
	return -1, 0
}
func obsN(o []int64) int { return int(o[2]) }

// conservation + bound checks shared by all scenario properties
func baseOracle(rep *Report, w *WSUT, op wOp, before []int64, granted []int64, fail func(sig, d string)) {
	holders := 0
	blockedN := 0
	for _, c := range w.Callers {
		if c.status == 1 {
			holders++
		}
		if c.status == 0 {
			blockedN++
		}
	}
	if b := w.busy(); b != holders {
		fail("busy-not-holders", fmt.Sprintf("delegate busy %d but %d callers hold a token", b, holders))
	}
	if w.Strat != nil && int64(holders) > 4 {
		fail("over-limit", fmt.Sprintf("%d holders, limit never above 4", holders))
	}
	if w.Queue != nil {
		if l := w.Queue.VerifBacklogLen(); l != blockedN {
			fail("backlog-not-exact", fmt.Sprintf("backlog holds %d entries but %d callers are blocked", l, blockedN))
		}
		if int64(blockedN) > w.Cfg.MaxB {
			fail("backlog-over-bound", fmt.Sprintf("%d callers blocked, backlog bound %d", blockedN, w.Cfg.MaxB))
		}
	}
}

// ---------------- C10: no lost wake-up at quiescent granularity ----------------
func TestC10(t *testing.T) {
	driveWaiters(t, "C10", allVias, Scale(250, 4000), Scale(40, 80), func(rep *Report, w *WSUT, op wOp, before []int64, granted []int64, fail func(sig, d string)) {
		baseOracle(rep, w, op, before, granted, fail)
		if op.Op != 2 {
			return
		}
		// after a release: if capacity was free for a waiter and callers were waiting, one of them must now hold a token
		limit := int64(0)
		if w.Strat != nil {
			limit = strategyLimit(w)
		} else {
			limit = w.Cfg.Limit
		}
		busyBefore, blockedBefore := before[0], before[1]
		if blockedBefore > 0 && busyBefore-1 < limit {
			rep.Distinct("release-with-waiters", fmt.Sprint(w.Cfg.Via, w.Cfg.Kind, w.Cfg.Fifo, busyBefore, limit, blockedBefore, len(granted)))
			if len(granted) == 0 {
				fail("stranded-after-release", fmt.Sprintf("a release freed capacity (%d/%d) with %d callers waiting, none was granted", busyBefore-1, limit, blockedBefore))
			}
		}
	}, nil)
}

func strategyLimit(w *WSUT) int64 {
	type lim interface{ GetLimit() int }
	if l, ok := w.Strat.(lim); ok {
		return int64(l.GetLimit())
	}
	return w.Cfg.Limit
}

// ---------------- C11: queue order, for every way of constructing the limiter ----------------
func TestC11(t *testing.T) {
	vias := []string{"config", "config-default-order", "with-defaults", "lifo", "lifo-defaults", "fifo", "fifo-defaults", "pool", "fixedpool"}
	driveWaiters(t, "C11", vias, Scale(300, 5000), Scale(40, 80), func(rep *Report, w *WSUT, op wOp, before []int64, granted []int64, fail func(sig, d string)) {
		baseOracle(rep, w, op, before, granted, fail)
		if w.Cfg.Kind != 3 {
			return
		}
		if w.Queue != nil {
			want := "lifo"
			if w.Cfg.Fifo {
				want = "fifo"
			}
			if got := string(w.Queue.VerifOrdering()); got != want {
				fail("constructor-ordering", fmt.Sprintf("constructor %s installs ordering %q, its name/documentation says %q", w.Cfg.Via, got, want))
			}
		}
		if op.Op == 2 && len(granted) == 0 && before[1] > 0 && before[0]-1 < strategyLimitOr(w) {
			// the capacity a completion frees goes to the head of the backlog first, whatever the completion's outcome:
			// otherwise the next arrival overtakes everybody who is waiting
			fail("release-served-nobody", fmt.Sprintf("a completion (outcome %d) freed capacity (%d/%d) with %d callers in the backlog and none was served", op.Args[1], before[0]-1, strategyLimitOr(w), before[1]))
		}
		if op.Op != 2 || len(granted) == 0 {
			return
		}
		// the served caller must be the oldest (FIFO) / newest (LIFO) among those still waiting before the release
		var waiting []int
		for i := 0; i < obsN(before); i++ {
			if st, _ := obsStatus(before, i); st == 0 {
				waiting = append(waiting, i)
			}
		}
		if len(waiting) < 2 {
			return
		}
		want := waiting[len(waiting)-1]
		if w.Cfg.Fifo {
			want = waiting[0]
		}
		rep.Distinct("ordered-grant", fmt.Sprint(w.Cfg.Via, w.Cfg.Fifo, waiting, granted))
		if len(granted) != 1 || int(granted[0]) != want {
			fail("wrong-order", fmt.Sprintf("waiting callers %v (arrival order), ordering fifo=%v: caller %v was served, expected %d", waiting, w.Cfg.Fifo, granted, want))
		}
	}, func(r *Rng) []int { return []int{9, 5, 2, 3, 0} })
}

// ---------------- C12: backlog bounded and exact ----------------
func TestC12(t *testing.T) {
	vias := []string{"config", "config-default-order", "lifo", "fifo", "pool"}
	driveWaiters(t, "C12", vias, Scale(300, 5000), Scale(45, 90), func(rep *Report, w *WSUT, op wOp, before []int64, granted []int64, fail func(sig, d string)) {
		baseOracle(rep, w, op, before, granted, fail)
		if w.Cfg.Kind != 3 {
			return
		}
		if op.Op == 1 {
			i := len(w.Callers) - 1
			c := w.Callers[i]
			if op.Args[0] == 0 && before[0] < strategyLimitOr(w) {
				// a token is free: the caller gets it at once, however full the backlog is (the bound is about callers that would have to wait)
				rep.Distinct("arrival-with-token-free", fmt.Sprint(w.Cfg.Via, before[0], before[1] >= w.Cfg.MaxB))
				if c.status != 1 || c.t != c.arrival {
					fail("refused-with-capacity-free", fmt.Sprintf("arrival with %d/%d tokens held and %d callers in the backlog (bound %d): status %d at +%d ns", before[0], strategyLimitOr(w), before[1], w.Cfg.MaxB, c.status, c.t-c.arrival))
				}
			}
			if before[1] >= w.Cfg.MaxB && before[0] >= strategyLimitOr(w) {
				rep.Distinct("arrival-at-full-backlog", fmt.Sprint(w.Cfg.Via, w.Cfg.MaxB, before[0], before[1]))
				if c.status != 2 || c.t != c.arrival {
					fail("full-backlog-not-refused", fmt.Sprintf("arrival with %d callers already blocked (bound %d): status %d at +%d ns", before[1], w.Cfg.MaxB, c.status, c.t-c.arrival))
				}
			}
		}
		if st := atomic.LoadInt64(&w.Stale); st > 0 {
			fail("backlog-not-exact:entry-outlives-return", fmt.Sprintf("when an Acquire returned the backlog held %d entries more than there were callers still inside Acquire", st))
		}
		// the bound in force is the configured one (the default 100 for a non-positive size)
		if w.Queue != nil {
			if mb, _ := w.Queue.VerifBacklogConfig(); int64(mb) != w.Cfg.MaxB {
				fail("constructor-bound", fmt.Sprintf("constructor %s (backlog size argument %d) installs the bound %d, expected %d", w.Cfg.Via, w.Cfg.RawB, mb, w.Cfg.MaxB))
			}
		}
		// the reported queue size equals the number of blocked callers
		if sup, ok := w.Reg.Gauges["queue_size"]; ok {
			v, _ := sup()
			nb := int64(0)
			for _, c := range w.Callers {
				if c.status == 0 {
					nb++
				}
			}
			if int64(v) != nb {
				fail("queue-size-gauge", fmt.Sprintf("queue_size gauge reports %v, %d callers are blocked", v, nb))
			}
		} else {
			for k, sup := range w.Reg.Gauges {
				if len(k) >= 10 && k[:10] == "queue_size" {
					v, _ := sup()
					nb := int64(0)
					for _, c := range w.Callers {
						if c.status == 0 {
							nb++
						}
					}
					if int64(v) != nb {
						fail("queue-size-gauge", fmt.Sprintf("queue_size gauge reports %v, %d callers are blocked", v, nb))
					}
				}
			}
		}
	}, func(r *Rng) []int { return []int{10, 4, 3, 4, 1} })
}

func strategyLimitOr(w *WSUT) int64 {
	if w.Strat != nil {
		return strategyLimit(w)
	}
	return w.Cfg.Limit
}

// ---------------- C13: timeouts, deadlines and cancellation bound every blocked Acquire ----------------
func TestC13(t *testing.T) {
	cancelledAt := map[*wCaller]int64{}
	driveWaiters(t, "C13", allVias, Scale(300, 5000), Scale(45, 90), func(rep *Report, w *WSUT, op wOp, before []int64, granted []int64, fail func(sig, d string)) {
		baseOracle(rep, w, op, before, granted, fail)
		now := nowNs()
		if op.Op == 3 {
			c := w.Callers[op.Args[0]]
			if _, ok := cancelledAt[c]; !ok {
				cancelledAt[c] = now
			}
		}
		if op.Op == 1 && op.Args[0] == 0 && w.Cfg.Kind == 2 {
			// a live caller arriving strictly before the deadline is never refused on the spot: it waits (or is served)
			c := w.Callers[len(w.Callers)-1]
			if c.arrival < w.Absdl {
				rep.Distinct("arrival-before-deadline", fmt.Sprint(w.Absdl-c.arrival < 1_000_000, before[0]))
				if c.status == 2 && c.t < w.Absdl {
					fail("refused-early", fmt.Sprintf("caller arriving %d ns before the deadline was refused at once (busy %d)", w.Absdl-c.arrival, before[0]))
				}
			}
		}
		if op.Op == 1 && w.Cfg.Kind == 2 {
			// a call made after the deadline is refused at once and consumes nothing (a limiter built with the zero time included)
			c := w.Callers[len(w.Callers)-1]
			if c.arrival > w.Absdl {
				rep.Distinct("arrival-after-deadline", fmt.Sprint(w.Cfg.Deadline == ZeroDeadline, before[0]))
				if c.status != 2 || c.t != c.arrival || int64(w.busy()) != before[0] {
					fail("not-refused-after-deadline", fmt.Sprintf("Acquire %d ns after the deadline: status %d at +%d ns, busy %d -> %d", c.arrival-w.Absdl, c.status, c.t-c.arrival, before[0], w.busy()))
				}
			}
		}
		if op.Op == 1 && op.Args[0] != 0 {
			c := w.Callers[len(w.Callers)-1]
			cancelledAt[c] = c.arrival
			if w.Cfg.Kind != 3 {
				rep.Distinct("already-cancelled", fmt.Sprint(w.Cfg.Via, before[0]))
				if c.status != 2 || int64(w.busy()) != before[0] {
					fail("cancelled-ctx-not-refused", fmt.Sprintf("Acquire with an already cancelled context: status %d, busy %d -> %d", c.status, before[0], w.busy()))
				}
			}
		}
		for i, c := range w.Callers {
			stB, _ := obsStatus(before, i)
			if i >= obsN(before) {
				stB = 0
			}
			if c.status == 2 && stB == 0 && c.t != c.arrival { // refused during this operation after having been blocked
				rep.Distinct("bounded-refusal", fmt.Sprint(w.Cfg.Via, w.Cfg.Kind, c.t-c.arrival, op.Op))
				var bound int64 = -1
				switch w.Cfg.Kind {
				case 3:
					if w.Cfg.Timeout > 0 {
						bound = c.arrival + w.Cfg.Timeout
					}
					if ca, ok := cancelledAt[c]; ok && w.Cfg.Evict && (bound < 0 || ca < bound) {
						bound = ca
					}
				case 2:
					bound = w.Absdl
					if ca, ok := cancelledAt[c]; ok && ca < bound {
						bound = ca
					}
				case 1:
					if ca, ok := cancelledAt[c]; ok {
						bound = ca
					}
				}
				if c.t != bound {
					cls := "refused-late"
					if c.t < bound || bound < 0 {
						cls = "refused-early"
					}
					fail(cls, fmt.Sprintf("caller %d blocked at %d was refused at +%d ns, its bound is +%d ns", i, c.arrival-w.Now0, c.t-c.arrival, bound-c.arrival))
				}
			}
			// still blocked past its bound?
			if c.status == 0 {
				var bound int64 = -1
				switch w.Cfg.Kind {
				case 3:
					if w.Cfg.Timeout > 0 {
						bound = c.arrival + w.Cfg.Timeout
					}
					if ca, ok := cancelledAt[c]; ok && w.Cfg.Evict && (bound < 0 || ca < bound) {
						bound = ca
					}
				case 2:
					bound = w.Absdl
					if ca, ok := cancelledAt[c]; ok && ca < bound {
						bound = ca
					}
				case 1:
					if ca, ok := cancelledAt[c]; ok {
						bound = ca
					}
				}
				if bound >= 0 && now > bound {
					fail("blocked-past-bound", fmt.Sprintf("caller %d still blocked at +%d ns, its bound was +%d ns", i, now-c.arrival, bound-c.arrival))
				} else if bound >= 0 && now == bound {
					fail("blocked-at-bound", fmt.Sprintf("caller %d still blocked at its bound +%d ns", i, bound-c.arrival))
				}
			}
		}
	}, func(r *Rng) []int { return []int{8, 3, 4, 8, 1} })
}

// ---------------- C19: pools never over the limit, every queued caller eventually served ----------------
func TestC19(t *testing.T) {
	tr := NewTrace("C19")
	rep := NewReport("C19")
	defer func() { tr.Close(); rep.Write(t) }()
	root := NewRng(Seed())
	n := Scale(150, 2500)
	for ci := 0; ci < n; ci++ {
		r := root.Fork()
		cfg := genWCfg(r, []string{"pool", "fixedpool"})
		cfg.Limit = r.Pick(1, 2, 3)
		if cfg.Kind == 3 {
			cfg.Timeout = 1_000_000_000
		}
		extra := int64(1 + r.Intn(4))
		if cfg.Kind == 3 && extra > cfg.MaxB {
			extra = cfg.MaxB
		}
		total := int(cfg.Limit + extra)
		var hist []wOp
		fail := func(sig, d string) {
			rep.Violate("pool:"+sig, fmt.Sprintf("%s (via %s, cfg=%+v, after %d ops)", d, cfg.Via, cfg, len(hist)), map[string]interface{}{"component": "pool", "cfg": cfg, "ops": hist})
		}
		phase := 0
		cancelledOne, cancelledIdx := false, -1
		wave, waveLeft := 0, int(extra)
		if r.Bool(30) {
			wave = 1
		}
		gen := func(w *WSUT, step int) *wOp {
			if len(w.Callers) < total {
				if r.Bool(30) {
					return &wOp{4, []int64{r.Pick(1, 1000, 100_000)}} // callers arrive at different instants
				}
				return &wOp{1, []int64{0}}
			}
			// in some scenarios the queued callers time out (the holders are slow), and a second wave arrives afterwards: the callers of the
			// second wave must not find the places of the first one still taken
			if wave == 1 && cfg.Kind == 3 {
				wave = 2
				return &wOp{4, []int64{cfg.Timeout + r.Pick(1, 1000, 50_000_000)}}
			}
			if wave == 2 {
				if waveLeft > 0 {
					waveLeft--
					total++
					return &wOp{1, []int64{0}}
				}
				wave = 3
			}
			// now and then a queued caller's context is cancelled while it waits (pools do not evict on cancellation: it keeps its place
			// and must not get in the way of the callers behind it)
			if !cancelledOne && r.Bool(35) {
				cancelledOne = true
				var bs []int
				for i, c := range w.Callers {
					if c.status == 0 {
						bs = append(bs, i)
					}
				}
				if len(bs) > 0 {
					cancelledIdx = bs[r.Intn(len(bs))]
					return &wOp{3, []int64{int64(cancelledIdx)}}
				}
			}
			// holders release one at a time, oldest grant first or random; hold times random
			var hs []int
			for i, c := range w.Callers {
				if c.status == 1 {
					hs = append(hs, i)
				}
			}
			if len(hs) == 0 {
				return nil
			}
			phase++
			if phase%2 == 1 {
				return &wOp{4, []int64{r.Pick(1, 5000, 1_000_000)}}
			}
			return &wOp{2, []int64{int64(hs[r.Intn(len(hs))]), r.Pick(0, 1, 2)}}
		}
		var final *WSUT
		after := func(w *WSUT, op wOp, before []int64, granted []int64) {
			hist = append(hist, op)
			rep.Evaluations++
			final = w
			holders := int64(0)
			for _, c := range w.Callers {
				if c.status == 1 {
					holders++
				}
			}
			if holders > cfg.Limit {
				fail("over-limit", fmt.Sprintf("%d tokens held at once, pool limit %d", holders, cfg.Limit))
			}
			if w.Strat != nil && int64(w.busy()) != holders {
				fail("busy-not-holders", fmt.Sprintf("the pool's limiter counts %d tokens out, %d callers hold one", w.busy(), holders))
			}
			// settled: a token is never left free while a caller (other than the one whose context was cancelled) is waiting for it
			if holders < cfg.Limit && (w.Strat == nil || int64(w.busy()) < cfg.Limit) {
				for i, c := range w.Callers {
					if c.status == 0 && i != cancelledIdx {
						fail("token-free-while-waiting", fmt.Sprintf("%d of %d tokens are held and caller %d is still waiting (nothing in progress)", holders, cfg.Limit, i))
						break
					}
				}
			}
		}
		if _, err := RunScenario(t, cfg, tr, gen, after, 200); err == ErrStuck {
			fail("scenario-does-not-come-to-rest", "two minutes after the last operation the pool's goroutines have still not come to rest (a caller is spinning or stuck on a lock)")
			tr.End()
			return
		} else if errors.Is(err, ErrBlocked) {
			fail("callers-blocked-for-ever", fmt.Sprintf("the scenario cannot finish: %v", err))
			tr.End()
			return
		} else if err != nil {
			rep.Count("constructor-error")
			continue
		}
		if final != nil {
			served := 0
			for i, c := range final.Callers {
				// (a caller of the random-order pool whose context was cancelled while it waited is refused at that moment: it left by its own doing)
				timedOut := c.status == 2 && cfg.Kind == 3 && cfg.Timeout > 0 && c.t == c.arrival+cfg.Timeout // waited its full backlog timeout
				if c.status == 3 || (c.status == 2 && cfg.Kind == 1 && i == cancelledIdx) || timedOut {
					served++
				}
			}
			rep.Distinct("pool-run", fmt.Sprint(cfg.Via, cfg.Kind, cfg.Fifo, cfg.Limit, total, len(hist)))
			if served != total {
				fail("caller-not-served", fmt.Sprintf("%d callers (limit %d + %d queued) arrived, only %d were served as holders released", total, cfg.Limit, extra, served))
			}
		}
		if ci < 2 {
			rep.Sample(map[string]interface{}{"cfg": cfg, "callers": total, "ops": len(hist)})
		}
	}
}

// ---------------- C19 (sustained traffic): a pool keeps serving across sample-window roll-overs ----------------
// Real time (a frozen limiter is a goroutine stuck on a mutex, which a bubble cannot wait out): one caller at a time takes a slot,
// holds it briefly and completes it successfully, often enough for the limiter underneath to close several sample windows.
func TestC19Sustained(t *testing.T) {
	rep := NewReport("C19sustained")
	defer rep.Write(t)
	for _, po := range []pool.Ordering{pool.OrderingFIFO, pool.OrderingLIFO, pool.OrderingRandom} {
		p, err := pool.NewFixedPool("p", po, 2, 10, time.Millisecond, time.Millisecond, 0, 5, time.Second, nil, nil)
		if err != nil {
			t.Fatal(err)
		}
		frozen := ""
		for i := 0; i < 80 && frozen == ""; i++ {
			step := make(chan string, 1)
			go func() {
				ls, ok := p.Acquire(context.Background())
				if !ok {
					step <- "refused"
					return
				}
				time.Sleep(100 * time.Microsecond)
				ls.OnSuccess()
				step <- "ok"
			}()
			select {
			case r := <-step:
				if r != "ok" {
					frozen = fmt.Sprintf("cycle %d: an idle pool of 2 refused the only caller", i)
				}
			case <-time.After(3 * time.Second):
				frozen = fmt.Sprintf("cycle %d: acquire/complete on an idle pool of 2 did not return within 3 s", i)
			}
			rep.Evaluations++
		}
		rep.Distinct("sustained", fmt.Sprint(po))
		if frozen != "" {
			rep.Violate("pool:frozen", frozen+fmt.Sprintf(" (ordering %v, window size 10, window 1 ms)", po), map[string]interface{}{"component": "pool", "ordering": fmt.Sprint(po)})
		}
	}
}

// C13: a caller's own context deadline.  The queue limiter's bound is its backlog timeout; a context deadline (earlier, later or already
// past) changes nothing unless cancellation eviction is enabled, in which case the caller leaves when its context is done.
func TestC13CtxDeadline(t *testing.T) {
	rep := NewReport("C13ctx")
	defer rep.Write(t)
	type sc struct {
		evict   bool
		timeout time.Duration // backlog timeout
		ctxIn   time.Duration // context deadline relative to arrival (negative: already past)
		want    time.Duration // expected instant of the refusal relative to arrival
	}
	cases := []sc{
		{false, time.Second, 300 * time.Millisecond, time.Second},
		{false, time.Second, -time.Millisecond, time.Second},
		{false, time.Second, 5 * time.Second, time.Second},
		{false, 20 * time.Millisecond, time.Millisecond, 20 * time.Millisecond},
		{true, time.Second, 300 * time.Millisecond, 300 * time.Millisecond},
		{true, time.Second, 5 * time.Second, time.Second},
		{true, time.Second, -time.Millisecond, 0},
	}
	for _, via := range []string{"config", "lifo", "fifo"} {
		for _, c := range cases {
			if c.evict && via != "config" {
				continue
			}
			synctest.Test(t, func(t *testing.T) {
				g, st := newGated(1)
				var q core.Limiter
				switch via {
				case "config":
					q = limiter.NewQueueBlockingLimiterFromConfig(g, limiter.QueueLimiterConfig{MaxBacklogSize: 3, MaxBacklogTimeout: c.timeout, BacklogEvictDoneCtx: c.evict})
				case "lifo":
					q = limiter.NewLifoBlockingLimiter(g, 3, c.timeout, nil)
				default:
					q = limiter.NewFifoBlockingLimiter(g, 3, c.timeout)
				}
				holder, _ := q.Acquire(context.Background())
				ctx, cancel := context.WithDeadline(context.Background(), time.Now().Add(c.ctxIn))
				defer cancel()
				t0 := time.Now()
				type ans struct {
					ok bool
					at time.Duration
				}
				done := make(chan ans, 1)
				go func() { _, ok := q.Acquire(ctx); done <- ans{ok, time.Since(t0)} }()
				var a ans
				select {
				case a = <-done:
				case <-time.After(time.Hour):
					a = ans{false, -1}
				}
				rep.Evaluations++
				rep.Distinct("ctx-deadline", fmt.Sprint(via, c.evict, c.timeout, c.ctxIn))
				rp := map[string]interface{}{"component": "queue-context-deadline", "via": via, "evict": c.evict, "backlog_timeout_ns": int64(c.timeout), "ctx_deadline_ns": int64(c.ctxIn)}
				switch {
				case a.at < 0:
					rep.Violate("queue:blocked-past-bound:context-deadline", fmt.Sprintf("via %s, eviction %v, backlog timeout %v, context deadline at %+v: the caller is still blocked an hour later", via, c.evict, c.timeout, c.ctxIn), rp)
				case a.ok:
					rep.Violate("queue:granted-without-capacity", "a caller was granted although the only token was held throughout", rp)
				case a.at < c.want:
					rep.Violate("queue:refused-early:context-deadline", fmt.Sprintf("via %s, eviction %v, backlog timeout %v, context deadline at %+v: refused after %v, its bound is %v", via, c.evict, c.timeout, c.ctxIn, a.at, c.want), rp)
				case a.at > c.want:
					rep.Violate("queue:blocked-past-bound:context-deadline", fmt.Sprintf("via %s, eviction %v, backlog timeout %v, context deadline at %+v: refused after %v, its bound is %v", via, c.evict, c.timeout, c.ctxIn, a.at, c.want), rp)
				}
				if b := st.GetBusyCount(); b != 1 {
					rep.Violate("queue:token-count:context-deadline", fmt.Sprintf("one holder, busy %d", b), rp)
				}
				holder.OnIgnore()
				time.Sleep(2 * time.Hour)
				synctest.Wait()
			})
		}
	}
}
