package harness

import (
	"context"
	"fmt"
	"time"

	"github.com/platinummonkey/go-concurrency-limits/core"
	"github.com/platinummonkey/go-concurrency-limits/limiter"
	"github.com/platinummonkey/go-concurrency-limits/strategy"
	"github.com/platinummonkey/go-concurrency-limits/strategy/matchers"
)

type PartSpec struct {
	Key int64
	Pct float64
}
type StratCfg struct {
	Kind  int // 1 simple 2 precise 3 lookup 4 predicate
	Total int64
	Parts []PartSpec
}

func (c StratCfg) Ints() []int64 {
	out := []int64{int64(c.Kind), c.Total, int64(len(c.Parts))}
	for _, p := range c.Parts {
		out = append(out, p.Key, FBits(p.Pct))
	}
	return out
}

var stratNames = []string{"", "simple", "precise", "lookup", "predicate"}

type liveBin struct {
	key  int64
	pct  float64
	pred *strategy.PredicatePartition
	id   int // harness-side identity of the partition object
}

// SUT: a strategy under test plus the harness-side mirror of which partitions are live, in registration order
type SUT struct {
	Cfg       StratCfg
	Strat     core.Strategy
	Reg       *recRegistry
	simple    *strategy.SimpleStrategy
	precise   *strategy.PreciseStrategy
	lookup    *strategy.LookupPartitionStrategy
	predicate *strategy.PredicatePartitionStrategy
	Live      []liveBin
	nextID    int
}

// partition names: key 3 is the empty name (a legal map key and predicate value like any other)
func keyName(k int64) string {
	if k == 3 {
		return ""
	}
	return fmt.Sprintf("p%d", k)
}

// predicate partitions: key 2 matches "batches" case-insensitively and its requests carry "BATCHES"; key 7 is never a partition and its
// requests carry "batcheſ" (long s: equal to "batches" under Unicode case folding, not under lower-casing - it matches nothing)
func predMatcher(key int64) func(context.Context) bool {
	if key == 2 {
		return matchers.StringPredicateMatcher("batches", true)
	}
	return matchers.StringPredicateMatcher(keyName(key), false)
}
func predValue(key int64) string {
	switch key {
	case 2:
		return "BATCHES"
	case 7:
		return "batche\u017f"
	}
	return keyName(key)
}

func NewSUT(c StratCfg) (*SUT, error) {
	s := &SUT{Cfg: c, Reg: newRecRegistry()}
	switch c.Kind {
	case 1:
		s.simple = strategy.NewSimpleStrategyWithMetricRegistry(int(c.Total), s.Reg)
		s.Strat = s.simple
	case 2:
		s.precise = strategy.NewPreciseStrategyWithMetricRegistry(int(c.Total), s.Reg)
		s.Strat = s.precise
	case 3:
		parts := map[string]*strategy.LookupPartition{}
		for _, p := range c.Parts {
			// (built with the total as its own limit: the strategy replaces it by the share)
			parts[keyName(p.Key)] = strategy.NewLookupPartitionWithMetricRegistry(keyName(p.Key), p.Pct, int32(c.Total), s.Reg)
			s.Live = append(s.Live, liveBin{key: p.Key, pct: p.Pct, id: s.nextID})
			s.nextID++
		}
		l, err := strategy.NewLookupPartitionStrategyWithMetricRegistry(parts, nil, int32(c.Total), s.Reg)
		if err != nil {
			return nil, err
		}
		s.lookup, s.Strat = l, l
	default:
		var parts []*strategy.PredicatePartition
		for _, p := range c.Parts {
			pp := strategy.NewPredicatePartitionWithMetricRegistry(keyName(p.Key), p.Pct, predMatcher(p.Key), s.Reg)
			parts = append(parts, pp)
			s.Live = append(s.Live, liveBin{key: p.Key, pct: p.Pct, pred: pp, id: s.nextID})
			s.nextID++
		}
		l, err := strategy.NewPredicatePartitionStrategyWithMetricRegistry(parts, int32(c.Total), s.Reg)
		if err != nil {
			return nil, err
		}
		s.predicate, s.Strat = l, l
	}
	return s, nil
}

func (s *SUT) Ctx(key int64) context.Context {
	switch s.Cfg.Kind {
	case 3:
		return context.WithValue(context.Background(), matchers.LookupPartitionContextKey, keyName(key))
	case 4:
		return context.WithValue(context.Background(), matchers.StringPredicateContextKey, predValue(key))
	}
	return context.Background()
}

func (s *SUT) Busy() int64 {
	switch s.Cfg.Kind {
	case 1:
		return int64(s.simple.GetBusyCount())
	case 2:
		return int64(s.precise.GetBusyCount())
	case 3:
		return int64(s.lookup.BusyCount())
	}
	return int64(s.predicate.BusyCount())
}
func (s *SUT) Limit() int64 {
	switch s.Cfg.Kind {
	case 1:
		return int64(s.simple.GetLimit())
	case 2:
		return int64(s.precise.GetLimit())
	case 3:
		return int64(s.lookup.Limit())
	}
	return int64(s.predicate.Limit())
}

// Bins returns (busy, limit) of every live bin in registration order.
func (s *SUT) Bins() [][2]int64 {
	var out [][2]int64
	for i, b := range s.Live {
		switch s.Cfg.Kind {
		case 3:
			bc, _ := s.lookup.BinBusyCount(keyName(b.key))
			bl, _ := s.lookup.BinLimit(keyName(b.key))
			out = append(out, [2]int64{int64(bc), int64(bl)})
		case 4:
			bc, _ := s.predicate.BinBusyCount(i)
			bl, _ := s.predicate.BinLimit(i)
			out = append(out, [2]int64{int64(bc), int64(bl)})
		}
	}
	return out
}
func (s *SUT) State() []int64 {
	bins := s.Bins()
	out := []int64{s.Busy(), s.Limit(), int64(len(bins))}
	for _, b := range bins {
		out = append(out, b[0], b[1])
	}
	return out
}

// firstLive: index of the first live bin matching the key (the one the strategy must charge), or -1
func (s *SUT) firstLive(key int64) int {
	for i, b := range s.Live {
		if b.key == key {
			return i
		}
	}
	return -1
}

func (s *SUT) AddPartition(key int64, pct float64) bool {
	switch s.Cfg.Kind {
	case 3:
		// the partition's own name need not be the key it is registered under; it is built with the current total as its own limit
		ok := s.lookup.AddPartition(keyName(key), strategy.NewLookupPartitionWithMetricRegistry("added-"+keyName(key), pct, int32(s.Limit()), s.Reg))
		if ok {
			s.Live = append(s.Live, liveBin{key: key, pct: pct, id: s.nextID})
			s.nextID++
		}
		return ok
	case 4:
		pp := strategy.NewPredicatePartitionWithMetricRegistry(keyName(key), pct, predMatcher(key), s.Reg)
		ok := s.predicate.AddPartition(pp)
		if ok {
			s.Live = append(s.Live, liveBin{key: key, pct: pct, pred: pp, id: s.nextID})
			s.nextID++
		}
		return ok
	}
	return false
}
func (s *SUT) RemovePartition(key int64) (int64, bool) {
	keep := func() {
		var l []liveBin
		removedOne := false
		for _, b := range s.Live {
			if b.key == key && (s.Cfg.Kind == 4 || !removedOne) {
				removedOne = true
				continue
			}
			l = append(l, b)
		}
		s.Live = l
	}
	switch s.Cfg.Kind {
	case 3:
		n, ok := s.lookup.RemovePartition(keyName(key))
		if ok {
			keep()
		}
		return int64(n), ok
	case 4:
		rem, ok := s.predicate.RemovePartitionsMatching(s.Ctx(key))
		if ok {
			keep()
		}
		return int64(len(rem)), ok
	}
	return 0, false
}

// ---- configuration generator ----
func GenStratCfg(r *Rng, kind int) StratCfg {
	c := StratCfg{Kind: kind, Total: r.Pick(1, 1, 2, 3, 4, 5, 8, 10, 20, 100)}
	if kind >= 3 {
		n := 1 + r.Intn(4)
		rem := 1.0
		grid := []float64{0, 0.1, 0.2, 0.25, 0.3, 1.0 / 3, 0.5, 0.7, 0.05}
		for i := 0; i < n; i++ {
			p := grid[r.Intn(len(grid))]
			if r.Bool(25) {
				p = r.Float() * rem
			}
			if p > rem {
				p = rem
			}
			rem -= p
			key := int64(i + 1)
			if kind == 4 && i > 0 && r.Bool(25) {
				key = int64(r.Intn(i) + 1) // overlapping predicates: several bins match one request
			}
			c.Parts = append(c.Parts, PartSpec{key, p})
		}
	}
	return c
}

// ---- scripted limit double ----
type scriptLimit struct {
	est     int
	next    int // the estimate the algorithm will report once it has processed its next sample (hasNext)
	hasNext bool
	calls   [][]int64 // rtt, inflight, drop
	onSet   func()
}

// Script sets the estimate the double reports from its next OnSample on (an algorithm changes its estimate while processing a sample).
func (l *scriptLimit) Script(v int) { l.next, l.hasNext = v, true }

// Want is the estimate the double reports after its next sample.
func (l *scriptLimit) Want() int {
	if l.hasNext {
		return l.next
	}
	return l.est
}

func (l *scriptLimit) EstimatedLimit() int                     { return l.est }
func (l *scriptLimit) NotifyOnChange(core.LimitChangeListener) {}
func (l *scriptLimit) OnSample(start, rtt int64, inflight int, drop bool) {
	if l.hasNext {
		l.est, l.hasNext = l.next, false
	}
	l.calls = append(l.calls, []int64{rtt, int64(inflight), B(drop)})
	if l.onSet != nil {
		l.onSet()
	}
}

type LimCfg struct {
	S                      StratCfg
	MinW, MaxW, Thr, WSize int64
	Est0                   int64
}

func (c LimCfg) Ints() []int64 { return append(c.S.Ints(), c.MinW, c.MaxW, c.Thr, c.WSize, c.Est0) }

type LimSUT struct {
	Cfg       LimCfg
	S         *SUT
	Lim       *limiter.DefaultLimiter
	Script    *scriptLimit
	Listeners []core.Listener
	Done      []bool
	Starts    []int64 // acquire time of listener k
	CMI       []int64 // in-flight gauge right after listener k was granted
	acqCount  int
	BinOf     []int // partition object charged for listener k (-1: <unknown> or unpartitioned)
}

func NewLimSUT(c LimCfg) (*LimSUT, error) {
	s, err := NewSUT(c.S)
	if err != nil {
		return nil, err
	}
	sl := &scriptLimit{est: int(c.Est0)}
	l, err := limiter.NewDefaultLimiter(sl, c.MinW, c.MaxW, c.Thr, int(c.WSize), s.Strat, nil, s.Reg)
	if err != nil {
		return nil, err
	}
	return &LimSUT{Cfg: c, S: s, Lim: l, Script: sl}, nil
}
func (l *LimSUT) State() []int64 { return append([]int64{l.Lim.VerifInFlight()}, l.S.State()...) }
func (l *LimSUT) Acquire(key int64) (bool, int64) {
	now := time.Now().UnixNano()
	ctx := l.S.Ctx(key)
	l.acqCount++
	if l.acqCount%5 == 3 {
		// the default limiter does not look at cancellation: an already-cancelled context is as good as any
		c2, cancel := context.WithCancel(ctx)
		cancel()
		ctx = c2
	}
	binID := -1
	if fl := l.S.firstLive(key); fl >= 0 {
		binID = l.S.Live[fl].id
	}
	ls, ok := l.Lim.Acquire(ctx)
	if ok != (ls != nil) {
		panic("listener returned iff ok violated")
	}
	if ok {
		l.Listeners = append(l.Listeners, ls)
		l.Done = append(l.Done, false)
		l.Starts = append(l.Starts, now)
		l.CMI = append(l.CMI, l.Lim.VerifInFlight())
		l.BinOf = append(l.BinOf, binID)
	}
	return ok, now
}

// Complete returns the delegate call made (nil if none) and the time used.
func (l *LimSUT) Complete(k int, outcome int64) ([]int64, int64) {
	now := time.Now().UnixNano()
	n := len(l.Script.calls)
	switch outcome {
	case 0:
		l.Listeners[k].OnSuccess()
	case 1:
		l.Listeners[k].OnIgnore()
	default:
		l.Listeners[k].OnDropped()
	}
	l.Done[k] = true
	if len(l.Script.calls) > n {
		return l.Script.calls[len(l.Script.calls)-1], now
	}
	return nil, now
}

func GenLimCfg(r *Rng, kind int) LimCfg {
	c := LimCfg{S: GenStratCfg(r, kind)}
	c.MinW = r.Pick(1_000_000, 10_000_000, 100_000_000, 1_000_000_000)
	c.MaxW = c.MinW * r.Pick(1, 1, 2, 10)
	c.Thr = r.Pick(0, 0, 1000, 100_000, 1_000_000)
	c.WSize = r.Pick(10, 10, 11, 12, 15)
	c.Est0 = r.Pick(1, 2, 3, 5, 10, 20, 0, -2) // a limit may report 0 or a negative estimate from the start: the strategy then enforces 1
	return c
}
