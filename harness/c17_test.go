package harness

import (
	"context"
	"fmt"
	"runtime"
	"strings"
	"sync"
	"testing"
	"time"

	gometrics "github.com/rcrowley/go-metrics"

	"github.com/platinummonkey/go-concurrency-limits/core"
	"github.com/platinummonkey/go-concurrency-limits/limit"
	"github.com/platinummonkey/go-concurrency-limits/limiter"
	"github.com/platinummonkey/go-concurrency-limits/measurements"
	ddreg "github.com/platinummonkey/go-concurrency-limits/metric_registry/datadog"
	gmreg "github.com/platinummonkey/go-concurrency-limits/metric_registry/gometrics"
	"github.com/platinummonkey/go-concurrency-limits/strategy"
	"github.com/platinummonkey/go-concurrency-limits/strategy/matchers"
)

// C17 dynamic cross-check: goroutines call mixes of exported methods on shared instances; run under `go test -race`.
// (The deciding obligation is the static lock-set discipline over Gen/Access.v; this run looks for a concrete race.)
func hammer(t *testing.T, name string, dur time.Duration, fns ...func(i int)) int {
	var wg sync.WaitGroup
	stop := make(chan struct{})
	var calls int64
	var mu sync.Mutex
	for g, f := range fns {
		for k := 0; k < 2; k++ {
			wg.Add(1)
			go func(f func(int), g int) {
				defer wg.Done()
				n := 0
				for i := 0; ; i++ {
					select {
					case <-stop:
						mu.Lock()
						calls += int64(n)
						mu.Unlock()
						return
					default:
					}
					func() {
						defer func() { _ = recover() }()
						f(i)
					}()
					n++
				}
			}(f, g)
		}
	}
	time.Sleep(dur)
	close(stop)
	done := make(chan struct{})
	go func() { wg.Wait(); close(done) }()
	select {
	case <-done:
	case <-time.After(30 * time.Second):
		// a call never returned (e.g. a method that locks a copy of an already locked mutex): keep the stacks, give up on the scenario
		buf := make([]byte, 1<<20)
		hammerStuck = string(buf[:runtime.Stack(buf, true)])
		return -1
	}
	return int(calls)
}

var hammerStuck string

func TestC17(t *testing.T) {
	rep := NewReport("C17")
	defer rep.Write(t)
	d := time.Duration(Scale(250, 3000)) * time.Millisecond
	s := func(x interface{}) { _ = fmt.Sprint(x) }
	cb := func(int) {}
	stuck := false
	run := func(name string, fns ...func(int)) {
		if stuck {
			return
		}
		n := hammer(t, name, d, fns...)
		if n < 0 {
			stuck = true
			st := hammerStuck
			if i := strings.Index(st, "go-concurrency-limits/"); i > 600 {
				st = st[i-600:]
			}
			if len(st) > 3000 {
				st = st[:3000]
			}
			rep.Violate("c17:call-never-returns:"+name, fmt.Sprintf("scenario %s: 30 s after the goroutines were told to stop, a call on the shared instance has not returned", name), map[string]interface{}{"component": "race-stress", "scenario": name, "stacks": st})
			return
		}
		rep.Evaluations += n
		rep.Distinct("scenario", name)
		rep.CountN(name+".calls", n)
	}
	reg := func() core.MetricRegistry { return newSyncRegistry() }
	// limits
	{
		l := limit.NewAIMDLimit("a", 10, 0.9, 1, reg())
		run("aimd", func(i int) { l.OnSample(0, 1000, i%20, i%7 == 0) }, func(int) { l.EstimatedLimit() }, func(int) { l.NotifyOnChange(cb) }, func(int) { s(l) }, func(int) { l.BackOffRatio() })
	}
	{
		l := limit.NewDefaultVegasLimit("v", nil, reg())
		run("vegas", func(i int) { l.OnSample(0, int64(1000+i%50), i%40, i%11 == 0) }, func(int) { l.EstimatedLimit() }, func(int) { l.NotifyOnChange(cb) }, func(int) { s(l) }, func(int) { l.RTTNoLoad() })
	}
	{
		l := limit.NewGradientLimitWithRegistry("g", 50, 1, 200, 0.2, nil, 2, 5, nil, reg())
		run("gradient", func(i int) { l.OnSample(0, int64(1000+i%50), i%80, i%13 == 0) }, func(int) { l.EstimatedLimit() }, func(int) { l.NotifyOnChange(cb) }, func(int) { s(l) }, func(int) { l.RTTNoLoad() })
	}
	{
		// two separate instances used from different goroutines: anything they share behind the scenes (package-level state) must be safe too
		a := limit.NewGradientLimitWithRegistry("ga", 50, 1, 200, 0.2, nil, 2, 1, nil, reg())
		b := limit.NewGradientLimitWithRegistry("gb", 50, 1, 200, 0.2, nil, 2, 1, nil, reg())
		va := limit.NewVegasLimitWithRegistry("va", 2, nil, 50, 1.0, nil, nil, nil, nil, nil, 1, nil, reg())
		vb := limit.NewVegasLimitWithRegistry("vb", 2, nil, 50, 1.0, nil, nil, nil, nil, nil, 1, nil, reg())
		run("two-instances", func(i int) { a.OnSample(0, int64(1000+i%50), i%80, false) }, func(i int) { b.OnSample(0, int64(1000+i%50), i%80, false) },
			func(i int) { va.OnSample(0, int64(1000+i%50), i%5, false) }, func(i int) { vb.OnSample(0, int64(1000+i%50), i%5, false) })
	}
	{
		l := limit.NewDefaultGradient2Limit("g2", nil, reg())
		run("gradient2", func(i int) { l.OnSample(0, int64(1000+i%50), i%80, false) }, func(int) { l.EstimatedLimit() }, func(int) { l.NotifyOnChange(cb) }, func(int) { s(l) })
	}
	{
		l := limit.NewSettableLimit("s", 10, reg())
		run("settable", func(i int) { l.SetLimit(i % 30) }, func(int) { l.EstimatedLimit() }, func(int) { l.NotifyOnChange(cb) }, func(int) { s(l) }, func(i int) { l.OnSample(0, 1, 1, false) })
	}
	{
		inner := limit.NewDefaultVegasLimit("v", nil, reg())
		w, _ := limit.NewWindowedLimit("w", 1e8, 1e8, 10, 0, inner, reg())
		tl := limit.NewTracedLimit(w, limit.NoopLimitLogger{})
		run("windowed+traced", func(i int) { tl.OnSample(int64(i)*1e7, 1e6, 11+i%5, i%9 == 0) }, func(int) { tl.EstimatedLimit() }, func(int) { tl.NotifyOnChange(cb) }, func(int) { s(tl) }, func(int) { s(w) })
	}
	// strategies
	{
		st := strategy.NewSimpleStrategyWithMetricRegistry(5, reg())
		run("simple", func(int) {
			if tk, ok := st.TryAcquire(context.Background()); ok {
				tk.Release()
			}
		}, func(i int) { st.SetLimit(1 + i%9) }, func(int) { st.GetLimit(); st.GetBusyCount() }, func(int) { s(st) })
	}
	{
		st := strategy.NewPreciseStrategyWithMetricRegistry(5, reg())
		run("precise", func(int) {
			if tk, ok := st.TryAcquire(context.Background()); ok {
				tk.Release()
			}
		}, func(i int) { st.SetLimit(1 + i%9) }, func(int) { st.GetLimit(); st.GetBusyCount() }, func(int) { s(st) })
	}
	{
		r := reg()
		parts := map[string]*strategy.LookupPartition{"a": strategy.NewLookupPartitionWithMetricRegistry("a", 0.3, 1, r), "b": strategy.NewLookupPartitionWithMetricRegistry("b", 0.3, 1, r)}
		st, _ := strategy.NewLookupPartitionStrategyWithMetricRegistry(parts, nil, 8, r)
		ctx := func(k string) context.Context {
			return context.WithValue(context.Background(), matchers.LookupPartitionContextKey, k)
		}
		pa := parts["a"]
		run("lookup", func(i int) {
			if tk, ok := st.TryAcquire(ctx([]string{"a", "b", "zz", "c"}[i%4])); ok {
				tk.Release()
			}
		}, func(i int) { st.SetLimit(1 + i%9) }, func(int) { st.Limit(); st.BusyCount(); st.BinLimit("a"); st.BinBusyCount("b") }, func(int) { s(st) },
			func(i int) {
				if i%2 == 0 {
					st.AddPartition("c", strategy.NewLookupPartitionWithMetricRegistry("c", 0.1, 1, r))
				} else {
					st.RemovePartition("c")
				}
			}, func(int) {
				s(pa)
				pa.Limit()
				pa.BusyCount()
				pa.Name()
				pa.Percent()
				pa.IsLimitExceeded()
			})
	}
	{
		r := reg()
		pa := strategy.NewPredicatePartitionWithMetricRegistry("a", 0.3, matchers.StringPredicateMatcher("a", false), r)
		pb := strategy.NewPredicatePartitionWithMetricRegistry("b", 0.3, matchers.StringPredicateMatcher("b", false), r)
		st, _ := strategy.NewPredicatePartitionStrategyWithMetricRegistry([]*strategy.PredicatePartition{pa, pb}, 8, r)
		ctx := func(k string) context.Context {
			return context.WithValue(context.Background(), matchers.StringPredicateContextKey, k)
		}
		run("predicate", func(i int) {
			if tk, ok := st.TryAcquire(ctx([]string{"a", "b", "zz", "c"}[i%4])); ok {
				tk.Release()
			}
		}, func(i int) { st.SetLimit(1 + i%9) }, func(int) { st.Limit(); st.BusyCount(); st.BinLimit(0); st.BinBusyCount(0) }, func(int) { s(st) },
			func(i int) {
				if i%2 == 0 {
					st.AddPartition(strategy.NewPredicatePartitionWithMetricRegistry("c", 0.1, matchers.StringPredicateMatcher("c", false), r))
				} else {
					st.RemovePartitionsMatching(ctx("c"))
				}
			}, func(int) {
				s(pa)
				pa.Limit()
				pa.BusyCount()
				pa.Name()
				pa.Percent()
				pa.IsLimitExceeded()
			})
	}
	// limiters
	{
		dl, _ := limiter.NewDefaultLimiter(limit.NewDefaultVegasLimit("v", nil, reg()), 1e6, 1e6, 0, 10, strategy.NewSimpleStrategy(6), nil, reg())
		bl := limiter.NewBlockingLimiter(dl, time.Millisecond, nil)
		q := limiter.NewQueueBlockingLimiterFromConfig(dl, limiter.QueueLimiterConfig{MaxBacklogSize: 4, MaxBacklogTimeout: time.Millisecond, MetricRegistry: reg()})
		use := func(l core.Limiter, i int) {
			ctx, cancel := context.WithTimeout(context.Background(), 2*time.Millisecond)
			defer cancel()
			if ls, ok := l.Acquire(ctx); ok {
				switch i % 3 {
				case 0:
					ls.OnSuccess()
				case 1:
					ls.OnIgnore()
				default:
					ls.OnDropped()
				}
			}
		}
		run("limiters", func(i int) { use(dl, i) }, func(i int) { use(bl, i) }, func(i int) { use(q, i) }, func(int) { dl.EstimatedLimit(); s(dl) }, func(int) { s(q); s(bl) })
	}
	// measurements
	{
		mm := &measurements.MinimumMeasurement{}
		sm := &measurements.SingleMeasurement{}
		ea := measurements.NewExponentialAverageMeasurement(10, 3)
		ma, _ := measurements.NewSimpleExponentialMovingAverage(0.1)
		mv, _ := measurements.NewSimpleMovingVariance(0.1, 0.1)
		mp, _ := measurements.NewWindowlessMovingPercentile(0.9, 0.01, 0.1, 0.1)
		all := []core.MeasurementInterface{mm, sm, ea, ma, mv, mp}
		op := func(v float64) float64 { return v * 0.5 }
		run("measurements", func(i int) { all[i%6].Add(float64(1 + i%100)) }, func(i int) { all[i%6].Get() }, func(i int) { all[i%6].Reset() }, func(i int) { all[i%6].Update(op) },
			func(i int) { s(mm); s(sm); s(ea) })
	}
	// registries
	{
		mr, _ := gmreg.NewGoMetricsMetricRegistry(gometrics.NewRegistry(), "", "p", time.Millisecond)
		run("gometrics-registry", func(i int) { mr.RegisterDistribution(fmt.Sprint("d", i%5)).AddSample(1) }, func(i int) { mr.RegisterTiming(fmt.Sprint("t", i%5)).AddSample(1) },
			func(i int) { mr.RegisterCount(fmt.Sprint("c", i%5)).AddSample(1) }, func(i int) { mr.RegisterGauge(fmt.Sprint("g", i%3000), func() (float64, bool) { return 1, true }) },
			func(i int) {
				if i%2 == 0 {
					mr.Start()
				} else {
					mr.Stop()
				}
			})
		mr.Stop()
	}
	{
		if mr, err := ddreg.NewMetricRegistry("127.0.0.1:18125", "p", time.Millisecond); err == nil {
			run("datadog-registry", func(i int) { mr.RegisterDistribution(fmt.Sprint("d", i%5)).AddSample(1) }, func(i int) { mr.RegisterTiming(fmt.Sprint("t", i%5)).AddSample(1) },
				func(i int) { mr.RegisterCount(fmt.Sprint("c", i%5)).AddSample(1) }, func(i int) { mr.RegisterGauge(fmt.Sprint("g", i%3000), func() (float64, bool) { return 1, true }) },
				func(i int) {
					if i%2 == 0 {
						mr.Start()
					} else {
						mr.Stop()
					}
				})
			mr.Stop()
		}
	}
	rep.Sample(map[string]interface{}{"scenarios": rep.Nontrivial, "duration_ms_each": d.Milliseconds()})
}

// a goroutine-safe registry double (the recording registry of the sequential drivers is not synchronised)
type syncRegistry struct{ mu sync.Mutex }
type syncListener struct{}

func newSyncRegistry() *syncRegistry              { return &syncRegistry{} }
func (syncListener) AddSample(float64, ...string) {}
func (r *syncRegistry) RegisterDistribution(string, ...string) core.MetricSampleListener {
	return syncListener{}
}
func (r *syncRegistry) RegisterTiming(string, ...string) core.MetricSampleListener {
	return syncListener{}
}
func (r *syncRegistry) RegisterCount(string, ...string) core.MetricSampleListener {
	return syncListener{}
}
func (r *syncRegistry) RegisterGauge(string, core.MetricSupplier, ...string) {}
func (r *syncRegistry) Start()                                               {}
func (r *syncRegistry) Stop()                                                {}
