package harness

import (
	"fmt"
	"math"
	"strings"

	"github.com/platinummonkey/go-concurrency-limits/core"
	"github.com/platinummonkey/go-concurrency-limits/limit"
)

// ---- recording metric registry ----
type emission struct {
	Kind int64
	Bits int64
}
type recRegistry struct {
	Log      []emission
	Gauges   map[string]core.MetricSupplier
	gaugeIDs []string
	Started  int
	Stopped  int
}

func newRecRegistry() *recRegistry { return &recRegistry{Gauges: map[string]core.MetricSupplier{}} }

type recSampleListener struct {
	reg  *recRegistry
	kind int64
}

func (l *recSampleListener) AddSample(v float64, tags ...string) {
	l.reg.Log = append(l.reg.Log, emission{l.kind, FBits(v)})
}

// metric IDs are "<name>.<metric>"; name "outer" marks the wrapping limit (+10)
func metricKind(id string, reg string) int64 {
	off := int64(0)
	name := id
	if i := strings.Index(id, "."); i >= 0 {
		name = id[i+1:]
		if id[:i] == "outer" {
			off = 10
		}
	}
	var k int64
	switch name {
	case core.MetricRTT:
		k = 1
	case core.MetricInFlight:
		k = 2
	case core.MetricDropped:
		k = 3
	case core.MetricMinRTT:
		k = 4
	case core.MetricWindowMinRTT:
		k = 5
	case core.MetricWindowQueueSize:
		k = 6
	default:
		k = 9
	}
	// the registration kind must match the metric (timing for rtt, count for dropped, distribution otherwise)
	want := "dist"
	if k == 1 {
		want = "timing"
	} else if k == 3 {
		want = "count"
	}
	if reg != want {
		k += 50
	}
	return k + off
}
func (r *recRegistry) RegisterDistribution(ID string, tags ...string) core.MetricSampleListener {
	return &recSampleListener{r, metricKind(ID, "dist")}
}
func (r *recRegistry) RegisterTiming(ID string, tags ...string) core.MetricSampleListener {
	return &recSampleListener{r, metricKind(ID, "timing")}
}
func (r *recRegistry) RegisterCount(ID string, tags ...string) core.MetricSampleListener {
	return &recSampleListener{r, metricKind(ID, "count")}
}
func (r *recRegistry) RegisterGauge(ID string, supplier core.MetricSupplier, tags ...string) {
	key := ID
	if len(tags) > 0 {
		key = ID + "|" + strings.Join(tags, ",")
	}
	r.Gauges[key] = supplier
	r.gaugeIDs = append(r.gaugeIDs, key)
}
func (r *recRegistry) Start() { r.Started++ }
func (r *recRegistry) Stop()  { r.Stopped++ }

// ---- limit under test ----
type LimitCfg struct {
	Wrapper int   // 0 plain, 1 traced, 2 windowed, 3 traced(windowed)
	MinW    int64 // windowed parameters
	MaxW    int64
	WSize   int64
	Thr     int64
	Kind    int     // 0 AIMD 1 Vegas 2 Gradient 3 Gradient2 4 Settable 5 Fixed
	P       []int64 // constructor arguments (floats as bits); the harness appends the initial jitter / countdown
}

func (c LimitCfg) Ints() []int64 {
	return append([]int64{int64(c.Wrapper), c.MinW, c.MaxW, c.WSize, c.Thr, int64(c.Kind)}, c.P...)
}

var limitKindNames = []string{"aimd", "vegas", "gradient", "gradient2", "settable", "fixed"}

type LUT struct {
	Cfg       LimitCfg
	Outer     core.Limit
	Inner     core.Limit
	Reg       *recRegistry
	Listeners []*[]int64
	vegas     *limit.VegasLimit
	grad      *limit.GradientLimit
	grad2     *limit.Gradient2Limit
	settable  *limit.SettableLimit
	windowed  *limit.WindowedLimit
	Dead      bool
	Now       int64
	// normalised configuration (as the constructors substitute defaults)
	MinL, MaxL, Initial int64
	Smooth              float64
	Interval            int64
	Mult                int64
}

func fb(bits int64) float64 { return math.Float64frombits(uint64(bits)) }

func NewLUT(cfg LimitCfg) (*LUT, error) {
	l := &LUT{Cfg: cfg, Reg: newRecRegistry(), Now: 1_000_000_000}
	p := cfg.P
	switch cfg.Kind {
	case 0:
		l.Inner = limit.NewAIMDLimit("inner", int(p[0]), fb(p[2]), int(p[1]), l.Reg)
		l.Initial, l.MinL, l.MaxL = p[0], 1, math.MaxInt32
	case 1:
		v := limit.NewVegasLimitWithRegistry("inner", int(p[0]), nil, int(p[1]), fb(p[3]), nil, nil, nil, nil, nil, int(p[2]), nil, l.Reg)
		l.vegas, l.Inner = v, v
		_, jb, _ := v.VerifState()
		l.Cfg.P = append(append([]int64{}, p[:4]...), int64(jb))
		l.Initial, l.MinL, l.MaxL, l.Smooth, l.Mult = p[0], 1, p[1], fb(p[3]), p[2]
		if l.Initial < 1 {
			l.Initial = 20
		}
		if l.MaxL < 0 {
			l.MaxL = 1000
		}
		if l.Mult <= 0 {
			l.Mult = 30
		}
		if !(l.Smooth >= 0 && l.Smooth <= 1) && !math.IsNaN(l.Smooth) {
			l.Smooth = 1
		}
	case 2:
		g := limit.NewGradientLimitWithRegistry("inner", int(p[0]), int(p[1]), int(p[2]), fb(p[4]), nil, fb(p[5]), int(p[3]), nil, l.Reg)
		l.grad, l.Inner = g, g
		_, c := g.VerifState()
		l.Cfg.P = append(append([]int64{}, p[:6]...), int64(c))
		l.Initial, l.MinL, l.MaxL, l.Interval, l.Smooth = p[0], p[1], p[2], p[3], fb(p[4])
		if l.Initial <= 0 {
			l.Initial = 50
		}
		if l.MinL < 1 {
			l.MinL = 1
		}
		if l.MaxL <= 0 {
			l.MaxL = 1000
		}
		if l.Interval == 0 {
			l.Interval = 1000
		}
		if l.Smooth < 0 || l.Smooth > 1 {
			l.Smooth = 0.2
		}
	case 3:
		g, err := limit.NewGradient2Limit("inner", int(p[0]), int(p[1]), int(p[2]), nil, fb(p[4]), int(p[3]), nil, l.Reg)
		if err != nil {
			return nil, err
		}
		l.grad2, l.Inner = g, g
		l.Initial, l.MaxL, l.MinL, l.Smooth = p[0], p[1], p[2], fb(p[4])
		if l.Initial <= 0 {
			l.Initial = 4
		}
		if l.MaxL <= 0 {
			l.MaxL = 1000
		}
		if l.MinL <= 0 {
			l.MinL = 4
		}
		if l.Smooth < 0 || l.Smooth > 1 {
			l.Smooth = 0.2
		}
	case 4:
		s := limit.NewSettableLimit("inner", int(p[0]), l.Reg)
		l.settable, l.Inner = s, s
	default:
		l.Inner = limit.NewFixedLimit("inner", int(p[0]), l.Reg)
	}
	l.Outer = l.Inner
	if cfg.Wrapper == 2 || cfg.Wrapper == 3 {
		w, err := limit.NewWindowedLimit("outer", cfg.MinW, cfg.MaxW, int32(cfg.WSize), cfg.Thr, l.Inner, l.Reg)
		if err != nil {
			return nil, err
		}
		l.windowed, l.Outer = w, w
	}
	if cfg.Wrapper == 1 || cfg.Wrapper == 3 {
		l.Outer = limit.NewTracedLimit(l.Outer, limit.NoopLimitLogger{})
	}
	return l, nil
}

// EstFloat returns the algorithm's stored (float) estimate.
func (l *LUT) EstFloat() float64 {
	switch {
	case l.vegas != nil:
		b, _, _ := l.vegas.VerifState()
		return math.Float64frombits(b)
	case l.grad != nil:
		b, _ := l.grad.VerifState()
		return math.Float64frombits(b)
	case l.grad2 != nil:
		return math.Float64frombits(l.grad2.VerifState())
	}
	return float64(l.Inner.EstimatedLimit())
}
func (l *LUT) NoLoad() int64 {
	switch {
	case l.vegas != nil:
		return l.vegas.RTTNoLoad()
	case l.grad != nil:
		return l.grad.RTTNoLoad()
	}
	return 0
}

type SampleObs struct {
	Args     []int64
	Obs      []int64
	Panicked bool
	PanicVal string
	Est      int64
	NoLoad   int64
	Notified [][]int64 // per listener
	Emitted  []emission
	Probe    bool // the algorithm reset its baseline in this step
}

func (l *LUT) OnSample(start, rtt int64, inflight int64, drop bool) SampleObs {
	var o SampleObs
	eb := l.EstFloat()
	lgi := math.Log10(float64(int(eb)))
	lgf := math.Log10(eb)
	l.Reg.Log = nil
	for _, ls := range l.Listeners {
		*ls = (*ls)[:0]
	}
	func() {
		defer func() {
			if r := recover(); r != nil {
				o.Panicked = true
				o.PanicVal = fmt.Sprint(r)
			}
		}()
		l.Outer.OnSample(start, rtt, int(inflight), drop)
	}()
	var draw int64
	if l.vegas != nil {
		_, jb, pc := l.vegas.VerifState()
		draw = int64(jb)
		o.Probe = pc == 0
	} else if l.grad != nil {
		_, c := l.grad.VerifState()
		draw = int64(c)
	}
	o.Args = []int64{start, rtt, inflight, B(drop), draw, FBits(lgi), FBits(lgf)}
	if o.Panicked {
		l.Dead = true
		o.Obs = []int64{1}
		return o
	}
	o.Est = int64(l.Outer.EstimatedLimit())
	o.NoLoad = l.NoLoad()
	o.Emitted = append([]emission{}, l.Reg.Log...)
	obs := []int64{0, o.Est, o.NoLoad, int64(len(l.Listeners))}
	for _, ls := range l.Listeners {
		o.Notified = append(o.Notified, append([]int64{}, (*ls)...))
		obs = append(obs, int64(len(*ls)))
		obs = append(obs, (*ls)...)
	}
	obs = append(obs, int64(len(o.Emitted)))
	for _, e := range o.Emitted {
		obs = append(obs, e.Kind, e.Bits)
	}
	o.Obs = obs
	return o
}

func (l *LUT) Notify() (args, obs []int64) {
	log := &[]int64{}
	l.Listeners = append(l.Listeners, log)
	l.Outer.NotifyOnChange(func(v int) { *log = append(*log, int64(v)) })
	return nil, []int64{int64(len(l.Listeners))}
}

func (l *LUT) SetLimit(v int64) (args, obs []int64, notified [][]int64) {
	for _, ls := range l.Listeners {
		*ls = (*ls)[:0]
	}
	l.settable.SetLimit(int(v))
	obs = []int64{int64(l.Outer.EstimatedLimit()), int64(len(l.Listeners))}
	for _, ls := range l.Listeners {
		notified = append(notified, append([]int64{}, (*ls)...))
		obs = append(obs, int64(len(*ls)))
		obs = append(obs, (*ls)...)
	}
	return []int64{v}, obs, notified
}

// ---- configuration generators ----
func randSmooth(r *Rng) float64 {
	switch r.Intn(6) {
	case 0:
		return 1.0
	case 1:
		return 0.2
	case 2:
		return 0.013 + r.Float()*0.05
	case 3:
		return 0.5
	default:
		return 0.05 + 0.95*r.Float()
	}
}

// GenLimitCfg: a valid configuration of the given algorithm kind (valid in the sense of C04's quantifier).
func GenLimitCfg(r *Rng, kind int, wrapper int) LimitCfg {
	c := LimitCfg{Wrapper: wrapper, Kind: kind, MinW: 1e8 * (1 + int64(r.Intn(10))), WSize: 10 + int64(r.Intn(4)), Thr: r.Pick(0, 0, 1000, 100000)}
	c.MaxW = c.MinW * r.Pick(1, 1, 2, 5)
	switch kind {
	case 0:
		ratio := []float64{0.9, 0.5, 1.0, 0.99, 0.1, 0.75}[r.Intn(6)]
		if r.Bool(30) {
			ratio = 0.05 + 0.95*r.Float()
		}
		c.P = []int64{r.Pick(1, 2, 10, 10, 50, 200), r.Pick(1, 1, 1, 2, 5, 0), FBits(ratio)}
	case 1:
		maxc := r.Pick(-1, 20, 50, 200, 1000, 1500, 3000)
		initial := r.Pick(-1, 1, 2, 10, 20, 20, 100)
		if maxc >= 0 && initial > maxc {
			initial = maxc
		}
		if maxc == 0 {
			maxc = 1
		}
		c.P = []int64{initial, maxc, r.Pick(-1, 1, 2, 5, 30, 30), FBits(randSmooth(r))}
	case 2:
		minl := r.Pick(0, 1, 1, 4, 10, 20)
		maxc := r.Pick(0, 30, 100, 200, 1000, 1000, 1200, 2500)
		if maxc > 0 && maxc < 40 {
			minl = r.Pick(1, 4)
		}
		initial := r.Pick(0, 4, 10, 50, 50, 100)
		if initial > 0 && initial < minl {
			initial = minl
		}
		if maxc > 0 && initial > maxc {
			initial = maxc
		}
		if maxc > 0 && minl > maxc {
			minl = 1
		}
		tol := []float64{2.0, 1.0, 1.5, 0.5, 3.0, -1}[r.Intn(6)]
		c.P = []int64{initial, minl, maxc, r.Pick(0, -1, 3, 7, 20, 100, 1000), FBits(randSmooth(r)), FBits(tol)}
	case 3:
		minl := r.Pick(0, 1, 4, 20, 20)
		maxc := r.Pick(0, 50, 200, 200, 1000, 2000)
		if maxc > 0 && minl > maxc {
			minl = 4
		}
		initial := r.Pick(0, 4, 20, 20, 50, 100)
		if initial == 0 && minl > 4 {
			minl = 4
		}
		mn := minl
		if mn <= 0 {
			mn = 4
		}
		if initial > 0 && initial < mn {
			initial = mn
		}
		if maxc > 0 && initial > maxc {
			initial = maxc
		}
		c.P = []int64{initial, maxc, minl, r.Pick(-1, 1, 5, 50, 100, 600), FBits(randSmooth(r))}
	case 4:
		c.P = []int64{r.Pick(-1, 0, 1, 10, 100)}
	default:
		c.P = []int64{r.Pick(-1, 0, 1, 10, 100)}
	}
	return c
}

// ---- sample stream generator: structured phases + boundary-targeted + edge values ----
type Stream struct {
	r        *Rng
	l        *LUT
	base     int64 // current "true" service latency in ns
	phase    int   // 0 steady saturated, 1 idle, 2 overload (rising latency), 3 drop burst, 4 boundary hunting, 5 edge
	phaseLen int
	EdgePct  int // share of edge values (rtt = 0, huge values)
}

func NewStream(r *Rng, l *LUT) *Stream {
	return &Stream{r: r, l: l, base: r.Pick(200_000, 1_000_000, 5_000_000, 20_000_000), EdgePct: 4}
}

func (s *Stream) Next() (start, rtt, inflight int64, drop bool) {
	r := s.r
	if s.phaseLen <= 0 {
		s.phase = []int{0, 0, 1, 2, 3, 4, 4, 5, 6}[r.Intn(9)]
		s.phaseLen = 3 + r.Intn(40)
		if s.phase == 6 {
			s.phaseLen = 60 + r.Intn(400) // long healthy climb towards the ceiling
		}
		if r.Bool(15) {
			s.base = r.Pick(150_000, 400_000, 1_000_000, 3_000_000, 30_000_000)
		}
	}
	s.phaseLen--
	est := s.l.EstFloat()
	if math.IsNaN(est) || math.IsInf(est, 0) || est > 1e12 || est < -1e12 {
		est = 10
	}
	ei := int64(est)
	noise := func() int64 { return s.base + r.Range(0, s.base/5+1) }
	sat := func() int64 { return ei + r.Range(0, 3) }
	switch s.phase {
	case 0:
		rtt, inflight = noise(), sat()
	case 1:
		rtt, inflight = noise(), r.Range(0, ei/2)
		if inflight > 0 && r.Bool(50) {
			inflight = r.Range(0, 2)
		}
	case 2:
		rtt, inflight = s.base*r.Range(2, 8)+r.Range(0, 1000), sat()
	case 3:
		rtt, inflight, drop = noise(), r.Pick(0, ei/3, ei, ei+2), true
		if r.Bool(30) {
			rtt = r.Pick(0, 1, s.base/2)
		}
	case 6:
		nl := s.l.NoLoad()
		if nl <= 0 {
			nl = s.base
		}
		rtt, inflight = nl, ei+r.Range(0, 2)
	case 4:
		// boundary hunting: in-flight around est/2, est; RTT around the baseline and around Vegas' queue thresholds
		inflight = r.Pick(ei/2-1, ei/2, ei/2+1, (ei+1)/2, ei-1, ei, ei+1)
		nl := s.l.NoLoad()
		if nl <= 0 {
			nl = s.base
		}
		switch r.Intn(6) {
		case 0:
			rtt = nl
		case 1:
			rtt = nl - 1
		case 2:
			rtt = nl + 1
		default:
			// choose a target queue size q and solve rtt = noload / (1 - q/est)
			q := float64(r.Pick(0, 1, 2, 3, 4, 5, 6, 7, 11, 12, 13))
			if est > q+0.5 {
				rtt = int64(float64(nl)/(1-q/est)) + r.Range(-1, 1)
			} else {
				rtt = nl * 3
			}
		}
		drop = r.Bool(10)
	default:
		rtt = r.Pick(0, 0, 1, 2, 999, 1<<53+1, 1<<62, 1<<62-1, s.base)
		inflight = r.Pick(0, 1, ei, 1<<31-1, 1<<31-2)
		drop = r.Bool(30)
	}
	if inflight < 0 {
		inflight = 0
	}
	if rtt < 0 {
		rtt = 0
	}
	if s.phase != 5 && s.phase != 6 && r.Intn(100) < s.EdgePct {
		rtt = r.Pick(0, 1, 1<<62)
	}
	s.l.Now += r.Range(1, 50_000_000)
	start = s.l.Now
	if r.Bool(6) {
		// samples need not arrive in start-time order (a slow request finishes after faster ones that started later)
		start = s.l.Now - r.Range(1, 400_000_000)
		if start < 0 {
			start = 0
		}
	}
	return
}
