package harness

import (
	"fmt"
	"runtime"
	"sync"
	"testing"
	"time"

	"github.com/platinummonkey/go-concurrency-limits/core"
	"github.com/platinummonkey/go-concurrency-limits/limit"
)

// Concurrent use of one limit instance.  OnSample is a read-modify-write of the estimate: k identical samples delivered from
// several goroutines must leave the algorithm where k sequential deliveries of the same sample leave a twin instance (identical
// operations commute, so every linearisation gives that result).  With drop samples only, the estimate moreover never goes up
// between two reads ordered in real time; with samples whose in-flight equals the initial limit only the first one may raise.

// slowRegistry: a metrics backend whose sample listeners take a little time (widens the windows between the locks of OnSample)
type slowRegistry struct{}
type slowListener struct{}

func (slowListener) AddSample(v float64, tags ...string) {
	for i := 0; i < 3; i++ {
		runtime.Gosched()
	}
}
func (slowRegistry) RegisterDistribution(string, ...string) core.MetricSampleListener {
	return slowListener{}
}
func (slowRegistry) RegisterTiming(string, ...string) core.MetricSampleListener {
	return slowListener{}
}
func (slowRegistry) RegisterCount(string, ...string) core.MetricSampleListener { return slowListener{} }
func (slowRegistry) RegisterGauge(string, core.MetricSupplier, ...string)      {}
func (slowRegistry) Start()                                                    {}
func (slowRegistry) Stop()                                                     {}

type concKind struct {
	name string
	mk   func(initial int, reg core.MetricRegistry) core.Limit
}

var concKinds = []concKind{
	{"aimd", func(i int, reg core.MetricRegistry) core.Limit { return limit.NewAIMDLimit("c", i, 0.9, 1, reg) }},
	{"vegas", func(i int, reg core.MetricRegistry) core.Limit {
		return limit.NewVegasLimitWithRegistry("c", i, nil, 100000, 1.0, nil, nil, nil, nil, nil, 1<<30, nil, reg)
	}},
	{"gradient", func(i int, reg core.MetricRegistry) core.Limit {
		return limit.NewGradientLimitWithRegistry("c", i, 1, 100000, 0.5, nil, 2.0, -1, nil, reg)
	}},
	{"gradient2", func(i int, reg core.MetricRegistry) core.Limit {
		l, _ := limit.NewGradient2Limit("c", i, 100000, 1, nil, 0.5, 600, nil, reg)
		return l
	}},
}

type concSample struct {
	rtt      int64
	inflight int
	drop     bool
}

// runs k deliveries of s on a fresh instance from g goroutines; returns the final estimate, the sequential twin's estimate and
// whether some goroutine saw the estimate move against `dir` (-1: must never rise, +1: must never fall, 0: no check)
func concRun(kd concKind, initial int, warm []concSample, s concSample, g, per int, dir int) (got, want int, wrongWay string) {
	lim, twin := kd.mk(initial, slowRegistry{}), kd.mk(initial, slowRegistry{})
	for _, w := range warm {
		lim.OnSample(0, w.rtt, w.inflight, w.drop)
		twin.OnSample(0, w.rtt, w.inflight, w.drop)
	}
	var wg sync.WaitGroup
	var mu sync.Mutex
	start := make(chan struct{})
	for i := 0; i < g; i++ {
		wg.Add(1)
		go func() {
			defer wg.Done()
			<-start
			for j := 0; j < per; j++ {
				before := lim.EstimatedLimit()
				lim.OnSample(0, s.rtt, s.inflight, s.drop)
				after := lim.EstimatedLimit()
				if (dir < 0 && after > before) || (dir > 0 && after < before) {
					mu.Lock()
					if wrongWay == "" {
						wrongWay = fmt.Sprintf("%d -> %d", before, after)
					}
					mu.Unlock()
				}
			}
		}()
	}
	close(start)
	wg.Wait()
	for i := 0; i < g*per; i++ {
		twin.OnSample(0, s.rtt, s.inflight, s.drop)
	}
	return lim.EstimatedLimit(), twin.EstimatedLimit(), wrongWay
}

func concDrive(t *testing.T, prop string, mode string) {
	rep := NewReport(prop)
	defer rep.Write(t)
	root := NewRng(Seed())
	iters := Scale(3000, 60000)
	deadline := time.Now().Add(time.Duration(Scale(20, 240)) * time.Second)
	for it := 0; it < iters && time.Now().Before(deadline); it++ {
		r := root.Fork()
		kd := concKinds[r.Intn(len(concKinds))]
		if r.Bool(50) {
			kd = concKinds[0]
		}
		initial := int(r.Pick(10, 20, 57, 100, 1000))
		g, per := int(r.Pick(2, 4, 8)), int(r.Pick(1, 2, 5))
		rtt := r.Pick(1_000_000, 5_000_000)
		warm := []concSample{{rtt, initial, false}} // establishes the baseline of Vegas / Gradient
		var s concSample
		dir := 0
		switch mode {
		case "drop":
			s, dir = concSample{rtt, int(r.Pick(0, int64(initial), int64(2*initial))), true}, -1
			if kd.name == "gradient2" {
				dir = 0 // Gradient2 is not loss-sensitive (C06 names AIMD, Vegas and Gradient): only sequential equivalence is required
			}
		default: // saturated at exactly the initial estimate: only a sample that still sees in-flight >= estimate may raise
			s = concSample{rtt, initial, false}
			if kd.name == "aimd" {
				warm = nil
			}
		}
		got, want, wrong := concRun(kd, initial, warm, s, g, per, dir)
		rep.Evaluations++
		rep.Distinct("concurrent-"+mode, fmt.Sprint(kd.name, initial, g, per, s))
		rp := map[string]interface{}{"component": "limit-concurrent", "algorithm": kd.name, "initial": initial, "goroutines": g, "per_goroutine": per,
			"sample": fmt.Sprintf("%+v", s), "warmup": fmt.Sprintf("%+v", warm)}
		if wrong != "" {
			rep.Violate(kd.name+":concurrent-drop-raised", fmt.Sprintf("with only drop samples in flight a goroutine read the estimate %s around its own drop sample", wrong), rp)
		}
		if got != want {
			rep.Violate(kd.name+":concurrent-"+mode+"-not-sequential",
				fmt.Sprintf("%d goroutines x %d identical samples %+v left the estimate at %d; every sequential order of the same samples gives %d", g, per, s, got, want), rp)
		}
	}
}

func TestC06Concurrent(t *testing.T) { concDrive(t, "C06conc", "drop") }
func TestC07Concurrent(t *testing.T) { concDrive(t, "C07conc", "saturated") }

// ---------------- C16 under concurrency: the last value delivered to a listener equals EstimatedLimit() once the samples are in ----------------
func TestC16Concurrent(t *testing.T) {
	rep := NewReport("C16conc")
	defer rep.Write(t)
	root := NewRng(Seed())
	iters := Scale(1500, 30000)
	deadline := time.Now().Add(time.Duration(Scale(20, 240)) * time.Second)
	for it := 0; it < iters && time.Now().Before(deadline); it++ {
		r := root.Fork()
		kd := concKinds[r.Intn(len(concKinds))]
		initial := int(r.Pick(10, 20, 57, 100))
		g, per := int(r.Pick(2, 4, 8)), int(r.Pick(1, 2, 3))
		rtt := r.Pick(1_000_000, 5_000_000)
		lim := kd.mk(initial, core.EmptyMetricRegistryInstance)
		lim.OnSample(0, rtt, 10000, false) // establishes the baseline
		var mu sync.Mutex
		last, calls := -1, 0
		lim.NotifyOnChange(func(v int) {
			runtime.Gosched() // a slow consumer
			mu.Lock()
			last, calls = v, calls+1
			mu.Unlock()
		})
		var wg sync.WaitGroup
		start := make(chan struct{})
		for i := 0; i < g; i++ {
			wg.Add(1)
			go func(i int) {
				defer wg.Done()
				<-start
				for j := 0; j < per; j++ {
					lim.OnSample(0, rtt, 10000, (i+j)%3 == 2) // saturated growth mixed with drops: the estimate moves on every sample
				}
			}(i)
		}
		close(start)
		wg.Wait()
		rep.Evaluations++
		rep.Distinct("concurrent-notify", fmt.Sprint(kd.name, initial, g, per))
		mu.Lock()
		l, n := last, calls
		mu.Unlock()
		if est := lim.EstimatedLimit(); n > 0 && l != est {
			rep.Violate(kd.name+":concurrent-stale-notification", fmt.Sprintf("after %d goroutines x %d samples the last value delivered to the listener is %d, EstimatedLimit() is %d", g, per, l, est),
				map[string]interface{}{"component": "limit-concurrent", "algorithm": kd.name, "initial": initial, "goroutines": g, "per_goroutine": per})
		}
	}
}
